/-
  Round 4 (composition) — the END-TO-END report theorem of the whole-solver model when PRESOLVE
  DROPS ROWS (lemma form).

  Pieces composed:
  * `Presolve.presolve_transparent_model_full` (C09): the presolve-on solver `S` and the solver `S'`
    built with presolve OFF from the hand-reduced problem `(A', b', cones') = handReduce keep A b cones`
    run the same trajectory; the two solutions are related by `SolveRel` (`SolveRel.explicit`);
  * `full_report_chain` (`Lemmas/SolverFullCompose.lean`) applied to the hand-reduced solver with
    C07's interior invariant (`Lemmas/StepKBridge.lean`): the four reported numbers are the
    documented expressions on the REDUCED data `(P, q, A', b')`;
  * the arithmetic of `InfoReport.report_presolved` (`full_eq_reduced_numbers`): reduced-data
    expressions = full-data expressions for the `reverse_presolve` image (kept rows in order,
    `(s, z) = (infbound, 0)` on dropped rows) — re-run here with the per-index facts of
    `SolveRel.explicit` instead of a `reversePresolve` equation.
-/
import ClarabelProofs.Lemmas.SolverFullCompose
import ClarabelProofs.Lemmas.StepKBridge
import ClarabelProofs.Lemmas.PresolveTransparentFull

namespace Clarabel.Solver
open Clarabel Info Residuals Clarabel.InfoUser Clarabel.InfoReport Clarabel.Dense Clarabel.InfoPresolve

set_option linter.unusedSectionVars false
set_option linter.unusedVariables false

/-- list form: selecting from a mapped list = mapping the selection -/
theorem selZ_map_left {β γ : Type} (f : β → γ) (xs : List β) (ks : List Bool) :
    Presolve.selZ (xs.map f) ks = (Presolve.selZ xs ks).map f := by
  induction xs generalizing ks with
  | nil => simp [Presolve.selZ]
  | cons x r ih =>
    cases ks with
    | nil => simp [Presolve.selZ]
    | cons k t =>
      have := ih t
      simp only [Presolve.selZ, List.map_cons, List.zip_cons_cons, List.filter_cons] at this ⊢
      cases k <;> simp [this]

/-- `select` commutes with the cap of `b` (`capB` is a `map`) -/
theorem select_capB (b : Array ℝ) (keep : List Bool) (inf : ℝ) :
    Vec.select (ProblemData.capB b inf) keep.toArray
      = ProblemData.capB (Vec.select b keep.toArray) inf := by
  apply Array.toList_inj.mp
  rw [Presolve.select_toList]
  unfold ProblemData.capB
  rw [Array.toList_map, Array.toList_map, Presolve.select_toList, selZ_map_left]

/-- `InfoReport.report_presolved` with the per-index facts of the reversal given directly
(the shape `SolveRel.explicit` provides) instead of a `reversePresolve` equation -/
theorem report_presolved_of_facts {n m mr : ℕ} (keepL : List Bool)
    (hm : keepL.length = m) (hmr : keepL.count true = mr)
    (P : Fin n → Fin n → ℝ) (q : Fin n → ℝ)
    (A A' : Csc ℝ) (b : Array ℝ) (hAc : C16.Canonical A) (hAm : A.m = m) (hAn : A.n = n)
    (hb : b.size = m) (hsel : A.selectRows keepL.toArray = .ok A')
    (infbound : ℝ) (xa rs rz vs vz : Array ℝ)
    (hfacts' : ∀ k, (hk : k < keepL.length) →
      (keepL[k] = true →
          rs[k]? = vs[Unscale.rank keepL k]? ∧ rz[k]? = vz[Unscale.rank keepL k]?
          ∧ (vs[Unscale.rank keepL k]?).isSome ∧ (vz[Unscale.rank keepL k]?).isSome)
      ∧ (keepL[k] = false → rs[k]? = some infbound ∧ rz[k]? = some 0))
    (normb normq ov od rp rd : ℝ)
    (hov : ov = dot (vecFn xa n) (mulV P (vecFn xa n)) / 2 + dot q (vecFn xa n))
    (hod : od = -dot (vecFn (Vec.select b keepL.toArray) mr) (vecFn vz mr)
                  - dot (vecFn xa n) (mulV P (vecFn xa n)) / 2)
    (hrp : rp = nrm (fun k => mulV (matFn A' mr n) (vecFn xa n) k + vecFn vs mr k
                  - vecFn (Vec.select b keepL.toArray) mr k)
              / max 1 (normb + nrm (vecFn xa n) + nrm (vecFn vs mr)))
    (hrd : rd = nrm (fun j => mulV P (vecFn xa n) j + mulVT (matFn A' mr n) (vecFn vz mr) j + q j)
              / max 1 (normq + nrm (vecFn xa n) + nrm (vecFn vz mr))) :
    let x := vecFn xa n
    let s := vecFn rs m
    let z := vecFn rz m
    let keep := keepFn keepL m
    ov = dot x (mulV P x) / 2 + dot q x
    ∧ od = -dot (vecFn b m) z - dot x (mulV P x) / 2
    ∧ rp = nrmKept keep (fun i => mulV (matFn A m n) x i + s i - vecFn b m i)
            / max 1 (normb + nrm x + nrmKept keep s)
    ∧ rd = nrm (fun j => mulV P x j + mulVT (matFn A m n) z j + q j) / max 1 (normq + nrm x + nrm z)
    ∧ ∀ i, keep i = false → s i = infbound ∧ z i = 0 := by
  obtain ⟨hdrop, hkept⟩ := reversal_fn_facts_of_transparent keepL hm hmr infbound rs rz vs vz hfacts'
  obtain ⟨A'', hsel', -, -, -, hdense, -⟩ := C09.reduced_problem_dense A keepL hAc (by rw [hm, hAm])
  have hA'' : A'' = A' := by rw [hsel'] at hsel; exact Except.ok.inj hsel
  subst hA''
  have hA' := matFn_reduced (n := n) keepL hm hmr A A'' hAm hAn hdense
  have hb' := vecFn_select keepL hm hmr b hb
  obtain ⟨e1, e2, e3, e4, e5, -⟩ := full_eq_reduced_numbers (embFin keepL hm hmr) (keepFn keepL m)
    (embFin_injective keepL hm hmr) (embFin_keep_iff keepL hm hmr) (matFn A m n) (vecFn b m)
    (vecFn rs m) (vecFn rz m) (matFn A'' mr n) (vecFn (Vec.select b keepL.toArray) mr)
    (vecFn vs mr) (vecFn vz mr) hA' hb' (fun k => (hkept k).1) (fun k => (hkept k).2)
    (fun i hi => (hdrop i hi).2) (vecFn xa n)
  intro x s z keep
  have e1' : (fun j => mulV P x j + mulVT (matFn A m n) z j + q j)
      = fun j => mulV P x j + mulVT (matFn A'' mr n) (vecFn vz mr) j + q j :=
    funext (fun j => by rw [e1 j])
  refine ⟨hov, ?_, ?_, ?_, hdrop⟩
  · rw [e2]; exact hod
  · rw [e5, e4]; exact hrp
  · rw [e1', e3]; exact hrd

/-- **the report of the whole solver on the USER's full data when presolve drops rows** (lemma
form of `C03.full_report_on_user_data_presolved`) -/
theorem full_report_presolved_chain {P : Csc ℝ} {q : Array ℝ} {A : Csc ℝ} {b : Array ℝ}
    {cones : List (ConeT ℝ)} {st : Settings ℝ} {perm : Array Nat} {S : Solver ℝ} {r : SolveResult ℝ}
    {keep : List Bool}
    (hin : InputOK P q A b cones) (hpe : st.presolveEnable = true)
    (hk : Presolve.keepFlags (Presolve.threshold st.infbound) (Cones.newCollapsed cones) b.toList = .ok keep)
    (hc : keep.count true < b.size)
    (hlo : 0 < st.equil.minScaling) (hhi : 0 < st.equil.maxScaling)
    (hf0 : 0 < st.maxStepFraction) (hf1 : st.maxStepFraction < 1) (hmv : 0 < st.maxValue)
    (hnew : Solver.new P q A b cones st perm = .ok S) (hr : S.solve st = .ok r)
    (hst : r.S.solution.status.isInfeasible = false) :
    ∃ Pn, ProblemData.triuStep P = .ok Pn ∧
      let n := A.n
      let m := A.m
      let bc := ProblemData.capB b st.infbound
      let Pd := InfoUser.symFn Pn n
      let qd := InfoUser.vecFn q n
      let x := InfoUser.vecFn r.S.solution.x n
      let s := InfoUser.vecFn r.S.solution.s m
      let z := InfoUser.vecFn r.S.solution.z m
      let kp := InfoPresolve.keepFn keep m
      let normb := Vec.normInf (ProblemData.capB (Vec.select b keep.toArray) st.infbound)
      let pobj := Dense.dot x (Dense.mulV Pd x) / 2 + Dense.dot qd x
      let dobj := -Dense.dot (InfoUser.vecFn bc m) z - Dense.dot x (Dense.mulV Pd x) / 2
      r.S.solution.obj_val = some pobj
      ∧ r.S.solution.obj_val_dual = some dobj
      ∧ r.S.solution.r_prim = some (InfoPresolve.nrmKept kp (fun i => Dense.mulV (InfoUser.matFn A m n) x i + s i - InfoUser.vecFn bc m i)
            / max 1 (normb + Dense.nrm x + InfoPresolve.nrmKept kp s))
      ∧ r.S.solution.r_dual = some (Dense.nrm (fun j => Dense.mulV Pd x j + Dense.mulVT (InfoUser.matFn A m n) z j + qd j)
            / max 1 (Vec.normInf q + Dense.nrm x + Dense.nrm z))
      ∧ (∀ i, kp i = false → s i = st.infbound ∧ z i = 0) := by
  have hAcan : C16.Canonical A := hin.A_canon.canon
  obtain ⟨A', b', cones', S', h1, h2, h3, h4, h5, h6, h7, h8, hall⟩ :=
    Presolve.presolve_transparent_model_full hAcan hpe hnew hk hc
  obtain ⟨-, r', hr', hrel⟩ := hall r hr
  obtain ⟨-, -, est, -, eov, eod, erp, erd, ex, -, -, hfacts⟩ := hrel.explicit
  -- the hand-reduced problem
  unfold Presolve.handReduce at h1
  obtain ⟨A'', hsel, h1⟩ := bind_ok_inv h1
  have h1' := Except.ok.inj h1
  obtain ⟨rfl, rfl, rfl⟩ : A'' = A' ∧ Vec.select b keep.toArray = b'
      ∧ Presolve.handReduceCones keep cones = cones' := by
    simpa using h1'
  -- the keep vector has one flag per row
  have hnum : Cones.numel (Cones.newCollapsed cones) = b.toList.length := by
    rw [Cones.newCollapsed, Cones.numel_collapseGo, hin.cones, ← hin.b]; simp
  obtain ⟨keep', hk', hl, -⟩ := Presolve.keepFlags_spec (Presolve.threshold st.infbound)
    (Cones.newCollapsed cones) b.toList hnum
  rw [hk] at hk'
  cases hk'
  have hlen : keep.length = A.m := by rw [hl, ← hin.b]; simp
  -- `InputOK` of the hand-reduced problem
  obtain ⟨e1, e2, e3, e4, e5⟩ := Presolve.solver_new_dims h4
  obtain ⟨R, hR, hRc, -, -⟩ := selectRows_canonical0 A keep.toArray hin.A_canon (by simpa using hlen)
  have hRA : R = A'' := by rw [hR] at hsel; exact Except.ok.inj hsel
  subst hRA
  have hin' : InputOK P q R (Vec.select b keep.toArray) (Presolve.handReduceCones keep cones) :=
    ⟨hin.P_canon, hin.P_sq, hRc, by rw [h3]; exact hin.A_n, hin.q, e1, by rw [e2, e1]⟩
  have hst' : r'.S.solution.status.isInfeasible = false := by rw [est]; exact hst
  obtain ⟨Pn, hPn, H⟩ := full_report_chain (st := { st with presolveEnable := false })
    (interior_stepHyp _ hf0 hf1 hmv) (interior_initHyp _)
    (fun _ _ h => h.pos.1) ⟨hin', Or.inl rfl, hlo, hhi⟩ h4 hr' hst'
  dsimp only [problemOf] at H
  obtain ⟨k1, k2, k3, k4, -, -, -, -, -⟩ := H
  rw [eov, ex] at k1
  rw [eod, ex] at k2
  rw [erp, ex] at k3
  rw [erd, ex] at k4
  rw [h3] at k1 k2 k3 k4
  rw [← select_capB] at k2 k3
  have hfacts' : ∀ k, (hk : k < keep.length) →
      (keep[k] = true →
          r.S.solution.s[k]? = r'.S.solution.s[Unscale.rank keep k]?
          ∧ r.S.solution.z[k]? = r'.S.solution.z[Unscale.rank keep k]?
          ∧ (r'.S.solution.s[Unscale.rank keep k]?).isSome
          ∧ (r'.S.solution.z[Unscale.rank keep k]?).isSome)
      ∧ (keep[k] = false → r.S.solution.s[k]? = some st.infbound ∧ r.S.solution.z[k]? = some 0) := by
    intro k hk
    have := hfacts k (by simpa using hk)
    simpa using this
  obtain ⟨f1, f2, f3, f4, f5⟩ := report_presolved_of_facts (n := A.n) (m := A.m) (mr := R.m) keep hlen h2.symm
    (symFn Pn A.n) (vecFn q A.n) A R (ProblemData.capB b st.infbound) hAcan rfl rfl
    (by unfold ProblemData.capB; rw [Array.size_map]; exact hin.b) hsel st.infbound
    r.S.solution.x r.S.solution.s r.S.solution.z r'.S.solution.s r'.S.solution.z hfacts'
    (Vec.normInf (Vec.select (ProblemData.capB b st.infbound) keep.toArray)) (Vec.normInf q)
    _ _ _ _ rfl rfl rfl rfl
  refine ⟨Pn, hPn, ?_⟩
  dsimp only
  refine ⟨?_, ?_, ?_, ?_, f5⟩
  · rw [k1, f1]
  · rw [k2, f2]
  · rw [k3, f3, select_capB]
  · rw [k4, f4]

end Clarabel.Solver
