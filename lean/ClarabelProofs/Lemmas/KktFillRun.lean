/-
  `_kkt_assemble_fill` as a whole: it never panics (given counters that cover the schedule and
  index vectors of the allocated sizes), runs `kktSchedule` on the matrix, and every index map
  slot is the destination of the write it is supposed to index.

  * `conesFold_run` (`FoldOut`): the loop over the cones;
  * `fillTail`, `kktAssembleFill_eq`, `fillTail_run`: `backshift_colptrs` and the diagonal maps;
  * `kktAssembleFill_run` (`FillOut`): the whole pass.
-/
import ClarabelModel.Kkt
import ClarabelProofs.Lemmas.KktFillMaps

set_option linter.unusedSectionVars false
set_option linter.unusedVariables false

namespace Clarabel.Lemmas.KktFillRun
open Clarabel Clarabel.Csc Clarabel.Kkt Clarabel.Lemmas.KktPlace Clarabel.Lemmas.KktFillLink
open Clarabel.Lemmas.KktRun Clarabel.Lemmas.KktSlots Clarabel.Lemmas.KktFillMaps
open Clarabel.Lemmas.KktSorted (Canon)

variable {α : Type} [OfNat α 0]

-- ------------------------------------------------------------------ the loop over the cones

/-- `ts` is `cones` zipped with consecutive row starts from `s` and block starts from `b` -/
inductive Triples3 : Nat → Nat → List ConeSpec → List (ConeSpec × Nat × Nat) → Prop
  | nil (s b : Nat) : Triples3 s b [] []
  | cons (s b : Nat) (c : ConeSpec) {rest : List ConeSpec} {ts : List (ConeSpec × Nat × Nat)} :
      Triples3 (s + c.numel) (b + c.blockLen) rest ts → Triples3 s b (c :: rest) ((c, s, b) :: ts)

omit [OfNat α 0] in
theorem triples3_zip (cones : List ConeSpec) : ∀ (s t : Nat),
    Triples3 s t cones (cones.zip ((startsFrom s (cones.map ConeSpec.numel)).zip
      (startsFrom t (cones.map ConeSpec.blockLen)))) := by
  induction cones with
  | nil => intro s t; exact Triples3.nil s t
  | cons c cs ih =>
    intro s t
    simp only [List.map_cons, startsFrom_cons, List.zip_cons_cons]
    exact Triples3.cons s t c (ih _ _)

omit [OfNat α 0] in
theorem triples3_rng (cones : List ConeSpec) :
    Triples3 0 0 cones (cones.zip ((rngConesStart cones).zip (rngBlocksStart cones))) := by
  unfold rngConesStart rngBlocksStart
  rw [rangeStarts_eq, rangeStarts_eq]
  exact triples3_zip cones 0 0

/-- number of sparse-expandable cones in a list -/
def nSparse (l : List ConeSpec) : Nat := l.countP (fun c => c.isSparseExpandable)

omit [OfNat α 0] in
theorem nSparse_cons (c : ConeSpec) (l : List ConeSpec) :
    nSparse (c :: l) = nSparse l + (if c.isSparseExpandable = true then 1 else 0) := by
  unfold nSparse
  rw [List.countP_cons]

/-- what the loop over the cones achieves -/
structure FoldOut (n : Nat) (shape : MatrixTriangle) (st st' : FillState α) (cones : List ConeSpec)
    (s b : Nat) : Prop where
  kspec : KSpec st.K st'.K (conesSchedule cones (s + n) st.pcol shape)
  hs_size : st'.Hsblocks.size = st.Hsblocks.size
  maps_size : st'.maps.size = st.maps.size
  hs_frame : ∀ x, x < b → st'.Hsblocks[x]? = st.Hsblocks[x]?
  maps_frame : ∀ j, j < st.nextSparse → st'.maps[j]? = st.maps[j]?
  slots : ∀ pre c post, cones = pre ++ c :: post →
    HsSlots shape c (s + n + (pre.map ConeSpec.numel).sum) st.K.colptr
      (conesSchedule (α := α) cones (s + n) st.pcol shape)
      (fun k => st'.Hsblocks[b + (pre.map ConeSpec.blockLen).sum + k]?) ∧
    (c.isSparseExpandable = true → ∃ mp', st'.maps[st.nextSparse + nSparse pre]? = some mp' ∧
      SparseSlots shape c (s + n + (pre.map ConeSpec.numel).sum)
        (st.pcol + (pre.map conePdim).sum) st.K.colptr
        (conesSchedule (α := α) cones (s + n) st.pcol shape) mp')

theorem conesFold_run {n : Nat} {shape : MatrixTriangle}
    (f : FillState α → ConeSpec × Nat × Nat → MErr (FillState α))
    (hf : ∀ st c s b, f st (c, s, b) = coneStep n shape st c s b)
    {s0 b0 : Nat} {cones : List ConeSpec} {ts : List (ConeSpec × Nat × Nat)}
    (T : Triples3 s0 b0 cones ts) :
    ∀ (st : FillState α), MapsFitD cones (st.maps.toList.drop st.nextSparse) →
      Ready st.K (conesSchedule (α := α) cones (s0 + n) st.pcol shape) →
      b0 + (cones.map ConeSpec.blockLen).sum ≤ st.Hsblocks.size →
      ∃ st', ts.foldlM f st = .ok st' ∧ FoldOut n shape st st' cones s0 b0 := by
  induction T with
  | nil s b =>
    intro st _ _ _
    refine ⟨st, rfl, KSpec.nil _, rfl, rfl, fun _ _ => rfl, fun _ _ => rfl, ?_⟩
    intro pre c post h
    cases pre <;> cases h
  | @cons s b c rest ts T ih =>
    intro st hfit hr hHs
    simp only [conesSchedule] at hr ⊢
    simp only [List.map_cons, List.sum_cons] at hHs
    obtain ⟨st1, h1, O⟩ := coneStep_run (n := n) (shape := shape) st c s b rest hfit hr.left (by omega)
    have hCS : conesSchedule (α := α) rest (s + c.numel + n) st1.pcol shape
        = conesSchedule rest (s + n + c.numel) (st.pcol + conePdim c) shape := by
      rw [O.pcol, Nat.add_right_comm]
    obtain ⟨st', h2, F⟩ := ih st1 O.fit (by rw [hCS]; exact hr.right O.kspec)
      (by rw [O.hs_size]; omega)
    refine ⟨st', ?_, ?_⟩
    · rw [List.foldlM_cons, hf, h1]
      exact h2
    · have Fk := F.kspec
      rw [hCS] at Fk
      have hnext : st.nextSparse ≤ st1.nextSparse := by rw [O.next]; omega
      refine ⟨by simpa only [conesSchedule] using O.kspec.append Fk hr.dis,
        by rw [F.hs_size, O.hs_size], by rw [F.maps_size, O.maps_size], ?_, ?_, ?_⟩
      · intro x hx
        rw [F.hs_frame x (by omega), O.hs_frame x (Or.inl hx)]
      · intro j hj
        rw [F.maps_frame j (by omega), O.maps_frame j (by omega)]
      · intro pre c' post hdec
        simp only [conesSchedule]
        cases pre with
        | nil =>
          simp only [List.nil_append, List.cons.injEq] at hdec
          obtain ⟨rfl, rfl⟩ := hdec
          refine ⟨?_, ?_⟩
          · refine HsSlots.imp (by simp) (fun o col r v h => h.left _) ?_ O.hs_slots
            intro k hk
            simp only [List.map_nil, List.sum_nil, Nat.add_zero]
            exact F.hs_frame (b + k) (by omega)
          · intro hsp
            obtain ⟨mp', hm, hss⟩ := O.sp_slots hsp
            refine ⟨mp', ?_, SparseSlots.imp (by simp) (by simp) (fun o col r v h => h.left _) hss⟩
            have : st.nextSparse + nSparse ([] : List ConeSpec) = st.nextSparse := by simp [nSparse]
            rw [this, F.maps_frame st.nextSparse (by rw [O.next, if_pos hsp]; omega)]
            exact hm
        | cons c0 pre' =>
          simp only [List.cons_append, List.cons.injEq] at hdec
          obtain ⟨rfl, rfl⟩ := hdec
          obtain ⟨hsF, spF⟩ := F.slots pre' c' post rfl
          rw [hCS] at hsF spF
          refine ⟨?_, ?_⟩
          · refine HsSlots.imp (by simp only [List.map_cons, List.sum_cons]; omega)
              (fun o col r v h => SlotAt.right _ O.kspec.colptr_get h) ?_ hsF
            intro k hk
            show st'.Hsblocks[_]? = st'.Hsblocks[_]?
            simp only [List.map_cons, List.sum_cons]
            have : b + (c.blockLen + (pre'.map ConeSpec.blockLen).sum) + k
                = b + c.blockLen + (pre'.map ConeSpec.blockLen).sum + k := by omega
            rw [this]
          · intro hsp
            obtain ⟨mp', hm, hss⟩ := spF hsp
            refine ⟨mp', ?_, SparseSlots.imp
              (by simp only [List.map_cons, List.sum_cons]; omega)
              (by simp only [List.map_cons, List.sum_cons]; rw [O.pcol]; omega)
              (fun o col r v h => SlotAt.right _ O.kspec.colptr_get h) hss⟩
            have : st.nextSparse + nSparse (c :: pre') = st1.nextSparse + nSparse pre' := by
              rw [nSparse_cons, O.next]; omega
            rw [this]
            exact hm

-- ------------------------------------------------------------------ the tail of `_kkt_assemble_fill`

/-- `backshift_colptrs` and the diagonal index maps at the end of `_kkt_assemble_fill` -/
def fillTail (n : Nat) (shape : MatrixTriangle) (map : LDLDataMap) (mapP mapA : Array Nat)
    (st : FillState α) : MErr (Csc α × LDLDataMap) := do
  let K ← backshiftColptrs st.K
  -- the index of the full diagonal
  let cp := K.colptr.toList
  let (diag_full, diagP) ← match shape with
    | .triu => do
      -- matrix is triu, so the diagonal is last in each column
      let src := cp.drop 1
      if src.length != map.diag_full.size then throw (.panic "copy_from_slice: diag_full length")
      if src.any (· == 0) then throw (.panic "diag_full: subtraction underflows")
      let srcP := (cp.drop 1).take n
      if srcP.length != n || n != map.diagP.size then throw (.panic "copy_from_slice: diagP length")
      pure ((src.map (· - 1)).toArray, (srcP.map (· - 1)).toArray)
    | .tril => do
      -- matrix is tril, so the diagonal is first in each column
      let src := cp.dropLast
      if src.length != map.diag_full.size then throw (.panic "copy_from_slice: diag_full length")
      let srcP := cp.take n
      if srcP.length != n || n != map.diagP.size then throw (.panic "copy_from_slice: diagP length")
      pure (src.toArray, srcP.toArray)
  pure (K, { P := mapP, A := mapA, Hsblocks := st.Hsblocks, sparse_maps := st.maps, diagP, diag_full })

/-- the cone loop of `_kkt_assemble_fill` with its initial state -/
def fillCones (K : Csc α) (A : Csc α) (cones : List ConeSpec) (map : LDLDataMap)
    (shape : MatrixTriangle) : MErr (FillState α) :=
  (cones.zip ((rngConesStart cones).zip (rngBlocksStart cones))).foldlM
    (fun (st : FillState α) cs => do
      let (cone, start, bstart) := cs
      let row := start + A.n
      let blockdim := cone.numel
      let block := st.Hsblocks.extract bstart (bstart + cone.blockLen)
      let (K, block) ← if cone.hsIsDiagonal then fillDiag st.K block row blockdim
                       else fillDenseTriangle st.K block row blockdim shape
      let Hsblocks := spliceAt st.Hsblocks bstart block
      if cone.isSparseExpandable then
        let thismap ← getE st.maps st.nextSparse "sparse_map_iter.next().unwrap()"
        let dim1 := match cone with
          | .genpow a _ => a
          | _ => 0
        let (K, newmap) ← fillSparsecone thismap dim1 K row st.pcol shape
        let maps ← setE st.maps st.nextSparse newmap
        pure { K, Hsblocks, maps, pcol := st.pcol + thismap.pdim, nextSparse := st.nextSparse + 1 }
      else pure { st with K, Hsblocks })
    { K, Hsblocks := map.Hsblocks, maps := map.sparse_maps, pcol := A.m + A.n, nextSparse := 0 }

theorem kktAssembleFill_eq (K P A : Csc α) (cones : List ConeSpec) (map : LDLDataMap)
    (shape : MatrixTriangle) :
    kktAssembleFill K P A cones map shape = (do
      let K := colcountToColptr K
      let (K, mapP, mapA) ← match shape with
        | .triu => do
          let (K, mapP) ← fillBlock K P map.P 0 0 .N
          let K ← fillMissingDiag K P 0
          let (K, mapA) ← fillBlock K A map.A 0 A.n .T
          pure (K, mapP, mapA)
        | .tril => do
          let K ← fillMissingDiag K P 0
          let (K, mapP) ← fillBlock K P map.P 0 0 .T
          let (K, mapA) ← fillBlock K A map.A A.n 0 .N
          pure (K, mapP, mapA)
      let st ← fillCones K A cones map shape
      fillTail A.n shape map mapP mapA st) := rfl


theorem fillCones_run (K A : Csc α) (cones : List ConeSpec) (map : LDLDataMap) (shape : MatrixTriangle)
    (hfit : MapsFitD cones map.sparse_maps.toList)
    (hr : Ready K (conesSchedule (α := α) cones A.n (A.m + A.n) shape))
    (hHs : (cones.map ConeSpec.blockLen).sum ≤ map.Hsblocks.size) :
    ∃ st', fillCones K A cones map shape = .ok st' ∧
      FoldOut A.n shape { K := K, Hsblocks := map.Hsblocks, maps := map.sparse_maps,
                          pcol := A.m + A.n, nextSparse := 0 } st' cones 0 0 := by
  unfold fillCones
  exact conesFold_run (n := A.n) (shape := shape) _
    (by intro st c s b; simp only [coneStep]; split <;> rfl) (triples3_rng cones)
    { K := K, Hsblocks := map.Hsblocks, maps := map.sparse_maps, pcol := A.m + A.n, nextSparse := 0 }
    hfit (by rw [Nat.zero_add]; exact hr) (by show 0 + _ ≤ map.Hsblocks.size; omega)

/-- the diagonal index maps as `_kkt_assemble_fill` computes them from the final `colptr` -/
def DiagMaps (n : Nat) (shape : MatrixTriangle) (K' : Csc α) (map' : LDLDataMap) : Prop :=
  match shape with
  | .triu => map'.diag_full.toList = (K'.colptr.toList.drop 1).map (· - 1) ∧
      map'.diagP.toList = ((K'.colptr.toList.drop 1).take n).map (· - 1)
  | .tril => map'.diag_full.toList = K'.colptr.toList.dropLast ∧
      map'.diagP.toList = K'.colptr.toList.take n

omit [OfNat α 0] in
theorem backshift_run (K : Csc α) (h : 0 < K.colptr.size) :
    backshiftColptrs K = .ok { K with colptr := (0 :: K.colptr.toList.dropLast).toArray } := by
  unfold backshiftColptrs
  split
  · rename_i hnil
    have : K.colptr.toList.length = 0 := by rw [hnil]; rfl
    rw [Array.length_toList] at this
    omega
  · rfl

omit [OfNat α 0] in
theorem fillTail_run (n : Nat) (shape : MatrixTriangle) (map : LDLDataMap) (mapP mapA : Array Nat)
    (st : FillState α) (N : Nat)
    (hsz : st.K.colptr.size = N + 1) (hdf : map.diag_full.size = N) (hdP : map.diagP.size = n)
    (hn : n ≤ N)
    (hpos : shape = .triu → ∀ c x, c < N → st.K.colptr[c]? = some x → x ≠ 0) :
    ∃ K' map', fillTail n shape map mapP mapA st = .ok (K', map') ∧
      backshiftColptrs st.K = .ok K' ∧ map'.P = mapP ∧ map'.A = mapA ∧
      map'.Hsblocks = st.Hsblocks ∧ map'.sparse_maps = st.maps ∧ DiagMaps n shape K' map' := by
  have hb := backshift_run st.K (by omega)
  have hlen : st.K.colptr.toList.dropLast.length = N := by simp [hsz]
  cases shape with
  | triu =>
    have c1 : ¬ ((List.drop 1 (0 :: st.K.colptr.toList.dropLast).toArray.toList).length
        != map.diag_full.size) = true := by
      simp [hlen, hdf]
    have c2 : ¬ ((List.drop 1 (0 :: st.K.colptr.toList.dropLast).toArray.toList).any
        fun x => x == 0) = true := by
      simp only [List.drop_succ_cons, List.drop_zero, List.any_eq_true,
        beq_iff_eq, not_exists, not_and]
      intro x hx hx0
      obtain ⟨c, hc, rfl⟩ := List.mem_iff_getElem.mp hx
      rw [hlen] at hc
      have hget : st.K.colptr[c]? = some st.K.colptr.toList.dropLast[c] := by
        rw [← Array.getElem?_toList]
        have := List.getElem?_dropLast (xs := st.K.colptr.toList) (i := c)
        rw [if_pos (by simp [hsz]; omega)] at this
        rw [← this]
        exact List.getElem?_eq_getElem _
      exact hpos rfl c _ hc hget hx0
    have c3 : ¬ ((List.take n (List.drop 1 (0 :: st.K.colptr.toList.dropLast).toArray.toList)).length
        != n || n != map.diagP.size) = true := by
      simp [hlen, hdP, hn]
    refine ⟨_, { P := mapP, A := mapA, Hsblocks := st.Hsblocks, sparse_maps := st.maps,
                 diagP := (((List.drop 1 (0 :: st.K.colptr.toList.dropLast).toArray.toList).take n).map
                   (· - 1)).toArray,
                 diag_full := ((List.drop 1 (0 :: st.K.colptr.toList.dropLast).toArray.toList).map
                   (· - 1)).toArray }, ?_, hb, rfl, rfl, rfl, rfl, ?_⟩
    · unfold fillTail
      rw [hb]
      simp only [bind, Except.bind]
      rw [if_neg c1, if_neg c2, if_neg c3]
      rfl
    · exact ⟨by simp, by simp⟩
  | tril =>
    have c1 : ¬ ((0 :: st.K.colptr.toList.dropLast).toArray.toList.dropLast.length
        != map.diag_full.size) = true := by
      simp [hlen, hdf]
    have c3 : ¬ ((List.take n (0 :: st.K.colptr.toList.dropLast).toArray.toList).length
        != n || n != map.diagP.size) = true := by
      simp [hlen, hdP]
      omega
    refine ⟨_, { P := mapP, A := mapA, Hsblocks := st.Hsblocks, sparse_maps := st.maps,
                 diagP := ((0 :: st.K.colptr.toList.dropLast).toArray.toList.take n).toArray,
                 diag_full := (0 :: st.K.colptr.toList.dropLast).toArray.toList.dropLast.toArray },
      ?_, hb, rfl, rfl, rfl, rfl, ?_⟩
    · unfold fillTail
      rw [hb]
      simp only [bind, Except.bind]
      rw [if_neg c1, if_neg c3]
      rfl
    · exact ⟨by simp, by simp⟩


-- ------------------------------------------------------------------ the whole fill pass

/-- what `_kkt_assemble_fill` achieves (`ptr0` = the counters after `colcount_to_colptr`) -/
structure FillOut (Kc P A : Csc α) (cones : List ConeSpec) (shape : MatrixTriangle)
    (sched : List (Entry α)) (K' : Csc α) (map' : LDLDataMap) : Prop where
  run : ∃ Kf, KSpec (colcountToColptr Kc) Kf sched ∧ backshiftColptrs Kf = .ok K'
  P_slots : ∀ i j r v, i < P.n → P.colptr.getD i 0 ≤ j → j < P.colptr.getD (i + 1) 0 →
    P.rowval[j]? = some r → P.nzval[j]? = some v →
    SlotAt (colcountToColptr Kc).colptr sched map'.P[j]? (tri shape r i).2 (tri shape r i).1 v
  A_slots : ∀ i j r v, i < A.n → A.colptr.getD i 0 ≤ j → j < A.colptr.getD (i + 1) 0 →
    A.rowval[j]? = some r → A.nzval[j]? = some v →
    SlotAt (colcountToColptr Kc).colptr sched map'.A[j]?
      (tri shape i (r + A.n)).2 (tri shape i (r + A.n)).1 v
  cone_slots : ∀ pre c post, cones = pre ++ c :: post →
    HsSlots shape c (A.n + (pre.map ConeSpec.numel).sum) (colcountToColptr Kc).colptr sched
      (fun k => map'.Hsblocks[(pre.map ConeSpec.blockLen).sum + k]?) ∧
    (c.isSparseExpandable = true → ∃ mp', map'.sparse_maps[nSparse pre]? = some mp' ∧
      SparseSlots shape c (A.n + (pre.map ConeSpec.numel).sum)
        (A.m + A.n + (pre.map conePdim).sum) (colcountToColptr Kc).colptr sched mp')
  diag : DiagMaps A.n shape K' map'

omit [OfNat α 0] in
theorem colcountToColptr_size (K : Csc α) : (colcountToColptr K).colptr.size = K.colptr.size := by
  show (exclusiveCumsum K.colptr.toList).toArray.size = _
  simp [exclusiveCumsum_length]

theorem cone_slots_lift {shape : MatrixTriangle} {A : Csc α} {cones : List ConeSpec}
    {K0 K3 : Csc α} {Hs' : Array Nat} {maps' : Array SparseMap} {head : List (Entry α)}
    (S : KSpec K0 K3 head)
    (hslots : ∀ pre c post, cones = pre ++ c :: post →
      HsSlots shape c (0 + A.n + (pre.map ConeSpec.numel).sum) K3.colptr
        (conesSchedule (α := α) cones (0 + A.n) (A.m + A.n) shape)
        (fun k => Hs'[0 + (pre.map ConeSpec.blockLen).sum + k]?) ∧
      (c.isSparseExpandable = true → ∃ mp', maps'[0 + nSparse pre]? = some mp' ∧
        SparseSlots shape c (0 + A.n + (pre.map ConeSpec.numel).sum)
          (A.m + A.n + (pre.map conePdim).sum) K3.colptr
          (conesSchedule (α := α) cones (0 + A.n) (A.m + A.n) shape) mp')) :
    ∀ pre c post, cones = pre ++ c :: post →
      HsSlots shape c (A.n + (pre.map ConeSpec.numel).sum) K0.colptr
        (head ++ conesSchedule (α := α) cones A.n (A.m + A.n) shape)
        (fun k => Hs'[(pre.map ConeSpec.blockLen).sum + k]?) ∧
      (c.isSparseExpandable = true → ∃ mp', maps'[nSparse pre]? = some mp' ∧
        SparseSlots shape c (A.n + (pre.map ConeSpec.numel).sum)
          (A.m + A.n + (pre.map conePdim).sum) K0.colptr
          (head ++ conesSchedule (α := α) cones A.n (A.m + A.n) shape) mp') := by
  intro pre c post hdec
  obtain ⟨h1, h2⟩ := hslots pre c post hdec
  simp only [Nat.zero_add] at h1 h2
  refine ⟨HsSlots.imp rfl (fun o col r v h => SlotAt.right _ S.colptr_get h)
    (by intro k _; rfl) h1, ?_⟩
  intro hsp
  obtain ⟨mp', hm, hss⟩ := h2 hsp
  exact ⟨mp', hm,
    SparseSlots.imp rfl rfl (fun o col r v h => SlotAt.right _ S.colptr_get h) hss⟩

open Clarabel.Lemmas.KktLength (blockWF_of_canon) in
/-- **`_kkt_assemble_fill` never panics and fills every index map with the destinations of the
writes it indexes**, given counters that cover the schedule (`Ready`) and index vectors of the
allocated sizes. -/
theorem kktAssembleFill_run (Kc P A : Csc α) (cones : List ConeSpec) (map : LDLDataMap)
    (shape : MatrixTriangle) (sched : List (Entry α)) (N : Nat)
    (hP : Canon P) (hA : Canon A)
    (hs : kktSchedule P A cones shape = .ok sched)
    (hr : Ready (colcountToColptr Kc) sched)
    (hmP : P.rowval.size ≤ map.P.size) (hmA : A.rowval.size ≤ map.A.size)
    (hHs : (cones.map ConeSpec.blockLen).sum ≤ map.Hsblocks.size)
    (hfit : MapsFitD cones map.sparse_maps.toList)
    (hsz : Kc.colptr.size = N + 1) (hdf : map.diag_full.size = N) (hdP : map.diagP.size = A.n)
    (hn : A.n ≤ N)
    (hpos : shape = .triu → ∀ c, c < N → 0 < cnt c sched) :
    ∃ K' map', kktAssembleFill Kc P A cones map shape = .ok (K', map') ∧
      FillOut Kc P A cones shape sched K' map' ∧
      map'.P.size = map.P.size ∧ map'.A.size = map.A.size ∧
      map'.Hsblocks.size = map.Hsblocks.size ∧ map'.sparse_maps.size = map.sparse_maps.size := by
  have hwP := blockWF_of_canon hP
  have hwA := blockWF_of_canon hA
  have tail : ∀ (Kf : Csc α) (mapP mapA Hs' : Array Nat) (maps' : Array SparseMap) (pc ns : Nat),
      KSpec (colcountToColptr Kc) Kf sched →
      ∃ K' map', fillTail A.n shape map mapP mapA
          { K := Kf, Hsblocks := Hs', maps := maps', pcol := pc, nextSparse := ns } = .ok (K', map') ∧
        backshiftColptrs Kf = .ok K' ∧ map'.P = mapP ∧ map'.A = mapA ∧
        map'.Hsblocks = Hs' ∧ map'.sparse_maps = maps' ∧ DiagMaps A.n shape K' map' := by
    intro Kf mapP mapA Hs' maps' pc ns S
    refine fillTail_run A.n shape map mapP mapA _ N
      (by show Kf.colptr.size = _; rw [S.colptr_size, colcountToColptr_size, hsz]) hdf hdP hn ?_
    intro htri c x hc hx
    have := S.colptr_get c
    rw [show ({ K := Kf, Hsblocks := Hs', maps := maps', pcol := pc, nextSparse := ns } :
      FillState α).K.colptr[c]? = Kf.colptr[c]? from rfl] at hx
    rw [hx] at this
    have hp := hpos htri c hc
    cases hq : (colcountToColptr Kc).colptr[c]? with
    | none => rw [hq] at this; cases this
    | some q =>
      rw [hq] at this
      simp only [Option.map_some, Option.some.injEq] at this
      omega
  unfold kktSchedule at hs
  rw [kktAssembleFill_eq]
  cases shape with
  | triu =>
    simp only [] at hs
    obtain ⟨sP, hsP, hs⟩ := KktFillLink.bind_ok hs
    obtain ⟨sD, hsD, hs⟩ := KktFillLink.bind_ok hs
    obtain ⟨sA, hsA, hs⟩ := KktFillLink.bind_ok hs
    obtain ⟨head, hhead, hs⟩ := KktFillLink.bind_ok hs
    cases pure_ok hhead
    cases pure_ok hs
    obtain ⟨K1, mapP, h1, S1, zP, slP⟩ :=
      fillBlock_run (colcountToColptr Kc) P map.P 0 0 .N sP hwP hsP hmP hr.left.left.left
    obtain ⟨K2, h2, S2⟩ := fillMissingDiag_run K1 P sD hsD (hr.left.left.right S1)
    have S12 := S1.append S2 hr.left.left.dis
    obtain ⟨K3, mapA, h3, S3, zA, slA⟩ :=
      fillBlock_run K2 A map.A 0 A.n .T sA hwA hsA hmA (hr.left.right S12)
    have S123 := S12.append S3 hr.left.dis
    obtain ⟨st', h4, F⟩ := fillCones_run K3 A cones map .triu hfit (hr.right S123) hHs
    have Sall := S123.append (by simpa only [Nat.zero_add] using F.kspec) hr.dis
    obtain ⟨K', map', h5, hb, e1, e2, e3, e4, hdiag⟩ :=
      tail st'.K mapP mapA st'.Hsblocks st'.maps st'.pcol st'.nextSparse Sall
    refine ⟨K', map', ?_, ⟨⟨st'.K, Sall, hb⟩, ?_, ?_, ?_, hdiag⟩, by rw [e1]; exact zP,
      by rw [e2]; exact zA, by rw [e3]; exact F.hs_size, by rw [e4]; exact F.maps_size⟩
    · simp only [bind, Except.bind, h1, h2, h3, h4, pure, Except.pure]
      exact h5
    · intro i j r v hi hlo hhi hr' hv'
      rw [e1]
      exact (((slP i j r v hi hlo hhi hr' hv').left _).left _).left _
    · intro i j r v hi hlo hhi hr' hv'
      rw [e2]
      exact (SlotAt.right _ S12.colptr_get (slA i j r v hi hlo hhi hr' hv')).left _
    · rw [e3, e4]
      exact cone_slots_lift S123 F.slots
  | tril =>
    simp only [] at hs
    obtain ⟨sD, hsD, hs⟩ := KktFillLink.bind_ok hs
    obtain ⟨sP, hsP, hs⟩ := KktFillLink.bind_ok hs
    obtain ⟨sA, hsA, hs⟩ := KktFillLink.bind_ok hs
    obtain ⟨head, hhead, hs⟩ := KktFillLink.bind_ok hs
    cases pure_ok hhead
    cases pure_ok hs
    obtain ⟨K1, h1, S1⟩ := fillMissingDiag_run (colcountToColptr Kc) P sD hsD hr.left.left.left
    obtain ⟨K2, mapP, h2, S2, zP, slP⟩ :=
      fillBlock_run K1 P map.P 0 0 .T sP hwP hsP hmP (hr.left.left.right S1)
    have S12 := S1.append S2 hr.left.left.dis
    obtain ⟨K3, mapA, h3, S3, zA, slA⟩ :=
      fillBlock_run K2 A map.A A.n 0 .N sA hwA hsA hmA (hr.left.right S12)
    have S123 := S12.append S3 hr.left.dis
    obtain ⟨st', h4, F⟩ := fillCones_run K3 A cones map .tril hfit (hr.right S123) hHs
    have Sall := S123.append (by simpa only [Nat.zero_add] using F.kspec) hr.dis
    obtain ⟨K', map', h5, hb, e1, e2, e3, e4, hdiag⟩ :=
      tail st'.K mapP mapA st'.Hsblocks st'.maps st'.pcol st'.nextSparse Sall
    refine ⟨K', map', ?_, ⟨⟨st'.K, Sall, hb⟩, ?_, ?_, ?_, hdiag⟩, by rw [e1]; exact zP,
      by rw [e2]; exact zA, by rw [e3]; exact F.hs_size, by rw [e4]; exact F.maps_size⟩
    · simp only [bind, Except.bind, h1, h2, h3, h4, pure, Except.pure]
      exact h5
    · intro i j r v hi hlo hhi hr' hv'
      rw [e1]
      exact ((SlotAt.right _ S1.colptr_get (slP i j r v hi hlo hhi hr' hv')).left _).left _
    · intro i j r v hi hlo hhi hr' hv'
      rw [e2]
      exact (SlotAt.right _ S12.colptr_get (slA i j r v hi hlo hhi hr' hv')).left _
    · rw [e3, e4]
      exact cone_slots_lift S123 F.slots

end Clarabel.Lemmas.KktFillRun
