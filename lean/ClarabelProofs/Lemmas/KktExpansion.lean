/-
  Sparse "expanded" KKT blocks for the second-order cone and the generalised power cone:
  eliminating the auxiliary variables (Schur complement) reproduces `−H`, with `H·x` exactly
  what the code's `mul_Hs` computes.

  * SOC:  `H = η²(2ww' − J) = η²(D + uu' − vv')`,  `D = diag(d,1,…,1)`, `u = (u0, u1•w1)`,
    `v = (0, v1•w1)` with  `wsq = w0² + ‖w1‖²`, `d = ½·wsq⁻¹`, `u0 = √(wsq − d)`,
    `u1 = 2w0/u0`, `v1 = √(2(2 + wsq⁻¹)/(2wsq − wsq⁻¹))`.
    KKT block `[ −η²D, −η²v, −η²u ; −η²v', −η², 0 ; −η²u', 0, η² ]`.
  * GenPow: `H = μ(D + pp' − qq' − rr')`, block
    `[ −μD, −√μ q, −√μ r, −√μ p ; ·, −1, 0, 0 ; ·, 0, −1, 0 ; ·, 0, 0, 1 ]`.

  Everything is stated over a general field with `2 ≠ 0` (class [F]); `soc_sparse_real`
  ([R]) shows that the square-root formulas of the code satisfy the square-root-free
  defining equations `SocSparse`.
-/
import Mathlib.Algebra.BigOperators.Fin
import Mathlib.Algebra.BigOperators.Group.Finset.Basic
import Mathlib.Algebra.Order.Field.Basic
import Mathlib.Algebra.Order.BigOperators.Ring.Finset
import Mathlib.Analysis.Real.Sqrt
import Mathlib.Tactic.FieldSimp
import Mathlib.Tactic.Ring
import Mathlib.Tactic.LinearCombination
import Mathlib.Tactic.Linarith
import Mathlib.Tactic.Positivity
import Mathlib.Tactic.NormNum

namespace Clarabel.Lemmas.KktExpansion

open Finset

variable {α : Type} [Field α] {n : ℕ}

/-! ## Definitions -/

/-- dense dot product -/
def dot {m : ℕ} (x y : Fin m → α) : α := ∑ i, x i * y i

/-- the normalised scaling point `w = (w0, w1)` -/
def socW (w0 : α) (w1 : Fin n → α) : Fin (n + 1) → α := Fin.cons w0 w1

/-- `u = (u0, u1 • w1)` -/
def socU (u0 u1 : α) (w1 : Fin n → α) : Fin (n + 1) → α := Fin.cons u0 (fun i => u1 * w1 i)

/-- `v = (0, v1 • w1)` -/
def socV (v1 : α) (w1 : Fin n → α) : Fin (n + 1) → α := Fin.cons 0 (fun i => v1 * w1 i)

/-- the diagonal of `D = diag(d, 1, …, 1)` -/
def socD (d : α) : Fin (n + 1) → α := Fin.cons d (fun _ => 1)

/-- the diagonal of `J = diag(1, −1, …, −1)` -/
def socJ : Fin (n + 1) → α := Fin.cons 1 (fun _ => -1)

/-- `mul_Hs` of the second-order cone: `y = x; y0 = −x0; y += 2(w·x) w; y *= η²` -/
def socMulHs (η : α) (w x : Fin (n + 1) → α) : Fin (n + 1) → α :=
  fun i => η * η * (2 * dot w x * w i - socJ i * x i)

/-- `mul_Hs` of the generalised power cone -/
def genpowMulHs {m : ℕ} (μ : α) (D p q r x : Fin m → α) : Fin m → α :=
  fun i => μ * (D i * x i - dot q x * q i - dot r x * r i + dot p x * p i)

/-- The defining equations of the sparse SOC expansion, in square-root-free form. -/
structure SocSparse (w0 : α) (w1 : Fin n → α) (d u0 u1 v1 : α) : Prop where
  unit : w0 * w0 - dot w1 w1 = 1
  hwsq : w0 * w0 + dot w1 w1 ≠ 0
  hd : d = (1 / 2) * (w0 * w0 + dot w1 w1)⁻¹
  hu0 : u0 * u0 = (w0 * w0 + dot w1 w1) - d
  hu0ne : u0 ≠ 0
  hu1 : u1 = 2 * w0 / u0
  hv1 : v1 * v1 = 2 * (2 + (w0 * w0 + dot w1 w1)⁻¹)
      / (2 * (w0 * w0 + dot w1 w1) - (w0 * w0 + dot w1 w1)⁻¹)

/-! ## Scalar key facts -/

/-- scalar core in terms of `W = wsq`. -/
private theorem soc_scalar_aux (h2 : (2 : α) ≠ 0) {w0 W d u0 u1 v1 : α}
    (hw0 : 2 * (w0 * w0) = W + 1) (hW : W ≠ 0)
    (hd : d = (1 / 2) * W⁻¹)
    (hu0 : u0 * u0 = W - d) (hu0ne : u0 ≠ 0)
    (hu1 : u1 = 2 * w0 / u0)
    (hv1 : v1 * v1 = 2 * (2 + W⁻¹) / (2 * W - W⁻¹)) :
    d + u0 * u0 = 2 * w0 * w0 - 1 ∧ u0 * u1 = 2 * w0 ∧ u1 * u1 - v1 * v1 = 2 ∧
      2 * W - W⁻¹ ≠ 0 := by
  have hden : 2 * W - W⁻¹ = 2 * (u0 * u0) := by
    rw [hu0, hd]; field_simp
  have hu0sq : u0 * u0 ≠ 0 := mul_ne_zero hu0ne hu0ne
  have hdenne : 2 * W - W⁻¹ ≠ 0 := by
    rw [hden]; exact mul_ne_zero h2 hu0sq
  have hv1' : v1 * v1 * (2 * (u0 * u0)) = 2 * (2 + W⁻¹) := by
    rw [hv1, hden]; field_simp
  refine ⟨?_, ?_, ?_, hdenne⟩
  · linear_combination hu0 - hw0
  · rw [hu1]; field_simp
  · have hu1sq : u1 * u1 * (u0 * u0) = 4 * (w0 * w0) := by
      rw [hu1]; field_simp; ring
    have : (u1 * u1 - v1 * v1 - 2) * (2 * (u0 * u0)) = 0 := by
      linear_combination 2 * hu1sq - hv1' + 2 * hden + 4 * hw0
    rcases mul_eq_zero.mp this with h | h
    · linear_combination h
    · exact absurd h (mul_ne_zero h2 hu0sq)

/-- The three key scalar facts: `d + u0² = 2w0² − 1`, `u0 u1 = 2 w0`, `u1² − v1² = 2`. -/
theorem SocSparse.key (h2 : (2 : α) ≠ 0) {w0 : α} {w1 : Fin n → α} {d u0 u1 v1 : α}
    (h : SocSparse w0 w1 d u0 u1 v1) :
    d + u0 * u0 = 2 * w0 * w0 - 1 ∧ u0 * u1 = 2 * w0 ∧ u1 * u1 - v1 * v1 = 2 := by
  have hw0 : 2 * (w0 * w0) = (w0 * w0 + dot w1 w1) + 1 := by linear_combination h.unit
  obtain ⟨a, b, c, _⟩ := soc_scalar_aux h2 hw0 h.hwsq h.hd h.hu0 h.hu0ne h.hu1 h.hv1
  exact ⟨a, b, c⟩

/-- The denominator of `v1²` does not vanish. -/
theorem SocSparse.den_ne (h2 : (2 : α) ≠ 0) {w0 : α} {w1 : Fin n → α} {d u0 u1 v1 : α}
    (h : SocSparse w0 w1 d u0 u1 v1) :
    2 * (w0 * w0 + dot w1 w1) - (w0 * w0 + dot w1 w1)⁻¹ ≠ 0 := by
  have hw0 : 2 * (w0 * w0) = (w0 * w0 + dot w1 w1) + 1 := by linear_combination h.unit
  exact (soc_scalar_aux h2 hw0 h.hwsq h.hd h.hu0 h.hu0ne h.hu1 h.hv1).2.2.2

/-! ## Second-order cone: rank-2 identity and Schur complement -/

/-- entrywise rank-2 identity from the three scalar facts -/
private theorem soc_rank2_of_key {w0 : α} {w1 : Fin n → α} {d u0 u1 v1 : α}
    (k1 : d + u0 * u0 = 2 * w0 * w0 - 1) (k2 : u0 * u1 = 2 * w0)
    (k3 : u1 * u1 - v1 * v1 = 2) (i j : Fin (n + 1)) :
    (if i = j then socD d i else 0) + socU u0 u1 w1 i * socU u0 u1 w1 j
        - socV v1 w1 i * socV v1 w1 j
      = 2 * socW w0 w1 i * socW w0 w1 j - (if i = j then socJ i else 0) := by
  refine Fin.cases ?_ (fun i' => ?_) i <;> refine Fin.cases ?_ (fun j' => ?_) j
  · simp only [socD, socU, socV, socW, socJ, Fin.cons_zero, if_true]
    linear_combination k1
  · simp only [socD, socU, socV, socW, socJ, Fin.cons_zero, Fin.cons_succ,
      (Fin.succ_ne_zero j').symm, if_false]
    linear_combination w1 j' * k2
  · simp only [socD, socU, socV, socW, socJ, Fin.cons_zero, Fin.cons_succ,
      Fin.succ_ne_zero i', if_false]
    linear_combination w1 i' * k2
  · simp only [socD, socU, socV, socW, socJ, Fin.cons_succ, Fin.succ_inj]
    by_cases hij : i' = j'
    · simp only [hij, if_true]
      linear_combination w1 j' * w1 j' * k3
    · simp only [hij, if_false]
      linear_combination w1 i' * w1 j' * k3

/-- [F] `D + uu' − vv' = 2ww' − J`, entrywise. -/
theorem soc_rank2_identity (h2 : (2 : α) ≠ 0) {w0 : α} {w1 : Fin n → α} {d u0 u1 v1 : α}
    (h : SocSparse w0 w1 d u0 u1 v1) (i j : Fin (n + 1)) :
    (if i = j then socD d i else 0) + socU u0 u1 w1 i * socU u0 u1 w1 j
        - socV v1 w1 i * socV v1 w1 j
      = 2 * socW w0 w1 i * socW w0 w1 j - (if i = j then socJ i else 0) := by
  obtain ⟨k1, k2, k3⟩ := h.key h2
  exact soc_rank2_of_key k1 k2 k3 i j

/-- [F] The Schur complement of the two auxiliary rows/columns of the expanded SOC block
is `−η²(2ww' − J)`, entrywise. -/
theorem soc_schur_entry (h2 : (2 : α) ≠ 0) {w0 : α} {w1 : Fin n → α} {d u0 u1 v1 η : α}
    (h : SocSparse w0 w1 d u0 u1 v1) (hη : η ≠ 0) (i j : Fin (n + 1)) :
    -(η * η) * (if i = j then socD d i else 0)
        - ((-(η * η) * socV v1 w1 i) * (-(η * η))⁻¹ * (-(η * η) * socV v1 w1 j)
          + (-(η * η) * socU u0 u1 w1 i) * (η * η)⁻¹ * (-(η * η) * socU u0 u1 w1 j))
      = -(η * η * (2 * socW w0 w1 i * socW w0 w1 j - (if i = j then socJ i else 0))) := by
  have hηη : η * η ≠ 0 := mul_ne_zero hη hη
  have key := soc_rank2_identity h2 h i j
  have e1 : (-(η * η) * socV v1 w1 i) * (-(η * η))⁻¹ * (-(η * η) * socV v1 w1 j)
      = -(η * η) * (socV v1 w1 i * socV v1 w1 j) := by
    field_simp
  have e2 : (-(η * η) * socU u0 u1 w1 i) * (η * η)⁻¹ * (-(η * η) * socU u0 u1 w1 j)
      = (η * η) * (socU u0 u1 w1 i * socU u0 u1 w1 j) := by
    field_simp
  rw [e1, e2]
  linear_combination -(η * η) * key

theorem dot_socW (w0 : α) (w1 : Fin n → α) (x : Fin (n + 1) → α) :
    dot (socW w0 w1) x = w0 * x 0 + ∑ i, w1 i * x i.succ := by
  simp [dot, socW, Fin.sum_univ_succ]

theorem dot_socU (u0 u1 : α) (w1 : Fin n → α) (x : Fin (n + 1) → α) :
    dot (socU u0 u1 w1) x = u0 * x 0 + u1 * ∑ i, w1 i * x i.succ := by
  simp [dot, socU, Fin.sum_univ_succ, Finset.mul_sum, mul_assoc]

theorem dot_socV (v1 : α) (w1 : Fin n → α) (x : Fin (n + 1) → α) :
    dot (socV v1 w1) x = v1 * ∑ i, w1 i * x i.succ := by
  simp [dot, socV, Fin.sum_univ_succ, Finset.mul_sum, mul_assoc]

/-- [F] Eliminating the two auxiliary variables `a`, `b` of the expanded SOC block from the
first block row leaves exactly `−(mul_Hs x)`. -/
theorem soc_schur_solve (h2 : (2 : α) ≠ 0) {w0 : α} {w1 : Fin n → α} {d u0 u1 v1 η : α}
    (h : SocSparse w0 w1 d u0 u1 v1) (hη : η ≠ 0)
    (x r : Fin (n + 1) → α) (a b : α)
    (hrow : ∀ i, -(η * η) * socD d i * x i + (-(η * η) * socV v1 w1 i) * a
        + (-(η * η) * socU u0 u1 w1 i) * b = r i)
    (hv : (-(η * η)) * dot (socV v1 w1) x + (-(η * η)) * a = 0)
    (hu : (-(η * η)) * dot (socU u0 u1 w1) x + (η * η) * b = 0) :
    ∀ i, r i = -(socMulHs η (socW w0 w1) x i) := by
  have hηη : η * η ≠ 0 := mul_ne_zero hη hη
  obtain ⟨k1, k2, k3⟩ := h.key h2
  have ha : a = -dot (socV v1 w1) x := by
    have : (η * η) * (a + dot (socV v1 w1) x) = 0 := by linear_combination -hv
    rcases mul_eq_zero.mp this with h' | h'
    · exact absurd h' hηη
    · linear_combination h'
  have hb : b = dot (socU u0 u1 w1) x := by
    have : (η * η) * (b - dot (socU u0 u1 w1) x) = 0 := by linear_combination hu
    rcases mul_eq_zero.mp this with h' | h'
    · exact absurd h' hηη
    · linear_combination h'
  intro i
  rw [← hrow i, ha, hb]
  simp only [socMulHs, dot_socW, dot_socU, dot_socV]
  generalize (∑ i, w1 i * x i.succ) = t
  refine Fin.cases ?_ (fun i' => ?_) i
  · simp only [socD, socU, socV, socW, socJ, Fin.cons_zero]
    linear_combination (-(η * η) * x 0) * k1 - (η * η * t) * k2
  · simp only [socD, socU, socV, socW, socJ, Fin.cons_succ]
    linear_combination (-(η * η) * w1 i' * x 0) * k2 - (η * η * w1 i' * t) * k3

/-- [F] The values installed by `set_identity_scaling` (`w = e₀`, `η = 1`, `d = ½`,
`u = (s,0,…,0)` with `s² = ½`, `v = 0`) satisfy the rank-2 identity. -/
theorem soc_identity_scaling (h2 : (2 : α) ≠ 0) {s : α} (hs : s * s = 1 / 2)
    (i j : Fin (n + 1)) :
    (if i = j then socD (1 / 2 : α) i else 0)
        + (Fin.cons s (fun _ => 0) : Fin (n + 1) → α) i
          * (Fin.cons s (fun _ => 0) : Fin (n + 1) → α) j
        - (Fin.cons 0 (fun _ => 0) : Fin (n + 1) → α) i
          * (Fin.cons 0 (fun _ => 0) : Fin (n + 1) → α) j
      = 2 * socW (1 : α) (fun _ => 0) i * socW (1 : α) (fun _ => 0) j
        - (if i = j then socJ i else 0) := by
  have h1 : (1 / 2 : α) + 1 / 2 = 1 := by field_simp; ring
  refine Fin.cases ?_ (fun i' => ?_) i <;> refine Fin.cases ?_ (fun j' => ?_) j
  · simp only [socD, socW, socJ, Fin.cons_zero, if_true]
    linear_combination hs + h1
  · simp only [socD, socW, socJ, Fin.cons_zero, Fin.cons_succ,
      (Fin.succ_ne_zero j').symm, if_false]
    ring
  · simp only [socD, socW, socJ, Fin.cons_zero, Fin.cons_succ,
      Fin.succ_ne_zero i', if_false]
    ring
  · simp only [socD, socW, socJ, Fin.cons_succ, Fin.succ_inj]
    by_cases hij : i' = j'
    · simp only [hij, if_true]; ring
    · simp only [hij, if_false]; ring

/-! ## Generalised power cone -/

section GenPow
variable {m : ℕ}

/-- [F] Schur complement of the three auxiliary rows/columns of the expanded generalised
power cone block is `−μ(D + pp' − qq' − rr')`, entrywise. -/
theorem genpow_schur_entry {μ sm : α} (hsm : sm * sm = μ) (D p q r : Fin m → α)
    (i j : Fin m) :
    -(μ * (if i = j then D i else 0))
        - ((-sm * q i) * (-1 : α)⁻¹ * (-sm * q j) + (-sm * r i) * (-1 : α)⁻¹ * (-sm * r j)
          + (-sm * p i) * (1 : α)⁻¹ * (-sm * p j))
      = -(μ * ((if i = j then D i else 0) + p i * p j - q i * q j - r i * r j)) := by
  have hm1 : (-1 : α)⁻¹ = -1 := by rw [inv_neg, inv_one]
  rw [hm1, inv_one]
  linear_combination (q i * q j + r i * r j - p i * p j) * hsm

/-- [F] Eliminating the three auxiliary variables of the expanded generalised power cone
block from the first block row leaves exactly `−(mul_Hs x)`. -/
theorem genpow_schur_solve {μ sm : α} (hsm : sm * sm = μ) (D p q r x rhs : Fin m → α)
    (a b c : α)
    (hrow : ∀ i, -(μ * D i) * x i + (-sm * q i) * a + (-sm * r i) * b + (-sm * p i) * c
        = rhs i)
    (hq : (-sm) * dot q x + (-1) * a = 0)
    (hr : (-sm) * dot r x + (-1) * b = 0)
    (hp : (-sm) * dot p x + 1 * c = 0) :
    ∀ i, rhs i = -(genpowMulHs μ D p q r x i) := by
  have ha : a = -sm * dot q x := by linear_combination -hq
  have hb : b = -sm * dot r x := by linear_combination -hr
  have hc : c = sm * dot p x := by linear_combination hp
  intro i
  rw [← hrow i, ha, hb, hc]
  simp only [genpowMulHs]
  linear_combination (q i * dot q x + r i * dot r x - p i * dot p x) * hsm

end GenPow

/-! ## Ordered fields: the side conditions are automatic -/

section Ordered
variable {β : Type} [Field β] [LinearOrder β] [IsStrictOrderedRing β]

theorem dot_self_nonneg {m : ℕ} (x : Fin m → β) : 0 ≤ dot x x :=
  Finset.sum_nonneg (fun i _ => mul_self_nonneg (x i))

/-- In an ordered field `wsq = 1 + 2‖w1‖² ≥ 1`. -/
theorem wsq_ge_one {w0 : β} {w1 : Fin n → β} (unit : w0 * w0 - dot w1 w1 = 1) :
    1 ≤ w0 * w0 + dot w1 w1 := by
  have := dot_self_nonneg w1
  linarith

/-- In an ordered field `wsq − ½ wsq⁻¹ > 0`. -/
theorem wsq_sub_d_pos {W : β} (hW : 1 ≤ W) : 0 < W - (1 / 2) * W⁻¹ := by
  have hWpos : 0 < W := lt_of_lt_of_le one_pos hW
  have hinv : W⁻¹ ≤ 1 := inv_le_one_of_one_le₀ hW
  have hinv0 : 0 < W⁻¹ := inv_pos.mpr hWpos
  linarith

/-- [F] In an ordered field the nonvanishing side conditions of `SocSparse` follow from the
defining equations. -/
theorem SocSparse.of_ordered {w0 : β} {w1 : Fin n → β} {d u0 u1 v1 : β}
    (unit : w0 * w0 - dot w1 w1 = 1)
    (hd : d = (1 / 2) * (w0 * w0 + dot w1 w1)⁻¹)
    (hu0 : u0 * u0 = (w0 * w0 + dot w1 w1) - d)
    (hu1 : u1 = 2 * w0 / u0)
    (hv1 : v1 * v1 = 2 * (2 + (w0 * w0 + dot w1 w1)⁻¹)
      / (2 * (w0 * w0 + dot w1 w1) - (w0 * w0 + dot w1 w1)⁻¹)) :
    SocSparse w0 w1 d u0 u1 v1 := by
  have hW := wsq_ge_one unit
  have hWpos : 0 < w0 * w0 + dot w1 w1 := lt_of_lt_of_le one_pos hW
  refine ⟨unit, ne_of_gt hWpos, hd, hu0, ?_, hu1, hv1⟩
  intro h0
  have hpos := wsq_sub_d_pos hW
  rw [← hd, ← hu0, h0] at hpos
  simp at hpos

end Ordered

/-! ## Reals: the code's square-root formulas -/

/-- [R] The concrete values computed by the code (with `Real.sqrt`) satisfy `SocSparse`, so
`soc_rank2_identity`, `soc_schur_entry`, `soc_schur_solve` apply to them. (`0 < w0`, which
holds for interior points, is not needed.) -/
theorem soc_sparse_real (w0 : ℝ) (w1 : Fin n → ℝ) (unit : w0 * w0 - dot w1 w1 = 1) :
    SocSparse w0 w1
      ((1 / 2) * (w0 * w0 + dot w1 w1)⁻¹)
      (Real.sqrt ((w0 * w0 + dot w1 w1) - (1 / 2) * (w0 * w0 + dot w1 w1)⁻¹))
      (2 * w0 / Real.sqrt ((w0 * w0 + dot w1 w1) - (1 / 2) * (w0 * w0 + dot w1 w1)⁻¹))
      (Real.sqrt (2 * (2 + (w0 * w0 + dot w1 w1)⁻¹)
        / (2 * (w0 * w0 + dot w1 w1) - (w0 * w0 + dot w1 w1)⁻¹))) := by
  have hW := wsq_ge_one unit
  have hWpos : 0 < w0 * w0 + dot w1 w1 := lt_of_lt_of_le one_pos hW
  have hinv : (w0 * w0 + dot w1 w1)⁻¹ ≤ 1 := inv_le_one_of_one_le₀ hW
  have hinv0 : 0 < (w0 * w0 + dot w1 w1)⁻¹ := inv_pos.mpr hWpos
  have hpos := wsq_sub_d_pos hW
  refine SocSparse.of_ordered unit rfl (Real.mul_self_sqrt hpos.le) rfl
    (Real.mul_self_sqrt ?_)
  apply div_nonneg
  · linarith
  · linarith

/-- non-vacuity of `SocSparse` (and hence of the theorems above): `w = (5/4, 3/4)`. -/
example : ∃ (d u0 u1 v1 : ℝ), SocSparse (n := 1) (5 / 4 : ℝ) (fun _ => 3 / 4) d u0 u1 v1 :=
  ⟨_, _, _, _, soc_sparse_real _ _ (by simp [dot]; norm_num)⟩

/-- non-vacuity with `n = 0` (the identity scaling `w = e₀`). -/
example : ∃ (d u0 u1 v1 : ℝ), SocSparse (n := 0) (1 : ℝ) Fin.elim0 d u0 u1 v1 :=
  ⟨_, _, _, _, soc_sparse_real _ _ (by simp [dot])⟩

/-- non-vacuity of the hypotheses of `soc_schur_solve`: for every `x` the expanded system has
a solution `(a, b)` with some right-hand side `r`. -/
example {w1 : Fin n → α} {d u0 u1 v1 η : α} (x : Fin (n + 1) → α) :
    ∃ (a b : α) (r : Fin (n + 1) → α),
      (∀ i, -(η * η) * socD d i * x i + (-(η * η) * socV v1 w1 i) * a
        + (-(η * η) * socU u0 u1 w1 i) * b = r i) ∧
      (-(η * η)) * dot (socV v1 w1) x + (-(η * η)) * a = 0 ∧
      (-(η * η)) * dot (socU u0 u1 w1) x + (η * η) * b = 0 :=
  ⟨-dot (socV v1 w1) x, dot (socU u0 u1 w1) x, _, fun _ => rfl, by ring, by ring⟩

/-- non-vacuity of the hypotheses of `genpow_schur_solve` (over ℚ, `μ = 4`, `sm = 2`). -/
example (D p q r x : Fin 3 → ℚ) :
    ∃ (a b c : ℚ) (rhs : Fin 3 → ℚ), (2 : ℚ) * 2 = 4 ∧
      (∀ i, -(4 * D i) * x i + (-2 * q i) * a + (-2 * r i) * b + (-2 * p i) * c = rhs i) ∧
      (-2) * dot q x + (-1) * a = 0 ∧ (-2) * dot r x + (-1) * b = 0 ∧
      (-2) * dot p x + 1 * c = 0 :=
  ⟨-2 * dot q x, -2 * dot r x, 2 * dot p x, _, by norm_num, fun _ => rfl,
    by ring, by ring, by ring⟩

end Clarabel.Lemmas.KktExpansion
