/-
  `update` never panics on the maps of `assemble`: for the index maps returned by
  `Kkt.assembleKktMatrix`, a value array of the assembled length and scaling data that have the
  layout of the cone list (`LayoutFits`) and whose `get_Hs` succeed, `Kkt.updateValues` returns
  `.ok` (`assemble_update_total`).
-/
import ClarabelModel.Kkt
import ClarabelProofs.Lemmas.KktUpdateAsm

set_option linter.unusedSectionVars false
set_option linter.unusedVariables false

namespace Clarabel.Lemmas.KktUpdateTotal
open Clarabel Clarabel.Csc Clarabel.Kkt
open Clarabel.Lemmas.KktRun Clarabel.Lemmas.KktSlots Clarabel.Lemmas.KktFillMaps
open Clarabel.Lemmas.KktFillRun Clarabel.Lemmas.KktTotal
open Clarabel.Lemmas.KktFinal Clarabel.Lemmas.KktSpec Clarabel.Lemmas.KktDistinct
open Clarabel.Lemmas.KktUpdateAsm

variable {α : Type} [Add α] [Sub α] [Mul α] [Div α] [Neg α] [OfNat α 0] [OfNat α 1]
  [LT α] [DecidableLT α] [FloatLike α]

theorem updateValuesKKT_exists (nz : Array α) (index : Array Nat) (values : Array α)
    (h : ∀ i ∈ index.toList, i < nz.size) :
    ∃ nz', updateValuesKKT nz index values = .ok nz' ∧ nz'.size = nz.size := by
  unfold updateValuesKKT
  refine foldlM_exists _ (fun a => a.size = nz.size) _ ?_ nz rfl
  intro p hp a ha
  have hlt : p.1 < a.size := by rw [ha]; exact h p.1 (List.of_mem_zip hp).1
  exact ⟨_, setE_lt hlt, by simp [ha]⟩

theorem scaleValuesKKT_exists (nz : Array α) (index : Array Nat) (s : α)
    (h : ∀ i ∈ index.toList, i < nz.size) :
    ∃ nz', scaleValuesKKT nz index s = .ok nz' ∧ nz'.size = nz.size := by
  unfold scaleValuesKKT
  refine foldlM_exists _ (fun a => a.size = nz.size) _ ?_ nz rfl
  intro i hi a ha
  have hlt : i < a.size := by rw [ha]; exact h i hi
  refine ⟨a.setIfInBounds i (a[i] * s), ?_, by simp [ha]⟩
  show (getE a i "KKT.nzval[idx]" >>= fun v => setE a i (v * s)) = _
  rw [getE_some (Array.getElem?_eq_getElem hlt)]
  exact setE_lt hlt

/-- the expansion map is of the kind of the cone's scaling data -/
def KindOK : SparseMap → ConeScaling α → Prop
  | .soc .., .socSparse .. => True
  | .genpow .., .genpow .. => True
  | _, _ => False

/-- `csc_update_sparsecone` succeeds when the map is of the kind of the cone and all its
positions exist -/
theorem updateSparsecone_exists (nz : Array α) (mp : SparseMap) (c : ConeScaling α)
    (hkind : KindOK mp c) (hb : ∀ j ∈ mp.indices, j < nz.size) :
    ∃ nz', updateSparsecone nz mp c = .ok nz' ∧ nz'.size = nz.size := by
  cases mp <;> cases c <;> simp only [KindOK] at hkind
  case soc.socSparse mu mv mD dim η u v d =>
    have bu : ∀ i ∈ mu.toList, i < nz.size := fun i hi => hb i (by simp [SparseMap.indices, hi])
    have bv : ∀ i ∈ mv.toList, i < nz.size := fun i hi => hb i (by simp [SparseMap.indices, hi])
    have bD : ∀ i ∈ mD.toList, i < nz.size := fun i hi => hb i (by simp [SparseMap.indices, hi])
    obtain ⟨n1, h1, s1⟩ := updateValuesKKT_exists nz mu u bu
    obtain ⟨n2, h2, s2⟩ := updateValuesKKT_exists n1 mv v (by rw [s1]; exact bv)
    obtain ⟨n3, h3, s3⟩ := scaleValuesKKT_exists n2 mu (-(η * η)) (by rw [s2, s1]; exact bu)
    obtain ⟨n4, h4, s4⟩ := scaleValuesKKT_exists n3 mv (-(η * η)) (by rw [s3, s2, s1]; exact bv)
    obtain ⟨n5, h5, s5⟩ := updateValuesKKT_exists n4 mD #[-(η * η), η * η]
      (by rw [s4, s3, s2, s1]; exact bD)
    refine ⟨n5, ?_, by omega⟩
    unfold updateSparsecone
    simp only [bind, Except.bind, h1, h2, h3, h4, h5]
  case genpow.genpow mp mq mr mD μ p q r d1 d2 =>
    have bp : ∀ i ∈ mp.toList, i < nz.size := fun i hi => hb i (by simp [SparseMap.indices, hi])
    have bq : ∀ i ∈ mq.toList, i < nz.size := fun i hi => hb i (by simp [SparseMap.indices, hi])
    have br : ∀ i ∈ mr.toList, i < nz.size := fun i hi => hb i (by simp [SparseMap.indices, hi])
    have bD : ∀ i ∈ mD.toList, i < nz.size := fun i hi => hb i (by simp [SparseMap.indices, hi])
    obtain ⟨n1, h1, s1⟩ := updateValuesKKT_exists nz mq q bq
    obtain ⟨n2, h2, s2⟩ := updateValuesKKT_exists n1 mr r (by rw [s1]; exact br)
    obtain ⟨n3, h3, s3⟩ := updateValuesKKT_exists n2 mp p (by rw [s2, s1]; exact bp)
    obtain ⟨n4, h4, s4⟩ := scaleValuesKKT_exists n3 mq (-(sqrt μ)) (by rw [s3, s2, s1]; exact bq)
    obtain ⟨n5, h5, s5⟩ := scaleValuesKKT_exists n4 mr (-(sqrt μ)) (by rw [s4, s3, s2, s1]; exact br)
    obtain ⟨n6, h6, s6⟩ := scaleValuesKKT_exists n5 mp (-(sqrt μ))
      (by rw [s5, s4, s3, s2, s1]; exact bp)
    obtain ⟨n7, h7, s7⟩ := updateValuesKKT_exists n6 mD #[-1, -1, 1]
      (by rw [s6, s5, s4, s3, s2, s1]; exact bD)
    refine ⟨n7, ?_, by omega⟩
    unfold updateSparsecone
    simp only [bind, Except.bind, h1, h2, h3, h4, h5, h6, h7]

section asm
variable {P A : Csc α} {cones : List ConeSpec} {shape : MatrixTriangle} {K : Csc α}
  {map : LDLDataMap} {sched : List (Entry α)} {Kc : Csc α} {nd : Nat}

/-- located positions are positions of the value array -/
theorem located_lt (R : AsmRun P A cones shape K map sched Kc nd) {Pred : Nat → Nat → Prop}
    {l : List Nat} (L : Located shape (colcountToColptr Kc).colptr sched Pred l) :
    ∀ j ∈ l, j < K.nzval.size := by
  intro j hj
  obtain ⟨r, c, v, s, _⟩ := L j hj
  obtain ⟨d, hd, p, q, _, _, _, _, _, hv⟩ :=
    R.mat.slotIs (fun e he => (R.cols e he).1) (show SlotAt _ sched (some j) _ _ v from s)
  cases hd
  exact (Array.getElem?_eq_some_iff.mp hv).1

/-- the loop of `update` over the cones succeeds -/
theorem sparseFold_exists (R : AsmRun P A cones shape K map sched Kc nd)
    (hm : (cones.map ConeSpec.numel).sum = A.m) :
    ∀ (rest : List (ConeScaling α)) (restS : List ConeSpec), LayoutFits rest restS →
    ∀ (preS : List ConeSpec), cones = preS ++ restS →
    ∀ (nz0 : Array α), nz0.size = K.nzval.size →
      ∃ r, rest.foldlM (sparseStep map) (nz0, nSparse preS) = .ok r := by
  intro rest restS hfit
  induction hfit with
  | nil => intro preS _ nz0 _; exact ⟨_, rfl⟩
  | @cons c cS rest' restS' hab hrest ih =>
    intro preS hdec nz0 hsz
    have hdec' : cones = (preS ++ [cS]) ++ restS' := by rw [hdec]; simp
    have hns : nSparse (preS ++ [cS]) = nSparse preS + (if cS.isSparseExpandable = true then 1 else 0) := by
      unfold nSparse
      rw [List.countP_append, List.countP_cons]
      simp
    rw [List.foldlM_cons]
    by_cases hsp : cS.isSparseExpandable = true
    · have hcs : c.isSparse = true := by rw [fits_sparse hab]; exact hsp
      obtain ⟨mp', hget, hss⟩ := (R.fill.cone_slots preS cS restS' hdec).2 hsp
      -- positions of this map exist
      have hi : preS.length < cones.length := by rw [hdec]; simp
      have hb : ∀ j ∈ mp'.indices, j < nz0.size := by
        rw [hsz]
        have hci : cones[preS.length]'hi = cS := by
          simp [hdec]
        have hrow : (A.n + (preS.map ConeSpec.numel).sum) + cS.numel
            ≤ A.m + A.n + (preS.map conePdim).sum := by
          have : ((preS ++ cS :: restS').map ConeSpec.numel).sum = A.m := by rw [← hdec]; exact hm
          simp only [List.map_append, List.map_cons, List.sum_append, List.sum_cons] at this
          omega
        exact located_lt R (sp_located R.dis hsp hrow hss).1
      have hkind : KindOK mp' c := by
        have hf := hss.fits
        cases c <;> simp only [ConeScaling.isSparse] at hcs <;> try (cases hcs)
        all_goals
          cases cS <;> simp only [ScalingFits] at hab <;>
            cases mp' <;> simp only [MapFitsD] at hf <;> simp only [KindOK]
      obtain ⟨nz1, h1, s1⟩ := updateSparsecone_exists nz0 mp' c hkind hb
      obtain ⟨r, hr⟩ := ih (preS ++ [cS]) hdec' nz1 (by rw [s1]; exact hsz)
      refine ⟨r, ?_⟩
      have hstep : sparseStep map (nz0, nSparse preS) c = .ok (nz1, nSparse preS + 1) := by
        unfold sparseStep
        simp only [hcs, if_true, bind, Except.bind, getE_some hget, h1, pure, Except.pure]
      rw [hstep]
      rw [hns, if_pos hsp] at hr
      exact hr
    · have hcs : c.isSparse = false := by
        rw [fits_sparse hab]; simpa using hsp
      obtain ⟨r, hr⟩ := ih (preS ++ [cS]) hdec' nz0 hsz
      refine ⟨r, ?_⟩
      have hstep : sparseStep map (nz0, nSparse preS) c = .ok (nz0, nSparse preS) := by
        unfold sparseStep
        simp [hcs, pure, Except.pure]
      rw [hstep]
      rw [hns, if_neg hsp] at hr
      exact hr

end asm

/-- [S] **`update` never panics on the solver's own maps**: `K, map` returned by
`assemble_kkt_matrix`, a value array of the assembled length, scaling data with the layout of the
cone list whose `get_Hs` succeed. -/
theorem assemble_update_total {P A : Csc α} {cones : List ConeSpec} {shape : MatrixTriangle}
    {K : Csc α} {map : LDLDataMap} (hin : KktInputs P A cones)
    (hasm : assembleKktMatrix P A cones shape = .ok (K, map))
    (nz : Array α) (hnz : nz.size = K.nzval.size)
    (scal : List (ConeScaling α)) (hfits : LayoutFits scal cones)
    (blocks : List (Array α)) (hget : scal.mapM getHs = .ok blocks) :
    ∃ nz', updateValues nz map scal = .ok nz' := by
  obtain ⟨sched, Kc, nd, R⟩ := asmRun_of_ok hin hasm
  have hHs : ∀ i ∈ map.Hsblocks.toList, i < nz.size := by
    rw [hnz]; exact located_lt R (hs_located R hin.m_eq)
  obtain ⟨nz1, h1, s1⟩ := updateValuesKKT_exists nz map.Hsblocks
    ((blocks.map Array.toList).flatten.toArray.map (fun v => -v)) hHs
  obtain ⟨r, hr⟩ := sparseFold_exists R hin.m_eq scal cones hfits [] rfl nz1 (by rw [s1]; exact hnz)
  refine ⟨r.1, ?_⟩
  have hdef : updateValues nz map scal = (do
      let blocks ← scal.mapM getHs
      let nz ← updateValuesKKT nz map.Hsblocks
        ((blocks.map Array.toList).flatten.toArray.map (fun v => -v))
      let r ← scal.foldlM (sparseStep map) (nz, 0)
      pure r.1) := rfl
  rw [hdef]
  simp only [bind, Except.bind, hget, h1]
  have : nSparse ([] : List ConeSpec) = 0 := rfl
  rw [this] at hr
  rw [hr]
  rfl

end Clarabel.Lemmas.KktUpdateTotal
