/-
  Clique-graph merge strategy, JUNCTION-TREE LINK: the vocabulary shared by the lemma files
  `ChordalKruskalMax.lean`, `ChordalJTContract.lean`, `ChordalCGInterWeights.lean`,
  `ChordalCGRipDisjoint.lean`, `ChordalCGJunction*.lean`.  No theorem of substance lives here.

  * `JT.Heavy`       : "every edge of `G` is spanned by the edges of `T` at least as heavy" — what the
                       greedy loop of `kruskal` guarantees, and what makes `T` a maximum-weight forest;
  * `JT.norm/ren/contract/mergeCl` : contraction of an edge `{a, b}` of a forest (`b` is retired
                       into `a`) and the clique family after the merge;
  * `cgCl`           : the membership function of the clique sets while the strategy runs;
  * `CGHasJT s t J`  : `J` is a junction tree of the live cliques INSIDE the edge matrix;
  * `CGAntichain t`  : no live clique is contained in another one.
-/
import ClarabelProofs.Lemmas.ChordalJunctionTree
import ClarabelProofs.Lemmas.ChordalForestCount
import ClarabelProofs.Lemmas.ChordalCGSpecs

namespace Clarabel.Chordal
open Clarabel

namespace JT

/-- every edge of `G` is spanned by the edges of `T` that weigh at least as much -/
def Heavy (w : Nat × Nat → Nat) (G T : List (Nat × Nat)) : Prop :=
  ∀ e ∈ G, Conn (T.filter (fun m => decide (w e ≤ w m))) e.1 e.2

/-- an edge in the orientation of the edge matrix: `(larger index, smaller index)` -/
def norm (e : Nat × Nat) : Nat × Nat := (max e.1 e.2, min e.1 e.2)

/-- clique `b` is retired into clique `a` -/
def ren (a b : Nat) (x : Nat) : Nat := if x = b then a else x

/-- is `e` the edge `{a, b}` (in either orientation)? -/
def isEdge (a b : Nat) (e : Nat × Nat) : Bool := (e.1 == a && e.2 == b) || (e.1 == b && e.2 == a)

/-- CONTRACTION of the edge `{a, b}` in the edge list `J`: the edge disappears, every other edge
has `b` renamed to `a` and is re-oriented as `(larger, smaller)` -/
def contract (a b : Nat) (J : List (Nat × Nat)) : List (Nat × Nat) :=
  (J.filter (fun e => !isEdge a b e)).map (fun e => norm (ren a b e.1, ren a b e.2))

/-- the clique family after `b` was merged into `a`: `C_a ∪ C_b` at `a`, nothing at `b` -/
def mergeCl (cl : Nat → Nat → Bool) (a b : Nat) : Nat → Nat → Bool :=
  fun c v => if c = a then cl a v || cl b v else if c = b then false else cl c v

/-- no clique of `L` is contained in another one -/
def Antichain (cl : Nat → Nat → Bool) (L : List Nat) : Prop :=
  ∀ a ∈ L, ∀ b ∈ L, a ≠ b → ∃ v, cl a v = true ∧ cl b v = false

/-- CONTRACTING AN EDGE OF A JUNCTION TREE GIVES A JUNCTION TREE OF THE MERGED FAMILY
(`ChordalJTContract.lean`) -/
def ContractSpec : Prop :=
  ∀ (cl : Nat → Nat → Bool) (L : List Nat) (J : List (Nat × Nat)) (a b : Nat), L.Nodup → a ≠ b →
    a ∈ L → b ∈ L → ForestFrom [] J → (∀ e ∈ J, e.1 ∈ L ∧ e.2 ∈ L) → RIP cl L J →
    ((a, b) ∈ J ∨ (b, a) ∈ J) →
    ForestFrom [] (contract a b J) ∧
    (∀ e ∈ contract a b J, e.1 ∈ L.erase b ∧ e.2 ∈ L.erase b) ∧
    RIP (mergeCl cl a b) (L.erase b) (contract a b J)

/-- MERGING ALONG AN EDGE OF A JUNCTION TREE KEEPS THE CLIQUES AN ANTICHAIN
(`ChordalJTContract.lean`) -/
def AntichainContractSpec : Prop :=
  ∀ (cl : Nat → Nat → Bool) (L : List Nat) (J : List (Nat × Nat)) (a b : Nat), L.Nodup → a ≠ b →
    a ∈ L → b ∈ L → ForestFrom [] J → (∀ e ∈ J, e.1 ∈ L ∧ e.2 ∈ L) → RIP cl L J →
    ((a, b) ∈ J ∨ (b, a) ∈ J) → Antichain cl L → Antichain (mergeCl cl a b) (L.erase b)

end JT

/-- the clique sets while the clique-graph strategy runs, as a membership function -/
def cgCl (t : SuperNodeTree) : Nat → Nat → Bool :=
  fun c v => decide (v ∈ (t.snode.getD c #[]).toList)

theorem cgCl_iff (t : SuperNodeTree) (c v : Nat) :
    cgCl t c v = true ↔ v ∈ (t.snode.getD c #[]).toList := by
  simp [cgCl]

/-- `J` IS A JUNCTION TREE OF THE LIVE CLIQUES INSIDE THE EDGE MATRIX: an acyclic list of stored
entries `(row, col)` with the running-intersection property for the clique sets of `t` -/
structure CGHasJT (s : CGStrategy) (t : SuperNodeTree) (J : List (Nat × Nat)) : Prop where
  forest : ForestFrom [] J
  sub : ∀ e ∈ J, e ∈ s.edges.edges
  rip : JT.RIP (cgCl t) (cgLiveList t) J

/-- no live clique is contained in another live clique (the hypothesis of
`CGPostDesc.nonempty_of_antichain`) -/
def CGAntichain (t : SuperNodeTree) : Prop :=
  ∀ a b, CGLive t a → CGLive t b → a ≠ b →
    ∃ v ∈ (t.snode.getD a #[]).toList, v ∉ (t.snode.getD b #[]).toList

end Clarabel.Chordal
