/-
  C07, round 3: step acceptance and NaN ([S]: every scalar type, `Float` included).

  * a step length that compares `false` against both thresholds of
    `strategy_checkpoint_small_step` (as an IEEE NaN does) is let through, and the pass goes on to
    `save_prev_iterate` / `add_step` with it;
  * but `calc_step_length` cannot produce a NaN before its last multiplication: with Rust's
    `f64::min` (a NaN argument is ignored) the cap `[ατ, ακ, 1].minimum()`, every running minimum of
    the composite cone and `min(αz, αs)` are not NaN whatever the cones answer, so the value handed
    to the checkpoint is `m · max_step_fraction` with `m` not NaN.
-/
import ClarabelModel.StepK

namespace Clarabel.StepK
open Clarabel Loop Loop.Step
set_option linter.unusedSectionVars false

section checkpoint
variable {α : Type} [Mul α] [Div α] [Neg α] [OfNat α 0] [OfNat α 1]
  [LT α] [DecidableLT α] [LE α] [DecidableLE α] [BEq α] [FloatLike α]

/-- [S] a step length for which both comparisons of `strategy_checkpoint_small_step` are false —
every IEEE NaN — is answered with `NoUpdate` and leaves the status alone -/
theorem cpSmallStep_unordered (cfg : Config α) (a : α) (sc : Scaling) (st : Status)
    (h1 : ¬ a < cfg.minSwitchStepLength) (h2 : ¬ a ≤ fmax 0 cfg.minTerminateStepLength) :
    cpSmallStep cfg a sc = .NoUpdate ∧ cpSmallStepStatus cfg a st sc = st := by
  unfold cpSmallStep cpSmallStepStatus
  simp only [decide_eq_false h1, Bool.and_false, Bool.false_eq_true, ↓reduceIte, h2, and_self]

/-- [S] …and on the skeleton the pass then reaches `add_step` with that very step length: the
iterate becomes `step vars pass a` and `a` is recorded as `info.step_length` of the next row -/
theorem unordered_step_reaches_add_step (cfg : Config α) (o : PassOracle α) (st1 : State α)
    (hk : o.kktAffOk = true ∧ o.kktCombOk = true)
    (h1 : ¬ o.alpha < cfg.minSwitchStepLength)
    (h2 : ¬ o.alpha ≤ fmax 0 cfg.minTerminateStepLength) :
    ∃ st', passKkt cfg o st1 = .cont st' ∧ st'.vars = .step st1.vars (st1.passes - 1) o.alpha ∧
      st'.alpha = o.alpha ∧ st'.prevVars = st1.vars ∧ st'.saved = true := by
  obtain ⟨c1, _⟩ := cpSmallStep_unordered cfg o.alpha st1.scaling .Unsolved h1 h2
  unfold passKkt
  simp only [hk.1, hk.2, Bool.and_self, cpNumericalError, ↓reduceIte, c1]
  exact ⟨_, rfl, rfl, rfl, rfl, rfl⟩

end checkpoint

section accept
variable {α : Type} [Add α] [Sub α] [Mul α] [Div α] [Neg α] [LT α] [LE α] [DecidableLT α]
  [DecidableLE α] [BEq α] [OfNat α 0] [OfNat α 1] [OfNat α 2] [OfNat α 3] [OfNat α 4]
  [OfScientific α] [FloatLike α]

/-- [S] `add_step` is reached exactly when the checkpoint answers `NoUpdate` -/
theorem acceptStep_iff (cfg : Config α) (sc : Scaling) (p : Pt α) (a : α) :
    (acceptStep cfg sc p a).isSome = true ↔ cpSmallStep cfg a sc = .NoUpdate := by
  unfold acceptStep
  split
  · rename_i h; simp [h]
  · rename_i h; simp only [Option.isSome_none, Bool.false_eq_true, false_iff]; exact h

/-- [S] an unordered (NaN) step length is accepted and applied -/
theorem acceptStep_unordered (cfg : Config α) (sc : Scaling) (p : Pt α) (a : α)
    (h1 : ¬ a < cfg.minSwitchStepLength) (h2 : ¬ a ≤ fmax 0 cfg.minTerminateStepLength) :
    acceptStep cfg sc p a = some (addStep p a) := by
  unfold acceptStep
  rw [(cpSmallStep_unordered cfg a sc .Unsolved h1 h2).1]

/-- the one fact about `f64::min` that matters: the result is NaN only if both arguments are -/
def MinIgnoresNaN (α : Type) [FloatLike α] : Prop :=
  ∀ a b : α, FloatLike.isNaN (fmin a b) = true → FloatLike.isNaN a = true ∧ FloatLike.isNaN b = true

omit [Add α] [Sub α] [LE α] [DecidableLE α] [BEq α] [OfNat α 2] [OfNat α 3] [OfNat α 4]
  [OfScientific α] in
/-- [S] `[ατ, ακ, 1].minimum()` is not NaN -/
theorem alphaMax_not_nan (hmin : MinIgnoresNaN α) (h1 : FloatLike.isNaN (1 : α) = false)
    (tau kappa dtau dkappa maxValue : α) :
    FloatLike.isNaN (alphaMax tau kappa dtau dkappa maxValue) = false := by
  unfold alphaMax
  cases h : FloatLike.isNaN (fmin (fmin (ratio tau dtau maxValue) (ratio kappa dkappa maxValue)) 1) with
  | false => rfl
  | true => rw [(hmin _ _ h).2] at h1; cases h1

omit [Add α] [Sub α] [Mul α] [Div α] [Neg α] [LT α] [LE α] [DecidableLT α] [DecidableLE α] [BEq α]
  [OfNat α 0] [OfNat α 1] [OfNat α 2] [OfNat α 3] [OfNat α 4] [OfScientific α] in
/-- [S] one pass of the composite's closure keeps a non-NaN running minimum non-NaN, whatever the
cones answer -/
theorem inner_not_nan (hmin : MinIgnoresNaN α) (cones : List (Composite.ConeFn α)) (symcond : Bool) :
    ∀ (a m : α), FloatLike.isNaN a = false → Composite.inner cones symcond a = .ok m →
      FloatLike.isNaN m = false := by
  induction cones with
  | nil =>
    intro a m ha h
    simp only [Composite.inner, List.foldlM_nil, pure, Except.pure, Except.ok.injEq] at h
    rw [← h]; exact ha
  | cons d t ih =>
    intro a m ha h
    simp only [Composite.inner, List.foldlM_cons] at h
    by_cases hs : (d.symmetric == symcond) = true
    · simp only [hs, ↓reduceIte, pure, Except.pure, bind, Except.bind] at h
      exact ih a m ha h
    · simp only [hs, Bool.false_eq_true, ↓reduceIte, bind, Except.bind] at h
      cases hd : d.stepLength a with
      | error e => rw [hd] at h; cases h
      | ok r =>
        rw [hd] at h
        simp only [pure, Except.pure] at h
        refine ih _ m ?_ h
        cases hn : FloatLike.isNaN (fmin a (fmin r.1 r.2)) with
        | false => rfl
        | true => rw [(hmin _ _ hn).1] at ha; cases ha

omit [Add α] [Sub α] [Mul α] [Div α] [Neg α] [LT α] [LE α] [DecidableLT α] [DecidableLE α] [BEq α]
  [OfNat α 0] [OfNat α 1] [OfNat α 2] [OfNat α 3] [OfNat α 4] [OfScientific α] in
/-- [S] `CompositeCone::step_length` started from a non-NaN `αmax` returns a non-NaN pair, even if
`max_step_fraction` or some cone's answer is NaN -/
theorem composite_not_nan (hmin : MinIgnoresNaN α) (cones : List (Composite.ConeFn α)) (msf amax : α)
    (r : α × α) (ha : FloatLike.isNaN amax = false)
    (h : Composite.stepLength cones msf amax = .ok r) :
    FloatLike.isNaN r.1 = false ∧ r.2 = r.1 := by
  unfold Composite.stepLength at h
  cases h1 : Composite.inner cones true amax with
  | error e => rw [h1] at h; cases h
  | ok a1 =>
    rw [h1] at h
    simp only [bind, Except.bind] at h
    have g1 := inner_not_nan hmin cones true amax a1 ha h1
    have g2 : FloatLike.isNaN (if !cones.all (·.symmetric) then fmin msf a1 else a1) = false := by
      split
      · cases hn : FloatLike.isNaN (fmin msf a1) with
        | false => rfl
        | true => rw [(hmin _ _ hn).2] at g1; cases g1
      · exact g1
    cases h3 : Composite.inner cones false (if !cones.all (·.symmetric) then fmin msf a1 else a1) with
    | error e => rw [h3] at h; cases h
    | ok a3 =>
      rw [h3] at h
      simp only [pure, Except.pure, Except.ok.injEq] at h
      subst h
      exact ⟨inner_not_nan hmin cones false _ a3 g2 h3, rfl⟩

/-- [S] **`calc_step_length` and NaN.**  With `f64::min` semantics and `1` not NaN, for *any*
iterate and direction (NaN entries included) the value is `m` (affine) resp. `m · max_step_fraction`
(combined) with `m` not NaN: a NaN step length can only come out of that last product. -/
theorem calcStepLength_nan (hmin : MinIgnoresNaN α) (h1 : FloatLike.isNaN (1 : α) = false)
    (maxValue : α) (ls : LineSearch α) (p : Pt α) (combined : Bool) (f a : α)
    (h : calcStepLength maxValue ls p combined f = .ok a) :
    ∃ m, FloatLike.isNaN m = false ∧ a = if combined then m * f else m := by
  unfold calcStepLength at h
  dsimp only at h
  cases hr : coneStep ls p.blks f (alphaMax p.τ p.κ p.dτ p.dκ maxValue) with
  | error e => rw [hr] at h; cases h
  | ok r =>
    rw [hr] at h
    simp only [bind, Except.bind, pure, Except.pure, Except.ok.injEq] at h
    obtain ⟨g1, g2⟩ := composite_not_nan hmin _ f _ r (alphaMax_not_nan hmin h1 _ _ _ _ _) hr
    refine ⟨fmin r.1 r.2, ?_, h.symm⟩
    cases hn : FloatLike.isNaN (fmin r.1 r.2) with
    | false => rfl
    | true => rw [(hmin _ _ hn).1] at g1; cases g1

end accept


/-! ## block-wise `add_step` is the flat `add_step` -/
section flat
variable {α : Type} [Add α] [Sub α] [Mul α] [Div α] [Neg α] [LT α] [LE α] [DecidableLT α]
  [DecidableLE α] [BEq α] [OfNat α 0] [OfNat α 1] [OfNat α 2] [OfNat α 3] [OfNat α 4]
  [OfScientific α] [FloatLike α]

/-- `axpby(a, d, 1)` entry by entry -/
def axpbyL (a : α) (v d : List α) : List α := (v.zip d).map (fun q => a * q.2 + 1 * q.1)

theorem addStepVec_toList' (v d : Array α) (a : α) :
    (addStepVec v d a).toList = axpbyL a v.toList d.toList := by
  simp [addStepVec, Vec.axpby, axpbyL]

theorem Blk.addStep_zList (a : α) (b : Blk α) : (b.addStep a).zList = axpbyL a b.zList b.dzList := by
  cases b <;> simp [Blk.addStep, Blk.zList, Blk.dzList, addStepVec_toList', v3l, addV3, axpbyL]

theorem Blk.addStep_sList (a : α) (b : Blk α) : (b.addStep a).sList = axpbyL a b.sList b.dsList := by
  cases b <;> simp [Blk.addStep, Blk.sList, Blk.dsList, addStepVec_toList', v3l, addV3, axpbyL]

theorem axpbyL_append (a : α) (v1 v2 d1 d2 : List α) (h : v1.length = d1.length) :
    axpbyL a (v1 ++ v2) (d1 ++ d2) = axpbyL a v1 d1 ++ axpbyL a v2 d2 := by
  simp only [axpbyL, List.zip_append h, List.map_append]

theorem Blk.addStep_dzList (a : α) (b : Blk α) : (b.addStep a).dzList = b.dzList := by
  cases b <;> rfl

/-- [S] cutting into cone blocks commutes with `add_step`: the flat `z` after the block-wise
`add_step` is `axpby(a, dz, 1)` applied to the flat `z` (what `DefaultVariables::add_step` does),
provided every block's direction has the length of its slice; the same for `s` -/
theorem addStep_flat (p : Pt α) (a : α)
    (hz : ∀ b ∈ p.blks, b.zList.length = b.dzList.length)
    (hs : ∀ b ∈ p.blks, b.sList.length = b.dsList.length) :
    (addStep p a).zFlat = axpbyL a p.zFlat p.dzFlat ∧ (addStep p a).sFlat = axpbyL a p.sFlat p.dsFlat := by
  simp only [Pt.zFlat, Pt.sFlat, Pt.dzFlat, Pt.dsFlat, addStep]
  generalize p.blks = blks at hz hs
  induction blks with
  | nil => exact ⟨rfl, rfl⟩
  | cons b t ih =>
    obtain ⟨i1, i2⟩ := ih (fun c hc => hz c (List.mem_cons_of_mem _ hc))
      (fun c hc => hs c (List.mem_cons_of_mem _ hc))
    simp only [List.map_cons, List.flatMap_cons]
    rw [axpbyL_append a _ _ _ _ (hz b List.mem_cons_self),
      axpbyL_append a _ _ _ _ (hs b List.mem_cons_self), i1, i2, Blk.addStep_zList, Blk.addStep_sList]
    exact ⟨rfl, rfl⟩

end flat

/-- `Float`'s `fmin` (the model of `f64::min`) ignores a NaN argument -/
theorem float_minIgnoresNaN : MinIgnoresNaN Float := by
  intro a b h
  change (floatMinRust a b).isNaN = true at h
  unfold floatMinRust at h
  cases ha : a.isNaN with
  | true =>
    rw [ha] at h; simp only [↓reduceIte] at h
    exact ⟨ha, h⟩
  | false =>
    rw [ha] at h; simp only [Bool.false_eq_true, ↓reduceIte] at h
    cases hb : b.isNaN with
    | true => rw [hb] at h; simp only [↓reduceIte] at h; rw [ha] at h; cases h
    | false =>
      rw [hb] at h; simp only [Bool.false_eq_true, ↓reduceIte] at h
      split at h
      · rw [hb] at h; cases h
      · rw [ha] at h; cases h

end Clarabel.StepK
