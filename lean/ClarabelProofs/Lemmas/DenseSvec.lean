/-
  C16, dense matrix model: `svec_to_mat` / `mat_to_svec` of `matrix_math.rs`.

  Convention (read off the code): the packed vector lists the upper triangle column by column
  (`idx = col(col+1)/2 + row`, `row ≤ col`); diagonal entries are copied, off-diagonal entries
  are multiplied by `1/√2` on the way to the matrix (`M[r,c] = M[c,r] = x[idx]·FRAC_1_SQRT_2`) and
  `(M[r,c] + M[c,r])·(1/√2)` on the way back (`= √2·M[r,c]` for symmetric `M`).

  The two functions coincide with the entry-function model `PsdTri.svecToMat` / `PsdTri.matToSvec`
  that C13's theorems are about (`svecToMat_bridge`, `matToSvec_bridge`), so mutual inverseness
  and `⟨svec A, svec B⟩ = Σ AᵢⱼBᵢⱼ` follow from C13's lemmas.
-/
import ClarabelProofs.Lemmas.DensePack
import ClarabelProofs.Lemmas.ConesPsdSvec

namespace Clarabel.Dense
open Clarabel

variable {α : Type}

theorem triangularNumber_eq (k : Nat) : triangularNumber k = PsdIndex.triangularNumber k := rfl

theorem upperPositions_eq_packed (n : Nat) :
    upperPositions n = PsdTri.packed n (fun r c => (r, c)) := rfl

/-- the loop counter `idx` of the two functions: position `(r, c)` of the upper triangle is
visited with `idx = c(c+1)/2 + r` -/
theorem upper_zipIdx_mem (n : Nat) (q : (Nat × Nat) × Nat) :
    q ∈ (upperPositions n).zipIdx ↔
      q.1.1 ≤ q.1.2 ∧ q.1.2 < n ∧ q.2 = PsdIndex.triangularNumber q.1.2 + q.1.1 := by
  rw [List.mem_zipIdx_iff_getElem?, upperPositions_eq_packed]
  constructor
  · intro h
    have hlt : q.2 < PsdIndex.triangularNumber n := by
      by_contra hc
      rw [List.getElem?_eq_none (by rw [PsdTri.length_packed]; omega)] at h
      cases h
    obtain ⟨i, j, hij, hj, hp⟩ := PsdTri.exists_pair hlt
    rw [hp, PsdTri.getElem?_packed _ hij hj] at h
    have := Option.some.inj h
    rw [← this]
    exact ⟨hij, hj, hp⟩
  · rintro ⟨h1, h2, h3⟩
    rw [h3, PsdTri.getElem?_packed _ h1 h2]

section
variable [Add α] [Sub α] [Mul α] [Div α] [OfNat α 0] [OfNat α 1] [LT α] [DecidableLT α] [FloatLike α]

theorem isqrt2_eq : (isqrt2 : α) = PsdTri.isqrt2 := rfl

/-! ### svec_to_mat -/

/-- the writes of one step of `svec_to_mat` -/
def svecStep (A : Dense α) (x : Array α) (q : (Nat × Nat) × Nat) : List (Nat × α) :=
  if q.1.1 == q.1.2 then [(q.1.1 + A.m * q.1.2, x.getD q.2 0)]
  else [(q.1.1 + A.m * q.1.2, x.getD q.2 0 * isqrt2), (q.1.2 + A.m * q.1.1, x.getD q.2 0 * isqrt2)]

theorem svecToMat_unfold (A : Dense α) (x : Array α) :
    svecToMat A x = (((upperPositions A.n).zipIdx).mapM (fun q => do
        let xi ← getE x q.2 "x[idx]"
        let (row, col) := q.1
        if row == col then pure [(row + A.m * col, xi)]
        else pure [(row + A.m * col, xi * isqrt2), (col + A.m * row, xi * isqrt2)])) >>= fun ws =>
      (applyWrites A.data ws.flatten) >>= fun d => pure { A with data := d } := rfl

/-- [S] `svec_to_mat(M, x)` on a well-formed square `n × n` matrix with `x.len() ≥ n(n+1)/2`:
every entry is overwritten, and the result is the matrix of the entry-function model
`PsdTri.svecToMat x` (diagonal `x[idx]`, off-diagonal `x[idx]·(1/√2)` on both sides) -/
theorem svecToMat_bridge (A : Dense α) (x : Array α) (hA : WF A) (hsq : A.m = A.n)
    (hx : PsdIndex.triangularNumber A.n ≤ x.size) :
    ∃ R, svecToMat A x = .ok R ∧ R.m = A.m ∧ R.n = A.n ∧ WF R ∧
      ∀ i j, i < A.n → j < A.n → at? R i j = some (PsdTri.svecToMat x i j) := by
  have hmap : ((upperPositions A.n).zipIdx).mapM (fun q => do
        let xi ← getE x q.2 "x[idx]"
        let (row, col) := q.1
        if row == col then (pure [(row + A.m * col, xi)] : MErr (List (Nat × α)))
        else pure [(row + A.m * col, xi * isqrt2), (col + A.m * row, xi * isqrt2)]) =
      .ok (((upperPositions A.n).zipIdx).map (svecStep A x)) := by
    apply mapM_ok
    intro q hq
    obtain ⟨h1, h2, h3⟩ := (upper_zipIdx_mem _ _).mp hq
    have hlt : q.2 < x.size := by
      have := PsdTri.tri_add_lt h1 h2; omega
    rw [getE_ok _ _ _ hlt]
    have : x[q.2] = x.getD q.2 0 := by
      simp [Array.getD_eq_getD_getElem?, hlt]
    obtain ⟨⟨r, c⟩, k⟩ := q
    simp only [svecStep, this]
    by_cases hrc : (r == c) = true
    · simp only [hrc, ↓reduceIte]; rfl
    · simp only [hrc]; rfl
  -- every write
  have hwr : ∀ w ∈ (((upperPositions A.n).zipIdx).map (svecStep A x)).flatten,
      ∃ i j, i ≤ j ∧ j < A.n ∧
        ((w = (i + A.m * j, PsdTri.svecToMat x i j)) ∨
         (i ≠ j ∧ w = (j + A.m * i, PsdTri.svecToMat x i j))) := by
    intro w hw
    obtain ⟨ws, hws, hw⟩ := List.mem_flatten.mp hw
    obtain ⟨q, hq, rfl⟩ := List.mem_map.mp hws
    obtain ⟨h1, h2, h3⟩ := (upper_zipIdx_mem _ _).mp hq
    refine ⟨q.1.1, q.1.2, h1, h2, ?_⟩
    unfold svecStep at hw
    by_cases hrc : q.1.1 = q.1.2
    · simp only [hrc, beq_self_eq_true, ↓reduceIte, List.mem_cons, List.not_mem_nil, or_false] at hw
      left
      rw [hw, h3]
      simp [PsdTri.svecToMat, hrc]
    · have hlt : q.1.1 < q.1.2 := by omega
      have hb : (q.1.1 == q.1.2) = false := by simpa using hrc
      simp only [hb, Bool.false_eq_true, ↓reduceIte, List.mem_cons, List.not_mem_nil, or_false] at hw
      rcases hw with hw | hw
      · left
        rw [hw, h3]
        simp [PsdTri.svecToMat, hrc, hlt, isqrt2_eq]
      · right
        refine ⟨hrc, ?_⟩
        rw [hw, h3]
        simp [PsdTri.svecToMat, hrc, hlt, isqrt2_eq]
  have hin : ∀ w ∈ (((upperPositions A.n).zipIdx).map (svecStep A x)).flatten, w.1 < A.data.size := by
    intro w hw
    obtain ⟨i, j, hij, hj, h | ⟨_, h⟩⟩ := hwr w hw <;> rw [h, hA]
    · exact lin_lt (by omega) hj
    · exact lin_lt (by omega) (by omega)
  obtain ⟨d', h1, h2, _, h4⟩ := applyWrites_spec _ A.data hin
  refine ⟨{ A with data := d' }, ?_, rfl, rfl, ?_, ?_⟩
  · rw [svecToMat_unfold, hmap]
    show (applyWrites A.data _ >>= fun d => (pure { A with data := d } : MErr (Dense α))) = _
    rw [h1]; rfl
  · simp only [WF, h2]; exact hA
  · intro i j hi hj
    simp only [at?]
    apply h4
    · -- a write exists
      by_cases hij : i ≤ j
      · refine ⟨(i + A.m * j, PsdTri.svecToMat x i j), ?_, rfl⟩
        apply List.mem_flatten.mpr
        refine ⟨svecStep A x ((i, j), PsdIndex.triangularNumber j + i),
          List.mem_map_of_mem ((upper_zipIdx_mem _ _).mpr ⟨hij, hj, rfl⟩), ?_⟩
        unfold svecStep
        by_cases h : i = j
        · simp [h, PsdTri.svecToMat]
        · have hlt : i < j := by omega
          have hb : (i == j) = false := by simpa using h
          simp [hb, PsdTri.svecToMat, h, hlt, isqrt2_eq]
      · have hji : j < i := by omega
        refine ⟨(i + A.m * j, PsdTri.svecToMat x i j), ?_, rfl⟩
        apply List.mem_flatten.mpr
        refine ⟨svecStep A x ((j, i), PsdIndex.triangularNumber i + j),
          List.mem_map_of_mem ((upper_zipIdx_mem _ _).mpr ⟨by simp only; omega, hi, rfl⟩), ?_⟩
        unfold svecStep
        have h : j ≠ i := by omega
        have hb : (j == i) = false := by simpa using h
        have h' : i ≠ j := by omega
        have h'' : ¬ i < j := by omega
        simp [hb, PsdTri.svecToMat, h', h'', isqrt2_eq]
    · -- all writes to the position carry the same value
      intro w hw hpos
      obtain ⟨a, b, hab, hb, h | ⟨hne, h⟩⟩ := hwr w hw
      · rw [h] at hpos ⊢
        obtain ⟨rfl, rfl⟩ := lin_inj (by omega : a < A.m) (by omega : i < A.m) hpos
        rfl
      · rw [h] at hpos ⊢
        obtain ⟨rfl, rfl⟩ := lin_inj (by omega : b < A.m) (by omega : i < A.m) hpos
        simp only
        -- entry (b, a) with a < b: the model function is symmetric
        unfold PsdTri.svecToMat
        have h1 : a < b := by omega
        have h2 : ¬ b < a := by omega
        have h3 : b ≠ a := by omega
        simp [hne, h1, h2, h3]

/-- [S] `svec_to_mat` panics when `x` is shorter than `n(n+1)/2` (and `n > 0`) -/
theorem svecToMat_short (A : Dense α) (x : Array α) (hx : x.size < PsdIndex.triangularNumber A.n) :
    svecToMat A x = .error (.panic "x[idx]") := by
  rw [svecToMat_unfold]
  have hn : ∃ i j, i ≤ j ∧ j < A.n ∧ x.size = PsdIndex.triangularNumber j + i :=
    PsdTri.exists_pair hx
  obtain ⟨i, j, hij, hj, hp⟩ := hn
  rw [mapM_error _ _ (.panic "x[idx]")]
  · rfl
  · refine ⟨((i, j), x.size), (upper_zipIdx_mem _ _).mpr ⟨hij, hj, hp⟩, ?_⟩
    simp only [getE_panic x x.size "x[idx]" (Nat.le_refl _)]
    rfl
  · intro q _ e' he
    by_cases hq : q.2 < x.size
    · rw [getE_ok _ _ _ hq] at he
      obtain ⟨⟨r, c⟩, k⟩ := q
      simp only [bind, Except.bind] at he
      split at he <;> cases he
    · rw [getE_panic _ _ _ (by omega)] at he
      cases he; rfl

/-! ### mat_to_svec -/

/-- entry `(i, j)` of a view as a total function (`0` outside the buffer) -/
def viewFn (v : DView) (A : Dense α) : PsdTri.MatFn α :=
  fun i j => A.data.getD (indexLinear v A i j) 0

theorem get_view_ok (v : DView) (A : Dense α) (hA : WF A) (hsq : A.m = A.n) {i j : Nat}
    (hi : i < A.n) (hj : j < A.n) : get v A i j = .ok (viewFn v A i j) := by
  have h := indexLinear_lt v A hA (fun _ => hsq) (i := i) (j := j)
    (by cases v <;> simp [nrowsV] <;> omega) (by cases v <;> simp [ncolsV] <;> omega)
  unfold get viewFn
  rw [getE_ok _ _ _ h]
  simp [Array.getD_eq_getD_getElem?, h]

theorem viewFn_N (A : Dense α) (n : Nat) (h : A.m = n) : viewFn .N A = PsdTri.matOf n A.data := by
  funext i j
  simp [viewFn, indexLinear, PsdTri.matOf, h]

/-- what `mat_to_svec` writes at packed position `(r, c)` -/
def svecVal (M : PsdTri.MatFn α) (r c : Nat) : α :=
  if r = c then M r c else (M r c + M c r) * isqrt2

/-- [S] `mat_to_svec(x, M)` for a view `M` of a well-formed square `n × n` matrix and
`x.len() ≥ n(n+1)/2`: the first `n(n+1)/2` entries of `x` become the packed vector of the
entry-function model `PsdTri.matToSvec n M` (diagonal `M[r,r]`, off-diagonal
`(M[r,c] + M[c,r])·(1/√2)`), the rest of `x` is untouched -/
theorem matToSvec_bridge (x : Array α) (v : DView) (A : Dense α) (hA : WF A) (hsq : A.m = A.n)
    (hx : PsdIndex.triangularNumber A.n ≤ x.size) :
    ∃ y, matToSvec x v A = .ok y ∧ y.size = x.size ∧
      (∀ p, p < PsdIndex.triangularNumber A.n → y[p]? = (PsdTri.matToSvec A.n (viewFn v A))[p]?) ∧
      (∀ p, PsdIndex.triangularNumber A.n ≤ p → y[p]? = x[p]?) := by
  have hnc : ncolsV v A = A.n := by cases v <;> simp [ncolsV, hsq]
  let W : List (Nat × α) := ((upperPositions A.n).zipIdx).map
    (fun q => (q.2, svecVal (viewFn v A) q.1.1 q.1.2))
  have hmap : ((upperPositions (ncolsV v A)).zipIdx).mapM (fun q => do
        let (row, col) := q.1
        let a ← get v A row col
        if row == col then (pure (q.2, a) : MErr (Nat × α))
        else do
          let b ← get v A col row
          pure (q.2, (a + b) * isqrt2)) = .ok W := by
    rw [hnc]
    apply mapM_ok
    intro q hq
    obtain ⟨h1, h2, h3⟩ := (upper_zipIdx_mem _ _).mp hq
    obtain ⟨⟨r, c⟩, k⟩ := q
    simp only at h1 h2 h3
    simp only [get_view_ok v A hA hsq (show r < A.n by omega) h2,
      get_view_ok v A hA hsq h2 (show r < A.n by omega), svecVal]
    by_cases hrc : r = c
    · simp [hrc]
    · have hb : (r == c) = false := by simpa using hrc
      simp only [hb, hrc, ↓reduceIte]; rfl
  have hWmem : ∀ w, w ∈ W ↔ ∃ i j, i ≤ j ∧ j < A.n ∧
      w = (PsdIndex.triangularNumber j + i, svecVal (viewFn v A) i j) := by
    intro w
    simp only [W, List.mem_map]
    constructor
    · rintro ⟨q, hq, rfl⟩
      obtain ⟨h1, h2, h3⟩ := (upper_zipIdx_mem _ _).mp hq
      exact ⟨q.1.1, q.1.2, h1, h2, by rw [h3]⟩
    · rintro ⟨i, j, hij, hj, rfl⟩
      exact ⟨((i, j), PsdIndex.triangularNumber j + i), (upper_zipIdx_mem _ _).mpr ⟨hij, hj, rfl⟩, rfl⟩
  have hin : ∀ w ∈ W, w.1 < x.size := by
    intro w hw
    obtain ⟨i, j, hij, hj, rfl⟩ := (hWmem w).mp hw
    have := PsdTri.tri_add_lt hij hj
    simp only; omega
  obtain ⟨y, h1, h2, h3, h4⟩ := applyWrites_spec W x hin
  refine ⟨y, ?_, h2, ?_, ?_⟩
  · unfold matToSvec
    rw [hmap]
    exact h1
  · intro p hp
    obtain ⟨i, j, hij, hj, rfl⟩ := PsdTri.exists_pair hp
    have hval : (PsdTri.matToSvec A.n (viewFn v A))[PsdIndex.triangularNumber j + i]? =
        some (svecVal (viewFn v A) i j) := by
      unfold PsdTri.matToSvec
      rw [List.getElem?_toArray, PsdTri.getElem?_packed _ hij hj]
      rfl
    rw [hval]
    apply h4
    · exact ⟨_, (hWmem _).mpr ⟨i, j, hij, hj, rfl⟩, rfl⟩
    · intro w hw hpos
      obtain ⟨a, b, hab, hb, rfl⟩ := (hWmem w).mp hw
      simp only at hpos
      obtain ⟨rfl, rfl⟩ := PsdTri.pair_unique hab hij hpos
      rfl
  · intro p hp
    apply h3
    intro w hw hpos
    obtain ⟨i, j, hij, hj, rfl⟩ := (hWmem w).mp hw
    have := PsdTri.tri_add_lt hij hj
    simp only at hpos; omega

/-- [S] with `x.len() = n(n+1)/2` the result IS the model vector -/
theorem matToSvec_bridge_exact (x : Array α) (v : DView) (A : Dense α) (hA : WF A) (hsq : A.m = A.n)
    (hx : x.size = PsdIndex.triangularNumber A.n) :
    matToSvec x v A = .ok (PsdTri.matToSvec A.n (viewFn v A)) := by
  obtain ⟨y, h1, h2, h3, _⟩ := matToSvec_bridge x v A hA hsq (by omega)
  rw [h1]
  congr 1
  have hsz : (PsdTri.matToSvec A.n (viewFn v A)).size = PsdIndex.triangularNumber A.n := by
    unfold PsdTri.matToSvec; rw [PsdTri.size_packed]
  apply Array.ext
  · rw [h2, hx, hsz]
  · intro p hp1 hp2
    have := h3 p (by omega)
    rw [Array.getElem?_eq_getElem hp1, Array.getElem?_eq_getElem hp2] at this
    exact Option.some.inj this

end

/-! ### consequences over ℝ (C13's theorems through the bridge) -/

/-- [R] `mat_to_svec ∘ svec_to_mat = id`: packing the matrix built from `x` (length
`n(n+1)/2`) returns `x` -/
theorem matToSvec_svecToMat_real (A : Dense ℝ) (x x' : Array ℝ) (hA : WF A) (hsq : A.m = A.n)
    (hx : x.size = PsdIndex.triangularNumber A.n) (hx' : x'.size = PsdIndex.triangularNumber A.n) :
    ∃ R, svecToMat A x = .ok R ∧ matToSvec x' .N R = .ok x := by
  obtain ⟨R, h1, hm, hn, hR, he⟩ := svecToMat_bridge A x hA hsq (by omega)
  refine ⟨R, h1, ?_⟩
  rw [matToSvec_bridge_exact x' .N R hR (by omega) (by rw [hn]; omega), hn]
  congr 1
  rw [← PsdTri.matToSvec_svecToMat A.n x hx]
  apply PsdTri.matToSvec_congr
  intro i j hi hj
  have := he i j hi hj
  simp only [viewFn, indexLinear, Array.getD_eq_getD_getElem?]
  simp only [at?] at this
  rw [this]; rfl

/-- symmetric on the stored entries -/
def IsSymmD (A : Dense ℝ) : Prop :=
  ∀ i j, i < A.n → j < A.n → A.data.getD (i + A.m * j) 0 = A.data.getD (j + A.m * i) 0

/-- [R] `svec_to_mat ∘ mat_to_svec = id` on symmetric matrices -/
theorem svecToMat_matToSvec_real (A A' : Dense ℝ) (x : Array ℝ) (hA : WF A) (hsq : A.m = A.n)
    (hA' : WF A') (hm' : A'.m = A.n) (hn' : A'.n = A.n) (hsym : IsSymmD A)
    (hx : x.size = PsdIndex.triangularNumber A.n) :
    ∃ s R, matToSvec x .N A = .ok s ∧ svecToMat A' s = .ok R ∧
      ∀ i j, i < A.n → j < A.n → at? R i j = at? A i j := by
  have hs := matToSvec_bridge_exact x .N A hA hsq hx
  have hsz : (PsdTri.matToSvec A.n (viewFn .N A)).size = PsdIndex.triangularNumber A.n := by
    unfold PsdTri.matToSvec; rw [PsdTri.size_packed]
  obtain ⟨R, h1, _, _, _, he⟩ := svecToMat_bridge A' (PsdTri.matToSvec A.n (viewFn .N A)) hA'
    (by omega) (by rw [hn', hsz])
  refine ⟨_, R, hs, h1, ?_⟩
  intro i j hi hj
  rw [he i j (by omega) (by omega)]
  rw [PsdTri.svecToMat_matToSvec A.n (viewFn .N A) (fun a b ha hb => by
    simpa [viewFn, indexLinear] using hsym a b ha hb) i j hi hj]
  have hidx : i + A.m * j < A.data.size := by rw [hA]; exact lin_lt (by omega) hj
  simp [viewFn, indexLinear, at?, Array.getD_eq_getD_getElem?, hidx]

/-- [R] the `√2` scaling makes the Euclidean inner product of the packed vectors the trace
inner product of the matrices: `⟨svec A, svec B⟩ = Σᵢⱼ AᵢⱼBᵢⱼ` for symmetric `A`, `B` -/
theorem dot_matToSvec_real (A B : Dense ℝ) (x x' : Array ℝ) (hA : WF A) (hB : WF B)
    (hsqA : A.m = A.n) (hsqB : B.m = B.n) (hn : B.n = A.n) (hsA : IsSymmD A) (hsB : IsSymmD B)
    (hx : x.size = PsdIndex.triangularNumber A.n) (hx' : x'.size = PsdIndex.triangularNumber A.n) :
    ∃ sa sb, matToSvec x .N A = .ok sa ∧ matToSvec x' .N B = .ok sb ∧
      Vec.dot sa sb = ∑ j ∈ Finset.range A.n, ∑ i ∈ Finset.range A.n,
        A.data.getD (i + A.m * j) 0 * B.data.getD (i + B.m * j) 0 := by
  refine ⟨_, _, matToSvec_bridge_exact x .N A hA hsqA hx,
    matToSvec_bridge_exact x' .N B hB hsqB (by rw [hn]; omega), ?_⟩
  rw [hn, PsdTri.dot_matToSvec A.n _ _ (fun a b ha hb => by
      simpa [viewFn, indexLinear] using hsA a b ha hb) (fun a b ha hb => by
      simpa [viewFn, indexLinear] using hsB a b (by omega) (by omega))]
  rfl

end Clarabel.Dense
