/-
  Lemmas about `ClarabelModel/JsonCones.lean`: the decoder inverts the encoder on every cone
  variant (serde representation of `SupportedConeT`).
-/
import ClarabelModel.JsonCones
import Std.Data.String.ToNat

namespace Clarabel.JsonCones
open Clarabel

variable {α : Type}

/-- a `usize` payload survives print → parse -/
theorem natOf_natTok (n : Nat) (h : n < usizeMod) : natOf (natTok n) = some n := by
  simp only [natOf, natTok, Nat.toNat?_repr, h, ↓reduceIte]

section
variable (ftok : α → String) (fparse : String → Option α)

theorem floatOf_tok (hrt : ∀ a, fparse (ftok a) = some a) (a : α) :
    floatOf fparse (.num (ftok a)) = some a := by
  simp only [floatOf, hrt]

theorem mapM_floatOf_toks (hrt : ∀ a, fparse (ftok a) = some a) (l : List α) :
    (l.map (fun a => JVal.num (ftok a))).mapM (floatOf fparse) = some l := by
  induction l with
  | nil => rfl
  | cons a t ih =>
    simp only [List.map_cons, List.mapM_cons, floatOf_tok ftok fparse hrt, ih, bind, Option.bind,
      pure]

/-- **decode ∘ encode = id** for every cone variant whose `usize` payload is a `usize` -/
theorem decodeCone_encodeCone (hrt : ∀ a, fparse (ftok a) = some a) (c : ConeT α)
    (hfit : coneFits c = true) (sdp : Bool) (hsdp : (∃ n, c = .psd n) → sdp = true) :
    decodeCone fparse sdp (encodeCone ftok c) = some c := by
  cases c with
  | zero n =>
    simp only [coneFits, decide_eq_true_eq] at hfit
    simp [encodeCone, decodeCone, natOf_natTok n hfit]
  | nonneg n =>
    simp only [coneFits, decide_eq_true_eq] at hfit
    simp [encodeCone, decodeCone, natOf_natTok n hfit]
  | soc n =>
    simp only [coneFits, decide_eq_true_eq] at hfit
    simp [encodeCone, decodeCone, natOf_natTok n hfit]
  | exp => simp [encodeCone, decodeCone, expOf]
  | pow a => simp [encodeCone, decodeCone, floatOf_tok ftok fparse hrt]
  | genpow αs d =>
    simp only [coneFits, decide_eq_true_eq] at hfit
    simp [encodeCone, decodeCone, genpowOf, mapM_floatOf_toks ftok fparse hrt, natOf_natTok d hfit]
  | psd n =>
    simp only [coneFits, decide_eq_true_eq] at hfit
    have hs : sdp = true := hsdp ⟨n, rfl⟩
    simp [encodeCone, decodeCone, natOf_natTok n hfit, hs]

/-- the same for a cone list (`Vec<SupportedConeT<T>>`) -/
theorem decodeCones_encodeCones (hrt : ∀ a, fparse (ftok a) = some a) (cs : List (ConeT α))
    (hfit : ∀ c ∈ cs, coneFits c = true) :
    decodeCones fparse true (encodeCones ftok cs) = some cs := by
  simp only [encodeCones, decodeCones]
  induction cs with
  | nil => rfl
  | cons c t ih =>
    have hc := decodeCone_encodeCone ftok fparse hrt c (hfit c (List.mem_cons_self ..)) true
      (fun _ => rfl)
    have ht := ih (fun x hx => hfit x (List.mem_cons_of_mem _ hx))
    simp only [List.map_cons, List.mapM_cons, hc, ht, bind, Option.bind, pure]

/-- the encoder is injective on fitting cones: two cones with the same JSON are equal -/
theorem encodeCone_injective (hrt : ∀ a, fparse (ftok a) = some a) (c c' : ConeT α)
    (h1 : coneFits c = true) (h2 : coneFits c' = true)
    (h : encodeCone ftok c = encodeCone ftok c') : c = c' := by
  have e1 := decodeCone_encodeCone ftok fparse hrt c h1 true (fun _ => rfl)
  have e2 := decodeCone_encodeCone ftok fparse hrt c' h2 true (fun _ => rfl)
  rw [h] at e1
  rw [e1] at e2
  exact Option.some.inj e2

/-- without the `sdp` feature the PSD tag is an unknown variant -/
theorem decodeCone_psd_without_sdp (n : Nat) :
    decodeCone fparse false (encodeCone ftok (.psd n : ConeT α)) = none := by
  simp [encodeCone, decodeCone]

end

end Clarabel.JsonCones
