/-
  C04 ∘ (C01, C02, C03): TOTALITY of a run of the whole-solver model, in the form the certificate
  theorems consume.

  * `run_total`     : `InputOK`, modelled cone kinds, `0 < n`, `PermFor`, `PivotOK`, `FmaxOK`
                      ⇒ `Solver.new … = .ok S` and `S.solve st = .ok r` (and `SolverInvQ` on both).
                      [S]: any scalar type, so also the f64 computation.
  * `fmaxOK_real`   : the scalar law `FmaxOK` holds over `ℝ` (`max 0 r ≥ 0`).
  * `pivotOK_real`  : the scalar law `PivotOK` holds over `ℝ` when `dynamic_regularization_eps > 0`
                      and `dynamic_regularization_delta ≠ 0` (the defaults `1e-13`, `2e-7`).
  * `run_total_real`: `run_total` over `ℝ` with `FmaxOK` discharged.

  (Possible only since the name clash `Clarabel.Solver.PInv` — `Lemmas/SolverReport.lean` vs
  `Lemmas/SolverModelNoPanicPass.lean` — was removed: the former is now `Clarabel.Solver.RecInv`.)
-/
import ClarabelProofs.Lemmas.JsonLoadNew
import ClarabelProofs.Lemmas.ScalarInst
import ClarabelProofs.Lemmas.SolverFullExample
import ClarabelProofs.Lemmas.SolverFullUser
import Mathlib.Tactic.Linarith
import Mathlib.Tactic.Positivity

namespace Clarabel.Solver
open Clarabel

set_option linter.unusedSectionVars false

section
variable {α : Type}
variable [Add α] [Sub α] [Mul α] [Div α] [Neg α] [OfNat α 0] [OfNat α 1] [OfNat α 2]
  [OfNat α 100] [OfNat α 1000] [LT α] [DecidableLT α] [LE α] [DecidableLE α] [BEq α] [FloatLike α]

/-- [S] **a run of the whole-solver model is total**: on well-formed input with zero / nonnegative /
second-order cones, `DefaultSolver::new` returns a solver object and its `solve()` returns. -/
theorem run_total {P : Csc α} {q : Array α} {A : Csc α} {b : Array α}
    {cones : List (ConeT α)} {st : Settings α} {perm : Array Nat} (hin : InputOK P q A b cones)
    (hm : ∀ c ∈ cones, ConeT.modelled c) (hn : 0 < P.n) (hperm : PermFor P q A b cones st perm)
    (hpiv : PivotOK st.lin) (hf : FmaxOK α) :
    ∃ S r, Solver.new P q A b cones st perm = .ok S ∧ S.solve st = .ok r
      ∧ SolverInvQ S ∧ SolverInvQ r.S := by
  obtain ⟨S, hS, hI⟩ := solverNew_ok_of_modelled hin hm hn hperm hpiv
  obtain ⟨r, hr, hI'⟩ := solve_ok_qdldl hf st hI
  exact ⟨S, r, hS, hr, hI, hI'⟩

end

/-- the scalar law behind `panic!("starting point of line search not in SOC")` holds over `ℝ` -/
theorem fmaxOK_real : FmaxOK ℝ := fun r h => by
  change max (0 : ℝ) r < 0 at h
  exact absurd (le_max_left (0 : ℝ) r) (not_le.mpr h)

theorem signT_real_pos : (Qdldl.signT (1 : Int) : ℝ) = 1 := by
  unfold Qdldl.signT
  rw [if_neg (by decide)]
  show ((1 : Int).toNat : ℝ) = 1
  norm_num

theorem signT_real_neg : (Qdldl.signT (-1 : Int) : ℝ) = -1 := by
  unfold Qdldl.signT
  rw [if_pos (by decide)]
  show -(((-(-1 : Int)).toNat : ℕ) : ℝ) = -1
  norm_num

/-- over `ℝ` the dynamic regularisation never leaves a zero pivot when `eps > 0`, `delta ≠ 0` -/
theorem pivotOK_real {st : LinSettings ℝ} (heps : 0 < st.dynRegEps) (hdelta : st.dynRegDelta ≠ 0) :
    PivotOK st := by
  intro sg d h
  have hs : (Qdldl.signT sg : ℝ) = 1 ∨ (Qdldl.signT sg : ℝ) = -1 := by
    rcases h with rfl | rfl
    · exact Or.inl signT_real_pos
    · exact Or.inr signT_real_neg
  unfold Qdldl.regularizePivot
  simp only [↓reduceIte]
  generalize (Qdldl.signT sg : ℝ) = s at hs
  have key : ∀ x : ℝ, x ≠ 0 → (x == (0 : ℝ)) = false := fun x hx => by
    simpa using hx
  split
  · apply key
    rcases hs with rfl | rfl
    · simpa using hdelta
    · simpa using hdelta
  · rename_i hlt
    apply key
    intro hd
    apply hlt
    have hd' : d = 0 := hd
    rw [hd', zero_mul]
    exact heps

/-- [R] `run_total` over `ℝ`: `FmaxOK` is a theorem there -/
theorem run_total_real {P : Csc ℝ} {q : Array ℝ} {A : Csc ℝ} {b : Array ℝ}
    {cones : List (ConeT ℝ)} {st : Settings ℝ} {perm : Array Nat} (hin : InputOK P q A b cones)
    (hm : ∀ c ∈ cones, ConeT.modelled c) (hn : 0 < P.n) (hperm : PermFor P q A b cones st perm)
    (hpiv : PivotOK st.lin) :
    ∃ S r, Solver.new P q A b cones st perm = .ok S ∧ S.solve st = .ok r :=
  let ⟨S, r, h1, h2, _⟩ := run_total hin hm hn hperm hpiv fmaxOK_real
  ⟨S, r, h1, h2⟩

/-! ### non-vacuity over `ℝ`: the ordering hypothesis on `min x s.t. x + s = 1, s ≥ 0` -/
namespace FullExample

/-- `PermFor` holds over `ℝ` on the example instance of `Lemmas/SolverFullExample.lean` with the
identity ordering of its 2×2 KKT matrix, for every settings record with presolve off -/
theorem permFor (st : Settings ℝ) (hpe : st.presolveEnable = false) :
    PermFor P #[1] A #[1] ([.nonneg 1] : List (ConeT ℝ)) st #[0, 1] := by
  intro d K hd hK
  unfold internalData at hd
  obtain ⟨d0, hd0, hd⟩ := bind_ok_inv hd
  obtain ⟨K0, hK0, hd⟩ := bind_ok_inv hd
  split at hd
  · cases hd
  rw [hpe] at hd0
  obtain ⟨_, _, _, hc, hn, hm, _, _⟩ := problemDataNew_off hd0
  obtain ⟨e1, e2, e3⟩ := equilibrate_dim hd
  rw [e1, hc] at hK
  have hcol : Cones.newCollapsed ([.nonneg 1] : List (ConeT ℝ)) = [.nonneg 1] := rfl
  rw [hcol] at hK
  cases hK
  refine ⟨⟨by decide, by decide⟩, ?_⟩
  rw [e3, e2, hn, hm]
  rfl

theorem modelled : ∀ c ∈ ([.nonneg 1] : List (ConeT ℝ)), ConeT.modelled c := by
  intro c hc
  simp only [List.mem_cons, List.not_mem_nil, or_false] at hc
  subst hc
  trivial

/-- the defaults of `DefaultSettings` (presolve off) over `ℝ` -/
noncomputable def stR : Settings ℝ :=
  { info :=
      { full := ⟨1 / 100000000, 1 / 100000000, 1 / 100000000, 1 / 100000000, 1 / 100000000, 1 / 1000000⟩,
        reduced := ⟨5 / 100000, 5 / 100000, 1 / 10000, 5 / 100000, 5 / 100000, 1 / 10000⟩,
        max_iter := 200 },
    maxStepFraction := 99 / 100,
    minTerminateStepLength := 1 / 10000,
    equil := { enable := true, maxIter := 10, minScaling := 1 / 10000, maxScaling := 10000 },
    lin := { staticRegEnable := true, staticRegConstant := 1 / 100000000,
             staticRegProportional := 1 / 1000000000000000000000000000000,
             dynRegEps := 1 / 10000000000000, dynRegDelta := 2 / 10000000,
             irEnable := true, irReltol := 1 / 10000000000000, irAbstol := 1 / 1000000000000,
             irMaxIter := 10, irStopRatio := 5 },
    presolveEnable := false,
    infbound := 100000000000000000000,
    maxValue := 100000000000000000000000000000000000000 }

/-- the default settings meet every numeric side condition of the `full_*` / `*_total` theorems -/
theorem stR_ok :
    stR.presolveEnable = false ∧ 0 < stR.equil.minScaling ∧ 0 < stR.equil.maxScaling
      ∧ 0 < stR.maxStepFraction ∧ stR.maxStepFraction < 1 ∧ 0 < stR.maxValue
      ∧ 0 ≤ stR.info.full.infeas_abs ∧ 0 ≤ stR.info.reduced.infeas_abs := by
  refine ⟨rfl, ?_, ?_, ?_, ?_, ?_, ?_, ?_⟩
  · show (0 : ℝ) < 1 / 10000; norm_num
  · show (0 : ℝ) < 10000; norm_num
  · show (0 : ℝ) < 99 / 100; norm_num
  · show (99 / 100 : ℝ) < 1; norm_num
  · show (0 : ℝ) < 100000000000000000000000000000000000000; norm_num
  · show (0 : ℝ) ≤ 1 / 100000000; norm_num
  · show (0 : ℝ) ≤ 5 / 100000; norm_num

/-- the default regularisation parameters never leave a zero pivot over `ℝ` -/
theorem stR_pivotOK : PivotOK stR.lin :=
  pivotOK_real (by show (0 : ℝ) < 1 / 10000000000000; norm_num)
    (by show (2 / 10000000 : ℝ) ≠ 0; norm_num)

/-- **every hypothesis of `run_total` is satisfiable over `ℝ`**: on `min x s.t. x + s = 1, s ≥ 0`
with the default settings, `new` returns a solver object and `solve()` returns -/
theorem run_ok : ∃ S r, Solver.new P #[1] A #[1] ([.nonneg 1] : List (ConeT ℝ)) stR #[0, 1] = .ok S
    ∧ S.solve stR = .ok r :=
  run_total_real inputOK modelled (by decide) (permFor stR rfl) stR_pivotOK

end FullExample

end Clarabel.Solver
