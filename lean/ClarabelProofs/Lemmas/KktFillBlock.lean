/-
  The `fill_block` coordinate theorem (model `Csc.fillBlock` of `fill_block` in
  `src/algebra/csc/utils.rs`).

  `fillBlock K M map r0 c0 shape` copies the stored entries of the sparse matrix `M` into
  the KKT matrix `K` under construction.  For a well-dimensioned `M` (`BlockWF`) and a `K`
  whose per-column free ranges are pairwise disjoint, the stored entry `j` of column `i` of
  `M` lands at an index `d = map'[j]` that lies in the free range of KKT column
  `col = i + c0` (shape `N`) / `M.rowval[j] + c0` (shape `T`), and `K'.rowval[d]` is
  `M.rowval[j] + r0` / `i + r0`, `K'.nzval[d] = M.nzval[j]` (`fillBlock_coord`).
  Different entries get different destinations (`fillBlock_dest_ne`).

  Everything is derived from the engine theorem `placeAll_spec` of `KktPlace.lean` and a
  characterisation of `blockSchedule` (`blockSchedule_get`, `blockSchedule_length`,
  `blockSchedule_regular`).  No arithmetic law of the scalar type is used.
-/
import ClarabelProofs.Lemmas.KktPlace

namespace Clarabel.Lemmas.KktFillBlock
open Clarabel Clarabel.Csc Clarabel.Lemmas.KktPlace

-- ------------------------------------------------------------------ generic helpers

theorem bind_ok {ε β γ : Type} {x : Except ε β} {f : β → Except ε γ} {c : γ}
    (h : (x >>= f) = .ok c) : ∃ b, x = .ok b ∧ f b = .ok c := by
  cases x with
  | error e => cases h
  | ok b => exact ⟨b, rfl, h⟩

/-- a successful `mapM` in `Except`: pointwise success, same length -/
theorem mapM_ok {ε β γ : Type} (f : β → Except ε γ) :
    ∀ (l : List β) (ys : List γ), l.mapM f = .ok ys →
      ys.length = l.length ∧
        ∀ (i : Nat) (x : β), l[i]? = some x → ∃ y, ys[i]? = some y ∧ f x = .ok y := by
  intro l
  induction l with
  | nil =>
    intro ys h
    simp [pure, Except.pure] at h
    subst h
    simp
  | cons a t ih =>
    intro ys h
    rw [List.mapM_cons] at h
    obtain ⟨y, hy, h⟩ := bind_ok h
    obtain ⟨ys', hys', h⟩ := bind_ok h
    simp only [pure, Except.pure, Except.ok.injEq] at h
    subst h
    obtain ⟨hl, hg⟩ := ih ys' hys'
    refine ⟨by simp [hl], ?_⟩
    intro i x hx
    cases i with
    | zero =>
      simp at hx
      subst hx
      exact ⟨y, by simp, hy⟩
    | succ i =>
      simp at hx
      simpa using hg i x hx

/-- indexing into a flattened list of lists -/
theorem flatten_get {β : Type} (L : List (List β)) (i t : Nat) (c : List β)
    (hc : L[i]? = some c) (ht : t < c.length) :
    L.flatten[((L.take i).map List.length).sum + t]? = c[t]? := by
  induction L generalizing i with
  | nil => simp at hc
  | cons x xs ih =>
    cases i with
    | zero =>
      simp at hc
      subst hc
      simp only [List.take_zero, List.map_nil, List.sum_nil, Nat.zero_add, List.flatten_cons]
      exact List.getElem?_append_left ht
    | succ i =>
      simp at hc
      simp only [List.take_succ_cons, List.map_cons, List.sum_cons, List.flatten_cons]
      rw [List.getElem?_append_right (by omega)]
      have : x.length + ((xs.take i).map List.length).sum + t - x.length
          = ((xs.take i).map List.length).sum + t := by omega
      rw [this]
      exact ih i hc

/-- telescoping: if the `i`-th list has length `cp (i+1) - cp i` with `cp` monotone and
`cp 0 = 0`, the first `i` lists have `cp i` elements in total -/
theorem sum_take_lengths {β : Type} (L : List (List β)) (cp : Nat → Nat) (h0 : cp 0 = 0)
    (hmono : ∀ i, i < L.length → cp i ≤ cp (i + 1))
    (hlen : ∀ i c, L[i]? = some c → c.length = cp (i + 1) - cp i) :
    ∀ i, i ≤ L.length → ((L.take i).map List.length).sum = cp i := by
  intro i
  induction i with
  | zero => intro _; simp [h0]
  | succ i ih =>
    intro hi
    have hi' : i < L.length := by omega
    have hget : L[i]? = some L[i] := List.getElem?_eq_getElem hi'
    rw [List.take_add_one, hget]
    simp only [Option.toList_some, List.map_append, List.map_cons, List.map_nil, List.sum_append,
      List.sum_cons, List.sum_nil, Nat.add_zero]
    rw [ih (by omega), hlen i _ hget]
    have := hmono i hi'
    omega

-- ------------------------------------------------------------------ well-formed blocks

variable {α : Type}

/-- `M` is well-dimensioned: `colptr` has `n+1` monotone entries from `0` to `nnz`, so the
column ranges `[colptr i, colptr (i+1))`, `i < n`, partition `[0, nnz)`. -/
structure BlockWF (M : Csc α) : Prop where
  colptr_size : M.colptr.size = M.n + 1
  colptr_zero : M.colptr[0]? = some 0
  colptr_mono : ∀ i, i < M.n → M.colptr.getD i 0 ≤ M.colptr.getD (i + 1) 0
  colptr_last : M.colptr[M.n]? = some M.rowval.size
  nzval_size : M.nzval.size = M.rowval.size

/-- every stored index lies in the range of exactly one column; existence: -/
theorem BlockWF.col_exists {M : Csc α} (hwf : BlockWF M) (j : Nat) (hj : j < M.rowval.size) :
    ∃ i, i < M.n ∧ M.colptr.getD i 0 ≤ j ∧ j < M.colptr.getD (i + 1) 0 := by
  have key : ∀ m, m ≤ M.n → j < M.colptr.getD m 0 →
      ∃ i, i < m ∧ M.colptr.getD i 0 ≤ j ∧ j < M.colptr.getD (i + 1) 0 := by
    intro m
    induction m with
    | zero =>
      intro _ h
      have : M.colptr.getD 0 0 = 0 := by simp [Array.getD_eq_getD_getElem?, hwf.colptr_zero]
      omega
    | succ m ih =>
      intro hm h
      by_cases hlt : j < M.colptr.getD m 0
      · obtain ⟨i, hi, h1, h2⟩ := ih (by omega) hlt
        exact ⟨i, by omega, h1, h2⟩
      · exact ⟨m, by omega, by omega, h⟩
  obtain ⟨i, hi, h1, h2⟩ := key M.n (Nat.le_refl _)
    (by simp [Array.getD_eq_getD_getElem?, hwf.colptr_last]; exact hj)
  exact ⟨i, hi, h1, h2⟩

/-- uniqueness of the column containing a stored index -/
theorem BlockWF.col_unique {M : Csc α} (hwf : BlockWF M) (j i i' : Nat)
    (hi : i < M.n) (hi' : i' < M.n)
    (h1 : M.colptr.getD i 0 ≤ j) (h2 : j < M.colptr.getD (i + 1) 0)
    (h1' : M.colptr.getD i' 0 ≤ j) (h2' : j < M.colptr.getD (i' + 1) 0) : i = i' := by
  have mono : ∀ a d, a + d ≤ M.n → M.colptr.getD a 0 ≤ M.colptr.getD (a + d) 0 := by
    intro a d
    induction d with
    | zero => intro _; exact Nat.le_refl _
    | succ d ih =>
      intro h
      have := ih (by omega)
      have := hwf.colptr_mono (a + d) (by omega)
      rw [← Nat.add_assoc]
      omega
  rcases Nat.lt_trichotomy i i' with hlt | heq | hgt
  · have := mono (i + 1) (i' - (i + 1)) (by omega)
    have e : i + 1 + (i' - (i + 1)) = i' := by omega
    rw [e] at this
    omega
  · exact heq
  · have := mono (i' + 1) (i - (i' + 1)) (by omega)
    have e : i' + 1 + (i - (i' + 1)) = i := by omega
    rw [e] at this
    omega

-- ------------------------------------------------------------------ the schedule

/-- KKT coordinate `(row, col)` of an entry with row index `r` in column `i` of the block -/
def blockCoord (shape : MatrixShape) (r0 c0 i r : Nat) : Nat × Nat :=
  match shape with
  | .N => (r + r0, i + c0)
  | .T => (i + r0, r + c0)

/-- the scheduled write for stored entry `j` (row `r`, value `v`) of column `i` -/
def entryOf (shape : MatrixShape) (r0 c0 i j r : Nat) (v : α) : Entry α :=
  Entry.mk' (blockCoord shape r0 c0 i r).2 (blockCoord shape r0 c0 i r).1 v j

theorem entryOf_readCol (shape : MatrixShape) (r0 c0 i j r : Nat) (v : α) :
    (entryOf shape r0 c0 i j r v).readCol = (blockCoord shape r0 c0 i r).2 := rfl
theorem entryOf_incCol (shape : MatrixShape) (r0 c0 i j r : Nat) (v : α) :
    (entryOf shape r0 c0 i j r v).incCol = (blockCoord shape r0 c0 i r).2 := rfl
theorem entryOf_row (shape : MatrixShape) (r0 c0 i j r : Nat) (v : α) :
    (entryOf shape r0 c0 i j r v).row = (blockCoord shape r0 c0 i r).1 := rfl
theorem entryOf_val (shape : MatrixShape) (r0 c0 i j r : Nat) (v : α) :
    (entryOf shape r0 c0 i j r v).val = v := rfl
theorem entryOf_k (shape : MatrixShape) (r0 c0 i j r : Nat) (v : α) :
    (entryOf shape r0 c0 i j r v).k = some j := rfl

/-- `blockSchedule` succeeded: it is the flattening of per-column lists; list `i` has
`colptr[i+1] - colptr[i]` elements, the `t`-th being the write for entry `colptr[i] + t`. -/
theorem blockSchedule_cols (M : Csc α) (r0 c0 : Nat) (shape : MatrixShape)
    (sched : List (Entry α)) (h : blockSchedule M r0 c0 shape = .ok sched) :
    ∃ cols : List (List (Entry α)), sched = cols.flatten ∧ cols.length = M.n ∧
      ∀ i, i < M.n → ∃ c start stop, cols[i]? = some c ∧ M.colptr[i]? = some start ∧
        M.colptr[i + 1]? = some stop ∧ c.length = stop - start ∧
        ∀ t, t < stop - start → ∃ r v, M.rowval[start + t]? = some r ∧
          M.nzval[start + t]? = some v ∧
          c[t]? = some (entryOf shape r0 c0 i (start + t) r v) := by
  unfold blockSchedule at h
  obtain ⟨cols, hcols, h⟩ := bind_ok h
  simp only [pure, Except.pure, Except.ok.injEq] at h
  obtain ⟨hlen, hget⟩ := mapM_ok _ _ _ hcols
  refine ⟨cols, h.symm, by simpa using hlen, ?_⟩
  intro i hi
  obtain ⟨c, hc, hf⟩ := hget i i (by simp [hi])
  obtain ⟨start, hstart, hf⟩ := bind_ok hf
  obtain ⟨stop, hstop, hf⟩ := bind_ok hf
  rw [getE_ok] at hstart hstop
  obtain ⟨hclen, hcget⟩ := mapM_ok _ _ _ hf
  refine ⟨c, start, stop, hc, hstart, hstop, by simpa using hclen, ?_⟩
  intro t ht
  obtain ⟨e, he, hg⟩ := hcget t (start + t) (by simp [ht])
  obtain ⟨r, hr, hg⟩ := bind_ok hg
  obtain ⟨v, hv, hg⟩ := bind_ok hg
  rw [getE_ok] at hr hv
  simp only [pure, Except.pure, Except.ok.injEq] at hg
  refine ⟨r, v, hr, hv, ?_⟩
  rw [he, ← hg]
  cases shape <;> rfl

/-- the per-column lists of `blockSchedule_cols`, with the prefix-length identity -/
theorem blockSchedule_prefix {M : Csc α} (hwf : BlockWF M) (cols : List (List (Entry α)))
    (hlen : cols.length = M.n)
    (hcols : ∀ i, i < M.n → ∃ c start stop, cols[i]? = some c ∧ M.colptr[i]? = some start ∧
        M.colptr[i + 1]? = some stop ∧ c.length = stop - start ∧ True) :
    ∀ i, i ≤ M.n → ((cols.take i).map List.length).sum = M.colptr.getD i 0 := by
  intro i hi
  apply sum_take_lengths cols (fun i => M.colptr.getD i 0)
  · simp [Array.getD_eq_getD_getElem?, hwf.colptr_zero]
  · intro k hk
    exact hwf.colptr_mono k (by omega)
  · intro k c hc
    have hk : k < M.n := by
      rcases List.getElem?_eq_some_iff.mp hc with ⟨h, _⟩
      omega
    obtain ⟨c', start, stop, hc', hs, he, hl, _⟩ := hcols k hk
    rw [hc] at hc'
    cases hc'
    simp [Array.getD_eq_getD_getElem?, hs, he, hl]
  · omega

/-- **schedule characterisation**: the `j`-th scheduled write is the one for stored entry
`j` (which lies in column `i`). -/
theorem blockSchedule_get {M : Csc α} (hwf : BlockWF M) (r0 c0 : Nat) (shape : MatrixShape)
    (sched : List (Entry α)) (hs : blockSchedule M r0 c0 shape = .ok sched)
    (i j : Nat) (hi : i < M.n) (hlo : M.colptr.getD i 0 ≤ j) (hhi : j < M.colptr.getD (i + 1) 0) :
    ∃ r v, M.rowval[j]? = some r ∧ M.nzval[j]? = some v ∧
      sched[j]? = some (entryOf shape r0 c0 i j r v) := by
  obtain ⟨cols, rfl, hlen, hcols⟩ := blockSchedule_cols M r0 c0 shape sched hs
  have hpre := blockSchedule_prefix hwf cols hlen (by
    intro k hk
    obtain ⟨c, start, stop, h1, h2, h3, h4, _⟩ := hcols k hk
    exact ⟨c, start, stop, h1, h2, h3, h4, trivial⟩) i (by omega)
  obtain ⟨c, start, stop, hc, hstart, hstop, hclen, hget⟩ := hcols i hi
  have e1 : M.colptr.getD i 0 = start := by simp [Array.getD_eq_getD_getElem?, hstart]
  have e2 : M.colptr.getD (i + 1) 0 = stop := by simp [Array.getD_eq_getD_getElem?, hstop]
  rw [e1] at hlo hpre
  rw [e2] at hhi
  obtain ⟨r, v, hr, hv, hct⟩ := hget (j - start) (by omega)
  have ej : start + (j - start) = j := by omega
  rw [ej] at hr hv hct
  refine ⟨r, v, hr, hv, ?_⟩
  have := flatten_get cols i (j - start) c hc (by omega)
  rw [hpre, ej] at this
  rw [this, hct]

/-- the schedule has one write per stored entry -/
theorem blockSchedule_length {M : Csc α} (hwf : BlockWF M) (r0 c0 : Nat) (shape : MatrixShape)
    (sched : List (Entry α)) (hs : blockSchedule M r0 c0 shape = .ok sched) :
    sched.length = M.rowval.size := by
  obtain ⟨cols, rfl, hlen, hcols⟩ := blockSchedule_cols M r0 c0 shape sched hs
  have hpre := blockSchedule_prefix hwf cols hlen (by
    intro k hk
    obtain ⟨c, start, stop, h1, h2, h3, h4, _⟩ := hcols k hk
    exact ⟨c, start, stop, h1, h2, h3, h4, trivial⟩) M.n (Nat.le_refl _)
  rw [List.length_flatten]
  rw [← hlen, List.take_length] at hpre
  rw [hpre, hlen]
  simp [Array.getD_eq_getD_getElem?, hwf.colptr_last]

/-- every scheduled write, by position: it is an `entryOf` of the column containing it -/
theorem blockSchedule_get' {M : Csc α} (hwf : BlockWF M) (r0 c0 : Nat) (shape : MatrixShape)
    (sched : List (Entry α)) (hs : blockSchedule M r0 c0 shape = .ok sched)
    (j : Nat) (e : Entry α) (he : sched[j]? = some e) :
    ∃ i r v, i < M.n ∧ M.colptr.getD i 0 ≤ j ∧ j < M.colptr.getD (i + 1) 0 ∧
      M.rowval[j]? = some r ∧ M.nzval[j]? = some v ∧ e = entryOf shape r0 c0 i j r v := by
  have hj : j < M.rowval.size := by
    rw [← blockSchedule_length hwf r0 c0 shape sched hs]
    rcases List.getElem?_eq_some_iff.mp he with ⟨h, _⟩
    exact h
  obtain ⟨i, hi, h1, h2⟩ := hwf.col_exists j hj
  obtain ⟨r, v, hr, hv, hg⟩ := blockSchedule_get hwf r0 c0 shape sched hs i j hi h1 h2
  rw [he] at hg
  cases hg
  exact ⟨i, r, v, hi, h1, h2, hr, hv, rfl⟩

/-- the `j`-th write records its destination at position `j` of the index map -/
theorem blockSchedule_k {M : Csc α} (hwf : BlockWF M) (r0 c0 : Nat) (shape : MatrixShape)
    (sched : List (Entry α)) (hs : blockSchedule M r0 c0 shape = .ok sched)
    (j : Nat) (e : Entry α) (he : sched[j]? = some e) : e.k = some j := by
  obtain ⟨i, r, v, _, _, _, _, _, rfl⟩ := blockSchedule_get' hwf r0 c0 shape sched hs j e he
  rfl

theorem blockSchedule_map_k {M : Csc α} (hwf : BlockWF M) (r0 c0 : Nat) (shape : MatrixShape)
    (sched : List (Entry α)) (hs : blockSchedule M r0 c0 shape = .ok sched) :
    sched.map (·.k) = (List.range M.rowval.size).map some := by
  apply List.ext_getElem?
  intro j
  simp only [List.getElem?_map]
  cases he : sched[j]? with
  | none =>
    have : M.rowval.size ≤ j := by
      rw [← blockSchedule_length hwf r0 c0 shape sched hs]
      exact List.getElem?_eq_none_iff.mp he
    simp [List.getElem?_eq_none_iff.mpr (by simpa using this : (List.range M.rowval.size).length ≤ j)]
  | some e =>
    have hj : j < M.rowval.size := by
      rw [← blockSchedule_length hwf r0 c0 shape sched hs]
      rcases List.getElem?_eq_some_iff.mp he with ⟨h, _⟩
      exact h
    simp [blockSchedule_k hwf r0 c0 shape sched hs j e he, hj]

/-- all writes of `blockSchedule` advance the counter they read -/
theorem blockSchedule_regular {M : Csc α} (hwf : BlockWF M) (r0 c0 : Nat) (shape : MatrixShape)
    (sched : List (Entry α)) (hs : blockSchedule M r0 c0 shape = .ok sched) : Regular sched := by
  intro e he
  obtain ⟨j, hj⟩ := List.getElem?_of_mem he
  obtain ⟨i, r, v, _, _, _, _, _, rfl⟩ := blockSchedule_get' hwf r0 c0 shape sched hs j e hj
  rfl

-- ------------------------------------------------------------------ fill_block

/-- `fillBlock` is `placeAll` over `blockSchedule` -/
theorem fillBlock_ok (K K' M : Csc α) (map map' : Array Nat) (r0 c0 : Nat) (shape : MatrixShape)
    (h : fillBlock K M map r0 c0 shape = .ok (K', map')) :
    ∃ sched, blockSchedule M r0 c0 shape = .ok sched ∧
      sched.foldlM place (K, map) = .ok (K', map') := by
  unfold fillBlock at h
  obtain ⟨sched, hs, h⟩ := bind_ok h
  exact ⟨sched, hs, h⟩

/-- the engine specification instantiated for `fillBlock` -/
theorem fillBlock_placeSpec {M : Csc α} (hwf : BlockWF M) (K K' : Csc α) (map map' : Array Nat)
    (r0 c0 : Nat) (shape : MatrixShape) (sched : List (Entry α))
    (hs : blockSchedule M r0 c0 shape = .ok sched)
    (hdis : RangesDisjoint K.colptr sched)
    (h : fillBlock K M map r0 c0 shape = .ok (K', map')) :
    PlaceSpec (K, map) (K', map') sched := by
  obtain ⟨sched', hs', hf⟩ := fillBlock_ok K K' M map map' r0 c0 shape h
  rw [hs] at hs'
  cases hs'
  exact placeAll_spec sched (K, map) (K', map')
    (blockSchedule_regular hwf r0 c0 shape sched hs) hdis hf

/-- the index map after `fillBlock`: position `j` holds the destination of the `j`-th write -/
theorem fillBlock_map_eq_destOf {M : Csc α} (hwf : BlockWF M) (K K' : Csc α)
    (map map' : Array Nat) (r0 c0 : Nat) (shape : MatrixShape) (sched : List (Entry α))
    (hs : blockSchedule M r0 c0 shape = .ok sched)
    (hdis : RangesDisjoint K.colptr sched)
    (h : fillBlock K M map r0 c0 shape = .ok (K', map'))
    (j : Nat) (hj : j < M.rowval.size) : map'[j]? = destOf K.colptr sched j := by
  have S := fillBlock_placeSpec hwf K K' map map' r0 c0 shape sched hs hdis h
  have hlen := blockSchedule_length hwf r0 c0 shape sched hs
  have hget : sched[j]? = some sched[j] := List.getElem?_eq_getElem (by omega)
  exact S.map_written j _ j hget (blockSchedule_k hwf r0 c0 shape sched hs j _ hget) (by
    intro j' e' hjj' he'
    rw [blockSchedule_k hwf r0 c0 shape sched hs j' e' he']
    intro hh
    cases hh
    omega)

/-- `fill_block` leaves the size of the index map unchanged -/
theorem fillBlock_map_size {M : Csc α} (hwf : BlockWF M) (K K' : Csc α)
    (map map' : Array Nat) (r0 c0 : Nat) (shape : MatrixShape) (sched : List (Entry α))
    (hs : blockSchedule M r0 c0 shape = .ok sched)
    (hdis : RangesDisjoint K.colptr sched)
    (h : fillBlock K M map r0 c0 shape = .ok (K', map')) : map'.size = map.size :=
  (fillBlock_placeSpec hwf K K' map map' r0 c0 shape sched hs hdis h).map_size

/-- **fill_block coordinate theorem**, existential form: the stored entry `j` (row `r`,
value `v`) of column `i` of `M` is written to the index `d = map'[j]`, which lies in the free
range `[p, p + cnt col sched)` of KKT column `col`, with `K'.rowval[d] = row`,
`K'.nzval[d] = v`, where `(row, col) = blockCoord shape r0 c0 i r`. -/
theorem fillBlock_coord' {M : Csc α} (hwf : BlockWF M) (K K' : Csc α)
    (map map' : Array Nat) (r0 c0 : Nat) (shape : MatrixShape) (sched : List (Entry α))
    (hs : blockSchedule M r0 c0 shape = .ok sched)
    (hdis : RangesDisjoint K.colptr sched)
    (h : fillBlock K M map r0 c0 shape = .ok (K', map'))
    (i j : Nat) (hi : i < M.n) (hlo : M.colptr.getD i 0 ≤ j) (hhi : j < M.colptr.getD (i + 1) 0) :
    ∃ r v d p, M.rowval[j]? = some r ∧ M.nzval[j]? = some v ∧ map'[j]? = some d ∧
      K.colptr[(blockCoord shape r0 c0 i r).2]? = some p ∧ p ≤ d ∧
      d < p + cnt (blockCoord shape r0 c0 i r).2 sched ∧
      K'.rowval[d]? = some (blockCoord shape r0 c0 i r).1 ∧ K'.nzval[d]? = some v := by
  have S := fillBlock_placeSpec hwf K K' map map' r0 c0 shape sched hs hdis h
  obtain ⟨r, v, hr, hv, hg⟩ := blockSchedule_get hwf r0 c0 shape sched hs i j hi hlo hhi
  have hj : j < M.rowval.size := by
    rcases Array.getElem?_eq_some_iff.mp hr with ⟨h, _⟩; exact h
  obtain ⟨d, hd, hrow, hval⟩ := S.written j _ hg
  have hmap := fillBlock_map_eq_destOf hwf K K' map map' r0 c0 shape sched hs hdis h j hj
  have hlt := cnt_take_lt sched j _ hg
  rw [entryOf_readCol] at hlt
  rw [entryOf_row] at hrow
  rw [entryOf_val] at hval
  unfold destOf at hd
  rw [hg] at hd
  simp only [Option.bind_some, entryOf_readCol] at hd
  cases hp : K.colptr[(blockCoord shape r0 c0 i r).2]? with
  | none => simp [hp] at hd
  | some p =>
    simp only [hp, Option.map_some, Option.some.injEq] at hd
    refine ⟨r, v, d, p, hr, hv, by rw [hmap]; unfold destOf; rw [hg]; simp [entryOf_readCol, hp, hd],
      hp, by omega, by omega, hrow, hval⟩

/-- **fill_block coordinate theorem** (`coord(map[j]) = coord_M(j)` of property C11):
for every column `i < M.n` and stored index `j ∈ [M.colptr[i], M.colptr[i+1])`, with
`(row, col) = (M.rowval[j] + r0, i + c0)` for shape `N` and `(i + r0, M.rowval[j] + c0)` for
shape `T`. -/
theorem fillBlock_coord {M : Csc α} (hwf : BlockWF M) (K K' : Csc α)
    (map map' : Array Nat) (r0 c0 : Nat) (shape : MatrixShape) (sched : List (Entry α))
    (hs : blockSchedule M r0 c0 shape = .ok sched)
    (hdis : RangesDisjoint K.colptr sched)
    (h : fillBlock K M map r0 c0 shape = .ok (K', map'))
    (i j : Nat) (hi : i < M.n) (hlo : M.colptr.getD i 0 ≤ j) (hhi : j < M.colptr.getD (i + 1) 0) :
    ∃ d p, map'[j]? = some d ∧
      K.colptr[(blockCoord shape r0 c0 i (M.rowval.getD j 0)).2]? = some p ∧ p ≤ d ∧
      d < p + cnt (blockCoord shape r0 c0 i (M.rowval.getD j 0)).2 sched ∧
      K'.rowval[d]? = some (blockCoord shape r0 c0 i (M.rowval.getD j 0)).1 ∧
      K'.nzval[d]? = M.nzval[j]? := by
  obtain ⟨r, v, d, p, hr, hv, hm, hp, h1, h2, hrow, hval⟩ :=
    fillBlock_coord' hwf K K' map map' r0 c0 shape sched hs hdis h i j hi hlo hhi
  have er : M.rowval.getD j 0 = r := by simp [Array.getD_eq_getD_getElem?, hr]
  rw [er, hv]
  exact ⟨d, p, hm, hp, h1, h2, hrow, hval⟩

/-- the two shapes spelled out -/
theorem fillBlock_coord_N {M : Csc α} (hwf : BlockWF M) (K K' : Csc α)
    (map map' : Array Nat) (r0 c0 : Nat) (sched : List (Entry α))
    (hs : blockSchedule M r0 c0 .N = .ok sched)
    (hdis : RangesDisjoint K.colptr sched)
    (h : fillBlock K M map r0 c0 .N = .ok (K', map'))
    (i j : Nat) (hi : i < M.n) (hlo : M.colptr.getD i 0 ≤ j) (hhi : j < M.colptr.getD (i + 1) 0) :
    ∃ d p, map'[j]? = some d ∧ K.colptr[i + c0]? = some p ∧ p ≤ d ∧
      d < p + cnt (i + c0) sched ∧
      K'.rowval[d]? = some (M.rowval.getD j 0 + r0) ∧ K'.nzval[d]? = M.nzval[j]? :=
  fillBlock_coord hwf K K' map map' r0 c0 .N sched hs hdis h i j hi hlo hhi

theorem fillBlock_coord_T {M : Csc α} (hwf : BlockWF M) (K K' : Csc α)
    (map map' : Array Nat) (r0 c0 : Nat) (sched : List (Entry α))
    (hs : blockSchedule M r0 c0 .T = .ok sched)
    (hdis : RangesDisjoint K.colptr sched)
    (h : fillBlock K M map r0 c0 .T = .ok (K', map'))
    (i j : Nat) (hi : i < M.n) (hlo : M.colptr.getD i 0 ≤ j) (hhi : j < M.colptr.getD (i + 1) 0) :
    ∃ d p, map'[j]? = some d ∧ K.colptr[M.rowval.getD j 0 + c0]? = some p ∧ p ≤ d ∧
      d < p + cnt (M.rowval.getD j 0 + c0) sched ∧
      K'.rowval[d]? = some (i + r0) ∧ K'.nzval[d]? = M.nzval[j]? :=
  fillBlock_coord hwf K K' map map' r0 c0 .T sched hs hdis h i j hi hlo hhi

/-- distinct stored entries get distinct destinations -/
theorem fillBlock_dest_ne {M : Csc α} (hwf : BlockWF M) (K K' : Csc α)
    (map map' : Array Nat) (r0 c0 : Nat) (shape : MatrixShape) (sched : List (Entry α))
    (hs : blockSchedule M r0 c0 shape = .ok sched)
    (hdis : RangesDisjoint K.colptr sched)
    (h : fillBlock K M map r0 c0 shape = .ok (K', map'))
    (j j' d : Nat) (hj : j < M.rowval.size) (hj' : j' < M.rowval.size) (hne : j ≠ j')
    (hd : map'[j]? = some d) : map'[j']? ≠ some d := by
  rw [fillBlock_map_eq_destOf hwf K K' map map' r0 c0 shape sched hs hdis h j hj] at hd
  rw [fillBlock_map_eq_destOf hwf K K' map map' r0 c0 shape sched hs hdis h j' hj']
  rcases Nat.lt_or_gt_of_ne hne with hlt | hgt
  · exact destOf_lt_ne K.colptr sched hdis j j' d hlt hd
  · intro hd'
    exact destOf_lt_ne K.colptr sched hdis j' j d hgt hd' hd

/-- positions of the index map beyond the stored entries of `M` are not touched -/
theorem fillBlock_map_untouched {M : Csc α} (hwf : BlockWF M) (K K' : Csc α)
    (map map' : Array Nat) (r0 c0 : Nat) (shape : MatrixShape) (sched : List (Entry α))
    (hs : blockSchedule M r0 c0 shape = .ok sched)
    (hdis : RangesDisjoint K.colptr sched)
    (h : fillBlock K M map r0 c0 shape = .ok (K', map'))
    (k : Nat) (hk : M.rowval.size ≤ k) : map'[k]? = map[k]? := by
  have S := fillBlock_placeSpec hwf K K' map map' r0 c0 shape sched hs hdis h
  apply S.map_untouched k
  intro e he
  obtain ⟨j, hj⟩ := List.getElem?_of_mem he
  rw [blockSchedule_k hwf r0 c0 shape sched hs j e hj]
  have : j < M.rowval.size := by
    rw [← blockSchedule_length hwf r0 c0 shape sched hs]
    rcases List.getElem?_eq_some_iff.mp hj with ⟨h, _⟩
    exact h
  intro hh
  cases hh
  omega

-- ------------------------------------------------------------------ non-vacuity

/-- a 2×2 upper-triangular matrix with 3 stored entries is `BlockWF` -/
example : BlockWF ({ m := 2, n := 2, colptr := #[0, 1, 3], rowval := #[0, 0, 1],
                     nzval := #[4, 1, 2] } : Csc Nat) := by
  refine ⟨rfl, rfl, ?_, rfl, rfl⟩
  intro i hi
  match i, hi with
  | 0, _ => decide
  | 1, _ => decide


def exM : Csc Nat := { m := 2, n := 2, colptr := #[0, 1, 3], rowval := #[0, 0, 1], nzval := #[4, 1, 2] }
def exK : Csc Nat := { m := 2, n := 2, colptr := (exclusiveCumsum [1, 2, 0]).toArray,
                       rowval := #[0, 0, 0], nzval := #[0, 0, 0] }
def exSched : List (Entry Nat) := [Entry.mk' 0 0 4 0, Entry.mk' 1 0 1 1, Entry.mk' 1 1 2 2]

/-- the hypotheses of `fillBlock_coord` are jointly satisfiable -/
example : blockSchedule exM 0 0 .N = .ok exSched ∧ RangesDisjoint exK.colptr exSched ∧
    ∃ r, fillBlock exK exM #[0, 0, 0] 0 0 .N = .ok r := by
  refine ⟨by rfl, ?_, ?_⟩
  · apply rangesDisjoint_cumsum
    intro c x hx
    match c, hx with
    | 0, hx => simp at hx; subst hx; decide
    | 1, hx => simp at hx; subst hx; decide
    | 2, hx => simp at hx; subst hx; decide
    | (c + 3), hx => simp at hx
  · exact ⟨_, rfl⟩

end Clarabel.Lemmas.KktFillBlock
