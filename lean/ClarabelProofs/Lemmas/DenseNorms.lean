/-
  C16, dense matrix model: the norm family of `matrix_math.rs`
  (`col_norms`, `col_norms_no_reset`, `row_norms`, `row_norms_no_reset`, `col_norms_sym`,
  `col_norms_sym_no_reset`) as maxima over an ordered field with the lawful `FloatLike` extras.

  NB the dense `col_norms_sym(_no_reset)` takes NO absolute value: slot `k` becomes the maximum
  of its old content and the *signed* entries of row/column `k` of the symmetric matrix.
-/
import ClarabelProofs.Lemmas.DenseSums
import ClarabelProofs.Lemmas.DensePack
import ClarabelProofs.Lemmas.VecKernels

namespace Clarabel.Dense
open Clarabel

variable {α : Type}

/-! ### scatter loops -/

/-- `IsMaxOf` only depends on which values occur -/
theorem IsMaxOf_congr_mem [LE α] {r v0 : α} {l l' : List α} (h : ∀ a, a ∈ l ↔ a ∈ l')
    (hm : Csc.IsMaxOf r v0 l) : Csc.IsMaxOf r v0 l' :=
  ⟨hm.1, fun a ha => hm.2.1 a ((h a).mpr ha), hm.2.2.imp id (fun hr => (h r).mp hr)⟩

theorem scatter_append (f : α → α → α) (y : Array α) (l1 l2 : List (Nat × α)) :
    Csc.scatter f y (l1 ++ l2) = Csc.scatter f y l1 >>= fun y' => Csc.scatter f y' l2 := by
  unfold Csc.scatter
  rw [List.foldlM_append]

/-- a loop whose every step is a (short) scatter is the scatter of the concatenation -/
theorem foldlM_scatter {β : Type} (f : α → α → α) (F : Array α → β → MErr (Array α))
    (ws : β → List (Nat × α)) (sz : Nat) : ∀ (l : List β) (y : Array α), y.size = sz →
    (∀ p ∈ l, ∀ w ∈ ws p, w.1 < sz) →
    (∀ p ∈ l, ∀ nm : Array α, nm.size = sz → F nm p = Csc.scatter f nm (ws p)) →
    l.foldlM F y = Csc.scatter f y (l.flatMap ws) := by
  intro l
  induction l with
  | nil => intro y _ _ _; rfl
  | cons p t ih =>
    intro y hy hpos hF
    rw [List.foldlM_cons, List.flatMap_cons, scatter_append, hF p (by simp) y hy]
    obtain ⟨y', h1, h2, _⟩ := Csc.scatter_spec f y (ws p) (fun e he => by
      rw [hy]; exact hpos p (by simp) e he)
    rw [h1]
    show t.foldlM F y' = Csc.scatter f y' (t.flatMap ws)
    exact ih y' (by rw [h2, hy]) (fun q hq => hpos q (List.mem_cons_of_mem _ hq))
      (fun q hq => hF q (List.mem_cons_of_mem _ hq))

theorem scatter_one (f : α → α → α) (y : Array α) (i : Nat) (v : α) (h : i < y.size) :
    Csc.scatter f y [(i, v)] = .ok (y.set i (f y[i] v) h) := by
  rw [Csc.scatter_cons f y (i, v) [] h]
  rfl

theorem scatter_two (f : α → α → α) (y : Array α) (i j : Nat) (v w : α) (hi : i < y.size)
    (hj : j < y.size) :
    Csc.scatter f y [(i, v), (j, w)] =
      .ok ((y.set i (f y[i] v) hi).set j (f ((y.set i (f y[i] v) hi)[j]'(by simpa using hj)) w)
        (by simpa using hj)) := by
  rw [Csc.scatter_cons f y (i, v) _ hi, Csc.scatter_cons f _ (j, w) [] (by simpa using hj)]
  rfl

/-! ### reads -/

theorem get_N_ok [OfNat α 0] (A : Dense α) (hA : WF A) {i j : Nat} (hi : i < A.m) (hj : j < A.n) :
    get .N A i j = .ok (A.data.getD (i + A.m * j) 0) := by
  have hidx : i + A.m * j < A.data.size := by rw [hA]; exact lin_lt hi hj
  unfold get indexLinear
  rw [getE_ok _ _ _ hidx]
  simp [Array.getD_eq_getD_getElem?, hidx]

/-- the column slice as a list of entries -/
theorem extract_toList [OfNat α 0] (A : Dense α) (hA : WF A) {col : Nat} (hc : col < A.n) :
    (A.data.extract (col * A.m) ((col + 1) * A.m)).toList =
      (List.range A.m).map (fun i => A.data.getD (i + A.m * col) 0) := by
  apply List.ext_getElem
  · simp only [Array.length_toList, List.length_map, List.length_range]
    exact extract_size A hA hc
  · intro i h1 h2
    have hi : i < A.m := by simpa using h2
    have hs := extract_size A hA hc
    have := extract_getD A hA hc hi
    rw [Array.getD_eq_getD_getElem?, Array.getElem?_eq_getElem (by omega)] at this
    simp only [Option.getD_some] at this
    simp only [Array.getElem_toList, List.getElem_map, List.getElem_range]
    exact this

/-- [S] `col_norms_no_reset` with more slots than columns panics (`col_slice` assert) -/
theorem colNormsNoReset_panic [Add α] [Sub α] [Mul α] [Div α] [OfNat α 0] [OfNat α 1] [LT α]
    [DecidableLT α] [FloatLike α] (A : Dense α) (norms : Array α) (hA : WF A)
    (hs : A.n < norms.size) :
    colNormsNoReset A norms = .error (.panic "col_slice: assert col < n") := by
  unfold colNormsNoReset
  rw [mapM_error _ _ (.panic "col_slice: assert col < n")]
  · rfl
  · refine ⟨(norms[A.n], A.n), ?_, ?_⟩
    · apply List.mem_zipIdx_iff_getElem?.mpr
      simp [hs]
    · simp only [colSlice_panic A (Nat.le_refl _)]
      rfl
  · intro e he e' hfe
    by_cases hc : e.2 < A.n
    · rw [colSlice_eq A hA hc] at hfe
      cases hfe
    · rw [colSlice_panic A (by omega)] at hfe
      cases hfe; rfl

section lawful
variable [Field α] [LinearOrder α] [IsStrictOrderedRing α] [FloatLike α] [LawfulFloatLike α]

/-! ### col_norms -/

/-- the absolute values of column `j` -/
def colAbs (A : Dense α) (j : Nat) : List α :=
  (List.range A.m).map (fun i => |A.data.getD (i + A.m * j) 0|)

/-- the absolute values of row `i` -/
def rowAbs (A : Dense α) (i : Nat) : List α :=
  (List.range A.n).map (fun j => |A.data.getD (i + A.m * j) 0|)

/-- the (signed) entries of row `k` of the symmetric matrix whose upper triangle `A` holds -/
def symRow (A : Dense α) (k : Nat) : List α :=
  (List.range A.n).map (fun j => symElem A A.n k j)

/-- [F] `col_norms_no_reset` with at most `ncols` slots: slot `j` becomes
`max(norms[j], ‖column j‖∞)`, where `‖column j‖∞` is the largest `|A[i,j]|` (`0` for a matrix
without rows) — so the result is never below `0`, unlike the CSC twin on an empty column -/
theorem colNormsNoReset_spec (A : Dense α) (norms : Array α) (hA : WF A) (hs : norms.size ≤ A.n) :
    ∃ v, colNormsNoReset A norms = .ok v ∧ v.size = norms.size ∧
      ∀ j (hj : j < norms.size), ∃ N, Csc.IsMaxOf N 0 (colAbs A j) ∧ v[j]? = some (max norms[j] N) := by
  refine ⟨((norms.toList.zipIdx).map (fun e =>
      fmax e.1 (Vec.normInf (A.data.extract (e.2 * A.m) ((e.2 + 1) * A.m))))).toArray, ?_, by simp, ?_⟩
  · unfold colNormsNoReset
    rw [mapM_ok _ _ (fun e => fmax e.1 (Vec.normInf (A.data.extract (e.2 * A.m) ((e.2 + 1) * A.m))))]
    · rfl
    · intro e he
      have h2 := List.snd_lt_of_mem_zipIdx he
      simp only [Array.length_toList, Nat.zero_add] at h2
      rw [colSlice_eq A hA (by omega)]
      rfl
  · intro j hj
    refine ⟨Vec.normInf (A.data.extract (j * A.m) ((j + 1) * A.m)), ?_, ?_⟩
    · have := Vec.normInf_isMaxOf (A.data.extract (j * A.m) ((j + 1) * A.m))
      rw [extract_toList A hA (by omega), List.map_map] at this
      exact this
    · simp only [List.getElem?_toArray, zipIdx_map_getElem?, Array.getElem?_toList,
        Array.getElem?_eq_getElem hj, Option.map_some, LawfulFloatLike.fmax_eq]

/-- [F] `col_norms`: slot `j` is `‖column j‖∞`, the largest `|A[i,j]|` (`0` without rows) -/
theorem colNorms_spec (A : Dense α) (norms : Array α) (hA : WF A) (hs : norms.size ≤ A.n) :
    ∃ v, colNorms A norms = .ok v ∧ v.size = norms.size ∧
      ∀ j, j < norms.size → ∃ N, Csc.IsMaxOf N 0 (colAbs A j) ∧ v[j]? = some N := by
  obtain ⟨v, h1, h2, h3⟩ := colNormsNoReset_spec A (norms.map (fun _ => (0 : α))) hA (by simpa using hs)
  refine ⟨v, h1, by simpa using h2, fun j hj => ?_⟩
  obtain ⟨N, hN, hv⟩ := h3 j (by simpa using hj)
  refine ⟨N, hN, ?_⟩
  rw [hv]
  simp only [Array.getElem_map]
  rw [max_eq_right hN.1]

/-! ### row_norms -/

theorem rowNormsNoReset_eq_scatter (A : Dense α) (norms : Array α) (hA : WF A)
    (hs : A.m ≤ norms.size) :
    rowNormsNoReset A norms = Csc.scatter (fun m t => fmax m t) norms
      ((List.range (A.m * A.n)).flatMap (fun k =>
        [(k / A.n, fabs (A.data.getD (k / A.n + A.m * (k % A.n)) 0))])) := by
  unfold rowNormsNoReset
  apply foldlM_scatter (fun m t => fmax m t) _ _ norms.size _ _ rfl
  · intro k hk w hw
    have hk' := List.mem_range.mp hk
    simp only [List.mem_cons, List.not_mem_nil, or_false] at hw
    subst hw
    have : k / A.n < A.m := Nat.div_lt_of_lt_mul (by rwa [Nat.mul_comm] at hk')
    simp only; omega
  · intro k hk nm hnm
    have hk' := List.mem_range.mp hk
    have hr : k / A.n < A.m := Nat.div_lt_of_lt_mul (by rwa [Nat.mul_comm] at hk')
    have hn0 : 0 < A.n := by
      rcases Nat.eq_zero_or_pos A.n with h | h
      · rw [h] at hk'; simp at hk'
      · exact h
    have hc : k % A.n < A.n := Nat.mod_lt _ hn0
    have hrs : k / A.n < nm.size := by omega
    rw [scatter_one _ _ _ _ hrs]
    simp only [getE_ok _ _ _ hrs, bind, Except.bind, get_N_ok A hA hr hc]
    rw [setE_ok _ _ _ _ hrs]

/-- [F] `row_norms_no_reset` with at least `nrows` slots: slot `i < nrows` becomes the maximum
of its old content and the `|A[i,j]|`; further slots are untouched -/
theorem rowNormsNoReset_spec (A : Dense α) (norms : Array α) (hA : WF A) (hs : A.m ≤ norms.size) :
    ∃ v, rowNormsNoReset A norms = .ok v ∧ v.size = norms.size ∧
      (∀ i (hi : i < A.m), ∃ r, v[i]? = some r ∧ Csc.IsMaxOf r (norms[i]'(by omega)) (rowAbs A i)) ∧
      (∀ i, A.m ≤ i → v[i]? = norms[i]?) := by
  let L : List (Nat × α) := (List.range (A.m * A.n)).flatMap (fun k =>
        [(k / A.n, fabs (A.data.getD (k / A.n + A.m * (k % A.n)) 0))])
  have hL : ∀ w, w ∈ L ↔ ∃ k, k < A.m * A.n ∧
      w = (k / A.n, |A.data.getD (k / A.n + A.m * (k % A.n)) 0|) := by
    intro w
    simp only [L, List.mem_flatMap, List.mem_range, List.mem_cons, List.not_mem_nil, or_false,
      LawfulFloatLike.fabs_eq]
  have hb : ∀ e ∈ L, e.1 < norms.size := by
    intro e he
    obtain ⟨k, hk, rfl⟩ := (hL e).mp he
    have : k / A.n < A.m := Nat.div_lt_of_lt_mul (by rwa [Nat.mul_comm] at hk)
    simp only; omega
  obtain ⟨v, h1, h2, h3⟩ := Csc.scatter_spec (fun m t => fmax m t) norms L hb
  have hfun : (fun (m t : α) => fmax m t) = (fun m a => max m a) := by
    funext m t; exact LawfulFloatLike.fmax_eq m t
  refine ⟨v, by rw [rowNormsNoReset_eq_scatter A norms hA hs]; exact h1, h2, ?_, ?_⟩
  · intro i hi
    have hi' : i < norms.size := by omega
    refine ⟨_, by rw [h3 i hi', Array.getElem?_eq_getElem hi', Option.map_some], ?_⟩
    rw [hfun]
    apply IsMaxOf_congr_mem _ (Csc.foldl_max_isMaxOf _ _)
    intro a
    unfold Csc.colVals rowAbs
    simp only [List.mem_map, List.mem_filter, beq_iff_eq, List.mem_range]
    constructor
    · rintro ⟨w, ⟨hw, hwi⟩, rfl⟩
      obtain ⟨k, hk, rfl⟩ := (hL w).mp hw
      simp only at hwi
      have hn0 : 0 < A.n := by
        rcases Nat.eq_zero_or_pos A.n with h | h
        · rw [h] at hk; simp at hk
        · exact h
      exact ⟨k % A.n, Nat.mod_lt _ hn0, by rw [← hwi]⟩
    · rintro ⟨j, hj, rfl⟩
      refine ⟨(i, |A.data.getD (i + A.m * j) 0|), ⟨(hL _).mpr ⟨j + A.n * i, ?_, ?_⟩, rfl⟩, rfl⟩
      · have := lin_lt hj hi; rw [Nat.mul_comm A.m A.n]; exact this
      · rw [lin_div hj, lin_mod hj]
  · intro i hi
    by_cases hi' : i < norms.size
    · rw [h3 i hi', Array.getElem?_eq_getElem hi', Option.map_some]
      have : Csc.colVals L i = [] := by
        unfold Csc.colVals
        rw [List.map_eq_nil_iff, List.filter_eq_nil_iff]
        intro w hw
        obtain ⟨k, hk, rfl⟩ := (hL w).mp hw
        have : k / A.n < A.m := Nat.div_lt_of_lt_mul (by rwa [Nat.mul_comm] at hk)
        simp only [beq_iff_eq]; omega
      rw [this]; rfl
    · rw [Array.getElem?_eq_none (by omega), Array.getElem?_eq_none (by omega)]

/-- [F] `row_norms`: slot `i < nrows` is the largest `|A[i,j]|` (`0` without columns) -/
theorem rowNorms_spec (A : Dense α) (norms : Array α) (hA : WF A) (hs : A.m ≤ norms.size) :
    ∃ v, rowNorms A norms = .ok v ∧ v.size = norms.size ∧
      ∀ i, i < A.m → ∃ r, v[i]? = some r ∧ Csc.IsMaxOf r 0 (rowAbs A i) := by
  obtain ⟨v, h1, h2, h3, _⟩ := rowNormsNoReset_spec A (norms.map (fun _ => (0 : α))) hA (by simpa using hs)
  refine ⟨v, h1, by simpa using h2, fun i hi => ?_⟩
  obtain ⟨r, hr1, hr2⟩ := h3 i hi
  refine ⟨r, hr1, ?_⟩
  simpa using hr2

/-! ### col_norms_sym -/

theorem colNormsSymNoReset_eq_scatter (A : Dense α) (norms : Array α) (hA : WF A) (hsq : A.m = A.n)
    (hs : A.n ≤ norms.size) :
    colNormsSymNoReset A norms = Csc.scatter (fun m t => fmax m t) norms
      ((upperPositions A.n).flatMap (fun p =>
        [(p.1, A.data.getD (p.1 + A.m * p.2) 0), (p.2, A.data.getD (p.1 + A.m * p.2) 0)])) := by
  unfold colNormsSymNoReset
  apply foldlM_scatter (fun m t => fmax m t) _ _ norms.size _ _ rfl
  · intro p hp w hw
    obtain ⟨h1, h2⟩ := (upperPositions_mem _ _).mp hp
    simp only [List.mem_cons, List.not_mem_nil, or_false] at hw
    rcases hw with rfl | rfl <;> simp only <;> omega
  · intro p hp nm hnm
    obtain ⟨h1, h2⟩ := (upperPositions_mem _ _).mp hp
    have hr : p.1 < nm.size := by omega
    have hc : p.2 < nm.size := by omega
    rw [scatter_two _ _ _ _ _ _ hr hc]
    have hc' : p.2 < (nm.set p.1 (fmax nm[p.1] (A.data.getD (p.1 + A.m * p.2) 0)) hr).size := by
      simpa using hc
    simp only [get_N_ok A hA (show p.1 < A.m by omega) h2, bind, Except.bind, getE_ok _ _ _ hr,
      setE_ok _ _ _ _ hr, getE_ok _ _ _ hc', setE_ok _ _ _ _ hc']

/-- [F] `col_norms_sym_no_reset` on a well-formed square matrix (the upper triangle of a
symmetric matrix `S`), with at least `n` slots: slot `k < n` becomes the maximum of its old
content and the SIGNED entries `S[k,j]`, `j < n` — no absolute value is taken; further slots are
untouched -/
theorem colNormsSymNoReset_spec (A : Dense α) (norms : Array α) (hA : WF A) (hsq : A.m = A.n)
    (hs : A.n ≤ norms.size) :
    ∃ v, colNormsSymNoReset A norms = .ok v ∧ v.size = norms.size ∧
      (∀ k (hk : k < A.n), ∃ r, v[k]? = some r ∧ Csc.IsMaxOf r (norms[k]'(by omega)) (symRow A k)) ∧
      (∀ k, A.n ≤ k → v[k]? = norms[k]?) := by
  let L : List (Nat × α) := (upperPositions A.n).flatMap (fun p =>
        [(p.1, A.data.getD (p.1 + A.m * p.2) 0), (p.2, A.data.getD (p.1 + A.m * p.2) 0)])
  have hL : ∀ w, w ∈ L ↔ ∃ r c, r ≤ c ∧ c < A.n ∧
      (w = (r, A.data.getD (r + A.m * c) 0) ∨ w = (c, A.data.getD (r + A.m * c) 0)) := by
    intro w
    simp only [L, List.mem_flatMap, List.mem_cons, List.not_mem_nil, or_false]
    constructor
    · rintro ⟨p, hp, hw⟩
      obtain ⟨h1, h2⟩ := (upperPositions_mem _ _).mp hp
      exact ⟨p.1, p.2, h1, h2, hw⟩
    · rintro ⟨r, c, h1, h2, hw⟩
      exact ⟨(r, c), (upperPositions_mem _ _).mpr ⟨h1, h2⟩, hw⟩
  have hb : ∀ e ∈ L, e.1 < norms.size := by
    intro e he
    obtain ⟨r, c, h1, h2, rfl | rfl⟩ := (hL e).mp he <;> simp only <;> omega
  obtain ⟨v, h1, h2, h3⟩ := Csc.scatter_spec (fun m t => fmax m t) norms L hb
  have hfun : (fun (m t : α) => fmax m t) = (fun m a => max m a) := by
    funext m t; exact LawfulFloatLike.fmax_eq m t
  refine ⟨v, by rw [colNormsSymNoReset_eq_scatter A norms hA hsq hs]; exact h1, h2, ?_, ?_⟩
  · intro k hk
    have hk' : k < norms.size := by omega
    refine ⟨_, by rw [h3 k hk', Array.getElem?_eq_getElem hk', Option.map_some], ?_⟩
    rw [hfun]
    apply IsMaxOf_congr_mem _ (Csc.foldl_max_isMaxOf _ _)
    intro a
    unfold Csc.colVals symRow symElem
    simp only [List.mem_map, List.mem_filter, beq_iff_eq, List.mem_range]
    constructor
    · rintro ⟨w, ⟨hw, hwk⟩, rfl⟩
      obtain ⟨r, c, hrc, hc, rfl | rfl⟩ := (hL w).mp hw
      · simp only at hwk
        subst hwk
        exact ⟨c, hc, by simp [hrc, hsq]⟩
      · simp only at hwk
        subst hwk
        refine ⟨r, by omega, ?_⟩
        by_cases h : c ≤ r
        · have : r = c := by omega
          subst this; simp [hsq]
        · simp [h, hsq]
    · rintro ⟨j, hj, rfl⟩
      by_cases h : k ≤ j
      · refine ⟨(k, A.data.getD (k + A.m * j) 0), ⟨(hL _).mpr ⟨k, j, h, hj, Or.inl rfl⟩, rfl⟩, ?_⟩
        simp [h, hsq]
      · refine ⟨(k, A.data.getD (j + A.m * k) 0), ⟨(hL _).mpr ⟨j, k, by omega, hk, Or.inr rfl⟩, rfl⟩, ?_⟩
        simp [h, hsq]
  · intro k hk
    by_cases hk' : k < norms.size
    · rw [h3 k hk', Array.getElem?_eq_getElem hk', Option.map_some]
      have : Csc.colVals L k = [] := by
        unfold Csc.colVals
        rw [List.map_eq_nil_iff, List.filter_eq_nil_iff]
        intro w hw
        obtain ⟨r, c, hrc, hc, rfl | rfl⟩ := (hL w).mp hw <;> simp only [beq_iff_eq] <;> omega
      rw [this]; rfl
    · rw [Array.getElem?_eq_none (by omega), Array.getElem?_eq_none (by omega)]

/-- [F] `col_norms_sym`: slot `k < n` is `max(0, max_j S[k,j])` — the largest SIGNED entry of
row/column `k` of the symmetric matrix, or `0` if all of them are negative.  (The CSC twin
returns `max_j |S[k,j]|`.) -/
theorem colNormsSym_spec (A : Dense α) (norms : Array α) (hA : WF A) (hsq : A.m = A.n)
    (hs : A.n ≤ norms.size) :
    ∃ v, colNormsSym A norms = .ok v ∧ v.size = norms.size ∧
      ∀ k, k < A.n → ∃ r, v[k]? = some r ∧ Csc.IsMaxOf r 0 (symRow A k) := by
  obtain ⟨v, h1, h2, h3, _⟩ := colNormsSymNoReset_spec A (norms.map (fun _ => (0 : α))) hA hsq
    (by simpa using hs)
  refine ⟨v, h1, by simpa using h2, fun k hk => ?_⟩
  obtain ⟨r, hr1, hr2⟩ := h3 k hk
  refine ⟨r, hr1, ?_⟩
  simpa using hr2

/-- [F] consequence of the missing absolute value: on a matrix whose upper triangle is `≤ 0`
`col_norms_sym` returns all zeros, whatever the magnitudes -/
theorem colNormsSym_nonpos (A : Dense α) (norms : Array α) (hA : WF A) (hsq : A.m = A.n)
    (hs : A.n ≤ norms.size)
    (hneg : ∀ i j, i ≤ j → j < A.n → A.data.getD (i + A.m * j) 0 ≤ 0) :
    ∃ v, colNormsSym A norms = .ok v ∧ ∀ k, k < A.n → v[k]? = some 0 := by
  obtain ⟨v, h1, _, h3⟩ := colNormsSym_spec A norms hA hsq hs
  refine ⟨v, h1, fun k hk => ?_⟩
  obtain ⟨r, hr1, hr2, _, hr4⟩ := h3 k hk
  rw [hr1]
  congr 1
  rcases hr4 with h | h
  · exact h
  · apply le_antisymm _ hr2
    unfold symRow symElem at h
    simp only [List.mem_map, List.mem_range] at h
    obtain ⟨j, hj, rfl⟩ := h
    split
    · rename_i hkj; rw [← hsq]; exact hneg k j hkj hj
    · rename_i hkj; rw [← hsq]; exact hneg j k (by omega) hk

/-- [F] on a matrix whose upper triangle is `≥ 0` the dense `col_norms_sym` does compute the
row/column ∞-norms of the symmetric matrix (`|S[k,j]| = S[k,j]`) -/
theorem colNormsSym_nonneg (A : Dense α) (norms : Array α) (hA : WF A) (hsq : A.m = A.n)
    (hs : A.n ≤ norms.size)
    (hpos : ∀ i j, i ≤ j → j < A.n → 0 ≤ A.data.getD (i + A.m * j) 0) :
    ∃ v, colNormsSym A norms = .ok v ∧ v.size = norms.size ∧
      ∀ k, k < A.n → ∃ r, v[k]? = some r ∧ Csc.IsMaxOf r 0 ((symRow A k).map (fun a => |a|)) := by
  obtain ⟨v, h1, h2, h3⟩ := colNormsSym_spec A norms hA hsq hs
  refine ⟨v, h1, h2, fun k hk => ?_⟩
  obtain ⟨r, hr1, hr2⟩ := h3 k hk
  refine ⟨r, hr1, ?_⟩
  have : (symRow A k).map (fun a => |a|) = symRow A k := by
    unfold symRow symElem
    rw [List.map_map]
    apply List.map_congr_left
    intro j hj
    have hj' := List.mem_range.mp hj
    simp only [Function.comp]
    split
    · rename_i hkj; rw [← hsq]; exact abs_of_nonneg (hpos k j hkj hj')
    · rename_i hkj; rw [← hsq]; exact abs_of_nonneg (hpos j k (by omega) hk)
  rw [this]; exact hr2

end lawful

end Clarabel.Dense
