/-
  C12: histories of `update_values / scale_values / offset_values / refactor`.

  `HistOp` is one call of the public API; `runF` runs a list of calls on a factorisation object
  (the model functions `updateValues / scaleValues / offsetValues / refactor`), `runA` performs the
  same updates on the user's own value array (`A.nzval[idx] = v`, `*= s`, `±= off`; `refactor` does
  not touch the values).  Main result (`history_refactor`): after any history that the object
  survives, `refactor` returns exactly what `QDLDLFactorisation::new` returns on the user's matrix
  with the updated values — same error or same object, field by field (valid for every scalar
  type, in particular bit-identical at `Float`).
-/
import ClarabelProofs.Lemmas.QdldlNew

namespace Clarabel.Qdldl

/-- one call of the update / refactor API -/
inductive HistOp (α : Type) where
  | update (indices : Array Nat) (values : Array α)
  | scale (indices : Array Nat) (s : α)
  | offset (indices : Array Nat) (off : α) (signs : Array Int)
  | refactor

section general
variable {α : Type} [Add α] [Sub α] [Mul α] [Div α] [Neg α] [OfNat α 0] [OfNat α 1] [LT α]
  [DecidableLT α] [BEq α] [FloatLike α]

/-! ### the same updates on the user's value array -/

/-- `v[idx] = f (v[idx])` -/
def modifyA (v : Array α) (idx : Nat) (f : α → α) : MErr (Array α) := do
  let x ← getE v idx "A.nzval[idx]"
  setE v idx (f x) "A.nzval[idx]"

/-- `for (i, idx) in indices.enumerate() { v[idx] = values[i] }` -/
def updateA (v : Array α) (indices : Array Nat) (values : Array α) : MErr (Array α) :=
  (List.range indices.size).foldlM (fun v i => do
    let idx ← getE indices i
    let x ← getE values i "values[i]"
    setE v idx x "A.nzval[idx]") v

/-- `for idx in indices { v[idx] *= scale }` -/
def scaleA (v : Array α) (indices : Array Nat) (scale : α) : MErr (Array α) :=
  indices.toList.foldlM (fun v idx => modifyA v idx (· * scale)) v

/-- `for (idx, sign) in zip(indices, signs) { v[idx] ±= offset }` -/
def offsetA (v : Array α) (indices : Array Nat) (offset : α) (signs : Array Int) : MErr (Array α) := do
  if indices.size != signs.size then throw (.panic "offset_values: assert_eq!(indices.len(), signs.len())")
  (indices.toList.zip signs.toList).foldlM (fun v (is : Nat × Int) =>
    if is.2 > 0 then modifyA v is.1 (· + offset)
    else if is.2 < 0 then modifyA v is.1 (· - offset)
    else pure v) v

/-- one call, on the user's values -/
def stepA (v : Array α) : HistOp α → MErr (Array α)
  | .update i x => updateA v i x
  | .scale i s => scaleA v i s
  | .offset i o g => offsetA v i o g
  | .refactor => pure v

/-- one call, on the factorisation object -/
def stepF (F : Factorisation α) : HistOp α → MErr (Factorisation α)
  | .update i x => updateValues F i x
  | .scale i s => scaleValues F i s
  | .offset i o g => offsetValues F i o g
  | .refactor => refactor F

def runA (v : Array α) (ops : List (HistOp α)) : MErr (Array α) := ops.foldlM stepA v
def runF (F : Factorisation α) (ops : List (HistOp α)) : MErr (Factorisation α) := ops.foldlM stepF F

/-! ### the invariant -/

/-- `F` is an object whose `triuA / AtoPAPt` are the permuted matrix `A` with values `v`, whose
symbolic data and settings are those of `G`, and whose buffers have the sizes of `G`'s -/
structure HistInv (A : Csc α) (iperm : Array Nat) (G : Factorisation α) (v : Array α)
    (F : Factorisation α) : Prop where
  ps : permuteSymmetric { A with nzval := v } iperm = .ok (F.triuA, F.AtoPAPt)
  vsz : v.size = A.nzval.size
  perm : F.perm = G.perm
  iperm : F.iperm = G.iperm
  etree : F.etree = G.etree
  lnz : F.Lnz = G.Lnz
  rp : F.rp = G.rp
  lm : F.L.m = G.L.m
  ln : F.L.n = G.L.n
  lisz : F.L.rowval.size = G.L.rowval.size
  lxsz : F.L.nzval.size = G.L.nzval.size
  dsz : F.D.size = G.D.size
  disz : F.Dinv.size = G.Dinv.size

/-- `permute_symmetric` after overwriting one value = overwriting the mapped slot afterwards
(lemma form of `C12.update_commutes`) -/
theorem permuteSymmetric_set (A : Csc α) (iperm : Array Nat) (P : Csc α) (map : Array Nat)
    (h : permuteSymmetric A iperm = .ok (P, map)) (k : Nat) (hk : k < A.nzval.size) (x : α) :
    permuteSymmetric { A with nzval := A.nzval.set k x } iperm =
      .ok ({ P with nzval := P.nzval.setIfInBounds (map.getD k 0) x }, map) ∧
    map.size = A.nzval.size ∧ map.getD k 0 < P.nzval.size ∧ P.nzval.getD (map.getD k 0) 0 = A.nzval.getD k 0 := by
  obtain ⟨hsz, Pc, Pr, pos, hpat, hP, hmap⟩ := permuteSymmetric_ok A iperm P map h
  obtain ⟨hnd, hlen, hlt, _, _⟩ := permutePattern_ok _ _ _ _ _ _ _ hpat
  rw [hsz] at hlen hlt
  have hk' : k < pos.length := by omega
  have hwA : (!wellFormed A || A.m != A.n) = false ∧ (!A.isTriu) = false := by
    unfold permuteSymmetric at h
    simp only [bind, Except.bind, pure, Except.pure, throw, throwThe, MonadExceptOf.throw] at h
    split at h
    · cases h
    · rename_i hw
      split at h
      · cases h
      · rename_i ht
        exact ⟨by simpa using hw, by simpa using ht⟩
  have hwB : (!wellFormed { A with nzval := A.nzval.set k x } ||
      ({ A with nzval := A.nzval.set k x } : Csc α).m != ({ A with nzval := A.nzval.set k x } : Csc α).n) = false := by
    have : wellFormed { A with nzval := A.nzval.set k x } = wellFormed A := by simp [wellFormed]
    rw [this]; exact hwA.1
  have htB : (!({ A with nzval := A.nzval.set k x } : Csc α).isTriu) = false := hwA.2
  subst hP hmap
  refine ⟨?_, by simpa using hlen, ?_, ?_⟩
  · unfold permuteSymmetric
    simp only [bind, Except.bind, pure, Except.pure, throw, throwThe, MonadExceptOf.throw]
    rw [if_neg (by rw [hwB]; simp), if_neg (by rw [htB]; simp)]
    simp only [hpat, Array.size_set]
    congr 2
    have := scatter_set (Array.replicate A.nzval.size (0 : α)) pos A.nzval.toList hnd
      (by simpa using hlen) (by simpa using hlt) k hk' x
    simp only [Array.toList_set]
    rw [this]
    simp [hk']
  · simp only [scatter_size, Array.size_replicate]
    have : pos.toArray.getD k 0 = pos[k] := by simp [Array.getD_eq_getD_getElem?, hk']
    rw [this]; exact hlt _ (List.getElem_mem _)
  · have e : pos.toArray.getD k 0 = pos[k] := by simp [Array.getD_eq_getD_getElem?, hk']
    rw [e]
    have := scatter_get (Array.replicate A.nzval.size (0 : α)) pos A.nzval.toList hnd
      (by simpa using hlen) (by simpa using hlt) k hk'
    rw [Array.getD_eq_getD_getElem?, this]
    simp [Array.getD_eq_getD_getElem?, hk]

/-- writing `x` through the entry map keeps the invariant (values: `v[idx] := x`) -/
theorem HistInv.set {A : Csc α} {iperm : Array Nat} {G : Factorisation α} {v : Array α}
    {F : Factorisation α} (hI : HistInv A iperm G v F) (idx : Nat) (hidx : idx < v.size) (x : α) :
    F.AtoPAPt.getD idx 0 < F.triuA.nzval.size ∧ idx < F.AtoPAPt.size ∧
    F.triuA.nzval.getD (F.AtoPAPt.getD idx 0) 0 = v.getD idx 0 ∧
    HistInv A iperm G (v.set idx x hidx)
      { F with triuA := { F.triuA with nzval := F.triuA.nzval.setIfInBounds (F.AtoPAPt.getD idx 0) x } } := by
  obtain ⟨h1, h2, h3, h4⟩ := permuteSymmetric_set { A with nzval := v } iperm F.triuA F.AtoPAPt hI.ps idx hidx x
  refine ⟨h3, by rw [h2]; exact hidx, h4, ?_⟩
  exact { hI with ps := h1, vsz := by simpa using hI.vsz }

/-- `AtoPAPt` has one slot per stored entry -/
theorem HistInv.map_size {A : Csc α} {iperm : Array Nat} {G : Factorisation α} {v : Array α}
    {F : Factorisation α} (hI : HistInv A iperm G v F) : F.AtoPAPt.size = v.size := by
  obtain ⟨_, Pc, Pr, pos, hpat, _, hmap⟩ := permuteSymmetric_ok _ iperm F.triuA F.AtoPAPt hI.ps
  obtain ⟨_, hlen, _, _, _⟩ := permutePattern_ok _ _ _ _ _ _ _ hpat
  obtain ⟨hsz, _⟩ := permuteSymmetric_ok _ iperm F.triuA F.AtoPAPt hI.ps
  rw [hmap]
  simp only [List.size_toArray]
  rw [hlen]; exact hsz

/-- one `modifyEntry` on the object = one `modifyA` on the values -/
theorem modifyEntry_rel {A : Csc α} {iperm : Array Nat} {G : Factorisation α} {v : Array α}
    {F F' : Factorisation α} (hI : HistInv A iperm G v F) (idx : Nat) (f : α → α)
    (h : modifyEntry F idx f = .ok F') :
    ∃ v', modifyA v idx f = .ok v' ∧ HistInv A iperm G v' F' := by
  have hms := hI.map_size
  by_cases hidx : idx < v.size
  · obtain ⟨h1, h2, h3, h4⟩ := hI.set idx hidx (f (v.getD idx 0))
    refine ⟨v.set idx (f (v.getD idx 0)) hidx, ?_, ?_⟩
    · unfold modifyA
      rw [getE_getD _ _ _ 0 hidx]
      simp only [bind, Except.bind, setE_ok _ _ _ _ hidx]
    · unfold modifyEntry at h
      rw [getE_getD _ _ _ 0 h2] at h
      simp only [bind, Except.bind] at h
      rw [getE_getD _ _ _ 0 h1] at h
      simp only [setE_ok _ _ _ _ h1, pure, Except.pure] at h
      have : F' = _ := (Except.ok.inj h).symm
      rw [this, h3, set_eq_setIfInBounds F.triuA.nzval _ _ h1]
      exact h4
  · exfalso
    unfold modifyEntry at h
    have : F.AtoPAPt[idx]? = none := Array.getElem?_eq_none (by omega)
    simp only [getE, this, bind, Except.bind, throw, throwThe, MonadExceptOf.throw] at h
    cases h

/-- generic: a relation preserved by every step of two monadic folds is preserved by the folds -/
theorem foldlM_rel {σ τ β : Type} (f : σ → β → MErr σ) (g : τ → β → MErr τ) (R : τ → σ → Prop)
    (l : List β) (hstep : ∀ b ∈ l, ∀ s t s', R t s → f s b = .ok s' → ∃ t', g t b = .ok t' ∧ R t' s')
    (s : σ) (t : τ) (hR : R t s) (s' : σ) (h : l.foldlM f s = .ok s') :
    ∃ t', l.foldlM g t = .ok t' ∧ R t' s' := by
  induction l generalizing s t with
  | nil =>
    have : s = s' := by simpa [pure, Except.pure] using h
    subst this
    exact ⟨t, rfl, hR⟩
  | cons b r ih =>
    rw [List.foldlM_cons] at h
    cases h1 : f s b with
    | error e => rw [h1] at h; cases h
    | ok s1 =>
      rw [h1] at h
      obtain ⟨t1, ht1, hR1⟩ := hstep b (by simp) s t s1 hR h1
      obtain ⟨t', ht', hR'⟩ := ih (fun b hb => hstep b (List.mem_cons_of_mem _ hb)) s1 t1 hR1 h
      refine ⟨t', ?_, hR'⟩
      rw [List.foldlM_cons, ht1]; exact ht'

theorem updateValues_rel {A : Csc α} {iperm : Array Nat} {G : Factorisation α} {v : Array α}
    {F F' : Factorisation α} (hI : HistInv A iperm G v F) (indices : Array Nat) (values : Array α)
    (h : updateValues F indices values = .ok F') :
    ∃ v', updateA v indices values = .ok v' ∧ HistInv A iperm G v' F' := by
  unfold updateValues at h
  unfold updateA
  refine foldlM_rel _ _ (fun v F => HistInv A iperm G v F) _ ?_ F v hI F' h
  intro i _ F1 v1 F2 hI1 hstep
  cases hidx : getE indices i with
  | error e => simp only [hidx, bind, Except.bind] at hstep; cases hstep
  | ok idx =>
    simp only [hidx, bind, Except.bind] at hstep ⊢
    have hms := hI1.map_size
    by_cases hlt : idx < v1.size
    · obtain ⟨h1, h2, h3, _⟩ := hI1.set idx hlt (0 : α)
      rw [getE_getD _ _ _ 0 h2] at hstep
      simp only at hstep
      cases hval : getE values i "update_values: values[i]" with
      | error e => rw [hval] at hstep; cases hstep
      | ok x =>
        have hval' : getE values i "values[i]" = .ok x := by
          unfold getE at hval ⊢
          split at hval
          · exact hval
          · cases hval
        rw [hval] at hstep
        simp only [setE_ok _ _ _ _ h1, pure, Except.pure] at hstep
        obtain ⟨_, _, _, h4⟩ := hI1.set idx hlt x
        refine ⟨v1.set idx x hlt, ?_, ?_⟩
        · rw [hval']; simp only [setE_ok _ _ _ _ hlt]
        · have : F2 = _ := (Except.ok.inj hstep).symm
          rw [this, set_eq_setIfInBounds F1.triuA.nzval _ _ h1]
          exact h4
    · exfalso
      have : F1.AtoPAPt[idx]? = none := Array.getElem?_eq_none (by omega)
      simp only [getE, this, throw, throwThe, MonadExceptOf.throw] at hstep
      cases hstep

theorem scaleValues_rel {A : Csc α} {iperm : Array Nat} {G : Factorisation α} {v : Array α}
    {F F' : Factorisation α} (hI : HistInv A iperm G v F) (indices : Array Nat) (s : α)
    (h : scaleValues F indices s = .ok F') :
    ∃ v', scaleA v indices s = .ok v' ∧ HistInv A iperm G v' F' := by
  unfold scaleValues at h
  unfold scaleA
  exact foldlM_rel _ _ (fun v F => HistInv A iperm G v F) _
    (fun idx _ F1 v1 F2 hI1 hstep => modifyEntry_rel hI1 idx _ hstep) F v hI F' h

theorem offsetValues_rel {A : Csc α} {iperm : Array Nat} {G : Factorisation α} {v : Array α}
    {F F' : Factorisation α} (hI : HistInv A iperm G v F) (indices : Array Nat) (off : α)
    (signs : Array Int) (h : offsetValues F indices off signs = .ok F') :
    ∃ v', offsetA v indices off signs = .ok v' ∧ HistInv A iperm G v' F' := by
  unfold offsetValues at h
  unfold offsetA
  by_cases hsz : (indices.size != signs.size) = true
  · simp only [hsz, ↓reduceIte, bind, Except.bind, throw, throwThe, MonadExceptOf.throw] at h
    cases h
  · simp only [hsz, Bool.false_eq_true, ↓reduceIte, bind, Except.bind, pure, Except.pure] at h ⊢
    refine foldlM_rel _ _ (fun v F => HistInv A iperm G v F) _ ?_ F v hI F' h
    intro is _ F1 v1 F2 hI1 hstep
    by_cases h1 : is.2 > 0
    · simp only [h1, ↓reduceIte] at hstep ⊢
      exact modifyEntry_rel hI1 is.1 _ hstep
    · by_cases h2 : is.2 < 0
      · simp only [h1, h2, ↓reduceIte] at hstep ⊢
        exact modifyEntry_rel hI1 is.1 _ hstep
      · simp only [h1, h2, ↓reduceIte] at hstep ⊢
        have : F1 = F2 := Except.ok.inj hstep
        subst this
        exact ⟨v1, rfl, hI1⟩

/-! ### `refactor` inside a history, and the final `refactor` -/

theorem InputOK.with_vals {A : Csc α} (hA : InputOK A) (v : Array α) (hv : v.size = A.nzval.size) :
    InputOK ({ A with nzval := v } : Csc α) := by
  refine ⟨hA.sq, hA.tri, hA.p0, hA.plast, by rw [hv]; exact hA.vsz, ?_, hA.triu⟩
  have := hA.wf
  unfold wellFormed at this ⊢
  simp only [hv]
  exact this

/-- the pattern part of `permute_symmetric` does not depend on the values -/
theorem permuteSymmetric_pattern_eq (A : Csc α) (v : Array α) (iperm : Array Nat) (P P' : Csc α)
    (map map' : Array Nat) (h : permuteSymmetric A iperm = .ok (P, map))
    (h' : permuteSymmetric { A with nzval := v } iperm = .ok (P', map')) :
    P'.m = P.m ∧ P'.n = P.n ∧ P'.colptr = P.colptr ∧ P'.rowval = P.rowval ∧ map' = map := by
  obtain ⟨_, Pc, Pr, pos, hpat, hP, hmap⟩ := permuteSymmetric_ok A iperm P map h
  obtain ⟨_, Pc', Pr', pos', hpat', hP', hmap'⟩ := permuteSymmetric_ok _ iperm P' map' h'
  have : (Pc', Pr', pos') = (Pc, Pr, pos) := by
    have e : permutePattern A.n A.colptr A.rowval iperm = .ok (Pc', Pr', pos') := hpat'
    rw [hpat] at e
    exact (Except.ok.inj e).symm
  simp only [Prod.mk.injEq] at this
  obtain ⟨e1, e2, e3⟩ := this
  subst hP hP' hmap hmap' e1 e2 e3
  exact ⟨rfl, rfl, rfl, rfl, rfl⟩

/-- the data of a valid call of `new`, as produced by `new_stages` -/
structure Stages (A : Csc α) (perm iperm : Array Nat) (dsigns : Option (Array Int)) (P : Csc α)
    (map : Array Nat) (Ds : Array Int) (es : EtreeState) : Prop where
  inp : InputOK A
  nd : NoDupCols A.colptr A.rowval
  hn : 0 < A.n
  chk : checkStructure A = .ok ()
  inv : Perm.invperm perm = .ok iperm
  pair : InvPair A.n (fun i => perm.getD i 0) (fun j => iperm.getD j 0)
  ps : permuteSymmetric A iperm = .ok (P, map)
  ds : dsignsOf A.m dsigns perm = .ok Ds
  et : etree P.m P.colptr P.rowval = .ok es
  pm : P.m = A.n
  pn : P.n = A.n
  tri : TriuCsc A.n P.colptr P.rowval
  einv : EtreeInv (Apat P.colptr P.rowval) A.n A.n es
  dsz : Ds.size = A.n

/-- under the invariant the object is ready for a numeric factorisation -/
theorem HistInv.ready {A : Csc α} {perm iperm : Array Nat} {dsigns : Option (Array Int)} {P : Csc α}
    {map : Array Nat} {Ds : Array Int} {es : EtreeState} (S : Stages A perm iperm dsigns P map Ds es)
    (rp : RegParams α) (hrp : rp.Dsigns = Ds) (lg : Bool) {v : Array α} {F : Factorisation α}
    (hI : HistInv A iperm (freshObj A.m perm iperm P map es rp lg) v F) :
    F.triuA.n = A.n ∧ F.triuA.m = A.n ∧ F.triuA.colptr = P.colptr ∧ F.triuA.rowval = P.rowval ∧
    F.AtoPAPt = map ∧
    FCtx A.n P.colptr P.rowval F.etree F.Lnz ∧
    Represents A.n P.colptr P.rowval F.triuA.nzval (denseOf P.colptr P.rowval F.triuA.nzval) ∧
    F.L.rowval.size = LpOf F.Lnz A.n ∧ F.L.nzval.size = F.L.rowval.size ∧ F.D.size = A.n ∧
    F.Dinv.size = A.n ∧ (F.rp.enable = true → A.n ≤ F.rp.Dsigns.size) := by
  obtain ⟨e1, e2, e3, e4, e5⟩ := permuteSymmetric_pattern_eq A v iperm P F.triuA map F.AtoPAPt S.ps hI.ps
  have hAv := S.inp.with_vals v hI.vsz
  obtain ⟨_, hRep, _⟩ := permuteSymmetric_represents ({ A with nzval := v } : Csc α) hAv S.nd iperm
    (fun i => perm.getD i 0) S.pair F.triuA F.AtoPAPt hI.ps
  have C : FCtx A.n P.colptr P.rowval es.etree es.Lnz := FCtx.of_etree S.hn S.tri S.einv
  have hsum : LpOf es.Lnz A.n = es.Lnz.toList.foldl (· + ·) 0 := by
    have := cumsum_last es.Lnz
    rw [C.lsz] at this
    exact this
  have hE : F.etree = es.etree := hI.etree
  have hL : F.Lnz = es.Lnz := hI.lnz
  rw [e2, e3, e4, S.pn] at hRep
  refine ⟨by rw [e2, S.pn], by rw [e1, S.pm], e3, e4, e5, by rw [hE, hL]; exact C, hRep, ?_, ?_, ?_, ?_, ?_⟩
  · rw [hI.lisz, hL, hsum]; simp [freshObj]
  · rw [hI.lxsz, hI.lisz]; simp [freshObj]
  · rw [hI.dsz]; simp [freshObj, S.inp.sq]
  · rw [hI.disz]; simp [freshObj, S.inp.sq]
  · intro _
    rw [hI.rp]
    show A.n ≤ rp.Dsigns.size
    rw [hrp, S.dsz]

/-- `refactor` keeps the invariant (it only rewrites `L / D / Dinv` and the counters) -/
theorem refactor_rel {A : Csc α} {perm iperm : Array Nat} {dsigns : Option (Array Int)} {P : Csc α}
    {map : Array Nat} {Ds : Array Int} {es : EtreeState} (S : Stages A perm iperm dsigns P map Ds es)
    (rp : RegParams α) (hrp : rp.Dsigns = Ds) (lg : Bool) {v : Array α} {F F' : Factorisation α}
    (hI : HistInv A iperm (freshObj A.m perm iperm P map es rp lg) v F) (h : refactor F = .ok F') :
    HistInv A iperm (freshObj A.m perm iperm P map es rp lg) v F' := by
  obtain ⟨r1, r2, r3, r4, r5, C, hRep, hLi, hLx, hDs, hDi, hsg⟩ := hI.ready S rp hrp lg
  unfold refactor at h
  rw [factor_false_eq] at h
  simp only at h
  rw [r1, r3, r4] at h
  cases hs : factorInner A.n P.colptr P.rowval F.triuA.nzval F.L.rowval F.L.nzval F.D F.Dinv F.Lnz F.etree
      false F.rp with
  | error e => rw [hs] at h; cases h
  | ok s =>
    rw [hs] at h
    have hF' : F' = _ := (Except.ok.inj h).symm
    have hR := (factorInner_struct C F.triuA.nzval _ hRep F.L.rowval F.L.nzval F.D F.Dinv (by rw [hLi])
      hLx hDs hDi F.rp hsg).2 s hs
    subst hF'
    exact { ps := hI.ps, vsz := hI.vsz, perm := hI.perm, iperm := hI.iperm, etree := hI.etree, lnz := hI.lnz,
            rp := hI.rp, lm := hI.lm, ln := hI.ln,
            lisz := by show s.Li.size = _; rw [hR.lisz]; exact hI.lisz,
            lxsz := by show s.Lx.size = _; rw [hR.lxsz, ← hLx]; exact hI.lxsz,
            dsz := by show s.D.size = _; rw [hR.dsz, ← hDs]; exact hI.dsz,
            disz := by show s.Dinv.size = _; rw [hR.disz, ← hDi]; exact hI.disz }

/-- every call of the API keeps the invariant and is mirrored on the user's values -/
theorem stepF_rel {A : Csc α} {perm iperm : Array Nat} {dsigns : Option (Array Int)} {P : Csc α}
    {map : Array Nat} {Ds : Array Int} {es : EtreeState} (S : Stages A perm iperm dsigns P map Ds es)
    (rp : RegParams α) (hrp : rp.Dsigns = Ds) (lg : Bool) {v : Array α} {F F' : Factorisation α}
    (hI : HistInv A iperm (freshObj A.m perm iperm P map es rp lg) v F) (op : HistOp α)
    (h : stepF F op = .ok F') :
    ∃ v', stepA v op = .ok v' ∧ HistInv A iperm (freshObj A.m perm iperm P map es rp lg) v' F' := by
  cases op with
  | update i x => exact updateValues_rel hI i x h
  | scale i s => exact scaleValues_rel hI i s h
  | offset i o g => exact offsetValues_rel hI i o g h
  | refactor => exact ⟨v, rfl, refactor_rel S rp hrp lg hI h⟩

/-- **after any history, `refactor` = `new` on the updated matrix** (object-level form) -/
theorem refactor_eq_new_of_inv {A : Csc α} {perm iperm : Array Nat} {dsigns : Option (Array Int)}
    {P : Csc α} {map : Array Nat} {Ds : Array Int} {es : EtreeState}
    (S : Stages A perm iperm dsigns P map Ds es) (enable : Bool) (eps delta : α) (lg : Bool)
    {v : Array α} {F : Factorisation α}
    (hI : HistInv A iperm (freshObj A.m perm iperm P map es
      { Dsigns := Ds, enable := enable, eps := eps, delta := delta } lg) v F) :
    refactor F = new { A with nzval := v } perm dsigns enable eps delta false := by
  set rp : RegParams α := { Dsigns := Ds, enable := enable, eps := eps, delta := delta } with hrpdef
  obtain ⟨r1, r2, r3, r4, r5, C, hRep, hLi, hLx, hDs, hDi, hsg⟩ := hI.ready S rp rfl lg
  have hps' : permuteSymmetric ({ A with nzval := v } : Csc α) iperm = .ok (F.triuA, F.AtoPAPt) := hI.ps
  have het' : etree F.triuA.m F.triuA.colptr F.triuA.rowval = .ok es := by
    rw [r2, r3, r4, ← S.pm]; exact S.et
  rw [new_eq ({ A with nzval := v } : Csc α) perm iperm dsigns enable eps delta false F.triuA F.AtoPAPt Ds es
    S.chk S.inv hps' S.ds het']
  -- the object `refactor` works on is the fresh object with `F`'s buffers
  have hobj : ({ F with isSymbolic := false } : Factorisation α) =
      { (freshObj A.m perm iperm F.triuA F.AtoPAPt es rp false) with
        L := { (freshObj A.m perm iperm F.triuA F.AtoPAPt es rp false).L with
               colptr := F.L.colptr, rowval := F.L.rowval, nzval := F.L.nzval },
        D := F.D, Dinv := F.Dinv, positiveInertia := F.positiveInertia,
        regularizeCount := F.regularizeCount } := by
    have e1 := hI.perm; have e2 := hI.iperm; have e3 := hI.etree; have e4 := hI.lnz; have e5 := hI.rp
    have e6 := hI.lm; have e7 := hI.ln
    obtain ⟨p, ip, ⟨lm, ln, lc, lr, lx⟩, D, Di, et, lz, tA, mp, rp', pi, rc, sy⟩ := F
    simp only [freshObj] at e1 e2 e3 e4 e5 e6 e7
    subst e1 e2 e3 e4 e5 e6 e7
    rfl
  unfold refactor
  rw [hobj]
  have C' : FCtx (freshObj A.m perm iperm F.triuA F.AtoPAPt es rp false).triuA.n
      (freshObj A.m perm iperm F.triuA F.AtoPAPt es rp false).triuA.colptr
      (freshObj A.m perm iperm F.triuA F.AtoPAPt es rp false).triuA.rowval
      (freshObj A.m perm iperm F.triuA F.AtoPAPt es rp false).etree
      (freshObj A.m perm iperm F.triuA F.AtoPAPt es rp false).Lnz := by
    show FCtx F.triuA.n F.triuA.colptr F.triuA.rowval es.etree es.Lnz
    rw [r1, r3, r4]
    exact FCtx.of_etree S.hn S.tri S.einv
  have hsum : LpOf es.Lnz A.n = es.Lnz.toList.foldl (· + ·) 0 := by
    have := cumsum_last es.Lnz
    rw [(FCtx.of_etree S.hn S.tri S.einv).lsz] at this
    exact this
  have hL : F.Lnz = es.Lnz := hI.lnz
  exact factor_buffers_irrelevant (freshObj A.m perm iperm F.triuA F.AtoPAPt es rp false)
    (denseOf P.colptr P.rowval F.triuA.nzval) C'
    (by show Represents F.triuA.n F.triuA.colptr F.triuA.rowval F.triuA.nzval _
        rw [r1, r3, r4]; exact hRep)
    F.L.colptr F.L.rowval F.L.nzval F.D F.Dinv F.positiveInertia F.regularizeCount
    (by show (Array.replicate _ 0).size = LpOf es.Lnz F.triuA.n
        rw [r1, hsum]; simp)
    (by simp [freshObj])
    (by show (Array.replicate A.m (0 : α)).size = F.triuA.n
        rw [r1]; simp [S.inp.sq])
    (by show (Array.replicate A.m (0 : α)).size = F.triuA.n
        rw [r1]; simp [S.inp.sq])
    (by show F.L.rowval.size = (Array.replicate _ 0).size
        rw [hLi, hL, hsum]; simp)
    (by show F.L.nzval.size = (Array.replicate _ 0).size
        rw [hLx, hLi, hL, hsum]; simp)
    (by show F.D.size = F.triuA.n
        rw [hDs, r1])
    (by show F.Dinv.size = F.triuA.n
        rw [hDi, r1])
    (by intro _
        show F.triuA.n ≤ Ds.size
        rw [r1, S.dsz])

end general

end Clarabel.Qdldl
