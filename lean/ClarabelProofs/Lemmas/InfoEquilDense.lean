/-
  C01/C02 round 3 — bridge between C10's equilibration invariant (`Equil.Inv`, stated on the
  stored CSC entries) and the dense `Fin`-indexed problem of `InfoDense.lean` / `InfoUser.lean`:

    problemOf (equilibrated data) = (problemOf (original data)).scaled (scalingOf d e c)

  plus the shape bookkeeping (`equilibrate_shapes`) and positivity of the scalings
  (`equilibrate_pos`).
-/
import ClarabelModel.Equil
import ClarabelProofs.Lemmas.Equil
import ClarabelProofs.Lemmas.CscBasic
import ClarabelProofs.Lemmas.InfoUser
import ClarabelProofs.Props.C10
import Mathlib.Tactic.Ring

namespace Clarabel.InfoUser
open Clarabel Clarabel.Dense Clarabel.Equil

variable {α : Type}

/-! ### the column index of a stored entry -/

/-- prefix sums of the per-column counts `f` -/
def cnt (f : ℕ → ℕ) (n : ℕ) : ℕ := ((List.range n).map f).sum

theorem cnt_succ (f : ℕ → ℕ) (n : ℕ) : cnt f (n + 1) = cnt f n + f n := by
  simp [cnt, List.range_succ]

theorem cnt_mono (f : ℕ → ℕ) {a b : ℕ} (h : a ≤ b) : cnt f a ≤ cnt f b := by
  induction h with
  | refl => exact le_refl _
  | step _ ih => rw [cnt_succ]; omega

theorem length_flatMap_replicate (f : ℕ → ℕ) (n : ℕ) :
    ((List.range n).flatMap (fun j => List.replicate (f j) j)).length = cnt f n := by
  induction n with
  | zero => simp [cnt]
  | succ n ih =>
    rw [List.range_succ, List.flatMap_append, List.length_append, ih, cnt_succ]
    simp

/-- in the expansion "column `j` repeated `f j` times", the positions
`[cnt f j, cnt f (j+1))` hold `j` -/
theorem getElem?_flatMap_replicate (f : ℕ → ℕ) (n j t : ℕ) (hj : j < n)
    (h1 : cnt f j ≤ t) (h2 : t < cnt f (j + 1)) :
    ((List.range n).flatMap (fun j => List.replicate (f j) j))[t]? = some j := by
  induction n with
  | zero => omega
  | succ n ih =>
    rw [List.range_succ, List.flatMap_append]
    by_cases hjn : j < n
    · have : cnt f (j + 1) ≤ cnt f n := cnt_mono f (by omega)
      rw [List.getElem?_append_left (by rw [length_flatMap_replicate]; omega)]
      exact ih hjn
    · have hjn' : j = n := by omega
      subst hjn'
      rw [List.getElem?_append_right (by rw [length_flatMap_replicate]; exact h1),
        length_flatMap_replicate]
      rw [cnt_succ] at h2
      have h3 : t - cnt f j < f j := by omega
      simp [h3]

/-- the part of `Csc.wellFormed` that the column view needs -/
structure ColptrOk (M : Csc α) : Prop where
  size : M.colptr.size = M.n + 1
  zero : M.colptr.getD 0 0 = 0
  mono : ∀ k, k < M.n → M.colptr.getD k 0 ≤ M.colptr.getD (k + 1) 0
  len : M.rowval.size = M.nzval.size

theorem colptrOk_of_wellFormed (M : Csc α) (h : M.wellFormed = true) : ColptrOk M := by
  simp only [Csc.wellFormed, Bool.and_eq_true, beq_iff_eq, Bool.not_eq_true'] at h
  obtain ⟨⟨⟨⟨⟨⟨⟨hsz, h0⟩, hmono⟩, _⟩, hlen⟩, _⟩, _⟩, _⟩ := h
  refine ⟨hsz, h0, ?_, hlen⟩
  intro k hk
  rw [Csc.anyAdjacent_false_iff, Csc.noBadAdjacent_iff_getElem] at hmono
  have := hmono k (by simp; omega)
  rw [Csc.toList_getElem_eq_getD _ k (by omega), Csc.toList_getElem_eq_getD _ (k + 1) (by omega)] at this
  simpa using this

theorem cnt_colptr (M : Csc α) (h : ColptrOk M) (j : ℕ) (hj : j ≤ M.n) :
    cnt (fun k => M.colptr.getD (k + 1) 0 - M.colptr.getD k 0) j = M.colptr.getD j 0 := by
  induction j with
  | zero => simp [cnt, h.zero]
  | succ j ih =>
    rw [cnt_succ, ih (by omega)]
    have := h.mono j (by omega)
    omega

/-- **column of a stored entry**: in a well-formed matrix the stored entries
`colptr[j] ≤ t < colptr[j+1]` carry the column index `j` in the entry view (`Csc.colIdx`). -/
theorem colIdx_getD (M : Csc α) (h : ColptrOk M) (j t : ℕ) (hj : j < M.n)
    (h1 : M.colptr.getD j 0 ≤ t) (h2 : t < M.colptr.getD (j + 1) 0) :
    M.colIdx.getD t 0 = j := by
  unfold Csc.colIdx
  rw [Array.getD_eq_getD_getElem?, List.getElem?_toArray,
    getElem?_flatMap_replicate _ M.n j t hj
      (by rw [cnt_colptr M h j (by omega)]; exact h1)
      (by rw [cnt_colptr M h (j + 1) (by omega)]; exact h2)]
  rfl

/-! ### the column view as a map over positions -/

theorem extract_toList_eq_map {β : Type} (a : Array β) (lo hi : ℕ) (z : β) :
    (a.extract lo hi).toList =
      (List.range (min hi a.size - lo)).map (fun r => a.getD (lo + r) z) := by
  apply List.ext_getElem
  · simp; omega
  · intro k h1 h2
    simp only [Array.length_toList, Array.size_extract] at h1
    simp only [Array.getElem_toList, Array.getElem_extract, List.getElem_map, List.getElem_range]
    rw [Array.getD_eq_getD_getElem?, Array.getElem?_eq_getElem (by omega)]
    rfl

/-- column `j` as a map over the offsets `r` of its stored entries `colptr[j] + r` -/
theorem col_eq_map (M : Csc α) (j : ℕ) (z : α) (hlen : M.rowval.size = M.nzval.size) :
    M.col j = (List.range (min (M.colptr.getD (j + 1) 0) M.nzval.size - M.colptr.getD j 0)).map
      (fun r => (M.rowval.getD (M.colptr.getD j 0 + r) 0, M.nzval.getD (M.colptr.getD j 0 + r) z)) := by
  unfold Csc.col
  simp only []
  rw [extract_toList_eq_map M.rowval _ _ 0, extract_toList_eq_map M.nzval _ _ z, hlen, List.zip_map']

/-! ### a factor that is constant on the filtered entries pulls out of the fold -/

section field
variable [Field α]

theorem foldl_filter_scale (L : List ℕ) (f1 f2 : ℕ → ℕ × α) (i : ℕ) (k : α)
    (hr : ∀ t ∈ L, (f2 t).1 = (f1 t).1)
    (hv : ∀ t ∈ L, (f1 t).1 = i → (f2 t).2 = k * (f1 t).2) (a : α) :
    (((L.map f2).filter (fun e => e.1 == i)).foldl (fun acc e => acc + e.2) (k * a)) =
      k * (((L.map f1).filter (fun e => e.1 == i)).foldl (fun acc e => acc + e.2) a) := by
  induction L generalizing a with
  | nil => simp
  | cons t L ih =>
    have hr' : ∀ t ∈ L, (f2 t).1 = (f1 t).1 := fun u hu => hr u (by simp [hu])
    have hv' : ∀ t ∈ L, (f1 t).1 = i → (f2 t).2 = k * (f1 t).2 := fun u hu => hv u (by simp [hu])
    simp only [List.map_cons, List.filter_cons]
    rw [hr t (by simp)]
    by_cases hi : (f1 t).1 = i
    · simp only [hi, beq_self_eq_true, if_true, List.foldl_cons]
      rw [hv t (by simp) hi, ← mul_add]
      exact ih hr' hv' _
    · have : ((f1 t).1 == i) = false := by simpa using hi
      simp only [this, Bool.false_eq_true, if_false]
      exact ih hr' hv' _

/-- **dense form of an entrywise scaling**: if `N` has the sparsity pattern of the well-formed
`M` and every stored entry of `N` is the entry of `M` times a factor `g row col` that depends
on its position only, then `N.toDense i j = g i j * M.toDense i j`. -/
theorem toDense_scaled (M N : Csc α) (hs : SameShape M N) (hwf : M.wellFormed = true)
    (g : ℕ → ℕ → α)
    (hv : ∀ t, t < M.nzval.size →
      N.nzval.getD t 0 = g (M.rowval.getD t 0) (M.colIdx.getD t 0) * M.nzval.getD t 0)
    (i j : ℕ) (hj : j < M.n) : N.toDense i j = g i j * M.toDense i j := by
  have hok := colptrOk_of_wellFormed M hwf
  unfold Csc.toDense
  rw [col_eq_map N j 0 (by rw [hs.rowval, hs.size]; exact hok.len), col_eq_map M j 0 hok.len,
    hs.colptr, hs.rowval, hs.size]
  have key := foldl_filter_scale
    (List.range (min (M.colptr.getD (j + 1) 0) M.nzval.size - M.colptr.getD j 0))
    (fun r => (M.rowval.getD (M.colptr.getD j 0 + r) 0, M.nzval.getD (M.colptr.getD j 0 + r) 0))
    (fun r => (M.rowval.getD (M.colptr.getD j 0 + r) 0, N.nzval.getD (M.colptr.getD j 0 + r) 0))
    i (g i j) (fun _ _ => rfl) ?_ 0
  · rw [mul_zero] at key
    exact key
  · intro r hr hrow
    simp only [List.mem_range] at hr
    simp only at hrow ⊢
    rw [hv _ (by omega), hrow, colIdx_getD M hok j _ hj (by omega) (by omega)]

/-- **item 1, `A`**: dense form of `Inv.valA` -/
theorem toDense_lrscaled (M N : Csc α) (e d : Array α) (hs : SameShape M N)
    (hwf : M.wellFormed = true)
    (hv : ∀ t, t < M.nzval.size →
      N.nzval.getD t 0 = e.getD (M.rowval.getD t 0) 1 * M.nzval.getD t 0 * d.getD (M.colIdx.getD t 0) 1)
    (i j : ℕ) (hj : j < M.n) :
    N.toDense i j = e.getD i 1 * M.toDense i j * d.getD j 1 := by
  rw [toDense_scaled M N hs hwf (fun r c => e.getD r 1 * d.getD c 1)
    (fun t ht => by rw [hv t ht]; ring) i j hj]
  ring

/-- **item 1, `P`**: dense form of `Inv.valP` -/
theorem toDense_clrscaled (M N : Csc α) (c : α) (d : Array α) (hs : SameShape M N)
    (hwf : M.wellFormed = true)
    (hv : ∀ t, t < M.nzval.size →
      N.nzval.getD t 0 = c * d.getD (M.rowval.getD t 0) 1 * M.nzval.getD t 0 * d.getD (M.colIdx.getD t 0) 1)
    (i j : ℕ) (hj : j < M.n) :
    N.toDense i j = c * d.getD i 1 * M.toDense i j * d.getD j 1 := by
  rw [toDense_scaled M N hs hwf (fun r cc => c * d.getD r 1 * d.getD cc 1)
    (fun t ht => by rw [hv t ht]; ring) i j hj]
  ring

end field

/-! ### through `equilibrate` -/

/-- the conjuncts of the executable guard `shapesOk` -/
theorem shapesOk_fields (o : ProblemData α) (h : shapesOk o = true) :
    o.P.wellFormed = true ∧ o.A.wellFormed = true ∧ o.P.m = o.n ∧ o.P.n = o.n ∧
    o.A.m = o.m ∧ o.A.n = o.n ∧ o.q.size = o.n ∧ o.b.size = o.m ∧
    o.equilibration.d.size = o.n ∧ o.equilibration.dinv.size = o.n ∧
    o.equilibration.e.size = o.m ∧ o.equilibration.einv.size = o.m := by
  simp only [shapesOk, Bool.and_eq_true, beq_iff_eq] at h
  obtain ⟨⟨⟨⟨⟨⟨⟨⟨⟨⟨⟨hP, hA⟩, hPm⟩, hPn⟩, hAm⟩, hAn⟩, hq⟩, hb⟩, h1⟩, h2⟩, h3⟩, h4⟩ := h
  exact ⟨hP, hA, hPm, hPn, hAm, hAn, hq, hb, h1, h2, h3, h4⟩

/-- the sparsity pattern carries the column-wise canonical form -/
theorem canonical_of_sameShape {M N : Csc α} (hs : SameShape M N) (hM : C16.Canonical M) :
    C16.Canonical N := by
  refine ⟨?_, ?_, ?_, ?_, ?_, ?_⟩
  · rw [hs.rowval, hs.size]; exact hM.len_eq
  · rw [hs.colptr, hs.n]; exact hM.colptr_size
  · rw [hs.colptr, hs.n, hs.rowval]; exact hM.colptr_last
  · rw [hs.colptr]; exact hM.colptr_mono
  · intro j hj
    have : N.colRows j = M.colRows j := by unfold Csc.colRows; rw [hs.rowval, hs.colptr]
    rw [this]
    exact hM.rows_sorted j (by rw [← hs.n]; exact hj)
  · rw [hs.rowval, hs.m]; exact hM.rows_bound

section main
variable [Field α] [LinearOrder α] [IsStrictOrderedRing α] [FloatLike α]

/-- [F] **item 2 — equilibration is the dense change of variables**: the data `equilibrate`
returns mean, as a dense problem, the original dense problem scaled by the `d`, `e`, `c` it
returns: `P̂ = c·D·P·D` (on the symmetric matrix the triangle stands for), `q̂ = c·D·q`,
`Â = E·A·D`, `b̂ = E·b`. -/
theorem equilibrate_dense (dt dt' : ProblemData α) (cones : List (ConeT α)) (s : Equil.Settings α)
    (hfresh : dt.equilibration = EquilData.new dt.n dt.m)
    (hshape : Equil.shapesOk dt = true)
    (h : Equil.equilibrate dt cones s = .ok dt') :
    problemOf dt'.P dt'.q dt'.A dt'.b dt.n dt.m
      = (problemOf dt.P dt.q dt.A dt.b dt.n dt.m).scaled (scalingOf dt'.equilibration dt.n dt.m) := by
  have hInv := C10.scaled_data dt dt' cones s hfresh h
  obtain ⟨hP, hA, hPm, hPn, hAm, hAn, hq, hb, -⟩ := shapesOk_fields dt hshape
  have keyP : ∀ i j : ℕ, j < dt.n → dt'.P.toDense i j =
      dt'.equilibration.c * dt'.equilibration.d.getD i 1 * dt.P.toDense i j *
        dt'.equilibration.d.getD j 1 := fun i j hj =>
    toDense_clrscaled dt.P dt'.P _ _ hInv.shP hP hInv.valP i j (by omega)
  have keyA : ∀ i j : ℕ, j < dt.n → dt'.A.toDense i j =
      dt'.equilibration.e.getD i 1 * dt.A.toDense i j * dt'.equilibration.d.getD j 1 := fun i j hj =>
    toDense_lrscaled dt.A dt'.A _ _ hInv.shA hA hInv.valA i j (by omega)
  unfold problemOf Problem.scaled scalingOf
  simp only [Problem.mk.injEq]
  refine ⟨?_, ?_, ?_, ?_⟩
  · funext i j
    simp only [symFn, vecFnD]
    by_cases hij : (i : ℕ) = (j : ℕ)
    · rw [if_pos hij, if_pos hij, keyP i i i.isLt, ← hij]
    · rw [if_neg hij, if_neg hij, keyP i j j.isLt, keyP j i i.isLt]
      ring
  · funext j
    simp only [vecFn, vecFnD]
    exact hInv.valq j (by rw [hq]; exact j.isLt)
  · funext i j
    simp only [matFn, vecFnD]
    exact keyA i j j.isLt
  · funext i
    simp only [vecFn, vecFnD]
    exact hInv.valb i (by rw [hb]; exact i.isLt)

/-- [F] **item 3 — shapes and bookkeeping** of what `equilibrate` returns: dimensions and
vector lengths are those of the input, `dinv`, `einv` are the entrywise reciprocals of `d`, `e`
(also when equilibration is disabled: fresh data carry all-ones), and the column-wise
canonical form of `P` and `A` is kept (same sparsity pattern). -/
theorem equilibrate_shapes (dt dt' : ProblemData α) (cones : List (ConeT α)) (s : Equil.Settings α)
    (hfresh : dt.equilibration = EquilData.new dt.n dt.m)
    (hshape : Equil.shapesOk dt = true)
    (h : Equil.equilibrate dt cones s = .ok dt') :
    dt'.P.n = dt.n ∧ dt'.P.m = dt.n ∧ dt'.A.n = dt.n ∧ dt'.A.m = dt.m ∧
    dt'.q.size = dt.n ∧ dt'.b.size = dt.m ∧
    dt'.equilibration.d.size = dt.n ∧ dt'.equilibration.e.size = dt.m ∧
    dt'.equilibration.dinv.size = dt.n ∧ dt'.equilibration.einv.size = dt.m ∧
    (∀ j, j < dt.n → dt'.equilibration.dinv.getD j 0 = 1 / dt'.equilibration.d.getD j 1) ∧
    (∀ i, i < dt.m → dt'.equilibration.einv.getD i 0 = 1 / dt'.equilibration.e.getD i 1) ∧
    (C16.Canonical dt.P → C16.Canonical dt'.P) ∧ (C16.Canonical dt.A → C16.Canonical dt'.A) := by
  have hInv := C10.scaled_data dt dt' cones s hfresh h
  obtain ⟨hP, hA, hPm, hPn, hAm, hAn, hq, hb, -⟩ := shapesOk_fields dt hshape
  have hmap : ∀ (x : Array α) (k : ℕ), k < x.size →
      (x.map (fun v => 1 / v)).getD k 0 = 1 / x.getD k 1 := by
    intro x k hk
    simp [Array.getD, hk]
  have hinv : dt'.equilibration.dinv.size = dt.n ∧ dt'.equilibration.einv.size = dt.m ∧
      (∀ j, j < dt.n → dt'.equilibration.dinv.getD j 0 = 1 / dt'.equilibration.d.getD j 1) ∧
      (∀ i, i < dt.m → dt'.equilibration.einv.getD i 0 = 1 / dt'.equilibration.e.getD i 1) := by
    cases hen : s.enable with
    | true =>
      obtain ⟨h1, h2⟩ := C10.inverse_scalings dt dt' cones s hen h
      refine ⟨by rw [h1, Array.size_map, hInv.szd], by rw [h2, Array.size_map, hInv.sze], ?_, ?_⟩
      · intro j hj; rw [h1]; exact hmap _ j (by rw [hInv.szd]; exact hj)
      · intro i hi; rw [h2]; exact hmap _ i (by rw [hInv.sze]; exact hi)
    | false =>
      have hdt : dt' = dt := by
        have := C10.disabled_is_identity dt cones s hen
        rw [this] at h
        cases h; rfl
      subst hdt
      rw [hfresh]
      refine ⟨by simp [EquilData.new], by simp [EquilData.new], ?_, ?_⟩
      · intro j hj; simp [EquilData.new, Array.getD, hj]
      · intro i hi; simp [EquilData.new, Array.getD, hi]
  exact ⟨by rw [hInv.shP.n, hPn], by rw [hInv.shP.m, hPm], by rw [hInv.shA.n, hAn],
    by rw [hInv.shA.m, hAm], by rw [hInv.szq, hq], by rw [hInv.szb, hb], hInv.szd, hInv.sze,
    hinv.1, hinv.2.1, hinv.2.2.1, hinv.2.2.2,
    canonical_of_sameShape hInv.shP, canonical_of_sameShape hInv.shA⟩

/-- [F] **item 4 — positive scalings**: with `0 < min ≤ 1 ≤ max` every `dⱼ`, `eᵢ` and `c`
that `equilibrate` returns is positive (they lie in `[min, max]`, `C10.bounds`). -/
theorem equilibrate_pos [LawfulFloatLike α] (dt dt' : ProblemData α) (cones : List (ConeT α))
    (s : Equil.Settings α)
    (hlo : 0 < s.minScaling) (h1 : s.minScaling ≤ 1) (h2 : 1 ≤ s.maxScaling)
    (hfresh : dt.equilibration = EquilData.new dt.n dt.m)
    (hshape : Equil.shapesOk dt = true)
    (h : Equil.equilibrate dt cones s = .ok dt') :
    (∀ j : Fin dt.n, 0 < (scalingOf dt'.equilibration dt.n dt.m).d j) ∧
    (∀ i : Fin dt.m, 0 < (scalingOf dt'.equilibration dt.n dt.m).e i) ∧
    0 < (scalingOf dt'.equilibration dt.n dt.m).c := by
  obtain ⟨hd, he, hc, -⟩ := C10.bounds dt dt' cones s hlo h1 h2 hfresh h
  obtain ⟨-, -, -, -, -, -, hds, hes, -⟩ := equilibrate_shapes dt dt' cones s hfresh hshape h
  refine ⟨?_, ?_, lt_of_lt_of_le hlo hc⟩
  · intro j
    exact lt_of_lt_of_le hlo (hd j (by rw [hds]; exact j.isLt)).1
  · intro i
    exact lt_of_lt_of_le hlo (he i (by rw [hes]; exact i.isLt)).1

end main

/-! ### non-vacuity -/

section example_
open Clarabel

/-- a 1×1 problem over ℝ: `P = [2]`, `q = [1]`, `A = [3]`, `b = [4]`, fresh equilibration data -/
noncomputable def exData : ProblemData ℝ :=
  { P := ⟨1, 1, #[0, 1], #[0], #[2]⟩, q := #[1], A := ⟨1, 1, #[0, 1], #[0], #[3]⟩, b := #[4],
    cones := [], n := 1, m := 1, equilibration := EquilData.new 1 1,
    normq := none, normb := none, presolver := none }

/-- the hypotheses `hfresh`, `hshape`, `h` of `equilibrate_dense` / `equilibrate_shapes` /
`equilibrate_pos` are simultaneously satisfiable (equilibration disabled: `equilibrate`
returns the data), and so are the settings hypotheses of `equilibrate_pos`. -/
example : exData.equilibration = EquilData.new exData.n exData.m ∧
    Equil.shapesOk exData = true ∧
    Equil.equilibrate exData [] ⟨false, 10, 1e-4, 1e4⟩ = .ok exData ∧
    (0:ℝ) < 1e-4 ∧ (1e-4:ℝ) ≤ 1 ∧ (1:ℝ) ≤ 1e4 := by
  refine ⟨rfl, ?_, C10.disabled_is_identity _ _ _ rfl, by norm_num, by norm_num, by norm_num⟩
  simp [Equil.shapesOk, Csc.wellFormed, Csc.colIdx, Csc.anyAdjacent, exData, EquilData.new]

end example_

end Clarabel.InfoUser
