/-
  Clique-graph merge strategy, JUNCTION-TREE LINK, `post_process_merge`: IF AT LOOP EXIT THE EDGE
  MATRIX CONTAINS A JUNCTION TREE of the live cliques (`CGHasJT`), the spanning tree that `kruskal`
  picks has the running-intersection property and the supernodes `clique \ parent clique` produced by
  `split_cliques` are PAIRWISE DISJOINT — the first of the two tested links (`snDisjointB`, `cgRipB`)
  becomes a theorem.

  Ingredients (each proved in its own file, taken here as hypotheses in the style of
  `ChordalCGSpecs.lean`, discharged in `ChordalCGJunctionFinal.lean`):
  * `KruskalMaxSpec`   : `kruskal` returns a maximum-weight spanning forest (`ChordalKruskalMax.lean`);
  * `InterWeightsSpec` : `clique_intersections` writes `|C_row ∩ C_col|` (`ChordalCGInterWeights.lean`);
  * `RipDisjointSpec`  : running intersection ⇒ disjoint supernodes (`ChordalCGRipDisjoint.lean`);
  and `JT.rip_of_max_weight` (`ChordalJunctionTree.lean`): every maximum-weight forest of a graph that
  contains a junction tree is a junction tree.
-/
import ClarabelProofs.Lemmas.ChordalCGJunctionDefs
import ClarabelProofs.Lemmas.ChordalCGPostMulti
import ClarabelProofs.Lemmas.ChordalCGMatOps

namespace Clarabel.Chordal
open Clarabel

/-! ## the ingredients as specifications -/

/-- `kruskal` returns a maximum-weight spanning forest (`ChordalKruskalMax.lean`) -/
def KruskalMaxSpec : Prop :=
  ∀ (E : IMat), E.WFE → ∀ (numCliques : Nat), 0 < numCliques →
    ∀ (Lv : List Nat), Lv.Nodup → Lv.length = numCliques →
    (∀ e ∈ E.edges, e.1 ∈ Lv ∧ e.2 ∈ Lv) → (∀ u ∈ Lv, ∀ v ∈ Lv, Conn E.edges u v) →
    ∀ (w : Nat × Nat → Nat),
    (∀ k, k < E.rowval.size →
      E.nzval.getD k 0 = Int.ofNat (w (E.rowval.getD k 0, E.colIdx.getD k 0))) →
    ∀ F, ForestFrom [] F → (∀ e ∈ F, e ∈ E.edges) →
      (F.map w).sum ≤ ((kruskalTree E numCliques).map w).sum

/-- `clique_intersections` writes the junction-tree weights (`ChordalCGInterWeights.lean`) -/
def InterWeightsSpec : Prop :=
  ∀ (E : IMat), E.WFE → ∀ (t : SuperNodeTree), E.n ≤ t.snode.size → ∀ (nv : Nat),
    (∀ c, (t.snode.getD c #[]).toList.Nodup) →
    (∀ c, ∀ v ∈ (t.snode.getD c #[]).toList, v < nv) →
    ∃ nz, cliqueIntersections E t.snode = .ok { E with nzval := nz } ∧ nz.size = E.rowval.size ∧
      (∀ k, k < nz.size → 0 ≤ nz.getD k 0) ∧
      ∀ k, k < E.rowval.size → nz.getD k 0 =
        Int.ofNat (JT.w (cgCl t) nv (E.rowval.getD k 0, E.colIdx.getD k 0))

/-- running intersection ⇒ the supernodes are pairwise disjoint (`ChordalCGRipDisjoint.lean`) -/
def RipDisjointSpec : Prop :=
  ∀ (N : Nat) (t t' : SuperNodeTree) (r : Nat), CGPostDesc N t t' r →
    (∀ c, (t.snode.getD c #[]).toList.Nodup) →
    ∀ (T : List (Nat × Nat)), (∀ e ∈ T, e.1 ∈ cgLiveList t ∧ e.2 ∈ cgLiveList t) →
    Oriented T (cgLiveList t) [r] (fun v => t'.snodeParent.getD v 0) →
    JT.RIP (cgCl t) (cgLiveList t) T → snDisjointB t' = true

/-! ## the parent array of the result is the one `determine_parent_cliques` returned -/

/-- [S] `post_process_merge` is a function of its stages: if it returned `t'`, the parent array of
`t'` is the one computed by `clique_intersections`, `kruskal`, `determine_parent_cliques` -/
theorem cgpm_parent_of_run (s : CGStrategy) (t : SuperNodeTree) (h2 : 1 < t.nCliques)
    {E1 E2 : IMat} {par' : Array Nat} {ch' : Array VSet}
    (h1 : cliqueIntersections s.edges t.snode = .ok E1)
    (hk : kruskal E1 t.nCliques = .ok E2)
    (hd : determineParentCliques (Array.replicate t.snode.size inactiveNode) t.snodeChildren
      t.snode t.post E2 = .ok (par', ch'))
    {s' : CGStrategy} {t' : SuperNodeTree} (hrun : s.postProcessMerge t = .ok (s', t')) :
    t'.snodeParent = par' := by
  unfold CGStrategy.postProcessMerge at hrun
  simp only [gt_iff_lt, h2, if_true] at hrun
  unfold CGStrategy.cliqueTreeFromGraph at hrun
  simp only [h1, hk, hd, bind, Except.bind, pure, Except.pure] at hrun
  cases hp : postOrder par' ch' t.nCliques with
  | error e => rw [hp] at hrun; exact absurd hrun (by simp)
  | ok pc =>
    obtain ⟨post', ch''⟩ := pc
    rw [hp] at hrun
    simp only at hrun
    cases hs : splitCliques t.snode (t.separators.map (fun _ => (#[] : VSet))) par' post'
        t.nCliques with
    | error e => rw [hs] at hrun; exact absurd hrun (by simp)
    | ok ss =>
      obtain ⟨sn', sp'⟩ := ss
      rw [hs] at hrun
      simp only [Except.ok.injEq, Prod.mk.injEq] at hrun
      rw [← hrun.2]

/-- [S] what `CGInv` gives to the Kruskal stage (as `CGInv.kruskal_hyps` of `ChordalCGFinal.lean`,
which this file does not import) -/
theorem CGInv.kruskal_hyps_jt {N nv : Nat} {s : CGStrategy} {t : SuperNodeTree}
    (h : CGInv N nv s t) :
    (cgLiveList t).Nodup ∧ (cgLiveList t).length = t.nCliques ∧
    (∀ e ∈ s.edges.edges, e.1 ∈ cgLiveList t ∧ e.2 ∈ cgLiveList t) ∧
    (∀ u ∈ cgLiveList t, ∀ v ∈ cgLiveList t, Conn s.edges.edges u v) := by
  refine ⟨cgLiveList_nodup t, h.ncl.symm, ?_, ?_⟩
  · intro e he
    have := h.edge_live e.1 e.2 ((h.good.mem_edges e.1 e.2).1 he)
    exact ⟨(mem_cgLiveList t _).2 this.1, (mem_cgLiveList t _).2 this.2⟩
  · intro u hu v hv
    exact h.conn u v ((mem_cgLiveList t u).1 hu) ((mem_cgLiveList t v).1 hv)

/-! ## the spanning tree of `kruskal` has the running-intersection property -/

/-- [S] **`post_process_merge` WITH A JUNCTION TREE INSIDE THE GRAPH**: under the loop invariant with
at least two live cliques, if the edge matrix contains a junction tree `J` of the live cliques,
then `post_process_merge` does not panic, returns the tree described by `CGPostDesc`, THE SPANNING
TREE CHOSEN BY `kruskal` HAS THE RUNNING-INTERSECTION PROPERTY and the supernodes of the result are
pairwise disjoint (`snDisjointB`). -/
theorem post_multi_jt (hKM : KruskalMaxSpec) (hIW : InterWeightsSpec) (hRD : RipDisjointSpec)
    {N nv : Nat} {s : CGStrategy} {t : SuperNodeTree} (hinv : CGInv N nv s t)
    (h2 : 2 ≤ t.nCliques) (hch : t.snodeChildren = Array.replicate N #[])
    (hsep : t.separators.size = N)
    {v0 c0 : Nat} (hpost : t.post.back? = some v0) (hv0 : v0 ∈ (t.snode.getD c0 #[]).toList)
    {J : List (Nat × Nat)} (hJ : CGHasJT s t J) :
    ∃ s' t' nz, s.postProcessMerge t = .ok (s', t') ∧
      CGPostDesc N t t' (dpcRoot t.snode v0) ∧
      cliqueIntersections s.edges t.snode = .ok { s.edges with nzval := nz } ∧
      JT.RIP (cgCl t) (cgLiveList t) (kruskalTree { s.edges with nzval := nz } t.nCliques) ∧
      snDisjointB t' = true := by
  have hwf := hinv.good.wfe
  have hlow := hinv.good.lower
  obtain ⟨hLnd, hLlen, hLedges, hLconn⟩ := hinv.kruskal_hyps_jt
  -- the weights
  obtain ⟨nz, hci, hnzs, hnzp, hnzw⟩ := hIW s.edges hwf t (by rw [hinv.en, hinv.sz]) nv
    hinv.sn_nodup hinv.sn_lt
  have hwf1 : ({ s.edges with nzval := nz } : IMat).WFE :=
    ⟨hwf.cpsize, hwf.cp0, hwf.mono, hwf.nnz_row, hnzs, hwf.rows⟩
  have hlow1 : ({ s.edges with nzval := nz } : IMat).Lower := ⟨hlow.sq, hlow.lower, hlow.nodup⟩
  have hedges1 : ({ s.edges with nzval := nz } : IMat).edges = s.edges.edges := rfl
  have hLlt : ∀ v ∈ cgLiveList t, v < N := fun v hv =>
    hinv.sz ▸ ((mem_cgLiveList t v).1 hv).1
  have hsm := hinv.small
  have hmk : inactiveNode < noParent := by decide
  obtain ⟨hsome, hrl, _⟩ := cgpm_root_live hv0
  -- `kruskal` + `determine_parent_cliques`
  obtain ⟨E2, par', ch', hkr, hdpc, _, _, _, hor, _, _, _, _⟩ :=
    kruskal_determineParentCliques (E := { s.edges with nzval := nz }) hwf1 hlow1
      (numCliques := t.nCliques) (by omega)
      (fun k hk e => by have := hnzp k hk; rw [e] at this; omega)
      (Lv := cgLiveList t) hLnd hLlen
      (fun v hv => by show v < s.edges.n; rw [hinv.en]; exact hLlt v hv)
      (fun e he => hLedges e (hedges1 ▸ he))
      (fun u hu v hv => hedges1 ▸ hLconn u hu v hv)
      (par0 := Array.replicate t.snode.size inactiveNode) (ch0 := t.snodeChildren)
      (cliques := t.snode) (post := t.post) (v0 := v0)
      (by show _ = s.edges.n; rw [hinv.en, hinv.sz]; simp)
      (by show _ = s.edges.n; rw [hinv.en, hch]; simp)
      hpost ((mem_cgLiveList t _).2 hrl)
      (fun v hv w hw => by
        rw [cgpm_getD_replicate _ _ _ _ (by rw [hinv.sz]; exact hLlt w hw)]
        have := hLlt v hv; omega)
      (fun v hv => by have := hLlt v hv; omega)
      (fun c hc => by
        rw [hch, cgpm_getD_replicate _ _ _ _ (by rw [← hinv.en]; exact hc)]; simp)
  -- the spanning tree
  obtain ⟨_, hTf, hTsub, _⟩ := kruskal_spanning hwf1 (numCliques := t.nCliques) (by omega)
    hLnd hLlen (fun e he => hLedges e (hedges1 ▸ he))
    (fun u hu v hv => hedges1 ▸ hLconn u hu v hv)
  have hTL : ∀ e ∈ kruskalTree { s.edges with nzval := nz } t.nCliques,
      e.1 ∈ cgLiveList t ∧ e.2 ∈ cgLiveList t := fun e he => hLedges e (hedges1 ▸ hTsub e he)
  -- running intersection
  have hnv : ∀ c ∈ cgLiveList t, ∀ v, cgCl t c v = true → v < nv := fun c _ v hv =>
    hinv.sn_lt c v ((cgCl_iff t c v).1 hv)
  have hrip : JT.RIP (cgCl t) (cgLiveList t) (kruskalTree { s.edges with nzval := nz } t.nCliques) := by
    refine JT.rip_of_max_weight hLnd nv hnv s.edges.edges hJ.forest
      (fun e he => hLedges e (hJ.sub e he)) hJ.sub hJ.rip hTf hTL ?_
    intro F hF hFG
    exact hKM { s.edges with nzval := nz } hwf1 t.nCliques (by omega) (cgLiveList t) hLnd hLlen
      (fun e he => hLedges e (hedges1 ▸ he)) (fun u hu v hv => hedges1 ▸ hLconn u hu v hv)
      (JT.w (cgCl t) nv) hnzw F hF (fun e he => hedges1 ▸ hFG e he)
  -- the run
  obtain ⟨s', t', hrun, hdesc⟩ := post_multi_run hinv h2 hch hsep hpost hv0
  have hpar : t'.snodeParent = par' := cgpm_parent_of_run s t (by omega) hci hkr hdpc hrun
  refine ⟨s', t', nz, hrun, hdesc, hci, hrip, ?_⟩
  exact hRD N t t' _ hdesc hinv.sn_nodup _ hTL (by rw [hpar]; exact hor) hrip

end Clarabel.Chordal
