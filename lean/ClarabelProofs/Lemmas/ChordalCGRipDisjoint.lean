/-
  Clique-graph merge strategy, JUNCTION-TREE LINK, last step: if the spanning tree `T` that
  `post_process_merge` orients (towards the root `r`, parent array `t'.snodeParent`) has the
  RUNNING-INTERSECTION PROPERTY for the clique sets at loop exit, then the supernodes
  `clique \ parent clique` written by `post_process_merge` are PAIRWISE DISJOINT (the executable
  check `snDisjointB` of the result).

  The argument, for a fixed vertex `v`: call the "top" of a clique `c ∋ v` the clique reached from
  `c` by climbing parent links as long as the parent also contains `v` (`VTop`).  The top is unique
  (`VTop.functional`); the two ends of an edge of `T_v` (both ends contain `v`) have the same tops
  (`VTop.edge_iff`, by `Oriented.edge_parent` one end is the parent of the other), hence so do any
  two cliques connected inside `T_v` (`VTop.conn_iff`).  `v` lies in the supernode of `c` exactly
  when `c` is its own top; by the running-intersection property two such cliques are connected
  inside `T_v`, hence equal.

  * `VTop.functional`, `VTop.edge_iff`, `VTop.conn_iff` : the three steps, for an arbitrary
    membership predicate and parent function;
  * `CGPostDesc.disjoint_of_rip` : the theorem;
  * an `example` : `Oriented` and `JT.RIP` are jointly satisfiable (three-clique path).
-/
import ClarabelProofs.Lemmas.ChordalCGJunctionDefs
import ClarabelProofs.Lemmas.ChordalCGPostMultiA

namespace Clarabel.Chordal
open Clarabel

/-- `VTop P par r c x` : for the cliques `{c | P c}` that contain a fixed vertex, parent function
`par` and root `r`: climbing from `c` along parent links while the parent still contains the vertex
stops at `x` (the top of `c`) -/
inductive VTop (P : Nat → Prop) (par : Nat → Nat) (r : Nat) : Nat → Nat → Prop
  | here {c : Nat} : P c → (c = r ∨ ¬ P (par c)) → VTop P par r c c
  | up {c x : Nat} : c ≠ r → P c → P (par c) → VTop P par r (par c) x → VTop P par r c x

namespace VTop
variable {P : Nat → Prop} {par : Nat → Nat} {r : Nat}

/-- [S] the top of a clique is unique -/
theorem functional {c x y : Nat} (h1 : VTop P par r c x) (h2 : VTop P par r c y) : x = y := by
  induction h1 with
  | here hp hor =>
    cases h2 with
    | here _ _ => rfl
    | up hcr _ hpp _ =>
      rcases hor with hor | hor
      · exact absurd hor hcr
      · exact absurd hpp hor
  | up hcr hp hpp _ ih =>
    cases h2 with
    | here _ hor =>
      rcases hor with hor | hor
      · exact absurd hor hcr
      · exact absurd hpp hor
    | up _ _ _ h' => exact ih h'

/-- [S] a non-root clique and its parent, both containing the vertex, have the same tops -/
theorem edge_iff {x y : Nat} (hpar : par x = y) (hxr : x ≠ r) (hx : P x) (hy : P y) (z : Nat) :
    VTop P par r x z ↔ VTop P par r y z := by
  subst hpar
  constructor
  · intro h
    cases h with
    | here _ hor =>
      rcases hor with hor | hor
      · exact absurd hor hxr
      · exact absurd hy hor
    | up _ _ _ h' => exact h'
  · intro h
    exact VTop.up hxr hx hy h

/-- [S] cliques connected by edges, each of which links a non-root clique to its parent and has
both ends containing the vertex, have the same tops -/
theorem conn_iff {E : List (Nat × Nat)}
    (hE : ∀ e ∈ E, P e.1 ∧ P e.2 ∧ ((e.1 ≠ r ∧ par e.1 = e.2) ∨ (e.2 ≠ r ∧ par e.2 = e.1)))
    {a b : Nat} (h : Conn E a b) : ∀ z, VTop P par r a z ↔ VTop P par r b z := by
  induction h with
  | rel a b hab =>
    intro z
    obtain ⟨h1, h2, h3⟩ := hE (a, b) hab
    rcases h3 with ⟨h3, h4⟩ | ⟨h3, h4⟩
    · exact edge_iff h4 h3 h1 h2 z
    · exact (edge_iff h4 h3 h2 h1 z).symm
  | refl a => intro z; exact Iff.rfl
  | symm a b _ ih => intro z; exact (ih z).symm
  | trans a b c _ _ ih1 ih2 => intro z; exact (ih1 z).trans (ih2 z)

end VTop

/-- [S] **RUNNING INTERSECTION ⇒ THE SUPERNODES ARE PAIRWISE DISJOINT**: `t` is the state at the
exit of the merge loop (`t.snode[c]` = the whole clique `c`), `t'` the tree returned by
`post_process_merge` (described by `CGPostDesc`), `T` a list of edges between live cliques that the
parent array of `t'` orients towards the root `r`.  If `T` has the running-intersection property
for the cliques of `t` (and these are duplicate-free), the supernodes `clique \ parent clique` of
`t'` pass the executable check `snDisjointB`: each is duplicate-free and no vertex lies in two of
them. -/
theorem CGPostDesc.disjoint_of_rip {N : Nat} {t t' : SuperNodeTree} {r : Nat}
    (h : CGPostDesc N t t' r) (hnd : ∀ c, (t.snode.getD c #[]).toList.Nodup)
    {T : List (Nat × Nat)} (hTL : ∀ e ∈ T, e.1 ∈ cgLiveList t ∧ e.2 ∈ cgLiveList t)
    (hor : Oriented T (cgLiveList t) [r] (fun v => t'.snodeParent.getD v 0))
    (hrip : JT.RIP (cgCl t) (cgLiveList t) T) : snDisjointB t' = true := by
  have _ := hTL
  rw [snDisjointB_iff]
  refine ⟨h.sn_nodup hnd, ?_⟩
  intro a b _ _ hab v hva hvb
  -- both cliques are live
  have hla : CGLive t a := by
    by_contra hc
    rw [h.dead_sn a (fun hm => hc ((mem_cgLiveList t a).1 hm))] at hva
    simp at hva
  have hlb : CGLive t b := by
    by_contra hc
    rw [h.dead_sn b (fun hm => hc ((mem_cgLiveList t b).1 hm))] at hvb
    simp at hvb
  -- a clique whose supernode contains `v` is its own top
  have htop : ∀ c, CGLive t c → v ∈ (t'.snode.getD c #[]).toList →
      VTop (fun c => v ∈ (t.snode.getD c #[]).toList) (fun c => t'.snodeParent.getD c 0) r c c := by
    intro c hc hv
    by_cases hcr : c = r
    · subst hcr
      exact VTop.here ((h.mem_sn_root v).1 hv) (Or.inl rfl)
    · obtain ⟨h1, h2⟩ := (h.mem_sn hc hcr v).1 hv
      exact VTop.here h1 (Or.inr h2)
  have hta := htop a hla hva
  have htb := htop b hlb hvb
  -- the edges of `T_v` are parent links between cliques containing `v`
  have hE : ∀ e ∈ JT.atV (cgCl t) v T,
      (v ∈ (t.snode.getD e.1 #[]).toList) ∧ (v ∈ (t.snode.getD e.2 #[]).toList) ∧
      ((e.1 ≠ r ∧ t'.snodeParent.getD e.1 0 = e.2) ∨
        (e.2 ≠ r ∧ t'.snodeParent.getD e.2 0 = e.1)) := by
    intro e he
    obtain ⟨h1, h2, h3⟩ := JT.mem_at.1 he
    refine ⟨(cgCl_iff t _ v).1 h2, (cgCl_iff t _ v).1 h3, ?_⟩
    rcases hor.edge_parent e h1 with ⟨h4, h5⟩ | ⟨h4, h5⟩
    · exact Or.inl ⟨fun hc => h4 (by simp [hc]), h5⟩
    · exact Or.inr ⟨fun hc => h4 (by simp [hc]), h5⟩
  -- the running-intersection property connects `a` and `b` inside `T_v`
  have hconn : Conn (JT.atV (cgCl t) v T) a b :=
    hrip v a ((mem_cgLiveList t a).2 hla) b ((mem_cgLiveList t b).2 hlb)
      ((cgCl_iff t a v).2 (h.sn_sub a v hva)) ((cgCl_iff t b v).2 (h.sn_sub b v hvb))
  have hab' : VTop (fun c => v ∈ (t.snode.getD c #[]).toList)
      (fun c => t'.snodeParent.getD c 0) r a b :=
    (VTop.conn_iff (P := fun c => v ∈ (t.snode.getD c #[]).toList)
      (par := fun c => t'.snodeParent.getD c 0) (r := r) hE hconn b).2 htb
  exact hab (VTop.functional hta hab')

/-! ## non-vacuity -/

/-- the hypotheses `Oriented` and `JT.RIP` of `CGPostDesc.disjoint_of_rip` are jointly satisfiable:
the path of three cliques `C₀ = {0,1}`, `C₁ = {1,2}`, `C₂ = {2,3}` of `ChordalJunctionTree.lean`,
junction tree `1 — 0`, `2 — 1`, rooted at `0` (parent of `1` is `0`, parent of `2` is `1`) -/
example : Oriented JT.Ex.J3 [0, 1, 2] [0] (fun v => v - 1) ∧
    JT.RIP JT.Ex.cl3 [0, 1, 2] JT.Ex.J3 := by
  refine ⟨⟨?_, ?_, ?_⟩, JT.Ex.J3_rip⟩
  · intro w hw hwr
    have hw' : w = 0 ∨ w = 1 ∨ w = 2 := by simpa using hw
    rcases hw' with rfl | rfl | rfl
    · exact absurd (by simp) hwr
    · decide
    · decide
  · intro e he
    have he' : e = (1, 0) ∨ e = (2, 1) := by simpa [JT.Ex.J3] using he
    rcases he' with rfl | rfl
    · exact Or.inl (by decide)
    · exact Or.inl (by decide)
  · intro w hw
    have hw' : w = 0 ∨ w = 1 ∨ w = 2 := by simpa using hw
    rcases hw' with rfl | rfl | rfl
    · exact ⟨0, by simp, .base (by simp)⟩
    · exact ⟨0, by simp, .step (by decide) (.base (by simp))⟩
    · exact ⟨0, by simp, .step (by decide) (.step (by decide) (.base (by simp)))⟩

/-- the core argument on the same example, with no model hypotheses: in the three-clique path
rooted at `0`, for the vertex `2` the top of clique `2` is clique `1` (which contains `2` while its
parent `0` does not), and it is the only top -/
example : VTop (fun c => JT.Ex.cl3 c 2 = true) (fun v => v - 1) 0 2 1 ∧
    ∀ x, VTop (fun c => JT.Ex.cl3 c 2 = true) (fun v => v - 1) 0 2 x → x = 1 := by
  have h : VTop (fun c => JT.Ex.cl3 c 2 = true) (fun v => v - 1) 0 2 1 :=
    .up (by decide) (by decide) (by decide) (.here (by decide) (Or.inr (by decide)))
  exact ⟨h, fun x hx => VTop.functional hx h⟩

end Clarabel.Chordal
