/-
  Quasidefiniteness WITH A MARGIN, and the regularised KKT matrix of an arbitrary cone list.

  * `QuasiDefGE K s S ε`: `K` symmetric, `xᵀKx ≥ ε‖x‖²` on the `+` indices, `≤ −ε‖x‖²` on the `−`
    indices.  One step of symmetric elimination preserves it (`QuasiDefGE.elim`), hence in ANY
    elimination order every pivot `d` satisfies `d ≥ ε` resp. `d ≤ −ε` (`pivots_margin`): the static
    regularisation `ε` is a lower bound for the modulus of every `LDLᵀ` pivot, so the dynamic
    regularisation of QDLDL (threshold `eps ≤ ε`) never fires.
  * building blocks: direct sums, block-diagonal families (`sigmaDiag`: one block per cone — the
    "induction over the cone list"), positive diagonals, and the bordered block
    `expBlock H V e ε = [[H + εI, V], [Vᵀ, diag(e) + εI]]` of a sparse expansion.
  * `quasiDefGE_listKkt`: the regularised KKT matrix of a cone list — primal block `P + εI`, one
    negative block per cone (its Hs block bordered by the `−` auxiliary columns of its sparse
    expansion), the `+` auxiliary variables — is quasidefinite with margin `ε`.

  Everything is class [F] (linearly ordered field), pure algebra.
-/
import ClarabelProofs.Lemmas.KktInertia
import Mathlib.Data.Fintype.Sigma
import Mathlib.Algebra.BigOperators.Group.Finset.Sigma

namespace Clarabel.Lemmas.KktInertiaList

open Finset
open Clarabel.Lemmas.KktInertia

set_option linter.unusedSectionVars false

variable {α : Type} [Field α] [LinearOrder α] [IsStrictOrderedRing α]

/-! ### (0) squared norm -/

section Nsq
variable {ι : Type} [Fintype ι]

/-- `‖x‖² = Σ xᵢ²` -/
def nsq (x : ι → α) : α := ∑ i, x i ^ 2

theorem nsq_nonneg (x : ι → α) : 0 ≤ nsq x := Finset.sum_nonneg fun i _ => sq_nonneg _

theorem nsq_pos {x : ι → α} (hx : x ≠ 0) : 0 < nsq x := by
  obtain ⟨i, hi⟩ : ∃ i, x i ≠ 0 := by
    by_contra hc
    exact hx (funext fun i => by simpa using fun h => hc ⟨i, h⟩)
  exact Finset.sum_pos' (fun i _ => sq_nonneg _) ⟨i, Finset.mem_univ _, by positivity⟩

theorem nsq_sum {ι₁ ι₂ : Type} [Fintype ι₁] [Fintype ι₂] (x : ι₁ ⊕ ι₂ → α) :
    nsq x = nsq (fun i => x (.inl i)) + nsq (fun j => x (.inr j)) := by
  simp [nsq, Fintype.sum_sum_type]

theorem nsq_sigma {L : Type} [Fintype L] {ιc : L → Type} [∀ i, Fintype (ιc i)]
    (x : (Σ i, ιc i) → α) : nsq x = ∑ i, nsq (fun a => x ⟨i, a⟩) := by
  simp [nsq, Fintype.sum_sigma]

theorem nsq_zero : nsq (0 : ι → α) = 0 := by simp [nsq]

end Nsq

/-! ### (1) quasidefinite with margin -/

section Margin
variable {ι : Type} [Fintype ι] [DecidableEq ι]

/-- `K` symmetric, `xᵀKx ≥ ε‖x‖²` for `x` supported on the `+` indices of `S`,
`xᵀKx ≤ −ε‖x‖²` for `x` supported on the `−` indices of `S`. -/
structure QuasiDefGE (K : ι → ι → α) (s : ι → Bool) (S : Finset ι) (ε : α) : Prop where
  symm : ∀ i j, K i j = K j i
  pos : ∀ x : ι → α, (∀ i, x i ≠ 0 → i ∈ S ∧ s i = true) → ε * nsq x ≤ qf K x
  neg : ∀ x : ι → α, (∀ i, x i ≠ 0 → i ∈ S ∧ s i = false) → qf K x ≤ -(ε * nsq x)

/-- [F] with `ε > 0` a margin gives plain quasidefiniteness (Vanderbei's hypothesis). -/
theorem QuasiDefGE.quasiDef {K : ι → ι → α} {s : ι → Bool} {S : Finset ι} {ε : α}
    (h : QuasiDefGE K s S ε) (hε : 0 < ε) : QuasiDef K s S := by
  refine ⟨h.symm, ?_, ?_⟩
  · intro x hx hx0
    have := h.pos x hx
    have := mul_pos hε (nsq_pos hx0)
    linarith
  · intro x hx hx0
    have := h.neg x hx
    have := mul_pos hε (nsq_pos hx0)
    linarith

theorem nsq_single (p : ι) : nsq (Pi.single p (1 : α) : ι → α) = 1 := by
  simp [nsq, Pi.single_apply, ite_pow]

/-- [F] a diagonal entry at an active index is `≥ ε` resp. `≤ −ε`. -/
theorem QuasiDefGE.pivot_margin {K : ι → ι → α} {s : ι → Bool} {S : Finset ι} {ε : α} {p : ι}
    (h : QuasiDefGE K s S ε) (hp : p ∈ S) : if s p then ε ≤ K p p else K p p ≤ -ε := by
  have hq : qf K (Pi.single p (1 : α)) = K p p := by rw [qf_single]; ring
  have hsupp : ∀ b : Bool, s p = b →
      ∀ i, (Pi.single p (1 : α) : ι → α) i ≠ 0 → i ∈ S ∧ s i = b := by
    intro b hb i hi
    by_cases hip : i = p
    · subst hip; exact ⟨hp, hb⟩
    · exact absurd (Pi.single_eq_of_ne hip _) hi
  cases hsp : s p
  · have := h.neg _ (hsupp false hsp)
    rw [hq, nsq_single, mul_one] at this
    simpa using this
  · have := h.pos _ (hsupp true hsp)
    rw [hq, nsq_single, mul_one] at this
    simpa using this

theorem nsq_addAt {x : ι → α} {p : ι} (t : α) (hxp : x p = 0) :
    nsq (addAt x p t) = nsq x + t ^ 2 := by
  unfold nsq addAt
  have : ∀ i, (x i + if i = p then t else 0) ^ 2 = x i ^ 2 + if i = p then t ^ 2 else 0 := by
    intro i
    by_cases hip : i = p
    · subst hip; simp [hxp]
    · simp [hip]
  simp only [this, Finset.sum_add_distrib, Finset.sum_ite_eq', Finset.mem_univ, if_true]

private theorem addAt_supp' {x : ι → α} {p : ι} {t : α} {s : ι → Bool} {S : Finset ι} {b : Bool}
    (hp : p ∈ S) (hsp : s p = b) (hx : ∀ i, x i ≠ 0 → i ∈ S.erase p ∧ s i = b) :
    ∀ i, addAt x p t i ≠ 0 → i ∈ S ∧ s i = b := by
  intro i hi
  by_cases hip : i = p
  · subst hip; exact ⟨hp, hsp⟩
  · have : x i ≠ 0 := by simpa [addAt, hip] using hi
    exact ⟨Finset.mem_of_mem_erase (hx i this).1, (hx i this).2⟩

/-- [F] **Vanderbei's step with margin**: the Schur complement w.r.t. any active pivot keeps the
margin `ε` on the remaining indices. -/
theorem QuasiDefGE.elim {K : ι → ι → α} {s : ι → Bool} {S : Finset ι} {ε : α} {p : ι}
    (h : QuasiDefGE K s S ε) (hε : 0 < ε) (hp : p ∈ S) :
    QuasiDefGE (Clarabel.Lemmas.KktInertia.elim K p) s (S.erase p) ε := by
  have hm := h.pivot_margin hp
  have hne : K p p ≠ 0 := (h.quasiDef hε).pivot_ne_zero hp
  have hxp : ∀ (x : ι → α) (b : Bool), (∀ i, x i ≠ 0 → i ∈ S.erase p ∧ s i = b) → x p = 0 := by
    intro x b hx
    by_contra hc
    exact Finset.notMem_erase p S (hx p hc).1
  have hsub : ∀ (x : ι → α) (b : Bool), (∀ i, x i ≠ 0 → i ∈ S.erase p ∧ s i = b) →
      ∀ i, x i ≠ 0 → i ∈ S ∧ s i = b :=
    fun x b hx i hi => ⟨Finset.mem_of_mem_erase (hx i hi).1, (hx i hi).2⟩
  refine ⟨((h.quasiDef hε).elim hp).symm, ?_, ?_⟩
  · intro x hx
    cases hsp : s p
    · have hK : K p p < 0 := by
        have : K p p ≤ -ε := by simpa [hsp] using hm
        linarith
      have h1 := h.pos x (hsub x true hx)
      have h2 : (rowDot K p x) ^ 2 / K p p ≤ 0 :=
        div_nonpos_of_nonneg_of_nonpos (sq_nonneg _) hK.le
      rw [qf_elim K h.symm]
      linarith
    · rw [qf_elim_eq_qf_addAt K h.symm p hne]
      have h1 := h.pos _ (addAt_supp' (t := -(rowDot K p x) / K p p) hp hsp hx)
      rw [nsq_addAt _ (hxp x true hx)] at h1
      have : 0 ≤ ε * (-(rowDot K p x) / K p p) ^ 2 := mul_nonneg hε.le (sq_nonneg _)
      linarith
  · intro x hx
    cases hsp : s p
    · rw [qf_elim_eq_qf_addAt K h.symm p hne]
      have h1 := h.neg _ (addAt_supp' (t := -(rowDot K p x) / K p p) hp hsp hx)
      rw [nsq_addAt _ (hxp x false hx)] at h1
      have : 0 ≤ ε * (-(rowDot K p x) / K p p) ^ 2 := mul_nonneg hε.le (sq_nonneg _)
      linarith
    · have hK : 0 < K p p := by
        have : ε ≤ K p p := by simpa [hsp] using hm
        linarith
      have h1 := h.neg x (hsub x false hx)
      have h2 : 0 ≤ (rowDot K p x) ^ 2 / K p p := div_nonneg (sq_nonneg _) hK.le
      rw [qf_elim K h.symm]
      linarith

/-- [F] **every pivot has modulus `≥ ε`, with the recorded sign, in ANY elimination order**
(list form). -/
theorem pivots_margin_forall₂ {K : ι → ι → α} {s : ι → Bool} {S : Finset ι} {ε : α}
    (order : List ι) (h : QuasiDefGE K s S ε) (hε : 0 < ε) (hnd : order.Nodup)
    (hS : ∀ p ∈ order, p ∈ S) :
    List.Forall₂ (fun p d => if s p then ε ≤ d else d ≤ -ε) order (pivots K order) := by
  induction order generalizing K S with
  | nil => exact List.Forall₂.nil
  | cons p ps ih =>
    have hp : p ∈ S := hS p (List.mem_cons_self ..)
    have hnd' := List.nodup_cons.1 hnd
    exact List.Forall₂.cons (h.pivot_margin hp)
      (ih (h.elim hε hp) hnd'.2 (fun q hq => Finset.mem_erase.2
        ⟨fun hqp => hnd'.1 (hqp ▸ hq), hS q (List.mem_cons_of_mem _ hq)⟩))

/-- [F] indexed form of `pivots_margin_forall₂`. -/
theorem pivots_margin {K : ι → ι → α} {s : ι → Bool} {S : Finset ι} {ε : α}
    (order : List ι) (h : QuasiDefGE K s S ε) (hε : 0 < ε) (hnd : order.Nodup)
    (hS : ∀ p ∈ order, p ∈ S) (k : Nat) (hk : k < order.length) :
    if s order[k] then ε ≤ (pivots K order)[k]'(by rw [length_pivots]; exact hk)
    else (pivots K order)[k]'(by rw [length_pivots]; exact hk) ≤ -ε := by
  have h2 := pivots_margin_forall₂ order h hε hnd hS
  exact List.Forall₂.get h2 hk (by rw [length_pivots]; exact hk)

/-- [F] a margin is invariant under re-indexing by a bijection (symmetric permutation). -/
theorem QuasiDefGE.reindex {κ : Type} [Fintype κ] [DecidableEq κ] (e : κ ≃ ι)
    {K : ι → ι → α} {s : ι → Bool} {ε : α} (h : QuasiDefGE K s Finset.univ ε) :
    QuasiDefGE (fun a b => K (e a) (e b)) (fun a => s (e a)) Finset.univ ε := by
  have hq : ∀ x : κ → α, qf (fun a b => K (e a) (e b)) x = qf K (fun i => x (e.symm i)) := by
    intro x
    unfold qf
    rw [← Equiv.sum_comp e]
    refine Finset.sum_congr rfl fun a _ => ?_
    rw [← Equiv.sum_comp e]
    simp
  have hn : ∀ x : κ → α, nsq x = nsq (fun i => x (e.symm i)) := by
    intro x
    unfold nsq
    rw [← Equiv.sum_comp e]
    simp
  refine ⟨fun a b => h.symm _ _, ?_, ?_⟩
  · intro x hx
    rw [hq, hn]
    apply h.pos
    intro i hi
    have := (hx (e.symm i) hi).2
    simp only [Equiv.apply_symm_apply] at this
    exact ⟨Finset.mem_univ _, this⟩
  · intro x hx
    rw [hq, hn]
    apply h.neg
    intro i hi
    have := (hx (e.symm i) hi).2
    simp only [Equiv.apply_symm_apply] at this
    exact ⟨Finset.mem_univ _, this⟩

end Margin

/-! ### (2) positive definite with margin; building blocks -/

section Blocks

/-- symmetric with `xᵀEx ≥ ε‖x‖²` -/
structure PosDefGE {ι : Type} [Fintype ι] (E : ι → ι → α) (ε : α) : Prop where
  symm : ∀ i j, E i j = E j i
  ge : ∀ x : ι → α, ε * nsq x ≤ qf E x

variable {ι₁ ι₂ : Type} [Fintype ι₁] [Fintype ι₂] [DecidableEq ι₁] [DecidableEq ι₂]

/-- [F] `P ⪰ 0 ⟹ P + εI` has margin `ε`. -/
theorem posDefGE_addDiag {ι : Type} [Fintype ι] [DecidableEq ι] {P : ι → ι → α} {ε : α}
    (hP : PosSemidef P) : PosDefGE (addDiag P ε) ε := by
  refine ⟨?_, ?_⟩
  · intro i j
    by_cases hij : i = j
    · subst hij; rfl
    · simp [addDiag, hij, Ne.symm hij, hP.symm i j]
  · intro x
    rw [qf_addDiag]
    have := hP.nonneg x
    unfold nsq
    linarith

/-- direct sum `diag(E, F)` -/
def dsum (E : ι₁ → ι₁ → α) (F : ι₂ → ι₂ → α) : ι₁ ⊕ ι₂ → ι₁ ⊕ ι₂ → α
  | .inl i, .inl j => E i j
  | .inr i, .inr j => F i j
  | .inl _, .inr _ => 0
  | .inr _, .inl _ => 0

theorem qf_dsum (E : ι₁ → ι₁ → α) (F : ι₂ → ι₂ → α) (x : ι₁ ⊕ ι₂ → α) :
    qf (dsum E F) x = qf E (fun i => x (.inl i)) + qf F (fun j => x (.inr j)) := by
  simp [qf, Fintype.sum_sum_type, dsum]

theorem posDefGE_dsum {E : ι₁ → ι₁ → α} {F : ι₂ → ι₂ → α} {ε : α}
    (hE : PosDefGE E ε) (hF : PosDefGE F ε) : PosDefGE (dsum E F) ε := by
  refine ⟨?_, ?_⟩
  · rintro (i | i) (j | j)
    · exact hE.symm i j
    · rfl
    · rfl
    · exact hF.symm i j
  · intro x
    rw [qf_dsum, nsq_sum]
    have := hE.ge (fun i => x (.inl i))
    have := hF.ge (fun j => x (.inr j))
    linarith

/-- diagonal matrix -/
def diagM {ι : Type} [DecidableEq ι] (e : ι → α) : ι → ι → α := fun i j => if i = j then e i else 0

theorem qf_diagM {ι : Type} [Fintype ι] [DecidableEq ι] (e : ι → α) (x : ι → α) :
    qf (diagM e) x = ∑ i, e i * x i ^ 2 := by
  unfold qf diagM
  refine Finset.sum_congr rfl fun i _ => ?_
  simp only [mul_ite, mul_zero, ite_mul, zero_mul, Finset.sum_ite_eq, Finset.mem_univ, if_true]
  ring

theorem posDefGE_diagM {ι : Type} [Fintype ι] [DecidableEq ι] {e : ι → α} {ε : α}
    (he : ∀ i, ε ≤ e i) : PosDefGE (diagM e) ε := by
  refine ⟨?_, ?_⟩
  · intro i j
    by_cases hij : i = j
    · subst hij; rfl
    · simp [diagM, hij, Ne.symm hij]
  · intro x
    rw [qf_diagM]
    unfold nsq
    rw [Finset.mul_sum]
    exact Finset.sum_le_sum fun i _ => mul_le_mul_of_nonneg_right (he i) (sq_nonneg _)

/-- block-diagonal family: one block per `i : L` (one block per cone) -/
def sigmaDiag {L : Type} [DecidableEq L] {ιc : L → Type} (F : ∀ i, ιc i → ιc i → α) :
    (Σ i, ιc i) → (Σ i, ιc i) → α :=
  fun p q => if h : p.1 = q.1 then F q.1 (h ▸ p.2) q.2 else 0

theorem qf_sigmaDiag {L : Type} [Fintype L] [DecidableEq L] {ιc : L → Type}
    [∀ i, Fintype (ιc i)] (F : ∀ i, ιc i → ιc i → α) (x : (Σ i, ιc i) → α) :
    qf (sigmaDiag F) x = ∑ i, qf (F i) (fun a => x ⟨i, a⟩) := by
  unfold qf
  rw [Fintype.sum_sigma]
  refine Finset.sum_congr rfl fun i _ => ?_
  refine Finset.sum_congr rfl fun a _ => ?_
  rw [Fintype.sum_sigma, Finset.sum_eq_single i]
  · simp [sigmaDiag]
  · intro j _ hji
    apply Finset.sum_eq_zero
    intro b _
    simp [sigmaDiag, Ne.symm hji]
  · simp

/-- [F] **a block-diagonal family of blocks with margin `ε` has margin `ε`** (the induction over
the cone list, as a finite sum). -/
theorem posDefGE_sigmaDiag {L : Type} [Fintype L] [DecidableEq L] {ιc : L → Type}
    [∀ i, Fintype (ιc i)] {F : ∀ i, ιc i → ιc i → α} {ε : α} (hF : ∀ i, PosDefGE (F i) ε) :
    PosDefGE (sigmaDiag F) ε := by
  refine ⟨?_, ?_⟩
  · rintro ⟨i, a⟩ ⟨j, b⟩
    by_cases hij : i = j
    · subst hij
      simp [sigmaDiag, (hF i).symm a b]
    · simp [sigmaDiag, hij, Ne.symm hij]
  · intro x
    rw [qf_sigmaDiag, nsq_sigma, Finset.mul_sum]
    exact Finset.sum_le_sum fun i _ => (hF i).ge _

/-- [F] `[[E, Bᵀ], [B, −F]]` with `E`, `F` of margin `ε` is quasidefinite with margin `ε`
(any coupling `B`). -/
theorem quasiDefGE_blockK {E : ι₁ → ι₁ → α} (B : ι₂ → ι₁ → α) {F : ι₂ → ι₂ → α} {ε : α}
    (hE : PosDefGE E ε) (hF : PosDefGE F ε) :
    QuasiDefGE (blockK E B F) Sum.isLeft Finset.univ ε := by
  refine ⟨?_, ?_, ?_⟩
  · rintro (i | i) (j | j)
    · exact hE.symm i j
    · rfl
    · rfl
    · simp [blockK, hF.symm i j]
  · intro x hx
    have hr : ∀ j, x (.inr j) = 0 := by
      intro j; by_contra hc; simpa using (hx _ hc).2
    rw [qf_blockK_left E B F x hr, nsq_sum]
    have : nsq (fun j => x (.inr j)) = 0 := by simp [nsq, hr]
    rw [this, add_zero]
    exact hE.ge _
  · intro x hx
    have hl : ∀ i, x (.inl i) = 0 := by
      intro i; by_contra hc; simpa using (hx _ hc).2
    rw [qf_blockK_right E B F x hl, nsq_sum]
    have : nsq (fun i => x (.inl i)) = 0 := by simp [nsq, hl]
    rw [this, zero_add]
    have := hF.ge (fun j => x (.inr j))
    linarith

end Blocks

/-! ### (3) the bordered block of a sparse expansion -/

section Exp
variable {ιr ιa : Type} [Fintype ιr] [Fintype ιa] [DecidableEq ιr] [DecidableEq ιa]

/-- `[[H + εI, V], [Vᵀ, diag(e) + εI]]`: the Hs block `H` of a cone (as written into the KKT
matrix, sign flipped), bordered by the `−` auxiliary columns `V a` of its sparse expansion with
auxiliary diagonal `e a`. -/
def expBlock (H : ιr → ιr → α) (V : ιa → ιr → α) (e : ιa → α) (ε : α) :
    ιr ⊕ ιa → ιr ⊕ ιa → α
  | .inl i, .inl j => H i j + if i = j then ε else 0
  | .inl i, .inr a => V a i
  | .inr a, .inl i => V a i
  | .inr a, .inr b => if a = b then e a + ε else 0

/-- the unregularised form of `expBlock`: `yᵀHy + 2 Σₐ sₐ (Vₐ·y) + Σₐ eₐ sₐ²` -/
def expForm (H : ιr → ιr → α) (V : ιa → ιr → α) (e : ιa → α) (y : ιr → α) (s : ιa → α) : α :=
  qf H y + 2 * ∑ a, s a * (∑ i, V a i * y i) + ∑ a, e a * s a ^ 2

theorem expBlock_eq (H : ιr → ιr → α) (V : ιa → ιr → α) (e : ιa → α) (ε : α) :
    expBlock H V e ε = fun p q =>
      blockK H V (fun a b => -(diagM e a b)) p q + (if p = q then ε else 0) := by
  funext p q
  rcases p with i | a <;> rcases q with j | b
  · simp [expBlock, blockK]
  · simp [expBlock, blockK]
  · simp [expBlock, blockK]
  · by_cases hab : a = b
    · subst hab; simp [expBlock, blockK, diagM]
    · simp [expBlock, blockK, diagM, hab]

theorem qf_expBlock (H : ιr → ιr → α) (V : ιa → ιr → α) (e : ιa → α) (ε : α)
    (x : ιr ⊕ ιa → α) :
    qf (expBlock H V e ε) x
      = expForm H V e (fun i => x (.inl i)) (fun a => x (.inr a)) + ε * nsq x := by
  have h0 : qf (expBlock H V e ε) x
      = qf (addDiag (blockK H V (fun a b => -(diagM e a b))) ε) x := by
    rw [expBlock_eq]; rfl
  rw [h0, qf_addDiag]
  congr 1
  unfold expForm
  simp only [qf, Fintype.sum_sum_type, blockK, neg_neg]
  have e1 : ∀ i : ιr, ∑ a : ιa, x (.inl i) * V a i * x (.inr a)
      = ∑ a : ιa, x (.inr a) * (V a i * x (.inl i)) :=
    fun i => Finset.sum_congr rfl fun a _ => by ring
  have e2 : ∑ a : ιa, ∑ b : ιa, x (.inr a) * diagM e a b * x (.inr b)
      = ∑ a : ιa, e a * x (.inr a) ^ 2 := qf_diagM e _
  have e3 : ∀ a : ιa, ∑ i : ιr, x (.inr a) * V a i * x (.inl i)
      = ∑ i : ιr, x (.inr a) * (V a i * x (.inl i)) :=
    fun a => Finset.sum_congr rfl fun i _ => by ring
  have e4 : ∑ i : ιr, ∑ a : ιa, x (.inr a) * (V a i * x (.inl i))
      = ∑ a : ιa, ∑ i : ιr, x (.inr a) * (V a i * x (.inl i)) := Finset.sum_comm
  simp only [Finset.sum_add_distrib, e1]
  rw [e2, e4]
  simp only [e3, ← Finset.mul_sum]
  ring

/-- [F] `expBlock` has margin `ε` as soon as its unregularised form is nonnegative. -/
theorem posDefGE_expBlock {H : ιr → ιr → α} {V : ιa → ιr → α} {e : ιa → α} {ε : α}
    (hH : ∀ i j, H i j = H j i) (hform : ∀ y s, 0 ≤ expForm H V e y s) :
    PosDefGE (expBlock H V e ε) ε := by
  refine ⟨?_, ?_⟩
  · rintro (i | a) (j | b)
    · by_cases hij : i = j
      · subst hij; rfl
      · simp [expBlock, hij, Ne.symm hij, hH i j]
    · rfl
    · rfl
    · by_cases hab : a = b
      · subst hab; rfl
      · simp [expBlock, hab, Ne.symm hab]
  · intro x
    rw [qf_expBlock]
    have := hform (fun i => x (.inl i)) (fun a => x (.inr a))
    linarith

/-- [F] no auxiliary variable (cones without sparse expansion): the form is `yᵀHy`. -/
theorem expForm_of_isEmpty [IsEmpty ιa] (H : ιr → ιr → α) (V : ιa → ιr → α) (e : ιa → α)
    (y : ιr → α) (s : ιa → α) : expForm H V e y s = qf H y := by
  simp [expForm]

/-- [F] sufficient condition: positive auxiliary diagonal and
`Σₐ (Vₐ·y)²/eₐ ≤ yᵀHy` (i.e. `H − Σₐ VₐVₐᵀ/eₐ ⪰ 0`). -/
theorem expForm_nonneg_of_schur {H : ιr → ιr → α} {V : ιa → ιr → α} {e : ιa → α}
    (he : ∀ a, 0 < e a) (hS : ∀ y, ∑ a, (∑ i, V a i * y i) ^ 2 / e a ≤ qf H y)
    (y : ιr → α) (s : ιa → α) : 0 ≤ expForm H V e y s := by
  unfold expForm
  have h1 : ∑ a, (∑ i, V a i * y i) ^ 2 / e a + 2 * ∑ a, s a * (∑ i, V a i * y i)
      + ∑ a, e a * s a ^ 2 = ∑ a, ((∑ i, V a i * y i) + e a * s a) ^ 2 / e a := by
    rw [Finset.mul_sum, ← Finset.sum_add_distrib, ← Finset.sum_add_distrib]
    refine Finset.sum_congr rfl fun a _ => ?_
    have := (he a).ne'
    field_simp
    ring
  have h2 : 0 ≤ ∑ a, ((∑ i, V a i * y i) + e a * s a) ^ 2 / e a :=
    Finset.sum_nonneg fun a _ => div_nonneg (sq_nonneg _) (he a).le
  have := hS y
  linarith

end Exp

/-! ### (4) the regularised KKT matrix of a cone list -/

section ListKkt
variable {ι₁ ιp L : Type} [Fintype ι₁] [DecidableEq ι₁] [Fintype ιp] [DecidableEq ιp]
  [Fintype L] [DecidableEq L] {ιr ιa : L → Type} [∀ i, Fintype (ιr i)] [∀ i, DecidableEq (ιr i)]
  [∀ i, Fintype (ιa i)] [∀ i, DecidableEq (ιa i)]

/-- The regularised KKT matrix of a cone list (`L` = positions in the list), index type
`(primal ⊕ plus-aux) ⊕ Σ cone, (rows ⊕ minus-aux)`:
```
 primal        [ P + εI      0        ·Bᵀ· ]
 plus-aux      [   0     diag(ep)+εI  ·Bᵀ· ]
 cone i        [  ·B·       ·B·    −[[Hᵢ+εI, Vᵢ],[Vᵢᵀ, diag(eᵢ)+εI]] (block diagonal) ]
```
`B` is the coupling between the `−` block and the `+` block: the rows of `A` (cone rows ×
primal) and the `+` auxiliary columns of the expansions (cone rows × plus-aux). -/
def listKkt (P : ι₁ → ι₁ → α) (ep : ιp → α) (B : (Σ i, ιr i ⊕ ιa i) → ι₁ ⊕ ιp → α)
    (H : ∀ i, ιr i → ιr i → α) (V : ∀ i, ιa i → ιr i → α) (e : ∀ i, ιa i → α) (ε : α) :
    (ι₁ ⊕ ιp) ⊕ (Σ i, ιr i ⊕ ιa i) → (ι₁ ⊕ ιp) ⊕ (Σ i, ιr i ⊕ ιa i) → α :=
  blockK (dsum (addDiag P ε) (diagM (fun b => ep b + ε))) B
    (sigmaDiag (fun i => expBlock (H i) (V i) (e i) ε))

/-- [F] **the regularised KKT matrix of ANY cone list is quasidefinite with margin `ε`**, sign
pattern `+` on the primal and plus-auxiliary indices, `−` on the cone rows and minus-auxiliary
indices, provided `P ⪰ 0`, every `+` auxiliary diagonal entry is `≥ 0`, and every cone's bordered
block has a nonnegative form (`expForm`; for a cone without expansion: its Hs block is `⪰ 0`). -/
theorem quasiDefGE_listKkt {P : ι₁ → ι₁ → α} {ep : ιp → α}
    (B : (Σ i, ιr i ⊕ ιa i) → ι₁ ⊕ ιp → α)
    {H : ∀ i, ιr i → ιr i → α} {V : ∀ i, ιa i → ιr i → α} {e : ∀ i, ιa i → α} {ε : α}
    (hP : PosSemidef P) (hep : ∀ b, 0 ≤ ep b)
    (hH : ∀ i a b, H i a b = H i b a) (hform : ∀ i y s, 0 ≤ expForm (H i) (V i) (e i) y s) :
    QuasiDefGE (listKkt P ep B H V e ε) Sum.isLeft Finset.univ ε :=
  quasiDefGE_blockK B
    (posDefGE_dsum (posDefGE_addDiag hP) (posDefGE_diagM fun b => by linarith [hep b]))
    (posDefGE_sigmaDiag fun i => posDefGE_expBlock (hH i) (hform i))

/-- [F] hence, for ANY elimination order, every `LDLᵀ` pivot of the regularised KKT matrix of a
cone list has the recorded sign and modulus `≥ ε`; no pivot vanishes. -/
theorem listKkt_pivots {P : ι₁ → ι₁ → α} {ep : ιp → α}
    (B : (Σ i, ιr i ⊕ ιa i) → ι₁ ⊕ ιp → α)
    {H : ∀ i, ιr i → ιr i → α} {V : ∀ i, ιa i → ιr i → α} {e : ∀ i, ιa i → α} {ε : α}
    (hP : PosSemidef P) (hε : 0 < ε) (hep : ∀ b, 0 ≤ ep b)
    (hH : ∀ i a b, H i a b = H i b a) (hform : ∀ i y s, 0 ≤ expForm (H i) (V i) (e i) y s)
    (order : List ((ι₁ ⊕ ιp) ⊕ (Σ i, ιr i ⊕ ιa i))) (hnd : order.Nodup) :
    List.Forall₂ (fun p d => if p.isLeft then ε ≤ d else d ≤ -ε) order
        (pivots (listKkt P ep B H V e ε) order) ∧
      ∀ d ∈ pivots (listKkt P ep B H V e ε) order, d ≠ 0 :=
  ⟨pivots_margin_forall₂ order (quasiDefGE_listKkt B hP hep hH hform) hε hnd
      (fun _ _ => Finset.mem_univ _),
    pivots_ne_zero order ((quasiDefGE_listKkt B hP hep hH hform).quasiDef hε) hnd
      (fun _ _ => Finset.mem_univ _)⟩

end ListKkt

end Clarabel.Lemmas.KktInertiaList
