/-
  C07, round 3: passes that change the scaling strategy (`PrimalDual → Dual`, nonsymmetric cones
  only) do not execute `add_step` — helper lemmas for the reproducibility half ([S]).
-/
import ClarabelProofs.Lemmas.LoopPrefix
namespace Clarabel.Loop
section
set_option linter.unusedSectionVars false
variable {α : Type} [Mul α] [Div α] [Neg α] [OfNat α 0] [OfNat α 1]
  [LT α] [DecidableLT α] [LE α] [DecidableLE α] [BEq α] [FloatLike α]

theorem top_vars3 (cfg : Config α) (o : PassOracle α) (st : State α) :
    (top cfg o st).vars = st.vars ∧ (top cfg o st).prevVars = st.prevVars ∧
      (top cfg o st).scaling = st.scaling := ⟨rfl, rfl, rfl⟩

theorem cp_update_dual (cfg : Config α) :
    (∀ s sc x, cpInsufficientProgress cfg s sc = .Update x → x = .Dual ∧ cfg.symmetric = false ∧ sc = .PrimalDual) ∧
    (∀ ok sc x, cpNumericalError cfg ok sc = .Update x → x = .Dual ∧ cfg.symmetric = false ∧ sc = .PrimalDual) ∧
    (∀ a sc x, cpSmallStep cfg a sc = .Update x → x = .Dual ∧ cfg.symmetric = false ∧ sc = .PrimalDual) := by
  refine ⟨?_, ?_, ?_⟩
  · intro s sc x h
    unfold cpInsufficientProgress at h
    split at h
    · cases h
    · split at h
      · rename_i hc
        cases h
        cases sc <;> cases hs : cfg.symmetric <;> simp_all
      · cases h
  · intro ok sc x h
    unfold cpNumericalError at h
    split at h
    · cases h
    · split at h
      · rename_i hc
        cases h
        cases sc <;> cases hs : cfg.symmetric <;> simp_all
      · cases h
  · intro a sc x h
    unfold cpSmallStep at h
    split at h
    · rename_i hc
      cases h
      cases sc <;> cases hs : cfg.symmetric <;> simp_all
    · split at h <;> cases h

/-- a pass that changes the scaling strategy does not execute `add_step` -/
theorem switch_pass (cfg : Config α) (o : PassOracle α) (st st' : State α)
    (h : pass cfg o st = .cont st') (hsw : st'.scaling ≠ st.scaling) :
    cfg.symmetric = false ∧ st.scaling = .PrimalDual ∧ st'.scaling = .Dual ∧
      (st'.vars = st.vars ∨ st'.vars = st.prevVars) := by
  obtain ⟨c1, c2, c3⟩ := cp_update_dual cfg
  unfold pass at h
  split at h
  · -- passDone
    unfold passDone at h
    simp only at h
    split at h
    · rename_i s hcp
      cases h
      obtain ⟨rfl, e2, e3⟩ := c1 _ _ _ hcp
      refine ⟨e2, e3, rfl, ?_⟩
      simp only
      split
      · exact Or.inr rfl
      · exact Or.inl rfl
    · cases h
    · split at h <;> cases h
  · unfold passStep at h
    split at h
    · cases h
    · cases h
    · unfold passKkt at h
      simp only at h
      split at h
      · rename_i s hcp
        cases h
        obtain ⟨rfl, e2, e3⟩ := c2 _ _ _ hcp
        exact ⟨e2, e3, rfl, Or.inl rfl⟩
      · cases h
      · split at h
        · rename_i s hcp
          cases h
          obtain ⟨rfl, e2, e3⟩ := c3 _ _ _ hcp
          exact ⟨e2, e3, rfl, Or.inl rfl⟩
        · cases h
        · cases h
          exact absurd rfl hsw
end
end Clarabel.Loop
