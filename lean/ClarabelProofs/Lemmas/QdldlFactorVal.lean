/-
  C12: `_factor_inner` on arbitrary patterns, value part (any field).

  On top of the structural invariant of `QdldlFactor.lean`: after `k` iterations the stored
  entries and `D` are the rows `< k` of *the* LDLᵀ factorisation of the dense symmetric matrix
  `a` represented by `(Ap, Ai, Ax)`: there are `ℓ` (strictly lower triangular, zero outside the
  symbolic pattern) and `d` with, for every row `r < k`,
    `ℓ r c · d c + Σ_{j<c} ℓ c j · (ℓ r j · d j) = a c r`   (c < r)        -- (L D Lᵀ)[r,c] = A[c,r]
    `d r = regularise_r (a r r − Σ_{j<r} (ℓ r j · d j) · ℓ r j)`            -- pivot rule on the Schur complement
  `d r ≠ 0`, `Dinv = 1/d`, and the counters count the positive / regularised pivots.
-/
import ClarabelProofs.Lemmas.QdldlFactor
import Mathlib.Algebra.BigOperators.Fin
import Mathlib.Algebra.Field.Basic
import Mathlib.Tactic.Ring
import Mathlib.Tactic.FieldSimp

namespace Clarabel.Qdldl
open BigOperators

variable {α : Type} [Field α] [DecidableEq α] [LT α] [DecidableLT α] [FloatLike α]
variable {n : Nat} {Ap Ai : Array Nat} {etree : Array (Option Nat)} {Lnz : Array Nat}

/-! ### algebra helpers -/

theorem colSubP_getD (Li : Array Nat) (Lx : Array α) (yc : α) (js : List Nat) (yv : Array α)
    (hb : ∀ j ∈ js, Li.getD j 0 < yv.size) (r : Nat) :
    (colSubP Li Lx yc js yv).getD r 0 = yv.getD r 0 - colSum Li Lx js r * yc := by
  unfold colSubP
  induction js generalizing yv with
  | nil => simp [colSum]
  | cons j t ih =>
    have hj := hb j (by simp)
    rw [List.foldl_cons, ih _ (by intro j' hj'; simpa using hb j' (List.mem_cons_of_mem _ hj'))]
    have hc : colSum Li Lx (j :: t) r = (if Li.getD j 0 = r then Lx.getD j 0 else 0) + colSum Li Lx t r := by
      simp only [colSum, List.map_cons, List.sum_cons]
    rw [hc, getD_setIfInBounds]
    by_cases hr : r = Li.getD j 0
    · subst hr
      rw [if_pos ⟨rfl, hj⟩, if_pos rfl]; ring
    · rw [if_neg (fun h => hr h.1), if_neg (fun h => hr h.symm)]; ring

theorem sum_map_ite_eq (rows : List Nat) (hnd : rows.Nodup) (x : Nat) (h : Nat → α) :
    (rows.map (fun r => if r = x then h r else 0)).sum = if x ∈ rows then h x else 0 := by
  induction rows with
  | nil => simp
  | cons r t ih =>
    rw [List.nodup_cons] at hnd
    rw [List.map_cons, List.sum_cons, ih hnd.2]
    by_cases hrx : r = x
    · subst hrx
      simp [hnd.1]
    · have : x ∈ r :: t ↔ x ∈ t := by simp [List.mem_cons, Ne.symm hrx]
      simp only [hrx, ↓reduceIte, zero_add, this]

theorem Lrows_nodup (A : Nat → Nat → Prop) (k c : Nat) : (Lrows A k c).Nodup := by
  unfold Lrows
  exact List.nodup_range.filter _

/-- the stored part of column `c` has the dense meaning `ℓ · c` -/
theorem colSum_match (A : Nat → Nat → Prop) (k c f : Nat) (Li : Array Nat) (Lx : Array α)
    (ℓ : Nat → Nat → α)
    (hli : ∀ t r, (Lrows A k c)[t]? = some r → Li.getD (f + t) 0 = r)
    (hlx : ∀ t r, (Lrows A k c)[t]? = some r → Lx.getD (f + t) 0 = ℓ r c)
    (hz : ∀ r, ¬ (r < k ∧ Lpat A r c) → ℓ r c = 0) (x : Nat) :
    colSum Li Lx (List.range' f (Lrows A k c).length) x = ℓ x c := by
  have hmap : (List.range' f (Lrows A k c).length).map
      (fun j => if Li.getD j 0 = x then Lx.getD j 0 else 0) =
      (Lrows A k c).map (fun r => if r = x then ℓ r c else 0) := by
    apply List.ext_getElem
    · simp
    · intro i h1 h2
      simp only [List.length_map, List.length_range'] at h1
      have hget : (Lrows A k c)[i]? = some (Lrows A k c)[i] := by simp [h1]
      simp only [List.getElem_map, List.getElem_range', Nat.one_mul]
      rw [hli i _ hget, hlx i _ hget]
  unfold colSum
  rw [hmap, sum_map_ite_eq _ (Lrows_nodup A k c)]
  by_cases hx : x ∈ Lrows A k c
  · rw [if_pos hx]
  · rw [if_neg hx]
    exact (hz x (fun h => hx ((mem_Lrows A k c x).mpr h))).symm

theorem sum_update (k c : Nat) (hc : c < k) (F : Nat → α → α) (yg : Nat → α) (yc : α)
    (h0 : F c (yg c) = 0) :
    ∑ j ∈ Finset.range k, F j (Function.update yg c yc j) =
      ∑ j ∈ Finset.range k, F j (yg j) + F c yc := by
  have hm : c ∈ Finset.range k := Finset.mem_range.mpr hc
  rw [← Finset.add_sum_erase _ _ hm, ← Finset.add_sum_erase _ (fun j => F j (yg j)) hm, h0, zero_add,
    Function.update_self, add_comm]
  congr 1
  refine Finset.sum_congr rfl (fun j hj => ?_)
  rw [Function.update_of_ne (Finset.ne_of_mem_erase hj)]

theorem sum_range_trunc (k c : Nat) (hck : c ≤ k) (f : Nat → α) (hz : ∀ j, c ≤ j → j < k → f j = 0) :
    ∑ j ∈ Finset.range k, f j = ∑ j ∈ Finset.range c, f j := by
  symm
  apply Finset.sum_subset
  · intro j hj; rw [Finset.mem_range] at hj ⊢; omega
  · intro j hj hnj
    rw [Finset.mem_range] at hj hnj
    exact hz j (by omega) hj

/-! ### the value invariant -/

/-- Schur complement of the diagonal entry `r` -/
def rawPivot (a : Nat → Nat → α) (ℓ : Nat → Nat → α) (d : Nat → α) (r : Nat) : α :=
  a r r - ∑ j ∈ Finset.range r, (ℓ r j * d j) * ℓ r j

/-- the rows `< k` of `ℓ, d` are the LDLᵀ factorisation of `a` (with the pivot rule `rp`) -/
structure IsLDL (Ap Ai : Array Nat) (a : Nat → Nat → α) (rp : RegParams α) (k : Nat)
    (ℓ : Nat → Nat → α) (d : Nat → α) : Prop where
  zero : ∀ r c, ¬ (r < k ∧ Lpat (Apat Ap Ai) r c) → ℓ r c = 0
  offdiag : ∀ r, r < k → ∀ c, c < r →
    ℓ r c * d c + ∑ j ∈ Finset.range c, ℓ c j * (ℓ r j * d j) = a c r
  diag : ∀ r, r < k →
    d r = (regularizePivot rp.enable rp.eps rp.delta (rp.Dsigns.getD r 0) (rawPivot a ℓ d r)).1
  nz : ∀ c, c < k → d c ≠ 0

/-- the value invariant of the main loop at the start of iteration `k` -/
def ValInv (Ap Ai : Array Nat) (Lnz : Array Nat) (a : Nat → Nat → α) (rp : RegParams α) (n k : Nat)
    (s : FState α) : Prop :=
  ∃ (ℓ : Nat → Nat → α) (d : Nat → α), IsLDL Ap Ai a rp k ℓ d ∧
    (∀ c, c < n → ∀ t r, (Lrows (Apat Ap Ai) k c)[t]? = some r → s.Lx.getD (LpOf Lnz c + t) 0 = ℓ r c) ∧
    (∀ c, c < k → s.D.getD c 0 = d c) ∧
    (∀ c, c < k → s.Dinv.getD c 0 = 1 / d c) ∧
    s.positive = ((List.range k).filter (fun c => decide (0 < d c))).length ∧
    s.regularizeCount = ((List.range k).filter (fun r =>
      (regularizePivot rp.enable rp.eps rp.delta (rp.Dsigns.getD r 0) (rawPivot a ℓ d r)).2)).length

/-- invariant of the second loop of iteration `k` (values) -/
def ValMid (Lnz : Array Nat) (a : Nat → Nat → α) (n k : Nat) (ℓ : Nat → Nat → α) (d : Nat → α)
    (len : Nat → Nat) (pre : List Nat) (t : FState α) : Prop :=
  ∃ yg : Nat → α,
    (∀ j, j ∉ pre → yg j = 0) ∧
    (∀ x, x < n → x ∉ pre →
      t.yVals.getD x 0 = (if x < k then a x k else 0) - ∑ j ∈ Finset.range k, ℓ x j * yg j) ∧
    (∀ c ∈ pre, yg c + ∑ j ∈ Finset.range k, ℓ c j * yg j = a c k) ∧
    (∀ c ∈ pre, t.Lx.getD (LpOf Lnz c + len c) 0 = yg c * (1 / d c)) ∧
    t.D.getD k 0 = a k k - ∑ j ∈ Finset.range k, yg j * (yg j * (1 / d j))

theorem val_mid_step (C : FCtx n Ap Ai etree Lnz) (a : Nat → Nat → α) (rp : RegParams α)
    (LiSz : Nat) (hLi : LpOf Lnz n ≤ LiSz) (k : Nat) (hk : k < n) (ord : List Nat)
    (hO : OrdOK Ap Ai k ord) (s1 : FState α) (ℓ : Nat → Nat → α) (d : Nat → α)
    (hL : IsLDL Ap Ai a rp k ℓ d)
    (hM1 : ∀ x, x < n → ∀ t' r, (Lrows (Apat Ap Ai) k x)[t']? = some r →
      s1.Lx.getD (LpOf Lnz x + t') 0 = ℓ r x)
    (hDinv : ∀ c, c < k → s1.Dinv.getD c 0 = 1 / d c)
    (pre : List Nat) (c : Nat) (post : List Nat) (hord : ord = pre ++ c :: post) (t : FState α)
    (hM : Mid Ap Ai Lnz n k LiSz ord s1 pre t)
    (hV : ValMid Lnz a n k ℓ d (fun x => (Lrows (Apat Ap Ai) k x).length) pre t) :
    ValMid Lnz a n k ℓ d (fun x => (Lrows (Apat Ap Ai) k x).length) (pre ++ [c]) (rowElimP k t c) := by
  obtain ⟨hcn, hck, hLc, hcpre, hlpc, hncc, hlen, hslot, hrows⟩ :=
    mid_facts C LiSz hLi k hk ord hO s1 pre c post hord t hM
  obtain ⟨yg, hY0, hY1, hY2, hY3, hY4⟩ := hV
  have hygc : yg c = 0 := hY0 c hcpre
  have hyc : t.yVals.getD c 0 = a c k - ∑ j ∈ Finset.range k, ℓ c j * yg j := by
    rw [hY1 c hcn hcpre, if_pos hck]
  have hmem_app : ∀ x, x ∈ pre ++ [c] ↔ (x ∈ pre ∨ x = c) := by intro x; simp
  have hdinv : t.Dinv.getD c 0 = 1 / d c := by rw [hM.fDinv]; exact hDinv c hck
  refine ⟨Function.update yg c (t.yVals.getD c 0), ?_, ?_, ?_, ?_, ?_⟩
  · intro j hj
    have hjc : j ≠ c := fun e => hj ((hmem_app j).mpr (Or.inr e))
    rw [Function.update_of_ne hjc]
    exact hY0 j (fun h => hj ((hmem_app j).mpr (Or.inl h)))
  · intro x hx hxp
    have hxc : x ≠ c := fun e => hxp ((hmem_app x).mpr (Or.inr e))
    have hxp' : x ∉ pre := fun h => hxp ((hmem_app x).mpr (Or.inl h))
    show ((colSubP t.Li t.Lx (t.yVals.getD c 0)
      (List.range' (t.Lp.getD c 0) (t.nextColspace.getD c 0 - t.Lp.getD c 0)) t.yVals).setIfInBounds c 0).getD x 0 = _
    rw [getD_setIfInBounds, if_neg (fun h => hxc h.1), colSubP_getD _ _ _ _ _ (by
      intro j hj
      rw [List.mem_range'_1, hlpc, hncc] at hj
      rw [hM.yvsz]; have := (hrows j hj.1 (by omega)).1; omega)]
    rw [hlpc, hncc, Nat.add_sub_cancel_left,
      colSum_match (Apat Ap Ai) k c (LpOf Lnz c) t.Li t.Lx ℓ (hM.li_old c hcn) (by
        intro t' r hr
        have ht' : t' < (Lrows (Apat Ap Ai) k c).length := by
          rcases Nat.lt_or_ge t' (Lrows (Apat Ap Ai) k c).length with h | h
          · exact h
          · rw [List.getElem?_eq_none h] at hr; cases hr
        rw [hM.lx_old c hcn t' ht']; exact hM1 c hcn t' r hr) (fun r hr => hL.zero r c hr) x,
      hY1 x hx hxp',
      sum_update k c hck (fun j y => ℓ x j * y) yg (t.yVals.getD c 0) (by simp [hygc])]
    ring
  · intro c' hc'
    rcases (hmem_app c').mp hc' with h | h
    · have hc'c : c' ≠ c := fun e => hcpre (e ▸ h)
      have hz : ℓ c' c = 0 := by
        apply hL.zero
        intro hh
        have := hO.topo
        rw [hord, List.pairwise_append] at this
        exact this.2.2 c' h c (by simp) hh.2
      rw [Function.update_of_ne hc'c,
        sum_update k c hck (fun j y => ℓ c' j * y) yg (t.yVals.getD c 0) (by simp [hygc]), hz, zero_mul,
        add_zero]
      exact hY2 c' h
    · subst h
      have hz : ℓ c' c' = 0 := hL.zero c' c' (fun hh => Nat.lt_irrefl _ hh.2.lt)
      rw [Function.update_self,
        sum_update k c' hck (fun j y => ℓ c' j * y) yg (t.yVals.getD c' 0) (by simp [hygc]), hz, zero_mul,
        add_zero, hyc]
      ring
  · intro c' hc'
    show (t.Lx.setIfInBounds (t.nextColspace.getD c 0) (t.yVals.getD c 0 * t.Dinv.getD c 0)).getD _ 0 = _
    rw [getD_setIfInBounds]
    rcases (hmem_app c').mp hc' with h | h
    · have hc'c : c' ≠ c := fun e => hcpre (e ▸ h)
      have hc'ord : c' ∈ ord := by rw [hord]; simp [h]
      obtain ⟨hc'k, hLc'⟩ := hO.mem c' hc'ord
      rw [if_neg, Function.update_of_ne hc'c]
      · exact hY3 c' h
      · intro h'
        rw [hncc] at h'
        exact slot_ne C c' c _ _ (by omega) hcn hc'c (Llen_lt _ _ _ _ hLc' hk) hlen h'.1
    · subst h
      rw [if_pos ⟨by rw [hncc], by rw [hM.lxsz, hncc]; exact hslot⟩, Function.update_self, hdinv]
  · show (t.D.setIfInBounds k (t.D.getD k 0 - t.yVals.getD c 0 * (t.yVals.getD c 0 * t.Dinv.getD c 0))).getD k 0 = _
    rw [getD_setIfInBounds, if_pos ⟨rfl, by rw [hM.dsz]; exact hk⟩, hY4, hdinv,
      sum_update k c hck (fun j y => y * (y * (1 / d j))) yg (t.yVals.getD c 0) (by simp [hygc])]
    ring

/-- one iteration of the main loop preserves the value invariant -/
theorem val_row_step (C : FCtx n Ap Ai etree Lnz) (Ax : Array α) (a : Nat → Nat → α)
    (hR : Represents n Ap Ai Ax a) (rp : RegParams α) (LiSz : Nat) (hLi : LpOf Lnz n ≤ LiSz)
    (k : Nat) (hk1 : 1 ≤ k) (hk : k < n) (s s' : FState α) (hI : RowInv Ap Ai Lnz n k LiSz s)
    (hV : ValInv Ap Ai Lnz a rp n k s) (hD : RowData Ap Ai etree Lnz a n LiSz rp k s s') :
    ValInv Ap Ai Lnz a rp n (k + 1) s' := by
  obtain ⟨ℓ, d, hL, hVlx, hVd, hVdi, hVpos, hVrc⟩ := hV
  obtain ⟨s1, yIdx, hO, hP, hM0, hM2, hs', hpz⟩ := hD.ex
  have e3 := hP.fLx; have e4 := hP.fDinv; have e6 := hP.frc; have e7 := hP.fpos
  simp only at e3 e4 e6 e7
  -- the loaded column
  have hA1 : ∀ x, x < n → s1.yVals.getD x 0 = if x < k then a x k else 0 := by
    intro x hx
    by_cases hst : x ≠ k ∧ ∃ i ∈ List.range' (Ap.getD k 0) (Ap.getD (k + 1) 0 - Ap.getD k 0), Ai.getD i 0 = x
    · obtain ⟨hxk, i, hi, hix⟩ := hst
      rw [List.mem_range'_1] at hi
      have := C.tri.rows k hk i hi.1 (by omega)
      have h1 := hP.yv1 x hx hxk ⟨i, by rw [List.mem_range'_1]; exact hi, hix⟩
      simp only at h1
      rw [h1, if_pos (by omega)]
    · have h0 := hP.yv0 x hx (by
        by_cases hxk : x = k
        · exact Or.inl hxk
        · exact Or.inr (fun h => hst ⟨hxk, h⟩))
      simp only at h0
      rw [h0, hI.yv0 x hx]
      by_cases hxk : x < k
      · rw [if_pos hxk]
        symm
        apply hR.zero
        rintro ⟨t, h1, h2, h3⟩
        exact hst ⟨by omega, t, by rw [List.mem_range'_1]; omega, h3⟩
      · rw [if_neg hxk]
  have hA2 : s1.D.getD k 0 = a k k := by
    by_cases hst : ∃ i ∈ List.range' (Ap.getD k 0) (Ap.getD (k + 1) 0 - Ap.getD k 0), Ai.getD i 0 = k
    · exact hP.dk1 hst
    · have := hP.dk0 hst
      simp only at this
      rw [this, hI.dz k (Nat.le_refl _) hk]
      symm
      apply hR.zero
      rintro ⟨t, h1, h2, h3⟩
      exact hst ⟨t, by rw [List.mem_range'_1]; omega, h3⟩
  -- the second loop
  have hM1 : ∀ x, x < n → ∀ t' r, (Lrows (Apat Ap Ai) k x)[t']? = some r →
      s1.Lx.getD (LpOf Lnz x + t') 0 = ℓ r x := by
    intro x hx t' r hr; rw [e3]; exact hVlx x hx t' r hr
  have hDinv1 : ∀ c, c < k → s1.Dinv.getD c 0 = 1 / d c := by
    intro c hc; rw [e4]; exact hVdi c hc
  have hmid : ValMid Lnz a n k ℓ d (fun x => (Lrows (Apat Ap Ai) k x).length) yIdx.reverse
      (yIdx.reverse.foldl (rowElimP k) s1) := by
    have := foldl_list_inv (rowElimP k)
      (fun pre t => Mid Ap Ai Lnz n k LiSz yIdx.reverse s1 pre t ∧
        ValMid Lnz a n k ℓ d (fun x => (Lrows (Apat Ap Ai) k x).length) pre t)
      yIdx.reverse s1 ⟨hM0, fun _ => 0, fun _ _ => rfl, by
        intro x hx _; rw [hA1 x hx]; simp, by simp, by simp, by rw [hA2]; simp⟩ (by
        intro pre c post hl t ⟨hMt, hVt⟩
        exact ⟨(mid_step C LiSz hLi k hk yIdx.reverse hO s1 pre c post hl t hMt).2,
          val_mid_step C a rp LiSz hLi k hk yIdx.reverse hO s1 ℓ d hL hM1 hDinv1 pre c post hl t hMt hVt⟩)
    exact this.2
  obtain ⟨yg, hY0, _, hY2, hY3, hY4⟩ := hmid
  generalize hs2 : yIdx.reverse.foldl (rowElimP k) s1 = s2 at *
  -- names
  have hordL : ∀ c, c ∈ yIdx.reverse ↔ Lpat (Apat Ap Ai) k c :=
    fun c => ⟨fun h => (hO.mem c h).2, hO.complete c⟩
  have hdnz : ∀ j, j < k → d j ≠ 0 := hL.nz
  have hcancel : ∀ j, j < k → yg j * (1 / d j) * d j = yg j := by
    intro j hj; field_simp [hdnz j hj]
  set r := regularizePivot rp.enable rp.eps rp.delta (rp.Dsigns.getD k 0) (s2.D.getD k 0) with hr
  have hrnz : r.1 ≠ 0 := by
    intro h; rw [h] at hpz; simp at hpz
  let ℓ' : Nat → Nat → α := fun r' c => if r' = k then yg c * (1 / d c) else ℓ r' c
  let d' : Nat → α := Function.update d k r.1
  have hℓ'k : ∀ c, ℓ' k c = yg c * (1 / d c) := fun c => if_pos rfl
  have hℓ'o : ∀ r' c, r' ≠ k → ℓ' r' c = ℓ r' c := fun r' c h => if_neg h
  have hd'k : d' k = r.1 := Function.update_self ..
  have hd'o : ∀ j, j ≠ k → d' j = d j := fun j h => Function.update_of_ne h ..
  have hraw_old : ∀ r', r' < k → rawPivot a ℓ' d' r' = rawPivot a ℓ d r' := by
    intro r' hr'
    unfold rawPivot
    congr 1
    refine Finset.sum_congr rfl (fun j hj => ?_)
    rw [Finset.mem_range] at hj
    rw [hℓ'o r' j (by omega), hd'o j (by omega)]
  have hraw_k : rawPivot a ℓ' d' k = s2.D.getD k 0 := by
    unfold rawPivot
    rw [hY4]
    congr 1
    refine Finset.sum_congr rfl (fun j hj => ?_)
    rw [Finset.mem_range] at hj
    rw [hℓ'k, hd'o j (by omega), hcancel j hj]
  have hs'D : ∀ c, s'.D.getD c 0 = if c = k then r.1 else s2.D.getD c 0 := by
    intro c
    rw [hs']
    show (s2.D.setIfInBounds k r.1).getD c 0 = _
    rw [getD_setIfInBounds]
    by_cases hc : c = k
    · rw [if_pos ⟨hc, by rw [hM2.dsz]; exact hk⟩, if_pos hc]
    · rw [if_neg (fun h => hc h.1), if_neg hc]
  have hs'Di : ∀ c, s'.Dinv.getD c 0 = if c = k then 1 / r.1 else s2.Dinv.getD c 0 := by
    intro c
    rw [hs']
    show (s2.Dinv.setIfInBounds k (1 / r.1)).getD c 0 = _
    rw [getD_setIfInBounds]
    by_cases hc : c = k
    · rw [if_pos ⟨hc, by rw [hM2.disz]; exact hk⟩, if_pos hc]
    · rw [if_neg (fun h => hc h.1), if_neg hc]
  refine ⟨ℓ', d', ⟨?_, ?_, ?_, ?_⟩, ?_, ?_, ?_, ?_, ?_⟩
  · -- zero pattern
    intro r' c hn'
    by_cases hr'k : r' = k
    · subst hr'k
      rw [hℓ'k, hY0 c (fun h => hn' ⟨by omega, (hordL c).mp h⟩), zero_mul]
    · rw [hℓ'o r' c hr'k]
      exact hL.zero r' c (fun h => hn' ⟨by omega, h.2⟩)
  · -- off-diagonal equations
    intro r' hr' c hc
    by_cases hr'k : r' = k
    · subst hr'k
      have hsum : ∑ j ∈ Finset.range c, ℓ' c j * (ℓ' r' j * d' j) = ∑ j ∈ Finset.range c, ℓ c j * yg j := by
        refine Finset.sum_congr rfl (fun j hj => ?_)
        rw [Finset.mem_range] at hj
        rw [hℓ'o c j (by omega), hℓ'k, hd'o j (by omega), hcancel j (by omega)]
      rw [hsum, hℓ'k, hd'o c (by omega), hcancel c hc]
      by_cases hco : c ∈ yIdx.reverse
      · rw [← hY2 c hco, sum_range_trunc r' c (by omega) (fun j => ℓ c j * yg j) (by
          intro j hj1 _
          rw [hL.zero c j (fun h => by have := h.2.lt; omega), zero_mul])]
      · have hacz : a c r' = 0 := by
          apply hR.zero
          rintro ⟨t, h1, h2, h3⟩
          exact hco ((hordL c).mpr (Lpat.base hc ⟨t, h1, h2, h3⟩))
        rw [hY0 c hco, hacz, zero_add]
        apply Finset.sum_eq_zero
        intro j hj
        rw [Finset.mem_range] at hj
        by_cases hjo : j ∈ yIdx.reverse
        · rw [hL.zero c j (fun h => hco ((hordL c).mpr (Lpat.fill hj hc h.2 ((hordL j).mp hjo)))), zero_mul]
        · rw [hY0 j hjo, mul_zero]
    · have hr'' : r' < k := by omega
      have hsum : ∑ j ∈ Finset.range c, ℓ' c j * (ℓ' r' j * d' j) = ∑ j ∈ Finset.range c, ℓ c j * (ℓ r' j * d j) := by
        refine Finset.sum_congr rfl (fun j hj => ?_)
        rw [Finset.mem_range] at hj
        rw [hℓ'o c j (by omega), hℓ'o r' j hr'k, hd'o j (by omega)]
      rw [hsum, hℓ'o r' c hr'k, hd'o c (by omega)]
      exact hL.offdiag r' hr'' c hc
  · -- pivots
    intro r' hr'
    by_cases hr'k : r' = k
    · subst hr'k; rw [hd'k, hraw_k]
    · rw [hd'o r' hr'k, hraw_old r' (by omega)]
      exact hL.diag r' (by omega)
  · intro c hc
    by_cases hck : c = k
    · subst hck; rw [hd'k]; exact hrnz
    · rw [hd'o c hck]; exact hL.nz c (by omega)
  · -- stored values
    intro c hc t' r' hr'
    rw [hs']
    show s2.Lx.getD _ 0 = _
    rcases Lrows_getElem?_succ _ _ _ _ _ hr' with ⟨hlt, h⟩ | ⟨ht, hrk, hLk⟩
    · have hmem := (mem_Lrows (Apat Ap Ai) k c r').mp (List.mem_of_getElem? h)
      rw [hM2.lx_old c hc t' hlt, hℓ'o r' c (by omega)]
      exact hM1 c hc t' r' h
    · rw [ht, hrk, hℓ'k]
      exact hY3 c ((hordL c).mpr hLk)
  · intro c hc
    rw [hs'D]
    by_cases hck : c = k
    · subst hck; rw [if_pos rfl, hd'k]
    · rw [if_neg hck, hd'o c hck, hM2.dother c hck]
      have := hP.dother c hck
      simp only at this
      rw [this]; exact hVd c (by omega)
  · intro c hc
    rw [hs'Di]
    by_cases hck : c = k
    · subst hck; rw [if_pos rfl, hd'k]
    · rw [if_neg hck, hd'o c hck, hM2.fDinv, e4]
      exact hVdi c (by omega)
  · rw [hs']
    show s2.positive + _ = _
    rw [hM2.fpos, e7, hVpos, List.range_succ, List.filter_append]
    have : (List.range k).filter (fun c => decide (0 < d' c)) =
        (List.range k).filter (fun c => decide (0 < d c)) := by
      apply List.filter_congr
      intro c hc
      rw [List.mem_range] at hc
      rw [hd'o c (by omega)]
    rw [this, List.length_append]
    congr 1
    by_cases hp : 0 < r.1
    · rw [if_pos hp, List.filter_cons, hd'k, if_pos (decide_eq_true hp)]; rfl
    · rw [if_neg hp, List.filter_cons, hd'k, if_neg (by rw [decide_eq_true_eq]; exact hp)]; rfl
  · rw [hs']
    show s2.regularizeCount + _ = _
    rw [hM2.frc, e6, hVrc, List.range_succ, List.filter_append]
    have : (List.range k).filter (fun r' =>
          (regularizePivot rp.enable rp.eps rp.delta (rp.Dsigns.getD r' 0) (rawPivot a ℓ' d' r')).2) =
        (List.range k).filter (fun r' =>
          (regularizePivot rp.enable rp.eps rp.delta (rp.Dsigns.getD r' 0) (rawPivot a ℓ d r')).2) := by
      apply List.filter_congr
      intro c hc
      rw [List.mem_range] at hc
      rw [hraw_old c hc]
    rw [this, List.length_append]
    congr 1
    rw [List.filter_cons, hraw_k, ← hr]
    cases hb : r.2
    · rw [if_neg (by simp), if_neg (by simp)]; rfl
    · rw [if_pos rfl, if_pos rfl]; rfl

/-- the value invariant after the first pivot -/
theorem val_init (C : FCtx n Ap Ai etree Lnz) (a : Nat → Nat → α) (rp : RegParams α)
    (Li : Array Nat) (Lx Dinv : Array α) (hDi : Dinv.size = n)
    (hz : ((regularizePivot rp.enable rp.eps rp.delta (rp.Dsigns.getD 0 0) (a 0 0)).1 == (0 : α)) = false) :
    ValInv Ap Ai Lnz a rp n 1 (pivotState rp 0 (initState Lnz n Li Lx Dinv (a 0 0))) := by
  have hn := C.hn
  have hrep0 : 0 < (Array.replicate n (0 : α)).size := by simpa using hn
  have hinitD : (initState Lnz n Li Lx Dinv (a 0 0)).D.getD 0 0 = a 0 0 := by
    show ((Array.replicate n (0 : α)).setIfInBounds 0 (a 0 0)).getD 0 0 = a 0 0
    rw [getD_setIfInBounds, if_pos ⟨rfl, hrep0⟩]
  set r := regularizePivot rp.enable rp.eps rp.delta (rp.Dsigns.getD 0 0) (a 0 0) with hr
  have hrnz : r.1 ≠ 0 := by intro h; rw [h] at hz; simp at hz
  have hl1 : ∀ c, Lrows (Apat Ap Ai) 1 c = [] := by
    intro c
    rw [Lrows_succ]
    have : ¬ Lpat (Apat Ap Ai) 0 c := fun h => by have := h.lt; omega
    simp [this, Lrows]
  have hraw : rawPivot a (fun _ _ => (0 : α)) (fun _ => r.1) 0 = a 0 0 := by
    simp [rawPivot]
  have hD0 : (pivotState rp 0 (initState Lnz n Li Lx Dinv (a 0 0))).D.getD 0 0 = r.1 := by
    show ((initState Lnz n Li Lx Dinv (a 0 0)).D.setIfInBounds 0 _).getD 0 0 = r.1
    rw [getD_setIfInBounds, if_pos ⟨rfl, by
      show 0 < ((Array.replicate n (0 : α)).setIfInBounds 0 (a 0 0)).size
      simpa using hn⟩, hinitD]
  have hDi0 : (pivotState rp 0 (initState Lnz n Li Lx Dinv (a 0 0))).Dinv.getD 0 0 = 1 / r.1 := by
    show (Dinv.setIfInBounds 0 _).getD 0 0 = 1 / r.1
    rw [getD_setIfInBounds, if_pos ⟨rfl, by omega⟩, hinitD]
  refine ⟨fun _ _ => 0, fun _ => r.1, ⟨fun _ _ _ => rfl, ?_, ?_, fun _ _ => hrnz⟩, ?_, ?_, ?_, ?_, ?_⟩
  · intro r' hr' c hc; omega
  · intro r' hr'
    have : r' = 0 := by omega
    subst this
    rw [hraw]
  · intro c hc t' r' h; rw [hl1] at h; simp at h
  · intro c hc
    have : c = 0 := by omega
    subst this; exact hD0
  · intro c hc
    have : c = 0 := by omega
    subst this; exact hDi0
  · show 0 + (if (0 : α) < (regularizePivot rp.enable rp.eps rp.delta (rp.Dsigns.getD 0 0)
        ((initState Lnz n Li Lx Dinv (a 0 0)).D.getD 0 0)).1 then 1 else 0) = _
    rw [hinitD, ← hr, Nat.zero_add]
    by_cases hp : 0 < r.1
    · rw [if_pos hp]; simp [List.range_succ, hp]
    · rw [if_neg hp]; simp [List.range_succ, hp]
  · show 0 + (if (regularizePivot rp.enable rp.eps rp.delta (rp.Dsigns.getD 0 0)
        ((initState Lnz n Li Lx Dinv (a 0 0)).D.getD 0 0)).2 then 1 else 0) = _
    rw [hinitD, ← hr, Nat.zero_add, List.range_succ, List.range_zero, List.nil_append, List.filter_cons, hraw,
      ← hr]
    cases hb : r.2
    · rw [if_neg (by simp), if_neg (by simp)]; rfl
    · rw [if_pos rfl, if_pos rfl]; rfl

/-- **`_factor_inner` computes the LDLᵀ factorisation on every pattern** (invariant form) -/
theorem factorInner_val (C : FCtx n Ap Ai etree Lnz) (Ax : Array α) (a : Nat → Nat → α)
    (hR : Represents n Ap Ai Ax a) (Li : Array Nat) (Lx D Dinv : Array α)
    (hLi : LpOf Lnz n ≤ Li.size) (hLx : Lx.size = Li.size) (hDs : D.size = n) (hDi : Dinv.size = n)
    (rp : RegParams α) (hsg : rp.enable = true → n ≤ rp.Dsigns.size) :
    (factorInner n Ap Ai Ax Li Lx D Dinv Lnz etree false rp = .error errZeroPivot ∨
      ∃ s, factorInner n Ap Ai Ax Li Lx D Dinv Lnz etree false rp = .ok s) ∧
    ∀ s, factorInner n Ap Ai Ax Li Lx D Dinv Lnz etree false rp = .ok s →
      RowInv Ap Ai Lnz n n Li.size s ∧ ValInv Ap Ai Lnz a rp n n s :=
  factorInner_loop C Ax a hR Li Lx D Dinv hLi hLx hDs hDi rp hsg
    (fun k s => ValInv Ap Ai Lnz a rp n k s)
    (fun hz => val_init C a rp Li Lx Dinv hDi hz)
    (fun k s s' hk1 hk hI hV hD => val_row_step C Ax a hR rp Li.size hLi k hk1 hk s s' hI hV hD)

/-- the final structural invariant says that `(Lp, Li, Lx)` is a strictly lower triangular CSC
matrix whose column `c` holds exactly the rows of the symbolic factor -/
theorem lowerCsc_of_rowInv (C : FCtx n Ap Ai etree Lnz) (LiSz : Nat) (hLi : LpOf Lnz n ≤ LiSz)
    (s : FState α) (hI : RowInv Ap Ai Lnz n n LiSz s) :
    LowerCsc n s.Lp s.Li s.Lx ∧
      ∀ c, c < n → colIdx s.Lp c = List.range' (LpOf Lnz c) (Lrows (Apat Ap Ai) n c).length := by
  have hcol : ∀ c, c < n → colIdx s.Lp c = List.range' (LpOf Lnz c) (Lrows (Apat Ap Ai) n c).length := by
    intro c hc
    unfold colIdx
    rw [hI.lp]
    show List.range' (LpOf Lnz c) (LpOf Lnz (c + 1) - LpOf Lnz c) = _
    rw [LpOf_succ Lnz c (by rw [C.lsz]; exact hc), C.cnt c hc, Nat.add_sub_cancel_left]
  refine ⟨⟨?_, ?_, ?_, ?_, ?_⟩, hcol⟩
  · rw [hI.lp, (cumsum_spec Lnz).1, C.lsz]
  · intro c hc
    rw [hI.lp]
    exact LpOf_mono Lnz c (c + 1) (by omega) (by rw [C.lsz]; omega)
  · intro c hc
    rw [hI.lp, hI.lisz]
    have := LpOf_mono Lnz c n hc (by rw [C.lsz])
    show LpOf Lnz c ≤ LiSz
    omega
  · rw [hI.lxsz, hI.lisz]
  · intro c hc j hj
    rw [hcol c hc, List.mem_range'_1] at hj
    obtain ⟨t, rfl⟩ : ∃ t, j = LpOf Lnz c + t := ⟨j - LpOf Lnz c, by omega⟩
    have ht : t < (Lrows (Apat Ap Ai) n c).length := by omega
    have hget : (Lrows (Apat Ap Ai) n c)[t]? = some (Lrows (Apat Ap Ai) n c)[t] := by simp [ht]
    rw [hI.li c hc t _ hget]
    have hmem := (mem_Lrows (Apat Ap Ai) n c _).mp (List.getElem_mem ht)
    exact ⟨hmem.2.lt, hmem.1⟩

/-- **`_factor_inner` is correct on every pattern** (dense meaning of the output).  If the run
succeeds, the CSC output is strictly lower triangular with exactly the symbolic pattern, and with
`L = denseL Lp Li Lx`, `d = D`:
`L[r,c]·d[c] + Σ_{j<c} L[c,j]·(L[r,j]·d[j]) = a[c,r]` for `c < r`,
`d[r] = regularise_r (a[r,r] − Σ_{j<r} (L[r,j]·d[j])·L[r,j])`, `d[r] ≠ 0`, `Dinv = 1/d`,
and the two counters count the positive and the regularised pivots. -/
theorem factorInner_dense (C : FCtx n Ap Ai etree Lnz) (Ax : Array α) (a : Nat → Nat → α)
    (hR : Represents n Ap Ai Ax a) (Li : Array Nat) (Lx D Dinv : Array α)
    (hLi : LpOf Lnz n ≤ Li.size) (hLx : Lx.size = Li.size) (hDs : D.size = n) (hDi : Dinv.size = n)
    (rp : RegParams α) (hsg : rp.enable = true → n ≤ rp.Dsigns.size) (s : FState α)
    (hs : factorInner n Ap Ai Ax Li Lx D Dinv Lnz etree false rp = .ok s) :
    LowerCsc n s.Lp s.Li s.Lx ∧ s.D.size = n ∧ s.Dinv.size = n ∧
    (∀ r c, c < n → denseL s.Lp s.Li s.Lx r c ≠ 0 → Lpat (Apat Ap Ai) r c) ∧
    (∀ r, r < n → ∀ c, c < r →
      denseL s.Lp s.Li s.Lx r c * s.D.getD c 0 +
        ∑ j ∈ Finset.range c, denseL s.Lp s.Li s.Lx c j * (denseL s.Lp s.Li s.Lx r j * s.D.getD j 0) = a c r) ∧
    (∀ r, r < n → s.D.getD r 0 =
      (regularizePivot rp.enable rp.eps rp.delta (rp.Dsigns.getD r 0)
        (rawPivot a (denseL s.Lp s.Li s.Lx) (fun j => s.D.getD j 0) r)).1) ∧
    (∀ c, c < n → s.D.getD c 0 ≠ 0 ∧ s.Dinv.getD c 0 = 1 / s.D.getD c 0) ∧
    s.positive = ((List.range n).filter (fun c => decide (0 < s.D.getD c 0))).length ∧
    s.regularizeCount = ((List.range n).filter (fun r =>
      (regularizePivot rp.enable rp.eps rp.delta (rp.Dsigns.getD r 0)
        (rawPivot a (denseL s.Lp s.Li s.Lx) (fun j => s.D.getD j 0) r)).2)).length := by
  obtain ⟨hI, ℓ, d, hL, hVlx, hVd, hVdi, hVpos, hVrc⟩ :=
    (factorInner_val C Ax a hR Li Lx D Dinv hLi hLx hDs hDi rp hsg).2 s hs
  obtain ⟨hcsc, hcol⟩ := lowerCsc_of_rowInv C Li.size hLi s hI
  have hdense : ∀ r c, c < n → denseL s.Lp s.Li s.Lx r c = ℓ r c := by
    intro r c hc
    unfold denseL
    rw [hcol c hc]
    exact colSum_match (Apat Ap Ai) n c (LpOf Lnz c) s.Li s.Lx ℓ (hI.li c hc) (hVlx c hc)
      (fun r' hr' => hL.zero r' c hr') r
  have hraw : ∀ r, r < n → rawPivot a (denseL s.Lp s.Li s.Lx) (fun j => s.D.getD j 0) r = rawPivot a ℓ d r := by
    intro r hr
    unfold rawPivot
    congr 1
    refine Finset.sum_congr rfl (fun j hj => ?_)
    rw [Finset.mem_range] at hj
    show denseL s.Lp s.Li s.Lx r j * s.D.getD j 0 * denseL s.Lp s.Li s.Lx r j = _
    rw [hdense r j (by omega), hVd j (by omega)]
  refine ⟨hcsc, hI.dsz, hI.disz, ?_, ?_, ?_, ?_, ?_, ?_⟩
  · intro r c hc hne
    rw [hdense r c hc] at hne
    by_contra hL'
    exact hne (hL.zero r c (fun h => hL' h.2))
  · intro r hr c hc
    rw [hdense r c (by omega), hVd c (by omega)]
    have : ∑ j ∈ Finset.range c, denseL s.Lp s.Li s.Lx c j * (denseL s.Lp s.Li s.Lx r j * s.D.getD j 0) =
        ∑ j ∈ Finset.range c, ℓ c j * (ℓ r j * d j) := by
      refine Finset.sum_congr rfl (fun j hj => ?_)
      rw [Finset.mem_range] at hj
      rw [hdense c j (by omega), hdense r j (by omega), hVd j (by omega)]
    rw [this]
    exact hL.offdiag r hr c hc
  · intro r hr
    rw [hraw r hr, hVd r hr]
    exact hL.diag r hr
  · intro c hc
    rw [hVd c hc, hVdi c hc]
    exact ⟨hL.nz c hc, rfl⟩
  · rw [hVpos]
    congr 1
    apply List.filter_congr
    intro c hc
    rw [List.mem_range] at hc
    rw [hVd c hc]
  · rw [hVrc]
    congr 1
    apply List.filter_congr
    intro r hr
    rw [List.mem_range] at hr
    rw [hraw r hr]

end Clarabel.Qdldl
