/-
  C09, end to end: `presolve_transparent`.

  Composition of
  * `Lemmas/PresolveHandReduce.lean` — the reduced internal problem IS `new(hand-reduced problem)`
    (`problemdata_new_hand_reduced`), and
  * `Lemmas/PresolveSolveTransparent.lean` — the whole-solver model reads the `presolver` record
    only in `solution.post_process` (`new_solve_presolve_transparent`),
  with the bookkeeping in between: `_check_dimensions` of the hand-reduced problem passes, and
  the presolver row map seen by `post_process` is `(keep, infbound)`.
-/
import ClarabelProofs.Lemmas.PresolveHandReduce
import ClarabelProofs.Lemmas.PresolveSolveTransparent
import ClarabelProofs.Props.C16

namespace Clarabel
namespace Presolve
open Cones Solver
variable {α : Type}

/-! ### `_check_dimensions` -/

theorem foldl_add_shift (l : List Nat) (a : Nat) : l.foldl (fun acc c => acc + c) a = a + l.foldl (fun acc c => acc + c) 0 := by
  induction l generalizing a with
  | nil => simp
  | cons x r ih => simp only [List.foldl_cons]; rw [ih (a + x), ih (0 + x)]; omega

theorem foldl_nvars_eq_numel (cones : List (ConeT α)) :
    (cones.map ConeT.nvars).foldl (fun acc c => acc + c) 0 = numel cones := by
  induction cones with
  | nil => rfl
  | cons c r ih =>
    simp only [List.map_cons, List.foldl_cons, numel]
    rw [foldl_add_shift, ih]
    omega

theorem checkDimensions_ok_iff (Pm Pn qlen Am An blen : Nat) (cones : List (ConeT α)) :
    Loop.checkDimensions Pm Pn qlen Am An blen (cones.map ConeT.nvars) = .ok () ↔
      (blen = Am ∧ numel cones = blen ∧ qlen = An ∧ qlen = Pn ∧ Pm = Pn) := by
  unfold Loop.checkDimensions
  simp only [foldl_nvars_eq_numel]
  constructor
  · intro h
    split at h
    · cases h
    · split at h
      · cases h
      · split at h
        · cases h
        · split at h
          · cases h
          · split at h
            · cases h
            · refine ⟨?_, ?_, ?_, ?_, ?_⟩ <;> (first | omega | (by_contra hc; simp_all))
  · rintro ⟨h1, h2, h3, h4, h5⟩
    simp [h1, h2, h3, h4, h5, pure, Except.pure]
    subst h1
    simp_all

theorem length_filter_zip_keep {β : Type} (xs : List β) (keep : List Bool) (h : xs.length = keep.length) :
    ((xs.zip keep).filter (·.2)).length = keep.count true := by
  induction xs generalizing keep with
  | nil =>
    cases keep with
    | nil => rfl
    | cons k ks => simp at h
  | cons x r ih =>
    cases keep with
    | nil => simp at h
    | cons k ks =>
      have hr : r.length = ks.length := by simpa using h
      have := ih ks hr
      cases k <;> simp [List.zip_cons_cons, this]

theorem select_size (b : Array α) (keep : List Bool) (hl : keep.length = b.size) :
    (Vec.select b keep.toArray).size = keep.count true := by
  have : (Vec.select b keep.toArray).toList.length = keep.count true := by
    rw [select_toList]
    unfold selZ
    rw [List.length_map]
    exact length_filter_zip_keep b.toList keep (by simpa using hl.symm)
  simpa using this

section main
variable [Add α] [Sub α] [Mul α] [Div α] [Neg α] [OfNat α 0] [OfNat α 1] [OfNat α 2]
  [OfNat α 100] [OfNat α 1000] [LT α] [DecidableLT α] [LE α] [DecidableLE α] [BEq α] [FloatLike α]

/-- what `Solver.new … = .ok S` says about the user's dimensions -/
theorem solver_new_dims {P : Csc α} {q : Array α} {A : Csc α} {b : Array α} {cones : List (ConeT α)}
    {st : Settings α} {perm : Array Nat} {S : Solver α}
    (hnew : Solver.new P q A b cones st perm = .ok S) :
    b.size = A.m ∧ numel cones = b.size ∧ q.size = A.n ∧ q.size = P.n ∧ P.m = P.n := by
  unfold Solver.new at hnew
  cases hd : Loop.checkDimensions P.m P.n q.size A.m A.n b.size (cones.map ConeT.nvars) with
  | error e => rw [hd] at hnew; cases hnew
  | ok u => cases u; exact (checkDimensions_ok_iff _ _ _ _ _ _ cones).mp hd

/-- **`presolve_transparent`, model level, end to end.**  Let `Solver.new P q A b cones st perm`
succeed with presolve enabled for a canonical `A`, let `keep` be the keep vector of
`make_reduction_map` (on the collapsed cone list) and suppose at least one row is dropped.  Then
the user's hand-reduced problem `(A', b', cones') = handReduce keep A b cones` is accepted by
`Solver.new` with presolve OFF (same `perm`: the KKT pattern is the same), the two solver objects
coincide except for the `presolver` record and the length of the `solution` vectors, the row map
`post_process` uses is `(keep, st.infbound)`, and every successful `solve()` of the former is
matched by a `solve()` of the latter with the same trajectory, internal state and verdict, whose
`(x, s, z)` are the un-scaled reduced variables — of which the presolve-on solution is the
`reverse_presolve` image (`SolveRel`/`PostRel`: kept rows in order, `(s, z) = (infbound, 0)` on
dropped rows).

The two length hypotheses `|variables.s| = |variables.z| = A'.m` are the length invariant of
the iteration (all vectors of `variables` keep the lengths `varsNew data.n data.m` gave them);
they are needed only for the `copy_from` asserts of the presolve-off `post_process`. -/
theorem presolve_transparent_model {P : Csc α} {q : Array α} {A : Csc α} {b : Array α}
    {cones : List (ConeT α)} {st : Settings α} {perm : Array Nat} {S : Solver α} {keep : List Bool}
    (hA : C16.Canonical A) (hpre : st.presolveEnable = true)
    (hnew : Solver.new P q A b cones st perm = .ok S)
    (hk : keepFlags (threshold st.infbound) (newCollapsed cones) b.toList = .ok keep)
    (hc : keep.count true < b.size) :
    ∃ (A' : Csc α) (b' : Array α) (cones' : List (ConeT α)) (S' : Solver α),
      handReduce keep A b cones = .ok (A', b', cones') ∧
      A'.m = keep.count true ∧ A'.n = A.n ∧
      Solver.new P q A' b' cones' { st with presolveEnable := false } perm = .ok S' ∧
      S'.st = S.st.setPre none ∧ S'.solution = Unscale.Solution.new A'.n A'.m ∧
      presolveMap S.st.data = some { keep := keep.toArray, infbound := st.infbound } ∧
      ∀ r, S.solve st = .ok r → r.S.st.variables.s.size = A'.m → r.S.st.variables.z.size = A'.m →
        ∃ r', S'.solve { st with presolveEnable := false } = .ok r' ∧
          SolveRel { keep := keep.toArray, infbound := st.infbound } r r' := by
  obtain ⟨hbm, hnum, hqn, hqp, hPsq⟩ := solver_new_dims hnew
  have hAm : A.m = b.size := hbm.symm
  -- the presolve-on problem data
  have hnum' : numel (newCollapsed cones) = b.size := by
    rw [newCollapsed, numel_collapseGo]; omega
  obtain ⟨keep', hk', hl, _⟩ := keepFlags_spec (threshold st.infbound) (newCollapsed cones) b.toList
    (by simpa using hnum')
  rw [hk] at hk'; cases hk'
  have hl' : keep.length = b.size := by simpa using hl
  obtain ⟨Pn, hPn⟩ := triuStep_ok P hPsq
  have hpre' : ProblemData.tryPresolver b (newCollapsed cones) true st.infbound =
      .ok (some (recordOf keep b st.infbound)) := by
    rw [tryPresolver_on _ _ _ _ hk, if_pos hc]
  obtain ⟨A', hsel, hm', hn'⟩ := selectRows_ok A keep (by rw [hl', hAm]) hA.rows_bound
  have hred : ProblemData.reduceStep (some (recordOf keep b st.infbound)) A b (newCollapsed cones) =
      .ok (A', Vec.select b keep.toArray, reduceConesWith keep (newCollapsed cones)) :=
    presolve_recordOf A A' b (newCollapsed cones) keep st.infbound hl' hsel
  obtain ⟨d0, hd0, hd⟩ : ∃ d0 : ProblemData α,
      d0 = ProblemData.assemble Pn q A' (Vec.select b keep.toArray)
        (reduceConesWith keep (newCollapsed cones)) (some (recordOf keep b st.infbound)) st.infbound ∧
      ProblemData.new P q A b cones true false st.infbound = .ok d0 :=
    ⟨_, rfl, new_eq_of_steps P q A b cones true st.infbound Pn _ _ hPn hpre' hred⟩
  obtain ⟨A'', b', cones', hh, hoff, _⟩ :=
    problemdata_new_hand_reduced P q A b cones st.infbound keep d0 hA hAm hnum hPsq hk hc hd
  -- identify the hand-reduced pieces
  have hh' : handReduce keep A b cones =
      .ok (A', Vec.select b keep.toArray, handReduceCones keep cones) := by
    unfold handReduce
    rw [hsel]; rfl
  rw [hh'] at hh
  cases hh
  have hbsz : (Vec.select b keep.toArray).size = keep.count true := select_size b keep hl'
  have hcn : numel (handReduceCones keep cones) = keep.count true :=
    numel_handReduceCones (threshold st.infbound) cones b.toList keep (by simpa using hnum) hk
  have hdim : Loop.checkDimensions P.m P.n q.size A'.m A'.n (Vec.select b keep.toArray).size
      ((handReduceCones keep cones).map ConeT.nvars) = .ok () := by
    rw [checkDimensions_ok_iff]
    exact ⟨by rw [hbsz, hm'], by rw [hcn, hbsz], by rw [hn', hqn], hqp, hPsq⟩
  have h1 : ProblemData.new P q A b cones st.presolveEnable false st.infbound = .ok d0 := by
    rw [hpre]; exact hd
  have hpm : presolveMap d0 = some { keep := keep.toArray, infbound := st.infbound } := by
    rw [hd0]; rfl
  obtain ⟨S', hS', hst, hsol, hpmS, hsolve⟩ :=
    new_solve_presolve_transparent (perm := perm) hnew h1 hoff hdim hn' hpm
  exact ⟨A', _, _, S', hh', hm', hn', hS', hst, hsol, hpmS, hsolve⟩

end main
end Presolve
end Clarabel
