/-
  Panic-freedom of the whole-solver model (C04) — composite-cone operations, part A:
  `makeCones`, `setIdentityScaling`, `updateScaling`, `affineDs`, `mulHs`, `getHs` are total on
  fully sized cone objects (`ConesFull`) and keep them fully sized.

  All structural ([S]).
-/
import ClarabelProofs.Lemmas.SolverModelNoPanicDefs

namespace Clarabel.Solver
open Clarabel Info Residuals

set_option linter.unusedSectionVars false
set_option linter.unusedVariables false

variable {α : Type}
variable [Add α] [Sub α] [Mul α] [Div α] [Neg α] [OfNat α 0] [OfNat α 1] [OfNat α 2]
  [OfNat α 100] [OfNat α 1000] [LT α] [DecidableLT α] [LE α] [DecidableLE α] [BEq α] [FloatLike α]

/-! ### generic helpers -/

theorem soc_zeros_size (n : Nat) : (Soc.zeros n : Array α).size = n := by
  simp [Soc.zeros]

/-- [S] `x[0]`, `x[1..]` are in range on a non-empty vector -/
theorem soc_split_total {x : Array α} (h : 1 ≤ x.size) :
    ∃ x0 x1, Soc.split x = .ok (x0, x1) ∧ x.size = x1.length + 1 := by
  unfold Soc.split
  cases hx : x.toList with
  | nil =>
    have : x.size = 0 := by rw [← Array.length_toList, hx]; rfl
    omega
  | cons a l =>
    refine ⟨a, l, rfl, ?_⟩
    rw [← Array.length_toList, hx]
    rfl

/-- [S] totality analogue of `mapM_zip_out`: a per-cone map over `(cone, slices)` is total when
it is total on every fully sized cone with slices of the cone's dimension -/
theorem mapM_zip_ok {γ β : Type} (R : ConeSt α → γ → Prop) (P : ConeSt α → Prop)
    (f : ConeSt α × γ → MErr β)
    (hf : ∀ c p, P c → R c p → ∃ o, f (c, p) = .ok o) :
    ∀ {cones : List (ConeSt α)} {ps : List γ}, ListRel R cones ps → (∀ c ∈ cones, P c) →
      ∃ outs, (cones.zip ps).mapM f = .ok outs := by
  intro cones ps h
  induction h with
  | nil => intro _; exact ⟨[], rfl⟩
  | @cons c p cs ps' hcp _ ih =>
    intro hP
    obtain ⟨o, ho⟩ := hf c p (hP c (List.mem_cons_self ..)) hcp
    obtain ⟨os, hos⟩ := ih (fun c' hc' => hP c' (List.mem_cons_of_mem _ hc'))
    refine ⟨o :: os, ?_⟩
    simp only [List.zip_cons_cons, List.mapM_cons]
    rw [bind_ok_of ho, bind_ok_of hos]
    rfl

theorem bind_pure_ok {β γ : Type} {x : MErr β} {g : β → γ} (h : ∃ a, x = .ok a) :
    ∃ o, (x >>= fun a => (pure (g a) : MErr γ)) = .ok o := by
  obtain ⟨a, ha⟩ := h
  exact ⟨g a, by rw [bind_ok_of ha]; rfl⟩

/-- [S] a per-cone map over the slices of one vector is total when it is total on every fully
sized cone with a slice of the cone's dimension -/
theorem mapCones_ok {cones : List (ConeSt α)} {v : Array α} {site : String}
    {f : ConeSt α → Array α → MErr (Array α)} (h : ConesFull cones) (hv : numelAll cones ≤ v.size)
    (hf : ∀ c p, ConeFull c → p.size = c.numel → ∃ o, f c p = .ok o) :
    ∃ o, mapCones cones v site f = .ok o := by
  unfold mapCones
  obtain ⟨ps, hps⟩ := cutE_ok (cones := cones) (v := v) site hv
  have hrel := (cutE_spec hps).1
  rw [bind_ok_of hps]
  refine bind_pure_ok ?_
  exact mapM_zip_ok (fun c (p : Array α) => p.size = c.numel) ConeFull _
    (fun c p hc hp => hf c p hc hp) hrel h

/-! ### `make_cone` -/

/-- [S] `make_cone` builds fully sized cone objects -/
theorem makeCone_full {t : ConeT α} {c : ConeSt α} (h : makeCone t = .ok c) : ConeFull c := by
  cases t <;> try (cases h; done)
  · cases h; trivial
  · cases h
    show (Nonneg.new _ : Nonneg.Cone α).lam.size = (Nonneg.new _ : Nonneg.Cone α).w.size
    rfl
  · rename_i n
    unfold makeCone at h
    obtain ⟨K, hK, h⟩ := bind_ok_inv h
    cases h
    unfold Soc.new at hK
    split at hK
    · cases hK
    · rename_i hn
      cases hK
      refine ⟨by show 2 ≤ n; omega, soc_zeros_size n, soc_zeros_size n, ?_, ?_⟩
      · dsimp only
        split
        · rename_i hg; simp [hg]
        · rename_i hg; simp [hg]
      · intro sp hsp
        dsimp only at hsp
        split at hsp
        · cases hsp
          exact ⟨soc_zeros_size n, soc_zeros_size n⟩
        · cases hsp

/-- [S] `CompositeCone::new` builds fully sized cone objects -/
theorem makeCones_full : ∀ {ts : List (ConeT α)} {cs : List (ConeSt α)},
    makeCones ts = .ok cs → ConesFull cs := by
  intro ts
  induction ts with
  | nil => intro cs h; cases h; intro c hc; cases hc
  | cons t ts ih =>
    intro cs h
    unfold makeCones at h
    simp only [List.mapM_cons] at h
    obtain ⟨c, hc, h⟩ := bind_ok_inv h
    obtain ⟨cs', hcs, h⟩ := bind_ok_inv h
    cases h
    intro c' hc'
    rcases List.mem_cons.mp hc' with e | e
    · rw [e]; exact makeCone_full hc
    · exact ih hcs c' e

/-! ### `set_identity_scaling` -/

/-- [S] `set_identity_scaling` of one cone keeps it fully sized and keeps its specs -/
theorem setIdentityScaling1_full (c : ConeSt α) (h : ConeFull c) :
    ConeFull (setIdentityScaling1 c) ∧ (setIdentityScaling1 c).kktSpec = c.kktSpec
      ∧ (setIdentityScaling1 c).compSpec = c.compSpec ∧ (setIdentityScaling1 c).numel = c.numel := by
  cases c with
  | zero d => exact ⟨trivial, rfl, rfl, rfl⟩
  | nonneg K =>
    have e : (K.w.map (fun _ => (1 : α))).size = K.w.size := Array.size_map ..
    refine ⟨?_, ?_, ?_, ?_⟩
    · show K.lam.size = (K.w.map (fun _ => (1 : α))).size
      rw [e]; exact h
    · show Kkt.ConeSpec.nonneg (K.w.map (fun _ => (1 : α))).size = _
      rw [e]; rfl
    · show Composite.Spec.nonneg (K.w.map (fun _ => (1 : α))).size = _
      rw [e]; rfl
    · exact e
  | soc K =>
    obtain ⟨h2, hw, hl, hsome, hsp⟩ := h
    have e : ((K.w.map (fun _ => (0 : α))).setIfInBounds 0 1).size = K.w.size := by
      rw [Array.size_setIfInBounds, Array.size_map]
    refine ⟨⟨h2, e.trans hw, hl, ?_, ?_⟩, rfl, rfl, rfl⟩
    · show (K.sparse.map _).isSome = _
      rw [Option.isSome_map]; exact hsome
    · intro sp' hsp'
      have hsp'' : K.sparse.map _ = some sp' := hsp'
      cases hk : K.sparse with
      | none => rw [hk] at hsp''; cases hsp''
      | some sp =>
        rw [hk] at hsp''
        cases hsp''
        obtain ⟨h1, h2⟩ := hsp sp hk
        refine ⟨?_, ?_⟩
        · show ((sp.u.map _).setIfInBounds 0 _).size = K.dim
          rw [Array.size_setIfInBounds, Array.size_map]; exact h1
        · show (sp.v.map _).size = K.dim
          rw [Array.size_map]; exact h2

/-- [S] `CompositeCone::set_identity_scaling` keeps the cone objects fully sized and keeps the
KKT / margin specs and the total dimension -/
theorem setIdentityScaling_full {cones : List (ConeSt α)} (h : ConesFull cones) :
    ConesFull (setIdentityScaling cones)
      ∧ (setIdentityScaling cones).map ConeSt.kktSpec = cones.map ConeSt.kktSpec
      ∧ (setIdentityScaling cones).map ConeSt.compSpec = cones.map ConeSt.compSpec
      ∧ numelAll (setIdentityScaling cones) = numelAll cones := by
  induction cones with
  | nil => exact ⟨fun _ hc => (by cases hc), rfl, rfl, rfl⟩
  | cons c cs ih =>
    obtain ⟨g1, g2, g3, g4⟩ := ih h.tail
    obtain ⟨h1, h2, h3, h4⟩ := setIdentityScaling1_full c h.head
    have hcons : setIdentityScaling (c :: cs) = setIdentityScaling1 c :: setIdentityScaling cs := rfl
    rw [hcons]
    refine ⟨?_, ?_, ?_, ?_⟩
    · intro c' hc'
      rcases List.mem_cons.mp hc' with e | e
      · rw [e]; exact h1
      · exact g1 c' e
    · simp only [List.map_cons, h2, g2]
    · simp only [List.map_cons, h3, g3]
    · rw [numelAll_cons, numelAll_cons, h4, g4]

/-! ### `affine_ds` -/

/-- [S] `λ ∘ λ` of a second-order cone is total when `λ` is non-empty -/
theorem soc_circOp_self_ok {y : Array α} (h : 1 ≤ y.size) : ∃ o, Soc.circOp y y = .ok o := by
  obtain ⟨y0, y1, hy, _⟩ := soc_split_total h
  unfold Soc.circOp
  rw [bind_ok_of hy]
  dsimp only
  rw [bind_ok_of hy]
  dsimp only
  rw [if_neg (by omega)]
  exact ⟨_, rfl⟩

/-- [S] `CompositeCone::affine_ds` is total on fully sized cones -/
theorem affineDs_ok {cones : List (ConeSt α)} {ds : Array α} (h : ConesFull cones)
    (hds : ds.size = numelAll cones) : ∃ o, affineDs cones ds = .ok o := by
  unfold affineDs
  refine mapCones_ok h (by omega) ?_
  intro c p hc hp
  cases c with
  | zero d => exact ⟨_, rfl⟩
  | nonneg K =>
    refine ⟨K.lam.map (fun li => li * li), ?_⟩
    show Nonneg.affineDs K p.size = _
    unfold Nonneg.affineDs
    have e1 : K.lam.size = K.w.size := hc
    have e2 : p.size = K.w.size := hp
    rw [if_neg (by omega)]
    rfl
  | soc K =>
    obtain ⟨h2, hw, hl, _, _⟩ := hc
    have e2 : p.size = K.dim := hp
    obtain ⟨r, hr⟩ := soc_circOp_self_ok (y := K.lam) (by omega)
    have hsz := soc_circOp_size hr
    refine ⟨r, ?_⟩
    show (Soc.affineDs K >>= fun r => if r.size != p.size then throw (.panic "affine_ds: length") else pure r) = _
    unfold Soc.affineDs
    rw [bind_ok_of hr]
    have : (r.size != p.size) = false := by
      rw [hsz, hl, e2]; simp
    rw [this]
    rfl

/-! ### `mul_Hs` -/

/-- [S] `mul_Hs` of one second-order cone is total on a slice of the cone's dimension -/
theorem soc_mulHs_ok {K : Soc.Cone α} {x : Array α} (h2 : 2 ≤ K.dim) (hw : K.w.size = K.dim)
    (hx : x.size = K.dim) : ∃ o, Soc.mulHs K x = .ok o := by
  obtain ⟨x0, x1, hxs, _⟩ := soc_split_total (x := x) (by omega)
  obtain ⟨w0, w1, hws, _⟩ := soc_split_total (x := K.w) (by omega)
  unfold Soc.mulHs
  rw [bind_ok_of hxs]
  dsimp only
  rw [bind_ok_of hws]
  dsimp only
  rw [if_neg (by omega)]
  exact ⟨_, rfl⟩

/-- [S] `CompositeCone::mul_Hs` is total on fully sized cones -/
theorem mulHs_ok {cones : List (ConeSt α)} {y x : Array α} (h : ConesFull cones)
    (hy : y.size = numelAll cones) (hx : x.size = numelAll cones) : ∃ o, mulHs cones y x = .ok o := by
  unfold mulHs
  obtain ⟨xs, hxs⟩ := cutE_ok (cones := cones) (v := x) "mul_Hs x" (by omega)
  obtain ⟨ys, hys⟩ := cutE_ok (cones := cones) (v := y) "mul_Hs y" (by omega)
  have hrel := (cutE_spec hxs).1
  rw [bind_ok_of hxs, bind_ok_of hys]
  refine bind_pure_ok ?_
  refine mapM_zip_ok (fun c (p : Array α) => p.size = c.numel) ConeFull _ ?_ hrel h
  intro c p hc hp
  cases c with
  | zero d => exact ⟨_, rfl⟩
  | nonneg K =>
    refine ⟨Array.zipWith (fun wi xi => wi * (wi * xi)) K.w p, ?_⟩
    show Nonneg.mulHs K p = _
    unfold Nonneg.mulHs Nonneg.sizeGuard
    have e2 : p.size = K.w.size := hp
    have : (p.size == K.w.size) = true := by rw [e2]; simp
    rw [this]
    rfl
  | soc K =>
    obtain ⟨h2, hw, _, _, _⟩ := hc
    exact soc_mulHs_ok h2 hw hp

/-! ### `update_scaling` -/

theorem scalingLam_len (s0 : α) (s1 : List α) (z0 : α) (z1 : List α) (a b c : α) :
    (Soc.scalingLam s0 s1 z0 z1 a b c).2.length = min s1.length z1.length := by
  unfold Soc.scalingLam
  simp only [List.length_map, List.length_zipWith]

/-- [S] `update_scaling` of a second-order cone on split vectors keeps the cone object fully
sized — on success and on both failure exits -/
theorem soc_core_full (K : Soc.Cone α) (s0 : α) (s1 : List α) (z0 : α) (z1 : List α)
    (hs : s1.length + 1 = K.dim) (hz : z1.length + 1 = K.dim) (hK : ConeFull (.soc K)) :
    ConeFull (.soc (Soc.updateScalingCore K s0 s1 z0 z1).2)
      ∧ (Soc.updateScalingCore K s0 s1 z0 z1).2.dim = K.dim := by
  obtain ⟨h2, hw, hl, hsome, hsp⟩ := hK
  unfold Soc.updateScalingCore
  dsimp only
  split
  · exact ⟨⟨h2, hw, hl, hsome, hsp⟩, rfl⟩
  · split
    · refine ⟨⟨h2, ?_, hl, hsome, hsp⟩, rfl⟩
      show (Soc.join _ _).size = K.dim
      rw [soc_join_size, List.length_zipWith, List.length_map]
      omega
    · rename_i w0 w1 wscale hW
      have hl1 := scalingW_len hW
      refine ⟨⟨h2, ?_, ?_, ?_, ?_⟩, rfl⟩
      · show (Soc.join w0 w1).size = K.dim
        rw [soc_join_size]; omega
      · show (Soc.join _ (Soc.scalingLam s0 s1 z0 z1 _ _ wscale).2).size = K.dim
        rw [soc_join_size, scalingLam_len]; omega
      · dsimp only
        rw [← hsome]
        cases K.sparse <;> rfl
      · intro sp' hsp'
        dsimp only at hsp'
        cases hk : K.sparse with
        | none => rw [hk] at hsp'; cases hsp'
        | some sp =>
          rw [hk] at hsp'
          cases hsp'
          refine ⟨?_, ?_⟩
          · show (List.map _ w1).length + 1 = K.dim
            rw [List.length_map]; omega
          · show (List.map _ w1).length + 1 = K.dim
            rw [List.length_map]; omega

/-- [S] `update_scaling` of one cone is total on slices of the cone's dimension and keeps the
cone object fully sized, with the same KKT spec and dimension -/
theorem updateScaling1_full {c : ConeSt α} {s z : Array α} (hc : ConeFull c)
    (hs : s.size = c.numel) (hz : z.size = c.numel) :
    ∃ r, updateScaling1 c s z = .ok r ∧ ConeFull r.2 ∧ r.2.kktSpec = c.kktSpec
      ∧ r.2.numel = c.numel := by
  cases c with
  | zero d => exact ⟨(true, .zero d), rfl, trivial, rfl, rfl⟩
  | nonneg K =>
    have e1 : K.lam.size = K.w.size := hc
    have e2 : s.size = K.w.size := hs
    have e3 : z.size = K.w.size := hz
    have esz : ∀ f : α → α → α, (Array.zipWith f s z).size = K.w.size := by
      intro f; rw [Array.size_zipWith]; omega
    refine ⟨(true, .nonneg ⟨Array.zipWith (fun si zi => sqrt (si / zi)) s z,
        Array.zipWith (fun si zi => sqrt (si * zi)) s z⟩), ?_, ?_, ?_, ?_⟩
    · show (Nonneg.updateScaling K s z >>= fun K' => (pure (true, ConeSt.nonneg K') : MErr _)) = _
      unfold Nonneg.updateScaling Nonneg.sizeGuard
      have : (s.size == K.w.size && z.size == K.w.size && K.lam.size == K.w.size) = true := by
        rw [e1, e2, e3]; simp
      rw [this]
      rfl
    · show (Array.zipWith _ s z).size = (Array.zipWith _ s z).size
      rw [esz, esz]
    · show Kkt.ConeSpec.nonneg (Array.zipWith _ s z).size = _
      rw [esz]; rfl
    · show (Array.zipWith _ s z).size = _
      rw [esz]; rfl
  | soc K =>
    have hc' := hc
    obtain ⟨h2, hw, hl, hsome, hsp⟩ := hc
    have e2 : s.size = K.dim := hs
    have e3 : z.size = K.dim := hz
    obtain ⟨z0, z1, hzs, hzl⟩ := soc_split_total (x := z) (by omega)
    obtain ⟨s0, s1, hss, hsl⟩ := soc_split_total (x := s) (by omega)
    obtain ⟨g1, g2⟩ := soc_core_full K s0 s1 z0 z1 (by omega) (by omega) hc'
    refine ⟨((Soc.updateScalingCore K s0 s1 z0 z1).1, .soc (Soc.updateScalingCore K s0 s1 z0 z1).2),
      ?_, g1, ?_, g2⟩
    · unfold updateScaling1 Soc.updateScaling
      dsimp only
      rw [bind_ok_of hzs]
      dsimp only
      rw [bind_ok_of hss]
      dsimp only
      rw [if_neg (by omega), if_neg (by omega)]
      rfl
    · show Kkt.ConeSpec.soc _ = Kkt.ConeSpec.soc _
      rw [g2]

/-- [S] the cone-by-cone recursion of `CompositeCone::update_scaling` -/
theorem updateScaling_go_full : ∀ (cs : List (ConeSt α)) (ss zs : List (Array α)),
    ConesFull cs → ListRel (fun c (p : Array α) => p.size = c.numel) cs ss →
    ListRel (fun c (p : Array α) => p.size = c.numel) cs zs →
    ∃ r, updateScaling.go cs ss zs = .ok r ∧ ConesFull r.2
      ∧ r.2.map ConeSt.kktSpec = cs.map ConeSt.kktSpec ∧ numelAll r.2 = numelAll cs := by
  intro cs
  induction cs with
  | nil =>
    intro ss zs h _ _
    refine ⟨(true, []), ?_, h, rfl, rfl⟩
    unfold updateScaling.go
    rfl
  | cons c cs ih =>
    intro ss zs h hs hz
    cases hs with
    | @cons _ si _ ss' hsi hss =>
    cases hz with
    | @cons _ zi _ zs' hzi hzs =>
    obtain ⟨⟨ok, c1⟩, h1, f1, k1, n1⟩ := updateScaling1_full h.head hsi hzi
    have hcons : ∀ (c1 : ConeSt α) (l : List (ConeSt α)), ConeFull c1 → ConesFull l → ConesFull (c1 :: l) := by
      intro c1 l a b c' hc'
      rcases List.mem_cons.mp hc' with e | e
      · rw [e]; exact a
      · exact b c' e
    unfold updateScaling.go
    rw [bind_ok_of h1]
    cases ok with
    | false =>
      refine ⟨(false, c1 :: cs), rfl, hcons _ _ f1 h.tail, ?_, ?_⟩
      · show (c1 :: cs).map ConeSt.kktSpec = _
        simp only [List.map_cons]
        rw [show c1.kktSpec = c.kktSpec from k1]
      · show numelAll (c1 :: cs) = _
        rw [numelAll_cons, numelAll_cons, show c1.numel = c.numel from n1]
    | true =>
      obtain ⟨⟨ok2, cs2⟩, h2, f2, k2, n2⟩ := ih ss' zs' h.tail hss hzs
      refine ⟨(ok2, c1 :: cs2), ?_, hcons _ _ f1 f2, ?_, ?_⟩
      · dsimp only [Bool.not_true, Bool.false_eq_true, ↓reduceIte]
        rw [bind_ok_of h2]
        rfl
      · show (c1 :: cs2).map ConeSt.kktSpec = _
        simp only [List.map_cons]
        rw [show c1.kktSpec = c.kktSpec from k1, show cs2.map ConeSt.kktSpec = _ from k2]
      · show numelAll (c1 :: cs2) = _
        rw [numelAll_cons, numelAll_cons, show c1.numel = c.numel from n1,
          show numelAll cs2 = numelAll cs from n2]

/-- [S] `CompositeCone::update_scaling` is total on fully sized cones and keeps them fully sized
(also on the failure exits), with the same KKT specs and total dimension -/
theorem updateScaling_ok {cones : List (ConeSt α)} {s z : Array α} (h : ConesFull cones)
    (hs : s.size = numelAll cones) (hz : z.size = numelAll cones) :
    ∃ r, updateScaling cones s z = .ok r ∧ ConesFull r.2
      ∧ r.2.map ConeSt.kktSpec = cones.map ConeSt.kktSpec ∧ numelAll r.2 = numelAll cones := by
  unfold updateScaling
  obtain ⟨ss, hss⟩ := cutE_ok (cones := cones) (v := s) "update_scaling s" (by omega)
  obtain ⟨zs, hzs⟩ := cutE_ok (cones := cones) (v := z) "update_scaling z" (by omega)
  rw [bind_ok_of hss, bind_ok_of hzs]
  exact updateScaling_go_full cones ss zs h (cutE_spec hss).1 (cutE_spec hzs).1

/-! ### `get_Hs` -/

/-- [S] a `for` loop over a list whose body always yields, growing a size measure by `g k`, is
total and grows the measure by the sum -/
theorem forIn_list_yield_ok {σ β : Type} (sz : σ → Nat) (g : β → Nat)
    (body : β → σ → MErr (ForInStep σ)) :
    ∀ (l : List β) (init : σ),
      (∀ k ∈ l, ∀ s, ∃ s', body k s = .ok (.yield s') ∧ sz s' = sz s + g k) →
      ∃ out, forIn (m := MErr) l init body = .ok out ∧ sz out = sz init + (l.map g).sum := by
  intro l
  induction l with
  | nil => intro init _; exact ⟨init, rfl, rfl⟩
  | cons k t ih =>
    intro init h
    obtain ⟨s', hs', hsz⟩ := h k (List.mem_cons_self ..) init
    obtain ⟨out, ho, hosz⟩ := ih s' (fun k' hk' => h k' (List.mem_cons_of_mem _ hk'))
    refine ⟨out, ?_, ?_⟩
    · rw [List.forIn_cons, bind_ok_of hs']
      exact ho
    · rw [hosz, hsz, List.map_cons, List.sum_cons]; omega

/-- [S] the same for `for k in [lo:hi]` -/
theorem forIn_range_yield_ok {σ : Type} (sz : σ → Nat) (g : Nat → Nat) (lo hi : Nat)
    (body : Nat → σ → MErr (ForInStep σ)) (init : σ)
    (h : ∀ k, lo ≤ k → k < hi → ∀ s, ∃ s', body k s = .ok (.yield s') ∧ sz s' = sz s + g k) :
    ∃ out, forIn (m := MErr) [lo:hi] init body = .ok out
      ∧ sz out = sz init + ((List.range' lo (hi - lo)).map g).sum := by
  rw [Std.Legacy.Range.forIn_eq_forIn_range']
  simp only [Std.Legacy.Range.size, Nat.add_sub_cancel, Nat.div_one]
  apply forIn_list_yield_ok
  intro k hk
  rw [List.mem_range'_1] at hk
  exact h k hk.1 (by omega)

theorem getE_ok' {β : Type} (xs : Array β) (i : Nat) (s : String) (h : i < xs.size) :
    getE xs i s = .ok xs[i] := by
  simp [getE, h]; rfl

theorem forIn_range_yield_okQ {σ : Type} (sz : σ → Nat) (g : Nat → Nat) (lo hi : Nat)
    (body : Nat → σ → MErr (ForInStep σ)) (init : σ) (Q : σ → Prop)
    (h : ∀ k, lo ≤ k → k < hi → ∀ s, ∃ s', body k s = .ok (.yield s') ∧ sz s' = sz s + g k)
    (hQ : ∀ out, sz out = sz init + ((List.range' lo (hi - lo)).map g).sum → Q out) :
    ∃ out, forIn (m := MErr) [lo:hi] init body = .ok out ∧ Q out := by
  obtain ⟨out, h1, h2⟩ := forIn_range_yield_ok sz g lo hi body init h
  exact ⟨out, h1, hQ out h2⟩

theorem bind_pure_ok_and {β γ : Type} {x : MErr β} {g : β → γ} {Q : γ → Prop}
    (h : ∃ a, x = .ok a ∧ Q (g a)) : ∃ o, (x >>= fun a => (pure (g a) : MErr γ)) = .ok o ∧ Q o := by
  obtain ⟨a, ha, hq⟩ := h
  exact ⟨g a, by rw [bind_ok_of ha]; rfl, hq⟩

theorem bind_yield_ok_and {σ : Type} {x : MErr σ} {Q : σ → Prop}
    (h : ∃ a, x = .ok a ∧ Q a) :
    ∃ s', (x >>= fun a => (pure (ForInStep.yield a) : MErr (ForInStep σ))) = .ok (.yield s') ∧ Q s' := by
  obtain ⟨a, ha, hq⟩ := h
  exact ⟨a, by rw [bind_ok_of ha]; rfl, hq⟩

theorem sum_map_one {β : Type} (l : List β) : (l.map (fun _ => 1)).sum = l.length := by
  induction l with
  | nil => rfl
  | cons a t ih => rw [List.map_cons, List.sum_cons, ih, List.length_cons]; omega

/-- [S] the dense (`dim ≤ 4`, not expanded) `get_Hs` of a second-order cone is total and fills
the packed upper triangle: `dim (dim+1) / 2` entries -/
theorem soc_getHs_dense_ok {K : Soc.Cone α} (h2 : 2 ≤ K.dim) (h4 : K.dim ≤ 4) (hw : K.w.size = K.dim)
    (hnone : K.sparse = none) :
    ∃ b, Soc.getHs K = .ok b ∧ b.size = K.dim * (K.dim + 1) / 2 := by
  obtain ⟨w0, w1, hws, _⟩ := soc_split_total (x := K.w) (by omega)
  unfold Soc.getHs
  rw [hnone]
  dsimp only
  rw [bind_ok_of hws]
  dsimp only
  refine bind_pure_ok_and ?_
  refine forIn_range_yield_okQ Array.size (fun col => col + 1) 1 K.dim _ _ _ ?_ ?_
  · intro col hc1 hc2 s
    rw [bind_ok_of (getE_ok' K.w col "w[col]" (by omega))]
    refine bind_yield_ok_and ?_
    refine forIn_range_yield_okQ Array.size (fun _ => 1) 0 (col + 1) _ _ _ ?_ ?_
    · intro row _ hr s2
      rw [bind_ok_of (getE_ok' K.w row "w[row]" (by omega))]
      exact ⟨_, rfl, Array.size_push ..⟩
    · intro out ho
      rw [ho, sum_map_one, List.length_range']
      omega
  · intro out ho
    rw [Array.size_map, ho]
    have : K.dim = 2 ∨ K.dim = 3 ∨ K.dim = 4 := by omega
    rcases this with e | e | e <;> rw [e] <;> rfl

/-- [S] `get_Hs` of one cone is total and fills exactly its `rng_blocks` entry -/
theorem getHs1_ok {c : ConeSt α} (h : ConeFull c) :
    ∃ b, getHs1 c = .ok b ∧ b.size = c.kktSpec.blockLen := by
  cases c with
  | zero d =>
    refine ⟨Zero.getHs d, rfl, ?_⟩
    show ((List.replicate d (0 : α)).toArray).size = _
    simp [Kkt.ConeSpec.blockLen, Kkt.ConeSpec.hsIsDiagonal, Kkt.ConeSpec.numel, ConeSt.kktSpec]
  | nonneg K =>
    refine ⟨K.w.map (fun wi => wi * wi), ?_, ?_⟩
    · show Nonneg.getHs K K.w.size = _
      unfold Nonneg.getHs
      rw [if_neg (by omega)]
      rfl
    · rw [Array.size_map]
      simp [Kkt.ConeSpec.blockLen, Kkt.ConeSpec.hsIsDiagonal, Kkt.ConeSpec.numel, ConeSt.kktSpec]
  | soc K =>
    obtain ⟨h2, hw, hl, hsome, hsp⟩ := h
    show ∃ b, Soc.getHs K = .ok b ∧ b.size = (Kkt.ConeSpec.soc K.dim).blockLen
    cases hk : K.sparse with
    | none =>
      rw [hk] at hsome
      have h4 : K.dim ≤ 4 := by
        have : ¬ (K.dim > 4) := of_decide_eq_false hsome.symm
        omega
      obtain ⟨b, hb, hsz⟩ := soc_getHs_dense_ok h2 h4 hw hk
      refine ⟨b, hb, ?_⟩
      rw [hsz]
      have : ¬ (K.dim > Kkt.socNoExpansionMaxSize) := by
        simp only [Kkt.socNoExpansionMaxSize]; omega
      simp [Kkt.ConeSpec.blockLen, Kkt.ConeSpec.hsIsDiagonal, Kkt.ConeSpec.numel, this]
    | some sp =>
      rw [hk] at hsome
      have h5 : K.dim > 4 := of_decide_eq_true hsome.symm
      have hbl : (Kkt.ConeSpec.soc K.dim).blockLen = K.dim := by
        have : K.dim > Kkt.socNoExpansionMaxSize := h5
        simp [Kkt.ConeSpec.blockLen, Kkt.ConeSpec.hsIsDiagonal, Kkt.ConeSpec.numel, this]
      rw [hbl]
      unfold Soc.getHs
      rw [hk]
      dsimp only
      cases hd : K.dim with
      | zero => omega
      | succ n =>
        refine ⟨_, rfl, ?_⟩
        rw [soc_join_size, List.length_replicate]

/-- [S] `CompositeCone::get_Hs` is total on fully sized cones and fills exactly the `Hsblocks`
buffer of the KKT data map -/
theorem getHs_ok {cones : List (ConeSt α)} (h : ConesFull cones) :
    ∃ hs, getHs cones = .ok hs ∧ hs.size = Kkt.hsblocksLen (cones.map ConeSt.kktSpec) := by
  have key : ∀ (cs : List (ConeSt α)), ConesFull cs →
      ∃ blocks, cs.mapM getHs1 = .ok blocks
        ∧ blocks.map Array.size = (cs.map ConeSt.kktSpec).map Kkt.ConeSpec.blockLen := by
    intro cs
    induction cs with
    | nil => intro _; exact ⟨[], rfl, rfl⟩
    | cons c cs ih =>
      intro hc
      obtain ⟨b, hb, hbs⟩ := getHs1_ok hc.head
      obtain ⟨bs, hbs1, hbs2⟩ := ih hc.tail
      refine ⟨b :: bs, ?_, ?_⟩
      · simp only [List.mapM_cons]
        rw [bind_ok_of hb, bind_ok_of hbs1]
        rfl
      · simp only [List.map_cons, hbs, hbs2]
  obtain ⟨blocks, hb1, hb2⟩ := key cones h
  refine ⟨blocks.foldl (· ++ ·) #[], ?_, ?_⟩
  · unfold getHs
    rw [bind_ok_of hb1]
    rfl
  · rw [foldl_append_size, hb2]
    rfl

end Clarabel.Solver
