/-
  C07, round 7: the base case of the trajectory induction for **all seven cone kinds** — the
  solver's own two initialisations with PSD blocks included.

  * `unit_initialization` (problems with a nonsymmetric cone): a PSD block gets `s = z = svec(I)`
    (`PsdIndex.unitInitialization`: zero, then `+1` at the packed diagonal positions), and
    `mat(svec I) = I ≻ 0`;
  * `symmetric_initialization` (all cones symmetric): `_shift_to_cone_interior` on `s` and on `z`
    (`Composite.shiftToConeInteriorE`), the PSD margins computed from the eigenvalues `?syevr`
    returns for `mat(s_block)`, `mat(z_block)` — under that call's contract (`EigContracts`: the
    least returned value is a lower Rayleigh bound) every block ends with margin `≥ 1`
    (C15's `shiftToConeInteriorE_spec`), which for a PSD block is `mat(z') − I ⪰ 0`, hence `≻ 0`.

  Composed with `TrajL.interiorAllP` (`StepKPsdLapack.lean`): every iterate of every solve is
  interior for all seven cone kinds, starting from the solver's own initialisation, the only
  assumptions on the numerics being the LAPACK contracts of each call.
-/
import ClarabelProofs.Lemmas.StepKPsdLapack
import ClarabelProofs.Lemmas.StepKInitGenPow

namespace Clarabel.StepK
open Clarabel Composite PsdStep PsdTri

/-! ## `PosDef` from a positive lower Rayleigh bound -/

theorem posDef_of_lower {n : Nat} {M : MatFn ℝ} {c : ℝ} (hc : 0 < c)
    (h : ∀ v, c * nrm2 n v ≤ qform n M v) : PosDef n M := by
  intro v hv
  have := h v
  have : 0 < c * nrm2 n v := mul_pos hc hv
  linarith [h v]

/-! ## `unit_initialization` of a PSD block -/

theorem getD_map_zero (z : Array ℝ) (k : Nat) : (z.map (fun _ => (0 : ℝ))).getD k 0 = 0 := by
  simp only [Array.getD_eq_getD_getElem?, Array.getElem?_map]
  cases z[k]? <;> rfl

theorem svecToMat_map_zero (z : Array ℝ) (i j : Nat) :
    svecToMat (z.map (fun _ => (0 : ℝ))) i j = 0 := by
  unfold svecToMat
  simp only [getD_map_zero]
  split_ifs <;> simp

/-- [R] `PSDTriangleCone::unit_initialization` on one slice: the zero-filled slice shifted by `1`
at the packed diagonal positions is `svec(I)`, and `mat(svec I) ≻ 0` -/
theorem psd_unit_posDef (n : Nat) (z : Array ℝ) (hz : z.size = PsdIndex.triangularNumber n) :
    ∃ z', PsdIndex.scaledUnitShift n (z.map (fun _ => (0 : ℝ))) 1 = .ok z' ∧
      z'.size = PsdIndex.triangularNumber n ∧ PosDef n (svecToMat z') ∧
      ∀ i j, i < n → j < n → svecToMat z' i j = if i = j then 1 else 0 := by
  have hz0 : (z.map (fun _ => (0 : ℝ))).size = PsdIndex.triangularNumber n := by
    rw [Array.size_map]; exact hz
  obtain ⟨z', h1, h2, h3⟩ := svecToMat_shift n (z.map (fun _ => (0 : ℝ))) 1 hz0
  refine ⟨z', h1, h2, ?_, ?_⟩
  · obtain ⟨z'', g1, _, g3⟩ := shift_lower n (z.map (fun _ => (0 : ℝ))) 1 0 hz0 (by
      intro v
      have : qform n (svecToMat (z.map (fun _ => (0 : ℝ)))) v = 0 := by
        unfold qform
        simp [svecToMat_map_zero]
      rw [this]; simp)
    rw [h1] at g1
    cases g1
    exact posDef_of_lower (c := 0 + 1) (by norm_num) g3
  · intro i j hi hj
    rw [h3 i j hi hj, svecToMat_map_zero, zero_add]

/-- shapes for which `unit_initialization` is covered, **all seven cone kinds**: as
`Blk.UnitShapeG`, and a PSD block whose slices have the cone's length `n(n+1)/2` -/
def Blk.UnitShapeAll : Blk ℝ → Prop
  | .psd K _ _ z s _ _ =>
    z.size = PsdIndex.triangularNumber K.n ∧ s.size = PsdIndex.triangularNumber K.n
  | b => b.UnitShapeG

theorem Blk.UnitShapeG.unitShapeAll {b : Blk ℝ} (h : b.UnitShapeG) : b.UnitShapeAll := by
  cases b with
  | psd K γz γs z s dz ds => exact absurd h id
  | zero z s dz ds => exact h
  | nn z s dz ds => exact h
  | soc z s dz ds => exact h
  | exp z s dz ds => exact h
  | pow a z s dz ds => exact h
  | genpow al z s dz ds => exact h

/-- [R] `unit_initialization` gives an interior block (`Blk.InteriorAll`) for every cone kind -/
theorem Blk.unitInit_interiorAll (b : Blk ℝ) (h : b.UnitShapeAll) :
    ∃ b', b.unitInit = .ok b' ∧ b'.InteriorAll := by
  cases b with
  | psd K γz γs z s dz ds =>
    obtain ⟨hz, hs⟩ := h
    obtain ⟨z', ez, _, pz, _⟩ := psd_unit_posDef K.n z hz
    obtain ⟨s', es, _, ps, _⟩ := psd_unit_posDef K.n s hs
    refine ⟨.psd K γz γs z' s' dz ds, ?_, pz, ps⟩
    simp only [Blk.unitInit, PsdIndex.unitInitialization, ez, es, bind, Except.bind, pure,
      Except.pure]
  | zero z s dz ds =>
    obtain ⟨b', e, i⟩ := Blk.unitInit_interiorG (.zero z s dz ds) h
    exact ⟨b', e, i.interiorAll⟩
  | nn z s dz ds =>
    obtain ⟨b', e, i⟩ := Blk.unitInit_interiorG (.nn z s dz ds) h
    exact ⟨b', e, i.interiorAll⟩
  | soc z s dz ds =>
    obtain ⟨b', e, i⟩ := Blk.unitInit_interiorG (.soc z s dz ds) h
    exact ⟨b', e, i.interiorAll⟩
  | exp z s dz ds =>
    obtain ⟨b', e, i⟩ := Blk.unitInit_interiorG (.exp z s dz ds) h
    exact ⟨b', e, i.interiorAll⟩
  | pow a z s dz ds =>
    obtain ⟨b', e, i⟩ := Blk.unitInit_interiorG (.pow a z s dz ds) h
    exact ⟨b', e, i.interiorAll⟩
  | genpow al z s dz ds =>
    obtain ⟨b', e, i⟩ := Blk.unitInit_interiorG (.genpow al z s dz ds) h
    exact ⟨b', e, i.interiorAll⟩

theorem mapM_unitInitAll (blks : List (Blk ℝ)) (h : ∀ b ∈ blks, b.UnitShapeAll) :
    ∃ blks', blks.mapM Blk.unitInit = .ok blks' ∧ ∀ b ∈ blks', b.InteriorAll := by
  induction blks with
  | nil => exact ⟨[], rfl, fun b hb => by cases hb⟩
  | cons b t ih =>
    obtain ⟨b', e1, i1⟩ := Blk.unitInit_interiorAll b (h b List.mem_cons_self)
    obtain ⟨t', e2, i2⟩ := ih (fun c hc => h c (List.mem_cons_of_mem _ hc))
    refine ⟨b' :: t', ?_, ?_⟩
    · simp only [List.mapM_cons, e1, e2, bind, Except.bind, pure, Except.pure]
    · intro c hc
      rcases List.mem_cons.mp hc with rfl | hc
      · exact i1
      · exact i2 c hc

/-- [R] after `unit_initialization` the iterate is interior for **all seven cone kinds**
(`Pt.InteriorAllP`) with `τ = κ = 1` -/
theorem unit_init_interiorAllP (p : Pt ℝ) (h : ∀ b ∈ p.blks, b.UnitShapeAll) :
    ∃ p', unitInitialization p = .ok p' ∧ p'.InteriorAllP ∧ p'.τ = 1 ∧ p'.κ = 1 := by
  obtain ⟨blks', e, i⟩ := mapM_unitInitAll p.blks h
  refine ⟨{ p with x := p.x.map (fun _ => 0), blks := blks', τ := 1, κ := 1 }, ?_,
    ⟨one_pos, one_pos, i⟩, rfl, rfl⟩
  simp only [unitInitialization, e, bind, Except.bind, pure, Except.pure]

/-! ## `symmetric_initialization` with PSD blocks -/

theorem blkOf_interiorAll (sp : Spec) (z s : Array ℝ) (hs : SymSpecE sp) (hz : z.size = sp.numel)
    (hss : s.size = sp.numel) (gz : BlkGeE 1 (sp, z)) (gs : BlkGeE 1 (sp, s)) :
    (blkOf sp z s).InteriorAll := by
  cases sp with
  | zero n => exact (blkOf_interior (.zero n) z s trivial hz hss gz gs).interiorG.interiorAll
  | nonneg n => exact (blkOf_interior (.nonneg n) z s trivial hz hss gz gs).interiorG.interiorAll
  | soc n => exact (blkOf_interior (.soc n) z s hs hz hss gz gs).interiorG.interiorAll
  | psd n => exact ⟨posDef_of_lower one_pos gz, posDef_of_lower one_pos gs⟩

theorem blksOf_interiorAll (specs : List Spec) :
    ∀ (lz ls : List ℝ) (pz ps : List (Spec × Array ℝ)), cutL specs lz = .ok pz →
      cutL specs ls = .ok ps → (∀ sp ∈ specs, SymSpecE sp) → (∀ p ∈ pz, BlkGeE 1 p) →
      (∀ p ∈ ps, BlkGeE 1 p) → ∀ b ∈ blksOf pz ps, b.InteriorAll := by
  induction specs with
  | nil =>
    intro lz ls pz ps h1 h2 _ _ _ b hb
    rw [cutL] at h1; cases h1
    simp [blksOf] at hb
  | cons sp rest ih =>
    intro lz ls pz ps h1 h2 hs gz gs b hb
    obtain ⟨l1, tz, htz, rfl⟩ := cutL_cons_ok sp rest lz pz h1
    obtain ⟨l2, ts, hts, rfl⟩ := cutL_cons_ok sp rest ls ps h2
    simp only [blksOf, List.mem_cons] at hb
    rcases hb with rfl | hb
    · exact blkOf_interiorAll sp _ _ (hs sp List.mem_cons_self) (by simp [l1]) (by simp [l2])
        (gz _ List.mem_cons_self) (gs _ List.mem_cons_self)
    · exact ih _ _ tz ts htz hts (fun q hq => hs q (List.mem_cons_of_mem _ hq))
        (fun q hq => gz q (List.mem_cons_of_mem _ hq)) (fun q hq => gs q (List.mem_cons_of_mem _ hq)) b hb

/-- [R] `symmetric_initialization` on a composite of arbitrarily many zero / nonnegative /
second-order / **PSD** cones, for **any** `(x, s, z)` the initial KKT solve produced: with the
eigenvalue lists `?syevr` returned for the PSD blocks of `s` and of `z` meeting their contract
(`EigContracts`), both shifts succeed, the shifted vectors cut into the cones' ranges, and the iterate
made of those blocks with `τ = κ = 1` is interior for all cone kinds -/
theorem symmetric_init_interiorAllP (specs : List Spec) (x z s : Array ℝ)
    (eigZ eigS : List (Option (Array ℝ))) (hs : ∀ sp ∈ specs, SymSpecE sp)
    (hz : totalNumel specs ≤ z.size) (hss : totalNumel specs ≤ s.size)
    (hcz : EigContracts specs z eigZ) (hcs : EigContracts specs s eigS) :
    ∃ z' s' pz ps, shiftToConeInteriorE specs s true eigS = .ok s' ∧
      shiftToConeInteriorE specs z false eigZ = .ok z' ∧ cut specs z' = .ok pz ∧
      cut specs s' = .ok ps ∧ (⟨x, #[], blksOf pz ps, 1, 1, 0, 0⟩ : Pt ℝ).InteriorAllP := by
  obtain ⟨s', e1, ps, c1, g1⟩ := shiftToConeInteriorE_spec specs s true eigS hs hss hcs
  obtain ⟨z', e2, pz, c2, g2⟩ := shiftToConeInteriorE_spec specs z false eigZ hs hz hcz
  exact ⟨z', s', pz, ps, e1, e2, c2, c1, one_pos, one_pos,
    blksOf_interiorAll specs _ _ pz ps c2 c1 hs g2 g1⟩

/-! ## trajectories from the solver's own initialisations -/

/-- [R] **every iterate of every solve that starts from `unit_initialization` is interior, all seven
cone kinds**, the accepted passes meeting the LAPACK contracts of their calls -/
theorem TrajL.interiorAllP_unit {c : StepCfg} (hc : c.Ok) {cfg : Loop.Config ℝ} (p p0 : Pt ℝ)
    (hsh : ∀ b ∈ p.blks, b.UnitShapeAll) (h0 : unitInitialization p = .ok p0) {l : List (Pt ℝ)}
    (h : TrajL c cfg p0 l) : ∀ q ∈ l, q.InteriorAllP := by
  obtain ⟨p', e, hI, _, _⟩ := unit_init_interiorAllP p hsh
  rw [h0] at e
  cases e
  exact h.interiorAllP hc hI

/-- [R] **…and from `symmetric_initialization`** (zero / nonnegative / second-order / PSD cones) -/
theorem TrajL.interiorAllP_symmetric {c : StepCfg} (hc : c.Ok) {cfg : Loop.Config ℝ}
    (specs : List Spec) (x z s z' s' : Array ℝ) (eigZ eigS : List (Option (Array ℝ)))
    (pz ps : List (Spec × Array ℝ)) (hs : ∀ sp ∈ specs, SymSpecE sp)
    (hz : totalNumel specs ≤ z.size) (hss : totalNumel specs ≤ s.size)
    (hcz : EigContracts specs z eigZ) (hcs : EigContracts specs s eigS)
    (e1 : shiftToConeInteriorE specs s true eigS = .ok s')
    (e2 : shiftToConeInteriorE specs z false eigZ = .ok z') (c2 : cut specs z' = .ok pz)
    (c1 : cut specs s' = .ok ps) {l : List (Pt ℝ)}
    (h : TrajL c cfg (⟨x, #[], blksOf pz ps, 1, 1, 0, 0⟩ : Pt ℝ) l) : ∀ q ∈ l, q.InteriorAllP := by
  obtain ⟨z'', s'', pz', ps', f1, f2, d2, d1, hI⟩ :=
    symmetric_init_interiorAllP specs x z s eigZ eigS hs hz hss hcz hcs
  rw [e1] at f1; cases f1
  rw [e2] at f2; cases f2
  rw [c2] at d2; cases d2
  rw [c1] at d1; cases d1
  exact h.interiorAllP hc hI

end Clarabel.StepK
