/-
  C12: `ZeroPivot` ⇔ a pivot of the exact elimination is zero (regulariser off).

  `refLDL a k` is the reference dense LDLᵀ elimination of the symmetric matrix with upper
  triangle `a`, rows `0 … k-1`, defined by plain recursion independently of the model's loops
  (`x / 0 = 0` as in every field of Mathlib, so it is total); `refPivot a k` is its `k`-th pivot,
  the Schur complement `a[k,k] − Σ_{j<k} L[k,j]² d[j]`.  An LDLᵀ factorisation with nonzero pivots
  is unique (`ldl_unique`), so a successful `_factor_inner` returns exactly the reference pivots,
  and the first row at which `_factor_inner` stops with `ZeroPivot` is the first row whose
  reference pivot is exactly `0`.
-/
import ClarabelProofs.Lemmas.QdldlFactorVal

namespace Clarabel.Qdldl
open BigOperators

section ref
variable {α : Type} [Field α]

/-- row `r` of the reference factor, columns `< c`: forward substitution against the rows `< r` -/
def refRow (a : Nat → Nat → α) (ℓ : Nat → Nat → α) (d : Nat → α) (r : Nat) : Nat → (Nat → α)
  | 0 => fun _ => 0
  | c + 1 => Function.update (refRow a ℓ d r c) c
      ((a c r - ∑ j ∈ Finset.range c, ℓ c j * (refRow a ℓ d r c j * d j)) / d c)

/-- the reference elimination of the rows `< k`: `(L, d)` -/
def refLDL (a : Nat → Nat → α) : Nat → (Nat → Nat → α) × (Nat → α)
  | 0 => (fun _ _ => 0, fun _ => 0)
  | k + 1 =>
    (fun r c => if r = k then refRow a (refLDL a k).1 (refLDL a k).2 k k c else (refLDL a k).1 r c,
     Function.update (refLDL a k).2 k
       (a k k - ∑ j ∈ Finset.range k,
         (refRow a (refLDL a k).1 (refLDL a k).2 k k j * (refLDL a k).2 j) *
           refRow a (refLDL a k).1 (refLDL a k).2 k k j))

/-- the `k`-th pivot of the exact (unregularised) elimination of `a` -/
def refPivot (a : Nat → Nat → α) (k : Nat) : α := (refLDL a (k + 1)).2 k

theorem refLDL_d_stable (a : Nat → Nat → α) (k r : Nat) (h : r < k) :
    (refLDL a k).2 r = refPivot a r := by
  induction k with
  | zero => omega
  | succ m ih =>
    by_cases hr : r = m
    · subst hr; rfl
    · show Function.update (refLDL a m).2 m _ r = _
      rw [Function.update_of_ne hr]
      exact ih (by omega)

theorem refLDL_l_stable (a : Nat → Nat → α) (k r c : Nat) (h : r < k) :
    (refLDL a k).1 r c = (refLDL a (r + 1)).1 r c := by
  induction k with
  | zero => omega
  | succ m ih =>
    by_cases hr : r = m
    · subst hr; rfl
    · show (if r = m then _ else (refLDL a m).1 r c) = _
      rw [if_neg hr]
      exact ih (by omega)

/-- the equations of an exact LDLᵀ factorisation of the rows `< k` with nonzero pivots -/
structure LDLeqs (a : Nat → Nat → α) (k : Nat) (ℓ : Nat → Nat → α) (d : Nat → α) : Prop where
  offdiag : ∀ r, r < k → ∀ c, c < r →
    ℓ r c * d c + ∑ j ∈ Finset.range c, ℓ c j * (ℓ r j * d j) = a c r
  diag : ∀ r, r < k → d r = a r r - ∑ j ∈ Finset.range r, (ℓ r j * d j) * ℓ r j
  nz : ∀ c, c < k → d c ≠ 0

/-- row `k` is determined by the rows `< k` -/
theorem ldl_row_unique (a : Nat → Nat → α) (k : Nat) (ℓ : Nat → Nat → α) (d : Nat → α)
    (L' : Nat → Nat → α) (D' : Nat → α)
    (hl : ∀ r, r < k → ∀ c, c < r → ℓ r c = L' r c) (hd : ∀ r, r < k → d r = D' r)
    (hnz : ∀ c, c < k → d c ≠ 0) (y : Nat → α)
    (hrow : ∀ c, c < k → y c * d c + ∑ j ∈ Finset.range c, ℓ c j * (y j * d j) = a c k) :
    ∀ c, c ≤ k → ∀ j, j < c → y j = refRow a L' D' k c j := by
  intro c
  induction c with
  | zero => intro _ j hj; omega
  | succ c ih =>
    intro hc j hj
    have ih' := ih (by omega)
    show y j = Function.update (refRow a L' D' k c) c _ j
    by_cases hjc : j = c
    · subst hjc
      rw [Function.update_self]
      have hsum : ∑ i ∈ Finset.range j, L' j i * (refRow a L' D' k j i * D' i) =
          ∑ i ∈ Finset.range j, ℓ j i * (y i * d i) := by
        refine Finset.sum_congr rfl (fun i hi => ?_)
        rw [Finset.mem_range] at hi
        rw [← hl j (by omega) i hi, ← ih' i hi, ← hd i (by omega)]
      rw [hsum, ← hd j (by omega), eq_div_iff (hnz j (by omega)), ← hrow j (by omega)]
      ring
    · rw [Function.update_of_ne hjc]
      exact ih' j (by omega)

/-- **an LDLᵀ factorisation with nonzero pivots is unique**: it is the reference elimination -/
theorem ldl_unique (a : Nat → Nat → α) (k : Nat) (ℓ : Nat → Nat → α) (d : Nat → α)
    (h : LDLeqs a k ℓ d) :
    ∀ r, r < k → d r = (refLDL a k).2 r ∧ ∀ c, c < r → ℓ r c = (refLDL a k).1 r c := by
  induction k with
  | zero => intro r hr; omega
  | succ m ih =>
    have hm : LDLeqs a m ℓ d :=
      ⟨fun r hr => h.offdiag r (by omega), fun r hr => h.diag r (by omega), fun c hc => h.nz c (by omega)⟩
    have ihm := ih hm
    have hrow := ldl_row_unique a m ℓ d (refLDL a m).1 (refLDL a m).2
      (fun r hr c hc => (ihm r hr).2 c hc) (fun r hr => (ihm r hr).1) hm.nz (fun c => ℓ m c)
      (fun c hc => h.offdiag m (by omega) c hc) m (Nat.le_refl _)
    intro r hr
    by_cases hrm : r = m
    · subst hrm
      constructor
      · show d r = Function.update (refLDL a r).2 r _ r
        rw [Function.update_self, h.diag r (by omega)]
        congr 1
        refine Finset.sum_congr rfl (fun j hj => ?_)
        rw [Finset.mem_range] at hj
        rw [hrow j hj, (ihm j hj).1]
      · intro c hc
        show ℓ r c = if r = r then _ else _
        rw [if_pos rfl]
        exact hrow c hc
    · have hr' : r < m := by omega
      constructor
      · show d r = Function.update (refLDL a m).2 m _ r
        rw [Function.update_of_ne hrm]
        exact (ihm r hr').1
      · intro c hc
        show ℓ r c = if r = m then _ else _
        rw [if_neg hrm]
        exact (ihm r hr').2 c hc

/-- the Schur complement of row `k` computed from any exact factorisation of the rows `< k` is the
reference pivot -/
theorem rawPivot_eq_refPivot (a : Nat → Nat → α) (k : Nat) (ℓ : Nat → Nat → α) (d : Nat → α)
    (h : LDLeqs a k ℓ d) (y : Nat → α)
    (hrow : ∀ c, c < k → y c * d c + ∑ j ∈ Finset.range c, ℓ c j * (y j * d j) = a c k) :
    a k k - ∑ j ∈ Finset.range k, (y j * d j) * y j = refPivot a k := by
  have hu := ldl_unique a k ℓ d h
  have hrow' := ldl_row_unique a k ℓ d (refLDL a k).1 (refLDL a k).2
    (fun r hr c hc => (hu r hr).2 c hc) (fun r hr => (hu r hr).1) h.nz y hrow k (Nat.le_refl _)
  show _ = Function.update (refLDL a k).2 k _ k
  rw [Function.update_self]
  congr 1
  refine Finset.sum_congr rfl (fun j hj => ?_)
  rw [Finset.mem_range] at hj
  rw [hrow' j hj, (hu j hj).1]

/-- the reference elimination of the rows `< k` reads only the entries `a c r`, `c ≤ r < k` -/
theorem refRow_congr (a a' : Nat → Nat → α) (ℓ : Nat → Nat → α) (d : Nat → α) (r c : Nat)
    (h : ∀ j, j < c → a j r = a' j r) : refRow a ℓ d r c = refRow a' ℓ d r c := by
  induction c with
  | zero => rfl
  | succ c ih =>
    show Function.update (refRow a ℓ d r c) c _ = Function.update (refRow a' ℓ d r c) c _
    rw [ih (fun j hj => h j (by omega)), h c (by omega)]

theorem refLDL_congr (a a' : Nat → Nat → α) (k : Nat) (h : ∀ c r, c ≤ r → r < k → a c r = a' c r) :
    refLDL a k = refLDL a' k := by
  induction k with
  | zero => rfl
  | succ m ih =>
    have ihm := ih (fun c r hcr hr => h c r hcr (by omega))
    have hrow : refRow a (refLDL a m).1 (refLDL a m).2 m m = refRow a' (refLDL a' m).1 (refLDL a' m).2 m m := by
      rw [ihm]
      exact refRow_congr a a' _ _ m m (fun j hj => h j m (by omega) (by omega))
    show (_, _) = (_, _)
    rw [hrow, ihm, h m m (Nat.le_refl _) (by omega)]

theorem refPivot_congr (a a' : Nat → Nat → α) (k : Nat) (h : ∀ c r, c ≤ r → r ≤ k → a c r = a' c r) :
    refPivot a k = refPivot a' k := by
  unfold refPivot
  rw [refLDL_congr a a' (k + 1) (fun c r hcr hr => h c r hcr (by omega))]

end ref

/-! ### the model side: the raw pivot of the row at which `_factor_inner` is about to stop -/

section model
variable {α : Type} [Field α] [DecidableEq α] [LT α] [DecidableLT α] [FloatLike α]
variable {n : Nat} {Ap Ai : Array Nat} {etree : Array (Option Nat)} {Lnz : Array Nat}

/-- the two loops of iteration `k`, before the pivot step: with `(ℓ, d)` the factorisation of the rows
`< k` carried by the invariant, the row `ℓk` just computed satisfies the off-diagonal equations of
row `k` and `D[k]` holds the Schur complement `a[k,k] − Σ_{j<k} ℓk[j]² d[j]`
(first half of `val_row_step`, which does not need the pivot to be nonzero) -/
theorem val_row_pre (C : FCtx n Ap Ai etree Lnz) (Ax : Array α) (a : Nat → Nat → α)
    (hR : Represents n Ap Ai Ax a) (rp : RegParams α) (LiSz : Nat) (hLi : LpOf Lnz n ≤ LiSz)
    (k : Nat) (hk : k < n) (s : FState α) (hI : RowInv Ap Ai Lnz n k LiSz s)
    (hV : ValInv Ap Ai Lnz a rp n k s) (s1 : FState α) (yIdx : List Nat)
    (hO : OrdOK Ap Ai k yIdx.reverse)
    (hP : Pat1 Ap Ai etree a n k s (List.range' (Ap.getD k 0) (Ap.getD (k + 1) 0 - Ap.getD k 0)) (s1, yIdx))
    (hM0 : Mid Ap Ai Lnz n k LiSz yIdx.reverse s1 [] s1) :
    ∃ (ℓ : Nat → Nat → α) (d : Nat → α) (ℓk : Nat → α), IsLDL Ap Ai a rp k ℓ d ∧
      (∀ c, c < k → ℓk c * d c + ∑ j ∈ Finset.range c, ℓ c j * (ℓk j * d j) = a c k) ∧
      (yIdx.reverse.foldl (rowElimP k) s1).D.getD k 0 =
        a k k - ∑ j ∈ Finset.range k, (ℓk j * d j) * ℓk j := by
  obtain ⟨ℓ, d, hL, hVlx, hVd, hVdi, hVpos, hVrc⟩ := hV
  have e3 := hP.fLx; have e4 := hP.fDinv
  simp only at e3 e4
  have hA1 : ∀ x, x < n → s1.yVals.getD x 0 = if x < k then a x k else 0 := by
    intro x hx
    by_cases hst : x ≠ k ∧ ∃ i ∈ List.range' (Ap.getD k 0) (Ap.getD (k + 1) 0 - Ap.getD k 0), Ai.getD i 0 = x
    · obtain ⟨hxk, i, hi, hix⟩ := hst
      rw [List.mem_range'_1] at hi
      have := C.tri.rows k hk i hi.1 (by omega)
      have h1 := hP.yv1 x hx hxk ⟨i, by rw [List.mem_range'_1]; exact hi, hix⟩
      simp only at h1
      rw [h1, if_pos (by omega)]
    · have h0 := hP.yv0 x hx (by
        by_cases hxk : x = k
        · exact Or.inl hxk
        · exact Or.inr (fun h => hst ⟨hxk, h⟩))
      simp only at h0
      rw [h0, hI.yv0 x hx]
      by_cases hxk : x < k
      · rw [if_pos hxk]
        symm
        apply hR.zero
        rintro ⟨t, h1, h2, h3⟩
        exact hst ⟨by omega, t, by rw [List.mem_range'_1]; omega, h3⟩
      · rw [if_neg hxk]
  have hA2 : s1.D.getD k 0 = a k k := by
    by_cases hst : ∃ i ∈ List.range' (Ap.getD k 0) (Ap.getD (k + 1) 0 - Ap.getD k 0), Ai.getD i 0 = k
    · exact hP.dk1 hst
    · have := hP.dk0 hst
      simp only at this
      rw [this, hI.dz k (Nat.le_refl _) hk]
      symm
      apply hR.zero
      rintro ⟨t, h1, h2, h3⟩
      exact hst ⟨t, by rw [List.mem_range'_1]; omega, h3⟩
  have hM1 : ∀ x, x < n → ∀ t' r, (Lrows (Apat Ap Ai) k x)[t']? = some r →
      s1.Lx.getD (LpOf Lnz x + t') 0 = ℓ r x := by
    intro x hx t' r hr; rw [e3]; exact hVlx x hx t' r hr
  have hDinv1 : ∀ c, c < k → s1.Dinv.getD c 0 = 1 / d c := by
    intro c hc; rw [e4]; exact hVdi c hc
  have hmid : ValMid Lnz a n k ℓ d (fun x => (Lrows (Apat Ap Ai) k x).length) yIdx.reverse
      (yIdx.reverse.foldl (rowElimP k) s1) := by
    have := foldl_list_inv (rowElimP k)
      (fun pre t => Mid Ap Ai Lnz n k LiSz yIdx.reverse s1 pre t ∧
        ValMid Lnz a n k ℓ d (fun x => (Lrows (Apat Ap Ai) k x).length) pre t)
      yIdx.reverse s1 ⟨hM0, fun _ => 0, fun _ _ => rfl, by
        intro x hx _; rw [hA1 x hx]; simp, by simp, by simp, by rw [hA2]; simp⟩ (by
        intro pre c post hl t ⟨hMt, hVt⟩
        exact ⟨(mid_step C LiSz hLi k hk yIdx.reverse hO s1 pre c post hl t hMt).2,
          val_mid_step C a rp LiSz hLi k hk yIdx.reverse hO s1 ℓ d hL hM1 hDinv1 pre c post hl t hMt hVt⟩)
    exact this.2
  obtain ⟨yg, hY0, _, hY2, _, hY4⟩ := hmid
  have hordL : ∀ c, c ∈ yIdx.reverse ↔ Lpat (Apat Ap Ai) k c :=
    fun c => ⟨fun h => (hO.mem c h).2, hO.complete c⟩
  have hcancel : ∀ j, j < k → yg j * (1 / d j) * d j = yg j := by
    intro j hj; field_simp [hL.nz j hj]
  refine ⟨ℓ, d, fun c => yg c * (1 / d c), hL, ?_, ?_⟩
  · intro c hc
    have hsum : ∑ j ∈ Finset.range c, ℓ c j * (yg j * (1 / d j) * d j) = ∑ j ∈ Finset.range c, ℓ c j * yg j := by
      refine Finset.sum_congr rfl (fun j hj => ?_)
      rw [Finset.mem_range] at hj
      rw [hcancel j (by omega)]
    rw [hsum, hcancel c hc]
    by_cases hco : c ∈ yIdx.reverse
    · rw [← hY2 c hco, sum_range_trunc k c (by omega) (fun j => ℓ c j * yg j) (by
        intro j hj1 _
        rw [hL.zero c j (fun h => by have := h.2.lt; omega), zero_mul])]
    · have hacz : a c k = 0 := by
        apply hR.zero
        rintro ⟨t, h1, h2, h3⟩
        exact hco ((hordL c).mpr (Lpat.base hc ⟨t, h1, h2, h3⟩))
      rw [hY0 c hco, hacz, zero_add]
      apply Finset.sum_eq_zero
      intro j hj
      rw [Finset.mem_range] at hj
      by_cases hjo : j ∈ yIdx.reverse
      · rw [hL.zero c j (fun h => hco ((hordL c).mpr (Lpat.fill hj hc h.2 ((hordL j).mp hjo)))), zero_mul]
      · rw [hY0 j hjo, mul_zero]
  · rw [hY4]
    congr 1
    refine Finset.sum_congr rfl (fun j hj => ?_)
    rw [Finset.mem_range] at hj
    rw [hcancel j hj]

/-- the first failing step of a loop -/
theorem foldlM_range_err_first {β : Type} (f : β → Nat → MErr β) (e : ModelErr) (n : Nat) (x0 : β)
    (h : (List.range n).foldlM f x0 = .error e) :
    ∃ i, i < n ∧ ∃ x, (List.range i).foldlM f x0 = .ok x ∧ f x i = .error e := by
  induction n with
  | zero => cases h
  | succ m ih =>
    rw [List.range_succ, List.foldlM_append] at h
    cases hm : (List.range m).foldlM f x0 with
    | error e' =>
      rw [hm] at h
      have : e' = e := by simpa [bind, Except.bind] using h
      subst this
      obtain ⟨i, hi, x, hx, hf⟩ := ih hm
      exact ⟨i, by omega, x, hx, hf⟩
    | ok xm =>
      rw [hm] at h
      simp only [bind, Except.bind, List.foldlM_cons, List.foldlM_nil, pure, Except.pure] at h
      refine ⟨m, by omega, xm, hm, ?_⟩
      cases hf : f xm m with
      | error e' => rw [hf] at h; simpa using h
      | ok x' => rw [hf] at h; cases h

/-- an `IsLDL` invariant with the regulariser off gives the plain equations -/
theorem IsLDL.eqs {a : Nat → Nat → α} {rp : RegParams α} {k : Nat} {ℓ : Nat → Nat → α} {d : Nat → α}
    (h : IsLDL Ap Ai a rp k ℓ d) (hoff : rp.enable = false) : LDLeqs a k ℓ d := by
  refine ⟨h.offdiag, ?_, h.nz⟩
  intro r hr
  have := h.diag r hr
  rw [hoff] at this
  simpa [regularizePivot, rawPivot] using this

/-- **`ZeroPivot` ⇔ a pivot of the exact elimination is zero** (regulariser off), on every pattern
and whatever the incoming buffer contents: `_factor_inner` stops with `ZeroPivot` iff some reference
pivot `refPivot a k`, `k < n`, is `0`; otherwise it succeeds and returns exactly the reference
pivots. -/
theorem factorInner_zeroPivot_iff (C : FCtx n Ap Ai etree Lnz) (Ax : Array α) (a : Nat → Nat → α)
    (hR : Represents n Ap Ai Ax a) (Li : Array Nat) (Lx D Dinv : Array α)
    (hLi : LpOf Lnz n ≤ Li.size) (hLx : Lx.size = Li.size) (hDs : D.size = n) (hDi : Dinv.size = n)
    (rp : RegParams α) (hoff : rp.enable = false) :
    (factorInner n Ap Ai Ax Li Lx D Dinv Lnz etree false rp = .error errZeroPivot ↔
      ∃ k, k < n ∧ refPivot a k = 0) ∧
    ((∀ k, k < n → refPivot a k ≠ 0) →
      ∃ s, factorInner n Ap Ai Ax Li Lx D Dinv Lnz etree false rp = .ok s ∧
        ∀ k, k < n → s.D.getD k 0 = refPivot a k) ∧
    (∀ s, factorInner n Ap Ai Ax Li Lx D Dinv Lnz etree false rp = .ok s →
      ∀ k, k < n → s.D.getD k 0 = refPivot a k ∧ refPivot a k ≠ 0) := by
  have hn := C.hn
  have hsg : rp.enable = true → n ≤ rp.Dsigns.size := by rw [hoff]; intro h; cases h
  have hval := factorInner_val C Ax a hR Li Lx D Dinv hLi hLx hDs hDi rp hsg
  -- success: the pivots are the reference pivots
  have hok : ∀ s, factorInner n Ap Ai Ax Li Lx D Dinv Lnz etree false rp = .ok s →
      ∀ k, k < n → s.D.getD k 0 = refPivot a k ∧ refPivot a k ≠ 0 := by
    intro s hs k hk
    obtain ⟨_, ℓ, d, hL, _, hVd, _, _, _⟩ := hval.2 s hs
    have hu := ldl_unique a n ℓ d (hL.eqs hoff) k hk
    have e : s.D.getD k 0 = refPivot a k := by
      rw [hVd k hk, hu.1, refLDL_d_stable a n k hk]
    exact ⟨e, by rw [← e, hVd k hk]; exact hL.nz k hk⟩
  -- failure: the first failing row has a zero reference pivot
  have herr : factorInner n Ap Ai Ax Li Lx D Dinv Lnz etree false rp = .error errZeroPivot →
      ∃ k, k < n ∧ refPivot a k = 0 := by
    intro hfail
    rw [factorInner_unfold C Ax a hR Li Lx D Dinv hDs hDi rp] at hfail
    have hinitD : (initState Lnz n Li Lx Dinv (a 0 0)).D.getD 0 0 = a 0 0 := by
      show ((Array.replicate n (0 : α)).setIfInBounds 0 (a 0 0)).getD 0 0 = a 0 0
      rw [getD_setIfInBounds, if_pos ⟨rfl, by simpa using hn⟩]
    have hsz0 : 0 < (initState Lnz n Li Lx Dinv (a 0 0)).D.size := by
      show 0 < ((Array.replicate n (0 : α)).setIfInBounds 0 (a 0 0)).size
      simpa using hn
    have hp0 := finishPivot_eq rp 0 (initState Lnz n Li Lx Dinv (a 0 0)) hsz0
      (fun h => by have := hsg h; omega) (by show 0 < Dinv.size; omega)
    rw [hinitD] at hp0
    simp only [hoff, regularizePivot, Bool.false_eq_true, ↓reduceIte] at hp0
    by_cases hz0 : a 0 0 = 0
    · refine ⟨0, hn, ?_⟩
      have : refPivot a 0 = a 0 0 := by simp [refPivot, refLDL]
      rw [this]; exact hz0
    · have hne : ((a 0 0 == (0 : α)) = true) = False := by simp [hz0]
      simp only [hne, ↓reduceIte] at hp0
      rw [hp0] at hfail
      simp only [bind, Except.bind] at hfail
      obtain ⟨i, hi, x, hx, hf⟩ := foldlM_range_err_first _ _ _ _ hfail
      -- the invariants hold at the start of the failing row
      have hz0' : ((regularizePivot rp.enable rp.eps rp.delta (rp.Dsigns.getD 0 0) (a 0 0)).1 == (0 : α)) = false := by
        simp [hoff, regularizePivot, hz0]
      have hpiv : pivotState rp 0 (initState Lnz n Li Lx Dinv (a 0 0)) =
          { initState Lnz n Li Lx Dinv (a 0 0) with
            D := (initState Lnz n Li Lx Dinv (a 0 0)).D.setIfInBounds 0 (a 0 0),
            Dinv := (initState Lnz n Li Lx Dinv (a 0 0)).Dinv.setIfInBounds 0 (1 / a 0 0),
            regularizeCount := (initState Lnz n Li Lx Dinv (a 0 0)).regularizeCount + 0,
            positive := (initState Lnz n Li Lx Dinv (a 0 0)).positive + if (0 : α) < a 0 0 then 1 else 0 } := by
        unfold pivotState
        rw [hinitD]
        simp [hoff, regularizePivot]
      have hinv := foldlM_range_inv_ok (fun s i => factorRow n Ap Ai Ax etree false rp s (1 + i))
        (fun i s => RowInv Ap Ai Lnz n (1 + i) Li.size s ∧ ValInv Ap Ai Lnz a rp n (1 + i) s) i _
        ⟨by rw [← hpiv]; exact rowInv_init C Li Lx Dinv hLx hDi rp (a 0 0),
         by rw [← hpiv]; exact val_init C a rp Li Lx Dinv hDi hz0'⟩ (by
          intro j hj y y' ⟨hy, hv⟩ hfy
          obtain ⟨s1, yIdx, hO, hP, hM0, hM2, hrun⟩ :=
            factorRow_eq C Ax a hR Li.size hLi rp (1 + j) (by omega) y hy
          rw [hrun] at hfy
          rcases finishPivot_cases rp (1 + j) (yIdx.reverse.foldl (rowElimP (1 + j)) s1)
            (by rw [hM2.dsz]; omega) (fun h => by have := hsg h; omega) (by rw [hM2.disz]; omega) with h | ⟨h, hz⟩
          · rw [h] at hfy; cases hfy
          · rw [h] at hfy
            have e : pivotState rp (1 + j) (yIdx.reverse.foldl (rowElimP (1 + j)) s1) = y' := Except.ok.inj hfy
            subst e
            rw [show 1 + (j + 1) = 1 + j + 1 by omega]
            exact ⟨rowInv_next (a := a) (etree := etree) Li.size (1 + j) (by omega) y hy s1 yIdx _ hO hP _ hM2 _ _ _ _,
              val_row_step C Ax a hR rp Li.size hLi (1 + j) (by omega) (by omega) y _ hy hv
                ⟨s1, yIdx, hO, hP, hM0, hM2, rfl, hz⟩⟩) x hx
      obtain ⟨hIx, hVx⟩ := hinv
      obtain ⟨s1, yIdx, hO, hP, hM0, hM2, hrun⟩ :=
        factorRow_eq C Ax a hR Li.size hLi rp (1 + i) (by omega) x hIx
      obtain ⟨ℓ, d, ℓk, hL, hrow, hraw⟩ :=
        val_row_pre C Ax a hR rp Li.size hLi (1 + i) (by omega) x hIx hVx s1 yIdx hO hP hM0
      rw [hrun, finishPivot_eq rp (1 + i) _ (by rw [hM2.dsz]; omega) (fun h => by have := hsg h; omega)
        (by rw [hM2.disz]; omega)] at hf
      simp only [hoff, regularizePivot, Bool.false_eq_true, ↓reduceIte] at hf
      refine ⟨1 + i, by omega, ?_⟩
      rw [← rawPivot_eq_refPivot a (1 + i) ℓ d (hL.eqs hoff) ℓk hrow, ← hraw]
      generalize (yIdx.reverse.foldl (rowElimP (1 + i)) s1).D.getD (1 + i) 0 = x at hf ⊢
      by_contra hne
      have : (x == (0 : α)) = false := by rw [beq_eq_false_iff_ne]; exact hne
      rw [this] at hf
      simp only [Bool.false_eq_true, ↓reduceIte] at hf
      cases hf
  refine ⟨⟨herr, ?_⟩, ?_, hok⟩
  · rintro ⟨k, hk, hz⟩
    rcases hval.1 with h | ⟨s, hs⟩
    · exact h
    · exact absurd hz (hok s hs k hk).2
  · intro hall
    rcases hval.1 with h | ⟨s, hs⟩
    · obtain ⟨k, hk, hz⟩ := herr h
      exact absurd hz (hall k hk)
    · exact ⟨s, hs, fun k hk => (hok s hs k hk).1⟩

end model

end Clarabel.Qdldl
