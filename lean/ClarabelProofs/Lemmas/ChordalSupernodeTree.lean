/-
  The front half of `SuperNodeTree::new` as a whole (`ClarabelModel/Chordal/SuperNode.lean`):
  on a filled pattern `L` (`LPat.Filled`)

    parent_from_L ⇒ children_from_parent ⇒ post_order ⇒ higher_degree ⇒ find_supernodes
      ⇒ find_separators

  run without panic and produce supernodes that partition the vertices, are chains of the
  elimination tree, with `separator = col(representative) \ supernode`, and every clique
  `supernode ∪ separator` is a clique of the filled graph that contains the whole column of each
  of its supernode's vertices (`SnCover`); `sntree_new_cover` transfers this to any tree returned
  by `SuperNodeTree.new`.
-/
import ClarabelProofs.Lemmas.ChordalPothenSun

namespace Clarabel.Chordal

/-- [S] in a list without repetition two elements cannot occur in both orders -/
theorem no_both_sublists : ∀ (l : List Nat), l.Nodup → ∀ a b, List.Sublist [a, b] l →
    List.Sublist [b, a] l → False := by
  intro l
  induction l with
  | nil => intro _ a b h _; simp at h
  | cons x t ih =>
    intro hnd a b h1 h2
    have hnd' := List.nodup_cons.1 hnd
    rcases List.sublist_cons_iff.1 h1 with h1 | ⟨r1, e1, h1⟩
    · rcases List.sublist_cons_iff.1 h2 with h2 | ⟨r2, e2, h2⟩
      · exact ih hnd'.2 a b h1 h2
      · injection e2 with e2 _
        have hb : b ∈ t := h1.subset (show b ∈ [a, b] by simp)
        exact hnd'.1 (e2 ▸ hb)
    · injection e1 with e1 e1'
      rcases List.sublist_cons_iff.1 h2 with h2 | ⟨r2, e2, h2⟩
      · have ha : a ∈ t := h2.subset (show a ∈ [b, a] by simp)
        exact hnd'.1 (e1 ▸ ha)
      · injection e2 with e2 e2'
        have hb : b ∈ t := by
          rw [← e1'] at h1
          exact h1.subset (show b ∈ [b] by simp)
        exact hnd'.1 (e2 ▸ hb)

/-- what the front half of `SuperNodeTree::new` establishes about the supernodes and separators -/
structure SnCover (L : LPat) (snode separators : Array VSet) : Prop where
  sep_eq : separators = snode.map (sepOf L)
  /-- the supernodes partition the vertices -/
  partition : (snode.toList.flatMap (fun sn => sn.toList)).Perm (List.range L.n)
  /-- every supernode is a Pothen–Sun supernode whose representative is its smallest vertex -/
  snode_of : ∀ sn ∈ snode.toList, SnodeOf L sn.toList (minOf sn)
  nodup : ∀ sn ∈ snode.toList, sn.toList.Nodup

/-- [S] from the output of `find_supernodes` to `SnodeOf` -/
theorem Supernodes.snodeOf {L : LPat} (h : L.Filled) {parent degree : Array Nat} {snode : Array VSet}
    (hs : Supernodes parent degree L.n snode) (hpar : EtreeParent parent L.n)
    (hp : ∀ v, v + 1 < L.n → parent.getD v 0 = L.par v)
    (hd : ∀ v, v < L.n → degree.getD v 0 = (L.col v).length) :
    ∀ sn ∈ snode.toList, SnodeOf L sn.toList (minOf sn) := by
  intro sn hsn
  obtain ⟨r, hr, hpred⟩ := hs.pred sn hsn
  have hso : SnodeOf L sn.toList r := by
    refine ⟨hr, hs.lt sn hsn, ?_⟩
    intro x hx hxr
    obtain ⟨c, hc, hcn, hcp, hcd⟩ := hpred x hx hxr
    have hxn := hs.lt sn hsn x hx
    have hc1 : c + 1 < L.n := by
      by_contra hlast
      have : c = L.n - 1 := by omega
      subst this
      have := hpar.root
      have := hpar.lt_noParent hxn
      omega
    refine ⟨c, hc, hc1, (hp c hc1).symm.trans hcp, ?_⟩
    rw [← hd c hcn, ← hd x hxn]; exact hcd
  have hmin := minOf_spec sn (hs.nonempty sn hsn)
  have h1 := hso.rep_le h _ hmin.1
  have h2 := hmin.2 r hr
  have : minOf sn = r := by omega
  rw [this]; exact hso

/-- [S] **the front half of `SuperNodeTree::new`** on a filled pattern: none of the six passes
panics (`post_order` does not run out of fuel), `post` is a permutation of the vertices, and the
supernodes / separators satisfy `SnCover`. -/
theorem sntree_front {L : LPat} (h : L.Filled) :
    ∃ parent children post children' degree snode sparent,
      parentFromL L = .ok parent ∧ childrenFromParent parent = .ok children ∧
      postOrder parent children parent.size = .ok (post, children') ∧
      higherDegree L = .ok degree ∧ findSupernodes parent post degree = .ok (snode, sparent) ∧
      findSeparators L snode = .ok (snode.map (sepOf L)) ∧
      EtreeParent parent L.n ∧ post.toList.Perm (List.range L.n) ∧
      SnCover L snode (snode.map (sepOf L)) := by
  obtain ⟨parent, hpf, hpar, _, hp⟩ := parent_from_L_spec h
  have hnsmall : parent.size < noParent := by
    rw [hpar.size_eq]
    have := hpar.n_small
    have : inactiveNode < noParent := by decide
    omega
  obtain ⟨children, hcf, hch⟩ := children_from_parent_spec parent hpar.wf hnsmall
  have hn := hpar.n_pos
  obtain ⟨post, children', hpo, hpnd, hplt, hpsz, _, hpsub, hpall⟩ :=
    post_order_spec_full parent children (L.n - 1) hch hnsmall (by rw [hpar.size_eq]; omega)
      hpar.findIdx_root
  obtain ⟨degree, hdf, hdsz, hd1, hd2⟩ := higher_degree_spec h
  have hd : ∀ v, v < L.n → degree.getD v 0 = (L.col v).length := by
    intro v hv
    by_cases hl : v + 1 < L.n
    · exact hd1 v hl
    · have : v = L.n - 1 := by omega
      subst this
      rw [hd2, h.col_last]; rfl
  have hdpos : ∀ v, v + 1 < L.n → 0 < degree.getD v 0 := by
    intro v hv
    rw [hd1 v hv]
    exact List.length_pos_iff.2 (h.connected v hv)
  have hplt' : ∀ v ∈ post.toList, v < L.n := by
    intro v hv; rw [← hpar.size_eq]; exact hplt v hv
  have hpw : post.toList.Pairwise (fun a b => parent.getD b 0 ≠ a) := by
    rw [List.pairwise_iff_forall_sublist]
    intro a b hab e
    have ha : a ∈ post.toList := hab.subset (by simp)
    have hb : b ∈ post.toList := hab.subset (by simp)
    have hbn := hplt' b hb
    have han := hplt' a ha
    have hbr : b ≠ L.n - 1 := by
      intro e'
      subst e'
      have := hpar.root
      have := hpar.lt_noParent han
      omega
    have := hpsub b a hb ha (hpar.reaches_root b hbn) hbr e
    exact no_both_sublists _ hpnd a b hab this
  obtain ⟨snode, sparent, hfs, hsn⟩ :=
    find_supernodes_spec hpar hdsz hdpos hpnd hplt' hpw
  have hso := hsn.snodeOf h hpar hp hd
  have hsep := find_separators_spec h snode (fun sn hs => ⟨hsn.nonempty sn hs, hsn.lt sn hs⟩)
  refine ⟨parent, children, post, children', degree, snode, sparent, hpf, hcf, hpo, hdf, hfs,
    hsep, hpar, ?_, ⟨rfl, hsn.partition, hso, hsn.nodup⟩⟩
  rw [List.perm_ext_iff_of_nodup hpnd List.nodup_range]
  intro a
  rw [List.mem_range]
  exact ⟨hplt' a, fun ha => hpall a (hpar.reaches_root a ha)⟩

/-- [S] whatever `SuperNodeTree::new` returns on a filled pattern has supernodes and separators
satisfying `SnCover`, `n_cliques = |snode|` and a `post` that is a permutation of the vertices.
(The back half of `new` — `children_from_parent`/`post_order` on the *supernodal* tree built by
`pothen_sun` — is not shown to terminate here; its output is not constrained.) -/
theorem sntree_new_cover {L : LPat} (h : L.Filled) {t : SuperNodeTree}
    (ht : SuperNodeTree.new L = .ok t) :
    SnCover L t.snode t.separators ∧ t.nCliques = t.snode.size ∧
      t.post.toList.Perm (List.range L.n) ∧ t.nblk = none := by
  obtain ⟨parent, children, post, children', degree, snode, sparent, h1, h2, h3, h4, h5, h6,
    _, hperm, hcov⟩ := sntree_front h
  unfold SuperNodeTree.new at ht
  rw [h1, ok_bind', h2, ok_bind', h3, ok_bind'] at ht
  simp only [] at ht
  rw [h4, ok_bind', h5, ok_bind'] at ht
  simp only [] at ht
  cases hc : childrenFromParent sparent with
  | error e => rw [hc] at ht; cases ht
  | ok sc =>
    rw [hc, ok_bind'] at ht
    cases hq : postOrder sparent sc sparent.size with
    | error e => rw [hq] at ht; cases ht
    | ok pr =>
      obtain ⟨spost, sc'⟩ := pr
      rw [hq, ok_bind'] at ht
      simp only [] at ht
      rw [h6, ok_bind'] at ht
      injection ht with ht
      subst ht
      exact ⟨hcov, rfl, hperm, rfl⟩

namespace SnCover
variable {L : LPat} {snode separators : Array VSet}

/-- [S] separator of the `i`-th clique = higher adjacency of the representative minus the
supernode, without repetition and disjoint from the supernode -/
theorem sep_spec (hc : SnCover L snode separators) (i : Nat) (hi : i < snode.size) :
    (separators.getD i #[]).toList.Nodup ∧
    ∀ x, x ∈ (separators.getD i #[]).toList ↔
      x ∈ L.col (minOf (snode.getD i #[])) ∧ x ∉ (snode.getD i #[]).toList := by
  have e : separators.getD i #[] = sepOf L (snode.getD i #[]) := by
    rw [hc.sep_eq]
    simp [Array.getD_eq_getD_getElem?, hi]
  rw [e]
  exact ⟨nodup_sepOf L _, mem_sepOf L _⟩

/-- [S] **coverage**: the clique `snode[i] ∪ separators[i]` contains, for each vertex `x` of the
supernode, every structural non-zero of column `x` of the filled pattern -/
theorem cover (hc : SnCover L snode separators) (h : L.Filled) (i : Nat) (hi : i < snode.size) :
    ∀ x ∈ (snode.getD i #[]).toList, ∀ r ∈ L.col x,
      r ∈ (snode.getD i #[]).toList ∨ r ∈ (separators.getD i #[]).toList := by
  have hm : snode.getD i #[] ∈ snode.toList := by
    have : snode.getD i #[] = snode[i] := by simp [Array.getD_eq_getD_getElem?, hi]
    rw [this]; exact Array.getElem_mem_toList hi
  intro x hx r hr
  rcases (hc.snode_of _ hm).cover h x hx r hr with h1 | h1
  · exact Or.inl h1
  · exact Or.inr (((hc.sep_spec i hi).2 r).2 h1)

/-- [S] `snode[i] ∪ separators[i]` is a clique of the filled graph -/
theorem clique (hc : SnCover L snode separators) (h : L.Filled) (i : Nat) (hi : i < snode.size) :
    ∀ x y, (x ∈ (snode.getD i #[]).toList ∨ x ∈ (separators.getD i #[]).toList) →
      (y ∈ (snode.getD i #[]).toList ∨ y ∈ (separators.getD i #[]).toList) → x < y →
      y ∈ L.col x := by
  have hm : snode.getD i #[] ∈ snode.toList := by
    have : snode.getD i #[] = snode[i] := by simp [Array.getD_eq_getD_getElem?, hi]
    rw [this]; exact Array.getElem_mem_toList hi
  intro x y hx hy hxy
  refine (hc.snode_of _ hm).clique h x y ?_ ?_ hxy
  · exact hx.imp id (fun hs => (((hc.sep_spec i hi).2 x).1 hs).1)
  · exact hy.imp id (fun hs => (((hc.sep_spec i hi).2 y).1 hs).1)

/-- [S] every structural non-zero `(r, x)` of the filled pattern lies in some clique block -/
theorem cover_all (hc : SnCover L snode separators) (h : L.Filled) :
    ∀ x, x < L.n → ∀ r ∈ L.col x, ∃ i, i < snode.size ∧
      x ∈ (snode.getD i #[]).toList ∧
      (r ∈ (snode.getD i #[]).toList ∨ r ∈ (separators.getD i #[]).toList) := by
  intro x hx r hr
  have : x ∈ snode.toList.flatMap (fun sn => sn.toList) :=
    hc.partition.mem_iff.2 (List.mem_range.2 hx)
  obtain ⟨sn, hsn, hxs⟩ := List.mem_flatMap.1 this
  obtain ⟨i, hi, e⟩ := List.getElem_of_mem hsn
  have hi' : i < snode.size := by simpa using hi
  have e' : snode.getD i #[] = sn := by
    rw [← e]; simp [Array.getD_eq_getD_getElem?, hi']
  refine ⟨i, hi', by rw [e']; exact hxs, ?_⟩
  exact hc.cover h i hi' x (by rw [e']; exact hxs) r hr

end SnCover

end Clarabel.Chordal
