/-
  Structural lemmas about `Unscale.reverseLoop` / `reversePresolve` (array sizes).
-/
import ClarabelModel.Unscale

namespace Clarabel.Unscale
variable {α : Type}

theorem setE_size {β : Type} (xs : Array β) (i : Nat) (v : β) (site : String) (ys : Array β)
    (h : setE xs i v site = .ok ys) : ys.size = xs.size := by
  unfold setE at h
  split at h
  · cases h; simp
  · cases h

theorem reverseLoop_size [OfNat α 0] (infbound : α) (vs vz : Array α) (keep : List Bool)
    (idx ctr : Nat) (s z s' z' : Array α)
    (h : reverseLoop infbound vs vz keep idx ctr s z = .ok (s', z')) :
    s'.size = s.size ∧ z'.size = z.size := by
  induction keep generalizing idx ctr s z with
  | nil =>
    unfold reverseLoop at h
    cases h
    exact ⟨rfl, rfl⟩
  | cons k rest ih =>
    unfold reverseLoop at h
    cases k with
    | true =>
      simp only [↓reduceIte, bind, Except.bind] at h
      split at h
      · cases h
      · split at h
        · cases h
        · rename_i s1 hs1
          split at h
          · cases h
          · split at h
            · cases h
            · rename_i z1 hz1
              have := ih _ _ _ _ h
              rw [this.1, this.2, setE_size _ _ _ _ _ hs1, setE_size _ _ _ _ _ hz1]
              exact ⟨rfl, rfl⟩
    | false =>
      simp only [Bool.false_eq_true, ↓reduceIte, bind, Except.bind] at h
      split at h
      · cases h
      · rename_i s1 hs1
        split at h
        · cases h
        · rename_i z1 hz1
          have := ih _ _ _ _ h
          rw [this.1, this.2, setE_size _ _ _ _ _ hs1, setE_size _ _ _ _ _ hz1]
          exact ⟨rfl, rfl⟩

theorem copyFrom_size (dst src r : Array α) (h : copyFrom dst src = .ok r) : r.size = dst.size := by
  unfold copyFrom at h
  split at h
  · cases h
  · rename_i hne
    cases h
    have : dst.size = src.size := by simpa using hne
    exact this.symm

theorem setE_get {β : Type} (xs : Array β) (i : Nat) (v : β) (site : String) (ys : Array β)
    (h : setE xs i v site = .ok ys) :
    ys[i]? = some v ∧ ∀ j, j ≠ i → ys[j]? = xs[j]? := by
  unfold setE at h
  split at h
  · cases h
    rename_i hi
    constructor
    · simp [hi]
    · intro j hj
      rw [Array.getElem?_set]
      simp [Ne.symm hj]
  · cases h

/-- number of kept rows among the first `k` -/
def rank (keep : List Bool) (k : Nat) : Nat := ((keep.take k).filter id).length

theorem reverseLoop_spec [OfNat α 0] (ib : α) (vs vz : Array α) (keep : List Bool)
    (idx ctr : Nat) (s z s' z' : Array α)
    (h : reverseLoop ib vs vz keep idx ctr s z = .ok (s', z')) :
    (∀ j, j < idx ∨ idx + keep.length ≤ j → s'[j]? = s[j]? ∧ z'[j]? = z[j]?)
    ∧ (∀ k, (hk : k < keep.length) →
        (keep[k] = true → s'[idx + k]? = vs[ctr + rank keep k]? ∧ z'[idx + k]? = vz[ctr + rank keep k]?
            ∧ (vs[ctr + rank keep k]?).isSome ∧ (vz[ctr + rank keep k]?).isSome)
        ∧ (keep[k] = false → s'[idx + k]? = some ib ∧ z'[idx + k]? = some 0)) := by
  induction keep generalizing idx ctr s z with
  | nil =>
    unfold reverseLoop at h
    cases h
    exact ⟨fun j _ => ⟨rfl, rfl⟩, fun k hk => absurd hk (Nat.not_lt_zero k)⟩
  | cons b rest ih =>
    unfold reverseLoop at h
    cases b with
    | true =>
      simp only [↓reduceIte, bind, Except.bind] at h
      split at h
      · cases h
      · rename_i sv hsv
        split at h
        · cases h
        · rename_i s1 hs1
          split at h
          · cases h
          · rename_i zv hzv
            split at h
            · cases h
            · rename_i z1 hz1
              have hsv' : vs[ctr]? = some sv := by
                unfold getE at hsv; split at hsv
                · rename_i hh; cases hsv; exact hh
                · cases hsv
              have hzv' : vz[ctr]? = some zv := by
                unfold getE at hzv; split at hzv
                · rename_i hh; cases hzv; exact hh
                · cases hzv
              obtain ⟨ihA, ihB⟩ := ih _ _ _ _ h
              obtain ⟨gs, gs'⟩ := setE_get _ _ _ _ _ hs1
              obtain ⟨gz, gz'⟩ := setE_get _ _ _ _ _ hz1
              constructor
              · intro j hj
                have hj1 : j < idx + 1 ∨ idx + 1 + rest.length ≤ j := by
                  rcases hj with hj | hj
                  · left; omega
                  · right; simp only [List.length_cons] at hj; omega
                have hne : j ≠ idx := by
                  rcases hj with hj | hj
                  · omega
                  · simp only [List.length_cons] at hj; omega
                obtain ⟨a1, a2⟩ := ihA j hj1
                exact ⟨by rw [a1, gs' j hne], by rw [a2, gz' j hne]⟩
              · intro k hk
                cases k with
                | zero =>
                  constructor
                  · intro _
                    obtain ⟨a1, a2⟩ := ihA idx (Or.inl (Nat.lt_succ_self idx))
                    simp only [Nat.add_zero, rank, List.take_zero, List.filter_nil, List.length_nil]
                    rw [a1, a2, gs, gz, hsv', hzv']
                    exact ⟨rfl, rfl, rfl, rfl⟩
                  · intro hf; simp at hf
                | succ k' =>
                  have hk' : k' < rest.length := by simpa using hk
                  obtain ⟨b1, b2⟩ := ihB k' hk'
                  have hr : rank (true :: rest) (k' + 1) = 1 + rank rest k' := by
                    simp [rank, Nat.add_comm]
                  have hidx : idx + (k' + 1) = idx + 1 + k' := by omega
                  have hctr : ctr + (1 + rank rest k') = ctr + 1 + rank rest k' := by omega
                  simp only [List.getElem_cons_succ]
                  rw [hr, hidx, hctr]
                  exact ⟨b1, b2⟩
    | false =>
      simp only [Bool.false_eq_true, ↓reduceIte, bind, Except.bind] at h
      split at h
      · cases h
      · rename_i s1 hs1
        split at h
        · cases h
        · rename_i z1 hz1
          obtain ⟨ihA, ihB⟩ := ih _ _ _ _ h
          obtain ⟨gs, gs'⟩ := setE_get _ _ _ _ _ hs1
          obtain ⟨gz, gz'⟩ := setE_get _ _ _ _ _ hz1
          constructor
          · intro j hj
            have hj1 : j < idx + 1 ∨ idx + 1 + rest.length ≤ j := by
              rcases hj with hj | hj
              · left; omega
              · right; simp only [List.length_cons] at hj; omega
            have hne : j ≠ idx := by
              rcases hj with hj | hj
              · omega
              · simp only [List.length_cons] at hj; omega
            obtain ⟨a1, a2⟩ := ihA j hj1
            exact ⟨by rw [a1, gs' j hne], by rw [a2, gz' j hne]⟩
          · intro k hk
            cases k with
            | zero =>
              constructor
              · intro hf; simp at hf
              · intro _
                obtain ⟨a1, a2⟩ := ihA idx (Or.inl (Nat.lt_succ_self idx))
                simp only [Nat.add_zero]
                rw [a1, a2, gs, gz]
                exact ⟨rfl, rfl⟩
            | succ k' =>
              have hk' : k' < rest.length := by simpa using hk
              obtain ⟨b1, b2⟩ := ihB k' hk'
              have hr : rank (false :: rest) (k' + 1) = rank rest k' := by
                simp [rank]
              have hidx : idx + (k' + 1) = idx + 1 + k' := by omega
              simp only [List.getElem_cons_succ]
              rw [hr, hidx]
              exact ⟨b1, b2⟩

end Clarabel.Unscale
