/-
  Helper lemmas for C16: row/column sums and infinity norms; the storage-order entry
  list of a matrix as the concatenation of its columns.
-/
import ClarabelProofs.Lemmas.CscScale
import ClarabelProofs.Lemmas.ScalarInst

namespace Clarabel.Csc
open Clarabel.C16

variable {α : Type}

/-- slices of a list along a monotone pointer sequence concatenate to a prefix -/
theorem flatten_slices {β : Type} (l : List β) (p : Nat → Nat) (k : Nat) (h0 : p 0 = 0)
    (hmono : ∀ j, j < k → p j ≤ p (j + 1)) :
    ((List.range k).map (fun j => (l.take (p (j + 1))).drop (p j))).flatten = l.take (p k) := by
  induction k with
  | zero => simp [h0]
  | succ k ih =>
    rw [List.range_succ, List.map_append, List.flatten_append,
      ih (fun j hj => hmono j (by omega))]
    simp only [List.map_cons, List.map_nil, List.flatten_cons, List.flatten_nil, List.append_nil]
    have hle := hmono k (by omega)
    conv_rhs => rw [← List.take_append_drop (p k) (l.take (p (k + 1)))]
    rw [List.take_take, Nat.min_eq_left hle]

theorem col_eq_slice (M : Csc α) (j : Nat) :
    M.col j = (M.entries.take (M.colptr.getD (j + 1) 0)).drop (M.colptr.getD j 0) := by
  unfold col entries
  simp only [Array.toList_extract, List.extract_eq_drop_take', List.zip_eq_zipWith,
    List.take_zipWith, List.drop_zipWith]

/-- for a canonical matrix whose `colptr` starts at 0 the storage-order entry list is the
concatenation of the columns -/
theorem entries_eq_flatten_cols (M : Csc α) (hM : Canonical M) (h0 : M.colptr.getD 0 0 = 0) :
    M.entries = M.cols.flatten := by
  unfold cols
  have hmono : ∀ j, j < M.n → M.colptr.getD j 0 ≤ M.colptr.getD (j + 1) 0 := by
    intro j hj
    have := (noBadAdjacent_iff_getElem _ _).mp hM.colptr_mono j
      (by simp [hM.colptr_size]; omega)
    have hs := hM.colptr_size
    rw [toList_getElem_eq_getD _ j (by omega), toList_getElem_eq_getD _ (j + 1) (by omega)] at this
    omega
  have := flatten_slices M.entries (fun j => M.colptr.getD j 0) M.n h0 hmono
  simp only [← col_eq_slice] at this
  rw [this, hM.colptr_last, List.take_of_length_le]
  simp [entries, hM.len_eq]

/-- additive version of `sum_col_mul_eq` -/
theorem sum_col_eq [AddCommMonoid α] (c : List (Nat × α)) (m : Nat) (h : ∀ e ∈ c, e.1 < m) :
    (c.map (·.2)).sum = ∑ i ∈ Finset.range m, (colVals c i).sum := by
  induction c with
  | nil => simp
  | cons e t ih =>
    rw [List.map_cons, List.sum_cons, ih (fun e' he' => h e' (List.mem_cons_of_mem _ he'))]
    have he : e.1 < m := h e (by simp)
    have : ∀ i, (colVals (e :: t) i).sum = (if i = e.1 then e.2 else 0) + (colVals t i).sum := by
      intro i
      rw [colVals_cons]
      by_cases hi : e.1 = i
      · subst hi; simp
      · have : ¬ i = e.1 := fun h => hi h.symm
        simp [hi, this]
    simp only [this, Finset.sum_add_distrib, Finset.sum_ite_eq', Finset.mem_range, he, ↓reduceIte]

theorem foldl_add_snd [AddCommMonoid α] (c : List (Nat × α)) (a0 : α) :
    c.foldl (fun acc e => acc + e.2) a0 = a0 + (c.map (·.2)).sum := by
  induction c generalizing a0 with
  | nil => simp
  | cons e t ih => simp [ih, add_assoc]

/-- `r` is the maximum of `v0` and the members of `l` -/
def IsMaxOf [LE α] (r v0 : α) (l : List α) : Prop :=
  v0 ≤ r ∧ (∀ a ∈ l, a ≤ r) ∧ (r = v0 ∨ r ∈ l)

theorem foldl_max_isMaxOf [LinearOrder α] (l : List α) (v0 : α) :
    IsMaxOf (l.foldl (fun m a => max m a) v0) v0 l := by
  induction l generalizing v0 with
  | nil => exact ⟨le_refl _, by simp, Or.inl rfl⟩
  | cons a t ih =>
    obtain ⟨h1, h2, h3⟩ := ih (max v0 a)
    refine ⟨le_trans (le_max_left _ _) h1, ?_, ?_⟩
    · intro b hb
      rcases List.mem_cons.mp hb with rfl | hb
      · exact le_trans (le_max_right _ _) h1
      · exact h2 b hb
    · rcases h3 with h | h
      · rcases max_choice v0 a with hm | hm
        · exact Or.inl (by rw [List.foldl_cons, h, hm])
        · exact Or.inr (by rw [List.foldl_cons, h, hm]; simp)
      · exact Or.inr (List.mem_cons_of_mem _ h)


/-! ### a canonical matrix whose `colptr` starts at 0 is rebuilt by `ofCols` from its columns -/

theorem col_length (M : Csc α) (hM : Canonical M) (j : Nat) (hj : j < M.n) :
    (M.col j).length = M.colptr.getD (j + 1) 0 - M.colptr.getD j 0 := by
  have hs := hM.colptr_size
  have hmono := (noBadAdjacent_iff_getElem _ _).mp hM.colptr_mono
  have hlast := hM.colptr_last
  -- every pointer is ≤ the last one
  have hle : ∀ k, k ≤ M.n → M.colptr.getD k 0 ≤ M.colptr.getD M.n 0 := by
    intro k hk
    induction hd : M.n - k generalizing k with
    | zero => have : k = M.n := by omega
              rw [this]
    | succ d ih =>
      have h1 := hmono k (by simp [hs]; omega)
      rw [toList_getElem_eq_getD _ k (by omega), toList_getElem_eq_getD _ (k + 1) (by omega)] at h1
      have := ih (k + 1) (by omega) (by omega)
      omega
  have h1 := hle (j + 1) (by omega)
  unfold col
  simp only [List.length_zip, Array.toList_extract, List.extract_eq_drop_take', List.length_drop,
    List.length_take, Array.length_toList, ← hM.len_eq]
  omega

theorem ofCols_cols_self (M : Csc α) (hM : Canonical M) (h0 : M.colptr.getD 0 0 = 0) :
    ofCols M.m M.n M.cols = M := by
  have hs := hM.colptr_size
  have hmono := (noBadAdjacent_iff_getElem _ _).mp hM.colptr_mono
  have hclen : M.cols.length = M.n := by simp [cols]
  have hlens : ∀ k, k ≤ M.n → ((M.cols.map List.length).take k).sum = M.colptr.getD k 0 := by
    intro k hk
    induction k with
    | zero => simp [h0]
    | succ k ih =>
      have hk' : k < (M.cols.map List.length).length := by simp [hclen]; omega
      rw [List.take_succ_eq_append_getElem hk', List.sum_append, ih (by omega)]
      simp only [List.getElem_map, cols, List.getElem_range, List.sum_cons, List.sum_nil, Nat.add_zero]
      rw [col_length M hM k (by omega)]
      have h1 := hmono k (by simp [hs]; omega)
      rw [toList_getElem_eq_getD _ k (by omega), toList_getElem_eq_getD _ (k + 1) (by omega)] at h1
      omega
  have hent := entries_eq_flatten_cols M hM h0
  have hcp : (ofCols M.m M.n M.cols).colptr = M.colptr := by
    apply Array.ext
    · rw [ofCols_colptr, (prefixSums_spec _).1]; simp [hclen, hs]
    · intro k h1 h2
      have hk : k ≤ M.n := by omega
      have e1 := ofCols_colptr_getD M.m M.n M.cols k (by omega)
      rw [hlens k hk, Array.getD_eq_getD_getElem?, Array.getElem?_eq_getElem h1,
        Array.getD_eq_getD_getElem?, Array.getElem?_eq_getElem h2] at e1
      simpa using e1
  have hrv : (ofCols M.m M.n M.cols).rowval = M.rowval := by
    rw [ofCols_rowval, ← hent]
    apply Array.ext'
    simp only [List.toList_toArray, entries]
    rw [List.map_fst_zip]
    simp [hM.len_eq]
  have hnz : (ofCols M.m M.n M.cols).nzval = M.nzval := by
    rw [ofCols_nzval, ← hent]
    apply Array.ext'
    simp only [List.toList_toArray, entries]
    rw [List.map_snd_zip]
    simp [hM.len_eq]
  have hext : ∀ A B : Csc α, A.m = B.m → A.n = B.n → A.colptr = B.colptr →
      A.rowval = B.rowval → A.nzval = B.nzval → A = B := by
    intro A B h1 h2 h3 h4 h5
    cases A; cases B; simp_all
  exact hext _ _ rfl rfl hcp hrv hnz


/-! ### partition point -/

theorem takeWhile_length_spec {β : Type} (l : List β) (p : β → Bool) :
    (∀ i (h : i < l.length), i < (l.takeWhile p).length → p l[i] = true) ∧
    (∀ h : (l.takeWhile p).length < l.length, p l[(l.takeWhile p).length] = false) := by
  induction l with
  | nil => simp
  | cons a t ih =>
    by_cases ha : p a = true
    · simp only [List.takeWhile_cons, ha, ↓reduceIte, List.length_cons]
      refine ⟨?_, ?_⟩
      · intro i h hi
        cases i with
        | zero => simpa using ha
        | succ i => simpa using ih.1 i (by simpa using h) (by omega)
      · intro h
        simpa using ih.2 (by simpa using h)
    · have ha' : p a = false := by simpa using ha
      simp only [List.takeWhile_cons, ha', Bool.false_eq_true, ↓reduceIte, List.length_nil]
      exact ⟨fun i _ hi => by omega, fun _ => by simpa using ha'⟩


/-! ### from rows -/

section fromRows
variable [Zero α] [DecidableEq α]

theorem fromRowsEntry_eq (c : Nat) (p : Array α × Nat) :
    fromRowsEntry c p = (p.1[c]?).bind (fun v => if v = 0 then none else some (p.2, v)) := by
  unfold fromRowsEntry
  cases h : p.1[c]? with
  | none => rfl
  | some v => by_cases hv : v = 0 <;> simp [hv]

/-- column `c` read off a list of rows numbered from `k` -/
theorem fromRows_col_spec (l : List (Array α)) (c k : Nat) :
    (((l.zipIdx k).filterMap (fromRowsEntry c)).map (·.1)).Pairwise (· < ·) ∧
    (∀ e ∈ (l.zipIdx k).filterMap (fromRowsEntry c), k ≤ e.1 ∧ e.1 < k + l.length ∧ e.2 ≠ 0) ∧
    (∀ i (hi : i < l.length) v, l[i][c]? = some v →
      colVals ((l.zipIdx k).filterMap (fromRowsEntry c)) (k + i) = if v = 0 then [] else [v]) := by
  induction l generalizing k with
  | nil => simp
  | cons a t ih =>
    obtain ⟨ih1, ih2, ih3⟩ := ih (k + 1)
    have hhead : ∀ e, fromRowsEntry c (a, k) = some e → e.1 = k ∧ e.2 ≠ 0 ∧ a[c]? = some e.2 := by
      intro e he
      rw [fromRowsEntry_eq] at he
      cases h : a[c]? with
      | none => simp [h] at he
      | some v =>
        by_cases hv : v = 0
        · simp [h, hv] at he
        · simp [h, hv] at he
          subst he
          exact ⟨rfl, hv, rfl⟩
    simp only [List.zipIdx_cons, List.filterMap_cons]
    refine ⟨?_, ?_, ?_⟩
    · cases h : fromRowsEntry c (a, k) with
      | none => exact ih1
      | some e =>
        simp only [List.map_cons, List.pairwise_cons]
        refine ⟨?_, ih1⟩
        intro r hr
        simp only [List.mem_map] at hr
        obtain ⟨e', he', rfl⟩ := hr
        have := (ih2 e' he').1
        have := (hhead e h).1
        omega
    · intro e he
      cases h : fromRowsEntry c (a, k) with
      | none =>
        rw [h] at he
        have := ih2 e he
        simp only [List.length_cons]
        exact ⟨by omega, by omega, this.2.2⟩
      | some e0 =>
        rw [h] at he
        rcases List.mem_cons.mp he with rfl | he
        · have := hhead e h
          simp only [List.length_cons]
          exact ⟨by omega, by omega, this.2.1⟩
        · have := ih2 e he
          simp only [List.length_cons]
          exact ⟨by omega, by omega, this.2.2⟩
    · intro i hi v hv
      cases i with
      | zero =>
        simp only [List.getElem_cons_zero] at hv
        have htail : colVals ((t.zipIdx (k + 1)).filterMap (fromRowsEntry c)) (k + 0) = [] := by
          apply colVals_eq_nil_of_not_mem
          intro e he
          have := (ih2 e he).1
          omega
        cases h : fromRowsEntry c (a, k) with
        | none =>
          rw [htail]
          rw [fromRowsEntry_eq] at h
          simp only [hv, Option.bind_some] at h
          by_cases hv0 : v = 0
          · simp [hv0]
          · simp [hv0] at h
        | some e =>
          obtain ⟨h1, h2, h3⟩ := hhead e h
          have : e.2 = v := by rw [hv] at h3; exact (Option.some.inj h3).symm
          rw [colVals_cons, htail]
          simp [h1, ← this, h2]
      | succ i =>
        simp only [List.getElem_cons_succ] at hv
        have := ih3 i (by simpa using hi) v hv
        have e1 : k + (i + 1) = k + 1 + i := by omega
        rw [e1]
        cases h : fromRowsEntry c (a, k) with
        | none => exact this
        | some e =>
          have := (hhead e h).1
          rw [colVals_cons, if_neg (by omega)]
          assumption

end fromRows

end Clarabel.Csc
