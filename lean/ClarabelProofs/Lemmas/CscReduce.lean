/-
  Helper lemmas for C16: row/column sums and infinity norms; the storage-order entry
  list of a matrix as the concatenation of its columns.
-/
import ClarabelProofs.Lemmas.CscScale
import ClarabelProofs.Lemmas.ScalarInst

namespace Clarabel.Csc
open Clarabel.C16

variable {α : Type}

/-- slices of a list along a monotone pointer sequence concatenate to a prefix -/
theorem flatten_slices {β : Type} (l : List β) (p : Nat → Nat) (k : Nat) (h0 : p 0 = 0)
    (hmono : ∀ j, j < k → p j ≤ p (j + 1)) :
    ((List.range k).map (fun j => (l.take (p (j + 1))).drop (p j))).flatten = l.take (p k) := by
  induction k with
  | zero => simp [h0]
  | succ k ih =>
    rw [List.range_succ, List.map_append, List.flatten_append,
      ih (fun j hj => hmono j (by omega))]
    simp only [List.map_cons, List.map_nil, List.flatten_cons, List.flatten_nil, List.append_nil]
    have hle := hmono k (by omega)
    conv_rhs => rw [← List.take_append_drop (p k) (l.take (p (k + 1)))]
    rw [List.take_take, Nat.min_eq_left hle]

theorem col_eq_slice (M : Csc α) (j : Nat) :
    M.col j = (M.entries.take (M.colptr.getD (j + 1) 0)).drop (M.colptr.getD j 0) := by
  unfold col entries
  simp only [Array.toList_extract, List.extract_eq_drop_take', List.zip_eq_zipWith,
    List.take_zipWith, List.drop_zipWith]

/-- for a canonical matrix whose `colptr` starts at 0 the storage-order entry list is the
concatenation of the columns -/
theorem entries_eq_flatten_cols (M : Csc α) (hM : Canonical M) (h0 : M.colptr.getD 0 0 = 0) :
    M.entries = M.cols.flatten := by
  unfold cols
  have hmono : ∀ j, j < M.n → M.colptr.getD j 0 ≤ M.colptr.getD (j + 1) 0 := by
    intro j hj
    have := (noBadAdjacent_iff_getElem _ _).mp hM.colptr_mono j
      (by simp [hM.colptr_size]; omega)
    have hs := hM.colptr_size
    rw [toList_getElem_eq_getD _ j (by omega), toList_getElem_eq_getD _ (j + 1) (by omega)] at this
    omega
  have := flatten_slices M.entries (fun j => M.colptr.getD j 0) M.n h0 hmono
  simp only [← col_eq_slice] at this
  rw [this, hM.colptr_last, List.take_of_length_le]
  simp [entries, hM.len_eq]

/-- additive version of `sum_col_mul_eq` -/
theorem sum_col_eq [AddCommMonoid α] (c : List (Nat × α)) (m : Nat) (h : ∀ e ∈ c, e.1 < m) :
    (c.map (·.2)).sum = ∑ i ∈ Finset.range m, (colVals c i).sum := by
  induction c with
  | nil => simp
  | cons e t ih =>
    rw [List.map_cons, List.sum_cons, ih (fun e' he' => h e' (List.mem_cons_of_mem _ he'))]
    have he : e.1 < m := h e (by simp)
    have : ∀ i, (colVals (e :: t) i).sum = (if i = e.1 then e.2 else 0) + (colVals t i).sum := by
      intro i
      rw [colVals_cons]
      by_cases hi : e.1 = i
      · subst hi; simp
      · have : ¬ i = e.1 := fun h => hi h.symm
        simp [hi, this]
    simp only [this, Finset.sum_add_distrib, Finset.sum_ite_eq', Finset.mem_range, he, ↓reduceIte]

theorem foldl_add_snd [AddCommMonoid α] (c : List (Nat × α)) (a0 : α) :
    c.foldl (fun acc e => acc + e.2) a0 = a0 + (c.map (·.2)).sum := by
  induction c generalizing a0 with
  | nil => simp
  | cons e t ih => simp [ih, add_assoc]

/-- `r` is the maximum of `v0` and the members of `l` -/
def IsMaxOf [LE α] (r v0 : α) (l : List α) : Prop :=
  v0 ≤ r ∧ (∀ a ∈ l, a ≤ r) ∧ (r = v0 ∨ r ∈ l)

theorem foldl_max_isMaxOf [LinearOrder α] (l : List α) (v0 : α) :
    IsMaxOf (l.foldl (fun m a => max m a) v0) v0 l := by
  induction l generalizing v0 with
  | nil => exact ⟨le_refl _, by simp, Or.inl rfl⟩
  | cons a t ih =>
    obtain ⟨h1, h2, h3⟩ := ih (max v0 a)
    refine ⟨le_trans (le_max_left _ _) h1, ?_, ?_⟩
    · intro b hb
      rcases List.mem_cons.mp hb with rfl | hb
      · exact le_trans (le_max_right _ _) h1
      · exact h2 b hb
    · rcases h3 with h | h
      · rcases max_choice v0 a with hm | hm
        · exact Or.inl (by rw [List.foldl_cons, h, hm])
        · exact Or.inr (by rw [List.foldl_cons, h, hm]; simp)
      · exact Or.inr (List.mem_cons_of_mem _ h)

end Clarabel.Csc
