/-
  C05 (iv) "`KKTSolver::update` forgets" — part 3: the linear-solver object, two runs in lock-step.

  `QR M mpA DR DK DL K K'`: two `DirectLDLKKTSolver` objects with the same structural data (dimensions,
  index maps `M`, signs, pattern of the KKT matrix, symbolic part of the QDLDL object with entry map
  `mpA`), whose own value arrays agree on the positions `DK`, whose permuted copies agree on the slots
  `DL`, and whose four work vectors have the same lengths; the left object satisfies C12's history
  invariant.  Nothing is said about the other numeric content.

  * `_update_values`, `_scale_values`, `csc_update_sparsecone` (second-order cone) enlarge `DK`, `DL` by
    what they write;
  * `regularize_and_refactor` on two objects that agree on ALL positions (`DL` up to the diagonal
    slots, which it rewrites itself when static regularisation is on) returns the same flag and objects
    that differ in the content of the four work vectors only (`QB`).
-/
import ClarabelProofs.Lemmas.KktQwLdl

namespace Clarabel.Solver
open Clarabel Clarabel.Qdldl

set_option linter.unusedSectionVars false
set_option linter.unusedVariables false

variable {α : Type}

/-- the positions of the KKT value array that an expansion map addresses -/
def sparseIdx : Kkt.SparseMap → List Nat
  | .soc u v D => u.toList ++ v.toList ++ D.toList
  | .genpow p q r D => p.toList ++ q.toList ++ r.toList ++ D.toList

/-- … that the expansion maps number `t ≤ s < t'` address -/
def sparseRange (maps : Array Kkt.SparseMap) (t t' : Nat) (i : Nat) : Prop :=
  ∃ s, t ≤ s ∧ s < t' ∧ ∃ mp, maps[s]? = some mp ∧ i ∈ sparseIdx mp

/-- the slots of the permuted copy behind a set of positions -/
def slotsOfSet (mpA : Array Nat) (W : Nat → Prop) (j : Nat) : Prop := ∃ i, W i ∧ mpA[i]? = some j

section ops
variable [Add α] [Sub α] [Mul α] [Div α] [Neg α] [OfNat α 0] [OfNat α 1] [LT α] [DecidableLT α]
  [LE α] [DecidableLE α] [BEq α] [FloatLike α]

/-- two solver objects in lock-step (see the header) -/
structure QR (M : Kkt.LDLDataMap) (mpA : Array Nat) (DR : α → α → Prop) (DK DL : Nat → Prop)
    (K K' : KktSolver α) : Prop where
  inv : LdlInv K.ldl
  mapL : K.map = M
  amapL : K.ldl.AtoPAPt = mpA
  m : K.m = K'.m
  n : K.n = K'.n
  p : K.p = K'.p
  map : K.map = K'.map
  dsigns : K.dsigns = K'.dsigns
  hsb : K.Hsblocks = K'.Hsblocks
  km : K.KKT.m = K'.KKT.m
  kn : K.KKT.n = K'.KKT.n
  kcol : K.KKT.colptr = K'.KKT.colptr
  krow : K.KKT.rowval = K'.KKT.rowval
  nz : AgreeOn DK K.KKT.nzval K'.KKT.nzval
  ldl : LS DL K.ldl K'.ldl
  dr : DR K.diagonalRegularizer K'.diagonalRegularizer
  x : K.x.size = K'.x.size
  b : K.b.size = K'.b.size
  work1 : K.work1.size = K'.work1.size
  work2 : K.work2.size = K'.work2.size

theorem QR.mono {M : Kkt.LDLDataMap} {mpA : Array Nat} {DR : α → α → Prop} {DK DL DK' DL' : Nat → Prop}
    {K K' : KktSolver α} (h : QR M mpA DR DK DL K K') (hK : ∀ i, DK' i → DK i) (hL : ∀ j, DL' j → DL j) :
    QR M mpA DR DK' DL' K K' :=
  { h with nz := h.nz.mono hK, ldl := h.ldl.mono hL }

/-- `_update_values` on both objects -/
theorem QR.updateValues {M : Kkt.LDLDataMap} {mpA : Array Nat} {DR : α → α → Prop} {DK DL : Nat → Prop}
    {K K' : KktSolver α} (h : QR M mpA DR DK DL K K') (index : Array Nat) (values : Array α) :
    RelM (QR M mpA DR (fun i => DK i ∨ i ∈ index.toList) (fun j => DL j ∨ slotsOfIdx mpA index.toList j))
      (K.updateValues index values) (K'.updateValues index values) := by
  unfold KktSolver.updateValues
  refine RelM.bind (updateValuesKKT_agree h.nz index values) ?_
  intro nz nz' hnz
  refine RelM.bind_ok (updateValues_ls h.ldl index values) ?_
  rintro F1 F1' e1 e1' ⟨hF, hFm⟩
  have hsz := updateValues_ok_size e1
  have hz : (index.toList.zip values.toList).map Prod.fst = index.toList :=
    zip_map_fst_of_le _ _ (by simpa using hsz)
  rw [hz] at hnz
  rw [h.amapL] at hF hFm
  exact
    { inv := h.inv.updateValues e1, mapL := h.mapL, amapL := hFm, m := h.m, n := h.n, p := h.p, map := h.map,
      dsigns := h.dsigns, hsb := h.hsb, km := h.km, kn := h.kn, kcol := h.kcol, krow := h.krow, nz := hnz,
      ldl := hF, dr := h.dr, x := h.x, b := h.b, work1 := h.work1, work2 := h.work2 }

/-- `_scale_values` on both objects -/
theorem QR.scaleValues {M : Kkt.LDLDataMap} {mpA : Array Nat} {DR : α → α → Prop} {DK DL : Nat → Prop}
    {K K' : KktSolver α} (h : QR M mpA DR DK DL K K') (index : Array Nat) (scale : α) :
    RelM (QR M mpA DR DK DL) (K.scaleValues index scale) (K'.scaleValues index scale) := by
  unfold KktSolver.scaleValues
  refine RelM.bind (scaleValuesKKT_agree h.nz index scale) ?_
  intro nz nz' hnz
  refine RelM.bind_ok (scaleValues_ls h.ldl index scale) ?_
  rintro F1 F1' e1 e1' ⟨hF, hFm⟩
  rw [h.amapL] at hFm
  exact
    { inv := h.inv.scaleValues e1, mapL := h.mapL, amapL := hFm, m := h.m, n := h.n, p := h.p, map := h.map,
      dsigns := h.dsigns, hsb := h.hsb, km := h.km, kn := h.kn, kcol := h.kcol, krow := h.krow, nz := hnz,
      ldl := hF, dr := h.dr, x := h.x, b := h.b, work1 := h.work1, work2 := h.work2 }

/-- `csc_update_sparsecone` of a second-order cone on both objects -/
theorem QR.updateSparseSoc {M : Kkt.LDLDataMap} {mpA : Array Nat} {DR : α → α → Prop} {DK DL : Nat → Prop}
    {K K' : KktSolver α} (h : QR M mpA DR DK DL K K') (mp : Kkt.SparseMap) (c : Soc.Cone α) :
    RelM (QR M mpA DR (fun i => DK i ∨ i ∈ sparseIdx mp) (fun j => DL j ∨ slotsOfIdx mpA (sparseIdx mp) j))
      (K.updateSparseSoc mp c) (K'.updateSparseSoc mp c) := by
  unfold KktSolver.updateSparseSoc
  split
  · rename_i mu mv mD sp _
    refine RelM.bind (h.updateValues _ _) ?_
    intro K1 K1' h1
    refine RelM.bind (h1.updateValues _ _) ?_
    intro K2 K2' h2
    refine RelM.bind (h2.scaleValues _ _) ?_
    intro K3 K3' h3
    refine RelM.bind (h3.scaleValues _ _) ?_
    intro K4 K4' h4
    refine (h4.updateValues _ _).mono ?_
    intro K5 K5' h5
    refine h5.mono ?_ ?_
    · intro i hi
      simp only [sparseIdx, List.mem_append] at hi
      rcases hi with hi | (hi | hi) | hi
      · exact Or.inl (Or.inl (Or.inl hi))
      · exact Or.inl (Or.inl (Or.inr hi))
      · exact Or.inl (Or.inr hi)
      · exact Or.inr hi
    · intro j hj
      rcases hj with hj | ⟨i, hi, hm⟩
      · exact Or.inl (Or.inl (Or.inl hj))
      · simp only [sparseIdx, List.mem_append] at hi
        rcases hi with (hi | hi) | hi
        · exact Or.inl (Or.inl (Or.inr ⟨i, hi, hm⟩))
        · exact Or.inl (Or.inr ⟨i, hi, hm⟩)
        · exact Or.inr ⟨i, hi, hm⟩
  · exact RelM.throw _

end ops

end Clarabel.Solver
