/-
  Panic-freedom of the whole-solver model WITH NONSYMMETRIC CONES (C04) — stage "linear solver
  object", part 2: `kktSolverNew` (`DirectLDLKKTSolver::new` on a composite cone that may contain
  exponential / power / generalised power cones) is total on well-formed data and establishes
  `KktInvWN`.  [S]

  The symmetric development (`SolverModelNoPanicKktNew.lean`) carries a `NoGenpow` hypothesis in
  `asm_maps_forall₂` / `assembly_facts`, because its `SparseMapOK` is `False` on `.genpow` maps.
  With `SparseMapOKN` the hypothesis disappears: the C11 lemmas (`cone_slots`, `MapFitsD`,
  `sp_located`, `located_lt`) cover the generalised power cone.
-/
import ClarabelProofs.Lemmas.SolverNSNoPanicKkt
import ClarabelProofs.Lemmas.SolverModelNoPanicKktNew

set_option linter.unusedSectionVars false
set_option linter.unusedVariables false

namespace Clarabel.SolverNS
open Clarabel Qdldl Residuals Clarabel.Csc Clarabel.Kkt
open Clarabel.Lemmas.KktRun Clarabel.Lemmas.KktSlots Clarabel.Lemmas.KktFillMaps
open Clarabel.Lemmas.KktFillRun Clarabel.Lemmas.KktTotal
open Clarabel.Lemmas.KktFinal Clarabel.Lemmas.KktSpec Clarabel.Lemmas.KktDistinct
open Clarabel.Lemmas.KktUpdateAsm Clarabel.Lemmas.KktUpdateTotal Clarabel.Lemmas.KktSorted
open Clarabel.Solver (KktSolver LinSettings DataOK PivotOK QInv unwrapQdldl qdldl_new_ok
  canon_of_canonical0 isTriu_of_flag expansionMap_none_of_not_sparse)

variable {α : Type}

section
variable [Add α] [Sub α] [Mul α] [Div α] [Neg α] [LT α] [LE α] [DecidableLT α] [DecidableLE α]
  [BEq α] [OfNat α 0] [OfNat α 1] [OfNat α 2] [OfNat α 3] [OfNat α 4] [OfNat α 100] [OfNat α 1000]
  [OfScientific α] [FloatLike α]

/-- the expansion maps of the assembly against the templates, with all indices in range — for
every cone kind (sparse second-order AND generalised power cones) -/
theorem asm_maps_forall₂N {P A : Csc α} {cones : List ConeSpec} {shape : MatrixTriangle} {K : Csc α}
    {map : LDLDataMap} {sched : List (Entry α)} {Kc : Csc α} {nd : Nat}
    (R : AsmRun P A cones shape K map sched Kc nd) (hm : (cones.map ConeSpec.numel).sum = A.m) :
    ∀ (restS preS : List ConeSpec), cones = preS ++ restS →
      List.Forall₂ (SparseMapOKN K.nzval.size) (map.sparse_maps.toList.drop (nSparse preS))
        (restS.filterMap expansionMap) := by
  intro restS
  induction restS with
  | nil =>
    intro preS hdec
    have : map.sparse_maps.toList.drop (nSparse preS) = [] := by
      rw [List.drop_eq_nil_iff, Array.length_toList, R.sizes.2.2.2, filterMap_expansion_length]
      rw [hdec]; simp
    rw [this]; exact List.Forall₂.nil
  | cons cS restS' ih =>
    intro preS hdec
    have hdec' : cones = (preS ++ [cS]) ++ restS' := by rw [hdec]; simp
    have hns : nSparse (preS ++ [cS]) = nSparse preS + (if cS.isSparseExpandable = true then 1 else 0) := by
      unfold nSparse
      rw [List.countP_append, List.countP_cons]
      simp
    have ih' := ih (preS ++ [cS]) hdec'
    rw [hns] at ih'
    by_cases hsp : cS.isSparseExpandable = true
    · rw [if_pos hsp] at ih'
      obtain ⟨mp', hget, hss⟩ := (R.fill.cone_slots preS cS restS' hdec).2 hsp
      have hrow : (A.n + (preS.map ConeSpec.numel).sum) + cS.numel
          ≤ A.m + A.n + (preS.map conePdim).sum := by
        have : ((preS ++ cS :: restS').map ConeSpec.numel).sum = A.m := by rw [← hdec]; exact hm
        simp only [List.map_append, List.map_cons, List.sum_append, List.sum_cons] at this
        omega
      have hb : ∀ j ∈ mp'.indices, j < K.nzval.size := located_lt R (sp_located R.dis hsp hrow hss).1
      have hfit := hss.fits
      have hlt : nSparse preS < map.sparse_maps.toList.length := by
        rw [Array.length_toList]; exact (Array.getElem?_eq_some_iff.mp hget).1
      have hge : map.sparse_maps.toList[nSparse preS] = mp' := by
        have := hget
        rw [← Array.getElem?_toList, List.getElem?_eq_getElem hlt] at this
        exact Option.some.inj this
      rw [List.drop_eq_getElem_cons hlt, hge]
      cases cS with
      | zero d => simp [ConeSpec.isSparseExpandable] at hsp
      | nonneg d => simp [ConeSpec.isSparseExpandable] at hsp
      | exp => simp [ConeSpec.isSparseExpandable] at hsp
      | pow => simp [ConeSpec.isSparseExpandable] at hsp
      | psd d => simp [ConeSpec.isSparseExpandable] at hsp
      | genpow a b =>
        simp only [List.filterMap_cons, expansionMap]
        refine List.Forall₂.cons ?_ ih'
        cases mp' with
        | soc u v D => simp [MapFitsD] at hfit
        | genpow p q r D =>
          obtain ⟨h1, h2, h3, h4⟩ := hfit
          refine ⟨by simp [h1], by simp [h2], by simp [h3], h4, ?_, ?_, ?_, ?_⟩
          · intro i hi; exact hb i (by simp [SparseMap.indices, hi])
          · intro i hi; exact hb i (by simp [SparseMap.indices, hi])
          · intro i hi; exact hb i (by simp [SparseMap.indices, hi])
          · intro i hi; exact hb i (by simp [SparseMap.indices, hi])
      | soc d =>
        have hd : d > socNoExpansionMaxSize := by
          simpa [ConeSpec.isSparseExpandable] using hsp
        simp only [List.filterMap_cons, expansionMap, hd, ↓reduceIte]
        refine List.Forall₂.cons ?_ ih'
        cases mp' with
        | genpow p q r D => simp [MapFitsD] at hfit
        | soc u v D =>
          obtain ⟨h1, h2, h3⟩ := hfit
          refine ⟨by simp [h1], by simp [h2], h3, ?_, ?_, ?_⟩
          · intro i hi; exact hb i (by simp [SparseMap.indices, hi])
          · intro i hi; exact hb i (by simp [SparseMap.indices, hi])
          · intro i hi; exact hb i (by simp [SparseMap.indices, hi])
    · rw [if_neg hsp, Nat.add_zero] at ih'
      rw [List.filterMap_cons, expansionMap_none_of_not_sparse hsp]
      exact ih'

/-- [S] what `assemble_kkt_matrix` (triu) delivers for `kktSolverNew`, for EVERY list of cone
specs: the matrix is a canonical square encoding of order `n + m + p`, every index vector of the
map is in range and the expansion maps match the sparse cones (second-order and generalised
power) -/
theorem assembly_factsN {P A : Csc α} {specs : List ConeSpec} (hin : KktInputs P A specs) :
    ∃ K map, assembleKktMatrix P A specs .triu = .ok (K, map) ∧
      K.m = A.n + A.m + pdimAll map.sparse_maps ∧ K.n = A.n + A.m + pdimAll map.sparse_maps ∧
      C16.Canonical0 K ∧
      map.Hsblocks.size = hsblocksLen specs ∧ (∀ i ∈ map.Hsblocks.toList, i < K.nzval.size) ∧
      map.diag_full.size = A.n + A.m + pdimAll map.sparse_maps ∧
      (∀ i ∈ map.diag_full.toList, i < K.nzval.size) ∧
      List.Forall₂ (SparseMapOKN K.nzval.size) map.sparse_maps.toList (specs.filterMap expansionMap) ∧
      (∀ c, c < K.n → (∃ p q, K.colptr[c]? = some p ∧ K.colptr[c + 1]? = some q ∧ p < q) ∧
        (K.colRows c).Pairwise (· < ·) ∧ (K.colRows c).getLast? = some c) := by
  obtain ⟨K, map, nd, hasm, _, hKm, hKn, _, _, _, _, _⟩ := C11.assembly_total P A specs .triu hin
  obtain ⟨sched, Kc, nd', R⟩ := asmRun_of_ok hin hasm
  have hcan := (C11.assembly_check_format hin hasm).1
  have M := C11.assembly_maps hin hasm
  -- the order of the matrix
  obtain ⟨ds, hds, hdss, _⟩ := R.signs_at
  have hdim : kktDim A specs = A.n + A.m + pdimAll map.sparse_maps := by
    rw [fillSigns_eq] at hds
    have := Except.ok.inj hds
    rw [← this] at hdss
    rw [← hdss, pdimAll_eq]
    simp only [List.size_toArray, List.length_append, List.length_replicate]
  refine ⟨K, map, hasm, by rw [hKm, hdim], by rw [hKn, hdim], hcan, R.sizes.2.2.1,
    located_lt R (hs_located R hin.m_eq), by rw [M.diag_full.1, hdim], ?_, ?_, ?_⟩
  · intro i hi
    obtain ⟨c, hc, rfl⟩ := List.mem_iff_getElem.mp hi
    have hc' : c < map.diag_full.size := by simpa using hc
    obtain ⟨v, d, hd, p, q, _, _, _, _, _, hv⟩ := M.diag_full.2 c (by rw [← M.diag_full.1]; exact hc')
    rw [Array.getElem?_eq_getElem hc'] at hd
    have : map.diag_full.toList[c] = d := by
      rw [Array.getElem_toList]; exact Option.some.inj hd
    rw [this]
    exact (Array.getElem?_eq_some_iff.mp hv).1
  · exact asm_maps_forall₂N R hin.m_eq specs [] rfl
  · intro c hc
    rw [hKn] at hc
    obtain ⟨h1, h2, _, h4⟩ := C11.assembly_canonical hin hasm c hc
    exact ⟨h1, h2, h4⟩

/-! ### `DirectLDLKKTSolver::new` -/

theorem pdim_foldl_of_forall₂N {nnz : Nat} : ∀ {l1 l2 : List SparseMap},
    List.Forall₂ (SparseMapOKN nnz) l1 l2 → ∀ acc : Nat,
      l1.foldl (fun acc mp => acc + mp.pdim) acc = l2.foldl (fun acc mp => acc + mp.pdim) acc := by
  intro l1 l2 h
  induction h with
  | nil => intro acc; rfl
  | @cons a b _ _ hab _ ih =>
    intro acc
    have : a.pdim = b.pdim := by
      cases a <;> cases b <;> first | rfl | exact absurd hab id
    simp only [List.foldl_cons, this]
    exact ih _

/-- the ordering handed to QDLDL is a permutation of the KKT dimension -/
def PermOKN (perm : Array Nat) (d : ProblemData α) (K : List (ConeSt α)) : Prop :=
  C12.IsPerm perm ∧
    perm.size = d.n + d.m + Kkt.pdimAll (((K.map ConeSt.kktSpec).filterMap Kkt.expansionMap).toArray)

/-- [S] `kktSolverNew` is total and establishes `KktInvWN`, from C11's input hypothesis
`KktInputs` (discharged from `DataOK` in `kktSolverNew_okN` below) -/
theorem kktSolverNew_okN_of_inputs {d : ProblemData α} {K : List (ConeSt α)} {st : LinSettings α}
    {perm : Array Nat} (hin : KktInputs d.P d.A (K.map ConeSt.kktSpec)) (hd : DataOK d)
    (hperm : PermOKN perm d K) (hpos : 0 < d.n + d.m) (hpiv : PivotOK st) :
    ∃ Ks, kktSolverNew d.P d.A K d.m d.n st perm = .ok Ks ∧ KktInvWN (K.map ConeSt.kktSpec) d.n d.m Ks := by
  obtain ⟨KK, map, hasm, hKm, hKn, hcan, hhs, hhslt, hdg, hdglt, hmaps, hcols⟩ := assembly_factsN hin
  rw [hd.A_n, hd.A_m] at hKm hKn hdg
  have hpd : pdimAll map.sparse_maps =
      pdimAll (((K.map ConeSt.kktSpec).filterMap expansionMap).toArray) := by
    unfold pdimAll
    exact pdim_foldl_of_forall₂N hmaps 0
  have hsigns := fillSigns_eq d.m d.n map.sparse_maps
  generalize hdsg : (List.replicate d.n (1 : Int) ++ List.replicate d.m (-1)
      ++ (map.sparse_maps.toList.map SparseMap.dsigns).flatten).toArray = dsg at hsigns
  have hdsz : dsg.size = d.n + d.m + pdimAll map.sparse_maps := by
    rw [← hdsg, pdimAll_eq]
    simp only [List.size_toArray, List.length_append, List.length_replicate]
  have hdpm : ∀ sg ∈ dsg.toList, sg = 1 ∨ sg = -1 := by
    rw [← hdsg]
    intro sg hsgm
    simp only [List.mem_append, List.mem_replicate, List.mem_flatten, List.mem_map] at hsgm
    rcases hsgm with (⟨_, h⟩ | ⟨_, h⟩) | ⟨l, ⟨mp, _, rfl⟩, hl⟩
    · exact Or.inl h
    · exact Or.inr h
    · cases mp <;> simp [SparseMap.dsigns] at hl <;> omega
  obtain ⟨F, hF, hFI⟩ := qdldl_new_ok KK hcan (by rw [hKm, hKn]) (by rw [hKn]; omega) hcols perm hperm.1
    (by rw [hperm.2, hKn, hpd]) dsg (by rw [hdsz, hKn]) hdpm st.dynRegEps st.dynRegDelta hpiv
  rw [hKn] at hFI
  refine ⟨{ m := d.m, n := d.n, p := pdimAll map.sparse_maps
            x := Array.replicate (d.n + d.m + pdimAll map.sparse_maps) 0
            b := Array.replicate (d.n + d.m + pdimAll map.sparse_maps) 0
            work1 := Array.replicate (d.n + d.m + pdimAll map.sparse_maps) 0
            work2 := Array.replicate (d.n + d.m + pdimAll map.sparse_maps) 0
            map := map, dsigns := dsg
            Hsblocks := Array.replicate (hsblocksLen (K.map ConeSt.kktSpec)) 0
            KKT := KK, ldl := F, diagonalRegularizer := 0 }, ?_, ?_⟩
  · unfold kktSolverNew
    have c : (KK.m != KK.n) = false := by simp [hKm, hKn]
    simp only [hasm, hsigns, hF, c, unwrapQdldl, bind, Except.bind, pure, Except.pure, Bool.false_eq_true,
      ↓reduceIte]
  · exact
      { n_eq := rfl, m_eq := rfl, p_eq := rfl
        x := by simp, b := by simp, work1 := by simp, work2 := by simp
        dsigns := hdsz
        hs := by simp
        hsmap := hhs, hsmap_lt := hhslt, diag_size := hdg, diag_lt := hdglt, maps := hmaps
        kkt_m := hKm, kkt_n := hKn, canon := hcan.canon, ldl := hFI }

/-! ### `DataOK` gives C11's input hypothesis -/

theorem sum_numel_kktSpecN : ∀ (K : List (ConeSt α)),
    ((K.map ConeSt.kktSpec).map ConeSpec.numel).sum = numelAll K := by
  intro K
  induction K with
  | nil => rfl
  | cons c rest ih =>
    rw [numelAll_cons, List.map_cons, List.map_cons, List.sum_cons, ih]
    cases c with
    | sym cs => cases cs <;> rfl
    | exp _ => rfl
    | pow _ _ => rfl
    | genpow _ _ _ _ => rfl

/-- [S] `DataOK` (and the cones covering `m` rows) gives C11's `KktInputs` -/
theorem kktInputs_of_dataOKN {d : ProblemData α} {K : List (ConeSt α)} (hd : DataOK d)
    (hnum : numelAll K = d.m) : KktInputs d.P d.A (K.map ConeSt.kktSpec) :=
  { P_canon := canon_of_canonical0 hd.P_canon
    P_triu := isTriu_of_flag hd.P_canon hd.P_triu
    P_square := by rw [hd.P_m, hd.P_n]
    A_canon := canon_of_canonical0 hd.A_canon
    n_eq := by rw [hd.P_n, hd.A_n]
    m_eq := by rw [sum_numel_kktSpecN, hnum, hd.A_m] }

/-- [S] **`DirectLDLKKTSolver::new` (`kktSolverNew`) is total on well-formed data and establishes
`KktInvWN`**, for composite cones with exponential / power / generalised power cones -/
theorem kktSolverNew_okN {d : ProblemData α} {K : List (ConeSt α)} {st : LinSettings α} {perm : Array Nat}
    (hd : DataOK d) (hK : ConesFull K) (hnum : numelAll K = d.m) (hperm : PermOKN perm d K)
    (hpos : 0 < d.n + d.m) (hpiv : PivotOK st) :
    ∃ Ks, kktSolverNew d.P d.A K d.m d.n st perm = .ok Ks ∧ KktInvWN (K.map ConeSt.kktSpec) d.n d.m Ks :=
  kktSolverNew_okN_of_inputs (kktInputs_of_dataOKN hd hnum) hd hperm hpos hpiv

end

end Clarabel.SolverNS
