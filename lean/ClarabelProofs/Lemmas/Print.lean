/-
  Helper lemmas for the output model (`ClarabelModel/Print.lean`).
-/
import ClarabelModel.Print

namespace Clarabel.Print
open Clarabel.Loop

variable {α : Type}

theorem runEvents_silent (R : Renderer α) (t : PrintTarget) (es : List (Event α)) :
    runEvents false R t es = t := by
  unfold runEvents
  induction es generalizing t with
  | nil => rfl
  | cons e es ih => simp only [List.foldl_cons]; exact ih t

/-- what a non-sink target has received after a run of print calls -/
theorem delivered_runEvents (R : Renderer α) (t : PrintTarget) (ht : t ≠ .sink) (es : List (Event α)) :
    (runEvents true R t es).delivered = t.delivered ++ (es.map R.render).flatten
      ∧ runEvents true R t es ≠ .sink := by
  unfold runEvents
  induction es generalizing t with
  | nil => simp; exact ht
  | cons e es ih =>
    simp only [List.foldl_cons, List.map_cons, List.flatten_cons]
    have hw : printEvent true R t e = t.write (R.render e) := rfl
    rw [hw]
    have hne : t.write (R.render e) ≠ .sink := by
      cases t <;> simp [PrintTarget.write] at ht ⊢
    have hd : (t.write (R.render e)).delivered = t.delivered ++ R.render e := by
      cases t <;> simp [PrintTarget.write, PrintTarget.delivered] at ht ⊢
    obtain ⟨h1, h2⟩ := ih (t.write (R.render e)) hne
    refine ⟨?_, h2⟩
    rw [h1, hd, List.append_assoc]

theorem runEvents_sink (v : Bool) (R : Renderer α) (es : List (Event α)) :
    runEvents v R .sink es = .sink := by
  unfold runEvents
  induction es with
  | nil => rfl
  | cons e es ih =>
    simp only [List.foldl_cons]
    have : printEvent v R .sink e = .sink := by
      unfold printEvent; cases v <;> rfl
    rw [this]; exact ih

theorem runEvents_buffer (R : Renderer α) (es : List (Event α)) (b0 : Bytes) :
    ∃ b, runEvents true R (.buffer b0) es = .buffer b := by
  unfold runEvents
  induction es generalizing b0 with
  | nil => exact ⟨b0, rfl⟩
  | cons e es ih => simp only [List.foldl_cons]; exact ih (b0 ++ R.render e)

/-! ### `_exp_str_reformat` -/

theorem findChar_append (c : Char) (m rest : List Char) (hm : c ∉ m) :
    findChar c (m ++ c :: rest) = some m.length := by
  induction m with
  | nil => simp [findChar]
  | cons x xs ih =>
    have hx : x ≠ c := fun h => hm (by simp [h])
    have hxs : c ∉ xs := fun h => hm (by simp [h])
    simp [findChar, hx, ih hxs]

/-- the exponent digits, padded to two -/
def pad2 (d : List Char) : List Char := if d.length = 1 then '0' :: d else d

theorem expStrReformat_pos (m d : List Char) (c : Char) (hm : 'e' ∉ m) (hc : c ≠ '-') :
    expStrReformat (m ++ 'e' :: c :: d) = .ok (m ++ 'e' :: '+' :: pad2 (c :: d)) := by
  unfold expStrReformat
  rw [findChar_append 'e' m _ hm]
  have hget : (m ++ 'e' :: c :: d)[m.length + 1]? = some c := by
    rw [List.getElem?_append_right (by omega)]
    simp
  simp only [hget, hc, decide_false, Bool.not_false, ↓reduceIte]
  have hsplit : m ++ 'e' :: c :: d = (m ++ ['e']) ++ (c :: d) := by simp
  have htake : (m ++ 'e' :: c :: d).take (m.length + 1) = m ++ ['e'] := by
    rw [hsplit, List.take_left' (by simp)]
  have hdrop : (m ++ 'e' :: c :: d).drop (m.length + 1) = c :: d := by
    rw [hsplit, List.drop_left' (by simp)]
  rw [htake, hdrop]
  by_cases hl : d.length = 0
  · have hd : d = [] := List.length_eq_zero_iff.mp hl
    subst hd
    simp [pad2, pure, Except.pure]
  · simp [pad2, pure, Except.pure, hl]

theorem expStrReformat_neg (m d : List Char) (hm : 'e' ∉ m) :
    expStrReformat (m ++ 'e' :: '-' :: d) = .ok (m ++ 'e' :: '-' :: pad2 d) := by
  unfold expStrReformat
  rw [findChar_append 'e' m _ hm]
  have hget : (m ++ 'e' :: '-' :: d)[m.length + 1]? = some '-' := by
    rw [List.getElem?_append_right (by omega)]
    simp
  simp only [hget, decide_true, Bool.not_true, Bool.false_eq_true, ↓reduceIte]
  have hsplit : m ++ 'e' :: '-' :: d = (m ++ ['e', '-']) ++ d := by simp
  have htake : (m ++ 'e' :: '-' :: d).take (m.length + 2) = m ++ ['e', '-'] := by
    rw [hsplit, List.take_left' (by simp)]
  have hdrop : (m ++ 'e' :: '-' :: d).drop (m.length + 2) = d := by
    rw [hsplit, List.drop_left' (by simp)]
  rw [htake, hdrop]
  by_cases hl : d.length = 1
  · have : (m ++ 'e' :: '-' :: d).length = m.length + 3 := by simp; omega
    simp [pad2, pure, Except.pure, this, hl]
  · have : ¬ (m ++ 'e' :: '-' :: d).length = m.length + 3 := by simp; omega
    simp [pad2, pure, Except.pure, this, hl]

end Clarabel.Print
