/-
  THE PIPELINE OUTPUT SATISFIES THE ORACLE PREDICATE.

  `SparsityPattern::new` (model `sparsityPatternNew`, merge strategies `"none"` and
  `"parent_child"`) on a filled pattern `L` returns a clique tree that the executable checker
  `validCliqueTreeB` (`ClarabelModel/Chordal/Valid.lean`, the clauses of the harness oracle
  `check_clique_tree`) accepts, i.e. that satisfies `ValidCliqueTree`
  (`ClarabelProofs/Lemmas/ChordalValid.lean`).

  * `BridgeFinal n tf ord` : what is needed about the RETURNED tree `tf` (clique-tree invariant,
    post-order of the live cliques with the unique root last and children before parents,
    non-empty consecutive supernodes covering `0..n`, block sizes);
    `BridgeFinal.valid` : `BridgeFinal` + coverage of the pattern ⇒ `ValidCliqueTree`.
  * `BridgePre L t ord` : what is needed about the tree `t` BEFORE the relabelling;
    `BridgePre.final` : `BridgePre` + `ReorderSpec` ⇒ `BridgeFinal` for the relabelled tree;
    `BridgePre.valid` : … ⇒ `ValidCliqueTree`.
  * `SnTreeOk.bridgePre` : the tree of `SuperNodeTree::new` satisfies `BridgePre`;
    `brg_loop_mono` (the merge loop only enlarges the supernodes of the surviving cliques) and
    `bridgePre_of_merge` : so does the tree after the parent–child merge.
  * `analysis_none_valid`, `analysis_pc_valid` : the two end-to-end statements.
-/
import ClarabelProofs.Lemmas.ChordalSnodeParent
import ClarabelProofs.Lemmas.ChordalValid

namespace Clarabel.Chordal
open SuperNodeTree

/-! ### small helpers -/

/-- [S] `cliqueL` (used by the checker) and `cliqueList` (used by the proofs) are the same list -/
theorem brg_cliqueL_eq (t : SuperNodeTree) (c : Nat) : t.cliqueL c = cliqueList t c := rfl

/-- [S] a two-element sublist yields two increasing positions -/
theorem brg_sublist_pair {a b : Nat} : ∀ l : List Nat, List.Sublist [a, b] l →
    ∃ i j : Nat, i < j ∧ l[i]? = some a ∧ l[j]? = some b := by
  intro l
  induction l with
  | nil => intro h; cases h
  | cons x l ih =>
    intro h
    cases h with
    | cons _ h' =>
      obtain ⟨i, j, hij, hi, hj⟩ := ih h'
      exact ⟨i + 1, j + 1, by omega, by simpa using hi, by simpa using hj⟩
    | cons_cons _ h' =>
      have hb : b ∈ l := h'.subset (by simp)
      obtain ⟨j, hj, e⟩ := List.getElem_of_mem hb
      exact ⟨0, j + 1, by omega, by simp, by simp [hj, e]⟩

/-- [S] an in-range read through `getD` -/
theorem brg_getElem?_getD {xs : Array Nat} {k : Nat} (h : k < xs.size) :
    xs[k]? = some (xs.getD k 0) := by
  simp [Array.getD, h]

/-- [S] the `i`-th clique of the post-order is listed, at position `i` -/
theorem brg_postAt_mem (t : SuperNodeTree) {i : Nat} (hi : i < t.snodePost.size) :
    t.postAt i ∈ t.snodePost.toList ∧ t.snodePost.toList[i]? = some (t.postAt i) := by
  unfold postAt
  rw [pcl_getD_eq_toList hi]
  exact ⟨List.getElem_mem _, by rw [List.getElem?_eq_getElem]⟩

/-! ### the returned tree -/

/-- what the bridge needs to know about the tree `tf` returned by `SparsityPattern::new` -/
structure BridgeFinal (n : Nat) (tf : SuperNodeTree) (ord : Nat → Nat) : Prop where
  /-- the clique-tree invariant -/
  ct : CTInv tf ord
  /-- `snode_post` lists exactly the live cliques, once -/
  post_nodup : tf.snodePost.toList.Nodup
  post_live : ∀ c, c ∈ tf.snodePost.toList ↔ Live tf c
  post_size : tf.snodePost.size = tf.nCliques
  /-- live supernodes are not empty -/
  nonempty : ∀ c, Live tf c → (tf.snode.getD c #[]).toList ≠ []
  /-- children before parents -/
  before : ∀ c, Live tf c → tf.snodeParent.getD c 0 ≠ noParent →
    List.Sublist [c, tf.snodeParent.getD c 0] tf.snodePost.toList
  /-- the unique root is the last clique of the post-order -/
  root : ∃ r, Live tf r ∧ tf.snodePost.toList.getLast? = some r ∧
    ∀ c, Live tf c → (tf.snodeParent.getD c 0 = noParent ↔ c = r)
  /-- the supernodes are the consecutive ranges in post-order … -/
  consecutive : ∀ i, i < tf.snodePost.size →
    (tf.sn (tf.postAt i)).toList = List.range' (tf.offset i) (tf.sn (tf.postAt i)).size
  /-- … and cover `0..n` -/
  cover : tf.offset tf.snodePost.size = n
  /-- separators stay in range -/
  sep_lt : ∀ c, Live tf c → ∀ x ∈ (tf.separators.getD c #[]).toList, x < n
  /-- block dimensions -/
  nblk : ∃ nb, tf.nblk = some nb ∧ nb.size = tf.nCliques ∧
    ∀ i, i < tf.nCliques → nb.getD i 0 = (cliqueList tf (tf.snodePost.getD i 0)).length

namespace BridgeFinal
variable {n : Nat} {tf : SuperNodeTree} {ord : Nat → Nat}

/-- [S] live cliques are valid indices -/
theorem lt_size (h : BridgeFinal n tf ord) {c : Nat} (hl : Live tf c) : c < tf.snode.size :=
  h.ct.sz_par ▸ hl.1

/-- [S] `tf.root` (the last clique of the post-order) is live and is the only root -/
theorem root_spec (h : BridgeFinal n tf ord) :
    Live tf tf.root ∧ ∀ c, Live tf c → (tf.snodeParent.getD c 0 = noParent ↔ c = tf.root) := by
  obtain ⟨r, hrl, hlast, hiff⟩ := h.root
  have e : tf.root = r := by
    rw [List.getLast?_eq_getElem?] at hlast
    obtain ⟨_, e⟩ := snp_getD_of_getElem? hlast
    rw [Array.length_toList, h.post_size] at e
    exact e
  rw [e]
  exact ⟨hrl, hiff⟩

/-- [S] the supernode of the `i`-th clique of the post-order is the block `offset i .. offset (i+1)` -/
theorem mem_snode_post (h : BridgeFinal n tf ord) {i : Nat} (hi : i < tf.snodePost.size) (v : Nat) :
    v ∈ (tf.sn (tf.postAt i)).toList ↔ (tf.offset i ≤ v ∧ v < tf.offset (i + 1)) := by
  rw [h.consecutive i hi, List.mem_range'_1, offset_succ tf i hi]

/-- [S] supernode vertices are `< n` -/
theorem snode_lt (h : BridgeFinal n tf ord) {c : Nat} (hl : Live tf c) {v : Nat}
    (hv : v ∈ (tf.snode.getD c #[]).toList) : v < n := by
  obtain ⟨i, hi, ei⟩ := List.getElem_of_mem ((h.post_live c).2 hl)
  have hi' : i < tf.snodePost.size := by simpa using hi
  have ec : tf.postAt i = c := by
    unfold postAt; rw [pcl_getD_eq_toList hi']; exact ei
  have hv' : v ∈ (tf.sn (tf.postAt i)).toList := by rw [ec]; exact hv
  have h1 := ((h.mem_snode_post hi' v).1 hv').2
  have h2 := offset_mono tf (show i + 1 ≤ tf.snodePost.size by omega)
  have h3 := h.cover
  omega

/-- [S] every vertex `< n` lies in the supernode of a live clique -/
theorem exists_snode (h : BridgeFinal n tf ord) {v : Nat} (hv : v < n) :
    ∃ c, Live tf c ∧ v ∈ (tf.snode.getD c #[]).toList := by
  obtain ⟨i, hi, hlo, hhi⟩ := offset_exists_block tf v tf.snodePost.size (by rw [h.cover]; exact hv)
  exact ⟨tf.postAt i, (h.post_live _).1 (brg_postAt_mem tf hi).1,
    (h.mem_snode_post hi v).2 ⟨hlo, hhi⟩⟩

/-- [S] the clauses checked in every case -/
theorem common (h : BridgeFinal n tf ord) {ord' : Array Nat}
    (hperm : ord'.toList.Perm (List.range n)) : ValidCommon n tf ord' where
  ordering_perm := hperm
  ncliques_ne_zero := by
    obtain ⟨hrl, _⟩ := h.root_spec
    have hm := (h.post_live _).2 hrl
    have := List.length_pos_of_mem hm
    have e : tf.snodePost.toList.length = tf.nCliques := by
      rw [Array.length_toList]; exact h.post_size
    omega
  separators_size := h.ct.sz_sep
  parent_size := h.ct.sz_par
  post_size := h.post_size

/-- [S] the single-clique case -/
theorem single (h : BridgeFinal n tf ord) (h1 : tf.nCliques = 1) : ValidSingle n tf := by
  have hsz : 0 < tf.snodePost.size := by rw [h.post_size, h1]; omega
  have hl := (h.post_live _).1 (brg_postAt_mem tf hsz).1
  refine ⟨h.lt_size hl, ?_⟩
  have e := h.consecutive 0 hsz
  have hc := h.cover
  have hc1 : tf.offset 1 = tf.offset 0 + (tf.sn (tf.postAt 0)).size := offset_succ tf 0 hsz
  have h0 : tf.offset 0 = 0 := by simp [offset]
  rw [h.post_size, h1, hc1, h0, Nat.zero_add] at hc
  rw [h0, hc] at e
  rw [e, List.range_eq_range']

/-- [S] the proper-tree case -/
theorem multi (h : BridgeFinal n tf ord) (edges : List (Nat × Nat)) {ord' : Array Nat}
    (hcov : ∀ e ∈ edges, ∃ c, Live tf c ∧ (∃ a ∈ cliqueList tf c, ord'[a]? = some e.1) ∧
      (∃ b ∈ cliqueList tf c, ord'[b]? = some e.2)) : ValidMulti n edges tf ord' := by
  obtain ⟨hrl, hriff⟩ := h.root_spec
  have hct := h.ct
  have hlive_lt : ∀ c, Live tf c → c < tf.snode.size := fun c hl => h.lt_size hl
  have hnp_of : ∀ c, Live tf c → c ≠ tf.root → tf.snodeParent.getD c 0 ≠ noParent :=
    fun c hl hcr e => hcr ((hriff c hl).1 e)
  refine
    { post_nodup := h.post_nodup
      post_lt := fun c hc => hlive_lt c ((h.post_live c).1 hc)
      live_nonempty := fun c _ hc => h.nonempty c ((h.post_live c).1 hc)
      dead_empty := ?_
      consecutive := ?_
      cover := by rw [← h.post_size]; exact h.cover
      clique_nodup := ?_
      clique_lt := ?_
      one_root := ?_
      root_last := ⟨hlive_lt _ hrl, (h.post_live _).2 hrl, (hriff _ hrl).2 rfl⟩
      parent_live_later := ?_
      separator_inter := ?_
      root_separator := ?_
      children := ?_
      running := ?_
      nblk := h.nblk
      coverage := ?_ }
  · intro c _ hc
    have hnl : ¬ Live tf c := fun hl => hc ((h.post_live c).2 hl)
    show (tf.snode.getD c #[]).toList = [] ∧ (tf.separators.getD c #[]).toList = []
    rw [hct.dead_snode c hnl, hct.dead_sep c hnl]
    exact ⟨rfl, rfl⟩
  · intro i hi
    exact List.Perm.of_eq (h.consecutive i (by rw [h.post_size]; exact hi))
  · intro c _
    by_cases hl : Live tf c
    · exact hct.clique_nodup hl
    · show ((tf.snode.getD c #[]).toList ++ (tf.separators.getD c #[]).toList).Nodup
      rw [hct.dead_snode c hl, hct.dead_sep c hl]
      simp
  · intro c _ v hv
    have hv' : v ∈ (tf.snode.getD c #[]).toList ++ (tf.separators.getD c #[]).toList := hv
    by_cases hl : Live tf c
    · rcases List.mem_append.1 hv' with hv' | hv'
      · exact h.snode_lt hl hv'
      · exact h.sep_lt c hl v hv'
    · rw [hct.dead_snode c hl, hct.dead_sep c hl] at hv'
      simp at hv'
  · refine ⟨tf.root, ⟨hlive_lt _ hrl, (h.post_live _).2 hrl, (hriff _ hrl).2 rfl⟩, ?_⟩
    rintro r' ⟨_, hr'p, hr'n⟩
    exact (hriff r' ((h.post_live r').1 hr'p)).1 hr'n
  · intro c _ hcp hcr
    have hl := (h.post_live c).1 hcp
    have hnp := hnp_of c hl hcr
    exact ⟨hlive_lt _ (hct.par_live c hl hnp), brg_sublist_pair _ (h.before c hl hnp)⟩
  · intro c _ hcp hcr v
    have hl := (h.post_live c).1 hcp
    exact hct.sep_eq_inter hl (hnp_of c hl hcr) v
  · show (tf.separators.getD tf.root #[]).toList = []
    rw [hct.root_sep _ hrl ((hriff _ hrl).2 rfl)]
  · intro _ c _ hcp d
    have hl := (h.post_live c).1 hcp
    show d ∈ (tf.snodeChildren.getD c #[]).toList ↔ _
    rw [hct.ch_iff c d hl]
    constructor
    · rintro ⟨hld, hp⟩
      exact ⟨hlive_lt d hld, (h.post_live d).2 hld, hp⟩
    · rintro ⟨_, hdp, hp⟩
      exact ⟨(h.post_live d).1 hdp, hp⟩
  · intro v hv
    obtain ⟨c, hl, hvc⟩ := h.exists_snode hv
    refine ⟨c, ⟨hlive_lt c hl, (h.post_live c).2 hl, List.mem_append_left _ hvc, ?_⟩, ?_⟩
    · by_cases hnp : tf.snodeParent.getD c 0 = noParent
      · exact Or.inl ((hriff c hl).1 hnp)
      · exact Or.inr (hct.snode_disj_parent hl hnp v hvc)
    · rintro c' ⟨_, hc'p, hv', htop⟩
      have hl' := (h.post_live c').1 hc'p
      have htop' : IsTop tf v c' := ⟨hl', hv', htop.imp (fun e => (hriff c' hl').2 e) id⟩
      obtain ⟨_, hvs⟩ := (hct.isTop_iff v c').1 htop'
      by_contra hne
      exact hct.sn_disj c' c hl' hl hne v hvs hvc
  · intro e he
    obtain ⟨c, hl, ha, hb⟩ := hcov e he
    exact ⟨c, hlive_lt c hl, (h.post_live c).2 hl, ha, hb⟩

/-- [S] **`BridgeFinal` + coverage ⇒ the oracle predicate** -/
theorem valid (h : BridgeFinal n tf ord) (edges : List (Nat × Nat)) {ord' : Array Nat}
    (hperm : ord'.toList.Perm (List.range n))
    (hcov : ∀ e ∈ edges, ∃ c, Live tf c ∧ (∃ a ∈ cliqueList tf c, ord'[a]? = some e.1) ∧
      (∃ b ∈ cliqueList tf c, ord'[b]? = some e.2)) : ValidCliqueTree n edges tf ord' := by
  refine ⟨h.common hperm, ?_⟩
  by_cases h1 : tf.nCliques = 1
  · exact Or.inl ⟨h1, h.single h1⟩
  · exact Or.inr ⟨h1, h.multi edges hcov⟩

end BridgeFinal

/-! ### the tree before the relabelling -/

/-- what the bridge needs to know about the clique tree `t` in the state in which
`SparsityPattern::new` calls `reorder_snode_consecutively` -/
structure BridgePre (L : LPat) (t : SuperNodeTree) (ord : Nat → Nat) : Prop where
  pre : PreReorder L.n t ord
  /-- live supernodes are not empty -/
  nonempty : ∀ c, Live t c → (t.snode.getD c #[]).toList ≠ []
  /-- children before parents in `snode_post` -/
  before : ∀ c, Live t c → t.snodeParent.getD c 0 ≠ noParent →
    List.Sublist [c, t.snodeParent.getD c 0] t.snodePost.toList
  /-- the unique root is the last clique of the post-order -/
  root : ∃ r, Live t r ∧ t.snodePost.toList.getLast? = some r ∧
    ∀ c, Live t c → (t.snodeParent.getD c 0 = noParent ↔ c = r)
  /-- every structural non-zero of `L` lies in a live clique -/
  cover : ∀ x, x < L.n → ∀ r ∈ L.col x, ∃ c, Live t c ∧ x ∈ cliqueList t c ∧ r ∈ cliqueList t c

/-- [S] **the relabelled tree**: `BridgePre` for the tree before `reorder_snode_consecutively`
gives `BridgeFinal` for the tree after it (with `nblk` filled in) -/
theorem BridgePre.final {L : LPat} {t : SuperNodeTree} {ord : Nat → Nat} (hb : BridgePre L t ord)
    {ordering : Array Nat} {tR : SuperNodeTree} {ord' p q nb : Array Nat}
    (hs : ReorderSpec t ordering tR ord' p q) (hnbsz : nb.size = t.nCliques)
    (hnb : ∀ i, i < t.nCliques → nb.getD i 0 =
      (tR.separators.getD (t.snodePost.getD i 0) #[]).size +
      (tR.snode.getD (t.snodePost.getD i 0) #[]).size) :
    BridgeFinal L.n { tR with nblk := some nb } ord := by
  have hp := hb.pre
  have hA := hp.analysisOk hs hnbsz hnb
  obtain ⟨_, hlive, hsn, hsp, _⟩ := hs.ctinv hp
  have e_par : tR.snodeParent = t.snodeParent := congrArg (·.snodeParent) hs.others
  have e_post : tR.snodePost = t.snodePost := congrArg (·.snodePost) hs.others
  have hsize : ∀ c ∈ t.snodePost.toList,
      (tR.snode.getD c #[]).size = (t.snode.getD c #[]).size := by
    intro c hc
    obtain ⟨i, hi, ei⟩ := List.getElem_of_mem hc
    have hi' : i < t.snodePost.size := by simpa using hi
    have ec : t.snodePost.getD i 0 = c := by rw [pcl_getD_eq_toList hi']; exact ei
    have := hs.snode_listed i hi'
    rw [ec] at this
    rw [this]
    simp
  have hoff : ∀ i, ({ tR with nblk := some nb } : SuperNodeTree).offset i =
      ((t.snodePost.toList.take i).map (fun c => (t.snode.getD c #[]).size)).sum := by
    intro i
    show ((tR.snodePost.toList.take i).map (fun c => (tR.snode.getD c #[]).size)).sum = _
    rw [e_post]
    congr 1
    apply List.map_congr_left
    intro c hc
    exact hsize c (List.mem_of_mem_take hc)
  have hsum : (t.snodePost.toList.map (fun c => (t.snode.getD c #[]).size)).sum = L.n := by
    have := congrArg List.length hs.snode_concat
    rw [List.length_flatMap, List.length_range, hp.vpost_size] at this
    rw [← this]
    congr 1
    apply List.map_congr_left
    intro c hc
    rw [Array.length_toList]
    exact (hsize c hc).symm
  refine
    { ct := hA.ct
      post_nodup := hA.post_nodup
      post_live := hA.post_live
      post_size := hA.post_size
      nonempty := ?_
      before := ?_
      root := ?_
      consecutive := ?_
      cover := ?_
      sep_lt := ?_
      nblk := hA.nblk }
  · intro c hl e
    have hl0 := (hlive c).1 hl
    have e' : (tR.snode.getD c #[]).toList = [] := e
    obtain ⟨x, hx⟩ := List.exists_mem_of_ne_nil _ (hb.nonempty c hl0)
    have := (hsn c hl0 (q.getD x 0)).2 ⟨x, hx, rfl⟩
    rw [e'] at this
    simp at this
  · intro c hl hnp
    show List.Sublist [c, tR.snodeParent.getD c 0] tR.snodePost.toList
    have hnp' : tR.snodeParent.getD c 0 ≠ noParent := hnp
    rw [e_par] at hnp' ⊢
    rw [e_post]
    exact hb.before c ((hlive c).1 hl) hnp'
  · obtain ⟨r, hrl, hlast, hiff⟩ := hb.root
    refine ⟨r, (hlive r).2 hrl, ?_, ?_⟩
    · show tR.snodePost.toList.getLast? = some r
      rw [e_post]; exact hlast
    · intro c hl
      show tR.snodeParent.getD c 0 = noParent ↔ c = r
      rw [e_par]
      exact hiff c ((hlive c).1 hl)
  · intro i hi
    have hi' : i < t.snodePost.size := by
      have : i < tR.snodePost.size := hi
      rwa [e_post] at this
    rw [hoff i]
    show (tR.snode.getD (tR.snodePost.getD i 0) #[]).toList =
      List.range' _ (tR.snode.getD (tR.snodePost.getD i 0) #[]).size
    rw [e_post, hs.snode_listed i hi']
    simp
  · rw [hoff]
    show ((t.snodePost.toList.take tR.snodePost.size).map _).sum = L.n
    rw [e_post, ← Array.length_toList, List.take_length]
    exact hsum
  · intro c hl x hx
    have hl0 := (hlive c).1 hl
    obtain ⟨y, hy, rfl⟩ := (hsp c hl0 x).1 hx
    have := hs.q_lt y (by rw [hp.vpost_size]; exact hp.sep_lt c hl0 y hy)
    rwa [hp.vpost_size] at this

/-- the hypothesis on the pattern entries: every entry `e` of `edges` (original coordinates) is,
in the permuted coordinates, a structural non-zero of the symbolic factor `L` — what `find_graph`
guarantees and the harness oracle `oracle_find_graph` checks -/
def EdgesIn (L : LPat) (ordering : Array Nat) (edges : List (Nat × Nat)) : Prop :=
  ∀ e ∈ edges, ∃ a b, a < L.n ∧ b < L.n ∧ ordering[a]? = some e.1 ∧ ordering[b]? = some e.2 ∧
    (b ∈ L.col a ∨ a ∈ L.col b)

/-- [S] **`BridgePre` + relabelling ⇒ the oracle predicate** for the returned tree and ordering -/
theorem BridgePre.valid {L : LPat} {t : SuperNodeTree} {ord : Nat → Nat} (hb : BridgePre L t ord)
    {ordering : Array Nat} {tR : SuperNodeTree} {ord' p q nb : Array Nat}
    (ho : ordering.toList.Perm (List.range L.n))
    (hs : ReorderSpec t ordering tR ord' p q) (hnbsz : nb.size = t.nCliques)
    (hnb : ∀ i, i < t.nCliques → nb.getD i 0 =
      (tR.separators.getD (t.snodePost.getD i 0) #[]).size +
      (tR.snode.getD (t.snodePost.getD i 0) #[]).size)
    (edges : List (Nat × Nat)) (hedges : EdgesIn L ordering edges) :
    ValidCliqueTree L.n edges { tR with nblk := some nb } ord' := by
  have hp := hb.pre
  have hF := hb.final hs hnbsz hnb
  have hA := hp.analysisOk hs hnbsz hnb
  have hperm : ord'.toList.Perm (List.range L.n) := by
    have := hs.ord_perm_range (by rw [hp.vpost_size]; exact ho)
    rwa [hp.vpost_size] at this
  have hosz : ordering.size = L.n := by simpa using ho.length_eq
  have hord : ∀ x, x < L.n → ord'[q.getD x 0]? = ordering[x]? := by
    intro x hx
    have hx' : x < t.post.size := by rw [hp.vpost_size]; exact hx
    have hq := hs.q_lt x hx'
    rw [brg_getElem?_getD (by rw [hs.ord_size]; exact hq), hs.ord_get _ hq, hs.p_q x hx',
      brg_getElem?_getD (by rw [hosz]; exact hx)]
  refine hF.valid edges hperm ?_
  intro e he
  obtain ⟨a, b, ha, hb', hea, heb, hab⟩ := hedges e he
  have key : ∃ c, Live t c ∧ a ∈ cliqueList t c ∧ b ∈ cliqueList t c := by
    rcases hab with h1 | h1
    · exact hb.cover a ha b h1
    · obtain ⟨c, hl, h2, h3⟩ := hb.cover b hb' a h1
      exact ⟨c, hl, h3, h2⟩
  obtain ⟨c, hl, hac, hbc⟩ := key
  refine ⟨c, (hA.live_iff c).2 hl,
    ⟨q.getD a 0, (hA.clique_iff c hl _).2 ⟨a, hac, rfl⟩, ?_⟩,
    ⟨q.getD b 0, (hA.clique_iff c hl _).2 ⟨b, hbc, rfl⟩, ?_⟩⟩
  · rw [hord a ha]; exact hea
  · rw [hord b hb']; exact heb

/-- [S] the tail of `SparsityPattern::new` (relabelling + block sizes) from a state satisfying
`BridgePre`: no panic, and the result satisfies the oracle predicate -/
theorem BridgePre.tail {L : LPat} {t : SuperNodeTree} {ord : Nat → Nat} (hb : BridgePre L t ord)
    (ordering : Array Nat) (ho : ordering.toList.Perm (List.range L.n))
    (edges : List (Nat × Nat)) (hedges : EdgesIn L ordering edges) :
    ∃ tf ord', spTail t ordering = .ok (tf, ord') ∧
      ValidCliqueTree L.n edges tf ord' ∧ validCliqueTreeB L.n edges tf ord' = true := by
  obtain ⟨tR, ord', p, q, nb, hre, hs, hbd, _, hnbsz, hnb⟩ := hb.pre.finish ordering ho
  have hv := hb.valid ho hs hnbsz hnb edges hedges
  exact ⟨_, ord', spTail_ok hre hbd, hv, (validCliqueTreeB_iff _ _ _ _).2 hv⟩

/-! ### the tree of `SuperNodeTree::new` -/

/-- [S] the tree returned by `SuperNodeTree::new` on a filled pattern satisfies `BridgePre` -/
theorem SnTreeOk.bridgePre {L : LPat} {t : SuperNodeTree} (hf : L.Filled) (h : SnTreeOk L t) :
    BridgePre L t (fun c => maxOf (t.snode.getD c #[])) := by
  have hlen : t.snodePost.toList.length = t.snode.size := by simpa using h.post_perm.length_eq
  have hpsz : t.snodePost.size = t.snode.size := by simpa using hlen
  have hpos := h.pos
  have hmem_post : ∀ c, c ∈ t.snodePost.toList ↔ c < t.snode.size := fun c => by
    rw [h.post_perm.mem_iff, List.mem_range]
  have hlt : ∀ c, Live t c → c < t.snode.size := fun c hl => h.ct.sz_par ▸ hl.1
  have hsz : t.snode.size - 1 < t.snodePost.size := by omega
  have hrlt : t.snodePost.getD (t.snode.size - 1) 0 < t.snode.size := by
    rw [pcl_getD_eq_toList hsz]; exact (hmem_post _).1 (List.getElem_mem _)
  refine
    { pre := h.preReorder hf
      nonempty := ?_
      before := fun c hl hnp => h.post_before c (hlt c hl) hnp
      root := ⟨t.snodePost.getD (t.snode.size - 1) 0, h.all_live _ hrlt, ?_, ?_⟩
      cover := ?_ }
  · intro c hl
    have hso := h.cover.snode_of _ (snp_getD_mem_toList t.snode #[] (hlt c hl))
    exact List.ne_nil_of_mem hso.rep_mem
  · rw [List.getLast?_eq_getElem?, hlen, List.getElem?_eq_getElem (by rw [hlen]; omega),
      pcl_getD_eq_toList hsz]
  · intro c hl
    constructor
    · intro hr
      obtain ⟨j, hj, e⟩ := List.getElem_of_mem ((hmem_post c).2 (hlt c hl))
      have hj' : j < t.snodePost.size := by simpa using hj
      have e' : t.snodePost.getD j 0 = c := by rw [pcl_getD_eq_toList hj']; exact e
      by_cases hlast : j + 1 < t.snode.size
      · exact absurd hr (e' ▸ h.nonroot j hlast)
      · have : j = t.snode.size - 1 := by omega
        rw [← this, e']
    · intro e
      rw [e]; exact h.root_last
  · intro x hx r hr
    obtain ⟨i, hi, hxi, hri⟩ := h.cover.cover_all hf x hx r hr
    exact ⟨i, h.all_live i hi, List.mem_append_left _ hxi, List.mem_append.2 hri⟩

/-- [S] **THE ANALYSIS WITHOUT MERGING SATISFIES THE ORACLE PREDICATE**: for a filled pattern `L`,
an `ordering` that is a permutation of `0..n`, and pattern entries `edges` (original coordinates)
each of which is a structural non-zero of `L` in the permuted coordinates,
`SparsityPattern::new(L, ordering, "none")` returns (no panic) a tree and an ordering that satisfy
`ValidCliqueTree` — every clause of the harness oracle `check_clique_tree` — and the executable
checker `validCliqueTreeB` accepts them. -/
theorem analysis_none_valid {L : LPat} (h : L.Filled) (ordering : Array Nat)
    (ho : ordering.toList.Perm (List.range L.n)) (edges : List (Nat × Nat))
    (hedges : ∀ e ∈ edges, ∃ a b, a < L.n ∧ b < L.n ∧ ordering[a]? = some e.1 ∧
        ordering[b]? = some e.2 ∧ (b ∈ L.col a ∨ a ∈ L.col b)) :
    ∃ tf ord', sparsityPatternNew L ordering "none" = .ok (tf, ord') ∧
      ValidCliqueTree L.n edges tf ord' ∧ validCliqueTreeB L.n edges tf ord' = true := by
  obtain ⟨t0, hnew, hok⟩ := sntree_new_ok h
  rw [sparsityPatternNew_none L ordering hnew]
  exact (hok.bridgePre h).tail ordering ho edges hedges

/-! ### the parent–child merge -/

/-- [S] ONE PASS of the merge loop (`PCLoopInv.pass`, with what happens to the supernodes): the
cliques that are live afterwards were live before and their supernodes have only grown -/
theorem brg_pass_mono {t : SuperNodeTree} {ord : Nat → Nat} {s : PCStrategy}
    (inv : PCLoopInv t ord s) (hstop : s.stop = false) (fuel : Nat) :
    ∃ t1, PCStrategy.loop (fuel + 1) s t =
        (if t1.nCliques == 1 then .ok t1 else PCStrategy.loop fuel s.next t1) ∧
      (∀ c, Live t1 c → Live t c) ∧
      (∀ c, Live t1 c → ∀ v ∈ (t.snode.getD c #[]).toList, v ∈ (t1.snode.getD c #[]).toList) ∧
      (s.cliqueIndex ≠ 0 → PCLoopInv t1 ord s.next ∧ t1.nCliques ≠ 1) := by
  have hm := inv.mergeHyp
  have hev := inv.ct.evaluate_ok s hstop inv.cur.1 inv.cur.2
  have hncl := inv.ncl
  cases hb : evalVal s t (t.snodeParent.getD (t.snodePost.getD s.cliqueIndex 0) 0)
      (t.snodePost.getD s.cliqueIndex 0) with
  | false =>
    rw [hb] at hev
    refine ⟨t, ?_, fun _ hl => hl, fun _ _ _ hv => hv,
      fun hj => ⟨inv.next_of_skip hj, by omega⟩⟩
    exact PCStrategy.loop_succ fuel s t hstop inv.idx_lt inv.cur.1.1 false t hev rfl
  | true =>
    rw [hb] at hev
    refine ⟨_, ?_, fun c hl => ((hm.live_iff c).1 hl).2,
      fun c hl v hv => hm.snode_mono c ((hm.live_iff c).1 hl).1 v hv,
      fun hj => ⟨inv.next_of_merge hj, ?_⟩⟩
    · refine PCStrategy.loop_succ fuel s t hstop inv.idx_lt inv.cur.1.1 true _ hev ?_
      simp only [if_true]
      have hi := inv.ct.toPCInv
      exact mergeTwoCliques_eq t _ _ hm.ne hm.p_lt hm.ch_lt (hi.sz_sep ▸ hm.ch_lt) hm.lc.1
        (hi.sz_ch ▸ hm.p_lt) (hi.sz_ch ▸ hm.ch_lt) hm.ch_mem
        (fun g hg => ((hm.mem_grand g).1 hg).1.1) (by omega)
    · show t.nCliques - 1 ≠ 1
      omega

/-- [S] THE MERGE LOOP ONLY ENLARGES THE SURVIVING SUPERNODES (`PCStrategy.loop_spec`, with what
happens to the supernodes): the cliques live at the end were live at the start, and their
supernodes contain the original ones — in particular they stay non-empty -/
theorem brg_loop_mono {ord : Nat → Nat} : ∀ (fuel : Nat) (s : PCStrategy)
    (t : SuperNodeTree), PCLoopInv t ord s → s.stop = false → s.cliqueIndex + 2 ≤ fuel →
    ∃ t', PCStrategy.loop fuel s t = .ok t' ∧ (∀ c, Live t' c → Live t c) ∧
      ∀ c, Live t' c → ∀ v ∈ (t.snode.getD c #[]).toList, v ∈ (t'.snode.getD c #[]).toList := by
  intro fuel
  induction fuel with
  | zero => intro s t _ _ hf; omega
  | succ fuel ih =>
    intro s t inv hstop hf
    obtain ⟨t1, hrun, hsub, hmono, hnext⟩ := brg_pass_mono inv hstop fuel
    by_cases hj : s.cliqueIndex = 0
    · refine ⟨t1, ?_, hsub, hmono⟩
      rw [hrun]
      by_cases h1 : (t1.nCliques == 1) = true
      · rw [if_pos h1]
      · rw [if_neg h1]
        obtain ⟨f, rfl⟩ : ∃ f, fuel = f + 1 := ⟨fuel - 1, by omega⟩
        exact PCStrategy.loop_stop f _ t1 (by rw [PCStrategy.next_of_eq s hj])
    · obtain ⟨inv1, hn1⟩ := hnext hj
      have hstop1 : s.next.stop = false := by rw [PCStrategy.next_of_ne s hj]; exact hstop
      have hidx1 : s.next.cliqueIndex = s.cliqueIndex - 1 := by rw [PCStrategy.next_of_ne s hj]
      obtain ⟨t', hrun', hsub', hmono'⟩ := ih s.next t1 inv1 hstop1 (by omega)
      refine ⟨t', ?_, fun c hl => hsub c (hsub' c hl),
        fun c hl v hv => hmono' c hl v (hmono c (hsub' c hl) v hv)⟩
      rw [hrun, if_neg (by simpa using hn1), hrun']

/-- [S] **the merged tree satisfies `BridgePre`**: after `merge_cliques` (parent–child strategy) on
the tree of `SuperNodeTree::new` (at least two cliques) the live supernodes are non-empty, the new
post-order lists children before parents with the unique root last, and every structural
non-zero of `L` still lies in a live clique -/
theorem bridgePre_of_merge {L : LPat} {t0 : SuperNodeTree} (hf : L.Filled) (hok : SnTreeOk L t0)
    (h2 : 2 ≤ t0.snode.size) :
    ∃ t1, PCStrategy.mergeCliques t0 = .ok t1 ∧
      BridgePre L t1 (fun c => maxOf (t0.snode.getD c #[])) := by
  have hinit := hok.pcinit h2
  obtain ⟨t', post, ch', hloop, hmc, _, hrel, _, _, _, _, _, hbefore, hr0l, hroot, hlast⟩ :=
    PCStrategy.merge_cliques_pc_spec hinit
  obtain ⟨t'2, post2, ch'2, hmc2, _, hpre2, _, _⟩ := preReorder_of_merge hf hok h2
  have e := Except.ok.inj (hmc2.symm.trans hmc)
  rw [e] at hpre2
  obtain ⟨t'', hloop'', hsub, hmono⟩ := brg_loop_mono (t0.snode.size + 1)
    { stop := false, cliqueIndex := t0.snode.size - 2 } t0 hinit.loopInv rfl
    (by show t0.snode.size - 2 + 2 ≤ _; omega)
  have e' : t'' = t' := Except.ok.inj (hloop''.symm.trans hloop)
  subst e'
  have hB0 := hok.bridgePre hf
  refine ⟨_, hmc,
    { pre := hpre2
      nonempty := ?_
      before := hbefore
      root := ⟨_, hr0l, hlast, hroot⟩
      cover := ?_ }⟩
  · intro c hl
    have hl' : Live t'' c := hl
    obtain ⟨x, hx⟩ := List.exists_mem_of_ne_nil _ (hB0.nonempty c (hsub c hl'))
    exact List.ne_nil_of_mem (hmono c hl' x hx)
  · intro x hx r hr
    obtain ⟨c0, hl0, hx0, hr0⟩ := hB0.cover x hx r hr
    obtain ⟨c1, hl1, hc1⟩ := hrel.cover c0 hl0
    exact ⟨c1, hl1, hc1 x hx0, hc1 r hr0⟩

/-- [S] **THE ANALYSIS WITH THE PARENT–CHILD MERGE SATISFIES THE ORACLE PREDICATE**: for a filled
pattern `L`, an `ordering` that is a permutation of `0..n`, and pattern entries `edges` (original
coordinates) each of which is a structural non-zero of `L` in the permuted coordinates,
`SparsityPattern::new(L, ordering, "parent_child")` returns (no panic) a tree and an ordering that
satisfy `ValidCliqueTree` — every clause of the harness oracle `check_clique_tree` — and the
executable checker `validCliqueTreeB` accepts them. -/
theorem analysis_pc_valid {L : LPat} (h : L.Filled) (ordering : Array Nat)
    (ho : ordering.toList.Perm (List.range L.n)) (edges : List (Nat × Nat))
    (hedges : ∀ e ∈ edges, ∃ a b, a < L.n ∧ b < L.n ∧ ordering[a]? = some e.1 ∧
        ordering[b]? = some e.2 ∧ (b ∈ L.col a ∨ a ∈ L.col b)) :
    ∃ tf ord', sparsityPatternNew L ordering "parent_child" = .ok (tf, ord') ∧
      ValidCliqueTree L.n edges tf ord' ∧ validCliqueTreeB L.n edges tf ord' = true := by
  obtain ⟨t0, hnew, hok⟩ := sntree_new_ok h
  rw [sparsityPatternNew_pc L ordering hnew]
  by_cases h2 : t0.nCliques > 1
  · obtain ⟨t1, hmc, hB⟩ := bridgePre_of_merge h hok (by rw [← hok.ncl]; omega)
    rw [if_pos h2, hmc, ok_bind']
    exact hB.tail ordering ho edges hedges
  · rw [if_neg h2]
    exact (hok.bridgePre h).tail ordering ho edges hedges

/-! ### non-vacuity -/

/-- the six entries of the pattern of `exFilledL` (identity ordering) -/
def exBridgeEdges : List (Nat × Nat) := [(0, 1), (0, 2), (1, 2), (1, 4), (2, 4), (3, 4)]

/-- [S] the hypothesis `hedges` of `analysis_none_valid` / `analysis_pc_valid` holds for
`exFilledL` with the identity ordering and its own six entries -/
theorem exBridgeEdges_in : EdgesIn exFilledL #[0, 1, 2, 3, 4] exBridgeEdges := by
  intro e he
  simp only [exBridgeEdges, List.mem_cons, List.not_mem_nil, or_false] at he
  rcases he with rfl | rfl | rfl | rfl | rfl | rfl
  · exact ⟨0, 1, by decide, by decide, rfl, rfl, Or.inl (by decide)⟩
  · exact ⟨0, 2, by decide, by decide, rfl, rfl, Or.inl (by decide)⟩
  · exact ⟨1, 2, by decide, by decide, rfl, rfl, Or.inl (by decide)⟩
  · exact ⟨1, 4, by decide, by decide, rfl, rfl, Or.inl (by decide)⟩
  · exact ⟨2, 4, by decide, by decide, rfl, rfl, Or.inl (by decide)⟩
  · exact ⟨3, 4, by decide, by decide, rfl, rfl, Or.inl (by decide)⟩

/-- non-vacuity of `analysis_none_valid` (and, through it, of `SnTreeOk.bridgePre`,
`BridgePre.tail`, `BridgePre.valid`, `BridgePre.final`, `BridgeFinal.valid`) -/
example : ∃ tf ord', sparsityPatternNew exFilledL #[0, 1, 2, 3, 4] "none" = .ok (tf, ord') ∧
    ValidCliqueTree 5 exBridgeEdges tf ord' ∧ validCliqueTreeB 5 exBridgeEdges tf ord' = true :=
  analysis_none_valid exFilledL_filled #[0, 1, 2, 3, 4] (List.Perm.refl _) exBridgeEdges
    exBridgeEdges_in

/-- non-vacuity of `analysis_pc_valid` (and of `bridgePre_of_merge`, `brg_loop_mono`,
`brg_pass_mono`: `SuperNodeTree::new exFilledL` has more than one clique, so the merge runs) -/
example : ∃ tf ord', sparsityPatternNew exFilledL #[0, 1, 2, 3, 4] "parent_child" = .ok (tf, ord') ∧
    ValidCliqueTree 5 exBridgeEdges tf ord' ∧ validCliqueTreeB 5 exBridgeEdges tf ord' = true :=
  analysis_pc_valid exFilledL_filled #[0, 1, 2, 3, 4] (List.Perm.refl _) exBridgeEdges
    exBridgeEdges_in

end Clarabel.Chordal
