/-
  Panic-freedom of the whole-solver model (C04) — stage "linear solver object", part 1:
  the QDLDL engine (`Qdldl.Factorisation`).

  * `QInv N nnz F`   : the invariant of the factorisation object between calls (what `_qdldl_new`
                       allocates: a valid permuted pattern `triuA` of order `N > 0` without repeated
                       positions, `AtoPAPt : nnz → slots of triuA`, `etree/Lnz` = `_etree` of the
                       pattern, buffers of the allocated sizes, `perm` a permutation of `0 … N-1`,
                       `Dsigns ∈ {±1}^N`, dynamic regularisation enabled with parameters that never
                       produce a zero pivot).
  * `QInvS N nnz F`  : additionally a numeric factorisation is present (`isSymbolic = false`, the
                       `L` arrays are a strictly lower triangular CSC matrix), so `solve` is allowed.
  * totality: `Qdldl.updateValues`, `Qdldl.scaleValues` (on `QInv`, keep `QInv`),
    `Qdldl.refactor` (on `QInv`, establishes `QInvS`; never `ZeroPivot`), `Qdldl.solve` (on `QInvS`).

  All structural ([S]); no law of the scalar type is used.
-/
import ClarabelProofs.Lemmas.SolverModelNoPanicDefs2
import ClarabelProofs.Lemmas.QdldlNew

namespace Clarabel.Solver
open Clarabel Qdldl

set_option linter.unusedSectionVars false
set_option linter.unusedVariables false

variable {α : Type}

/-- [S] totality rule for a monadic fold with an invariant -/
theorem foldlM_ok_inv {σ β : Type} (f : σ → β → MErr σ) (P : σ → Prop) :
    ∀ (l : List β) (s0 : σ), P s0 → (∀ s b, b ∈ l → P s → ∃ s', f s b = .ok s' ∧ P s') →
      ∃ s, l.foldlM f s0 = .ok s ∧ P s := by
  intro l
  induction l with
  | nil => intro s0 h0 _; exact ⟨s0, rfl, h0⟩
  | cons b t ih =>
    intro s0 h0 hstep
    obtain ⟨s1, h1, hP1⟩ := hstep s0 b (List.mem_cons_self ..) h0
    obtain ⟨s2, h2, hP2⟩ := ih s1 hP1 (fun s b' hb hs => hstep s b' (List.mem_cons_of_mem _ hb) hs)
    refine ⟨s2, ?_, hP2⟩
    rw [List.foldlM_cons, h1]
    exact h2

theorem getD_of_lt {β : Type} (xs : Array β) (i : Nat) (d : β) (h : i < xs.size) : xs.getD i d = xs[i] := by
  simp [Array.getD_eq_getD_getElem?, h]

section
variable [Add α] [Sub α] [Mul α] [Div α] [Neg α] [OfNat α 0] [OfNat α 1] [OfNat α 2]
  [OfNat α 100] [OfNat α 1000] [LT α] [DecidableLT α] [LE α] [DecidableLE α] [BEq α] [FloatLike α]

/-- the regularisation parameters never produce a zero pivot on a `±1` sign -/
def PivotOKrp (eps delta : α) : Prop :=
  ∀ (sg : Int) (d : α), sg = 1 ∨ sg = -1 →
    ((Qdldl.regularizePivot true eps delta sg d).1 == (0 : α)) = false

/-- the scalar-law hypothesis that excludes `ZeroPivot` in `refactor().unwrap()` (true at `Float`
for `eps > 0`, `delta ≠ 0`) -/
def PivotOK (st : LinSettings α) : Prop := PivotOKrp st.dynRegEps st.dynRegDelta

/-- **invariant of the QDLDL object** between calls -/
structure QInv (N nnz : Nat) (F : Qdldl.Factorisation α) : Prop where
  npos : 0 < N
  triu_n : F.triuA.n = N
  tri : TriuCsc N F.triuA.colptr F.triuA.rowval
  nodup : NoDupCols F.triuA.colptr F.triuA.rowval
  nzsz : F.triuA.nzval.size = F.triuA.rowval.size
  map_size : F.AtoPAPt.size = nnz
  map_lt : ∀ k ∈ F.AtoPAPt.toList, k < F.triuA.nzval.size
  etree : ∃ es, Qdldl.etree N F.triuA.colptr F.triuA.rowval = .ok es ∧ F.etree = es.etree ∧ F.Lnz = es.Lnz
  Lrow : (cumsum F.Lnz).getD N 0 ≤ F.L.rowval.size
  Lval : F.L.nzval.size = F.L.rowval.size
  D : F.D.size = N
  Dinv : F.Dinv.size = N
  perm_size : F.perm.size = N
  perm_nodup : F.perm.toList.Nodup
  perm_lt : ∀ j ∈ F.perm.toList, j < N
  enable : F.rp.enable = true
  signs_size : F.rp.Dsigns.size = N
  signs : ∀ sg ∈ F.rp.Dsigns.toList, sg = 1 ∨ sg = -1
  pivot : PivotOKrp F.rp.eps F.rp.delta

/-- the QDLDL object after a numeric factorisation -/
structure QInvS (N nnz : Nat) (F : Qdldl.Factorisation α) : Prop where
  inv : QInv N nnz F
  numeric : F.isSymbolic = false
  lower : LowerCsc N F.L.colptr F.L.rowval F.L.nzval

/-- [S] the invariant does not depend on the stored values of `triuA` -/
theorem QInv.set_nzval {N nnz : Nat} {F : Qdldl.Factorisation α} (h : QInv N nnz F) (nz : Array α)
    (hnz : nz.size = F.triuA.nzval.size) :
    QInv N nnz { F with triuA := { F.triuA with nzval := nz } } :=
  { npos := h.npos, triu_n := h.triu_n, tri := h.tri, nodup := h.nodup,
    nzsz := by show nz.size = _; rw [hnz]; exact h.nzsz
    map_size := h.map_size
    map_lt := by intro k hk; show k < nz.size; rw [hnz]; exact h.map_lt k hk
    etree := h.etree, Lrow := h.Lrow, Lval := h.Lval, D := h.D, Dinv := h.Dinv,
    perm_size := h.perm_size, perm_nodup := h.perm_nodup, perm_lt := h.perm_lt, enable := h.enable,
    signs_size := h.signs_size, signs := h.signs, pivot := h.pivot }

/-! ### `update_values`, `scale_values` -/

/-- what the value updates of the engine change: only `triuA.nzval`, keeping its length -/
def NzOnly (F F' : Qdldl.Factorisation α) : Prop :=
  ∃ nz : Array α, nz.size = F.triuA.nzval.size ∧ F' = { F with triuA := { F.triuA with nzval := nz } }

theorem NzOnly.rfl' (F : Qdldl.Factorisation α) : NzOnly F F := ⟨F.triuA.nzval, rfl, rfl⟩

theorem NzOnly.inv {N nnz : Nat} {F F' : Qdldl.Factorisation α} (h : NzOnly F F') (hF : QInv N nnz F) :
    QInv N nnz F' := by
  obtain ⟨nz, hnz, rfl⟩ := h
  exact hF.set_nzval nz hnz

theorem NzOnly.symbolic {F F' : Qdldl.Factorisation α} (h : NzOnly F F') : F'.isSymbolic = F.isSymbolic := by
  obtain ⟨nz, hnz, rfl⟩ := h; rfl

/-- [S] `update_values` of the engine is total when every index is a slot of `AtoPAPt`, every entry
of `AtoPAPt` a slot of `triuA` and there are at least as many values as indices -/
theorem qdldl_updateValues_ok (F : Qdldl.Factorisation α) (indices : Array Nat) (values : Array α)
    (hidx : ∀ i ∈ indices.toList, i < F.AtoPAPt.size)
    (hmap : ∀ k ∈ F.AtoPAPt.toList, k < F.triuA.nzval.size) (hlen : indices.size ≤ values.size) :
    ∃ F', Qdldl.updateValues F indices values = .ok F' ∧ NzOnly F F' := by
  unfold Qdldl.updateValues
  apply foldlM_ok_inv _ (fun F' => NzOnly F F') _ _ (NzOnly.rfl' F)
  intro G i hi hG
  obtain ⟨nz, hnz, rfl⟩ := hG
  have hi' : i < indices.size := by simpa using hi
  have h1 : indices[i] < F.AtoPAPt.size := hidx _ (by simp)
  have h2 : F.AtoPAPt[indices[i]] < nz.size := by
    rw [hnz]; exact hmap _ (by simp)
  refine ⟨{ F with triuA := { F.triuA with nzval := nz.set (F.AtoPAPt[indices[i]]) values[i] h2 } }, ?_,
    ⟨_, by simp [hnz], rfl⟩⟩
  simp only [getE_ok _ _ _ hi', getE_ok _ _ _ h1, getE_ok values i _ (by omega), setE_ok _ _ _ _ h2,
    bind, Except.bind, pure, Except.pure]

/-- [S] `scale_values` of the engine is total under the same range conditions -/
theorem qdldl_scaleValues_ok (F : Qdldl.Factorisation α) (indices : Array Nat) (scale : α)
    (hidx : ∀ i ∈ indices.toList, i < F.AtoPAPt.size)
    (hmap : ∀ k ∈ F.AtoPAPt.toList, k < F.triuA.nzval.size) :
    ∃ F', Qdldl.scaleValues F indices scale = .ok F' ∧ NzOnly F F' := by
  unfold Qdldl.scaleValues
  apply foldlM_ok_inv _ (fun F' => NzOnly F F') _ _ (NzOnly.rfl' F)
  intro G idx hi hG
  obtain ⟨nz, hnz, rfl⟩ := hG
  have h1 : idx < F.AtoPAPt.size := hidx _ hi
  have h2 : F.AtoPAPt[idx] < nz.size := by
    rw [hnz]; exact hmap _ (by simp)
  refine ⟨{ F with triuA := { F.triuA with nzval := nz.set (F.AtoPAPt[idx]) (nz[F.AtoPAPt[idx]] * scale) h2 } },
    ?_, ⟨_, by simp [hnz], rfl⟩⟩
  unfold Qdldl.modifyEntry
  simp only [getE_ok _ _ _ h1, getE_ok _ _ _ h2, setE_ok _ _ _ _ h2, bind, Except.bind, pure, Except.pure]


/-! ### `solve` -/

theorem lsolveEntry_fold_ok (N : Nat) (Li : Array Nat) (Lx : Array α) (xi : α) (js : List Nat)
    (hj : ∀ j ∈ js, j < Li.size ∧ j < Lx.size ∧ Li.getD j 0 < N) (x : Array α) (hx : x.size = N) :
    ∃ x', js.foldlM (lsolveEntry Li Lx xi) x = .ok x' ∧ x'.size = N := by
  apply foldlM_ok_inv _ (fun x' : Array α => x'.size = N) _ _ hx
  intro y j hjm hy
  obtain ⟨h1, h2, h3⟩ := hj j hjm
  rw [getD_of_lt _ _ _ h1] at h3
  have h3' : Li[j] < y.size := by omega
  refine ⟨y.set Li[j] (y[Li[j]] - Lx[j] * xi) h3', ?_, by simp [hy]⟩
  unfold lsolveEntry
  simp only [getE_ok _ _ _ h1, getE_ok _ _ _ h2, getE_ok _ _ _ h3', setE_ok _ _ _ _ h3', bind, Except.bind]

theorem dotEntry_fold_ok (Li : Array Nat) (Lx : Array α) (x : Array α) (js : List Nat)
    (hj : ∀ j ∈ js, j < Li.size ∧ j < Lx.size ∧ Li.getD j 0 < x.size) (s0 : α) :
    ∃ s, js.foldlM (dotEntry Li Lx x) s0 = .ok s := by
  obtain ⟨s, hs, _⟩ := foldlM_ok_inv (dotEntry Li Lx x) (fun _ => True) js s0 trivial (by
    intro s j hjm _
    obtain ⟨h1, h2, h3⟩ := hj j hjm
    rw [getD_of_lt _ _ _ h1] at h3
    refine ⟨s + Lx[j] * x[Li[j]], ?_, trivial⟩
    unfold dotEntry
    simp only [getE_ok _ _ _ h1, getE_ok _ _ _ h2, getE_ok _ _ _ h3, bind, Except.bind, pure, Except.pure])
  exact ⟨s, hs⟩

/-- the positions of column `i` are in range and carry row indices `< N` -/
theorem lowerCsc_col {N : Nat} {Lp Li : Array Nat} {Lx : Array α} (h : LowerCsc N Lp Li Lx) (i : Nat)
    (hi : i < N) :
    ∃ (hp1 : i < Lp.size) (hp2 : i + 1 < Lp.size), Lp[i] ≤ Lp[i + 1] ∧ Lp[i + 1] ≤ Lx.size ∧
      Lp[i + 1] ≤ Li.size ∧
      ∀ j ∈ List.range' Lp[i] (Lp[i + 1] - Lp[i]), j < Li.size ∧ j < Lx.size ∧ Li.getD j 0 < N := by
  have hp1 : i < Lp.size := by rw [h.lp_size]; omega
  have hp2 : i + 1 < Lp.size := by rw [h.lp_size]; omega
  have hm := h.lp_mono i hi
  have hb := h.lp_bound (i + 1) (by omega)
  have hlx := h.lx_size
  have hr := h.rows i hi
  unfold colIdx at hr
  rw [getD_of_lt _ _ _ hp1, getD_of_lt _ _ _ hp2] at hm hr
  rw [getD_of_lt _ _ _ hp2] at hb
  refine ⟨hp1, hp2, hm, by omega, hb, ?_⟩
  intro j hj
  have hj' := List.mem_range'_1.mp hj
  exact ⟨by omega, by omega, (hr j hj).2⟩

theorem lsolveStep_ok {N : Nat} {Lp Li : Array Nat} {Lx : Array α} (h : LowerCsc N Lp Li Lx)
    (x : Array α) (hx : x.size = N) (i : Nat) (hi : i < N) :
    ∃ x', lsolveStep Lp Li Lx x i = .ok x' ∧ x'.size = N := by
  obtain ⟨hp1, hp2, hm, hb1, hb2, hcol⟩ := lowerCsc_col h i hi
  have hxi : i < x.size := by omega
  obtain ⟨x', hx', hs⟩ := lsolveEntry_fold_ok N Li Lx x[i] _ hcol x hx
  refine ⟨x', ?_, hs⟩
  unfold lsolveStep
  simp only [getE_ok _ _ _ hxi, getE_ok _ _ _ hp1, getE_ok _ _ _ hp2, bind, Except.bind]
  split
  · rename_i hc
    simp only [Bool.not_eq_eq_eq_not, Bool.not_true, Bool.and_eq_false_iff, decide_eq_false_iff_not] at hc
    omega
  · exact hx'

theorem dltsolveStep_ok {N : Nat} {Lp Li : Array Nat} {Lx Dinv : Array α} (h : LowerCsc N Lp Li Lx)
    (hD : Dinv.size = N) (x : Array α) (hx : x.size = N) (i : Nat) (hi : i < N) :
    ∃ x', dltsolveStep Lp Li Lx Dinv x i = .ok x' ∧ x'.size = N := by
  obtain ⟨hp1, hp2, hm, hb1, hb2, hcol⟩ := lowerCsc_col h i hi
  have hxi : i < x.size := by omega
  have hdi : i < Dinv.size := by omega
  obtain ⟨s, hs⟩ := dotEntry_fold_ok Li Lx x _ (fun j hj => by
    obtain ⟨a, b, c⟩ := hcol j hj; exact ⟨a, b, by omega⟩) (0 : α)
  refine ⟨x.set i (x[i] * Dinv[i] - s) hxi, ?_, by simp [hx]⟩
  unfold dltsolveStep
  simp only [getE_ok _ _ _ hp1, getE_ok _ _ _ hp2, bind, Except.bind]
  split
  · rename_i hc
    simp only [Bool.not_eq_eq_eq_not, Bool.not_true, Bool.and_eq_false_iff, decide_eq_false_iff_not] at hc
    omega
  · simp only [hs, getE_ok _ _ _ hxi, getE_ok _ _ _ hdi, setE_ok _ _ _ _ hxi]

/-- [S] `_solve` (`_lsolve`, `_dltsolve`) is total on a strictly lower triangular CSC factor -/
theorem solveRaw_ok {N : Nat} {Lp Li : Array Nat} {Lx Dinv : Array α} (h : LowerCsc N Lp Li Lx)
    (hD : Dinv.size = N) (b : Array α) (hb : b.size = N) :
    ∃ x, solveRaw Lp Li Lx Dinv b = .ok x ∧ x.size = N := by
  obtain ⟨y, hy, hys⟩ := foldlM_ok_inv (lsolveStep Lp Li Lx) (fun x' : Array α => x'.size = N) (List.range b.size) b hb
    (fun x i hi hx => lsolveStep_ok h x hx i (by rw [hb] at hi; simpa using hi))
  obtain ⟨x, hx, hxs⟩ := foldlM_ok_inv (dltsolveStep Lp Li Lx Dinv) (fun x' : Array α => x'.size = N)
    (List.range y.size).reverse y hys
    (fun x i hi hx => dltsolveStep_ok h hD x hx i (by rw [hys] at hi; simpa using hi))
  refine ⟨x, ?_, hxs⟩
  unfold solveRaw lsolve dltsolve
  simp only [hy, bind, Except.bind]
  exact hx

/-- [S] **`QDLDLFactorisation::solve` is total** after a numeric factorisation -/
theorem qdldl_solve_ok {N nnz : Nat} {F : Qdldl.Factorisation α} (h : QInvS N nnz F) (b : Array α)
    (hb : b.size = N) : ∃ x, Qdldl.solve F b = .ok x ∧ x.size = N := by
  obtain ⟨t1, ht1, hs1, _⟩ := permute_spec (Array.replicate F.triuA.n (0 : α)) b F.perm 0
    (by simp [h.inv.perm_size, h.inv.triu_n]) (fun j hj => by rw [hb]; exact h.inv.perm_lt j hj)
  have hs1' : t1.size = N := by rw [hs1]; simp [h.inv.triu_n]
  obtain ⟨t2, ht2, hs2⟩ := solveRaw_ok h.lower h.inv.Dinv t1 hs1'
  obtain ⟨t3, ht3, hs3, _⟩ := ipermute_spec b t2 F.perm 0 h.inv.perm_nodup
    (fun j hj => by rw [hb]; exact h.inv.perm_lt j hj) (by rw [h.inv.perm_size, hs2])
  refine ⟨t3, ?_, by rw [hs3, hb]⟩
  unfold Qdldl.solve
  have hc : (b.size != F.D.size) = false := by simp [hb, h.inv.D]
  simp only [h.numeric, hc, Bool.false_eq_true, ↓reduceIte, ht1, ht2, bind, Except.bind, pure, Except.pure]
  exact ht3


/-! ### `refactor` -/

section factor
variable {n : Nat} {Ap Ai : Array Nat} {etree : Array (Option Nat)} {Lnz : Array Nat}

/-- polymorphic copy of `Qdldl.lowerCsc_of_rowInv` (which is stated over a field) -/
theorem lowerCsc_of_rowInv' (C : FCtx n Ap Ai etree Lnz) (LiSz : Nat) (hLi : LpOf Lnz n ≤ LiSz)
    (s : FState α) (hI : RowInv Ap Ai Lnz n n LiSz s) : LowerCsc n s.Lp s.Li s.Lx := by
  have hcol : ∀ c, c < n → colIdx s.Lp c = List.range' (LpOf Lnz c) (Lrows (Apat Ap Ai) n c).length := by
    intro c hc
    unfold colIdx
    rw [hI.lp]
    show List.range' (LpOf Lnz c) (LpOf Lnz (c + 1) - LpOf Lnz c) = _
    rw [LpOf_succ Lnz c (by rw [C.lsz]; exact hc), C.cnt c hc, Nat.add_sub_cancel_left]
  refine ⟨?_, ?_, ?_, ?_, ?_⟩
  · rw [hI.lp, (cumsum_spec Lnz).1, C.lsz]
  · intro c hc
    rw [hI.lp]
    exact LpOf_mono Lnz c (c + 1) (by omega) (by rw [C.lsz]; omega)
  · intro c hc
    rw [hI.lp, hI.lisz]
    have := LpOf_mono Lnz c n hc (by rw [C.lsz])
    show LpOf Lnz c ≤ LiSz
    omega
  · rw [hI.lxsz, hI.lisz]
  · intro c hc j hj
    rw [hcol c hc, List.mem_range'_1] at hj
    obtain ⟨t, rfl⟩ : ∃ t, j = LpOf Lnz c + t := ⟨j - LpOf Lnz c, by omega⟩
    have ht : t < (Lrows (Apat Ap Ai) n c).length := by omega
    have hget : (Lrows (Apat Ap Ai) n c)[t]? = some (Lrows (Apat Ap Ai) n c)[t] := by simp [ht]
    rw [hI.li c hc t _ hget]
    have hmem := (mem_Lrows (Apat Ap Ai) n c _).mp (List.getElem_mem ht)
    exact ⟨hmem.2.lt, hmem.1⟩

/-- with the regulariser on, `±1` signs and `PivotOKrp`, the pivot step never reports `ZeroPivot` -/
theorem finishPivot_not_zero (rp : RegParams α) (k : Nat) (s : FState α) (hD : k < s.D.size)
    (hen : rp.enable = true) (hS : k < rp.Dsigns.size) (hI : k < s.Dinv.size)
    (hsg : ∀ sg ∈ rp.Dsigns.toList, sg = 1 ∨ sg = -1) (hp : PivotOKrp rp.eps rp.delta) :
    finishPivot rp k s ≠ .error errZeroPivot := by
  rw [finishPivot_eq rp k s hD (fun _ => hS) hI]
  have hmem : rp.Dsigns.getD k 0 ∈ rp.Dsigns.toList := by
    rw [getD_of_lt _ _ _ hS]; simp
  have := hp (rp.Dsigns.getD k 0) (s.D.getD k 0) (hsg _ hmem)
  simp only [hen, this, Bool.false_eq_true, ↓reduceIte]
  intro h; cases h

/-- [S] **`_factor_inner` (numeric mode) is total** on a valid pattern when the regulariser is on
with `±1` signs and parameters satisfying `PivotOKrp`; the output is a strictly lower triangular
CSC matrix in the incoming `Li/Lx` buffers, `D`/`Dinv` keep their length -/
theorem factorInner_ok (C : FCtx n Ap Ai etree Lnz) (Ax : Array α) (a : Nat → Nat → α)
    (hR : Represents n Ap Ai Ax a) (Li : Array Nat) (Lx D Dinv : Array α)
    (hLi : LpOf Lnz n ≤ Li.size) (hLx : Lx.size = Li.size) (hDs : D.size = n) (hDi : Dinv.size = n)
    (rp : RegParams α) (hen : rp.enable = true) (hsz : n ≤ rp.Dsigns.size)
    (hsg : ∀ sg ∈ rp.Dsigns.toList, sg = 1 ∨ sg = -1) (hp : PivotOKrp rp.eps rp.delta) :
    ∃ s, factorInner n Ap Ai Ax Li Lx D Dinv Lnz etree false rp = .ok s ∧
      RowInv Ap Ai Lnz n n Li.size s := by
  have hn := C.hn
  have hunfold := factorInner_unfold C Ax a hR Li Lx D Dinv hDs hDi rp
  have hI1 := rowInv_init C Li Lx Dinv hLx hDi rp (a 0 0)
  have hsz0 : 0 < (initState Lnz n Li Lx Dinv (a 0 0)).D.size := by
    show 0 < ((Array.replicate n (0 : α)).setIfInBounds 0 (a 0 0)).size
    simpa using hn
  have hdi0 : 0 < (initState Lnz n Li Lx Dinv (a 0 0)).Dinv.size := by show 0 < Dinv.size; omega
  have hpiv0 := finishPivot_cases rp 0 (initState Lnz n Li Lx Dinv (a 0 0)) hsz0
    (fun _ => by omega) hdi0
  have hnz0 := finishPivot_not_zero rp 0 (initState Lnz n Li Lx Dinv (a 0 0)) hsz0 hen (by omega) hdi0 hsg hp
  rcases hpiv0 with h | ⟨h, _⟩
  · exact absurd h hnz0
  rw [hunfold, h]
  have hrow : ∀ i, i < n - 1 → ∀ s, RowInv Ap Ai Lnz n (1 + i) Li.size s →
      ∃ s', factorRow n Ap Ai Ax etree false rp s (1 + i) = .ok s' ∧
        RowInv Ap Ai Lnz n (1 + (i + 1)) Li.size s' := by
    intro i hi s hI
    obtain ⟨s1, yIdx, hO, hP, hM0, hM2, hrun⟩ :=
      factorRow_eq C Ax a hR Li.size hLi rp (1 + i) (by omega) s hI
    rw [hrun]
    have hd : 1 + i < (yIdx.reverse.foldl (rowElimP (1 + i)) s1).D.size := by rw [hM2.dsz]; omega
    have hdi : 1 + i < (yIdx.reverse.foldl (rowElimP (1 + i)) s1).Dinv.size := by rw [hM2.disz]; omega
    rcases finishPivot_cases rp (1 + i) (yIdx.reverse.foldl (rowElimP (1 + i)) s1) hd
      (fun _ => by omega) hdi with h | ⟨h, hz⟩
    · exact absurd h (finishPivot_not_zero rp (1 + i) _ hd hen (by omega) hdi hsg hp)
    · refine ⟨_, h, ?_⟩
      rw [show 1 + (i + 1) = 1 + i + 1 by omega]
      exact rowInv_next (a := a) (etree := etree) Li.size (1 + i) (by omega) s hI s1 yIdx _ hO hP _ hM2 _ _ _ _
  obtain ⟨s, hs, hIs⟩ := foldlM_range_inv (fun s i => factorRow n Ap Ai Ax etree false rp s (1 + i))
    (fun i s => RowInv Ap Ai Lnz n (1 + i) Li.size s) (n - 1) _ hI1 hrow
  rw [show 1 + (n - 1) = n by omega] at hIs
  exact ⟨s, hs, hIs⟩

end factor

/-- [S] **`refactor` is total on `QInv` (never `ZeroPivot`) and establishes `QInvS`** -/
theorem qdldl_refactor_ok {N nnz : Nat} {F : Qdldl.Factorisation α} (h : QInv N nnz F) :
    ∃ F', Qdldl.refactor F = .ok F' ∧ QInvS N nnz F' := by
  obtain ⟨es, hes, hE, hL⟩ := h.etree
  obtain ⟨es', hes', hI⟩ := etree_spec N F.triuA.colptr F.triuA.rowval h.tri
  have : es' = es := by rw [hes'] at hes; exact Except.ok.inj hes
  subst this
  have C : FCtx N F.triuA.colptr F.triuA.rowval F.etree F.Lnz := by
    rw [hE, hL]; exact FCtx.of_etree h.npos h.tri hI
  have hR := represents_denseOf N F.triuA.colptr F.triuA.rowval F.triuA.nzval h.nzsz h.nodup
  obtain ⟨s, hs, hRI⟩ := factorInner_ok C F.triuA.nzval _ hR F.L.rowval F.L.nzval F.D F.Dinv h.Lrow h.Lval
    h.D h.Dinv F.rp h.enable (Nat.le_of_eq h.signs_size.symm) h.signs h.pivot
  have hlow := lowerCsc_of_rowInv' C F.L.rowval.size h.Lrow s hRI
  refine ⟨{ F with
    isSymbolic := false
    L := { F.L with colptr := s.Lp, rowval := s.Li, nzval := s.Lx },
    D := s.D, Dinv := s.Dinv, positiveInertia := s.positive, regularizeCount := s.regularizeCount }, ?_, ?_⟩
  · unfold Qdldl.refactor
    rw [factor_false_eq]
    show Except.map _ (factorInner F.triuA.n F.triuA.colptr F.triuA.rowval F.triuA.nzval F.L.rowval
      F.L.nzval F.D F.Dinv F.Lnz F.etree false F.rp) = _
    rw [h.triu_n, hs]
    rfl
  · exact
      { inv :=
          { npos := h.npos, triu_n := h.triu_n, tri := h.tri, nodup := h.nodup, nzsz := h.nzsz,
            map_size := h.map_size, map_lt := h.map_lt, etree := h.etree
            Lrow := by show _ ≤ s.Li.size; rw [hRI.lisz]; exact h.Lrow
            Lval := by show s.Lx.size = s.Li.size; rw [hRI.lisz, hRI.lxsz]
            D := hRI.dsz, Dinv := hRI.disz
            perm_size := h.perm_size, perm_nodup := h.perm_nodup, perm_lt := h.perm_lt,
            enable := h.enable, signs_size := h.signs_size, signs := h.signs, pivot := h.pivot }
        numeric := rfl
        lower := hlow }

end

end Clarabel.Solver
