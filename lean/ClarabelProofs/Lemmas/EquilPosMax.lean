/-
  C10, positivity with `0 < max` ALONE (no condition on `equilibrate_min_scaling`: zero,
  negative or above `max` are all accepted by `validate()`):  the step of a pass is
  `clip(1/√norm, min/d, max/d)` with `norm > 0` (all-zero rows/columns are given norm 1), so it is
  positive as soon as `√` maps positive numbers to positive numbers (true of `Real.sqrt` and of
  IEEE `sqrt`) and `max/d > 0`.
-/
import ClarabelProofs.Lemmas.EquilSettings
import ClarabelProofs.Lemmas.EquilZeroP

namespace Clarabel.Equil
variable {α : Type} [Field α] [LinearOrder α] [IsStrictOrderedRing α] [FloatLike α] [LawfulFloatLike α]

omit [FloatLike α] [LawfulFloatLike α] [IsStrictOrderedRing α] in
/-- a positive value clipped to a range with positive upper end stays positive -/
theorem clip_pos_of_pos (w lo hi : α) (hw : 0 < w) (hhi : 0 < hi) : 0 < Vec.clip w lo hi := by
  unfold Vec.clip
  split
  · rename_i h; exact lt_trans hw h
  · split
    · exact hhi
    · exact hw

/-- all entries nonnegative -/
def NonnegV (x : Array α) : Prop := ∀ j, 0 ≤ x.getD j 0

theorem foldl_bump_nonneg (L : List (Nat × Nat × α)) (g : Nat × Nat × α → Nat) (ns : Array α)
    (h0 : NonnegV ns) : NonnegV (L.foldl (fun ns e => bump ns (g e) (fabs e.2.2)) ns) := by
  induction L generalizing ns with
  | nil => exact h0
  | cons e r ih =>
    simp only [List.foldl_cons]
    exact ih _ (fun j => getD_bump_nonneg _ _ _ _ (h0 j))

omit [LinearOrder α] [IsStrictOrderedRing α] [FloatLike α] [LawfulFloatLike α] in
theorem getD_map_zero (w : Array α) (j : Nat) : (w.map (fun _ => (0:α))).getD j 0 = 0 := by
  by_cases hj : j < w.size <;> simp [Array.getD, hj]

theorem nonnegV_rowNorms (M : Csc α) (w : Array α) : NonnegV (rowNorms M w) := by
  unfold rowNorms
  exact foldl_bump_nonneg _ (fun e => e.1) _ (fun j => by rw [getD_map_zero])

theorem nonnegV_colNorms (M : Csc α) (w : Array α) : NonnegV (colNorms M w) := by
  unfold colNorms colNormsNoReset
  exact foldl_bump_nonneg _ (fun e => e.2.1) _ (fun j => by rw [getD_map_zero])

theorem nonnegV_kktColNorms (P A : Csc α) (w w' : Array α) : NonnegV (kktColNorms P A w w').1 := by
  unfold kktColNorms colNormsNoReset
  exact foldl_bump_nonneg _ (fun e => e.2.1) _ (fun j => colNormsSym_nonneg P w j)

/-- `1/√(norm or 1)` is positive -/
theorem posV_rsqrt_unzero (hsq : ∀ x : α, 0 < x → 0 < sqrt x) (w : Array α) (h : NonnegV w) :
    PosV (Vec.rsqrt (unzero w)) := by
  intro j hj
  have hj' : j < w.size := by simpa [Vec.rsqrt, unzero] using hj
  have h0 : 0 ≤ w[j] := by simpa [Array.getD, hj'] using h j
  have : (Vec.rsqrt (unzero w)).getD j 1 = 1 / sqrt (if w[j] == 0 then 1 else w[j]) := by
    simp [Vec.rsqrt, unzero, Array.getD, hj']
  rw [this]
  apply one_div_pos.mpr
  apply hsq
  by_cases hz : w[j] = 0
  · simp [hz]
  · simp only [beq_iff_eq, hz, ↓reduceIte]
    exact lt_of_le_of_ne h0 (Ne.symm hz)

omit [FloatLike α] [LawfulFloatLike α] in
theorem posV_hadamard_clipWork_hi (lo hi : α) (hhi : 0 < hi) (d w : Array α) (h : PosV d) (hw : PosV w) :
    PosV (hadamardInPlace d (clipWork w d lo hi)) := by
  intro j hj
  rw [size_hadamardInPlace] at hj
  rw [getD_hadamardInPlace _ _ _ _ hj]
  have hd := h j hj
  by_cases hjw : j < w.size
  · rw [getD_clipWork _ _ _ _ _ hjw hj]
    exact mul_pos hd (clip_pos_of_pos _ _ _ (hw j hjw) (div_pos hhi hd))
  · rw [getD_clipWork_out _ _ _ _ _ hjw, mul_one]; exact hd

/-! the cost factor -/

theorem normInf_nonneg (x : Array α) : 0 ≤ Vec.normInf x := by
  have key : ∀ (l : List α) (acc : α), 0 ≤ acc →
      0 ≤ l.foldl (fun acc v => if FloatLike.isNaN acc then acc
        else if FloatLike.isNaN v then v else fmax acc (fabs v)) acc := by
    intro l
    induction l with
    | nil => intro acc h; exact h
    | cons a t ih =>
      intro acc hacc
      rw [List.foldl_cons]
      apply ih
      simp only [LawfulFloatLike.isNaN_eq, Bool.false_eq_true, ↓reduceIte, LawfulFloatLike.fmax_eq]
      exact le_max_of_le_left hacc
  exact key _ 0 le_rfl

theorem mean_nonneg (x : Array α) (h : NonnegV x) : 0 ≤ Vec.mean x := by
  unfold Vec.mean
  split
  · exact le_rfl
  · rename_i hne
    have hsum : 0 ≤ Vec.sum x := by
      unfold Vec.sum
      have key : ∀ (l : List α), (∀ v ∈ l, 0 ≤ v) → ∀ acc : α, 0 ≤ acc →
          0 ≤ l.foldl (fun acc v => acc + v) acc := by
        intro l
        induction l with
        | nil => intro _ acc h; exact h
        | cons a t ih =>
          intro hl acc hacc
          rw [List.foldl_cons]
          exact ih (fun v hv => hl v (by simp [hv])) _ (add_nonneg hacc (hl a (by simp)))
      apply key _ _ 0 le_rfl
      intro v hv
      obtain ⟨i, hi, rfl⟩ := List.mem_iff_getElem.mp hv
      have hi2 : i < x.size := by simpa using hi
      have := h i
      simpa [Array.getD, hi2] using this
    apply div_nonneg hsum
    rw [LawfulFloatLike.ofNat_eq]
    exact Nat.cast_nonneg _

/-- the cost scaling of one pass: unchanged, or multiplied by `clip(w, ·, max/c)` with `w > 0` -/
theorem ruizStep_c_pos (s : Settings α) (dt : ProblemData α) :
    (ruizStep s dt).equilibration.c = dt.equilibration.c ∨
    ∃ w, 0 < w ∧ (ruizStep s dt).equilibration.c =
      dt.equilibration.c * Vec.clip w (s.minScaling / dt.equilibration.c) (s.maxScaling / dt.equilibration.c) := by
  unfold ruizStep applyCost costScaling
  simp only []
  split
  · rename_i ct hct
    split at hct
    · rename_i hguard
      simp only [Option.some.injEq] at hct
      subst hct
      refine Or.inr ⟨_, ?_, rfl⟩
      simp only [Bool.and_eq_true, Bool.not_eq_eq_eq_not, Bool.not_true, beq_eq_false_iff_ne, ne_eq] at hguard
      apply one_div_pos.mpr
      rw [LawfulFloatLike.fmax_eq]
      exact lt_max_of_lt_left (lt_of_le_of_ne (normInf_nonneg _) (Ne.symm hguard.2))
    · simp at hct
  · left; rfl

theorem Pos.ruizStep_hi {dt : ProblemData α} (h : Pos dt) (s : Settings α)
    (hsq : ∀ x : α, 0 < x → 0 < sqrt x) (hhi : 0 < s.maxScaling) : Pos (Equil.ruizStep s dt) := by
  refine ⟨?_, ?_, ?_, ?_, ?_⟩
  · rw [ruizStep_d]
    exact posV_hadamard_clipWork_hi _ _ hhi _ _ h.d (posV_rsqrt_unzero hsq _ (nonnegV_kktColNorms dt.P dt.A dt.equilibration.dinv dt.equilibration.einv))
  · rw [ruizStep_e]
    exact posV_hadamard_clipWork_hi _ _ hhi _ _ h.e (posV_rsqrt_unzero hsq _ (nonnegV_rowNorms _ _))
  · rcases ruizStep_c_pos s dt with hc | ⟨w, hw, hc⟩
    · rw [hc]; exact h.c
    · rw [hc]; exact mul_pos h.c (clip_pos_of_pos _ _ _ hw (div_pos hhi h.c))
  · rw [ruizStep_dinv_size, ruizStep_d, size_hadamardInPlace]; exact h.szd
  · rw [ruizStep_einv, (size_stepScalings s dt).2, ruizStep_e, size_hadamardInPlace]; exact h.sze

theorem Pos.ruizLoop_hi {dt : ProblemData α} (h : Pos dt) (s : Settings α)
    (hsq : ∀ x : α, 0 < x → 0 < sqrt x) (hhi : 0 < s.maxScaling) (k : Nat) : Pos (Equil.ruizLoop s k dt) := by
  induction k generalizing dt with
  | zero => exact h
  | succ k ih => exact ih (h.ruizStep_hi s hsq hhi)

end Clarabel.Equil
