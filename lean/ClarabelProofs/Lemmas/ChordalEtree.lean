/-
  The symbolic factor `L` as the input of the chordal analysis
  (`ClarabelModel/Chordal/SuperNode.lean`; Rust `supernode_tree.rs`):

  * `LPat.Filled` : the structural (decidable) predicate "`L` is the strict lower triangle of a
    connected, filled (symbolic Cholesky) pattern with sorted columns":
    column `v`'s rows minus its first row `p` (the elimination-tree parent) lie in column `p`.
  * `parent_from_L_spec`, `higher_degree_spec`, `find_higher_order_neighbors_spec`,
    `find_separators_spec` : the four readers of `L` do not panic on a filled pattern and return
    the elimination-tree parent (`parent v > v`, single root `n-1`), the column counts, the
    column and `col(min sn) \ sn`.
  * `Filled.col_clique` : in a filled pattern `{v} ∪ col v` is a clique.
  * `SnodeOf` / `snode_cover` : a supernode in the sense of Pothen–Sun (every member but the
    representative has a child in the supernode whose column count is one larger) is a chain
    of the elimination tree, and `sn ∪ (col(rep) \ sn)` is a clique containing the whole
    column of each of its members (coverage).
-/
import ClarabelModel.Chordal.Filled
import ClarabelProofs.Lemmas.ChordalPostOrder
import Mathlib.Data.List.Nodup
import Mathlib.Data.List.Perm.Subperm

namespace Clarabel.Chordal

/-! ### reads and writes in `MErr` -/

theorem getE_ok' {β : Type} (xs : Array β) (i : Nat) (s : String) (d : β)
    (h : i < xs.size) : getE xs i s = .ok (xs.getD i d) := by
  unfold getE
  simp [h, Array.getD, pure, Except.pure]

theorem setE_ok' {β : Type} (xs : Array β) (i : Nat) (v : β) (s : String)
    (h : i < xs.size) : setE xs i v s = .ok (xs.setIfInBounds i v) := by
  unfold setE
  simp [h, Array.setIfInBounds, pure, Except.pure]

theorem getD_set_self' {β : Type} (xs : Array β) (i : Nat) (v d : β) (h : i < xs.size) :
    (xs.setIfInBounds i v).getD i d = v := by
  simp [Array.getD_eq_getD_getElem?, h]

theorem getD_set_ne' {β : Type} (xs : Array β) (i j : Nat) (v d : β) (h : i ≠ j) :
    (xs.setIfInBounds i v).getD j d = xs.getD j d := by
  simp [Array.getD_eq_getD_getElem?, h]

theorem ok_bind' {α β : Type} (a : α) (f : α → MErr β) :
    ((Except.ok a : MErr α) >>= f) = f a := rfl

/-! ### columns of `L` -/

/-- `L` is the strict lower triangle of a connected filled pattern with sorted columns.
Every clause is a bounded quantification over indices / list members (decidable). -/
structure LPat.Filled (L : LPat) : Prop where
  n_pos : 0 < L.n
  n_small : L.n < inactiveNode
  colptr_size : L.colptr.size = L.n + 1
  mono : ∀ v, v < L.n → L.colptr.getD v 0 ≤ L.colptr.getD (v + 1) 0
  last : L.colptr.getD L.n 0 ≤ L.rowval.size
  /-- strictly lower triangular, rows in range -/
  lower : ∀ v, v < L.n → ∀ r ∈ L.col v, v < r ∧ r < L.n
  /-- columns are sorted (strictly: no repeated entry) -/
  sorted : ∀ v, v < L.n → (L.col v).Pairwise (· < ·)
  /-- `connect_graph`: every column but the last has an entry -/
  connected : ∀ v, v + 1 < L.n → L.col v ≠ []
  /-- the closure property of a filled pattern: `col v \ {parent v} ⊆ col (parent v)` -/
  closure : ∀ v, v + 1 < L.n → ∀ r ∈ L.col v, r ≠ L.par v → r ∈ L.col (L.par v)

namespace LPat.Filled
variable {L : LPat}

/-- [S] every column pointer is at most the last one -/
theorem colptr_le_last (h : L.Filled) : ∀ v, v ≤ L.n → L.colptr.getD v 0 ≤ L.colptr.getD L.n 0 := by
  intro v hv
  obtain ⟨k, hk⟩ : ∃ k, L.n = v + k := ⟨L.n - v, by omega⟩
  induction k generalizing v with
  | zero => simp at hk; subst hk; exact Nat.le_refl _
  | succ k ih =>
    have := ih (v + 1) (by omega) (by omega)
    have := h.mono v (by omega)
    omega

/-- [S] the slice of column `v` is inside `rowval` -/
theorem slice (h : L.Filled) {v : Nat} (hv : v < L.n) :
    L.colptr.getD v 0 ≤ L.colptr.getD (v + 1) 0 ∧ L.colptr.getD (v + 1) 0 ≤ L.rowval.size :=
  ⟨h.mono v hv, Nat.le_trans (h.colptr_le_last (v + 1) hv) h.last⟩

/-- [S] length of a column -/
theorem col_length (h : L.Filled) {v : Nat} (hv : v < L.n) :
    (L.col v).length = L.colptr.getD (v + 1) 0 - L.colptr.getD v 0 := by
  have := h.slice hv
  unfold LPat.col
  rw [Array.length_toList, Array.size_extract]
  omega

/-- [S] a non-empty column starts with `rowval[colptr[v]]` -/
theorem par_eq (h : L.Filled) {v : Nat} (hv : v < L.n) (hne : L.col v ≠ []) :
    L.colptr.getD v 0 < L.rowval.size ∧ L.par v = L.rowval.getD (L.colptr.getD v 0) 0 := by
  have hs := h.slice hv
  have hl := h.col_length hv
  have hpos : 0 < (L.col v).length := List.length_pos_iff.2 hne
  have hlt : L.colptr.getD v 0 < L.rowval.size := by omega
  refine ⟨hlt, ?_⟩
  have key : ∀ (l : List Nat) (hl : 0 < l.length), l.headD 0 = l[0] := by
    intro l hl
    cases l with
    | nil => simp at hl
    | cons a t => simp
  unfold LPat.par
  rw [key _ hpos]
  have e : ∀ (xs : Array Nat) (lo hi : Nat) (_ : lo < xs.size)
      (hh : 0 < (xs.extract lo hi).toList.length), (xs.extract lo hi).toList[0] = xs.getD lo 0 := by
    intro xs lo hi hlt hh
    simp only [Array.getElem_toList, Array.getElem_extract, Nat.add_zero]
    simp [Array.getD_eq_getD_getElem?, hlt]
  exact e _ _ _ hlt hpos

/-- [S] the parent of `v` is a member of column `v` -/
theorem par_mem (_h : L.Filled) {v : Nat} (hne : L.col v ≠ []) : L.par v ∈ L.col v := by
  unfold LPat.par
  cases hc : L.col v with
  | nil => exact absurd hc hne
  | cons a t => simp

/-- [S] `v < parent v < n` -/
theorem par_bounds (h : L.Filled) {v : Nat} (hv : v + 1 < L.n) : v < L.par v ∧ L.par v < L.n :=
  h.lower v (by omega) _ (h.par_mem (h.connected v hv))

/-- [S] the parent is the smallest row of the column -/
theorem par_le (h : L.Filled) {v : Nat} (hv : v < L.n) {r : Nat} (hr : r ∈ L.col v) :
    L.par v ≤ r := by
  have hs := h.sorted v hv
  unfold LPat.par
  cases hc : L.col v with
  | nil => rw [hc] at hr; simp at hr
  | cons a t =>
    rw [hc] at hr hs
    simp only [List.headD_cons]
    rcases List.mem_cons.1 hr with rfl | hr
    · exact Nat.le_refl _
    · exact Nat.le_of_lt (List.rel_of_pairwise_cons hs hr)

/-- [S] columns have no repeated entry -/
theorem col_nodup (h : L.Filled) {v : Nat} (hv : v < L.n) : (L.col v).Nodup :=
  (h.sorted v hv).imp (fun hab => Nat.ne_of_lt hab)

end LPat.Filled

/-! ### the executable test of `Filled` -/

/-- [S] the executable test `filledB` decides `Filled` -/
theorem LPat.filledB_iff (L : LPat) : L.filledB = true ↔ L.Filled := by
  unfold LPat.filledB
  simp only [Bool.and_eq_true, decide_eq_true_eq, List.all_eq_true, List.mem_range]
  constructor
  · rintro ⟨⟨⟨⟨⟨⟨⟨⟨h1, h2⟩, h3⟩, h4⟩, h5⟩, h6⟩, h7⟩, h8⟩, h9⟩
    exact ⟨h1, h2, h3, h4, h5, h6, h7, fun v hv => h8 v (by omega) hv,
      fun v hv => h9 v (by omega) hv⟩
  · intro h
    exact ⟨⟨⟨⟨⟨⟨⟨⟨h.n_pos, h.n_small⟩, h.colptr_size⟩, h.mono⟩, h.last⟩, h.lower⟩, h.sorted⟩,
      fun v _ hv => h.connected v hv⟩, fun v _ hv => h.closure v hv⟩

instance (L : LPat) : Decidable L.Filled := decidable_of_iff _ L.filledB_iff

/-- [S] the executable test `edgesInB` implies: every pattern entry (original coordinates) is an
entry of `L` at the positions of its endpoints in `ordering` -/
theorem LPat.edgesInB_sound (L : LPat) (ordering : Array Nat) (edges : List (Nat × Nat))
    (h : L.edgesInB ordering edges = true) :
    ∀ e ∈ edges, ∃ a b, a < L.n ∧ b < L.n ∧ ordering[a]? = some e.1 ∧ ordering[b]? = some e.2 ∧
      (b ∈ L.col a ∨ a ∈ L.col b) := by
  unfold LPat.edgesInB at h
  rw [List.all_eq_true] at h
  intro e he
  have := h e he
  simp only [Bool.and_eq_true, decide_eq_true_eq, Bool.or_eq_true, List.contains_iff_mem] at this
  obtain ⟨⟨⟨⟨ha, hb⟩, ha'⟩, hb'⟩, hc⟩ := this
  have hget : ∀ x, ordering.toList.idxOf x < ordering.size →
      ordering[ordering.toList.idxOf x]? = some x := by
    intro x hx
    have hx' : ordering.toList.idxOf x < ordering.toList.length := by simpa using hx
    rw [Array.getElem?_eq_getElem hx]
    congr 1
    exact List.getElem_idxOf hx'
  exact ⟨_, _, ha, hb, hget _ ha', hget _ hb', hc⟩

/-! ### `parent_from_L` -/

/-- the elimination-tree parent read off `L`: first row of the column, `NO_PARENT` for the
last vertex -/
def LPat.eparent (L : LPat) (v : Nat) : Nat := if v + 1 = L.n then noParent else L.par v

/-- [S] `find_parent_direct` on a filled pattern -/
theorem find_parent_direct_ok {L : LPat} (h : L.Filled) {v : Nat} (hv : v < L.n) :
    findParentDirect L v = .ok (L.eparent v) := by
  unfold findParentDirect LPat.eparent
  have hn0 : ¬ L.n = 0 := by have := h.n_pos; omega
  simp only [hn0, if_false]
  by_cases hlast : v + 1 = L.n
  · have : (v == L.n - 1) = true := by simp; omega
    simp only [this, if_true, hlast]
    rfl
  · have : (v == L.n - 1) = false := by simp; omega
    simp only [this, Bool.false_eq_true, if_false, hlast]
    have hne := h.connected v (by omega)
    obtain ⟨hlt, hpar⟩ := h.par_eq hv hne
    rw [getE_ok' L.colptr v _ 0 (by rw [h.colptr_size]; omega), ok_bind',
      getE_ok' L.rowval _ _ 0 hlt, hpar]

/-- [S] a `push` loop whose body never fails computes the `map` -/
theorem foldlM_push_ok {β : Type} (f : Nat → MErr β) (g : Nat → β) :
    ∀ (l : List Nat) (acc : Array β), (∀ i ∈ l, f i = .ok (g i)) →
      l.foldlM (fun (acc : Array β) i => do
        let p ← f i
        pure (acc.push p)) acc = .ok (acc ++ (l.map g).toArray) := by
  intro l
  induction l with
  | nil => intro acc _; simp [pure, Except.pure]
  | cons a l ih =>
    intro acc hf
    rw [List.foldlM_cons, hf a (List.mem_cons_self ..)]
    show List.foldlM _ (acc.push (g a)) l = _
    rw [ih _ (fun i hi => hf i (List.mem_cons_of_mem _ hi))]
    simp

/-- the elimination tree of a filled pattern: the parent of every vertex but the last is a
larger vertex, the last vertex is the root -/
structure EtreeParent (parent : Array Nat) (n : Nat) : Prop where
  n_pos : 0 < n
  n_small : n < inactiveNode
  size_eq : parent.size = n
  up : ∀ v, v + 1 < n → v < parent.getD v 0 ∧ parent.getD v 0 < n
  root : parent.getD (n - 1) 0 = noParent

/-- [S] `parent_from_L` on a filled pattern: no panic; `parent[v]` is the first (= smallest) row
of column `v`, which is larger than `v`; the last vertex is the only root. -/
theorem parent_from_L_spec {L : LPat} (h : L.Filled) :
    ∃ parent, parentFromL L = .ok parent ∧ EtreeParent parent L.n ∧
      (∀ v, v < L.n → parent.getD v 0 = L.eparent v) ∧
      (∀ v, v + 1 < L.n → parent.getD v 0 = L.par v) := by
  have hf := foldlM_push_ok (findParentDirect L) L.eparent (List.range L.n) #[]
    (fun i hi => find_parent_direct_ok h (List.mem_range.1 hi))
  have hget : ∀ v, v < L.n →
      (#[] ++ ((List.range L.n).map L.eparent).toArray).getD v 0 = L.eparent v := by
    intro v hv
    simp [Array.getD_eq_getD_getElem?, hv]
  refine ⟨_, hf, ⟨h.n_pos, h.n_small, by simp, ?_, ?_⟩, hget, ?_⟩
  · intro v hv
    rw [hget v (by omega)]
    unfold LPat.eparent
    rw [if_neg (by omega)]
    exact h.par_bounds hv
  · rw [hget _ (by have := h.n_pos; omega)]
    unfold LPat.eparent
    rw [if_pos (by have := h.n_pos; omega)]
  · intro v hv
    rw [hget v (by omega)]
    unfold LPat.eparent
    rw [if_neg (by omega)]

namespace EtreeParent
variable {parent : Array Nat} {n : Nat}

/-- [S] an in-range vertex is never a marker -/
theorem lt_noParent (h : EtreeParent parent n) {v : Nat} (hv : v < n) : v < noParent := by
  have := h.n_small
  have : inactiveNode < noParent := by decide
  omega

/-- [S] the hypothesis of `children_from_parent_spec` -/
theorem wf (h : EtreeParent parent n) :
    ∀ i, i < parent.size → parent.getD i 0 = noParent ∨ parent.getD i 0 < parent.size := by
  intro i hi
  rw [h.size_eq] at hi ⊢
  by_cases hl : i + 1 < n
  · exact Or.inr (h.up i hl).2
  · have : i = n - 1 := by omega
    subst this
    exact Or.inl h.root

/-- [S] the first (and only) root is the last vertex -/
theorem findIdx_root (h : EtreeParent parent n) :
    parent.toList.findIdx? (· == noParent) = some (n - 1) := by
  rw [List.findIdx?_eq_some_iff_getElem]
  have hsz : parent.toList.length = n := by simp [h.size_eq]
  have hn := h.n_pos
  refine ⟨by omega, ?_, ?_⟩
  · have := h.root
    simp only [Array.getD_eq_getD_getElem?] at this
    have hlt : n - 1 < parent.size := by rw [h.size_eq]; omega
    simp [hlt] at this
    simpa using this
  · intro j hj
    have hu := h.up j (by omega)
    have hlt : j < parent.size := by rw [h.size_eq]; omega
    have e : parent.getD j 0 = parent.toList[j] := by
      simp [Array.getD_eq_getD_getElem?, hlt]
    rw [← e]
    have := h.lt_noParent hu.2
    simp only [beq_iff_eq]
    omega

/-- [S] every vertex reaches the root `n - 1` -/
theorem reaches_root (h : EtreeParent parent n) : ∀ v, v < n → Reaches parent (n - 1) v := by
  have aux : ∀ k v, v < n → n - 1 = v + k → Reaches parent (n - 1) v := by
    intro k
    induction k using Nat.strongRecOn with
    | _ k ih =>
      intro v hv hk
      by_cases h0 : k = 0
      · have : v = n - 1 := by omega
        subst this; exact Reaches.root
      · have hu := h.up v (by omega)
        refine Reaches.step (by rw [h.size_eq]; exact hv) ?_
        exact ih (n - 1 - parent.getD v 0) (by omega) _ hu.2 (by omega)
  intro v hv
  exact aux (n - 1 - v) v hv (by omega)

end EtreeParent

/-! ### `higher_degree`, `find_higher_order_neighbors` -/

/-- the body of the loop of `higher_degree` -/
private def hdStep (L : LPat) (deg : Array Nat) (v : Nat) : MErr (Array Nat) := do
  let lo ← getE L.colptr v "higher_degree"
  let hi ← getE L.colptr (v + 1) "higher_degree"
  if hi < lo then throw (.panic "higher_degree: underflow") else
  setE deg v (hi - lo) "higher_degree"

private theorem hd_fold {L : LPat} (h : L.Filled) :
    ∀ k, k + 1 ≤ L.n →
      ∃ deg, (List.range k).foldlM (hdStep L) (Array.replicate L.n 0) = .ok deg ∧
        deg.size = L.n ∧ (∀ v, v < k → deg.getD v 0 = (L.col v).length) ∧
        (∀ v, k ≤ v → deg.getD v 0 = 0) := by
  intro k
  induction k with
  | zero =>
    intro _
    refine ⟨_, rfl, by simp, by intro v hv; omega, ?_⟩
    intro v _
    by_cases hv : v < L.n
    · simp [Array.getD_eq_getD_getElem?, hv]
    · simp [Array.getD_eq_getD_getElem?, hv]
  | succ k ih =>
    intro hk
    obtain ⟨deg, hf, hsz, h1, h2⟩ := ih (by omega)
    rw [List.range_succ, List.foldlM_append, hf]
    simp only [bind, Except.bind, List.foldlM_cons, List.foldlM_nil]
    have hs := h.slice (v := k) (by omega)
    have hstep : hdStep L deg k = .ok (deg.setIfInBounds k (L.col k).length) := by
      unfold hdStep
      rw [getE_ok' L.colptr k _ 0 (by rw [h.colptr_size]; omega), ok_bind',
        getE_ok' L.colptr (k + 1) _ 0 (by rw [h.colptr_size]; omega), ok_bind']
      rw [if_neg (by omega), setE_ok' _ _ _ _ (by omega), h.col_length (by omega)]
    refine ⟨_, by rw [hstep]; rfl, by simpa using hsz, ?_, ?_⟩
    · intro v hv
      by_cases e : v = k
      · subst e; rw [getD_set_self' _ _ _ _ (by omega)]
      · rw [getD_set_ne' _ _ _ _ _ (Ne.symm e)]; exact h1 v (by omega)
    · intro v hv
      rw [getD_set_ne' _ _ _ _ _ (by omega)]; exact h2 v (by omega)

/-- [S] `higher_degree` on a filled pattern: no panic (no `usize` underflow);
`degree[v] = |col v|` for `v < n-1` and `degree[n-1] = 0`. -/
theorem higher_degree_spec {L : LPat} (h : L.Filled) :
    ∃ deg, higherDegree L = .ok deg ∧ deg.size = L.n ∧
      (∀ v, v + 1 < L.n → deg.getD v 0 = (L.col v).length) ∧ deg.getD (L.n - 1) 0 = 0 := by
  have hn := h.n_pos
  obtain ⟨deg, hf, hsz, h1, h2⟩ := hd_fold h (L.n - 1) (by omega)
  refine ⟨deg, ?_, hsz, fun v hv => h1 v (by omega), h2 _ (Nat.le_refl _)⟩
  unfold higherDegree
  rw [if_neg (by omega)]
  exact hf

/-- [S] `find_higher_order_neighbors` returns the column -/
theorem find_higher_order_neighbors_spec {L : LPat} (h : L.Filled) {v : Nat} (hv : v < L.n) :
    findHigherOrderNeighbors L v = .ok (L.col v) := by
  have hs := h.slice hv
  unfold findHigherOrderNeighbors
  rw [getE_ok' L.colptr v _ 0 (by rw [h.colptr_size]; omega), ok_bind',
    getE_ok' L.colptr (v + 1) _ 0 (by rw [h.colptr_size]; omega), ok_bind']
  rw [if_neg (by omega)]
  rfl

/-! ### `find_separators` -/

/-- [S] a loop whose body pushes one value per element computes the `map` -/
theorem foldlM_push_step {ι β : Type} (body : Array β → ι → MErr (Array β)) (g : ι → β) :
    ∀ (l : List ι) (acc : Array β), (∀ acc, ∀ x ∈ l, body acc x = .ok (acc.push (g x))) →
      l.foldlM body acc = .ok (acc ++ (l.map g).toArray) := by
  intro l
  induction l with
  | nil => intro acc _; simp [pure, Except.pure]
  | cons a l ih =>
    intro acc hf
    rw [List.foldlM_cons, hf acc a (List.mem_cons_self ..), ok_bind',
      ih _ (fun acc x hx => hf acc x (List.mem_cons_of_mem _ hx))]
    simp

/-- `*sn.iter().min().unwrap()` -/
def minOf (sn : VSet) : Nat :=
  match sn.toList with
  | [] => 0
  | a :: rest => rest.foldl Nat.min a

/-- the separator computed by `find_separators` for the supernode `sn` -/
def sepOf (L : LPat) (sn : VSet) : VSet :=
  (L.col (minOf sn)).foldl (fun (s : VSet) nb => if sn.contains nb then s else s.insert nb) #[]

private theorem foldl_min_le (l : List Nat) : ∀ a, l.foldl Nat.min a ≤ a ∧
    (∀ x ∈ l, l.foldl Nat.min a ≤ x) ∧ (l.foldl Nat.min a = a ∨ l.foldl Nat.min a ∈ l) := by
  induction l with
  | nil => intro a; simp
  | cons b l ih =>
    intro a
    obtain ⟨h1, h2, h3⟩ := ih (Nat.min a b)
    simp only [List.foldl_cons]
    have hm1 : Nat.min a b ≤ a := Nat.min_le_left a b
    have hm2 : Nat.min a b ≤ b := Nat.min_le_right a b
    refine ⟨by omega, ?_, ?_⟩
    · intro x hx
      rcases List.mem_cons.1 hx with rfl | hx
      · omega
      · exact h2 x hx
    · rcases h3 with h3 | h3
      · rcases Nat.le_total a b with hab | hab
        · left; rw [h3]; exact Nat.min_eq_left hab
        · right; rw [h3, show Nat.min a b = b from Nat.min_eq_right hab]; exact List.mem_cons_self ..
      · right; exact List.mem_cons_of_mem _ h3

theorem minOf_cons {sn : VSet} {a : Nat} {rest : List Nat} (hc : sn.toList = a :: rest) :
    minOf sn = rest.foldl Nat.min a := by
  unfold minOf
  rw [hc]

/-- [S] `minOf` is a member and a lower bound of a non-empty set -/
theorem minOf_spec (sn : VSet) (hne : sn.toList ≠ []) :
    minOf sn ∈ sn.toList ∧ ∀ x ∈ sn.toList, minOf sn ≤ x := by
  cases hc : sn.toList with
  | nil => exact absurd hc hne
  | cons a rest =>
    rw [minOf_cons hc]
    obtain ⟨h1, h2, h3⟩ := foldl_min_le rest a
    refine ⟨?_, ?_⟩
    · rcases h3 with h3 | h3
      · rw [h3]; exact List.mem_cons_self ..
      · exact List.mem_cons_of_mem _ h3
    · intro x hx
      rcases List.mem_cons.1 hx with rfl | hx
      · exact h1
      · exact h2 x hx

private theorem sep_fold (sn : VSet) (l : List Nat) : ∀ (s : VSet), s.toList.Nodup →
    (l.foldl (fun (s : VSet) nb => if sn.contains nb then s else s.insert nb) s).toList.Nodup ∧
    ∀ x, x ∈ (l.foldl (fun (s : VSet) nb => if sn.contains nb then s else s.insert nb) s).toList ↔
      x ∈ s.toList ∨ (x ∈ l ∧ x ∉ sn.toList) := by
  induction l with
  | nil => intro s hs; simp [hs]
  | cons b l ih =>
    intro s hs
    simp only [List.foldl_cons]
    by_cases hb : sn.contains b
    · simp only [hb, if_true]
      obtain ⟨h1, h2⟩ := ih s hs
      refine ⟨h1, fun x => ?_⟩
      rw [h2 x]
      have hbm : b ∈ sn.toList := by simpa using hb
      constructor
      · rintro (h | ⟨h, h'⟩)
        · exact Or.inl h
        · exact Or.inr ⟨List.mem_cons_of_mem _ h, h'⟩
      · rintro (h | ⟨h, h'⟩)
        · exact Or.inl h
        · rcases List.mem_cons.1 h with rfl | h
          · exact absurd hbm h'
          · exact Or.inr ⟨h, h'⟩
    · simp only [hb, Bool.false_eq_true, if_false]
      obtain ⟨h1, h2⟩ := ih (s.insert b) (VSet.nodup_insert _ _ hs)
      refine ⟨h1, fun x => ?_⟩
      rw [h2 x, VSet.mem_insert]
      have hbm : b ∉ sn.toList := by simpa using hb
      constructor
      · rintro ((h | rfl) | ⟨h, h'⟩)
        · exact Or.inl h
        · exact Or.inr ⟨List.mem_cons_self .., hbm⟩
        · exact Or.inr ⟨List.mem_cons_of_mem _ h, h'⟩
      · rintro (h | ⟨h, h'⟩)
        · exact Or.inl (Or.inl h)
        · rcases List.mem_cons.1 h with rfl | h
          · exact Or.inl (Or.inr rfl)
          · exact Or.inr ⟨h, h'⟩

/-- [S] the separator is the column of the representative minus the supernode -/
theorem mem_sepOf (L : LPat) (sn : VSet) (x : Nat) :
    x ∈ (sepOf L sn).toList ↔ x ∈ L.col (minOf sn) ∧ x ∉ sn.toList := by
  unfold sepOf
  rw [(sep_fold sn _ #[] (by simp)).2 x]
  simp

/-- [S] the separator has no repeated vertex -/
theorem nodup_sepOf (L : LPat) (sn : VSet) : (sepOf L sn).toList.Nodup :=
  (sep_fold sn _ #[] (by simp)).1

/-- [S] `find_separators` on a filled pattern and non-empty supernodes of in-range vertices:
no panic; the `i`-th separator is `col(min snode[i]) \ snode[i]` (higher adjacency of the
representative minus the supernode), without repetition. -/
theorem find_separators_spec {L : LPat} (h : L.Filled) (snode : Array VSet)
    (hsn : ∀ sn ∈ snode.toList, sn.toList ≠ [] ∧ ∀ v ∈ sn.toList, v < L.n) :
    findSeparators L snode = .ok (snode.map (sepOf L)) := by
  unfold findSeparators
  rw [foldlM_push_step _ (sepOf L) snode.toList #[]]
  · simp only [Array.empty_append]
    congr 1
    apply Array.ext'
    simp
  · intro acc sn hmem
    obtain ⟨hne, hlt⟩ := hsn sn hmem
    have hmin := minOf_spec sn hne
    have hfh := find_higher_order_neighbors_spec h (hlt _ hmin.1)
    unfold sepOf
    split
    · rename_i hnil; exact absurd hnil hne
    · rename_i a rest hc
      rw [minOf_cons hc] at hfh ⊢
      simp only []
      rw [hfh]
      rfl

/-! ### cliques of a filled pattern, supernodes, coverage -/

namespace LPat.Filled
variable {L : LPat}

/-- [S] the last column is empty -/
theorem col_last (h : L.Filled) : L.col (L.n - 1) = [] := by
  have hn := h.n_pos
  cases hc : L.col (L.n - 1) with
  | nil => rfl
  | cons a t =>
    have := h.lower (L.n - 1) (by omega) a (by rw [hc]; exact List.mem_cons_self ..)
    omega

/-- [S] a column with an entry is not the last one -/
theorem lt_of_mem_col (h : L.Filled) {v r : Nat} (hv : v < L.n) (hr : r ∈ L.col v) :
    v + 1 < L.n := by
  have := h.lower v hv r hr
  omega

/-- [S] a child `c` whose column count exceeds its parent's by one has
`col c = {parent c} ∪ col (parent c)` -/
theorem col_succ (h : L.Filled) {c : Nat} (hc : c + 1 < L.n)
    (hdeg : (L.col c).length = (L.col (L.par c)).length + 1) (r : Nat) :
    r ∈ L.col c ↔ r = L.par c ∨ r ∈ L.col (L.par c) := by
  have hcn : c < L.n := by omega
  have hnd := h.col_nodup hcn
  have hclos := h.closure c hc
  have hpb := h.par_bounds hc
  have hndp := h.col_nodup hpb.2
  have hne := h.connected c hc
  unfold LPat.par at hclos hdeg hndp ⊢
  cases hcol : L.col c with
  | nil => exact absurd hcol hne
  | cons p t =>
    rw [hcol] at hclos hnd hdeg hndp
    simp only [List.headD_cons] at hclos hdeg hndp ⊢
    have hpt : p ∉ t := (List.nodup_cons.1 hnd).1
    have hsub : t ⊆ L.col p := by
      intro x hx
      exact hclos x (List.mem_cons_of_mem _ hx) (fun e => hpt (e ▸ hx))
    have hperm : t.Perm (L.col p) :=
      (List.subperm_of_subset (List.nodup_cons.1 hnd).2 hsub).perm_of_length_le (by
        simp only [List.length_cons] at hdeg; omega)
    rw [List.mem_cons, hperm.mem_iff]

/-- [S] in a filled pattern `{v} ∪ col v` is a clique: two rows `x < y` of one column are
adjacent (`y ∈ col x`) -/
theorem col_clique (h : L.Filled) : ∀ v, v < L.n → ∀ x ∈ L.col v, ∀ y ∈ L.col v, x < y →
    y ∈ L.col x := by
  have aux : ∀ k v, v < L.n → L.n = v + k → ∀ x ∈ L.col v, ∀ y ∈ L.col v, x < y →
      y ∈ L.col x := by
    intro k
    induction k using Nat.strongRecOn with
    | _ k ih =>
      intro v hv hk x hx y hy hxy
      have hv1 := h.lt_of_mem_col hv hx
      have hpb := h.par_bounds hv1
      have hpx := h.par_le hv hx
      have hyp : y ≠ L.par v := by omega
      have hyc := h.closure v hv1 y hy hyp
      by_cases hxp : x = L.par v
      · rw [hxp]; exact hyc
      · have hxc := h.closure v hv1 x hx hxp
        exact ih (L.n - L.par v) (by omega) (L.par v) hpb.2 (by omega) x hxc y hyc hxy
  intro v hv
  exact aux (L.n - v) v hv (by omega)

end LPat.Filled

/-- `sn` is a supernode with representative `rep` in the sense of Pothen–Sun: every member but
the representative has a child (in the elimination tree) inside `sn` whose column count is one
larger. -/
structure SnodeOf (L : LPat) (sn : List Nat) (rep : Nat) : Prop where
  rep_mem : rep ∈ sn
  lt : ∀ x ∈ sn, x < L.n
  pred : ∀ x ∈ sn, x ≠ rep → ∃ c ∈ sn, c + 1 < L.n ∧ L.par c = x ∧
    (L.col c).length = (L.col x).length + 1

namespace SnodeOf
variable {L : LPat} {sn : List Nat} {rep : Nat}

/-- [S] the representative is the smallest member -/
theorem rep_le (hs : SnodeOf L sn rep) (h : L.Filled) : ∀ x ∈ sn, rep ≤ x := by
  intro x
  induction x using Nat.strongRecOn with
  | _ x ih =>
    intro hx
    by_cases e : x = rep
    · omega
    · obtain ⟨c, hc, hc1, hpar, _⟩ := hs.pred x hx e
      have := h.par_bounds hc1
      have := ih c (by omega) hc
      omega

/-- [S] the column of every member lies in the column of the representative -/
theorem col_sub (hs : SnodeOf L sn rep) (h : L.Filled) : ∀ x ∈ sn, ∀ r ∈ L.col x, r ∈ L.col rep := by
  intro x
  induction x using Nat.strongRecOn with
  | _ x ih =>
    intro hx r hr
    by_cases e : x = rep
    · rw [← e]; exact hr
    · obtain ⟨c, hc, hc1, hpar, hdeg⟩ := hs.pred x hx e
      have hb := h.par_bounds hc1
      rw [← hpar] at hdeg hr
      exact ih c (by omega) hc r (((h.col_succ hc1 hdeg) r).2 (Or.inr hr))

/-- [S] every member but the representative is a row of the representative's column -/
theorem mem_col_rep (hs : SnodeOf L sn rep) (h : L.Filled) : ∀ x ∈ sn, x ≠ rep → x ∈ L.col rep := by
  intro x hx e
  obtain ⟨c, hc, hc1, hpar, _⟩ := hs.pred x hx e
  rw [← hpar]
  exact hs.col_sub h c hc _ (h.par_mem (h.connected c hc1))

/-- [S] a supernode is a chain of the elimination tree: the representative reaches every
member by following parent pointers through members -/
theorem chain (hs : SnodeOf L sn rep) (h : L.Filled) {parent : Array Nat}
    (hsz : parent.size = L.n) (hp : ∀ v, v + 1 < L.n → parent.getD v 0 = L.par v) :
    ∀ x ∈ sn, Reaches parent x rep := by
  -- `Reaches parent x ·` is closed under going down to a child
  have down : ∀ x c, c < parent.size → parent.getD c 0 = x → ∀ y, Reaches parent c y →
      Reaches parent x y := by
    intro x c hc hpar y hy
    induction hy with
    | root => exact Reaches.step hc (hpar ▸ Reaches.root)
    | step hlt _ ih => exact Reaches.step hlt ih
  intro x
  induction x using Nat.strongRecOn with
  | _ x ih =>
    intro hx
    by_cases e : x = rep
    · rw [e]; exact Reaches.root
    · obtain ⟨c, hc, hc1, hpar, _⟩ := hs.pred x hx e
      have hb := h.par_bounds hc1
      exact down x c (by omega) ((hp c hc1).trans hpar) rep (ih c (by omega) hc)

/-- [S] **coverage**: the clique `sn ∪ (col rep \ sn)` contains the whole column (every
structural non-zero below the diagonal) of each member of the supernode -/
theorem cover (hs : SnodeOf L sn rep) (h : L.Filled) :
    ∀ x ∈ sn, ∀ r ∈ L.col x, r ∈ sn ∨ (r ∈ L.col rep ∧ r ∉ sn) := by
  intro x hx r hr
  by_cases hm : r ∈ sn
  · exact Or.inl hm
  · exact Or.inr ⟨hs.col_sub h x hx r hr, hm⟩

/-- [S] `sn ∪ (col rep \ sn)` is a clique of the filled graph: any two of its vertices
`x < y` are adjacent (`y ∈ col x`) -/
theorem clique (hs : SnodeOf L sn rep) (h : L.Filled) :
    ∀ x y, (x ∈ sn ∨ x ∈ L.col rep) → (y ∈ sn ∨ y ∈ L.col rep) → x < y → y ∈ L.col x := by
  intro x y hx hy hxy
  have hrep : rep < L.n := hs.lt rep hs.rep_mem
  have hlow : ∀ z, (z ∈ sn ∨ z ∈ L.col rep) → z ≠ rep → z ∈ L.col rep := by
    intro z hz e
    rcases hz with hz | hz
    · exact hs.mem_col_rep h z hz e
    · exact hz
  have hge : ∀ z, (z ∈ sn ∨ z ∈ L.col rep) → rep ≤ z := by
    intro z hz
    rcases hz with hz | hz
    · exact hs.rep_le h z hz
    · exact Nat.le_of_lt (h.lower rep hrep z hz).1
  have hyr : y ≠ rep := by have := hge x hx; omega
  by_cases e : x = rep
  · rw [e]; exact hlow y hy hyr
  · exact h.col_clique rep hrep x (hlow x hx e) y (hlow y hy hyr) hxy

end SnodeOf

end Clarabel.Chordal
