/-
  Round 4 (composition) — non-vacuity material for the full theorems: the real-valued instance
  `min x s.t. x + s = 1, s ≥ 0` satisfies the input hypotheses; the same instance at `Int` is run by the
  kernel (`new` succeeds, `solve()` returns, status `Solved`; reuses `SolverModelExample.run3`, no new
  kernel evaluation of a solve).
-/
import ClarabelProofs.Lemmas.SolverFullCompose
import ClarabelProofs.Lemmas.SolverModelExample

namespace Clarabel.Solver.FullExample
open Clarabel Clarabel.Solver

/-- `min x  s.t.  x + s = 1, s ≥ 0` over ℝ -/
noncomputable def P : Csc ℝ := ⟨1, 1, #[0, 0], #[], #[]⟩
noncomputable def A : Csc ℝ := ⟨1, 1, #[0, 1], #[0], #[1]⟩

theorem inputOK : InputOK P #[1] A #[1] ([.nonneg 1] : List (ConeT ℝ)) :=
  ⟨⟨C16.check_format_canonical _ (by rfl), rfl⟩, rfl, ⟨C16.check_format_canonical _ (by rfl), rfl⟩,
    rfl, rfl, rfl, rfl⟩

section
open Clarabel.Solver.Example
attribute [local instance] intFloatLike
/-- the same instance at `Int`, evaluated by the kernel: `new` succeeds, `solve()` returns, `Solved` -/
theorem run3_hyps : ∃ S r, newSolver 3 = .ok S ∧ S.solve (st 3) = .ok r ∧ r.S.solution.status = .solved := by
  have h := run3
  unfold run at h
  cases hS : newSolver 3 with
  | error e => rw [hS] at h; cases h
  | ok S =>
    rw [hS] at h
    have e : ((Except.ok S : MErr (Solver Int)) >>= fun S => S.solve (st 3)) = S.solve (st 3) := rfl
    rw [e] at h
    cases hr : S.solve (st 3) with
    | error e => rw [hr] at h; cases h
    | ok r =>
      rw [hr] at h
      refine ⟨S, r, rfl, hr, ?_⟩
      have h' : (r.passes, r.S.solution.status, r.S.solution.iterations) = (2, .solved, 1) :=
        Option.some.inj h
      exact (Prod.mk.inj (Prod.mk.inj h').2).1
end

end Clarabel.Solver.FullExample
