/-
  Solving twice (C05), the relational part — one pass of the loop.  Two loop states related by
  `PRel` (what a pass may still read of the state a previous solve left: nothing of the iterate,
  the residuals, the step vectors, `info` — and `prev_*` / `prev_vars` only once a step of THIS solve
  has written them) go through the same branch of `pass`, record the same figures, and are
  related again.
-/
import ClarabelProofs.Lemmas.SolverStaleKkt

namespace Clarabel.Solver
open Clarabel Info Residuals

set_option linter.unusedSectionVars false
set_option linter.unusedVariables false

variable {α : Type}

theorem RelM.bind' {β γ β' γ' : Type} {R : β → γ → Prop} {Q : β' → γ' → Prop} {x : MErr β} {x' : MErr γ}
    {f : β → MErr β'} {f' : γ → MErr γ'} (h : RelM R x x')
    (hf : ∀ a a', x = .ok a → x' = .ok a' → R a a' → RelM Q (f a) (f' a')) :
    RelM Q (x >>= f) (x' >>= f') := by
  cases x with
  | error e =>
    cases x' with
    | error e' => exact h
    | ok a' => exact h.elim
  | ok a =>
    cases x' with
    | error e' => exact h.elim
    | ok a' => exact hf a a' rfl rfl h

/-! ### `residuals.update` -/
section
variable [Add α] [Sub α] [Mul α] [Neg α] [OfNat α 0] [OfNat α 1] [BEq α]

theorem symv_zero_congr (hbeq : ((0 : α) == 0) = true) (A : Csc α) {y y' : Array α} (x : Array α) (a : α)
    (h : y.size = y'.size) : Residuals.symv A y x a 0 = Residuals.symv A y' x a 0 := by
  unfold Residuals.symv
  simp only [hbeq, if_true, map_const_congr (0 : α) h]

theorem scaleY_zero_congr (hbeq : ((0 : α) == 0) = true) {y y' : Array α} (h : y.size = y'.size) :
    Residuals.scaleY y 0 = Residuals.scaleY y' 0 := by
  unfold Residuals.scaleY
  simp only [hbeq, if_true]
  exact map_const_congr (0 : α) h

theorem gemvT_zero_congr (hbeq : ((0 : α) == 0) = true) (A : Csc α) {y y' : Array α} (x : Array α) (a : α)
    (h : y.size = y'.size) : Residuals.gemvT A y x a 0 = Residuals.gemvT A y' x a 0 := by
  unfold Residuals.gemvT
  simp only [scaleY_zero_congr hbeq h]

end

section
variable [Add α] [Sub α] [Mul α] [Div α] [Neg α] [OfNat α 0] [OfNat α 1] [BEq α]

/-- `DefaultResiduals::update` reads of the old residual object only the five lengths and `0·Px` -/
theorem Residuals.update_congr (hbeq : ((0 : α) == 0) = true) {r r' : Resid α} (v : Vars α) (d : Residuals.Data α)
    (h : ResidShape r r') : Residuals.update r v d = Residuals.update r' v d := by
  unfold Residuals.update
  rw [symv_zero_congr hbeq d.P v.x 1 h.Px, gemvT_zero_congr hbeq d.A v.z (-1) h.rx_inf, h.rz_inf, h.rx, h.rz]

end

/-! ### `info` -/
section
variable [Add α] [Sub α] [Mul α] [Div α] [Neg α] [OfNat α 0] [OfNat α 1] [OfNat α 2]
  [OfNat α 100] [OfNat α 1000] [LT α] [DecidableLT α] [LE α] [DecidableLE α] [BEq α] [FloatLike α]

/-- equal except for the six `prev_*` fields -/
def InfoEqv (i j : InfoS α) : Prop := ∃ p : InfoS α, j = carryPrev i p

theorem InfoEqv.rfl' (i : InfoS α) : InfoEqv i i := ⟨i, rfl⟩

theorem carryPrev_of_prevEq {i p : InfoS α} (h : PrevEq p i) : carryPrev i p = i := by
  obtain ⟨h1, h2, h3, h4, h5, h6⟩ := h
  unfold carryPrev
  rw [h1, h2, h3, h4, h5, h6]

theorem update_carryPrev (i p : InfoS α) (eq : Info.Equil α) (nq nb : α) (v : Vars α) (r : Resid α) :
    RelM (fun a a' => a' = carryPrev a p) (Info.update i eq nq nb v r) (Info.update (carryPrev i p) eq nq nb v r) := by
  unfold Info.update
  dsimp only
  repeat (refine RelM.bind (RelM.refl_eq _) ?_; intro _ _ e; subst e)
  exact rfl

theorem checkConvergence_carryPrev (i p : InfoS α) (dbz dqx : α) (t : Info.Tols α) (a b c : SolverStatus) :
    (Info.checkConvergence (carryPrev i p) dbz dqx t a b c).status = (Info.checkConvergence i dbz dqx t a b c).status := by
  unfold Info.checkConvergence
  show InfoS.status (if (decide (i.ktratio ≤ 1) && Info.isSolved i t.gap_abs t.gap_rel t.feas) = true then _ else _) = _
  split
  · rfl
  · show InfoS.status (if i.ktratio > (1 / t.ktratio) * 1000 then _ else _) = _
    split
    · show InfoS.status (if Info.isPrimalInfeasible i dbz t.infeas_abs t.infeas_rel = true then _ else _) = _
      split
      · rfl
      · show InfoS.status (if Info.isDualInfeasible i dqx t.infeas_abs t.infeas_rel = true then _ else _) = _
        split <;> rfl
    · rfl

theorem cti_early (s1 : SolverStatus) (r p1 p23 r' p1' p23' mx tm : Bool) :
    cti s1 false r p1 p23 mx tm = cti s1 false r' p1' p23' mx tm := by
  cases s1 <;> cases mx <;> cases tm <;> rfl

/-- `check_termination` reads the `prev_*` fields only when `iter > 1` -/
theorem checkTermination_carryPrev (i p : InfoS α) (dbz dqx : α) (s : Info.Settings α) (iter : Nat) (to : Bool)
    (h : iter ≤ 1 ∨ PrevEq p i) :
    (Info.checkTermination (carryPrev i p) dbz dqx s iter to).1
        = carryPrev (Info.checkTermination i dbz dqx s iter to).1 p
      ∧ (Info.checkTermination (carryPrev i p) dbz dqx s iter to).2 = (Info.checkTermination i dbz dqx s iter to).2 := by
  rcases h with h | h
  · have hs : (Info.checkTermination (carryPrev i p) dbz dqx s iter to).1.status
        = (Info.checkTermination i dbz dqx s iter to).1.status := by
      rw [info_checkTermination_table, info_checkTermination_table, checkConvergence_carryPrev]
      have hg : decide (iter > 1) = false := by simp; omega
      rw [hg]
      exact cti_early _ _ _ _ _ _ _ _ _
    have f1 := checkTermination_frame (carryPrev i p) dbz dqx s iter to
    have f2 := checkTermination_frame i dbz dqx s iter to
    refine ⟨?_, ?_⟩
    · rw [f1.1, hs]
      conv => rhs; rw [f2.1]
      rfl
    · rw [f1.2, f2.2, hs]
  · rw [carryPrev_of_prevEq h]
    refine ⟨?_, rfl⟩
    have f2 := checkTermination_frame i dbz dqx s iter to
    conv => rhs; rw [f2.1]
    conv => lhs; rw [f2.1]
    obtain ⟨h1, h2, h3, h4, h5, h6⟩ := h
    unfold carryPrev
    dsimp only
    rw [h1, h2, h3, h4, h5, h6]

theorem savePrev_carryPrev (i p : InfoS α) : Info.savePrev (carryPrev i p) = Info.savePrev i := rfl

/-! ### the top of a pass -/

/-- `residuals.update`, `calc_mu`, `info.update` at the top of a pass -/
theorem topNumerics_rel (hbeq : ((0 : α) == 0) = true) {S S' : SolverSt α} (iter : Nat) (p : InfoS α)
    (hd : S.data = S'.data) (hv : S.variables = S'.variables) (hr : ResidShape S.residuals S'.residuals)
    (hc : ConesEqvLam S.cones S'.cones) (hi : S'.info = carryPrev S.info p) :
    RelM (fun t t' => t'.1 = t.1 ∧ t'.2.1 = t.2.1 ∧ t'.2.2 = carryPrev t.2.2 p)
      (topNumerics S iter) (topNumerics S' iter) := by
  unfold topNumerics
  dsimp only
  rw [← hd, ← hv, ← Residuals.update_congr hbeq _ _ hr, ← degreeAll_eqv hc, hi]
  refine RelM.bind (RelM.refl_eq _) ?_
  intro r _ e
  subst e
  refine RelM.bind (RelM.refl_eq _) ?_
  intro nq _ e
  subst e
  refine RelM.bind (RelM.refl_eq _) ?_
  intro nb _ e
  subst e
  refine RelM.bind (update_carryPrev _ p _ _ _ _ _) ?_
  intro i1 i1' e
  subst e
  exact ⟨rfl, rfl, rfl⟩

/-- two pass records agree on everything but the `prev_*` fields of the `info` copy -/
def RecEqv (r r' : PassRec α) : Prop := ∃ p : InfoS α, r' = { r with info := carryPrev r.info p }

/-- what a pass may read of the loop state (`Bw`: the linear solver object) -/
structure PRel (Bw : KktSolver α → KktSolver α → Prop) (L L' : LoopSt α) : Prop where
  iter : L.iter = L'.iter
  sigma : L.sigma = L'.sigma
  alpha : L.alpha = L'.alpha
  mu : L.mu = L'.mu
  traj : ListRel RecEqv L.traj L'.traj
  data : L.S.data = L'.S.data
  variables : L.S.variables = L'.S.variables
  status : L.S.info.status = .unsolved
  info : ∃ p : InfoS α, L'.S.info = carryPrev L.S.info p ∧ (1 ≤ L.iter → PrevEq p L.S.info)
  prevVars : VarsShape L.S.prevVars L'.S.prevVars
  prevVarsLate : 1 ≤ L.iter → L.S.prevVars = L'.S.prevVars
  residuals : ResidShape L.S.residuals L'.S.residuals
  kktsystem : KRel Bw (numelAll L.S.cones) L.S.data.q.size L.S.kktsystem L'.S.kktsystem
  cones : ConesEqvLam L.S.cones L'.S.cones
  stepLhs : StepShape (numelAll L.S.cones) L.S.stepLhs L'.S.stepLhs
  stepRhs : StepShape (numelAll L.S.cones) L.S.stepRhs L'.S.stepRhs

/-- what the code after the loop reads -/
structure FRel (L L' : LoopSt α) : Prop where
  iter : L.iter = L'.iter
  sigma : L.sigma = L'.sigma
  alpha : L.alpha = L'.alpha
  mu : L.mu = L'.mu
  traj : ListRel RecEqv L.traj L'.traj
  data : L.S.data = L'.S.data
  variables : L.S.variables = L'.S.variables
  info : InfoEqv L.S.info L'.S.info
  residuals : L.S.residuals = L'.S.residuals
  infoMu : L.S.infoMu = L'.S.infoMu
  infoSigma : L.S.infoSigma = L'.S.infoSigma
  infoStepLength : L.S.infoStepLength = L'.S.infoStepLength

theorem ListRel.append {β γ : Type} {R : β → γ → Prop} {l1 : List β} {l1' : List γ} {l2 : List β} {l2' : List γ}
    (h1 : ListRel R l1 l1') (h2 : ListRel R l2 l2') : ListRel R (l1 ++ l2) (l1' ++ l2') := by
  induction h1 with
  | nil => exact h2
  | cons h _ ih => exact .cons h ih

theorem ListRel.snoc {β γ : Type} {R : β → γ → Prop} {l1 : List β} {l1' : List γ} {a : β} {a' : γ}
    (h1 : ListRel R l1 l1') (h2 : R a a') : ListRel R (l1 ++ [a]) (l1' ++ [a']) :=
  h1.append (.cons h2 .nil)

/-- `affine_step_rhs` overwrites `step_rhs` without reading it -/
theorem affineStepRhs_congr {self self' : Vars α} (r : Resid α) (vars : Vars α) (cones : List (ConeSt α))
    (h : StepShape (numelAll cones) self self') :
    affineStepRhs self r vars cones = affineStepRhs self' r vars cones := by
  unfold affineStepRhs
  rw [copyInto_congr r.rx "rhs.x" h.x, copyInto_congr r.rz "rhs.z" h.z, affineDs_congr cones h.s]

/-- the KKT stage of a pass -/
theorem kktNumerics_rel {Bw Bs : KktSolver α → KktSolver α → Prop} (hsim : KktSim Bw Bs) (st : Settings α)
    {S S' : SolverSt α} (cones : List (ConeSt α)) (mu : α) (iter : Nat)
    (hd : S.data = S'.data) (hv : S.variables = S'.variables) (hr : S.residuals = S'.residuals)
    (hk : KRel Bw (numelAll cones) S.data.q.size S.kktsystem S'.kktsystem)
    (hl : StepShape (numelAll cones) S.stepLhs S'.stepLhs) (hrs : StepShape (numelAll cones) S.stepRhs S'.stepRhs) :
    RelM (fun k k' => k.ok = k'.ok ∧ k.aff = k'.aff
        ∧ KRel Bw (numelAll cones) S.data.q.size k.S.kktsystem k'.S.kktsystem
        ∧ k.S.stepRhs = k'.S.stepRhs
        ∧ StepShape (numelAll cones) k.S.stepLhs k'.S.stepLhs ∧ (k.ok = true → k.S.stepLhs = k'.S.stepLhs))
      (kktNumerics st S cones mu iter) (kktNumerics st S' cones mu iter) := by
  unfold kktNumerics
  dsimp only
  rw [← hd, ← hv, ← hr, ← affineStepRhs_congr _ _ _ hrs]
  refine RelM.bind (KktSys.update_rel hsim S.data cones st.lin hk) ?_
  rintro ⟨updOk, K1⟩ ⟨updOk', K1'⟩ ⟨h1, h2, h3⟩
  dsimp only at h1 h2 h3 ⊢
  subst h1
  refine RelM.bind (RelM.refl_eq _) ?_
  intro stepRhs _ e
  subst e
  cases updOk with
  | false =>
    simp only [Bool.false_eq_true, if_false]
    dsimp only [bind, Except.bind, pure, Except.pure]
    exact ⟨rfl, rfl, { h2 with solver := hsim.weaken h2.solver }, rfl, hl, fun h => (Bool.false_ne_true h).elim⟩
  | true =>
    simp only [if_true]
    refine RelM.bind (KktSys.solve_rel hsim stepRhs S.data S.variables cones .affine st.lin rfl h2
      (h3 rfl).1 (h3 rfl).2 hl) ?_
    rintro ⟨affOk, lhs1, K2⟩ ⟨affOk', lhs1', K2'⟩ ⟨g1, g2, g3, g4, g5⟩
    dsimp only at g1 g2 g3 g4 g5 ⊢
    subst g1
    cases affOk with
    | false =>
      simp only [Bool.false_eq_true, if_false] at g2 ⊢
      refine ⟨rfl, rfl, { g3 with solver := hsim.weaken g3.solver }, rfl, ?_, fun h => (Bool.false_ne_true h).elim⟩
      show StepShape _ lhs1 lhs1'
      rw [g2.1, g2.2]
      exact hl
    | true =>
      simp only [if_true] at g2 ⊢
      subst g2
      refine RelM.bind (RelM.refl_eq _) ?_
      intro aAff _ e
      subst e
      refine RelM.bind (RelM.refl_eq _) ?_
      intro cr _ e
      subst e
      refine RelM.bind (KktSys.solve_rel hsim cr.1 S.data S.variables cones .combined st.lin rfl g3 g4 g5
        (StepShape.of_eq rfl)) ?_
      rintro ⟨combOk, lhs2, K3⟩ ⟨combOk', lhs2', K3'⟩ ⟨f1, f2, f3, f4, f5⟩
      dsimp only at f1 f2 f3 f4 f5 ⊢
      subst f1
      have hlhs : lhs2 = lhs2' := by
        cases combOk with
        | false =>
          simp only [Bool.false_eq_true, if_false] at f2
          rw [f2.1, f2.2]
        | true => simpa only [if_true] using f2
      subst hlhs
      exact ⟨rfl, rfl, { f3 with solver := hsim.weaken f3.solver }, rfl, StepShape.of_eq rfl, fun _ => rfl⟩

theorem varsCopyFrom_congr {dst dst' : Vars α} (src : Vars α) (h : VarsShape dst dst') :
    varsCopyFrom dst src = varsCopyFrom dst' src := by
  unfold varsCopyFrom
  rw [copyInto_congr src.x "x" h.x, copyInto_congr src.s "s" h.s, copyInto_congr src.z "z" h.z]

theorem carryPrev_self (i : InfoS α) : carryPrev i i = i := rfl
theorem prevEq_self (i : InfoS α) : PrevEq i i := ⟨rfl, rfl, rfl, rfl, rfl, rfl⟩

/-- the pass-output relation: same `break`/continue flag; related loop states -/
def PassOut (Bw : KktSolver α → KktSolver α → Prop) (r r' : Bool × LoopSt α) : Prop :=
  r.1 = r'.1 ∧ (if r.1 = true then PRel Bw r.2 r'.2 else FRel r.2 r'.2)

theorem passRest_rel {Bw Bs : KktSolver α → KktSolver α → Prop} (hsim : KktSim Bw Bs) (st : Settings α)
    {L L' : LoopSt α} (h : PRel Bw L L') (r : Resid α) (mu : α) (i1 p : InfoS α) (ct : InfoS α × Bool)
    (hct2 : ct.2 = (ct.1.status != .unsolved))
    (hip : ct.1.status = .insufficientProgress → 1 < L.iter)
    (hlate : 1 ≤ L.iter → PrevEq p ct.1) :
    RelM (PassOut Bw) (passRest st L r mu i1 ct) (passRest st L' r mu (carryPrev i1 p) (carryPrev ct.1 p, ct.2)) := by
  obtain ⟨S', iter', sigma', alpha', mu', traj'⟩ := L'
  obtain ⟨hiter, hsigma, halpha, hmu, htraj, hdata, hvars, hstatus, hinfo, hpv, hpvl, hres, hkkt, hcones, hlhs, hrhs⟩ := h
  obtain ⟨data', vars', res', kkt', cones', lhs', rhs', pv', info', im', is', isl'⟩ := S'
  dsimp only at hiter hsigma halpha hmu htraj hdata hvars hinfo hpv hpvl hres hkkt hcones hlhs hrhs
  subst hiter hsigma halpha hmu hdata hvars
  obtain ⟨cti, done⟩ := ct
  dsimp only at hct2 hip hlate
  unfold passRest
  dsimp only
  cases done with
  | true =>
    simp only [if_true]
    by_cases hs : cti.status = .insufficientProgress
    · have hs' : ((carryPrev cti p).status != SolverStatus.insufficientProgress) = false := by
        show (cti.status != SolverStatus.insufficientProgress) = false
        rw [hs]; rfl
      have hs'' : (cti.status != SolverStatus.insufficientProgress) = false := by rw [hs]; rfl
      rw [hs', hs'']
      simp only [Bool.false_eq_true, if_false]
      have hit : 1 ≤ L.iter := Nat.le_of_lt (hip hs)
      rw [← hpvl hit]
      refine RelM.bind (RelM.refl_eq _) ?_
      intro v _ e
      subst e
      refine ⟨rfl, ?_⟩
      simp only [Bool.false_eq_true, if_false]
      refine ⟨rfl, rfl, rfl, rfl, htraj.snoc ⟨p, rfl⟩, rfl, rfl, ?_, rfl, rfl, rfl, rfl⟩
      show InfoEqv (Info.resetToPrev cti) (Info.resetToPrev (carryPrev cti p))
      rw [carryPrev_of_prevEq (hlate hit)]
      exact InfoEqv.rfl' _
    · have hs' : ((carryPrev cti p).status != SolverStatus.insufficientProgress) = true :=
        (status_bne _ _).mpr hs
      have hs'' : (cti.status != SolverStatus.insufficientProgress) = true := (status_bne _ _).mpr hs
      rw [hs', hs'']
      simp only [if_true]
      refine ⟨rfl, ?_⟩
      simp only [Bool.false_eq_true, if_false]
      exact ⟨rfl, rfl, rfl, rfl, htraj.snoc ⟨p, rfl⟩, rfl, rfl, ⟨p, rfl⟩, rfl, rfl, rfl, rfl⟩
  | false =>
    simp only [Bool.false_eq_true, if_false]
    have hun : cti.status = .unsolved := by
      cases hc : cti.status <;> rw [hc] at hct2 <;> first | rfl | cases hct2
    unfold scaleCones
    refine RelM.bind' (updateScaling_eqv L.S.variables.s L.S.variables.z hcones) ?_
    rintro ⟨ok, cs⟩ ⟨ok', cs'⟩ e1 e2 ⟨g1, g2, g3⟩
    dsimp only at g1 g2 g3 ⊢
    subst g1
    cases ok with
    | false =>
      simp only [Bool.not_false, if_true]
      refine ⟨rfl, ?_⟩
      simp only [Bool.false_eq_true, if_false]
      exact ⟨rfl, rfl, rfl, rfl, htraj.snoc ⟨p, rfl⟩, rfl, rfl, ⟨p, rfl⟩, rfl, rfl, rfl, rfl⟩
    | true =>
      simp only [Bool.not_true, Bool.false_eq_true, if_false]
      have hcs := g2 rfl
      subst hcs
      have hn : numelAll cs = numelAll L.S.cones := updateScaling_numel e1
      refine RelM.bind' (kktNumerics_rel hsim st cs mu (L.iter + 1) rfl rfl rfl (hn ▸ hkkt) (hn ▸ hlhs) (hn ▸ hrhs)) ?_
      intro k k' ek ek' hk
      obtain ⟨q1, q2, q3, q4, q5, q6⟩ := hk
      obtain ⟨fk, _⟩ := kktNumerics_frame ek
      obtain ⟨fk', _⟩ := kktNumerics_frame ek'
      have kd : k.S.data = L.S.data := by rw [fk]
      have kd' : k'.S.data = L.S.data := by rw [fk']
      have kv : k.S.variables = L.S.variables := by rw [fk]
      have kv' : k'.S.variables = L.S.variables := by rw [fk']
      have kr : k.S.residuals = r := by rw [fk]
      have kr' : k'.S.residuals = r := by rw [fk']
      have kc : k.S.cones = cs := by rw [fk]
      have kc' : k'.S.cones = cs := by rw [fk']
      have kp : k.S.prevVars = L.S.prevVars := by rw [fk]
      have kp' : k'.S.prevVars = pv' := by rw [fk']
      have ki : k.S.info = cti := by rw [fk]
      have ki' : k'.S.info = carryPrev cti p := by rw [fk']
      have km : k.S.infoMu = k'.S.infoMu := by rw [fk, fk']
      have ks : k.S.infoSigma = k'.S.infoSigma := by rw [fk, fk']
      have kl : k.S.infoStepLength = k'.S.infoStepLength := by rw [fk, fk']
      rw [← q1, ← q2]
      cases hok : k.ok with
      | false =>
        simp only [Bool.not_false, if_true]
        refine ⟨rfl, ?_⟩
        simp only [Bool.false_eq_true, if_false]
        refine ⟨rfl, rfl, rfl, rfl, htraj.snoc ⟨p, rfl⟩, kd.trans kd'.symm, kv.trans kv'.symm, ?_, kr.trans kr'.symm,
          km, ks, kl⟩
        refine ⟨p, ?_⟩
        show _ = carryPrev { k.S.info with status := SolverStatus.numericalError } p
        rw [ki, ki']
        rfl
      | true =>
        simp only [Bool.not_true, Bool.false_eq_true, if_false]
        rw [kv, kv', ← q6 hok]
        refine RelM.bind (RelM.refl_eq _) ?_
        intro a _ e
        subst e
        split
        · refine ⟨rfl, ?_⟩
          simp only [Bool.false_eq_true, if_false]
          refine ⟨rfl, rfl, rfl, rfl, htraj.snoc ⟨p, rfl⟩, kd.trans kd'.symm, rfl, ?_, kr.trans kr'.symm, km, ks, kl⟩
          refine ⟨p, ?_⟩
          show _ = carryPrev { k.S.info with status := SolverStatus.insufficientProgress } p
          rw [ki, ki']
          rfl
        · have hsv : stepVars k'.S a = stepVars k.S a := by
            unfold stepVars
            rw [kv, kv', kp, kp', ← q6 hok, varsCopyFrom_congr _ hpv]
          rw [hsv]
          refine RelM.bind (RelM.refl_eq _) ?_
          intro pv _ e
          subst e
          refine ⟨rfl, ?_⟩
          simp only [if_true]
          refine ⟨rfl, rfl, rfl, rfl, htraj.snoc ⟨p, rfl⟩, kd.trans kd'.symm, rfl, ?_, ?_, VarsShape.of_eq rfl,
            fun _ => rfl, ?_, ?_, ?_, ?_, ?_⟩
          · show (Info.savePrev k.S.info).status = _
            rw [ki]; exact hun
          · refine ⟨Info.savePrev k.S.info, ?_, fun _ => prevEq_self _⟩
            show Info.savePrev k'.S.info = _
            rw [ki', ki, savePrev_carryPrev]
            rfl
          · show ResidShape k.S.residuals k'.S.residuals
            rw [kr, kr']
            exact ResidShape.of_eq rfl
          · show KRel Bw (numelAll k.S.cones) k.S.data.q.size k.S.kktsystem k'.S.kktsystem
            rw [kc, kd]; exact q3
          · show ConesEqvLam k.S.cones k'.S.cones
            rw [kc, kc']; exact ConesEqvLam.rfl' _
          · exact StepShape.of_eq rfl
          · show StepShape (numelAll k.S.cones) k.S.stepRhs k'.S.stepRhs
            rw [kc, q4]; exact StepShape.of_eq rfl

end

end Clarabel.Solver
