/-
  Composition on the whole-solver model WITH NONSYMMETRIC CONES — from "strictly inside the cone"
  (`InteriorN`, `Lemmas/SolverNSBridgeDefs.lean`) to the membership predicates the end-to-end theorems
  conclude (`Equil.CompositeMem Equil.ConeMem / Equil.ConeMemDual`, `Lemmas/EquilComposite.lean`), and
  two structural facts about the cone list:

  * `blkIntN_memDual`, `blkIntN_mem` : one cone (zero / nonnegative / second-order / exponential /
                       power / generalised power): interior on its rows ⇒ `z ∈ K*`, `s ∈ K`
                       (the zero cone's `s = 0` is an extra hypothesis);
  * `InteriorN.mem_dual`, `InteriorN.mem_primal` : the whole cone list (scalar type ℝ);
  * `makeCone_typ`, `makeCones_typ` : the layout (`ConeSt.typ`) of what `make_cone` /
                       `CompositeCone::new` builds is the cone list it was built from (every scalar type);
  * `validCones_newCollapsed` : `new_collapsed` preserves the admissibility of the cone parameters.

  Counterpart of the end of `Lemmas/StepKBridge.lean` (`makeCone_mem`, `mem_rows`, `Interior.mem_*`)
  for the first model.
-/
import ClarabelProofs.Lemmas.SolverNSBridgeDefs
import ClarabelProofs.Lemmas.StepKBridge
import ClarabelProofs.Lemmas.EquilComposite
import ClarabelProofs.Props.C14

namespace Clarabel.SolverNS
open Clarabel Residuals
open Clarabel.Solver (bind_ok_inv)

set_option linter.unusedSectionVars false
set_option linter.unusedVariables false

/-! ## interior ⇒ membership, one cone -/

/-- one cone: strict interior on its rows gives `z ∈ K*` -/
theorem blkIntN_memDual (t : ConeT ℝ) (z s : List ℝ) (h : BlkIntN t z s) : Equil.ConeMemDual t z := by
  cases t with
  | zero n => trivial
  | nonneg n =>
    obtain ⟨_, hz, _⟩ := h
    exact fun x hx => le_of_lt (hz x hx)
  | soc n =>
    obtain ⟨z0, z1, s0, s1, rfl, rfl, hz, _⟩ := h
    exact Solver.Bridge.socMem_of_interior z0 z1 hz
  | exp =>
    obtain ⟨z0, z1, z2, s0, s1, s2, rfl, rfl, hz, _⟩ := h
    exact (C14.exp_isDualFeasible_iff z0 z1 z2).mpr hz
  | pow a =>
    obtain ⟨ha0, ha1, z0, z1, z2, s0, s1, s2, rfl, rfl, hz, _⟩ := h
    exact (C14.pow_isDualFeasible_iff ha0 ha1 z0 z1 z2).mpr hz
  | genpow al d =>
    obtain ⟨hal, _, uz, wz, us, ws, hzs, hzl, _, _, hz, _⟩ := h
    have hzs' : z = uz ++ wz := hzs
    have := (C14.genpow_membership al.toList uz wz hzl hal).2.mpr hz
    rw [Array.toArray_toList] at this
    show GenPow.isDualFeasible al z.toArray = .ok true
    rw [hzs']
    exact this
  | psd n => exact h.elim

/-- one cone: strict interior on its rows gives `s ∈ K`; the rows of a zero cone must vanish -/
theorem blkIntN_mem (t : ConeT ℝ) (z s : List ℝ) (h : BlkIntN t z s)
    (h0 : ∀ n, t = .zero n → ∀ x ∈ s, x = 0) : Equil.ConeMem t s := by
  cases t with
  | zero n => exact h0 n rfl
  | nonneg n =>
    obtain ⟨_, _, hs⟩ := h
    exact fun x hx => le_of_lt (hs x hx)
  | soc n =>
    obtain ⟨z0, z1, s0, s1, rfl, rfl, _, hs⟩ := h
    exact Solver.Bridge.socMem_of_interior s0 s1 hs
  | exp =>
    obtain ⟨z0, z1, z2, s0, s1, s2, rfl, rfl, _, hs⟩ := h
    exact (C14.exp_isPrimalFeasible_iff s0 s1 s2).mpr hs
  | pow a =>
    obtain ⟨_, _, z0, z1, z2, s0, s1, s2, rfl, rfl, _, hs⟩ := h
    exact (C14.pow_isPrimalFeasible_iff a s0 s1 s2).mpr hs
  | genpow al d =>
    obtain ⟨hal, _, uz, wz, us, ws, _, _, hss, hsl, _, hs⟩ := h
    have hss' : s = us ++ ws := hss
    have := (C14.genpow_membership al.toList us ws hsl hal).1.mpr hs
    rw [Array.toArray_toList] at this
    show GenPow.isPrimalFeasible al s.toArray = .ok true
    rw [hss']
    exact this
  | psd n => exact h.elim

/-! ## the cone list -/

/-- `ZeroRowsN` of a list whose head is not a zero cone -/
theorem zeroRowsN_cons_of_ne {t : ConeT ℝ} (ht : ∀ n, t ≠ .zero n) (ts : List (ConeT ℝ)) (s : List ℝ) :
    ZeroRowsN (t :: ts) s ↔ ZeroRowsN ts (s.drop t.nvars) := by
  cases t with
  | zero n => exact absurd rfl (ht n)
  | nonneg n => exact Iff.rfl
  | soc n => exact Iff.rfl
  | exp => exact Iff.rfl
  | pow a => exact Iff.rfl
  | genpow al d => exact Iff.rfl
  | psd n => exact Iff.rfl

/-- `ZeroRowsN` of a cone list, uniformly in the head cone -/
theorem zeroRowsN_cons (t : ConeT ℝ) (ts : List (ConeT ℝ)) (s : List ℝ) :
    ZeroRowsN (t :: ts) s ↔
      (∀ n, t = .zero n → ∀ x ∈ s.take t.nvars, x = 0) ∧ ZeroRowsN ts (s.drop t.nvars) := by
  by_cases ht : ∃ n, t = .zero n
  · obtain ⟨n, rfl⟩ := ht
    constructor
    · intro h
      exact ⟨fun n' e => by cases e; exact h.1, h.2⟩
    · intro h
      exact ⟨h.1 n rfl, h.2⟩
  · have ht' : ∀ n, t ≠ .zero n := fun n e => ht ⟨n, e⟩
    rw [zeroRowsN_cons_of_ne ht']
    exact ⟨fun h => ⟨fun n e => absurd e (ht' n), h⟩, fun h => h.2⟩

/-- block-wise interior ⇒ `z ∈ K*`, and with `s = 0` on the zero-cone rows `s ∈ K` -/
theorem mem_rowsN : ∀ (ts : List (ConeT ℝ)) (z s : List ℝ), IntRowsN ts z s →
    Equil.CompositeMem Equil.ConeMemDual ts z ∧
      (ZeroRowsN ts s → Equil.CompositeMem Equil.ConeMem ts s) := by
  intro ts
  induction ts with
  | nil => intro z s _; exact ⟨trivial, fun _ => trivial⟩
  | cons t ts ih =>
    intro z s hI
    obtain ⟨hb, hrest⟩ := hI
    obtain ⟨i1, i2⟩ := ih _ _ hrest
    refine ⟨⟨blkIntN_memDual t _ _ hb, i1⟩, ?_⟩
    intro hZ
    obtain ⟨hz0, hzr⟩ := (zeroRowsN_cons t ts s).mp hZ
    exact ⟨blkIntN_mem t _ _ hb hz0, i2 hzr⟩

/-- **an interior iterate has `z ∈ K*`** … -/
theorem InteriorN.mem_dual {ts : List (ConeT ℝ)} {v : Residuals.Vars ℝ} (h : InteriorN ts v) :
    Equil.CompositeMem Equil.ConeMemDual ts v.z.toList :=
  (mem_rowsN ts _ _ h.2.2.2.2).1

/-- … **and, with `s = 0` on the zero-cone rows, `s ∈ K`** -/
theorem InteriorN.mem_primal {ts : List (ConeT ℝ)} {v : Residuals.Vars ℝ} (h : InteriorN ts v)
    (hz : ZeroSN ts v) : Equil.CompositeMem Equil.ConeMem ts v.s.toList :=
  (mem_rowsN ts _ _ h.2.2.2.2).2 hz

/-! ## the layout of `CompositeCone::new` -/

section
variable {α : Type} [Add α] [Sub α] [Mul α] [Div α] [Neg α] [LT α] [LE α] [DecidableLT α] [DecidableLE α]
  [BEq α] [OfNat α 0] [OfNat α 1] [OfNat α 2] [OfNat α 3] [OfNat α 4] [OfNat α 100] [OfNat α 1000]
  [OfScientific α] [FloatLike α]

/-- [S] the layout of what `make_cone` builds is the user's cone -/
theorem makeCone_typ {t : ConeT α} {c : ConeSt α} (h : makeCone t = .ok c) : c.typ = t := by
  cases t with
  | exp => cases h; rfl
  | pow a => cases h; rfl
  | genpow al d2 =>
    unfold makeCone at h
    obtain ⟨ψ, _, h⟩ := bind_ok_inv h
    cases h
    rfl
  | zero n =>
    unfold makeCone at h
    obtain ⟨c0, hc0, h⟩ := bind_ok_inv h
    cases h
    cases hc0
    rfl
  | nonneg n =>
    unfold makeCone at h
    obtain ⟨c0, hc0, h⟩ := bind_ok_inv h
    cases h
    cases hc0
    show ConeT.nonneg (Nonneg.new n).w.size = ConeT.nonneg n
    simp [Nonneg.new]
  | soc n =>
    unfold makeCone at h
    obtain ⟨c0, hc0, h⟩ := bind_ok_inv h
    cases h
    simp only [Solver.makeCone] at hc0
    obtain ⟨K, hK, hc0⟩ := bind_ok_inv hc0
    cases hc0
    unfold Soc.new at hK
    split at hK
    · cases hK
    · cases hK
      rfl
  | psd n =>
    unfold makeCone at h
    obtain ⟨c0, hc0, h⟩ := bind_ok_inv h
    cases hc0

/-- [S] **the layout of what `CompositeCone::new` builds is the cone list it was built from** -/
theorem makeCones_typ {ts : List (ConeT α)} {K : List (ConeSt α)} (h : makeCones ts = .ok K) :
    K.map ConeSt.typ = ts := by
  induction ts generalizing K with
  | nil => cases h; rfl
  | cons t ts ih =>
    unfold makeCones at h
    simp only [List.mapM_cons] at h
    obtain ⟨c, hc, h⟩ := bind_ok_inv h
    obtain ⟨cs', hcs, h⟩ := bind_ok_inv h
    cases h
    rw [List.map_cons, makeCone_typ hc, ih hcs]

end

/-! ## `new_collapsed` and the admissibility of the cone parameters -/

theorem validCones_flush (acc : Nat) : Equil.ValidCones (Cones.flush (α := ℝ) acc) := by
  intro c hc
  unfold Cones.flush at hc
  split at hc
  · cases hc
  · rw [List.mem_singleton] at hc
    subst hc
    trivial

theorem validCones_collapseGo (acc : Nat) (cs : List (ConeT ℝ)) (h : Equil.ValidCones cs) :
    Equil.ValidCones (Cones.collapseGo acc cs) := by
  induction cs generalizing acc with
  | nil => exact validCones_flush acc
  | cons c cs ih =>
    have hcs : Equil.ValidCones cs := fun c' hc' => h c' (List.mem_cons_of_mem _ hc')
    unfold Cones.collapseGo
    split
    · exact ih acc hcs
    · split
      · exact ih _ hcs
      · intro c' hc'
        rw [List.mem_append, List.mem_cons] at hc'
        rcases hc' with hc' | rfl | hc'
        · exact validCones_flush acc c' hc'
        · exact h c' List.mem_cons_self
        · exact ih 0 hcs c' hc'

/-- **`new_collapsed` preserves the admissibility of the cone parameters**: every cone of the result
is a cone of the input or a nonnegative cone -/
theorem validCones_newCollapsed {cones : List (ConeT ℝ)} (h : Equil.ValidCones cones) :
    Equil.ValidCones (Cones.newCollapsed cones) :=
  validCones_collapseGo 0 cones h

end Clarabel.SolverNS
