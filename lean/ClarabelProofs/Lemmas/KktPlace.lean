/-
  Lemmas about the fill step of the KKT assembly (`Csc.place` / `Csc.placeAll`,
  model of the `fill_*` utilities of `src/algebra/csc/utils.rs`).

  Main result `placeAll_spec`: running a schedule of writes whose per-column free ranges
  are pairwise disjoint (which is what `colcount_to_colptr` produces from column counts that
  cover the schedule, `rangesDisjoint_cumsum`) stores the `i`-th entry at
  `destOf ptr sched i = ptr[col i] + #{j < i | col j = col i}`, records that index in the
  index map, advances every counter by its column count and touches nothing else;
  destinations are pairwise distinct (`destOf_lt_ne`).  No arithmetic law of the scalar type
  is used: the statements hold for `Float`.
-/
import ClarabelModel.CscBlocks

namespace Clarabel.Lemmas.KktPlace
open Clarabel Clarabel.Csc


theorem getE_ok {β} (xs : Array β) (i : Nat) (s : String) (v : β) :
    getE xs i s = .ok v ↔ xs[i]? = some v := by
  unfold getE
  cases h : xs[i]? <;> simp [pure, Except.pure, throw, throwThe, MonadExceptOf.throw]

theorem setE_ok {β} (xs : Array β) (i : Nat) (v : β) (s : String) (ys : Array β) :
    setE xs i v s = .ok ys ↔ i < xs.size ∧ ys = xs.setIfInBounds i v := by
  unfold setE
  split
  · rename_i h
    simp [pure, Except.pure, h, Array.setIfInBounds, eq_comm]
  · rename_i h
    simp [throw, throwThe, MonadExceptOf.throw, h]

variable {α : Type}

theorem addAt_ok (xs : Array Nat) (i c : Nat) (s : String) (ys : Array Nat) :
    addAt xs i c s = .ok ys ↔ ∃ v, xs[i]? = some v ∧ ys = xs.setIfInBounds i (v + c) := by
  unfold addAt
  cases h : xs[i]? with
  | none => simp [getE, h, bind, Except.bind, throw, throwThe, MonadExceptOf.throw]
  | some v =>
    have hi : i < xs.size := by
      rcases Array.getElem?_eq_some_iff.mp h with ⟨hi, _⟩; exact hi
    have hv : xs[i] = v := by
      rcases Array.getElem?_eq_some_iff.mp h with ⟨_, hv⟩; exact hv
    simp [getE, bind, Except.bind, pure, Except.pure, setE_ok, hi, hv]

def placeNext (st : Csc α × Array Nat) (e : Entry α) (d : Nat) : Csc α × Array Nat :=
  ({ st.1 with colptr := st.1.colptr.setIfInBounds e.readCol (d + 1),
               rowval := st.1.rowval.setIfInBounds d e.row,
               nzval := st.1.nzval.setIfInBounds d e.val },
   match e.k with
   | some k => st.2.setIfInBounds k d
   | none => st.2)

theorem place_ok (st st' : Csc α × Array Nat) (e : Entry α) (hreg : e.incCol = e.readCol)
    (h : place st e = .ok st') :
    ∃ d, st.1.colptr[e.readCol]? = some d ∧ d < st.1.rowval.size ∧ d < st.1.nzval.size ∧
      (∀ k, e.k = some k → k < st.2.size) ∧ st' = placeNext st e d := by
  unfold place at h
  simp only [bind, Except.bind] at h
  split at h
  · cases h
  · rename_i d hd
    rw [getE_ok] at hd
    split at h
    · cases h
    · rename_i rv hrv
      rw [setE_ok] at hrv
      split at h
      · cases h
      · rename_i nv hnv
        rw [setE_ok] at hnv
        split at h
        · cases h
        · rename_i cp hcp
          rw [addAt_ok] at hcp
          obtain ⟨v, hv, hcp⟩ := hcp
          rw [hreg] at hv hcp
          rw [hd] at hv
          cases hv
          refine ⟨d, hd, hrv.1, hnv.1, ?_⟩
          cases hk : e.k with
          | none =>
            simp only [hk, pure, Except.pure] at h
            cases h
            refine ⟨(by intro k hk'; cases hk'), ?_⟩
            simp [placeNext, hk, hrv.2, hnv.2, hcp]
          | some k =>
            simp only [hk] at h
            split at h
            · cases h
            · rename_i mp hmp
              rw [setE_ok] at hmp
              simp only [pure, Except.pure] at h
              cases h
              refine ⟨(by intro k' hk'; cases hk'; exact hmp.1), ?_⟩
              simp [placeNext, hk, hrv.2, hnv.2, hcp, hmp.2]

def cnt (c : Nat) (l : List (Entry α)) : Nat := l.countP (fun e => e.readCol == c)

def Regular (l : List (Entry α)) : Prop := ∀ e ∈ l, e.incCol = e.readCol

/-- destination of the `i`-th scheduled write, from the counters before the schedule runs -/
def destOf (ptr : Array Nat) (l : List (Entry α)) (i : Nat) : Option Nat :=
  (l[i]?).bind (fun e => (ptr[e.readCol]?).map (· + cnt e.readCol (l.take i)))

/-- the free ranges `[ptr c, ptr c + cnt c)` of different columns do not meet -/
def RangesDisjoint (ptr : Array Nat) (l : List (Entry α)) : Prop :=
  ∀ c c' p p' a b, c ≠ c' → ptr[c]? = some p → ptr[c']? = some p' →
    a < cnt c l → b < cnt c' l → p + a ≠ p' + b

theorem cnt_cons (c : Nat) (e : Entry α) (l : List (Entry α)) :
    cnt c (e :: l) = cnt c l + (if e.readCol = c then 1 else 0) := by
  unfold cnt
  rw [List.countP_cons]
  simp

theorem destOf_zero (ptr : Array Nat) (e : Entry α) (l : List (Entry α)) :
    destOf ptr (e :: l) 0 = ptr[e.readCol]? := by
  simp [destOf, cnt]

theorem destOf_succ (ptr : Array Nat) (e : Entry α) (l : List (Entry α)) (i d : Nat)
    (hd : ptr[e.readCol]? = some d) :
    destOf ptr (e :: l) (i + 1) = destOf (ptr.setIfInBounds e.readCol (d + 1)) l i := by
  unfold destOf
  simp only [List.getElem?_cons_succ, List.take_succ_cons]
  cases hl : l[i]? with
  | none => simp
  | some e' =>
    simp only [Option.bind_some, cnt_cons]
    have hlt : e.readCol < ptr.size := by
      rcases Array.getElem?_eq_some_iff.mp hd with ⟨h, _⟩; exact h
    by_cases hc : e.readCol = e'.readCol
    · rw [← hc]
      simp [hd, Array.getElem?_setIfInBounds_self_of_lt hlt]
      omega
    · simp [hc, Array.getElem?_setIfInBounds_ne hc]

structure PlaceSpec (st st' : Csc α × Array Nat) (l : List (Entry α)) : Prop where
  m_eq : st'.1.m = st.1.m
  n_eq : st'.1.n = st.1.n
  colptr_size : st'.1.colptr.size = st.1.colptr.size
  rowval_size : st'.1.rowval.size = st.1.rowval.size
  nzval_size : st'.1.nzval.size = st.1.nzval.size
  map_size : st'.2.size = st.2.size
  colptr_get : ∀ c, st'.1.colptr[c]? = (st.1.colptr[c]?).map (· + cnt c l)
  written : ∀ i e, l[i]? = some e → ∃ d, destOf st.1.colptr l i = some d ∧
      st'.1.rowval[d]? = some e.row ∧ st'.1.nzval[d]? = some e.val
  untouched : ∀ pos, (∀ i, destOf st.1.colptr l i ≠ some pos) →
      st'.1.rowval[pos]? = st.1.rowval[pos]? ∧ st'.1.nzval[pos]? = st.1.nzval[pos]?
  map_written : ∀ i e k, l[i]? = some e → e.k = some k →
      (∀ j e', i < j → l[j]? = some e' → e'.k ≠ some k) → st'.2[k]? = destOf st.1.colptr l i
  map_untouched : ∀ k, (∀ e ∈ l, e.k ≠ some k) → st'.2[k]? = st.2[k]?

theorem rangesDisjoint_tail (ptr : Array Nat) (e : Entry α) (l : List (Entry α)) (d : Nat)
    (hd : ptr[e.readCol]? = some d) (h : RangesDisjoint ptr (e :: l)) :
    RangesDisjoint (ptr.setIfInBounds e.readCol (d + 1)) l := by
  intro c c' p p' a b hne hp hp' ha hb
  have hlt : e.readCol < ptr.size := by
    rcases Array.getElem?_eq_some_iff.mp hd with ⟨h, _⟩; exact h
  by_cases h1 : e.readCol = c
  · subst h1
    rw [Array.getElem?_setIfInBounds_self_of_lt hlt] at hp
    rw [Array.getElem?_setIfInBounds_ne hne] at hp'
    cases hp
    have := h e.readCol c' d p' (a + 1) b hne hd hp' (by rw [cnt_cons]; simp; omega)
      (by rw [cnt_cons]; simp [hne]; omega)
    omega
  · rw [Array.getElem?_setIfInBounds_ne h1] at hp
    by_cases h2 : e.readCol = c'
    · subst h2
      rw [Array.getElem?_setIfInBounds_self_of_lt hlt] at hp'
      cases hp'
      have := h c e.readCol p d a (b + 1) hne hp hd (by rw [cnt_cons]; simp [h1]; omega)
        (by rw [cnt_cons]; simp; omega)
      omega
    · rw [Array.getElem?_setIfInBounds_ne h2] at hp'
      exact h c c' p p' a b hne hp hp' (by rw [cnt_cons]; omega) (by rw [cnt_cons]; omega)


theorem cnt_take_le (c : Nat) (l : List (Entry α)) (i : Nat) : cnt c (l.take i) ≤ cnt c l := by
  induction l generalizing i with
  | nil => simp
  | cons x t ih =>
    cases i with
    | zero => simp [cnt]
    | succ i => rw [List.take_succ_cons, cnt_cons, cnt_cons]; have := ih i; omega

theorem cnt_take_lt (l : List (Entry α)) (i : Nat) (e' : Entry α) (hl : l[i]? = some e') :
    cnt e'.readCol (l.take i) < cnt e'.readCol l := by
  induction l generalizing i with
  | nil => simp at hl
  | cons x t ih =>
    cases i with
    | zero =>
      simp at hl
      subst hl
      rw [cnt_cons]
      simp [cnt]
    | succ i =>
      simp at hl
      rw [List.take_succ_cons, cnt_cons, cnt_cons]
      have := ih i hl
      omega

theorem cnt_take_mono (c : Nat) (l : List (Entry α)) (i j : Nat) (h : i ≤ j) :
    cnt c (l.take i) ≤ cnt c (l.take j) := by
  have : l.take i = (l.take j).take i := by rw [List.take_take]; congr 1; omega
  rw [this]
  exact cnt_take_le c _ i

/-- destinations of later entries never hit the slot just written -/
theorem destOf_tail_ne (ptr : Array Nat) (e : Entry α) (l : List (Entry α)) (d : Nat)
    (hd : ptr[e.readCol]? = some d) (h : RangesDisjoint ptr (e :: l)) (i : Nat) :
    destOf (ptr.setIfInBounds e.readCol (d + 1)) l i ≠ some d := by
  have hlt : e.readCol < ptr.size := by
    rcases Array.getElem?_eq_some_iff.mp hd with ⟨h, _⟩; exact h
  unfold destOf
  cases hl : l[i]? with
  | none => simp
  | some e' =>
    simp only [Option.bind_some]
    by_cases hc : e.readCol = e'.readCol
    · rw [← hc, Array.getElem?_setIfInBounds_self_of_lt hlt]
      simp
      omega
    · rw [Array.getElem?_setIfInBounds_ne hc]
      cases hp' : ptr[e'.readCol]? with
      | none => simp
      | some p' =>
        simp only [Option.map_some, ne_eq, Option.some.injEq]
        have hmem := cnt_take_lt l i e' hl
        have := h e.readCol e'.readCol d p' 0 (cnt e'.readCol (l.take i)) hc hd hp'
          (by rw [cnt_cons]; simp) (by rw [cnt_cons]; simp [hc]; exact hmem)
        omega

theorem placeSpec_nil (st : Csc α × Array Nat) : PlaceSpec st st [] := by
  refine ⟨rfl, rfl, rfl, rfl, rfl, rfl, ?_, ?_, ?_, ?_, ?_⟩
  · intro c; cases st.1.colptr[c]? <;> simp [cnt]
  · intro i e h; simp at h
  · intro pos _; exact ⟨rfl, rfl⟩
  · intro i e k h; simp at h
  · intro k _; rfl

theorem placeAll_spec (l : List (Entry α)) (st st' : Csc α × Array Nat)
    (hreg : Regular l) (hdis : RangesDisjoint st.1.colptr l)
    (h : l.foldlM place st = .ok st') : PlaceSpec st st' l := by
  induction l generalizing st with
  | nil =>
    simp [pure, Except.pure] at h
    subst h
    exact placeSpec_nil st
  | cons e rest ih =>
    rw [List.foldlM_cons] at h
    simp only [bind, Except.bind] at h
    split at h
    · cases h
    · rename_i st1 h1
      obtain ⟨d, hd, hdr, hdn, hk, hst1⟩ := place_ok st st1 e (hreg e (by simp)) h1
      have hlt : e.readCol < st.1.colptr.size := by
        rcases Array.getElem?_eq_some_iff.mp hd with ⟨h, _⟩; exact h
      have hptr1 : st1.1.colptr = st.1.colptr.setIfInBounds e.readCol (d + 1) := by
        rw [hst1]; rfl
      have hreg' : Regular rest := fun x hx => hreg x (by simp [hx])
      have hdis' : RangesDisjoint st1.1.colptr rest := by
        rw [hptr1]; exact rangesDisjoint_tail _ e rest d hd hdis
      have S := ih st1 hreg' hdis' h
      have hne : ∀ i, destOf st1.1.colptr rest i ≠ some d := by
        rw [hptr1]; exact destOf_tail_ne _ e rest d hd hdis
      have hrow1 : st1.1.rowval = st.1.rowval.setIfInBounds d e.row := by rw [hst1]; rfl
      have hnz1 : st1.1.nzval = st.1.nzval.setIfInBounds d e.val := by rw [hst1]; rfl
      refine ⟨?_, ?_, ?_, ?_, ?_, ?_, ?_, ?_, ?_, ?_, ?_⟩
      · rw [S.m_eq, hst1]; rfl
      · rw [S.n_eq, hst1]; rfl
      · rw [S.colptr_size, hptr1]; simp
      · rw [S.rowval_size, hrow1]; simp
      · rw [S.nzval_size, hnz1]; simp
      · rw [S.map_size, hst1]; unfold placeNext; cases e.k <;> simp
      · intro c
        rw [S.colptr_get c, hptr1, cnt_cons]
        by_cases hc : e.readCol = c
        · subst hc
          rw [Array.getElem?_setIfInBounds_self_of_lt hlt, hd]
          simp; omega
        · rw [Array.getElem?_setIfInBounds_ne hc]
          simp [hc]
      · intro i x hx
        cases i with
        | zero =>
          simp at hx
          subst hx
          refine ⟨d, by rw [destOf_zero]; exact hd, ?_, ?_⟩
          · rw [(S.untouched d hne).1, hrow1]
            exact Array.getElem?_setIfInBounds_self_of_lt hdr
          · rw [(S.untouched d hne).2, hnz1]
            exact Array.getElem?_setIfInBounds_self_of_lt hdn
        | succ i =>
          simp at hx
          obtain ⟨d', hd', hr, hn⟩ := S.written i x hx
          refine ⟨d', ?_, hr, hn⟩
          rw [destOf_succ _ e rest i d hd, ← hptr1]; exact hd'
      · intro pos hpos
        have hposd : pos ≠ d := by
          intro hh
          have := hpos 0
          rw [destOf_zero, hd, hh] at this
          exact this rfl
        have hpos' : ∀ i, destOf st1.1.colptr rest i ≠ some pos := by
          intro i
          have := hpos (i + 1)
          rw [destOf_succ _ e rest i d hd, ← hptr1] at this
          exact this
        obtain ⟨hr, hn⟩ := S.untouched pos hpos'
        refine ⟨?_, ?_⟩
        · rw [hr, hrow1]; exact Array.getElem?_setIfInBounds_ne (Ne.symm hposd)
        · rw [hn, hnz1]; exact Array.getElem?_setIfInBounds_ne (Ne.symm hposd)
      · intro i x k hx hxk hlater
        cases i with
        | zero =>
          simp at hx
          subst hx
          rw [destOf_zero, hd]
          have hun := S.map_untouched k (by
            intro e' he'
            obtain ⟨j, hj⟩ := List.getElem?_of_mem he'
            exact hlater (j + 1) e' (by omega) (by simpa using hj))
          rw [hun, hst1]
          unfold placeNext
          simp only [hxk]
          exact Array.getElem?_setIfInBounds_self_of_lt (hk k hxk)
        | succ i =>
          simp at hx
          have := S.map_written i x k hx hxk (by
            intro j e' hij hj
            exact hlater (j + 1) e' (by omega) (by simpa using hj))
          rw [this, destOf_succ _ e rest i d hd, ← hptr1]
      · intro k hk'
        have hun := S.map_untouched k (fun e' he' => hk' e' (by simp [he']))
        rw [hun, hst1]
        unfold placeNext
        have hek := hk' e (by simp)
        cases hke : e.k with
        | none => rfl
        | some k0 =>
          simp only
          have : k0 ≠ k := by intro hh; rw [hke, hh] at hek; exact hek rfl
          exact Array.getElem?_setIfInBounds_ne this

theorem destOf_lt_ne (ptr : Array Nat) (l : List (Entry α)) (hdis : RangesDisjoint ptr l)
    (i j d : Nat) (hij : i < j) (hi : destOf ptr l i = some d) : destOf ptr l j ≠ some d := by
  intro hj
  unfold destOf at hi hj
  cases hli : l[i]? with
  | none => simp [hli] at hi
  | some e =>
    cases hlj : l[j]? with
    | none => simp [hlj] at hj
    | some e' =>
      simp only [hli, hlj, Option.bind_some] at hi hj
      cases hp : ptr[e.readCol]? with
      | none => simp [hp] at hi
      | some p =>
        cases hp' : ptr[e'.readCol]? with
        | none => simp [hp'] at hj
        | some p' =>
          simp only [hp, hp', Option.map_some, Option.some.injEq] at hi hj
          have h1 := cnt_take_lt l i e hli
          have h2 := cnt_take_lt l j e' hlj
          by_cases hc : e.readCol = e'.readCol
          · rw [← hc] at hp' hj
            rw [hp] at hp'
            cases hp'
            have h3 : (l.take j)[i]? = some e := by
              rw [List.getElem?_take]; simp [hij, hli]
            have h4 := cnt_take_lt (l.take j) i e h3
            rw [List.take_take] at h4
            have : min i j = i := by omega
            rw [this] at h4
            omega
          · exact hdis e.readCol e'.readCol p p' _ _ hc hp hp' h1 h2 (by omega)

/-- `exclusiveCumsum` as a specification: entry `i` is the sum of the first `i` counts -/
theorem exclusiveCumsum_aux (xs : List Nat) (s : Nat) (acc : List Nat) :
    (xs.foldl (fun (st : Nat × List Nat) c => (st.1 + c, st.1 :: st.2)) (s, acc)).2.reverse
      = acc.reverse ++ (List.range xs.length).map (fun i => s + (xs.take i).sum) := by
  induction xs generalizing s acc with
  | nil => simp
  | cons x t ih =>
    simp only [List.foldl_cons]
    rw [ih]
    simp only [List.reverse_cons, List.append_assoc, List.length_cons]
    rw [List.range_succ_eq_map]
    simp only [List.map_cons, List.take_zero, List.sum_nil, Nat.add_zero, List.singleton_append,
      List.map_map]
    congr 2
    apply List.map_congr_left
    intro i _
    simp [List.take_succ_cons]
    omega

theorem exclusiveCumsum_eq (xs : List Nat) :
    exclusiveCumsum xs = (List.range xs.length).map (fun i => (xs.take i).sum) := by
  unfold exclusiveCumsum
  rw [exclusiveCumsum_aux]
  simp

theorem sum_take_succ_le (xs : List Nat) (i j : Nat) (x : Nat) (hij : i < j) (hx : xs[i]? = some x) :
    (xs.take i).sum + x ≤ (xs.take j).sum := by
  induction xs generalizing i j with
  | nil => simp at hx
  | cons y t ih =>
    cases j with
    | zero => omega
    | succ j =>
      cases i with
      | zero =>
        simp at hx
        subst hx
        simp [List.take_succ_cons]
      | succ i =>
        simp at hx
        simp only [List.take_succ_cons, List.sum_cons]
        have := ih i j (by omega) hx
        omega

/-- After `colcount_to_colptr`, columns whose counts cover the schedule have pairwise
disjoint free ranges. -/
theorem rangesDisjoint_cumsum (counts : List Nat) (l : List (Entry α))
    (hcap : ∀ c x, counts[c]? = some x → cnt c l ≤ x) :
    RangesDisjoint (exclusiveCumsum counts).toArray l := by
  intro c c' p p' a b hne hp hp' ha hb
  rw [exclusiveCumsum_eq] at hp hp'
  simp only [List.getElem?_toArray, List.getElem?_map] at hp hp'
  cases hc : (List.range counts.length)[c]? with
  | none => simp [hc] at hp
  | some c0 =>
    cases hc' : (List.range counts.length)[c']? with
    | none => simp [hc'] at hp'
    | some c0' =>
      simp only [hc, hc', Option.map_some, Option.some.injEq] at hp hp'
      have hcl : c < counts.length ∧ c0 = c := by
        rcases List.getElem?_eq_some_iff.mp hc with ⟨h, h'⟩
        simp at h h'
        exact ⟨h, h'.symm⟩
      have hcl' : c' < counts.length ∧ c0' = c' := by
        rcases List.getElem?_eq_some_iff.mp hc' with ⟨h, h'⟩
        simp at h h'
        exact ⟨h, h'.symm⟩
      obtain ⟨h1, rfl⟩ := hcl
      obtain ⟨h1', rfl⟩ := hcl'
      have hx : counts[c0]? = some counts[c0] := List.getElem?_eq_getElem h1
      have hx' : counts[c0']? = some counts[c0'] := List.getElem?_eq_getElem h1'
      have k1 := hcap c0 _ hx
      have k2 := hcap c0' _ hx'
      rcases Nat.lt_or_gt_of_ne hne with hlt | hgt
      · have := sum_take_succ_le counts c0 c0' _ hlt hx
        omega
      · have := sum_take_succ_le counts c0' c0 _ hgt hx'
        omega


/-- `placeAll` is the fold of `place` (by definition) -/
theorem placeAll_eq (K : Csc α) (map : Array Nat) (sched : List (Entry α)) :
    placeAll K map sched = sched.foldlM place (K, map) := rfl

-- ------------------------------------------------------------------ schedules are regular

theorem regular_map_mk' {ι : Type} (l : List ι) (f : ι → Nat × Nat × α × Nat) :
    Regular (l.map (fun i => Entry.mk' (f i).1 (f i).2.1 (f i).2.2.1 (f i).2.2.2)) := by
  intro e he
  simp only [List.mem_map] at he
  obtain ⟨i, _, rfl⟩ := he
  rfl

variable [OfNat α 0]

theorem colvecSchedule_regular (len r c : Nat) : Regular (colvecSchedule (α := α) len r c) := by
  intro e he
  simp only [colvecSchedule, List.mem_map] at he
  obtain ⟨i, _, rfl⟩ := he
  rfl

theorem rowvecSchedule_regular (len r c : Nat) : Regular (rowvecSchedule (α := α) len r c) := by
  intro e he
  simp only [rowvecSchedule, List.mem_map] at he
  obtain ⟨i, _, rfl⟩ := he
  rfl

theorem diagSchedule_regular (off d : Nat) : Regular (diagSchedule (α := α) off d) := by
  intro e he
  simp only [diagSchedule, List.mem_map] at he
  obtain ⟨i, _, rfl⟩ := he
  rfl

theorem denseTriuSchedule_regular (off d : Nat) : Regular (denseTriuSchedule (α := α) off d) := by
  intro e he
  simp only [denseTriuSchedule, List.mem_map] at he
  obtain ⟨i, _, rfl⟩ := he
  rfl

theorem denseTrilSchedule_regular (off d : Nat) : Regular (denseTrilSchedule (α := α) off d) := by
  intro e he
  simp only [denseTrilSchedule, List.mem_map] at he
  obtain ⟨i, _, rfl⟩ := he
  rfl

-- ------------------------------------------------------------------ a worked corollary

theorem diagSchedule_get (off d i : Nat) (hi : i < d) :
    (diagSchedule (α := α) off d)[i]? = some (Entry.mk' (off + i) (off + i) 0 i) := by
  simp [diagSchedule, hi]

/-- `fill_diag` [S]: with disjoint free ranges, entry `i` of the block goes to the slot
the counter of column `offset+i` pointed at, that slot is recorded in `diagtoKKT[i]`, and
it holds a structural zero in row `offset+i`. -/
theorem fillDiag_spec (K K' : Csc α) (map map' : Array Nat) (off d : Nat)
    (hdis : RangesDisjoint K.colptr (diagSchedule (α := α) off d))
    (h : fillDiag K map off d = .ok (K', map')) (i : Nat) (hi : i < d) :
    ∃ p, K.colptr[off + i]? = some p ∧ map'[i]? = some p ∧
      K'.rowval[p]? = some (off + i) ∧ K'.nzval[p]? = some 0 := by
  have S := placeAll_spec _ (K, map) (K', map') (diagSchedule_regular off d) hdis h
  have hget := diagSchedule_get (α := α) off d i hi
  obtain ⟨p, hp, hr, hn⟩ := S.written i _ hget
  have hcnt : cnt (off + i) ((diagSchedule (α := α) off d).take i) = 0 := by
    unfold cnt
    rw [List.countP_eq_zero]
    intro e he
    have := List.mem_take_iff_getElem.mp he
    obtain ⟨j, hj, rfl⟩ := this
    have hjd : j < d := by
      have : (diagSchedule (α := α) off d).length = d := by simp [diagSchedule]
      omega
    have hg : (diagSchedule (α := α) off d)[j] = Entry.mk' (off + j) (off + j) 0 j := by
      have := diagSchedule_get (α := α) off d j hjd
      rcases List.getElem?_eq_some_iff.mp this with ⟨_, h'⟩
      exact h'
    rw [hg]
    simp only [Entry.mk', beq_iff_eq]
    omega
  have hdest : destOf K.colptr (diagSchedule (α := α) off d) i = K.colptr[off + i]? := by
    unfold destOf
    rw [hget]
    simp only [Option.bind_some, Entry.mk', hcnt]
    cases K.colptr[off + i]? <;> simp
  rw [hdest] at hp
  refine ⟨p, hp, ?_, hr, hn⟩
  have := S.map_written i _ i hget rfl (by
    intro j e' hij hj
    have hjd : j < d := by
      rcases List.getElem?_eq_some_iff.mp hj with ⟨h, _⟩
      simpa [diagSchedule] using h
    rw [diagSchedule_get off d j hjd] at hj
    cases hj
    simp [Entry.mk']
    omega)
  rw [this, hdest, hp]

end Clarabel.Lemmas.KktPlace
