/-
  C07, round 7: an accepted pass has had both `eigvals` calls of every non-empty PSD block answered.

  `Blk.LapackOk` asks `γz = some gz`, `γs = some gs` (`?syevr` returned `info = 0`).  For a pass that
  reaches `add_step` this is not an assumption but a consequence of the code: a failed `eigvals`
  makes `step_length_psd_component` return `0`, the composite step length is a minimum over the cones,
  so `calc_step_length` returns `α ≤ 0`, `get_step_length` returns `a ≤ 0`, and
  `strategy_checkpoint_small_step` does not answer `NoUpdate` for `a ≤ max(0, min_terminate_step_length)`.
-/
import ClarabelProofs.Lemmas.StepKPsdLapack

namespace Clarabel.StepK
open Clarabel Nonsym Loop.Step PsdStep PsdTri

theorem backtrack_nonpos (step : ℝ) (ok : ℝ → Bool) (hs0 : 0 < step) :
    ∀ (n : Nat) (a : ℝ), a ≤ 0 → backtrack step ok n a ≤ 0
  | 0, a, ha => ha
  | n + 1, a, ha => by
    unfold backtrack
    split
    · exact ha
    · exact backtrack_nonpos step ok hs0 n _ (mul_nonpos_of_nonneg_of_nonpos hs0.le ha)

theorem Backtracked.nonpos {btStep α a : ℝ} (h : Backtracked btStep α a) (hb0 : 0 < btStep)
    (hα : α ≤ 0) : a ≤ 0 := by
  rcases h with rfl | ⟨ok, rfl⟩
  · exact hα
  · exact backtrack_nonpos btStep ok hb0 50 α hα

/-- [S]-style reading of `PSDTriangleCone::step_length` on a non-empty cone: a component whose
`eigvals` call failed is `0` -/
theorem psd_stepLength_failed (K : Cone ℝ) (dz ds : Array ℝ) (γz γs : Option ℝ) (amax : ℝ)
    (r : ℝ × ℝ) (h : PsdStep.stepLength K dz ds γz γs amax = .ok r) (hn : 0 < K.n) :
    (γz = none → r.1 = 0) ∧ (γs = none → r.2 = 0) := by
  unfold PsdStep.stepLength at h
  cases h1 : mulWx false K.n K.R dz dz 1 0 with
  | error e => rw [h1] at h; cases h
  | ok dzW =>
    cases h2 : mulWx true K.n K.Rinv ds ds 1 0 with
    | error e => rw [h1, h2] at h; cases h
    | ok dsW =>
      rw [h1, h2] at h
      simp only [bind, Except.bind, pure, Except.pure, Except.ok.injEq] at h
      have s1 : dzW.size ≠ 0 := by rw [mulWx_size _ _ _ _ _ _ _ _ h1]; exact tri_pos hn
      have s2 : dsW.size ≠ 0 := by rw [mulWx_size _ _ _ _ _ _ _ _ h2]; exact tri_pos hn
      rw [← h]
      constructor
      · intro e; subst e
        simp only [stepLengthPsdComponent, s1, ↓reduceIte]
      · intro e; subst e
        simp only [stepLengthPsdComponent, s2, ↓reduceIte]

/-- [R] **an accepted pass has had every `eigvals` call of its non-empty PSD blocks answered**:
if `calc_step_length` returned `α`, `get_step_length` returned `a` and the small-step checkpoint let
`a` through to `add_step`, then for every PSD block of order `n > 0` of the pass neither `γz` nor
`γs` is `none` -/
theorem accepted_eigvals_answered {c : StepCfg} (hc : c.Ok) {cfg : Loop.Config ℝ} {sc : Loop.Scaling}
    {q p' : Pt ℝ} {α a : ℝ} (hcalc : calcStepLength c.maxValue c.ls q true c.f = .ok α)
    (hbt : Backtracked c.btStep α a) (hacc : acceptStep cfg sc q a = some p')
    (K : Cone ℝ) (γz γs : Option ℝ) (z s dz ds : Array ℝ)
    (hb : Blk.psd K γz γs z s dz ds ∈ q.blks) (hn : 0 < K.n) : γz ≠ none ∧ γs ≠ none := by
  obtain ⟨_, _, _, hf0, _, hb0, _⟩ := hc
  obtain ⟨hnu, _⟩ := acceptStep_some hacc
  have hpos : 0 < a := by
    unfold Loop.cpSmallStep at hnu
    split at hnu
    · cases hnu
    · split at hnu
      · cases hnu
      · rename_i hle
        have hle' : ¬ a ≤ max 0 cfg.minTerminateStepLength := hle
        exact lt_of_le_of_lt (le_max_left _ _) (not_le.mp hle')
  obtain ⟨r, hr, hα⟩ := calcStepLength_ok c.maxValue c.ls q true c.f α hcalc
  simp only [↓reduceIte] at hα
  unfold coneStep at hr
  obtain ⟨e12, _, _, hall⟩ := Composite.stepLength_general _ _ _ r hr
  obtain ⟨a', rc, _, hrc, g1, g2, _⟩ := hall (Blk.coneFn c.ls (.psd K γz γs z s dz ds))
    (List.mem_map.mpr ⟨_, hb, rfl⟩)
  simp only [Blk.coneFn] at hrc
  obtain ⟨f1, f2⟩ := psd_stepLength_failed K dz ds γz γs a' rc hrc hn
  by_contra hcon
  have hr0 : r.1 ≤ 0 := by
    by_cases hz : γz = none
    · rw [← f1 hz]; exact g1
    · have hs' : γs = none := by
        by_contra hs'
        exact hcon ⟨hz, hs'⟩
      rw [← f2 hs']; exact g2
  have hα0 : α ≤ 0 := by
    rw [hα, ← e12, min_self]
    exact mul_nonpos_of_nonpos_of_nonneg hr0 hf0.le
  linarith [hbt.nonpos hb0 hα0]

/-! ## the LAPACK contracts in conditional form -/

/-- the LAPACK contracts of one PSD block of a pass in **conditional form**: as `Blk.LapackOk`, but
the two `?syevr` calls are only asked to be *right whenever they answer* (`γ = some g →` `g` is the
least eigenvalue of the matrix handed over); that they do answer in an accepted pass is derived
(`accepted_eigvals_answered`) -/
def Blk.LapackSound : Blk ℝ → Prop
  | .psd K γz γs z s dz ds =>
    s.isEmpty = false ∧
    (∃ (K0 : Cone ℝ) (L1 L2 U Vt sig : Array ℝ),
      updateScaling K0 s z ⟨some L1, some L2, some (U, Vt, sig)⟩ = .ok (true, K) ∧
      ScalingLapackOk K.n s z L1 L2 U Vt sig) ∧
    (∀ gz, γz = some gz → ∀ d, mulW K false dz dz 1 0 = .ok d →
      IsMinEig K.n (scaledDir d K.lamIsqrt) gz) ∧
    (∀ gs, γs = some gs → ∀ d, mulWinv K true ds ds 1 0 = .ok d →
      IsMinEig K.n (scaledDir d K.lamIsqrt) gs)
  | _ => True

def LapackPassSound (q : Pt ℝ) : Prop := ∀ b ∈ q.blks, b.LapackSound

theorem Blk.LapackOk.sound {b : Blk ℝ} (h : b.LapackOk) : b.LapackSound := by
  cases b with
  | psd K γz γs z s dz ds =>
    obtain ⟨hs, hup, gz, gs, e1, e2, hγz, hγs⟩ := h
    refine ⟨hs, hup, ?_, ?_⟩
    · intro g hg; rw [e1] at hg; cases hg; exact hγz
    · intro g hg; rw [e2] at hg; cases hg; exact hγs
  | zero z s dz ds => trivial
  | nn z s dz ds => trivial
  | soc z s dz ds => trivial
  | exp z s dz ds => trivial
  | pow a z s dz ds => trivial
  | genpow al z s dz ds => trivial

/-- `AcceptedPass` with the conditional LAPACK contracts attached -/
def AcceptedPassS (c : StepCfg) (cfg : Loop.Config ℝ) (sc : Loop.Scaling) (p p' : Pt ℝ) : Prop :=
  ∃ q α a, Pt.SamePoint p q ∧ q.DirOk ∧ LapackPassSound q ∧
    calcStepLength c.maxValue c.ls q true c.f = .ok α ∧ Backtracked c.btStep α a ∧
    acceptStep cfg sc q a = some p'

/-- [R] in an accepted pass the conditional contracts are the unconditional ones: every `eigvals`
call of a non-empty PSD block has been answered -/
theorem AcceptedPassS.toL {c : StepCfg} (hc : c.Ok) {cfg : Loop.Config ℝ} {sc : Loop.Scaling}
    {p p' : Pt ℝ} (h : AcceptedPassS c cfg sc p p') : AcceptedPassL c cfg sc p p' := by
  obtain ⟨q, α, a, h1, h2, h3, h4, h5, h6⟩ := h
  refine ⟨q, α, a, h1, h2, ?_, h4, h5, h6⟩
  intro b hb
  have hsd := h3 b hb
  cases b with
  | psd K γz γs z s dz ds =>
    obtain ⟨hs, ⟨K0, L1, L2, U, Vt, sig, hup, hcn⟩, hγz, hγs⟩ := hsd
    obtain ⟨_, hn, _, _⟩ := updateScaling_lapack_nt K0 K s z L1 L2 U Vt sig hs hup hcn
    obtain ⟨nz, ns⟩ := accepted_eigvals_answered hc h4 h5 h6 K γz γs z s dz ds hb hn
    obtain ⟨gz, e1⟩ := Option.ne_none_iff_exists'.mp nz
    obtain ⟨gs, e2⟩ := Option.ne_none_iff_exists'.mp ns
    exact ⟨hs, ⟨K0, L1, L2, U, Vt, sig, hup, hcn⟩, gz, gs, e1, e2, hγz gz e1, hγs gs e2⟩
  | zero z s dz ds => trivial
  | nn z s dz ds => trivial
  | soc z s dz ds => trivial
  | exp z s dz ds => trivial
  | pow a z s dz ds => trivial
  | genpow al z s dz ds => trivial

theorem AcceptedPassL.toS {c : StepCfg} {cfg : Loop.Config ℝ} {sc : Loop.Scaling} {p p' : Pt ℝ}
    (h : AcceptedPassL c cfg sc p p') : AcceptedPassS c cfg sc p p' := by
  obtain ⟨q, α, a, h1, h2, h3, h4, h5, h6⟩ := h
  exact ⟨q, α, a, h1, h2, fun b hb => (h3 b hb).sound, h4, h5, h6⟩

/-- `Traj` with the conditional LAPACK contracts attached to every accepted pass -/
inductive TrajS (c : StepCfg) (cfg : Loop.Config ℝ) (p0 : Pt ℝ) : List (Pt ℝ) → Prop
  | start : TrajS c cfg p0 [p0]
  | step {p p' : Pt ℝ} {hist : List (Pt ℝ)} (sc : Loop.Scaling) :
      TrajS c cfg p0 (p :: hist) → AcceptedPassS c cfg sc p p' → TrajS c cfg p0 (p' :: p :: hist)
  | rollback {p q : Pt ℝ} {hist : List (Pt ℝ)} :
      TrajS c cfg p0 (p :: q :: hist) → TrajS c cfg p0 (q :: p :: q :: hist)

theorem TrajS.toTrajL {c : StepCfg} (hc : c.Ok) {cfg : Loop.Config ℝ} {p0 : Pt ℝ} {l : List (Pt ℝ)}
    (h : TrajS c cfg p0 l) : TrajL c cfg p0 l := by
  induction h with
  | start => exact .start
  | step sc _ hpass ih => exact .step sc ih (hpass.toL hc)
  | rollback _ ih => exact .rollback ih

theorem TrajL.toTrajS {c : StepCfg} {cfg : Loop.Config ℝ} {p0 : Pt ℝ} {l : List (Pt ℝ)}
    (h : TrajL c cfg p0 l) : TrajS c cfg p0 l := by
  induction h with
  | start => exact .start
  | step sc _ hpass ih => exact .step sc ih hpass.toS
  | rollback _ ih => exact .rollback ih

/-- [R] every iterate of every solve is interior, all seven cone kinds, under the conditional LAPACK
contracts -/
theorem TrajS.interiorAllP {c : StepCfg} (hc : c.Ok) {cfg : Loop.Config ℝ} {p0 : Pt ℝ}
    (h0 : p0.InteriorAllP) {l : List (Pt ℝ)} (h : TrajS c cfg p0 l) : ∀ p ∈ l, p.InteriorAllP :=
  (h.toTrajL hc).interiorAllP hc h0

end Clarabel.StepK
