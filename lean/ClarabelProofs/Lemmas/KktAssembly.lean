/-
  Glue: from `assembleKktMatrix` (model of `assemble_kkt_matrix`) to the fill engine.
  * `assembleKktMatrix_link`: the counting pass produces exactly the column counts of the
    concatenated fill schedule (`KktCount`), so the free ranges are disjoint
    (`rangesDisjoint_cumsum`) and the fill pass is one run of the engine (`KktFillLink`).
  * `assembleKktMatrix_triu_canonical`: with the column-order theorem of `KktSorted`, the
    assembled upper triangle has strictly increasing rows in every column, the diagonal entry
    last, and `diag_full[c]` is its position.
-/
import ClarabelProofs.Lemmas.KktCount
import ClarabelProofs.Lemmas.KktFillLink
import ClarabelProofs.Lemmas.KktRestore
import ClarabelProofs.Lemmas.KktSorted

set_option linter.unusedSectionVars false
set_option linter.unusedSimpArgs false
set_option linter.unusedVariables false

namespace Clarabel.Lemmas.KktAssembly
open Clarabel Clarabel.Csc Clarabel.Kkt
open Clarabel.Lemmas.KktPlace Clarabel.Lemmas.KktCount Clarabel.Lemmas.KktFillLink
open Clarabel.Lemmas.KktSorted

variable {α : Type} [OfNat α 0]

/-- peel `assembleKktMatrix` into its two passes -/
theorem assembleKktMatrix_inv (P A : Csc α) (cones : List ConeSpec) (shape : MatrixTriangle)
    (K : Csc α) (map : LDLDataMap) (h : assembleKktMatrix P A cones shape = .ok (K, map)) :
    ∃ (nnz : Nat) (Kc : Csc α),
      kktAssembleColcounts (spalloc (A.m + A.n + pdimAll (LDLDataMap.new P A cones).sparse_maps)
        (A.m + A.n + pdimAll (LDLDataMap.new P A cones).sparse_maps) nnz) P A cones shape = .ok Kc ∧
      kktAssembleFill Kc P A cones (LDLDataMap.new P A cones) shape = .ok (K, map) := by
  unfold assembleKktMatrix at h
  obtain ⟨nd, _, h⟩ := except_bind_eq_ok h
  obtain ⟨_, _, h⟩ := except_bind_eq_ok h
  obtain ⟨_, _, h⟩ := except_bind_eq_ok h
  split at h
  · cases h
  · obtain ⟨Kc, hc, h⟩ := except_bind_eq_ok h
    exact ⟨_, Kc, hc, h⟩


/-- `colcount_to_colptr` turns exact counts into consecutive column pointers -/
theorem cumsum_succ (counts : List Nat) (c x : Nat) (hx : counts[c]? = some x) :
    (exclusiveCumsum counts)[c]?.map (· + x) =
      if c + 1 < counts.length then (exclusiveCumsum counts)[c + 1]? else some (counts.sum) := by
  have hc : c < counts.length := by
    rcases List.getElem?_eq_some_iff.mp hx with ⟨h, _⟩; exact h
  have hxe : counts[c] = x := by
    rcases List.getElem?_eq_some_iff.mp hx with ⟨_, h⟩; exact h
  rw [exclusiveCumsum_eq]
  simp only [List.getElem?_map, List.getElem?_range hc, Option.map_some]
  have hts : (counts.take (c + 1)).sum = (counts.take c).sum + x := by
    rw [List.take_add_one, List.sum_append, hx]; simp
  split
  · rename_i h1
    simp [List.getElem?_range h1, hts]
  · rename_i h1
    have : c + 1 = counts.length := by omega
    have h2 : counts.take (c + 1) = counts := by rw [this]; exact List.take_length
    rw [h2] at hts
    simp [hts]

/-- [S] The link from `assemble_kkt_matrix` to the fill engine.  With `P`, `A` well formed
(`WF`: `colptr` starts at 0, is monotone and ends at `nnz`), if the assembly succeeds and
`sched` is the concatenated fill schedule, then the counting pass has produced exactly the
column counts of `sched`, hence:
* `K.colptr[0] = 0` and `K.colptr[c+1] = K.colptr[c] + #{entries of sched in column c}`;
* the `i`-th scheduled entry `(col,row,val)` is stored at
  `K.colptr[col] + #{earlier entries of column col}`, which lies inside column `col`;
* positions that are no destination keep the allocation value. -/
theorem assembleKktMatrix_link (P A : Csc α) (cones : List ConeSpec) (shape : MatrixTriangle)
    (K : Csc α) (map : LDLDataMap) (sched : List (Entry α))
    (hP : WF P) (hA : WF A)
    (hs : kktSchedule P A cones shape = .ok sched)
    (h : assembleKktMatrix P A cones shape = .ok (K, map)) :
    K.n = A.m + A.n + pdimAll (LDLDataMap.new P A cones).sparse_maps ∧
    K.m = K.n ∧ K.colptr.size = K.n + 1 ∧ K.nzval.size = K.rowval.size ∧
    K.colptr[0]? = some 0 ∧
    (∀ c, c < K.n → ∃ p, K.colptr[c]? = some p ∧ K.colptr[c + 1]? = some (p + cnt c sched)) ∧
    (∀ i e, sched[i]? = some e → ∃ p, K.colptr[e.readCol]? = some p ∧
        K.rowval[p + cnt e.readCol (sched.take i)]? = some e.row ∧
        K.nzval[p + cnt e.readCol (sched.take i)]? = some e.val ∧
        cnt e.readCol (sched.take i) < cnt e.readCol sched) := by
  obtain ⟨nnz, Kc, hc, hf⟩ := assembleKktMatrix_inv P A cones shape K map h
  generalize hN : A.m + A.n + pdimAll (LDLDataMap.new P A cones).sparse_maps = N at hc
  have hcnt := kktAssembleColcounts_counts _ Kc P A cones shape sched hP hA hc hs
  have hfr := kktAssembleColcounts_frame _ Kc P A cones shape sched hP hA hc hs
  have hsz0 : (spalloc N N nnz : Csc α).colptr.size = N + 1 := by simp [spalloc]
  rw [hsz0] at hcnt
  obtain ⟨hKcsz, hKcget⟩ := hcnt
  -- the counters cover the schedule, so the free ranges are disjoint
  have hcap : ∀ c x, Kc.colptr.toList[c]? = some x → cnt c sched ≤ x := by
    intro c x hx
    have hc' : c < N + 1 := by
      rcases List.getElem?_eq_some_iff.mp hx with ⟨h, _⟩
      simpa [hKcsz] using h
    have := hKcget c hc'
    rw [← Array.getElem?_toList, hx] at this
    cases this; exact Nat.le_refl _
  have hdis : RangesDisjoint (colcountToColptr Kc).colptr sched :=
    rangesDisjoint_cumsum Kc.colptr.toList sched hcap
  have S := kktAssembleFill_spec_new Kc K P A cones map shape sched hs hdis hf
  obtain ⟨hm, hn, hrs, hns, hcs, hc0, hcget, hwr, _⟩ := S
  have hKn : K.n = N := by rw [hn, hfr.2.1]; rfl
  have hKm : K.m = N := by rw [hm, hfr.1]; rfl
  have hptr0 : (colcountToColptr Kc).colptr = (exclusiveCumsum Kc.colptr.toList).toArray := rfl
  have hlen : Kc.colptr.toList.length = N + 1 := by simpa using hKcsz
  -- pointers: ptr0[c] and ptr0[c] + cnt c = ptr0[c+1]
  have hptr : ∀ c, c < N → ∃ p, (colcountToColptr Kc).colptr[c]? = some p ∧
      K.colptr[c]? = some p ∧ K.colptr[c + 1]? = some (p + cnt c sched) := by
    intro c hcN
    have hxc : Kc.colptr.toList[c]? = some (cnt c sched) := by
      rw [Array.getElem?_toList]; exact hKcget c (by omega)
    have hp : ∃ p, (colcountToColptr Kc).colptr[c]? = some p := by
      rw [hptr0, exclusiveCumsum_eq]
      simp only [List.getElem?_toArray, List.getElem?_map]
      rw [List.getElem?_range (by omega)]
      exact ⟨_, rfl⟩
    obtain ⟨p, hp⟩ := hp
    have h1 : K.colptr[c + 1]? = some (p + cnt c sched) := by
      rw [hcget c (by rw [hKcsz]; omega), hp]; rfl
    refine ⟨p, hp, ?_, h1⟩
    cases c with
    | zero =>
      have : p = 0 := by
        rw [hptr0, exclusiveCumsum_eq] at hp
        simp only [List.getElem?_toArray, List.getElem?_map] at hp
        rw [List.getElem?_range (by omega)] at hp
        simpa using hp.symm
      rw [this]; exact hc0 (by rw [hKcsz]; omega)
    | succ c' =>
      have hxc' : Kc.colptr.toList[c']? = some (cnt c' sched) := by
        rw [Array.getElem?_toList]; exact hKcget c' (by omega)
      have hcs' := cumsum_succ Kc.colptr.toList c' _ hxc'
      rw [if_pos (by omega)] at hcs'
      rw [hcget c' (by rw [hKcsz]; omega), hptr0]
      simp only [List.getElem?_toArray]
      rw [hcs', ← List.getElem?_toArray, ← hptr0, hp]
  have hptrAll : ∀ c, c ≤ N → (colcountToColptr Kc).colptr[c]? = K.colptr[c]? := by
    intro c hcN
    cases c with
    | zero =>
      rw [hc0 (by rw [hKcsz]; omega), hptr0, exclusiveCumsum_eq]
      simp only [List.getElem?_toArray, List.getElem?_map]
      rw [List.getElem?_range (by omega)]
      simp
    | succ c' =>
      have hxc' : Kc.colptr.toList[c']? = some (cnt c' sched) := by
        rw [Array.getElem?_toList]; exact hKcget c' (by omega)
      have hcs' := cumsum_succ Kc.colptr.toList c' _ hxc'
      rw [if_pos (by omega)] at hcs'
      rw [hcget c' (by rw [hKcsz]; omega), hptr0]
      simp only [List.getElem?_toArray]
      rw [hcs']
  refine ⟨hKn, by rw [hKm, hKn], by rw [hcs, hKcsz, hKn], ?_, hc0 (by rw [hKcsz]; omega), ?_, ?_⟩
  · rw [hns, hrs, hfr.2.2.1, hfr.2.2.2]; simp [spalloc]
  · intro c hcK
    obtain ⟨p, _, h1, h2⟩ := hptr c (by omega)
    exact ⟨p, h1, h2⟩
  · intro i e hie
    obtain ⟨d, hd, hr, hv⟩ := hwr i e hie
    unfold destOf at hd
    rw [hie] at hd
    simp only [Option.bind_some] at hd
    cases hpe : (colcountToColptr Kc).colptr[e.readCol]? with
    | none => simp [hpe] at hd
    | some p0 =>
      simp only [hpe, Option.map_some, Option.some.injEq] at hd
      have hlt : e.readCol < N + 1 := by
        rw [hptr0] at hpe
        rcases Array.getElem?_eq_some_iff.mp hpe with ⟨hh, _⟩
        rw [exclusiveCumsum_eq] at hh
        simpa [hlen] using hh
      have hsame := hptrAll e.readCol (by omega)
      rw [hpe] at hsame
      refine ⟨p0, hsame.symm, by rw [hd]; exact hr, by rw [hd]; exact hv, cnt_take_lt sched i e hie⟩

theorem kktAssembleFill_diag_triu (K K' P A : Csc α) (cones : List ConeSpec) (map map' : LDLDataMap)
    (h : kktAssembleFill K P A cones map .triu = .ok (K', map')) :
    map'.diag_full.toList = (K'.colptr.toList.drop 1).map (· - 1) ∧
    (∀ x ∈ K'.colptr.toList.drop 1, x ≠ 0) ∧
    map'.diagP.toList = ((K'.colptr.toList.drop 1).take A.n).map (· - 1) := by
  unfold kktAssembleFill at h
  simp only [] at h
  obtain ⟨r1, _, h⟩ := except_bind_eq_ok h
  obtain ⟨r2, _, h⟩ := except_bind_eq_ok h
  obtain ⟨r3, _, h⟩ := except_bind_eq_ok h
  obtain ⟨r4, _, h⟩ := except_bind_eq_ok h
  obtain ⟨st, _, h⟩ := except_bind_eq_ok h
  obtain ⟨Kb, _, h⟩ := except_bind_eq_ok h
  by_cases h1 : ((List.drop 1 Kb.colptr.toList).length != map.diag_full.size) = true
  · rw [if_pos h1] at h; cases h
  rw [if_neg h1] at h
  by_cases h2 : ((List.drop 1 Kb.colptr.toList).any fun x => x == 0) = true
  · rw [if_pos h2] at h; cases h
  rw [if_neg h2] at h
  by_cases h3 : ((List.take A.n (List.drop 1 Kb.colptr.toList)).length != A.n || A.n != map.diagP.size) = true
  · rw [if_pos h3] at h; cases h
  rw [if_neg h3] at h
  simp only [pure, Except.pure, bind, Except.bind] at h
  cases h
  refine ⟨by simp, ?_, by simp⟩
  intro x hx hx0
  apply h2
  rw [List.any_eq_true]
  exact ⟨x, hx, by simp [hx0]⟩

theorem filter_get_index {β : Type} (p : β → Bool) (l : List β) (t : Nat) (e : β)
    (h : (l.filter p)[t]? = some e) :
    ∃ i, l[i]? = some e ∧ p e = true ∧ (l.take i).countP p = t := by
  induction l generalizing t with
  | nil => simp at h
  | cons x xs ih =>
    by_cases hx : p x = true
    · rw [List.filter_cons_of_pos hx] at h
      cases t with
      | zero =>
        simp at h
        subst h
        exact ⟨0, by simp, hx, by simp⟩
      | succ t =>
        simp at h
        obtain ⟨i, hi, hp, hc⟩ := ih t h
        exact ⟨i + 1, by simpa using hi, hp, by simp [List.take_succ_cons, List.countP_cons, hx, hc]⟩
    · rw [List.filter_cons_of_neg hx] at h
      obtain ⟨i, hi, hp, hc⟩ := ih t h
      exact ⟨i + 1, by simpa using hi, hp, by simp [List.take_succ_cons, List.countP_cons, hx, hc]⟩

theorem pdim_filterMap (cones : List ConeSpec) :
    pdimAll (cones.filterMap expansionMap).toArray = (cones.map conePdim).sum := by
  unfold pdimAll
  simp only [List.toList_toArray]
  suffices h : ∀ acc, (cones.filterMap expansionMap).foldl (fun acc mp => acc + mp.pdim) acc
      = acc + (cones.map conePdim).sum by simpa using h 0
  induction cones with
  | nil => intro acc; simp
  | cons c rest ih =>
    intro acc
    have key : ∀ (o : Option SparseMap), expansionMap c = o →
        (match o with | some mp => mp.pdim | none => 0) = conePdim c := by
      intro o ho
      cases c with
      | soc d =>
        by_cases hd : d > socNoExpansionMaxSize
        · simp [expansionMap, hd] at ho; subst ho
          simp [conePdim, ConeSpec.isSparseExpandable, hd, SparseMap.pdim]
        · simp [expansionMap, hd] at ho; subst ho
          simp [conePdim, ConeSpec.isSparseExpandable, hd]
      | genpow a b =>
        simp [expansionMap] at ho; subst ho
        simp [conePdim, ConeSpec.isSparseExpandable, SparseMap.pdim]
      | zero d => simp [expansionMap] at ho; subst ho; simp [conePdim, ConeSpec.isSparseExpandable]
      | nonneg d => simp [expansionMap] at ho; subst ho; simp [conePdim, ConeSpec.isSparseExpandable]
      | exp => simp [expansionMap] at ho; subst ho; simp [conePdim, ConeSpec.isSparseExpandable]
      | pow => simp [expansionMap] at ho; subst ho; simp [conePdim, ConeSpec.isSparseExpandable]
      | psd d => simp [expansionMap] at ho; subst ho; simp [conePdim, ConeSpec.isSparseExpandable]
    rw [List.filterMap_cons]
    cases ho : expansionMap c with
    | none =>
      have := key none ho
      simp only at this
      rw [List.map_cons, List.sum_cons, ih, ← this]; omega
    | some mp =>
      have := key (some mp) ho
      simp only at this
      rw [List.foldl_cons, List.map_cons, List.sum_cons, ih, ← this]; omega


theorem wf_of_canon {M : Csc α} (h : Canon M) : WF M := by
  refine ⟨?_, ?_, ?_⟩
  · have := h.colptr_zero
    simp [Array.getD_eq_getD_getElem?, this]
  · intro i hi
    have := h.colptr_mono i hi
    simpa [Array.getElem!_eq_getD] using this
  · have := h.colptr_last
    simp [Array.getD_eq_getD_getElem?, this]

/-- the stored rows of column `c` are the rows of the schedule entries of column `c`, in
schedule order -/
theorem column_rows (K : Csc α) (sched : List (Entry α)) (c p : Nat)
    (hp : K.colptr[c]? = some p)
    (hw : ∀ i e, sched[i]? = some e → ∃ p, K.colptr[e.readCol]? = some p ∧
        K.rowval[p + cnt e.readCol (sched.take i)]? = some e.row ∧
        K.nzval[p + cnt e.readCol (sched.take i)]? = some e.val ∧
        cnt e.readCol (sched.take i) < cnt e.readCol sched)
    (t : Nat) (ht : t < (colRowsOf sched c).length) :
    K.rowval[p + t]? = (colRowsOf sched c)[t]? := by
  unfold colRowsOf at ht ⊢
  rw [List.length_map] at ht
  have hL : (sched.filter (fun e => e.readCol == c))[t]? = some (sched.filter (fun e => e.readCol == c))[t] :=
    List.getElem?_eq_getElem ht
  obtain ⟨i, hi, hpe, hcnt⟩ := filter_get_index _ sched t _ hL
  obtain ⟨p', hp', hr, _, _⟩ := hw i _ hi
  have hcol : (sched.filter (fun e => e.readCol == c))[t].readCol = c := by simpa using hpe
  rw [hcol, hp] at hp'
  cases hp'
  rw [hcol] at hr
  have : cnt c (sched.take i) = t := hcnt
  rw [this] at hr
  rw [hr, List.getElem?_map, hL]
  rfl

/-- [S] `C11.assembly` for the upper triangle: canonical columns with the diagonal last, and
`diag_full` pointing at it. -/
theorem assembleKktMatrix_triu_canonical (P A : Csc α) (cones : List ConeSpec)
    (K : Csc α) (map : LDLDataMap) (sched : List (Entry α))
    (hP : Canon P) (hPt : IsTriu P) (hPsq : P.m = P.n) (hA : Canon A) (hn : P.n = A.n)
    (hm : (cones.map ConeSpec.numel).sum = A.m)
    (hs : kktSchedule P A cones .triu = .ok sched)
    (h : assembleKktMatrix P A cones .triu = .ok (K, map)) :
    K.n = A.n + A.m + (cones.map conePdim).sum ∧ K.m = K.n ∧ K.colptr.size = K.n + 1 ∧
    K.colptr[0]? = some 0 ∧
    ∀ c, c < K.n → ∃ p len, K.colptr[c]? = some p ∧ K.colptr[c + 1]? = some (p + len) ∧ 0 < len ∧
      -- rows strictly increasing inside the column
      (∀ t, t + 1 < len → ∃ r r', K.rowval[p + t]? = some r ∧ K.rowval[p + (t + 1)]? = some r' ∧ r < r') ∧
      -- the last entry of the column is the diagonal (so the matrix is upper triangular)
      K.rowval[p + (len - 1)]? = some c ∧
      -- and `diag_full[c]` is its position
      map.diag_full[c]? = some (p + (len - 1)) := by
  obtain ⟨hKn, hKm, hKsz, _, hK0, hcols, hw⟩ :=
    assembleKktMatrix_link P A cones .triu K map sched (wf_of_canon hP) (wf_of_canon hA) hs h
  have hN : K.n = A.n + A.m + (cones.map conePdim).sum := by
    rw [hKn]
    have : (LDLDataMap.new P A cones).sparse_maps = (cones.filterMap expansionMap).toArray := rfl
    rw [this, pdim_filterMap]; omega
  obtain ⟨_, _, _, hf⟩ := assembleKktMatrix_inv P A cones .triu K map h
  obtain ⟨hdf, _, _⟩ := kktAssembleFill_diag_triu _ K P A cones _ map hf
  refine ⟨hN, hKm, hKsz, hK0, ?_⟩
  intro c hc
  obtain ⟨p, hp, hp1⟩ := hcols c hc
  obtain ⟨hpw, hlast⟩ := kktSchedule_triu_sorted P A cones sched hP hPt hPsq hA hn hm hs c (by omega)
  have hlen : (colRowsOf sched c).length = cnt c sched := by
    unfold colRowsOf cnt
    rw [List.length_map, List.countP_eq_length_filter]
  have hpos : 0 < cnt c sched := by
    rw [← hlen]
    cases hl : colRowsOf sched c with
    | nil => rw [hl] at hlast; simp at hlast
    | cons x xs => simp
  refine ⟨p, cnt c sched, hp, hp1, hpos, ?_, ?_, ?_⟩
  · intro t ht
    have h1 := column_rows K sched c p hp hw t (by omega)
    have h2 := column_rows K sched c p hp hw (t + 1) (by omega)
    have ht1 : t < (colRowsOf sched c).length := by omega
    have ht2 : t + 1 < (colRowsOf sched c).length := by omega
    refine ⟨(colRowsOf sched c)[t], (colRowsOf sched c)[t + 1], ?_, ?_, ?_⟩
    · rw [h1]; exact List.getElem?_eq_getElem ht1
    · rw [h2]; exact List.getElem?_eq_getElem ht2
    · exact (List.pairwise_iff_getElem.mp hpw) t (t + 1) ht1 ht2 (by omega)
  · have h1 := column_rows K sched c p hp hw (cnt c sched - 1) (by omega)
    rw [h1]
    rw [List.getLast?_eq_getElem?] at hlast
    rw [hlen] at hlast
    exact hlast
  · have : map.diag_full[c]? = map.diag_full.toList[c]? := by simp
    rw [this, hdf, List.getElem?_map, List.getElem?_drop]
    have : K.colptr.toList[1 + c]? = some (p + cnt c sched) := by
      rw [Array.getElem?_toList, Nat.add_comm]; exact hp1
    rw [this]
    simp
    omega

end Clarabel.Lemmas.KktAssembly
