/-
  Real-number layer for C02/C03: 2-norms as `Real.sqrt (Σ vᵢ²)`, the quantities
  `res_primal_inf`, `res_dual_inf`, `cost_primal`, `cost_dual` exactly as `Info.update`
  forms them (dense counterparts), and how the norms transform under un-scaling.
-/
import ClarabelProofs.Lemmas.InfoUnscale
import Mathlib.Analysis.SpecialFunctions.Sqrt

open Finset

namespace Clarabel.Dense

variable {n m : ℕ}

theorem sumsq_nonneg {k : ℕ} (v : Fin k → ℝ) : 0 ≤ sumsq v :=
  Finset.sum_nonneg (fun i _ => mul_self_nonneg (v i))

/-- 2-norm -/
noncomputable def nrm {k : ℕ} (v : Fin k → ℝ) : ℝ := Real.sqrt (sumsq v)

theorem nrm_nonneg {k : ℕ} (v : Fin k → ℝ) : 0 ≤ nrm v := Real.sqrt_nonneg _

theorem nrm_smul {k : ℕ} (v : Fin k → ℝ) (a : ℝ) (ha : 0 ≤ a) :
    nrm (fun i => v i * a) = nrm v * a := by
  unfold nrm
  rw [sumsq_smul, Real.sqrt_mul (sumsq_nonneg v), Real.sqrt_mul_self ha]

theorem nrm_neg {k : ℕ} (v : Fin k → ℝ) : nrm (fun i => -v i) = nrm v := by
  unfold nrm sumsq
  congr 1
  exact Finset.sum_congr rfl (fun i _ => by ring)

theorem nrm_congr {k : ℕ} (u v : Fin k → ℝ) (h : ∀ i, u i = v i) : nrm u = nrm v := by
  have : u = v := funext h
  rw [this]

/-- `res_primal_inf` as assigned by `Info.update` -/
noncomputable def resPrimalInf (p : Problem ℝ n m) (sc : Scaling ℝ n m) (zh : Fin m → ℝ) : ℝ :=
  (nrm (fun j => rxInf (p.scaled sc) zh j * (1 / sc.d j)) * (1 / sc.c))
    / max 1 (nrm (fun i => zh i * sc.e i) * (1 / sc.c))

/-- `res_dual_inf` as assigned by `Info.update` -/
noncomputable def resDualInf (p : Problem ℝ n m) (sc : Scaling ℝ n m) (xh : Fin n → ℝ) (sh : Fin m → ℝ) : ℝ :=
  max (nrm (fun j => mulV (p.scaled sc).P xh j * (1 / sc.d j)) / max 1 (nrm (fun j => xh j * sc.d j)))
      (nrm (fun i => rzInf (p.scaled sc) xh sh i * (1 / sc.e i))
        / max 1 (nrm (fun j => xh j * sc.d j) + nrm (fun i => sh i * (1 / sc.e i))))

/-- `cost_primal` as assigned by `Info.update` -/
noncomputable def costPrimal {α : Type} [Field α] (p : Problem α n m) (sc : Scaling α n m) (xh : Fin n → α) (τ : α) : α :=
  (dot (p.scaled sc).q xh * (1 / τ) + dot xh (mulV (p.scaled sc).P xh) * (1 / τ) * (1 / τ) / 2) * (1 / sc.c)

/-- `cost_dual` as assigned by `Info.update` -/
noncomputable def costDual {α : Type} [Field α] (p : Problem α n m) (sc : Scaling α n m) (xh : Fin n → α) (zh : Fin m → α) (τ : α) : α :=
  (-dot (p.scaled sc).b zh * (1 / τ) - dot xh (mulV (p.scaled sc).P xh) * (1 / τ) * (1 / τ) / 2) * (1 / sc.c)

/-- `‖Aᵀz‖ = ‖D⁻¹ r̂x_inf‖ /(cσ)` -/
theorem nrm_Atz (p : Problem ℝ n m) (sc : Scaling ℝ n m) (zh : Fin m → ℝ) (σ : ℝ)
    (hd : ∀ j, 0 < sc.d j) (hc : 0 < sc.c) (hσ : 0 < σ) :
    nrm (mulVT p.A (unZ sc σ zh))
      = nrm (fun j => rxInf (p.scaled sc) zh j * (1 / sc.d j)) * (1 / sc.c * (1 / σ)) := by
  rw [← nrm_smul _ _ (by positivity), ← nrm_neg]
  apply nrm_congr
  intro j
  rw [rxInf_unscale p sc zh σ (fun j => (hd j).ne') hc.ne' hσ.ne' j]
  ring

/-- `‖z‖ = ‖Eẑ‖/(cσ)` -/
theorem nrm_unZ (sc : Scaling ℝ n m) (zh : Fin m → ℝ) (σ : ℝ) (hc : 0 < sc.c) (hσ : 0 < σ) :
    nrm (unZ sc σ zh) = nrm (fun i => zh i * sc.e i) * (1 / σ * (1 / sc.c)) := by
  rw [← nrm_smul _ _ (by positivity)]
  rfl

/-- `‖x‖ = ‖Dx̂‖/σ` -/
theorem nrm_unX (sc : Scaling ℝ n m) (xh : Fin n → ℝ) (σ : ℝ) (hσ : 0 < σ) :
    nrm (unX sc σ xh) = nrm (fun j => xh j * sc.d j) * (1 / σ) := by
  rw [← nrm_smul _ _ (by positivity)]
  rfl

/-- `‖s‖ = ‖E⁻¹ŝ‖/σ` -/
theorem nrm_unS (sc : Scaling ℝ n m) (sh : Fin m → ℝ) (σ : ℝ) (hσ : 0 < σ) :
    nrm (unS sc σ sh) = nrm (fun i => sh i * (1 / sc.e i)) * (1 / σ) := by
  rw [← nrm_smul _ _ (by positivity)]
  rfl

/-- `‖Px‖ = ‖D⁻¹P̂x̂‖/(cσ)` -/
theorem nrm_Px (p : Problem ℝ n m) (sc : Scaling ℝ n m) (xh : Fin n → ℝ) (σ : ℝ)
    (hd : ∀ j, 0 < sc.d j) (hc : 0 < sc.c) (hσ : 0 < σ) :
    nrm (mulV p.P (unX sc σ xh))
      = nrm (fun j => mulV (p.scaled sc).P xh j * (1 / sc.d j)) * (1 / sc.c * (1 / σ)) := by
  rw [← nrm_smul _ _ (by positivity)]
  apply nrm_congr
  intro j
  rw [Px_unscale p sc xh σ (fun j => (hd j).ne') hc.ne' hσ.ne' j]
  ring

/-- `‖Ax+s‖ = ‖E⁻¹ r̂z_inf‖/σ` -/
theorem nrm_Axs (p : Problem ℝ n m) (sc : Scaling ℝ n m) (xh : Fin n → ℝ) (sh : Fin m → ℝ) (σ : ℝ)
    (he : ∀ i, 0 < sc.e i) (hσ : 0 < σ) :
    nrm (fun i => mulV p.A (unX sc σ xh) i + unS sc σ sh i)
      = nrm (fun i => rzInf (p.scaled sc) xh sh i * (1 / sc.e i)) * (1 / σ) := by
  rw [← nrm_smul _ _ (by positivity)]
  apply nrm_congr
  intro i
  rw [rzInf_unscale p sc xh sh σ (fun i => (he i).ne') hσ.ne' i]

end Clarabel.Dense

namespace Clarabel.Dense
variable {α : Type} [Field α] {n m : ℕ}

/-- `cost_primal`/`cost_dual` of `Info.update` are the user-space objectives of the
τ-normalised point -/
theorem cost_identities (p : Problem α n m) (sc : Scaling α n m) (xh : Fin n → α) (zh : Fin m → α)
    (τ : α) (hc : sc.c ≠ 0) (hτ : τ ≠ 0) :
    costPrimal p sc xh τ = dot (unX sc τ xh) (mulV p.P (unX sc τ xh)) / 2 + dot p.q (unX sc τ xh)
    ∧ costDual p sc xh zh τ
        = -dot p.b (unZ sc τ zh) - dot (unX sc τ xh) (mulV p.P (unX sc τ xh)) / 2 := by
  unfold costPrimal costDual
  rw [dot_qx_unscale p sc xh τ hτ, dot_bz_unscale p sc zh τ hc hτ, dot_xPx_unscale p sc xh τ hτ]
  constructor
  · field_simp; ring
  · field_simp
end Clarabel.Dense

namespace Clarabel.Dense
/-- `res_primal` as `Info.update` assigns it (dense counterpart; `normb` is the cached `‖b‖∞`) -/
noncomputable def resPrimal {n m : ℕ} (p : Problem ℝ n m) (sc : Scaling ℝ n m) (xh : Fin n → ℝ)
    (sh : Fin m → ℝ) (τ normb : ℝ) : ℝ :=
  nrm (fun i => rz (p.scaled sc) xh sh τ i * (1 / sc.e i)) * (1 / τ)
    / max 1 (normb + nrm (fun j => xh j * sc.d j) * (1 / τ) + nrm (fun i => sh i * (1 / sc.e i)) * (1 / τ))

/-- `res_dual` as `Info.update` assigns it -/
noncomputable def resDual {n m : ℕ} (p : Problem ℝ n m) (sc : Scaling ℝ n m) (xh : Fin n → ℝ)
    (zh : Fin m → ℝ) (τ normq : ℝ) : ℝ :=
  nrm (fun j => rx (p.scaled sc) xh zh τ j * (1 / sc.d j)) * (1 / τ) * (1 / sc.c)
    / max 1 (normq + nrm (fun j => xh j * sc.d j) * (1 / τ) + nrm (fun i => zh i * sc.e i) * (1 / sc.c) * (1 / τ))

/-- (lemma behind `C03.report_residuals` / `C01.certificate`)  The numbers reported as `r_prim`, `r_dual`
*are* the documented normalised residuals of the returned point on the user's data:
`‖Ax+s−b‖₂ / max(1, ‖b‖∞+‖x‖₂+‖s‖₂)` and `‖Px+Aᵀz+q‖₂ / max(1, ‖q‖∞+‖x‖₂+‖z‖₂)`. -/
theorem res_identities {n m : ℕ} (p : Problem ℝ n m) (sc : Scaling ℝ n m) (xh : Fin n → ℝ)
    (sh zh : Fin m → ℝ) (τ normb normq : ℝ)
    (hd : ∀ j, 0 < sc.d j) (he : ∀ i, 0 < sc.e i) (hc : 0 < sc.c) (hτ : 0 < τ) :
    resPrimal p sc xh sh τ normb
        = nrm (fun i => mulV p.A (unX sc τ xh) i + unS sc τ sh i - p.b i)
            / max 1 (normb + nrm (unX sc τ xh) + nrm (unS sc τ sh))
    ∧ resDual p sc xh zh τ normq
        = nrm (fun j => mulV p.P (unX sc τ xh) j + mulVT p.A (unZ sc τ zh) j + p.q j)
            / max 1 (normq + nrm (unX sc τ xh) + nrm (unZ sc τ zh)) := by
  have hτ' : (0:ℝ) ≤ 1 / τ := by positivity
  have hcτ : (0:ℝ) ≤ 1 / τ * (1 / sc.c) := by positivity
  constructor
  · unfold resPrimal
    rw [nrm_unX sc xh τ hτ, nrm_unS sc sh τ hτ, ← nrm_smul _ _ hτ']
    congr 1
    apply nrm_congr
    intro i
    exact (primal_residual_unscale p sc xh sh τ (fun i => (he i).ne') hτ.ne' i).symm
  · unfold resDual
    rw [nrm_unX sc xh τ hτ, nrm_unZ sc zh τ hc hτ, mul_assoc, ← nrm_smul _ _ hcτ]
    have e1 : nrm (fun i => zh i * sc.e i) * (1 / sc.c) * (1 / τ)
        = nrm (fun i => zh i * sc.e i) * (1 / τ * (1 / sc.c)) := by ring
    rw [e1, ← nrm_neg]
    congr 1
    apply nrm_congr
    intro j
    rw [dual_residual_unscale p sc xh zh τ (fun j => (hd j).ne') hc.ne' hτ.ne' j]
    ring


end Clarabel.Dense
