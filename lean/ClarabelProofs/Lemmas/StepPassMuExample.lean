/-
  C06, round 7 — concrete instances (non-vacuity) for `StepPassMuBlocks` / `StepPassMuLift` /
  `StepPassMu`: a composite of one zero cone (1 row), one nonnegative cone (1 row) and one
  second-order cone (2 rows) with an interior iterate, and the Nesterov–Todd state of a concrete
  second-order cone (`w = (1,(0))`, `η = 1`, `λ = (2,(1))`, `s = z = (2,(1))`).
-/
import ClarabelProofs.Lemmas.StepPassMuLift
import Mathlib.Tactic.NormNum

namespace Clarabel.Solver.MuExample
open Clarabel Clarabel.Lemmas Clarabel.Solver

/-- a second-order cone object of dimension 2 as `make_cone` sizes it -/
def socK : Soc.Cone ℝ := ⟨2, #[1, 0], #[1, 0], 1, none⟩

/-- zero cone (1 row), nonnegative cone (1 row), second-order cone (2 rows) -/
def cones : List (ConeSt ℝ) := [.zero 1, .nonneg ⟨#[1], #[1]⟩, .soc socK]

def sL : List ℝ := [0, 4, 2, 1]
def zL : List ℝ := [5, 1, 3, -1]

theorem cones_full : ConesFull cones := by
  intro c hc
  simp only [cones, List.mem_cons, List.not_mem_nil, or_false] at hc
  rcases hc with rfl | rfl | rfl
  · trivial
  · show (#[1] : Array ℝ).size = (#[1] : Array ℝ).size
    rfl
  · refine ⟨by decide, rfl, rfl, by decide, ?_⟩
    intro sp hsp
    cases hsp

theorem cones_numel : numelAll cones = 4 := rfl

theorem interior_2_1 : Soc.Interior 2 [1] := ⟨by norm_num, by simp⟩
theorem interior_3_m1 : Soc.Interior 3 [-1] := ⟨by norm_num, by simp⟩

/-- the iterate `s = (0 | 4 | 2, 1)`, `z = (5 | 1 | 3, −1)` is interior -/
theorem cones_interior : ConesInterior cones sL zL := by
  refine ⟨?_, ⟨?_, ?_⟩, ⟨2, [1], 3, [-1], rfl, rfl, interior_2_1, interior_3_m1⟩, trivial⟩
  · intro x hx
    simpa [sL, ConeSt.numel] using hx
  · intro x hx
    have : x = 4 := by simpa [sL, ConeSt.numel] using hx
    rw [this]; norm_num
  · intro x hx
    have : x = 1 := by simpa [zL, ConeSt.numel] using hx
    rw [this]; norm_num

/-- `update_scaling` of the composite succeeds there and leaves the Nesterov–Todd scalings -/
theorem cones_scaled : ∃ cones', updateScaling cones sL.toArray zL.toArray = .ok (true, cones')
    ∧ NTCones cones' sL zL := by
  obtain ⟨cones', h⟩ := updateScaling_interior_true (s := sL.toArray) (z := zL.toArray) cones_full rfl rfl
    cones_interior
  exact ⟨cones', h, (ntCones_of_update cones_full rfl rfl cones_interior h).1⟩

/-! ### a concrete second-order Nesterov–Todd state -/

/-- `w = (1,(0))`, `η = 1`, `λ = (2,(1))` -/
def ntK : Soc.Cone ℝ := ⟨2, Soc.join 1 [0], Soc.join 2 [1], 1, none⟩

theorem ntK_nt : SocNT ntK 2 [1] 2 [1] 1 [0] 2 [1] where
  w := rfl
  lam := rfl
  norm := by simp
  w0pos := one_pos
  eta := one_ne_zero
  wlen := rfl
  llen := rfl
  slen := rfl
  dim := rfl
  sint := interior_2_1
  zint := interior_2_1
  Wz := by
    rw [Soc.mulWCore_one_zero 2 [1] 2 [1] 1 [0] ntK.eta rfl rfl]
    simp [ntK]
  Winvs := by
    rw [Soc.mulWinvCore_one_zero 2 [1] 2 [1] 1 [0] ntK.eta rfl rfl]
    simp [ntK]
  WtWz := by
    rw [Soc.mulHsCore_eq 2 [1] 1 [0] ntK.eta rfl]
    simp [ntK]
    norm_num

theorem ntK_block : NTBlock (.soc ntK) [2, 1] [2, 1] :=
  ⟨2, [1], 2, [1], 1, [0], 2, [1], rfl, rfl, ntK_nt⟩

/-- the four block identities on it: `Hs z = s`, `z·offset(d) = d₀`, `⟨e, λ∘λ⟩ = s·z = 5`,
`⟨e, shift⟩ = Δs·Δz − σμ` -/
theorem ntK_identities (d0 d1 a0 a1 b0 b1 σμ : ℝ) :
    hs1L (.soc ntK) [2, 1] = [2, 1]
    ∧ hsDotL [2, 1] (off1L (.soc ntK) [d0, d1] [2, 1]) = d0
    ∧ hsDotL (coneId1L (.soc ntK)) (ads1L (.soc ntK)) = 5
    ∧ hsDotL (coneId1L (.soc ntK)) (shift1L (.soc ntK) [a0, a1] [b0, b1] σμ).1
        = b0 * a0 + b1 * a1 - σμ := by
  refine ⟨hs1L_nt ntK_block, ?_, ?_, ?_⟩
  · rw [off1L_dot ntK_block [d0, d1] rfl]
    simp [coneId1L, ntK, hsDotL]
  · rw [ads1L_dot ntK_block]
    simp [hsDotL]
    norm_num
  · rw [shift1L_dot ntK_block [a0, a1] [b0, b1] σμ rfl rfl (fun n hn => by cases hn)]
    simp [hsDotL, ConeSt.degree]

/-! ### the same iterate in C07's form -/

/-- the variables `x = ()`, `s`, `z` as above, `τ = κ = 1` -/
def vars : Residuals.Vars ℝ := ⟨#[], sL.toArray, zL.toArray, 1, 1⟩

theorem cones_zeroRows : ZeroConeRows cones vars.s.toList := by
  refine ⟨?_, (fun n hn => by cases hn), (fun n hn => by cases hn), trivial⟩
  intro n hn x hx
  simpa [vars, sL, ConeSt.numel] using hx

/-- C07's interior predicate holds for it -/
theorem vars_interior : Interior (cones.map ConeSt.compSpec) vars := by
  refine ⟨one_pos, one_pos, rfl, rfl, ?_, ⟨rfl, ?_, ?_⟩,
    ⟨3, [-1], 2, [1], rfl, rfl, interior_3_m1, interior_2_1⟩, trivial⟩
  · trivial
  · intro x hx
    have : x = 1 := by simpa [vars, zL, cones, ConeSt.compSpec, Composite.Spec.numel] using hx
    rw [this]; norm_num
  · intro x hx
    have : x = 4 := by simpa [vars, sL, cones, ConeSt.compSpec, Composite.Spec.numel] using hx
    rw [this]; norm_num

end Clarabel.Solver.MuExample
