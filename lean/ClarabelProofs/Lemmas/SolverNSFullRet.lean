/-
  Composition on the whole-solver model WITH NONSYMMETRIC CONES (`ClarabelModel/SolverNS/*.lean`):
  WHICH RECORD A `solve()` RETURNS — `solve_returnedN : S.solve st = .ok r → ∃ p l, Returned st S r p l`
  (the structure `Returned` of the interface file `Lemmas/SolverNSFullDefs.lean`).

  Counterpart, for the model with the `PrimalDual → Dual` strategy switch, of what the first model has in
  `Lemmas/SolverReport.lean` (`figures_of_returned_iterate`, `final_status_is_postProcess`),
  `Lemmas/SolverFullAlmost.lean` (`pass_brk_almost`) and `Lemmas/SolverFullTraj.lean`
  (`solve_solution_vectors`).

  What is new: `save_prev_iterate` runs only in a pass that reaches `add_step`; the three passes that
  `continue` after a switch of the scaling strategy do not save.  So after an insufficient-progress
  rollback the returned iterate is that of the LAST PASS THAT REACHED `add_step`, which is the last record
  but one, or — when a strategy switch lies in between — the last but two (loop invariant `Ret.RInv`).

  All structural ([S]): every scalar type, `Float` included.
-/
import ClarabelProofs.Lemmas.SolverNSFullDefs
import ClarabelProofs.Lemmas.SolverReport

namespace Clarabel.SolverNS
open Clarabel Info Residuals Clarabel.InfoReport
open Clarabel.Solver (bind_ok_inv status_bne varsCopyFrom addStep equilView presolveMap
  checkTermination_frame checkTermination_ip_iter varsCopyFrom_eq sameFigures_ct mem_concat_cases)
open Clarabel.Loop (Scaling Checkpoint)

set_option linter.unusedSectionVars false
set_option linter.unusedVariables false

variable {α : Type}

section
variable [Add α] [Sub α] [Mul α] [Div α] [Neg α] [LT α] [LE α] [DecidableLT α] [DecidableLE α]
  [BEq α] [OfNat α 0] [OfNat α 1] [OfNat α 2] [OfNat α 3] [OfNat α 4] [OfNat α 100] [OfNat α 1000]
  [OfScientific α] [FloatLike α]

namespace Ret

/-! ### small facts about `info` -/

/-- the `prev_*` fields survive the top of a pass -/
theorem prevIs_top {S : SolverSt α} {iter : Nat} {r : Resid α} {mu : α} {i' q : InfoS α}
    (h : topNumerics S iter = .ok (r, mu, i')) (hq : PrevIs S.info q) : PrevIs i' q := by
  obtain ⟨f1, f2, f3, f4, f5, f6, -, -⟩ := topNumerics_frameN h
  exact ⟨f1.trans hq.cp, f2.trans hq.cd, f3.trans hq.rp, f4.trans hq.rd, f5.trans hq.ga, f6.trans hq.gr⟩

/-- the `prev_*` fields survive `check_termination` -/
theorem prevIs_ct {i q : InfoS α} (bz qx : α) (s : Info.Settings α) (iter : Nat) (hq : PrevIs i q) :
    PrevIs (Info.checkTermination i bz qx s iter false).1 q := by
  rw [(checkTermination_frame i bz qx s iter false).1]
  exact ⟨hq.cp, hq.cd, hq.rp, hq.rd, hq.ga, hq.gr⟩

/-- the `prev_*` fields survive `reset_to_prev_iterate; set_status` -/
theorem prevIs_reset_status {j q : InfoS α} (s : SolverStatus) (hq : PrevIs j q) :
    PrevIs ({ Info.resetToPrev j with status := s } : InfoS α) q :=
  ⟨hq.cp, hq.cd, hq.rp, hq.rd, hq.ga, hq.gr⟩

/-- `save_prev_iterate` after `check_termination` stores the figures `Info.update` assigned -/
theorem prevIs_savePrev_ct (i : InfoS α) (bz qx : α) (s : Info.Settings α) (iter : Nat) :
    PrevIs (Info.savePrev (Info.checkTermination i bz qx s iter false).1) i := by
  have hs := sameFigures_ct i bz qx s iter
  have hp0 := prevIs_savePrev (Info.checkTermination i bz qx s iter false).1
  exact ⟨hp0.cp.trans hs.cp, hp0.cd.trans hs.cd, hp0.rp.trans hs.rp, hp0.rd.trans hs.rd,
    hp0.ga.trans hs.ga, hp0.gr.trans hs.gr⟩

/-- a pass that `check_termination` lets through keeps the status `Unsolved` -/
theorem ct_unsolved_of_not_done {i : InfoS α} {bz qx : α} {s : Info.Settings α} {iter : Nat}
    (hd : (Info.checkTermination i bz qx s iter false).2 = false) :
    (Info.checkTermination i bz qx s iter false).1.status = .unsolved := by
  rw [(checkTermination_frame i bz qx s iter false).2] at hd
  exact Decidable.byContradiction fun h => by rw [(status_bne _ _).mpr h] at hd; cases hd

/-- `default_start()` (either branch) does not touch `info` -/
theorem defaultStart_info {S S' : SolverSt α} {st : Settings α} (h : S.defaultStart st = .ok S') :
    S'.info = S.info := by
  unfold SolverSt.defaultStart at h
  split at h
  · obtain ⟨cs, _, h⟩ := bind_ok_inv h
    obtain ⟨⟨ok1, ks⟩, _, h⟩ := bind_ok_inv h
    obtain ⟨⟨ok2, v, ks2⟩, _, h⟩ := bind_ok_inv h
    obtain ⟨v2, _, h⟩ := bind_ok_inv h
    cases h
    rfl
  · obtain ⟨v, _, h⟩ := bind_ok_inv h
    cases h
    rfl

/-! ### the loop invariant -/

/-- the loop invariant: the status is `Unsolved` at the top of every pass; once `save_prev_iterate` of
this solve has run (`Late`), `prev_vars` and the `prev_*` scalars are the iterate and the figures of the
record `p` of the LAST pass that reached `add_step`; it is followed in the trajectory by at most one
record, that of a pass that `continue`d after switching the strategy to `Dual`. -/
structure RInv (L : LoopSt α) : Prop where
  status : L.S.info.status = .unsolved
  prev : Late L → ∃ pre p post, L.traj = pre ++ p :: post ∧ L.S.prevVars = p.vars
    ∧ PrevIs L.S.info p.info ∧ p.smCp = some .NoUpdate ∧ (∀ q ∈ post, q.smCp ≠ some .NoUpdate)
    ∧ (post = [] ∨ (post.length = 1 ∧ L.scaling = .Dual))

theorem initLoopSt_rinv {S0 : SolverSt α} (h : S0.info.status = .unsolved) : RInv (initLoopSt S0) := by
  refine ⟨h, fun hl => ?_⟩
  rcases hl with ⟨hl, -⟩ | hl
  · have h' : 1 ≤ 0 := hl
    omega
  · have h' : 2 ≤ 0 := hl
    omega

/-- the witness of `RInv.prev` under the `PrimalDual` strategy has nothing after `p` -/
theorem RInv.prev_pd {L : LoopSt α} (hR : RInv L) (hl : Late L) (hpd : L.scaling = .PrimalDual) :
    ∃ pre p, L.traj = pre ++ [p] ∧ L.S.prevVars = p.vars ∧ PrevIs L.S.info p.info
      ∧ p.smCp = some .NoUpdate := by
  obtain ⟨pre, p, post, ht, hv, hpi, hsm, -, hlen⟩ := hR.prev hl
  have hpost : post = [] := by
    rcases hlen with h | ⟨-, h⟩
    · exact h
    · rw [hpd] at h; cases h
  subst hpost
  exact ⟨pre, p, ht, hv, hpi, hsm⟩

theorem pass_cont_rinv {st : Settings α} {L L' : LoopSt α} (hR : RInv L)
    (hp : pass st L = .ok (true, L')) : RInv L' := by
  cases pass_invN hp with
  | ipSwitch residuals mu info1 vrs htop hdone hip hcopy hsw =>
    obtain ⟨-, -, -, -, -, -, -, f8⟩ := topNumerics_frameN htop
    have hun : info1.status = .unsolved := by rw [f8]; exact hR.status
    have hiter : 1 < L.iter := checkTermination_ip_iter hun hip
    have hpd := canSwitch_pd hsw
    obtain ⟨pre, p, ht, hv, hpi, hsm⟩ := hR.prev_pd (Or.inr hiter) hpd
    refine ⟨rfl, fun _ => ⟨pre, p,
      [({ rec0Of L residuals mu info1 (ctOf st L residuals info1) with ipCp := some (.Update .Dual) } : PassRec α)],
      ?_, hv, ?_, hsm, ?_, Or.inr ⟨rfl, rfl⟩⟩⟩
    · show L.traj ++ [_] = pre ++ p :: [_]
      rw [ht, List.append_assoc]
      rfl
    · exact prevIs_reset_status _ (prevIs_ct _ _ _ _ (prevIs_top htop hpi))
    · intro q hq
      rw [List.mem_singleton.mp hq]
      intro h
      cases h
  | kktSwitch residuals mu info1 sc k htop hdone hsc hok hk hkok hsw =>
    have hkS := kktNumerics_frameN hk
    have e1 : k.S.info = (ctOf st L residuals info1).1 := by rw [hkS]; rfl
    have e2 : k.S.prevVars = L.S.prevVars := by rw [hkS]; rfl
    have hpd := canSwitch_pd hsw
    refine ⟨?_, fun hl => ?_⟩
    · show k.S.info.status = .unsolved
      rw [e1]; exact ct_unsolved_of_not_done hdone
    · have hL : Late L := by
        rcases hl with ⟨-, h⟩ | h
        · cases h
        · have h' : 2 ≤ L.iter + 1 := h
          exact Or.inl ⟨by omega, hpd⟩
      obtain ⟨pre, p, ht, hv, hpi, hsm⟩ := hR.prev_pd hL hpd
      refine ⟨pre, p,
        [({ rec3Of (rec0Of L residuals mu info1 (ctOf st L residuals info1)) k with
            neCp := some (.Update .Dual) } : PassRec α)],
        ?_, e2.trans hv, ?_, hsm, ?_, Or.inr ⟨rfl, rfl⟩⟩
      · show L.traj ++ [_] = pre ++ p :: [_]
        rw [ht, List.append_assoc]
        rfl
      · show PrevIs k.S.info p.info
        rw [e1]
        exact prevIs_ct _ _ _ _ (prevIs_top htop hpi)
      · intro q hq
        rw [List.mem_singleton.mp hq]
        intro h
        cases h
  | stepSwitch residuals mu info1 sc k a nbt htop hdone hsc hok hk hkok ha hsw =>
    have hkS := kktNumerics_frameN hk
    have e1 : k.S.info = (ctOf st L residuals info1).1 := by rw [hkS]; rfl
    have e2 : k.S.prevVars = L.S.prevVars := by rw [hkS]; rfl
    have hpd := canSwitch_pd hsw
    refine ⟨?_, fun hl => ?_⟩
    · show k.S.info.status = .unsolved
      rw [e1]; exact ct_unsolved_of_not_done hdone
    · have hL : Late L := by
        rcases hl with ⟨-, h⟩ | h
        · cases h
        · have h' : 2 ≤ L.iter + 1 := h
          exact Or.inl ⟨by omega, hpd⟩
      obtain ⟨pre, p, ht, hv, hpi, hsm⟩ := hR.prev_pd hL hpd
      refine ⟨pre, p,
        [({ rec4Of (rec0Of L residuals mu info1 (ctOf st L residuals info1)) k a nbt with
            smCp := some (.Update .Dual) } : PassRec α)],
        ?_, e2.trans hv, ?_, hsm, ?_, Or.inr ⟨rfl, rfl⟩⟩
      · show L.traj ++ [_] = pre ++ p :: [_]
        rw [ht, List.append_assoc]
        rfl
      · show PrevIs k.S.info p.info
        rw [e1]
        exact prevIs_ct _ _ _ _ (prevIs_top htop hpi)
      · intro q hq
        rw [List.mem_singleton.mp hq]
        intro h
        cases h
  | step residuals mu info1 sc k a nbt pv htop hdone hsc hok hk hkok ha hsmall hpv =>
    have hkS := kktNumerics_frameN hk
    have e1 : k.S.info = (ctOf st L residuals info1).1 := by rw [hkS]; rfl
    have e6 : k.S.variables = L.S.variables := by rw [hkS]; rfl
    unfold stepVars at hpv
    obtain ⟨pvars, hc, hpv⟩ := bind_ok_inv hpv
    obtain ⟨nv, hadd, hpv⟩ := bind_ok_inv hpv
    cases hpv
    refine ⟨?_, fun _ => ⟨L.traj,
      ({ rec4Of (rec0Of L residuals mu info1 (ctOf st L residuals info1)) k a nbt with
          smCp := some .NoUpdate } : PassRec α), [], rfl, ?_, ?_, rfl, (fun q hq => by cases hq), Or.inl rfl⟩⟩
    · show (Info.savePrev k.S.info).status = .unsolved
      rw [e1]; exact ct_unsolved_of_not_done hdone
    · show pvars = L.S.variables
      rw [varsCopyFrom_eq hc, e6]
    · show PrevIs (Info.savePrev k.S.info) info1
      rw [e1]
      exact prevIs_savePrev_ct info1 _ _ _ _

theorem reach_rinv {st : Settings α} {L L' : LoopSt α} (h : Reach st L L') (hR : RInv L) : RInv L' := by
  induction h with
  | refl => exact hR
  | step hp _ ih => exact ih (pass_cont_rinv hR hp)

/-! ### the pass that leaves the loop -/

/-- what holds of the loop state `Lf` the loop is left with, relative to the record `l` of the breaking
pass (entered with the iteration counter `k`) and the record `p` of the iterate `Lf` carries -/
structure RExit (st : Settings α) (k : Nat) (Lf : LoopSt α) (p l : PassRec α) : Prop where
  last : Lf.traj.getLast? = some l
  mem : p ∈ Lf.traj
  lun : l.info.status = .unsolved
  vars : Lf.S.variables = p.vars
  figs : SameFigures Lf.S.info p.info
  bz : Lf.S.residuals.dot_bz = l.dotBz
  qx : Lf.S.residuals.dot_qx = l.dotQx
  final : (p = l ∧ ∃ s', Lf.S.info = { l.info with status := s' }
        ∧ (s' = (Info.checkTermination l.info l.dotBz l.dotQx st.info k false).1.status
            ∨ s' = .numericalError ∨ s' = .insufficientProgress))
    ∨ ((Info.checkTermination l.info l.dotBz l.dotQx st.info k false).1.status = .insufficientProgress
        ∧ Lf.S.info = Info.resetToPrev (Info.checkTermination l.info l.dotBz l.dotQx st.info k false).1
        ∧ p.smCp = some .NoUpdate
        ∧ ∃ pre post, Lf.traj = pre ++ p :: post ++ [l] ∧ post.length ≤ 1
            ∧ ∀ q ∈ post, q.smCp ≠ some .NoUpdate)

theorem pass_brk_rexit {st : Settings α} {L L' : LoopSt α} (hR : RInv L)
    (hp : pass st L = .ok (false, L')) : ∃ p l, RExit st L.iter L' p l := by
  cases pass_invN hp with
  | done residuals mu info1 htop hdone hip =>
    obtain ⟨-, -, -, -, -, -, -, f8⟩ := topNumerics_frameN htop
    have hun : info1.status = .unsolved := by rw [f8]; exact hR.status
    have hfr := (checkTermination_frame info1 residuals.dot_bz residuals.dot_qx st.info L.iter false).1
    refine ⟨_, _, List.getLast?_concat .., ?_, hun, rfl, ?_, rfl, rfl, Or.inl ⟨rfl, _, hfr, Or.inl rfl⟩⟩
    · exact List.mem_append_right _ (List.mem_singleton.mpr rfl)
    · exact sameFigures_ct info1 _ _ _ _
  | rollback residuals mu info1 vrs htop hdone hip hcopy hsw =>
    obtain ⟨-, -, -, -, -, -, -, f8⟩ := topNumerics_frameN htop
    have hun : info1.status = .unsolved := by rw [f8]; exact hR.status
    have hiter : 1 < L.iter := checkTermination_ip_iter hun hip
    obtain ⟨pre, p, post, ht, hv, hpi, hsm, hpost, hlen⟩ := hR.prev (Or.inr hiter)
    have hmem : p ∈ L.traj := by
      rw [ht]
      exact List.mem_append_right _ (List.mem_cons_self ..)
    refine ⟨p, _, List.getLast?_concat .., List.mem_append_left _ hmem, hun, ?_, ?_, rfl, rfl,
      Or.inr ⟨hip, rfl, hsm, pre, post, ?_, ?_, hpost⟩⟩
    · show vrs = p.vars
      rw [varsCopyFrom_eq hcopy, hv]
    · show SameFigures (Info.resetToPrev (ctOf st L residuals info1).1) p.info
      exact sameFigures_resetToPrev (prevIs_ct _ _ _ _ (prevIs_top htop hpi))
    · show L.traj ++ [_] = pre ++ p :: post ++ [_]
      rw [ht]
    · rcases hlen with h | ⟨h, -⟩
      · rw [h]; exact Nat.zero_le _
      · exact Nat.le_of_eq h
  | scaleFail residuals mu info1 sc htop hdone hsc hok =>
    obtain ⟨-, -, -, -, -, -, -, f8⟩ := topNumerics_frameN htop
    have hun : info1.status = .unsolved := by rw [f8]; exact hR.status
    obtain ⟨s0, hs0⟩ := checkTermination_eq_status info1 residuals.dot_bz residuals.dot_qx st.info L.iter false
    refine ⟨_, _, List.getLast?_concat .., ?_, hun, rfl, ?_, rfl, rfl,
      Or.inl ⟨rfl, .numericalError, ?_, Or.inr (Or.inl rfl)⟩⟩
    · exact List.mem_append_right _ (List.mem_singleton.mpr rfl)
    · exact (sameFigures_status _ _).trans (sameFigures_ct info1 _ _ _ _)
    · show ({ (Info.checkTermination info1 residuals.dot_bz residuals.dot_qx st.info L.iter false).1 with
        status := SolverStatus.numericalError } : InfoS α) = _
      rw [hs0]
      rfl
  | kktFail residuals mu info1 sc k htop hdone hsc hok hk hkok hsw =>
    obtain ⟨-, -, -, -, -, -, -, f8⟩ := topNumerics_frameN htop
    have hun : info1.status = .unsolved := by rw [f8]; exact hR.status
    obtain ⟨s0, hs0⟩ := checkTermination_eq_status info1 residuals.dot_bz residuals.dot_qx st.info L.iter false
    have hkS := kktNumerics_frameN hk
    have e1 : k.S.info = (Info.checkTermination info1 residuals.dot_bz residuals.dot_qx st.info L.iter false).1 := by
      rw [hkS]; rfl
    have e6 : k.S.variables = L.S.variables := by rw [hkS]; rfl
    have e7 : k.S.residuals = residuals := by rw [hkS]; rfl
    refine ⟨_, _, List.getLast?_concat .., ?_, hun, e6, ?_, ?_, ?_,
      Or.inl ⟨rfl, .numericalError, ?_, Or.inr (Or.inl rfl)⟩⟩
    · exact List.mem_append_right _ (List.mem_singleton.mpr rfl)
    · show SameFigures { k.S.info with status := .numericalError } info1
      rw [e1]
      exact (sameFigures_status _ _).trans (sameFigures_ct info1 _ _ _ _)
    · show k.S.residuals.dot_bz = residuals.dot_bz
      rw [e7]
    · show k.S.residuals.dot_qx = residuals.dot_qx
      rw [e7]
    · show ({ k.S.info with status := SolverStatus.numericalError } : InfoS α) = _
      rw [e1, hs0]
      rfl
  | smallStep residuals mu info1 sc k a nbt htop hdone hsc hok hk hkok ha hsmall =>
    obtain ⟨-, -, -, -, -, -, -, f8⟩ := topNumerics_frameN htop
    have hun : info1.status = .unsolved := by rw [f8]; exact hR.status
    obtain ⟨s0, hs0⟩ := checkTermination_eq_status info1 residuals.dot_bz residuals.dot_qx st.info L.iter false
    have hkS := kktNumerics_frameN hk
    have e1 : k.S.info = (Info.checkTermination info1 residuals.dot_bz residuals.dot_qx st.info L.iter false).1 := by
      rw [hkS]; rfl
    have e6 : k.S.variables = L.S.variables := by rw [hkS]; rfl
    have e7 : k.S.residuals = residuals := by rw [hkS]; rfl
    refine ⟨_, _, List.getLast?_concat .., ?_, hun, e6, ?_, ?_, ?_,
      Or.inl ⟨rfl, .insufficientProgress, ?_, Or.inr (Or.inr rfl)⟩⟩
    · exact List.mem_append_right _ (List.mem_singleton.mpr rfl)
    · show SameFigures { k.S.info with status := .insufficientProgress } info1
      rw [e1]
      exact (sameFigures_status _ _).trans (sameFigures_ct info1 _ _ _ _)
    · show k.S.residuals.dot_bz = residuals.dot_bz
      rw [e7]
    · show k.S.residuals.dot_qx = residuals.dot_qx
      rw [e7]
    · show ({ k.S.info with status := SolverStatus.insufficientProgress } : InfoS α) = _
      rw [e1, hs0]
      rfl

/-! ### the whole loop -/

/-- `runSolve` = `info.reset`, `default_start()`, continuing passes, one breaking pass -/
theorem runSolve_reach {S : SolverSt α} {st : Settings α} {L : LoopSt α} (h : S.runSolve st = .ok L) :
    ∃ S0 Lm, (resetInfo S).defaultStart st = .ok S0 ∧ Reach st (initLoopSt S0) Lm
      ∧ pass st Lm = .ok (false, L) := by
  rw [runSolve_eq_runSolveO] at h
  obtain ⟨o, ho, hl⟩ := bind_ok_inv h
  unfold SolverSt.runSolveO at ho
  obtain ⟨S0, hds, ho⟩ := bind_ok_inv ho
  cases o with
  | none => cases hl
  | some Lf =>
    cases hl
    obtain ⟨Lm, hr, hpm⟩ := runLoopO_reach _ _ _ _ ho
    exact ⟨S0, Lm, hds, hr, hpm⟩

/-- the loop state `runSolve` returns satisfies `RExit` -/
theorem runSolve_rexit {S : SolverSt α} {st : Settings α} {L : LoopSt α} (h : S.runSolve st = .ok L) :
    ∃ k p l, RExit st k L p l := by
  obtain ⟨S0, Lm, hds, hreach, hpm⟩ := runSolve_reach h
  have h0 : S0.info.status = .unsolved := by rw [defaultStart_info hds]; rfl
  obtain ⟨p, l, hE⟩ := pass_brk_rexit (reach_rinv hreach (initLoopSt_rinv h0)) hpm
  exact ⟨Lm.iter, p, l, hE⟩

/-- `finishInfo` keeps the figures, the variables and the data; its `info` is `Info::post_process` of the
loop's final `info` (with `iterations` possibly re-saved) -/
theorem finishInfo_frame (st : Settings α) (L : LoopSt α) :
    SameFigures (finishInfo st L).info L.S.info
      ∧ (finishInfo st L).variables = L.S.variables
      ∧ (finishInfo st L).data = L.S.data
      ∧ ∃ it, (finishInfo st L).info
          = Info.postProcess { L.S.info with iterations := it } L.S.residuals.dot_bz L.S.residuals.dot_qx st.info := by
  unfold finishInfo
  dsimp only
  split
  · obtain ⟨s', hs'⟩ := postProcess_eq_status { L.S.info with iterations := L.iter } L.S.residuals.dot_bz
      L.S.residuals.dot_qx st.info
    refine ⟨?_, rfl, rfl, ⟨L.iter, rfl⟩⟩
    show SameFigures (Info.postProcess { L.S.info with iterations := L.iter } _ _ _) L.S.info
    rw [hs']; exact ⟨rfl, rfl, rfl, rfl, rfl, rfl⟩
  · obtain ⟨s', hs'⟩ := postProcess_eq_status L.S.info L.S.residuals.dot_bz L.S.residuals.dot_qx st.info
    refine ⟨?_, rfl, rfl, ⟨L.S.info.iterations, rfl⟩⟩
    show SameFigures (Info.postProcess L.S.info _ _ _) L.S.info
    rw [hs']; exact ⟨rfl, rfl, rfl, rfl, rfl, rfl⟩

end Ret

/-! ### what a `solve()` returns -/

/-- [S] **which record a `solve()` of the model with nonsymmetric cones returns**: there are the LAST
pass record `l` and the record `p` of the returned iterate — `p = l`, or, after an insufficient-progress
rollback, the record of the last pass that reached `add_step` (at most one strategy-switching pass
between it and `l`) — such that every field of the report is as `Returned` says. -/
theorem solve_returnedN {S : Solver α} {st : Settings α} {r : SolveResult α} (h : S.solve st = .ok r) :
    ∃ p l, Returned st S r p l := by
  have hdata := solve_data h
  unfold Solver.solve at h
  obtain ⟨L, hL, h⟩ := bind_ok_inv h
  obtain ⟨q, hq, h⟩ := bind_ok_inv h
  obtain ⟨dN, hdN, h⟩ := bind_ok_inv h
  cases h
  unfold finish at hq
  obtain ⟨u, hu, hq⟩ := bind_ok_inv hq
  cases hq
  have hdat := runSolve_data hL
  obtain ⟨k, p, l, hE⟩ := Ret.runSolve_rexit hL
  obtain ⟨g1, g5, g6, it, hit⟩ := Ret.finishInfo_frame st L
  obtain ⟨a1, a2, a3, a4, a5, a6⟩ := postProcess_scalars _ _ _ _ _ _ hu
  have hu2 := postProcess_vars _ _ _ _ _ _ hu
  have hfin : SameFigures (finishInfo st L).info p.info := g1.trans hE.figs
  refine ⟨p, l, hE.last, hE.mem, hE.lun, hdata, ?_, hfin, ?_, ?_, ?_, ?_, a5, a6, ?_, ?_⟩
  · show u.2 = _
    rw [hu2, g5, hE.vars, g6, hdat]
  · show u.1.obj_val = _
    rw [a1, hfin.cp]
  · show u.1.obj_val_dual = _
    rw [a2, hfin.cd]
  · show u.1.r_prim = _
    rw [a3, hfin.rp]
  · show u.1.r_dual = _
    rw [a4, hfin.rd]
  · intro hpn
    have hpm : presolveMap (finishInfo st L).data = none := by rw [g6, hdat]; exact hpn
    rw [hpm] at hu
    have hv := postProcess_vars _ _ _ _ _ _ hu
    obtain ⟨b1, b2, b3, -⟩ := postProcess_none _ _ _ _ _ hu
    show u.1.x = u.2.x ∧ u.1.s = u.2.s ∧ u.1.z = u.2.z
    rw [hv]
    exact ⟨b1, b2, b3⟩
  · refine ⟨L.S.info, it, k, ?_, hE.final⟩
    show (finishInfo st L).info = _
    rw [hit, hE.bz, hE.qx]

end

end Clarabel.SolverNS
