/-
  Whole-solver model WITH NONSYMMETRIC CONES (`ClarabelModel/SolverNS/Solve.lean`): `solve()` reads
  the two norm caches `data.normq`, `data.normb` of the problem data ONLY through `get_normq` /
  `get_normb` (`Info.getNormq data.normq data.q dinv c`, `Info.getNormb data.normb data.b einv`) at
  the top of every pass (`topNumerics`), and carries them along unchanged.  Consequence
  (`solve_setNorms`): replacing the caches by other caches for which these two calls return the same
  thing does not change `solve()`: same errors, same trajectory, same final state, same solution.

  Port of `Lemmas/UpdateNormTransparent.lean` (sections 0–2) and `Lemmas/SolverNormCaches.lean`
  (`solve_putBack`) to the model with exponential / power / generalised power cones.
  All structural ([S]): no arithmetic law is used, the statements hold for `Float`.
-/
import ClarabelProofs.Lemmas.UpdateNormTransparent
import ClarabelProofs.Lemmas.SolverNSIdemInfo

namespace Clarabel.SolverNS
open Clarabel Info
open Clarabel.Solver (NormsAgree normsAgree_self fillNorms_setNorms setNorms_self_data fillNorms)
set_option linter.unusedSectionVars false
set_option linter.unusedVariables false
set_option linter.dupNamespace false
variable {α : Type}

/-! ### 0. replacing the norm caches (proof-side notions) -/

/-- replace the two norm caches inside the solver state -/
def SolverSt.setNorms (S : SolverSt α) (nq nb : Option α) : SolverSt α :=
  { S with data := S.data.setNorms nq nb }

/-- replace the two norm caches inside the loop state -/
def LoopSt.setNorms (L : LoopSt α) (nq nb : Option α) : LoopSt α :=
  { L with S := L.S.setNorms nq nb }

/-- replace the two norm caches inside the solver object -/
def Solver.setNorms (S : Solver α) (nq nb : Option α) : Solver α :=
  { S with st := S.st.setNorms nq nb }

/-- the solver object `T` with the problem data `d` put in place of its own -/
def Solver.withData (T : Solver α) (d : ProblemData α) : Solver α :=
  { T with st := { T.st with data := d } }

/-! ### congruence helpers for the `Except` monad -/

private theorem map_bind_congr {β γ δ : Type} {x x' : MErr β} {f : β → MErr γ} {f' : β → MErr δ} {g : δ → γ}
    (hx : x = x') (hf : ∀ a, f a = (f' a).map g) : (x >>= f) = (x' >>= f').map g := by
  subst hx
  cases x with
  | error e => rfl
  | ok a => exact hf a

private theorem map_bind_congr2 {β β' γ δ : Type} {x : MErr β'} {x' : MErr β} {h : β → β'} {f : β' → MErr γ}
    {f' : β → MErr δ} {g : δ → γ}
    (hx : x = x'.map h) (hf : ∀ a, f (h a) = (f' a).map g) : (x >>= f) = (x' >>= f').map g := by
  subst hx
  cases x' with
  | error e => rfl
  | ok a => exact hf a

private theorem ite_map_congr {γ δ : Type} {c : Prop} [Decidable c] {a b : MErr γ} {a' b' : MErr δ} {g : δ → γ}
    (ha : a = a'.map g) (hb : b = b'.map g) : (if c then a else b) = (if c then a' else b').map g := by
  split
  · exact ha
  · exact hb

private theorem bind_congr' {β γ : Type} {x x' : MErr β} {f f' : β → MErr γ}
    (hx : x = x') (hf : ∀ a, f a = f' a) : (x >>= f) = (x' >>= f') := by
  subst hx
  cases x with
  | error e => rfl
  | ok a => exact hf a

private theorem map_bind_congr2_mem {β β' γ δ : Type} {x : MErr β'} {x' : MErr β} {h : β → β'}
    {f : β' → MErr γ} {f' : β → MErr δ} {g : δ → γ}
    (hx : x = x'.map h) (hf : ∀ a, x' = .ok a → f (h a) = (f' a).map g) :
    (x >>= f) = (x' >>= f').map g := by
  subst hx
  cases x' with
  | error e => rfl
  | ok a => exact hf a rfl

private theorem bind_ok_inv' {β γ : Type} {x : MErr β} {f : β → MErr γ} {c : γ}
    (h : (x >>= f) = .ok c) : ∃ a, x = .ok a ∧ f a = .ok c := by
  cases x with
  | error e => cases h
  | ok a => exact ⟨a, rfl, h⟩

/-- a computation that equals its own image under `g`: `g` fixes its value -/
private theorem map_self_inv {β : Type} {x : MErr β} {g : β → β} {a : β}
    (h : x = x.map g) (hx : x = .ok a) : g a = a := by
  subst hx
  exact (Except.ok.inj h).symm

/-- `map` with two functions that agree on the value (if any) -/
private theorem map_congr_ok {β γ : Type} {x : MErr β} {g g' : β → γ}
    (h : ∀ a, x = .ok a → g a = g' a) : x.map g = x.map g' := by
  cases x with
  | error e => rfl
  | ok a => exact congrArg Except.ok (h a rfl)

section
variable [Add α] [Sub α] [Mul α] [Div α] [Neg α] [LT α] [LE α] [DecidableLT α] [DecidableLE α]
  [BEq α] [OfNat α 0] [OfNat α 1] [OfNat α 2] [OfNat α 3] [OfNat α 4] [OfNat α 100] [OfNat α 1000]
  [OfScientific α] [FloatLike α]

@[simp] theorem SolverSt.setNorms_self (S : SolverSt α) : S.setNorms S.data.normq S.data.normb = S := rfl
@[simp] theorem LoopSt.setNorms_self (L : LoopSt α) : L.setNorms L.S.data.normq L.S.data.normb = L := rfl

/-! ### 1. the KKT system, `default_start`, the loop -/

theorem kktSysNew_setNorms (d : ProblemData α) (nq nb : Option α) (K : List (ConeSt α))
    (lin : Solver.LinSettings α) (perm : Array Nat) :
    kktSysNew (d.setNorms nq nb) K lin perm = kktSysNew d K lin perm := rfl

theorem kktSysUpdate_setNorms (k : Solver.KktSys α) (d : ProblemData α) (nq nb : Option α)
    (K : List (ConeSt α)) (lin : Solver.LinSettings α) :
    kktSysUpdate k (d.setNorms nq nb) K lin = kktSysUpdate k d K lin := rfl

theorem kktSysSolve_setNorms (k : Solver.KktSys α) (lhs rhs : Residuals.Vars α) (d : ProblemData α)
    (nq nb : Option α) (v : Residuals.Vars α) (K : List (ConeSt α)) (dir : Solver.StepDirection)
    (lin : Solver.LinSettings α) :
    kktSysSolve k lhs rhs (d.setNorms nq nb) v K dir lin = kktSysSolve k lhs rhs d v K dir lin := rfl

/-- **[S]** the only place where `solve()` reads the caches: `get_normq` / `get_normb` at the top of
a pass.  Caches that answer these two calls alike give the same `(residuals, μ, info)`. -/
theorem topNumerics_setNorms (S : SolverSt α) (nq nb : Option α) (iter : Nat)
    (h : NormsAgree S.data nq nb) : topNumerics (S.setNorms nq nb) iter = topNumerics S iter := by
  unfold topNumerics
  refine bind_congr' rfl (fun res => ?_)
  show (Info.getNormq nq S.data.q S.data.equilibration.dinv S.data.equilibration.c >>= fun normq =>
        Info.getNormb nb S.data.b S.data.equilibration.einv >>= fun normb => _) = _
  rw [h.1, h.2]
  rfl

theorem stepVars_setNorms (S : SolverSt α) (nq nb : Option α) (a : α) :
    stepVars (S.setNorms nq nb) a = stepVars S a := rfl

theorem getStepLength_setNorms (st : Settings α) (S : SolverSt α) (nq nb : Option α)
    (cones : List (ConeSt α)) (dir : Solver.StepDirection) (sc : Loop.Scaling) :
    getStepLength st (S.setNorms nq nb) cones dir sc = getStepLength st S cones dir sc := rfl

/-- `default_start()` (either branch) never reads the caches; its output carries the data of its
input (absolute form: the data of the output IS the input's data with the caches replaced) -/
theorem defaultStart_setNorms_abs (S : SolverSt α) (nq nb : Option α) (st : Settings α) :
    (S.setNorms nq nb).defaultStart st
      = (S.defaultStart st).map (fun S' => { S' with data := S.data.setNorms nq nb }) := by
  unfold SolverSt.defaultStart
  refine ite_map_congr ?_ ?_
  · refine map_bind_congr rfl (fun a => ?_)
    refine map_bind_congr rfl (fun b => ?_)
    refine map_bind_congr rfl (fun c => ?_)
    refine map_bind_congr rfl (fun d => ?_)
    rfl
  · refine map_bind_congr rfl (fun a => ?_)
    rfl

/-- `default_start()` never writes the problem data -/
theorem defaultStart_data' {S S' : SolverSt α} {st : Settings α} (h : S.defaultStart st = .ok S') :
    S'.data = S.data := by
  have e := defaultStart_setNorms_abs S S.data.normq S.data.normb st
  rw [SolverSt.setNorms_self, setNorms_self_data] at e
  exact (congrArg SolverSt.data (map_self_inv e h)).symm

/-- **[S]** `default_start()` commutes with replacing the caches -/
theorem defaultStart_setNorms (S : SolverSt α) (nq nb : Option α) (st : Settings α) :
    (S.setNorms nq nb).defaultStart st = (S.defaultStart st).map (·.setNorms nq nb) := by
  rw [defaultStart_setNorms_abs]
  refine map_congr_ok (fun S' h => ?_)
  show _ = ({ S' with data := S'.data.setNorms nq nb } : SolverSt α)
  rw [defaultStart_data' h]

/-- the KKT stage of a pass never reads the caches (absolute form) -/
theorem kktNumerics_setNorms_abs (st : Settings α) (S : SolverSt α) (nq nb : Option α)
    (cones : List (ConeSt α)) (mu : α) (iter : Nat) (scaling : Loop.Scaling) :
    kktNumerics st (S.setNorms nq nb) cones mu iter scaling
      = (kktNumerics st S cones mu iter scaling).map
          (fun k => { k with S := { k.S with data := S.data.setNorms nq nb } }) := by
  unfold kktNumerics
  refine map_bind_congr rfl (fun a => ?_)
  refine map_bind_congr rfl (fun b => ?_)
  dsimp only
  split <;>
  · refine map_bind_congr rfl (fun c => ?_)
    obtain ⟨affOk, stepLhs, kktsystem⟩ := c
    dsimp only
    split
    · refine map_bind_congr rfl (fun d => ?_)
      refine map_bind_congr rfl (fun e => ?_)
      refine map_bind_congr rfl (fun f => ?_)
      rfl
    · rfl

/-- one pass of the loop with replaced caches (absolute form: the data of the output loop state IS
the input's data with the caches replaced) -/
theorem pass_setNorms_abs (st : Settings α) (L : LoopSt α) (nq nb : Option α)
    (h : NormsAgree L.S.data nq nb) :
    pass st (L.setNorms nq nb)
      = (pass st L).map (fun r =>
          (r.1, { r.2 with S := { r.2.S with data := L.S.data.setNorms nq nb } })) := by
  unfold pass
  refine map_bind_congr (topNumerics_setNorms L.S nq nb L.iter h) (fun a => ?_)
  obtain ⟨residuals, mu, info1⟩ := a
  dsimp only
  refine ite_map_congr ?_ ?_
  · -- `strategy_checkpoint_insufficient_progress`
    refine ite_map_congr rfl ?_
    refine map_bind_congr rfl (fun v => ?_)
    exact ite_map_congr rfl rfl
  · refine map_bind_congr rfl (fun sc => ?_)
    try dsimp only
    refine ite_map_congr rfl ?_
    have hk := kktNumerics_setNorms_abs st
      { L.S with residuals := residuals,
                 info := (checkTermination info1 residuals.dot_bz residuals.dot_qx st.info L.iter false).1,
                 infoMu := mu, infoSigma := L.sigma, infoStepLength := L.alpha, cones := sc.2 }
      nq nb sc.2 mu (L.iter + 1) L.scaling
    refine map_bind_congr2 hk (fun k => ?_)
    dsimp only
    refine ite_map_congr ?_ ?_
    · -- `strategy_checkpoint_numerical_error`
      exact ite_map_congr rfl rfl
    · refine map_bind_congr rfl (fun a => ?_)
      obtain ⟨a, nbt⟩ := a
      try dsimp only
      -- `strategy_checkpoint_small_step`
      refine ite_map_congr rfl ?_
      refine ite_map_congr rfl ?_
      exact map_bind_congr rfl (fun pv => rfl)

/-- a pass never writes the problem data -/
theorem pass_data' {st : Settings α} {L : LoopSt α} {r : Bool × LoopSt α} (hp : pass st L = .ok r) :
    r.2.S.data = L.S.data := by
  have e := pass_setNorms_abs st L L.S.data.normq L.S.data.normb (normsAgree_self _)
  rw [LoopSt.setNorms_self, setNorms_self_data] at e
  have := map_self_inv e hp
  exact (congrArg (fun r : Bool × LoopSt α => r.2.S.data) this).symm

/-- **[S]** one pass of the loop (all its exits, the three strategy checkpoints included) reads the
caches only through `get_normq` / `get_normb` and carries them along unchanged -/
theorem pass_setNorms (st : Settings α) (L : LoopSt α) (nq nb : Option α)
    (h : NormsAgree L.S.data nq nb) :
    pass st (L.setNorms nq nb) = (pass st L).map (fun r => (r.1, r.2.setNorms nq nb)) := by
  rw [pass_setNorms_abs st L nq nb h]
  refine map_congr_ok (fun r hr => ?_)
  show _ = (r.1, ({ r.2 with S := { r.2.S with data := r.2.S.data.setNorms nq nb } } : LoopSt α))
  rw [pass_data' hr]

/-- **[S]** the loop commutes with replacing the caches by agreeing ones -/
theorem runLoop_setNorms (st : Settings α) (nq nb : Option α) :
    ∀ (fuel : Nat) (L : LoopSt α), NormsAgree L.S.data nq nb →
      runLoop st fuel (L.setNorms nq nb) = (runLoop st fuel L).map (·.setNorms nq nb)
  | 0, _, _ => rfl
  | fuel + 1, L, h => by
    unfold runLoop
    refine map_bind_congr2_mem (pass_setNorms st L nq nb h) (fun r hp => ?_)
    dsimp only
    exact ite_map_congr (runLoop_setNorms st nq nb fuel r.2 (h.of_data_eq (pass_data' hp))) rfl

/-- the loop never writes the problem data -/
theorem runLoop_data' {st : Settings α} : ∀ (fuel : Nat) {L Lf : LoopSt α},
    runLoop st fuel L = .ok Lf → Lf.S.data = L.S.data
  | 0, _, _, h => by cases h
  | fuel + 1, L, Lf, h => by
    unfold runLoop at h
    cases hp : pass st L with
    | error e => rw [hp] at h; cases h
    | ok r =>
      rw [hp] at h
      have h' : (if r.1 = true then runLoop st fuel r.2 else pure r.2) = .ok Lf := h
      split at h'
      · rw [runLoop_data' fuel h', pass_data' hp]
      · cases h'; exact pass_data' hp

/-- **[S]** `info.reset`, `default_start()` and the loop are a function of the solver state in which
the caches enter only through the answers of `get_normq` / `get_normb`; the caches are carried along
unchanged: same errors, same trajectory, same state -/
theorem runSolve_setNorms (S : SolverSt α) (nq nb : Option α) (st : Settings α)
    (h : NormsAgree S.data nq nb) :
    (S.setNorms nq nb).runSolve st = (S.runSolve st).map (·.setNorms nq nb) := by
  unfold SolverSt.runSolve
  have h0 := defaultStart_setNorms
    { S with info := { S.info with status := .unsolved, iterations := 0 } } nq nb st
  refine map_bind_congr2_mem h0 (fun S1 hd => ?_)
  have e := defaultStart_data' hd
  exact runLoop_setNorms st nq nb _
    { S := S1, iter := 0, sigma := 1, alpha := 0, mu := 0, scaling := initScaling S1.cones, traj := [] }
    (h.of_data_eq e)

/-- `info.reset`, `default_start()` and the loop never write the problem data -/
theorem runSolve_data' {S : SolverSt α} {st : Settings α} {L : LoopSt α} (h : S.runSolve st = .ok L) :
    L.S.data = S.data := by
  unfold SolverSt.runSolve at h
  obtain ⟨S1, hd, h⟩ := bind_ok_inv' h
  have e := defaultStart_data' hd
  rw [runLoop_data' _ h]
  exact e

/-! ### 2. after the loop -/

theorem finishInfo_setNorms (st : Settings α) (L : LoopSt α) (nq nb : Option α) :
    finishInfo st (L.setNorms nq nb) = (finishInfo st L).setNorms nq nb := by
  unfold finishInfo
  by_cases h : (L.alpha == 0) = true
  · have h' : ((L.setNorms nq nb).alpha == 0) = true := h
    simp only [if_pos h, if_pos h']
    rfl
  · have h' : ¬ ((L.setNorms nq nb).alpha == 0) = true := h
    simp only [if_neg h, if_neg h']
    rfl

/-- `solution.post_process` reads `data.equilibration` and the presolver row map, not the caches -/
theorem finish_setNorms (st : Settings α) (L : LoopSt α) (sol : Unscale.Solution α) (nq nb : Option α) :
    finish st (L.setNorms nq nb) sol
      = (finish st L sol).map (fun r => (r.1.setNorms nq nb, r.2)) := by
  unfold finish
  rw [finishInfo_setNorms]
  exact map_bind_congr rfl (fun r => rfl)

/-- `finish` (`post_process` of `info` and `solution`) never writes the problem data -/
theorem finish_data' {st : Settings α} {L : LoopSt α} {sol : Unscale.Solution α}
    {r : SolverSt α × Unscale.Solution α} (h : finish st L sol = .ok r) : r.1.data = L.S.data := by
  unfold finish at h
  obtain ⟨u, _, h⟩ := bind_ok_inv' h
  cases h
  show (finishInfo st L).data = L.S.data
  unfold finishInfo
  by_cases ha : (L.alpha == 0) = true
  · simp only [if_pos ha]
  · simp only [if_neg ha]

/-- **[S] MAIN THEOREM (model with nonsymmetric cones).**  `solve()` reads the norm caches
`data.normq`, `data.normb` only through `get_normq` / `get_normb`, and what it leaves in them are the
answers of these two calls: on a solver object whose caches are replaced by caches `nq`, `nb` that
answer the two calls like the original ones (`NormsAgree`, a statement about the data at entry),
`solve()` returns THE SAME — the same error, or the same trajectory (every pass record, strategy
checkpoints included), the same solution and the same final solver state, caches included. -/
theorem solve_setNorms (S : Solver α) (st : Settings α) (nq nb : Option α)
    (h : NormsAgree S.st.data nq nb) :
    (S.setNorms nq nb).solve st = S.solve st := by
  unfold Solver.solve
  show ((S.st.setNorms nq nb).runSolve st >>= fun L => _) = _
  rw [runSolve_setNorms S.st nq nb st h]
  cases hL : S.st.runSolve st with
  | error e => rfl
  | ok L =>
    show (finish st (L.setNorms nq nb) S.solution >>= fun r => _) = (finish st L S.solution >>= fun r => _)
    rw [finish_setNorms]
    cases hf : finish st L S.solution with
    | error e => rfl
    | ok r =>
      have hd : r.1.data = S.st.data := (finish_data' hf).trans (runSolve_data' hL)
      show (fillNorms (r.1.data.setNorms nq nb) >>= fun data => _) = (fillNorms r.1.data >>= fun data => _)
      rw [fillNorms_setNorms _ nq nb (h.of_data_eq hd)]
      rfl

/-- `solve_setNorms`, spelled out on a successful solve -/
theorem solve_setNorms_ok {S : Solver α} {st : Settings α} {nq nb : Option α} {r : SolveResult α}
    (h : NormsAgree S.st.data nq nb) (hr : S.solve st = .ok r) :
    (S.setNorms nq nb).solve st = .ok r := by
  rw [solve_setNorms S st nq nb h, hr]

/-- `solve_setNorms`, errors: the same error is returned -/
theorem solve_setNorms_error {S : Solver α} {st : Settings α} {nq nb : Option α} {e : ModelErr}
    (h : NormsAgree S.st.data nq nb) (hr : S.solve st = .error e) :
    (S.setNorms nq nb).solve st = .error e := by
  rw [solve_setNorms S st nq nb h, hr]

/-- two pairs of caches that both agree with those of `S` give the same `solve()` -/
theorem solve_setNorms_setNorms (S : Solver α) (st : Settings α) (nq nb nq' nb' : Option α)
    (h : NormsAgree S.st.data nq nb) (h' : NormsAgree S.st.data nq' nb') :
    (S.setNorms nq nb).solve st = (S.setNorms nq' nb').solve st := by
  rw [solve_setNorms S st nq nb h, solve_setNorms S st nq' nb' h']

/-! ### 3. the solve after a solve -/

/-- what `solve()` returned is the put-back object with the two caches filled -/
theorem solve_eq_setNorms {S : Solver α} {st : Settings α} {r : SolveResult α} (h : S.solve st = .ok r) :
    ∃ nq nb, Info.getNormq S.st.data.normq S.st.data.q S.st.data.equilibration.dinv
        S.st.data.equilibration.c = .ok nq
      ∧ Info.getNormb S.st.data.normb S.st.data.b S.st.data.equilibration.einv = .ok nb
      ∧ r.S = (r.S.withData S.st.data).setNorms (some nq) (some nb) := by
  obtain ⟨nq, nb, hq, hb, e⟩ := solve_data_eq h
  refine ⟨nq, nb, hq, hb, ?_⟩
  have e' : r.S.st.data = S.st.data.setNorms (some nq) (some nb) := e
  show r.S = { r.S with st := { r.S.st with data := S.st.data.setNorms (some nq) (some nb) } }
  rw [← e']

/-- **[S] the solve after a solve**: the `solve()` on the object a `solve()` returned is the
`solve()` on that object with the data at entry put back — the caches the first call filled answer
`get_normq` / `get_normb` as the caches at entry did. -/
theorem solve_putBack {S : Solver α} {st : Settings α} {r : SolveResult α} (h : S.solve st = .ok r)
    (st' : Settings α) : r.S.solve st' = (r.S.withData S.st.data).solve st' := by
  obtain ⟨nq, nb, hq, hb, e⟩ := solve_eq_setNorms h
  conv => lhs; rw [e]
  refine solve_setNorms _ st' _ _ ⟨?_, ?_⟩
  · show Info.getNormq (some nq) S.st.data.q S.st.data.equilibration.dinv S.st.data.equilibration.c
      = Info.getNormq S.st.data.normq S.st.data.q S.st.data.equilibration.dinv S.st.data.equilibration.c
    rw [hq]; rfl
  · show Info.getNormb (some nb) S.st.data.b S.st.data.equilibration.einv
      = Info.getNormb S.st.data.normb S.st.data.b S.st.data.equilibration.einv
    rw [hb]; rfl

end
end Clarabel.SolverNS
