/-
  The global fill schedule of the KKT assembly: the concatenation, in the order in which
  `_kkt_assemble_fill` runs them, of the schedules of all the `fill_*` calls.  (Specification
  object used by the theorems that link `assembleKktMatrix` to the fill engine
  `Csc.placeAll`; the map slot `k` of an entry is local to the index vector it is recorded in.)
-/
import ClarabelModel.Kkt

namespace Clarabel.Kkt
open Clarabel Clarabel.Csc

variable {α : Type} [OfNat α 0]

/-- schedules of `csc_fill_sparsecone` (same order as the model's `fillSparsecone`) -/
def sparseSchedule (c : ConeSpec) (row col : Nat) (shape : MatrixTriangle) : List (Entry α) :=
  match c with
  | .soc nvars =>
    let vecs : List (Entry α) := match shape with
      | .triu => colvecSchedule nvars row col ++ colvecSchedule nvars row (col + 1)
      | .tril => rowvecSchedule nvars col row ++ rowvecSchedule nvars (col + 1) row
    vecs ++ diagSchedule col 2
  | .genpow dim1 dim2 =>
    let vecs : List (Entry α) := match shape with
      | .triu => colvecSchedule dim1 row col ++ colvecSchedule dim2 (row + dim1) (col + 1)
          ++ colvecSchedule (dim1 + dim2) row (col + 2)
      | .tril => rowvecSchedule dim1 col row ++ rowvecSchedule dim2 (col + 1) (row + dim1)
          ++ rowvecSchedule (dim1 + dim2) (col + 2) row
    vecs ++ diagSchedule col 3
  | _ => []

/-- number of auxiliary variables of a cone's expansion -/
def conePdim (c : ConeSpec) : Nat :=
  if c.isSparseExpandable then (match c with
    | .soc _ => 2
    | _ => 3) else 0

/-- the Hs block and (if any) the expansion of one cone whose first row/column is `row`
and whose first expansion column is `pcol` -/
def coneSchedule (c : ConeSpec) (row pcol : Nat) (shape : MatrixTriangle) : List (Entry α) :=
  let hs : List (Entry α) :=
    if c.hsIsDiagonal then diagSchedule row c.numel
    else match shape with
      | .triu => denseTriuSchedule row c.numel
      | .tril => denseTrilSchedule row c.numel
  let sp : List (Entry α) := if c.isSparseExpandable then sparseSchedule c row pcol shape else []
  hs ++ sp

/-- all cones, in order: cone `i` starts at row `row`, its expansion at column `pcol` -/
def conesSchedule : List ConeSpec → Nat → Nat → MatrixTriangle → List (Entry α)
  | [], _, _, _ => []
  | c :: rest, row, pcol, shape =>
    coneSchedule c row pcol shape ++ conesSchedule rest (row + c.numel) (pcol + conePdim c) shape

/-- the whole assembly -/
def kktSchedule (P A : Csc α) (cones : List ConeSpec) (shape : MatrixTriangle) :
    MErr (List (Entry α)) := do
  let (m, n) := (A.m, A.n)
  let head ← match shape with
    | .triu => do
      let sP ← blockSchedule P 0 0 .N
      let sD ← missingDiagSchedule P 0
      let sA ← blockSchedule A 0 n .T
      pure (sP ++ sD ++ sA)
    | .tril => do
      let sD ← missingDiagSchedule P 0
      let sP ← blockSchedule P 0 0 .T
      let sA ← blockSchedule A n 0 .N
      pure (sD ++ sP ++ sA)
  pure (head ++ conesSchedule cones n (m + n) shape)

end Clarabel.Kkt
