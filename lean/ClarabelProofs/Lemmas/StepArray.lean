/-
  Array-level bridge for the step machinery (`ClarabelModel/Step.lean`, the functions the
  `step.*` / `kkt.solve` channels tie bit-for-bit to `variables.rs` / `kktsystem.rs`):
  over a field every executable function, read through `toFn`, is the dense / functional
  operator the C06 theorems are stated for.

  * generic row-wise lemmas for the `mask.zip (… .zip …)).map f` shape of the cone callbacks
  * `affineDs`, `mulHs`, `dsFromDzOffset`, `combinedDsShift`, `updateScaling`
  * `affineStepRhs`, `combinedStepRhs`, `addStep`
-/
import ClarabelModel.Step
import ClarabelModel.KktSystem
import ClarabelProofs.Lemmas.StepBridge
import ClarabelProofs.Lemmas.ScalarInst

namespace Clarabel.Lemmas
open Matrix Clarabel Clarabel.Step

set_option linter.unusedSectionVars false

section generic
variable {α : Type} [Field α] {n m : ℕ}

/-- the row mask read as a function on `Fin m` -/
def maskFn (mask : List Bool) (m : ℕ) : Fin m → Bool := fun i => mask.getD i false

theorem toFn_mask1 (mask : List Bool) (a : Array α) (f : Bool × α → α) (hm : mask.length = m)
    (ha : a.size = m) :
    toFn ((mask.zip a.toList).map f).toArray m = fun i => f (maskFn mask m i, toFn a m i) := by
  funext i
  have hi := i.2
  simp [toFn, maskFn, Array.getD, hm, ha, hi]

theorem size_mask1 (mask : List Bool) (a : Array α) (f : Bool × α → α) (hm : mask.length = m)
    (ha : a.size = m) : ((mask.zip a.toList).map f).toArray.size = m := by
  simp [hm, ha]

theorem toFn_mask2 (mask : List Bool) (a b : Array α) (f : Bool × α × α → α) (hm : mask.length = m)
    (ha : a.size = m) (hb : b.size = m) :
    toFn ((mask.zip (a.toList.zip b.toList)).map f).toArray m
      = fun i => f (maskFn mask m i, toFn a m i, toFn b m i) := by
  funext i
  have hi := i.2
  simp [toFn, maskFn, Array.getD, hm, ha, hb, hi]

theorem size_mask2 (mask : List Bool) (a b : Array α) (f : Bool × α × α → α) (hm : mask.length = m)
    (ha : a.size = m) (hb : b.size = m) :
    ((mask.zip (a.toList.zip b.toList)).map f).toArray.size = m := by
  simp [hm, ha, hb]

theorem toFn_mask3 (mask : List Bool) (a b c : Array α) (f : Bool × α × α × α → α)
    (hm : mask.length = m) (ha : a.size = m) (hb : b.size = m) (hc : c.size = m) :
    toFn ((mask.zip (a.toList.zip (b.toList.zip c.toList))).map f).toArray m
      = fun i => f (maskFn mask m i, toFn a m i, toFn b m i, toFn c m i) := by
  funext i
  have hi := i.2
  simp [toFn, maskFn, Array.getD, hm, ha, hb, hc, hi]

theorem size_mask3 (mask : List Bool) (a b c : Array α) (f : Bool × α × α × α → α)
    (hm : mask.length = m) (ha : a.size = m) (hb : b.size = m) (hc : c.size = m) :
    ((mask.zip (a.toList.zip (b.toList.zip c.toList))).map f).toArray.size = m := by
  simp [hm, ha, hb, hc]

theorem toFn_scale (x : Array α) (c : α) (hx : x.size = m) :
    toFn (Vec.scale x c) m = c • toFn x m := by
  funext i
  have hi := i.2
  simp [toFn, Vec.scale, Array.getD, hx, hi, mul_comm]

theorem size_scale (x : Array α) (c : α) (hx : x.size = m) : (Vec.scale x c).size = m := by
  simp [Vec.scale, hx]

end generic

section real
variable {n m : ℕ}

/-- rows of a nonnegative cone are strictly positive in `s` and `z` (interior iterate) -/
def NNInterior (mask : List Bool) (s z : Array ℝ) (m : ℕ) : Prop :=
  ∀ i : Fin m, maskFn mask m i = true → 0 < toFn s m i ∧ 0 < toFn z m i

/-- `NonnegativeCone::update_scaling`, dense reading: `λ = √(s z)`, `w = √(s/z)` on
nonnegative rows, `0` on zero-cone rows -/
theorem updateScaling_dense (mask : List Bool) (s z : Array ℝ) (hm : mask.length = m)
    (hs : s.size = m) (hz : z.size = m) :
    (updateScaling mask s z).1.size = m ∧ (updateScaling mask s z).2.size = m
    ∧ toFn (updateScaling mask s z).1 m
        = (fun i => if maskFn mask m i then Real.sqrt (toFn s m i * toFn z m i) else 0)
    ∧ toFn (updateScaling mask s z).2 m
        = (fun i => if maskFn mask m i then Real.sqrt (toFn s m i / toFn z m i) else 0) := by
  unfold updateScaling
  refine ⟨size_mask2 mask s z _ hm hs hz, size_mask2 mask s z _ hm hs hz, ?_, ?_⟩
  · rw [toFn_mask2 mask s z _ hm hs hz]; rfl
  · rw [toFn_mask2 mask s z _ hm hs hz]; rfl

theorem affineDs_dense (mask : List Bool) (lam : Array ℝ) (hm : mask.length = m)
    (hl : lam.size = m) :
    (affineDs mask lam).size = m
    ∧ toFn (affineDs mask lam) m
        = (fun i => if maskFn mask m i then toFn lam m i * toFn lam m i else 0) := by
  unfold affineDs
  refine ⟨size_mask1 mask lam _ hm hl, ?_⟩
  rw [toFn_mask1 mask lam _ hm hl]

theorem mulHs_dense (mask : List Bool) (w x : Array ℝ) (hm : mask.length = m) (hw : w.size = m)
    (hx : x.size = m) :
    (mulHs mask w x).size = m
    ∧ toFn (mulHs mask w x) m
        = (fun i => if maskFn mask m i then toFn w m i * (toFn w m i * toFn x m i) else 0) := by
  unfold mulHs
  refine ⟨size_mask2 mask w x _ hm hw hx, ?_⟩
  rw [toFn_mask2 mask w x _ hm hw hx]

theorem dsFromDzOffset_dense (mask : List Bool) (ds z : Array ℝ) (hm : mask.length = m)
    (hd : ds.size = m) (hz : z.size = m) :
    (dsFromDzOffset mask ds z).size = m
    ∧ toFn (dsFromDzOffset mask ds z) m
        = (fun i => if maskFn mask m i then toFn ds m i / toFn z m i else 0) := by
  unfold dsFromDzOffset
  refine ⟨size_mask2 mask ds z _ hm hd hz, ?_⟩
  rw [toFn_mask2 mask ds z _ hm hd hz]

/-- `combined_ds_shift` (`_combined_ds_shift_symmetric` on nonnegative rows), dense reading:
`step_z ← W Δz`, `step_s ← W⁻¹ Δs`, `shift = (W⁻¹Δs)∘(WΔz) − σμ` on nonnegative rows; zero-cone
rows: shift `0`, steps untouched -/
theorem combinedDsShift_dense (mask : List Bool) (w dz ds : Array ℝ) (σμ : ℝ)
    (hm : mask.length = m) (hw : w.size = m) (hz : dz.size = m) (hs : ds.size = m) :
    (combinedDsShift mask w dz ds σμ).1.size = m
    ∧ (combinedDsShift mask w dz ds σμ).2.1.size = m
    ∧ (combinedDsShift mask w dz ds σμ).2.2.size = m
    ∧ toFn (combinedDsShift mask w dz ds σμ).1 m
        = (fun i => if maskFn mask m i then
            (toFn ds m i / toFn w m i) * (toFn dz m i * toFn w m i) - σμ else 0)
    ∧ toFn (combinedDsShift mask w dz ds σμ).2.1 m
        = (fun i => if maskFn mask m i then toFn dz m i * toFn w m i else toFn dz m i)
    ∧ toFn (combinedDsShift mask w dz ds σμ).2.2 m
        = (fun i => if maskFn mask m i then toFn ds m i / toFn w m i else toFn ds m i) := by
  refine ⟨?_, ?_, ?_, ?_, ?_, ?_⟩
  · simp [combinedDsShift, hm, hw, hz, hs]
  · simp [combinedDsShift, hm, hw, hz, hs]
  · simp [combinedDsShift, hm, hw, hz, hs]
  · funext i
    have hi := i.2
    simp only [combinedDsShift, toFn, maskFn, Array.getD]
    simp [hm, hw, hz, hs, hi]
    split <;> ring
  · funext i
    have hi := i.2
    simp only [combinedDsShift, toFn, maskFn, Array.getD]
    simp [hm, hw, hz, hs, hi]
  · funext i
    have hi := i.2
    simp only [combinedDsShift, toFn, maskFn, Array.getD]
    simp [hm, hw, hz, hs, hi]

/-- `if m != 1 { step.z.scale(m) }` is `m • Δz` -/
theorem scaleIf_dense (mm : ℝ) (dz : Array ℝ) (h : dz.size = m) :
    (if mm < 1 ∨ 1 < mm ∨ FloatLike.isNaN mm then Vec.scale dz mm else dz).size = m
    ∧ toFn (if mm < 1 ∨ 1 < mm ∨ FloatLike.isNaN mm then Vec.scale dz mm else dz) m
        = mm • toFn dz m := by
  by_cases hc : mm < 1 ∨ 1 < mm ∨ FloatLike.isNaN mm
  · rw [if_pos hc]; exact ⟨size_scale dz mm h, toFn_scale dz mm h⟩
  · rw [if_neg hc]
    have h1 : mm = 1 := by
      simp only [not_or, not_lt] at hc
      exact le_antisymm hc.2.1 hc.1
    rw [h1, one_smul]; exact ⟨h, rfl⟩

/-- `affine_step_rhs`, dense reading -/
theorem affineStepRhs_dense (mask : List Bool) (rx rz : Array ℝ) (rτ : ℝ) (vars : Vars ℝ)
    (hm : mask.length = m) (hs : vars.s.size = m) (hz : vars.z.size = m)
    (hint : NNInterior mask vars.s vars.z m) :
    let aff := affineStepRhs mask rx rz rτ (updateScaling mask vars.s vars.z).1 vars
    aff.x = rx ∧ aff.z = rz ∧ aff.τ = rτ ∧ aff.κ = vars.τ * vars.κ ∧ aff.s.size = m
    ∧ toFn aff.s m = (fun i => if maskFn mask m i then toFn vars.s m i * toFn vars.z m i else 0) := by
  intro aff
  obtain ⟨hl, _, el, _⟩ := updateScaling_dense mask vars.s vars.z hm hs hz
  obtain ⟨h1, h2⟩ := affineDs_dense mask (updateScaling mask vars.s vars.z).1 hm hl
  refine ⟨rfl, rfl, rfl, rfl, h1, ?_⟩
  show toFn (affineDs mask (updateScaling mask vars.s vars.z).1) m = _
  rw [h2, el]
  funext i
  by_cases hi : maskFn mask m i = true
  · obtain ⟨p1, p2⟩ := hint i hi
    simp only [hi, if_true]
    exact Real.mul_self_sqrt (mul_pos p1 p2).le
  · simp only [hi]; rfl

/-- `combined_step_rhs` applied to the rhs left by `affine_step_rhs`, dense reading: the
right-hand side is `((1−σ)rx, (1−σ)rz, (1−σ)rτ)`, `ds = s∘z + m·Δsᵃ∘Δzᵃ − σμ` on nonnegative
rows (`0` on zero-cone rows), `dκ = τκ + m·ΔτᵃΔκᵃ − σμ`. -/
theorem combinedStepRhs_dense (mask : List Bool) (rx rz : Array ℝ) (rτ : ℝ) (vars step : Vars ℝ)
    (σ μ mm : ℝ) (hm : mask.length = m) (hrx : rx.size = n) (hrz : rz.size = m)
    (hs : vars.s.size = m) (hz : vars.z.size = m) (hds : step.s.size = m) (hdz : step.z.size = m)
    (hint : NNInterior mask vars.s vars.z m) :
    let sc := updateScaling mask vars.s vars.z
    let aff := affineStepRhs mask rx rz rτ sc.1 vars
    let r := (combinedStepRhs mask sc.2 aff rx rz rτ vars step σ μ mm).1
    r.x.size = n ∧ r.s.size = m ∧ r.z.size = m
    ∧ toFn r.x n = (1 - σ) • toFn rx n ∧ toFn r.z m = (1 - σ) • toFn rz m
    ∧ r.τ = (1 - σ) * rτ ∧ r.κ = -(σ * μ) + mm * step.τ * step.κ + vars.τ * vars.κ
    ∧ toFn r.s m = (fun i => if maskFn mask m i then
        toFn vars.s m i * toFn vars.z m i + mm * toFn step.s m i * toFn step.z m i - σ * μ else 0) := by
  intro sc aff r
  obtain ⟨_, hw, _, ew⟩ := updateScaling_dense mask vars.s vars.z hm hs hz
  obtain ⟨ax, _, _, _, has, eas⟩ := affineStepRhs_dense mask rx rz rτ vars hm hs hz hint
  obtain ⟨hsz, esz⟩ := scaleIf_dense mm step.z hdz
  obtain ⟨c1, _, _, e1, _, _⟩ := combinedDsShift_dense mask sc.2
    (if mm < 1 ∨ 1 < mm ∨ FloatLike.isNaN mm then Vec.scale step.z mm else step.z) step.s (σ * μ)
    hm hw hsz hds
  have hax : aff.x.size = n := by rw [ax]; exact hrx
  refine ⟨axpby_size _ _ _ _ hrx hax, axpby_size _ _ _ _ c1 has, axpby_size _ _ _ _ hrz c1, ?_, ?_,
    rfl, rfl, ?_⟩
  · show toFn (Vec.axpby (1 - σ) rx 0 aff.x) n = _
    rw [toFn_axpby _ _ _ _ hrx hax, zero_smul, add_zero]
  · show toFn (Vec.axpby (1 - σ) rz 0 (combinedDsShift mask sc.2 _ step.s (σ * μ)).1) m = _
    rw [toFn_axpby _ _ _ _ hrz c1, zero_smul, add_zero]
  · show toFn (Vec.axpby 1 (combinedDsShift mask sc.2 _ step.s (σ * μ)).1 1 aff.s) m = _
    rw [toFn_axpby _ _ _ _ c1 has, e1, eas, esz, ew]
    funext i
    by_cases hi : maskFn mask m i = true
    · obtain ⟨p1, p2⟩ := hint i hi
      have hw0 : Real.sqrt (toFn vars.s m i / toFn vars.z m i) ≠ 0 :=
        (Real.sqrt_pos.mpr (div_pos p1 p2)).ne'
      simp only [Pi.add_apply, Pi.smul_apply, smul_eq_mul, hi, if_true]
      field_simp
      ring
    · simp only [Pi.add_apply, Pi.smul_apply, smul_eq_mul, hi]
      simp

/-- `add_step`, dense reading -/
theorem addStep_dense (v step : Vars ℝ) (a : ℝ) (hx : v.x.size = n) (hdx : step.x.size = n)
    (hs : v.s.size = m) (hds : step.s.size = m) (hz : v.z.size = m) (hdz : step.z.size = m) :
    let w := addStep v step a
    w.x.size = n ∧ w.s.size = m ∧ w.z.size = m
    ∧ toFn w.x n = toFn v.x n + a • toFn step.x n
    ∧ toFn w.s m = toFn v.s m + a • toFn step.s m
    ∧ toFn w.z m = toFn v.z m + a • toFn step.z m
    ∧ w.τ = v.τ + a * step.τ ∧ w.κ = v.κ + a * step.κ := by
  intro w
  refine ⟨axpby_size _ _ _ _ hdx hx, axpby_size _ _ _ _ hds hs, axpby_size _ _ _ _ hdz hz, ?_, ?_, ?_,
    rfl, rfl⟩
  · show toFn (Vec.axpby a step.x 1 v.x) n = _
    rw [toFn_axpby _ _ _ _ hdx hx, one_smul, add_comm]
  · show toFn (Vec.axpby a step.s 1 v.s) m = _
    rw [toFn_axpby _ _ _ _ hds hs, one_smul, add_comm]
  · show toFn (Vec.axpby a step.z 1 v.z) m = _
    rw [toFn_axpby _ _ _ _ hdz hz, one_smul, add_comm]

/-- the scaling block `Hs = WᵀW` of a product of zero and nonnegative cones at `(s, z)`:
`diag(s/z)` on nonnegative rows, `0` on zero-cone rows -/
noncomputable def Hnn (mask : List Bool) (s z : Array ℝ) (m : ℕ) : Matrix (Fin m) (Fin m) ℝ :=
  Matrix.diagonal (fun i => if maskFn mask m i then toFn s m i / toFn z m i else 0)

/-- `mul_Hs` with the scaling of `update_scaling(s, z)` is the dense block `Hnn` -/
theorem mulHs_eq_Hnn (mask : List Bool) (s z v : Array ℝ) (hm : mask.length = m) (hs : s.size = m)
    (hz : z.size = m) (hv : v.size = m) (hint : NNInterior mask s z m) :
    (mulHs mask (updateScaling mask s z).2 v).size = m
    ∧ toFn (mulHs mask (updateScaling mask s z).2 v) m = Hnn mask s z m *ᵥ toFn v m := by
  obtain ⟨_, hw, _, ew⟩ := updateScaling_dense mask s z hm hs hz
  obtain ⟨h1, h2⟩ := mulHs_dense mask (updateScaling mask s z).2 v hm hw hv
  refine ⟨h1, ?_⟩
  rw [h2, ew]
  funext i
  rw [Hnn, Matrix.mulVec_diagonal]
  by_cases hi : maskFn mask m i = true
  · obtain ⟨p1, p2⟩ := hint i hi
    simp only [hi, if_true]
    rw [← mul_assoc, Real.mul_self_sqrt (div_pos p1 p2).le]
  · simp only [hi]; simp

/-- `Δs_const_term` of `DefaultKKTSystem::solve`, dense reading: `s` for the affine direction,
`ds / z` (`0` on zero-cone rows) for the combined direction -/
noncomputable def dsConstFn (mask : List Bool) (vars rhs : Vars ℝ) (affine : Bool) (m : ℕ) : Fin m → ℝ :=
  if affine then toFn vars.s m
  else fun i => if maskFn mask m i then toFn rhs.s m i / toFn vars.z m i else 0

theorem dsConst_dense (mask : List Bool) (vars rhs : Vars ℝ) (affine : Bool) (hm : mask.length = m)
    (hs : vars.s.size = m) (hz : vars.z.size = m) (hrs : rhs.s.size = m) :
    (if affine then vars.s else dsFromDzOffset mask rhs.s vars.z).size = m
    ∧ toFn (if affine then vars.s else dsFromDzOffset mask rhs.s vars.z) m
        = dsConstFn mask vars rhs affine m := by
  cases affine
  · simp only [Bool.false_eq_true, if_false, dsConstFn]
    exact dsFromDzOffset_dense mask rhs.s vars.z hm hrs hz
  · simp only [if_true, dsConstFn]
    exact ⟨hs, trivial⟩

end real

section count
variable {α : Type} [Field α]

/-- summing a constant over the rows selected by the mask counts them -/
theorem sum_mask_const (mask : List Bool) (c : α) :
    ∑ i : Fin mask.length, (if maskFn mask mask.length i then c else 0) = (mask.count true : α) * c := by
  induction mask with
  | nil => simp
  | cons hd tl ih =>
    have hstep : ∀ i : Fin tl.length, maskFn (hd :: tl) (tl.length + 1) i.succ = maskFn tl tl.length i := by
      intro i; simp [maskFn]
    have h0 : maskFn (hd :: tl) (tl.length + 1) 0 = hd := by simp [maskFn]
    have e : ∑ i : Fin (hd :: tl).length, (if maskFn (hd :: tl) (hd :: tl).length i then c else 0)
        = ∑ i : Fin (tl.length + 1), (if maskFn (hd :: tl) (tl.length + 1) i then c else 0) := rfl
    rw [e, Fin.sum_univ_succ]
    simp only [hstep, h0]
    rw [ih]
    cases hd <;> simp <;> ring

theorem sum_mask_const' {m : ℕ} (mask : List Bool) (hm : mask.length = m) (c : α) :
    ∑ i : Fin m, (if maskFn mask m i then c else 0) = (mask.count true : α) * c := by
  subst hm; exact sum_mask_const mask c

/-- `nnMask` has one flag per row and as many `true`s as `Cone::degree` sums up -/
theorem nnMask_length_count (cones : List ConeK) (a0 d0 : ℕ) :
    cones.foldl (fun a c => a + c.dim) a0 = a0 + (nnMask cones).length
    ∧ cones.foldl (fun a c => a + c.degree) d0 = d0 + (nnMask cones).count true := by
  induction cones generalizing a0 d0 with
  | nil => simp [nnMask]
  | cons c cs ih =>
    obtain ⟨i1, i2⟩ := ih (a0 + c.dim) (d0 + c.degree)
    simp only [List.foldl_cons, i1, i2]
    cases c with
    | zero d =>
      simp only [nnMask, List.flatMap_cons, List.length_append, List.length_replicate,
        List.count_append, List.count_replicate, ConeK.dim, ConeK.degree]
      constructor <;> simp <;> omega
    | nn d =>
      simp only [nnMask, List.flatMap_cons, List.length_append, List.length_replicate,
        List.count_append, List.count_replicate, ConeK.dim, ConeK.degree]
      constructor <;> simp <;> omega

theorem nnMask_length (cones : List ConeK) : (nnMask cones).length = numel cones := by
  have := (nnMask_length_count cones 0 0).1
  simp only [zero_add] at this
  exact this.symm

theorem nnMask_count (cones : List ConeK) : (nnMask cones).count true = degree cones := by
  have := (nnMask_length_count cones 0 0).2
  simp only [zero_add] at this
  exact this.symm

end count

section sizes
variable {α : Type} [Field α] {n m : ℕ}

/-- a successful `KktSystem.solveAssemble` returns a step of the right shape -/
theorem solveAssemble_sizes (qf : Array α → Array α → MErr α) (mulHs : Array α → Array α)
    (hH : ∀ v : Array α, v.size = m → (mulHs v).size = m)
    (q b : Array α) (vars rhs : Vars α) (c x1 z1 x2 z2 : Array α)
    (hc : c.size = m) (hx1 : x1.size = n) (hz1 : z1.size = m) (hx2 : x2.size = n) (hz2 : z2.size = m)
    (lhs : Vars α) (wx wz : Array α)
    (h : KktSystem.solveAssemble qf mulHs q b vars rhs c x1 z1 x2 z2 = .ok (lhs, wx, wz)) :
    lhs.x.size = n ∧ lhs.s.size = m ∧ lhs.z.size = m := by
  unfold KktSystem.solveAssemble at h
  simp only [bind, Except.bind, pure, Except.pure] at h
  split at h
  · cases h
  split at h
  · cases h
  split at h
  · cases h
  simp only [Except.ok.injEq, Prod.mk.injEq] at h
  obtain ⟨rfl, -, -⟩ := h
  exact ⟨waxpby_size _ _ _ _ hx1 hx2,
    axpby_size _ _ _ _ hc (hH _ (waxpby_size _ _ _ _ hz1 hz2)), waxpby_size _ _ _ _ hz1 hz2⟩

end sizes

/-! ### data for the non-vacuity examples of the `_array` theorems (`n = 0`, `m = 1`) -/
noncomputable section exampleData

/-- one nonnegative row, `s = z = τ = κ = 1`, no `x` -/
def exVars : Vars ℝ := ⟨#[], #[1], #[1], 1, 1⟩
def exStepa : Vars ℝ := ⟨#[], #[0], #[0], 0, 0⟩
/-- the empty `0 × 0` matrix `P` -/
def exPc : Csc ℝ := ⟨0, 0, #[0], #[], #[]⟩
/-- `combined_step_rhs` on the residuals `rx = ()`, `rz = (0)`, `rτ = 2` of `exVars` for
`b = (1)`, `q = ()` -/
def exRhs (σ μ mm : ℝ) : Vars ℝ :=
  (combinedStepRhs [true] (updateScaling [true] exVars.s exVars.z).2
      (affineStepRhs [true] #[] #[0] 2 (updateScaling [true] exVars.s exVars.z).1 exVars) #[] #[0] 2
      exVars exStepa σ μ mm).1

theorem exHqf : ∀ a b : Array ℝ, a.size = 0 → b.size = 0 →
    KktSystem.quadForm exPc a b = .ok (toFn a 0 ⬝ᵥ (0 : Matrix (Fin 0) (Fin 0) ℝ) *ᵥ toFn b 0) := by
  intro a b ha hb
  have ea : a = #[] := Array.eq_empty_of_size_eq_zero ha
  have eb : b = #[] := Array.eq_empty_of_size_eq_zero hb
  subst ea eb
  simp [KktSystem.quadForm, exPc]
  rfl

theorem exInt : NNInterior [true] exVars.s exVars.z 1 := by
  intro i _
  have : i = 0 := Subsingleton.elim _ _
  subst this
  simp [toFn, exVars]

end exampleData

end Clarabel.Lemmas
