/-
  Round 4 (composition) — the anatomy of `DefaultSolver::new` on the whole-solver model.

  `Solver.new P q A b cones st perm = .ok S` unfolded ONCE into the facts the end-to-end
  compositions (C01 / C02 / C03 / C09 "full" theorems) start from: the un-equilibrated problem
  data `d0 = DefaultProblemData::new(…)`, `S.st.data = equilibrate d0`, the composite cone built by
  `make_cone` from `d0.cones` and covering the `m` rows, all vectors of the solver state as
  `DefaultVariables::new(n, m)` / `DefaultResiduals::new(n, m)` allocate them, and the fact that
  `solve()` keeps those lengths (C05's frame `solve_sameShape`, the same size facts as C04's
  invariant `Shapes`, but available from the mere success of `solve()`).

  All structural ([S]): every scalar type, `Float` included.
-/
import ClarabelProofs.Lemmas.SolverStaleFrame
import ClarabelProofs.Lemmas.SolverModelRun

namespace Clarabel.Solver
open Clarabel Info Residuals

set_option linter.unusedSectionVars false
set_option linter.unusedVariables false

variable {α : Type}

section
variable [Add α] [Sub α] [Mul α] [Div α] [Neg α] [OfNat α 0] [OfNat α 1] [OfNat α 2]
  [OfNat α 100] [OfNat α 1000] [LT α] [DecidableLT α] [LE α] [DecidableLE α] [BEq α] [FloatLike α]

/-- what `DefaultSolver::new … = .ok S` says, piece by piece -/
structure NewAnatomy (P : Csc α) (q : Array α) (A : Csc α) (b : Array α) (cones : List (ConeT α))
    (st : Settings α) (S : Solver α) (d0 : ProblemData α) : Prop where
  /-- `_check_dimensions` passed -/
  dims : Loop.checkDimensions P.m P.n q.size A.m A.n b.size (cones.map ConeT.nvars) = .ok ()
  /-- `DefaultProblemData::new` (collapse, presolve, cap of `b`; identity equilibration) -/
  pdata : ProblemData.new P q A b cones st.presolveEnable false st.infbound = .ok d0
  /-- `equilibrate` on the cones of the internal problem -/
  equil : Equil.equilibrate d0 d0.cones st.equil = .ok S.st.data
  cones : makeCones d0.cones = .ok S.st.cones
  numel : numelAll S.st.cones = d0.m
  m : S.st.data.m = d0.m
  n : S.st.data.n = d0.n
  dcones : S.st.data.cones = d0.cones
  variables : S.st.variables = varsNew S.st.data.n S.st.data.m
  residuals : S.st.residuals = residNew S.st.data.n S.st.data.m
  stepLhs : S.st.stepLhs = varsNew S.st.data.n S.st.data.m
  stepRhs : S.st.stepRhs = varsNew S.st.data.n S.st.data.m
  prevVars : S.st.prevVars = varsNew S.st.data.n S.st.data.m
  solution : S.solution = Unscale.Solution.new A.n A.m
  conesOk : ConesOk S.st.cones

/-- [S] the anatomy of `DefaultSolver::new` -/
theorem solverNew_anatomy {P : Csc α} {q : Array α} {A : Csc α} {b : Array α} {cones : List (ConeT α)}
    {st : Settings α} {perm : Array Nat} {S : Solver α} (h : Solver.new P q A b cones st perm = .ok S) :
    ∃ d0, NewAnatomy P q A b cones st S d0 := by
  unfold Solver.new at h
  obtain ⟨u, hdim, h⟩ := bind_ok_inv h
  cases u
  obtain ⟨S0, hS0, h⟩ := bind_ok_inv h
  cases h
  have hok := new_conesOk hS0
  unfold SolverSt.new at hS0
  obtain ⟨data, hd, hS0⟩ := bind_ok_inv hS0
  obtain ⟨K, hK, hS0⟩ := bind_ok_inv hS0
  obtain ⟨ks, hks, hS0⟩ := bind_ok_inv hS0
  cases hS0
  unfold internalData at hd
  obtain ⟨d0, hd0, hd⟩ := bind_ok_inv hd
  obtain ⟨K0, hK0, hd⟩ := bind_ok_inv hd
  split at hd
  · cases hd
  rename_i hg
  dsimp only at hd
  obtain ⟨e1, e2, e3⟩ := equilibrate_dim hd
  rw [e1, hK0] at hK
  cases hK
  have hm : numelAll K = d0.m := by simpa using hg
  exact ⟨d0, hdim, hd0, hd, hK0, hm, e2, e3, e1, rfl, rfl, rfl, rfl, rfl, rfl, hok⟩

/-- the lengths `DefaultVariables::new(n, m)` allocates -/
theorem varsNew_sizes (n m : Nat) :
    (varsNew n m : Vars α).x.size = n ∧ (varsNew n m : Vars α).s.size = m
      ∧ (varsNew n m : Vars α).z.size = m :=
  ⟨Array.size_replicate .., Array.size_replicate .., Array.size_replicate ..⟩

/-- [S] **the length invariant of the iteration** (what C04's `Shapes` states about `variables`,
here from the mere success of `new` and `solve()`): after `DefaultSolver::new` and a `solve()`,
`variables.x/s/z` — the vectors `solution.post_process` un-scales — still have the lengths
`n, m, m` of the INTERNAL problem; the data is the data `new` built with the two norm caches filled. -/
theorem new_solve_variables_sized {P : Csc α} {q : Array α} {A : Csc α} {b : Array α}
    {cones : List (ConeT α)} {st0 st : Settings α} {perm : Array Nat} {S : Solver α} {r : SolveResult α}
    (hnew : Solver.new P q A b cones st0 perm = .ok S) (hr : S.solve st = .ok r) :
    fillNorms S.st.data = .ok r.S.st.data ∧ r.S.st.variables.x.size = S.st.data.n
      ∧ r.S.st.variables.s.size = S.st.data.m ∧ r.S.st.variables.z.size = S.st.data.m := by
  obtain ⟨d0, hA⟩ := solverNew_anatomy hnew
  have hsh := solve_sameShape hr hA.conesOk
  obtain ⟨v1, v2, v3⟩ := varsNew_sizes (α := α) S.st.data.n S.st.data.m
  refine ⟨solve_data hr, ?_, ?_, ?_⟩
  · rw [← hsh.variables.x, hA.variables]; exact v1
  · rw [← hsh.variables.s, hA.variables]; exact v2
  · rw [← hsh.variables.z, hA.variables]; exact v3

/-- with presolve off the internal problem has the user's rows: `data.m = A.m` -/
theorem problemDataNew_off_m {P : Csc α} {q : Array α} {A : Csc α} {b : Array α}
    {cones : List (ConeT α)} {inf : α} {d : ProblemData α}
    (h : ProblemData.new P q A b cones false false inf = .ok d) : d.m = A.m ∧ d.n = A.n := by
  unfold ProblemData.new at h
  obtain ⟨Pn, _, h⟩ := bind_ok_inv h
  obtain ⟨pre, hpre, h⟩ := bind_ok_inv h
  have : pre = none := by
    unfold ProblemData.tryPresolver at hpre
    simp only [Bool.not_false, ↓reduceIte] at hpre
    cases hpre
    rfl
  subst this
  obtain ⟨rr, hrr, h⟩ := bind_ok_inv h
  unfold ProblemData.reduceStep at hrr
  cases hrr
  simp only [Bool.false_and, Bool.false_eq_true, ↓reduceIte] at h
  cases h
  exact ⟨rfl, rfl⟩

end

end Clarabel.Solver
