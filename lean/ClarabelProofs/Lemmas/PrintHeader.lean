/-
  Lemmas about the configuration header / footer model (`ClarabelModel/PrintHeader.lean`).
-/
import ClarabelModel.PrintHeader
import Std.Data.String.ToNat

namespace Clarabel.Print
open Clarabel.Loop

/-! ### silence -/

theorem configurationToks_silent {α : Type} (fmt : FloatFmt α) (lin : LinearSolverInfo) (set : Settings α)
    (s : Summary) (hv : set.verbose = false) : configurationToks fmt lin set s = [] := by
  unfold configurationToks; simp [hv]

theorem renderToks_nil : renderToks [] = "" := rfl

theorem wholeLog_silent {α : Type} (fmt : FloatFmt α) (lin : LinearSolverInfo) (set : Settings α) (s : Summary)
    (version : String) (debug : Bool) (rows : List RowText) (status : Status) (t : α)
    (hv : set.verbose = false) : wholeLog fmt lin set s version debug rows status t = .ok "" := by
  unfold wholeLog; simp [hv]; rfl

/-! ### the labelled fields -/

theorem fieldsOf_append (a b : List Tok) : fieldsOf (a ++ b) = fieldsOf a ++ fieldsOf b := by
  induction a with
  | nil => rfl
  | cons x xs ih => cases x <;> simp [fieldsOf, ih]

theorem fieldsOf_coneToks (cones : List (Tag × Nat)) :
    fieldsOf (coneToks cones) = allTags.map (fun t => ("cones." ++ t.name, printConedimsByType cones t)) := rfl

theorem fieldsOf_problemToks (s : Summary) :
    fieldsOf (problemToks s) =
      [("data.n", toString s.n), ("data.m", toString s.m), ("data.P.nnz", toString s.nnzP),
       ("data.A.nnz", toString s.nnzA), ("cones.len", toString s.cones.length)]
      ++ allTags.map (fun t => ("cones." ++ t.name, printConedimsByType s.cones t)) := by
  unfold problemToks
  rw [fieldsOf_append, fieldsOf_append, fieldsOf_coneToks]
  simp [fieldsOf]

theorem fieldsOf_presolveToks (r : Option Nat) :
    fieldsOf (presolveToks r) = (r.map (fun k => ("presolver.count_reduced", toString k))).toList := by
  cases r <;> rfl

theorem fieldsOf_settingsToks {α : Type} (fmt : FloatFmt α) (lin : LinearSolverInfo) (set : Settings α) :
    fieldsOf (settingsToks fmt lin set) =
      [ ("linsolver.direct", if lin.direct then "direct" else "indirect"),
        ("linsolver.name", lin.name),
        ("size_of<T>", toString (fmt.sizeOf * 8)),
        ("linsolver.threads", nthreadsText lin.threads),
        ("max_iter", toString set.maxIter),
        ("time_limit", if fmt.isInfinite set.timeLimit then "Inf" else fmt.dbg set.timeLimit),
        ("max_step_fraction", fmt.f3 set.maxStepFraction),
        ("tol_feas", fmt.e1 set.tolFeas),
        ("tol_gap_abs", fmt.e1 set.tolGapAbs),
        ("tol_gap_rel", fmt.e1 set.tolGapRel),
        ("static_regularization_enable", boolOnOff set.staticRegularizationEnable),
        ("static_regularization_constant", fmt.e1 set.staticRegularizationConstant),
        ("static_regularization_proportional", fmt.e1 set.staticRegularizationProportional),
        ("dynamic_regularization_enable", boolOnOff set.dynamicRegularizationEnable),
        ("dynamic_regularization_eps", fmt.e1 set.dynamicRegularizationEps),
        ("dynamic_regularization_delta", fmt.e1 set.dynamicRegularizationDelta),
        ("iterative_refinement_enable", boolOnOff set.iterativeRefinementEnable),
        ("iterative_refinement_reltol", fmt.e1 set.iterativeRefinementReltol),
        ("iterative_refinement_abstol", fmt.e1 set.iterativeRefinementAbstol),
        ("iterative_refinement_max_iter", toString set.iterativeRefinementMaxIter),
        ("iterative_refinement_stop_ratio", fmt.f1 set.iterativeRefinementStopRatio),
        ("equilibrate_enable", boolOnOff set.equilibrateEnable),
        ("equilibrate_min_scaling", fmt.e1 set.equilibrateMinScaling),
        ("equilibrate_max_scaling", fmt.e1 set.equilibrateMaxScaling),
        ("equilibrate_max_iter", toString set.equilibrateMaxIter) ] := rfl

theorem toString_nat_inj {a b : Nat} (h : toString a = toString b) : a = b :=
  Nat.repr_injective h

theorem boolOnOff_inj {a b : Bool} (h : boolOnOff a = boolOnOff b) : a = b := by
  cases a <;> cases b <;> first | rfl | (exact absurd h (by decide))

theorem status_toString_inj {a b : Status} (h : a.toString = b.toString) : a = b := by
  cases a <;> cases b <;> first | rfl | (exact absurd h (by decide))

/-! ### counts by type -/

theorem nvarsOf_length (cones : List (Tag × Nat)) (tag : Tag) :
    (nvarsOf cones tag).length = cones.countP (fun c => c.1 = tag) := by
  unfold nvarsOf
  rw [List.length_map, List.countP_eq_length_filter]

/-- every cone is counted under exactly one of the seven types -/
theorem counts_sum (cones : List (Tag × Nat)) :
    (allTags.map (fun t => (nvarsOf cones t).length)).sum = cones.length := by
  simp only [nvarsOf_length, allTags, List.map_cons, List.map_nil, List.sum_cons, List.sum_nil]
  induction cones with
  | nil => rfl
  | cons c cs ih =>
    simp only [List.countP_cons, List.length_cons]
    obtain ⟨tg, k⟩ := c
    cases tg <;> simp <;> omega

theorem nvarsOf_cons (c : Tag × Nat) (cs : List (Tag × Nat)) (tag : Tag) :
    nvarsOf (c :: cs) tag = if c.1 = tag then c.2 :: nvarsOf cs tag else nvarsOf cs tag := by
  unfold nvarsOf
  by_cases h : c.1 = tag <;> simp [h]

/-- the dimensions listed under the seven types add up to the dimensions of all cones -/
theorem numel_sum (cones : List (Tag × Nat)) :
    (allTags.map (fun t => (nvarsOf cones t).sum)).sum = (cones.map (·.2)).sum := by
  simp only [allTags, List.map_cons, List.map_nil, List.sum_cons, List.sum_nil]
  induction cones with
  | nil => rfl
  | cons c cs ih =>
    obtain ⟨tg, k⟩ := c
    simp only [nvarsOf_cons, List.map_cons, List.sum_cons]
    cases tg <;> simp <;> omega

theorem coneSummary_numel {α : Type} (cs : List (ConeT α)) :
    ((coneSummary cs).map (·.2)).sum = Cones.numel cs := by
  induction cs with
  | nil => rfl
  | cons c cs ih =>
    simp only [coneSummary, List.map_cons, List.sum_cons, Cones.numel] at ih ⊢
    rw [ih]

theorem coneSummary_length {α : Type} (cs : List (ConeT α)) : (coneSummary cs).length = cs.length := by
  simp [coneSummary]

/-! ### the elision rule -/

/-- the dimensions that appear on the line of a cone type carried by the cones `nvars`
(`maxlistlen = 5`): all of them up to five, otherwise the first four and the last -/
def shownDims (nvars : List Nat) : List Nat :=
  (if nvars.length ≤ 5 then nvars.dropLast else nvars.take 4) ++ [nvars.getLast?.getD 0]

theorem shownDims_length (nvars : List Nat) (h : nvars ≠ []) :
    (shownDims nvars).length = min nvars.length 5 := by
  have hl : 0 < nvars.length := List.length_pos_iff.mpr h
  unfold shownDims
  by_cases h5 : nvars.length ≤ 5
  · simp [h5]; omega
  · simp [h5]; omega

theorem shownDims_of_le (nvars : List Nat) (h : nvars ≠ []) (h5 : nvars.length ≤ 5) :
    shownDims nvars = nvars := by
  unfold shownDims
  rw [if_pos h5]
  have : nvars.getLast?.getD 0 = nvars.getLast h := by
    rw [List.getLast?_eq_some_getLast h]; rfl
  rw [this, List.dropLast_concat_getLast]

theorem shownDims_sublist (nvars : List Nat) (h : nvars ≠ []) : (shownDims nvars).Sublist nvars := by
  by_cases h5 : nvars.length ≤ 5
  · rw [shownDims_of_le nvars h h5]
    exact List.Sublist.refl _
  · unfold shownDims
    rw [if_neg h5]
    have hlast : nvars.getLast?.getD 0 = nvars.getLast h := by
      rw [List.getLast?_eq_some_getLast h]; rfl
    rw [hlast]
    -- `nvars = take 4 ++ drop 4`, and the last element of `nvars` is the last of `drop 4`
    have hd : nvars.drop 4 ≠ [] := by
      intro hh
      have := congrArg List.length hh
      simp at this; omega
    have hl2 : nvars.getLast h = (nvars.drop 4).getLast hd := by
      rw [List.getLast_drop]
    conv => rhs; rw [← List.take_append_drop 4 nvars]
    refine List.Sublist.append (List.Sublist.refl _) ?_
    rw [hl2]
    exact List.singleton_sublist.mpr (List.getLast_mem hd)

/-- the first four and the last dimension are shown at their positions -/
theorem shownDims_take4 (nvars : List Nat) (h5 : 5 < nvars.length) :
    (shownDims nvars).take 4 = nvars.take 4 ∧ (shownDims nvars).getLast? = nvars.getLast? := by
  have h : nvars ≠ [] := by intro hh; rw [hh] at h5; simp at h5
  unfold shownDims
  rw [if_neg (by omega)]
  constructor
  · rw [List.take_append_of_le_length (by simp; omega)]
    rw [List.take_take, Nat.min_self]
  · rw [List.getLast?_append]
    simp [List.getLast?_eq_some_getLast h]

/-! ### the echo determines the settings -/

/-- the integer / boolean / text part of what `print_settings` shows -/
structure EchoExact where
  direct : Bool
  name : String
  maxIter : Nat
  staticReg : Bool
  dynamicReg : Bool
  iterRefine : Bool
  iterRefineMaxIter : Nat
  equilibrate : Bool
  equilibrateMaxIter : Nat
  deriving DecidableEq, Repr

def echoExact {α : Type} (lin : LinearSolverInfo) (set : Settings α) : EchoExact :=
  { direct := lin.direct, name := lin.name, maxIter := set.maxIter,
    staticReg := set.staticRegularizationEnable, dynamicReg := set.dynamicRegularizationEnable,
    iterRefine := set.iterativeRefinementEnable, iterRefineMaxIter := set.iterativeRefinementMaxIter,
    equilibrate := set.equilibrateEnable, equilibrateMaxIter := set.equilibrateMaxIter }

/-- the floats of the echo at the resolution of their formats -/
def echoFloats {α : Type} (fmt : FloatFmt α) (set : Settings α) : List String :=
  [ timeLimStr fmt set.timeLimit, fmt.f3 set.maxStepFraction, fmt.e1 set.tolFeas, fmt.e1 set.tolGapAbs,
    fmt.e1 set.tolGapRel, fmt.e1 set.staticRegularizationConstant,
    fmt.e1 set.staticRegularizationProportional, fmt.e1 set.dynamicRegularizationEps,
    fmt.e1 set.dynamicRegularizationDelta, fmt.e1 set.iterativeRefinementReltol,
    fmt.e1 set.iterativeRefinementAbstol, fmt.f1 set.iterativeRefinementStopRatio,
    fmt.e1 set.equilibrateMinScaling, fmt.e1 set.equilibrateMaxScaling ]

theorem direct_text_inj {a b : Bool}
    (h : (if a then "direct" else "indirect") = (if b then "direct" else "indirect")) : a = b := by
  cases a <;> cases b <;> first | rfl | (exact absurd h (by decide))

theorem settings_echo_determines {α : Type} (fmt : FloatFmt α) (lin lin' : LinearSolverInfo)
    (s s' : Settings α)
    (h : fieldsOf (settingsToks fmt lin s) = fieldsOf (settingsToks fmt lin' s')) :
    echoExact lin s = echoExact lin' s' ∧ echoFloats fmt s = echoFloats fmt s' := by
  rw [fieldsOf_settingsToks, fieldsOf_settingsToks] at h
  simp only [List.cons.injEq, Prod.mk.injEq, true_and, and_true] at h
  obtain ⟨h1, h2, _, h5, h6, h7, h8, h9, h10, h11, h12, h13, h14, h15, h16, h17, h18, h19, h20, h21,
    h22, h23, h24, h25⟩ := h
  constructor
  · unfold echoExact
    rw [direct_text_inj h1, h2, toString_nat_inj h5, boolOnOff_inj h11, boolOnOff_inj h14,
      boolOnOff_inj h17, toString_nat_inj h20, boolOnOff_inj h22, toString_nat_inj h25]
  · unfold echoFloats timeLimStr
    rw [h6, h7, h8, h9, h10, h12, h13, h15, h16, h18, h19, h21, h23, h24]

end Clarabel.Print
