/-
  From the `LDLᵀ` recurrences to the pivot signs.

  QDLDL's `_factor_inner` (C12 `factor_correct` / `new_factor_correct`) produces `ℓ, d` with
    `ℓ[r,c]·d[c] + Σ_{j<c} ℓ[c,j]·(ℓ[r,j]·d[j]) = a[c,r]`                         (c < r < n)
    `d[r] = rule_r (a[r,r] − Σ_{j<r} (ℓ[r,j]·d[j])·ℓ[r,j])`                       (r < n)
  where `rule_r` is the dynamic-regularisation rule `regularizePivot` with sign `sg r`.

  If the symmetric matrix `a` is quasidefinite WITH MARGIN `ε` (`KktInertiaList.QuasiDefGE`) for the
  sign pattern `s`, `sg r = ±1` according to `s r`, and the threshold of the rule is `eps ≤ ε`,
  then by induction over the rows (`ldl_invariant`): the raw pivot of row `k` is the diagonal entry
  of the `k`-th Schur complement, which is again quasidefinite with margin `ε` (Vanderbei's step),
  so it has the recorded sign and modulus `≥ ε ≥ eps`: the rule does not fire, `d[k]` IS the raw
  pivot.  Hence `sign d[r] = s r` and `|d[r]| ≥ ε` for every row, no regularisation is counted,
  and the number of positive pivots is the number of `+` indices.

  Class [F]: linearly ordered field, exact arithmetic.
-/
import ClarabelModel.Qdldl
import ClarabelProofs.Lemmas.KktInertiaList
import ClarabelProofs.Lemmas.ScalarInst
import Mathlib.Algebra.BigOperators.Intervals

namespace Clarabel.Lemmas.KktLdlSigns

open Finset
open Clarabel Clarabel.Qdldl
open Clarabel.Lemmas.KktInertia Clarabel.Lemmas.KktInertiaList

set_option linter.unusedSectionVars false

variable {α : Type} [Field α] [LinearOrder α] [IsStrictOrderedRing α]

/-- the `k`-th Schur complement of a (ℕ-indexed) symmetric matrix in the natural order -/
def schur (M : ℕ → ℕ → α) : ℕ → ℕ → ℕ → α
  | 0 => M
  | k + 1 => fun i j => schur M k i j - schur M k i k * schur M k k j / schur M k k k

/-- the raw (unregularised) pivot of row `r` of the `LDLᵀ` recurrence -/
def rawPiv (a ℓ : ℕ → ℕ → α) (d : ℕ → α) (r : ℕ) : α :=
  a r r - ∑ j ∈ Finset.range r, (ℓ r j * d j) * ℓ r j

section Rule
variable [FloatLike α] [LawfulFloatLike α]

/-- the dynamic-regularisation rule does not fire on a pivot with the recorded sign and
modulus `≥ eps` -/
theorem rule_inactive (en : Bool) (eps delta : α) (sg : Int) (b : Bool) (x ε : α)
    (hsg : sg = if b then 1 else -1) (heps : eps ≤ ε)
    (hx : if b then ε ≤ x else x ≤ -ε) :
    regularizePivot en eps delta sg x = (x, false) := by
  unfold regularizePivot
  cases en
  · rfl
  · simp only [if_true]
    have hnot : ¬ (x * signT sg < eps) := by
      cases b
      · simp only [Bool.false_eq_true, if_false] at hsg hx
        subst hsg
        have : (signT (-1 : Int) : α) = -1 := by simp [signT, LawfulFloatLike.ofNat_eq]
        rw [this]
        intro h
        linarith
      · simp only [if_true] at hsg hx
        subst hsg
        have : (signT (1 : Int) : α) = 1 := by simp [signT, LawfulFloatLike.ofNat_eq]
        rw [this]
        intro h
        linarith
    rw [if_neg hnot]

end Rule

/-- [F] **the invariant of the row-by-row induction.**  `rule r` is any pivot rule that is the
identity on values with the recorded sign and modulus `≥ ε` (the dynamic regularisation with
threshold `≤ ε`, or no regularisation at all). -/
theorem ldl_invariant (n : ℕ) (a ℓ : ℕ → ℕ → α) (d : ℕ → α) (s : Fin n → Bool) (ε : α)
    (rule : ℕ → α → α) (hsym : ∀ i j, a i j = a j i)
    (hQ : QuasiDefGE (fun i j : Fin n => a i.val j.val) s Finset.univ ε) (hε : 0 < ε)
    (hrule : ∀ r (hr : r < n) (x : α), (if s ⟨r, hr⟩ then ε ≤ x else x ≤ -ε) → rule r x = x)
    (hoff : ∀ r, r < n → ∀ c, c < r →
      ℓ r c * d c + ∑ j ∈ Finset.range c, ℓ c j * (ℓ r j * d j) = a c r)
    (hdiag : ∀ r, r < n → d r = rule r (rawPiv a ℓ d r)) :
    ∀ k, k ≤ n →
      (∀ j (hj : j < k) (hjn : j < n), d j = rawPiv a ℓ d j ∧
        (if s ⟨j, hjn⟩ then ε ≤ d j else d j ≤ -ε)) ∧
      (∀ r c, k ≤ r → k ≤ c → r < n → c < n →
        schur a k r c = a r c - ∑ j ∈ Finset.range k, (ℓ r j * d j) * ℓ c j) ∧
      QuasiDefGE (fun i j : Fin n => schur a k i.val j.val) s
        (Finset.univ.filter (fun i : Fin n => k ≤ i.val)) ε := by
  intro k
  induction k with
  | zero =>
    intro _
    refine ⟨fun j hj => absurd hj (Nat.not_lt_zero _), ?_, ?_⟩
    · intro r c _ _ _ _
      simp [schur]
    · have : (Finset.univ.filter (fun i : Fin n => 0 ≤ i.val)) = Finset.univ := by
        ext i; simp
      rw [this]
      exact hQ
  | succ k ih =>
    intro hk
    have hkn : k < n := hk
    obtain ⟨ha, hb, hc⟩ := ih (by omega)
    -- the pivot of step `k`
    have hpS : (⟨k, hkn⟩ : Fin n) ∈ Finset.univ.filter (fun i : Fin n => k ≤ i.val) := by simp
    have hpm := hc.pivot_margin hpS
    have hkk : schur a k k k = rawPiv a ℓ d k := by
      rw [hb k k (Nat.le_refl _) (Nat.le_refl _) hkn hkn]
      rfl
    have hpm' : if s ⟨k, hkn⟩ then ε ≤ rawPiv a ℓ d k else rawPiv a ℓ d k ≤ -ε := by
      rw [← hkk]; exact hpm
    have hdk : d k = rawPiv a ℓ d k := by
      rw [hdiag k hkn]
      exact hrule k hkn _ hpm'
    have hdkne : d k ≠ 0 := by
      rw [hdk]
      by_cases hs : s ⟨k, hkn⟩ = true
      · rw [if_pos hs] at hpm'; intro h0; rw [h0] at hpm'; linarith
      · rw [if_neg hs] at hpm'; intro h0; rw [h0] at hpm'; linarith
    -- column `k` of the `k`-th Schur complement is `ℓ[·,k]·d[k]`
    have hcol : ∀ r, k < r → r < n → schur a k r k = ℓ r k * d k := by
      intro r hkr hr
      rw [hb r k (by omega) (Nat.le_refl _) hr hkn]
      have h1 := hoff r hr k hkr
      have h2 : ∑ j ∈ Finset.range k, (ℓ r j * d j) * ℓ k j
          = ∑ j ∈ Finset.range k, ℓ k j * (ℓ r j * d j) :=
        Finset.sum_congr rfl fun j _ => by ring
      rw [h2, hsym r k, ← h1]
      ring
    have hrow : ∀ c, k < c → c < n → schur a k k c = ℓ c k * d k := by
      intro c hkc hcn
      rw [hb k c (Nat.le_refl _) (by omega) hkn hcn]
      have h1 := hoff c hcn k hkc
      have h2 : ∑ j ∈ Finset.range k, (ℓ k j * d j) * ℓ c j
          = ∑ j ∈ Finset.range k, ℓ k j * (ℓ c j * d j) :=
        Finset.sum_congr rfl fun j _ => by ring
      rw [h2, ← h1]
      ring
    refine ⟨?_, ?_, ?_⟩
    · intro j hj hjn
      by_cases hjk : j = k
      · subst hjk
        refine ⟨hdk, ?_⟩
        rw [hdk]; exact hpm'
      · exact ha j (by omega) hjn
    · intro r c hr hcc hrn hcn
      show schur a k r c - schur a k r k * schur a k k c / schur a k k k = _
      rw [hb r c (by omega) (by omega) hrn hcn, hcol r (by omega) hrn, hrow c (by omega) hcn,
        hkk, ← hdk, Finset.sum_range_succ]
      field_simp
      ring
    · have hel := hc.elim hε hpS
      have hset : (Finset.univ.filter (fun i : Fin n => k ≤ i.val)).erase ⟨k, hkn⟩
          = Finset.univ.filter (fun i : Fin n => k + 1 ≤ i.val) := by
        ext i
        simp only [Finset.mem_erase, Finset.mem_filter, Finset.mem_univ, true_and, ne_eq,
          Fin.ext_iff]
        omega
      rw [hset] at hel
      exact hel

/-- [F] **signs and moduli of all pivots, rule never active.** -/
theorem ldl_signs (n : ℕ) (a ℓ : ℕ → ℕ → α) (d : ℕ → α) (s : Fin n → Bool) (ε : α)
    (rule : ℕ → α → α) (hsym : ∀ i j, a i j = a j i)
    (hQ : QuasiDefGE (fun i j : Fin n => a i.val j.val) s Finset.univ ε) (hε : 0 < ε)
    (hrule : ∀ r (hr : r < n) (x : α), (if s ⟨r, hr⟩ then ε ≤ x else x ≤ -ε) → rule r x = x)
    (hoff : ∀ r, r < n → ∀ c, c < r →
      ℓ r c * d c + ∑ j ∈ Finset.range c, ℓ c j * (ℓ r j * d j) = a c r)
    (hdiag : ∀ r, r < n → d r = rule r (rawPiv a ℓ d r)) (r : ℕ) (hr : r < n) :
    d r = rawPiv a ℓ d r ∧ (if s ⟨r, hr⟩ then ε ≤ d r else d r ≤ -ε) :=
  (ldl_invariant n a ℓ d s ε rule hsym hQ hε hrule hoff hdiag n (Nat.le_refl _)).1 r hr hr

/-- counting: the positive entries of `d` are the `+` indices -/
theorem count_pos (n : ℕ) (d : ℕ → α) (s : Fin n → Bool) (ε : α) (hε : 0 < ε)
    (h : ∀ r (hr : r < n), if s ⟨r, hr⟩ then ε ≤ d r else d r ≤ -ε) :
    ((List.range n).filter (fun c => decide (0 < d c))).length
      = (Finset.univ.filter (fun i : Fin n => s i = true)).card := by
  have e1 : ((List.range n).filter (fun c => decide (0 < d c))).length
      = ((List.finRange n).filter (fun i : Fin n => decide (0 < d i.val))).length := by
    rw [← List.map_coe_finRange_eq_range, List.filter_map, List.length_map]
    rfl
  have e2 : (List.finRange n).filter (fun i : Fin n => decide (0 < d i.val))
      = (List.finRange n).filter (fun i : Fin n => s i) := by
    apply List.filter_congr
    intro i _
    have := h i.val i.isLt
    by_cases hs : s i = true
    · have hs' : s ⟨i.val, i.isLt⟩ = true := hs
      rw [if_pos hs'] at this
      rw [hs]; simp; linarith
    · have hs' : ¬ s ⟨i.val, i.isLt⟩ = true := hs
      rw [if_neg hs'] at this
      have : ¬ 0 < d i.val := by intro h0; linarith
      simp [this, hs]
  rw [e1, e2]
  rw [← List.toFinset_card_of_nodup ((List.nodup_finRange n).filter _)]
  congr 1
  ext i
  simp

end Clarabel.Lemmas.KktLdlSigns
