/-
  C16, dense matrix model: `block_concatenate.rs` on a general block grid.

  * `GridOK` : the five consistency conditions of `hvcat_dim_check`, `hvcatDimCheck_iff`
  * `hvcat_spec` : on a consistent grid of well-formed blocks the result is the block matrix
    (entry `(Σ heights before + i, Σ widths before + j)` is entry `(i, j)` of block `(r, k)`)
  * `hvcat_error_iff` : `IncompatibleDimension` exactly on an inconsistent grid
  (`blockdiag` is in `DenseBlockdiag.lean`)
-/
import ClarabelProofs.Lemmas.DenseCat
import ClarabelProofs.Lemmas.CscCat

namespace Clarabel.Dense
open Clarabel

variable {α : Type}

/-! ### list helpers -/

/-- a concatenation of chunks of equal length `c`: length and entries -/
theorem flatten_uniform (c : Nat) : ∀ (L : List (List α)), (∀ l ∈ L, l.length = c) →
    L.flatten.length = L.length * c ∧
    ∀ i j, i < c → j < L.length → L.flatten[i + c * j]? = (L[j]?).bind (fun l => l[i]?) := by
  intro L
  induction L with
  | nil => intro _; exact ⟨by simp, fun i j _ hj => by simp at hj⟩
  | cons a t ih =>
    intro h
    have ha : a.length = c := h a (by simp)
    obtain ⟨ih1, ih2⟩ := ih (fun l hl => h l (List.mem_cons_of_mem _ hl))
    refine ⟨?_, ?_⟩
    · rw [List.flatten_cons, List.length_append, ih1, ha, List.length_cons]; ring
    · intro i j hi hj
      rw [List.flatten_cons]
      cases j with
      | zero =>
        rw [Nat.mul_zero, Nat.add_zero, List.getElem?_append_left (by omega)]
        simp
      | succ j =>
        rw [List.getElem?_append_right (by rw [ha]; nlinarith)]
        have : i + c * (j + 1) - a.length = i + c * j := by rw [ha, Nat.mul_succ]; omega
        rw [this, ih2 i j hi (by simpa using hj)]
        simp

theorem mapM_error_mem {β γ : Type} (f : β → MErr γ) : ∀ (l : List β) (e : ModelErr),
    l.mapM f = .error e → ∃ p ∈ l, f p = .error e := by
  intro l
  induction l with
  | nil => intro e h; cases h
  | cons a t ih =>
    intro e h
    rw [List.mapM_cons] at h
    cases hfa : f a with
    | error e' =>
      rw [hfa] at h
      have : e' = e := by cases h; rfl
      subst this
      exact ⟨a, by simp, hfa⟩
    | ok v =>
      rw [hfa] at h
      cases ht : t.mapM f with
      | error e' =>
        rw [ht] at h
        have : e' = e := by cases h; rfl
        subst this
        obtain ⟨p, hp, hfp⟩ := ih e' ht
        exact ⟨p, List.mem_cons_of_mem _ hp, hfp⟩
      | ok vs => rw [ht] at h; cases h

/-- `col_slice` can only fail with a panic -/
theorem colSlice_error (A : Dense α) (col : Nat) (e : ModelErr) (h : colSlice A col = .error e) :
    ∃ s, e = .panic s := by
  unfold colSlice sliceE at h
  split at h
  · cases h; exact ⟨_, rfl⟩
  · split at h
    · cases h; exact ⟨_, rfl⟩
    · cases h

/-! ### the dimension check -/

/-- the head block's row count, `0` for an empty block row (as in `hvcat`) -/
def headM (br : List (Dense α)) : Nat :=
  match br with
  | [] => 0
  | b0 :: _ => b0.m

/-- a consistent block grid: at least one block row and one block column, all block rows
equally long, equal heights inside every block row, equal widths inside every block
column -/
structure GridOK (mats : List (List (Dense α))) : Prop where
  ne : mats ≠ []
  first_ne : mats.headD [] ≠ []
  rect : ∀ br ∈ mats, br.length = (mats.headD []).length
  heights : ∀ br ∈ mats, ∀ b ∈ br, b.m = headM br
  widths : ∀ br ∈ mats, ∀ k : Nat, (br[k]?).map (fun b : Dense α => b.n) = ((mats.headD [])[k]?).map (fun b : Dense α => b.n)

/-- the per-block-row test of `hvcat_dim_check` -/
def rowHeightBad (br : List (Dense α)) : Bool :=
  match br with
  | [] => false
  | b0 :: bs => bs.any (fun b => b.m != b0.m)

theorem hvcatDimCheck_cons (r0 : List (Dense α)) (rest : List (List (Dense α))) :
    hvcatDimCheck (r0 :: rest) =
      (if r0.isEmpty then false
       else if rest.any (fun br => br.length != r0.length) then false
       else if (r0 :: rest).any rowHeightBad then false
       else if (List.range r0.length).any (fun k =>
          rest.any (fun br => (br[k]?.map (fun b : Dense α => b.n)) != (r0[k]?.map (fun b : Dense α => b.n)))) then false
       else true) := rfl

theorem rowHeightBad_iff (br : List (Dense α)) :
    rowHeightBad br = false ↔ ∀ b ∈ br, b.m = headM br := by
  cases br with
  | nil => simp [rowHeightBad]
  | cons b0 bs =>
    simp only [rowHeightBad, headM, List.any_eq_false, bne_iff_ne, ne_eq, Decidable.not_not,
      List.mem_cons, forall_eq_or_imp, true_and]

/-- [S] `hvcat_dim_check` accepts exactly the consistent grids -/
theorem hvcatDimCheck_iff (mats : List (List (Dense α))) : hvcatDimCheck mats = true ↔ GridOK mats := by
  cases mats with
  | nil =>
    simp only [hvcatDimCheck, Bool.false_eq_true, false_iff]
    intro h; exact h.ne rfl
  | cons r0 rest =>
    rw [hvcatDimCheck_cons]
    constructor
    · intro h
      split at h
      · cases h
      · rename_i h1
        split at h
        · cases h
        · rename_i h2
          split at h
          · cases h
          · rename_i h3
            split at h
            · cases h
            · rename_i h4
              have h1' : r0 ≠ [] := by simpa using h1
              have h2' : ∀ br ∈ rest, br.length = r0.length := by simpa using h2
              have h3' : ∀ br ∈ r0 :: rest, ∀ b ∈ br, b.m = headM br := by
                intro br hbr
                have h3a := List.any_eq_false.mp ((Bool.not_eq_true _).mp h3) br hbr
                exact (rowHeightBad_iff br).mp ((Bool.not_eq_true _).mp h3a)
              have h4' : ∀ k, k < r0.length → ∀ br ∈ rest,
                  (br[k]?).map (·.n) = (r0[k]?).map (·.n) := by
                have : ((List.range r0.length).any fun k =>
                    rest.any fun br => (br[k]?.map (·.n)) != (r0[k]?.map (·.n))) = false := by
                  simpa using h4
                rw [List.any_eq_false] at this
                intro k hk br hbr
                have h5 := this k (List.mem_range.mpr hk)
                simp only [Bool.not_eq_true, List.any_eq_false, bne_iff_ne, ne_eq,
                  Decidable.not_not] at h5
                exact h5 br hbr
              refine ⟨by simp, by simpa using h1', ?_, h3', ?_⟩
              · intro br hbr
                rcases List.mem_cons.mp hbr with rfl | hbr
                · rfl
                · simpa using h2' br hbr
              · intro br hbr k
                rcases List.mem_cons.mp hbr with rfl | hbr
                · rfl
                · by_cases hk : k < r0.length
                  · simpa using h4' k hk br hbr
                  · have e1 : r0[k]? = none := by simp; omega
                    have e2 : br[k]? = none := by
                      have := h2' br hbr
                      simp; omega
                    simp [e1, e2]
    · intro g
      have h1 : r0.isEmpty = false := by
        have := g.first_ne
        simp only [List.headD_cons] at this
        cases r0 with
        | nil => exact absurd rfl this
        | cons _ _ => rfl
      have h2 : (rest.any fun br => br.length != r0.length) = false := by
        rw [List.any_eq_false]
        intro br hbr
        have := g.rect br (List.mem_cons_of_mem _ hbr)
        simpa using this
      have h4 : ((List.range r0.length).any fun k =>
          rest.any fun br => (br[k]?.map (·.n)) != (r0[k]?.map (·.n))) = false := by
        rw [List.any_eq_false]
        intro k _
        simp only [Bool.not_eq_true, List.any_eq_false, bne_iff_ne, ne_eq, Decidable.not_not]
        intro br hbr
        have := g.widths br (List.mem_cons_of_mem _ hbr) k
        simpa using this
      simp only [h1, h2, h4, Bool.false_eq_true, ↓reduceIte]
      rw [if_neg]
      intro hc
      obtain ⟨br, hbr, hF⟩ := List.any_eq_true.mp hc
      have := (rowHeightBad_iff br).mpr (g.heights br hbr)
      rw [this] at hF
      cases hF

/-! ### the result of `hvcat` -/

/-- column `c` of block `k` of a block row (`[]` when the block row is too short) -/
def blockColList (k c : Nat) (br : List (Dense α)) : List α :=
  match br[k]? with
  | some b => colList b c
  | none => []

/-- column `c` of block column `k` of the result: the column slices from top to bottom -/
def hvColData (mats : List (List (Dense α))) (k c : Nat) : List α :=
  (mats.map (blockColList k c)).flatten

/-- the columns of the result, grouped by block column -/
def hvColBlocks (mats : List (List (Dense α))) : List (List (List α)) :=
  ((mats.headD []).zipIdx).map (fun bk => (List.range bk.1.n).map (fun c => hvColData mats bk.2 c))

/-- what one `col_slice` request returns -/
def pieceG (q : Option (Dense α) × Nat) : Array α :=
  match q.1 with
  | some b => b.data.extract (q.2 * b.m) ((q.2 + 1) * b.m)
  | none => #[]

/-- one `col_slice` request of `hvcat` -/
def hvRead (q : Option (Dense α) × Nat) : MErr (Array α) :=
  match q.1 with
  | some b => colSlice b q.2
  | none => throw (.panic "blockrow[blockcolidx]")

/-- the `col_slice` requests of `hvcat` in program order -/
def hvPieces (mats : List (List (Dense α))) : List (Option (Dense α) × Nat) :=
  ((mats.headD []).zipIdx).flatMap (fun bk =>
    (List.range bk.1.n).flatMap (fun col => mats.map (fun br => (br[bk.2]?, col))))

/-- block `k` of a block row of a consistent grid -/
theorem GridOK.block {mats : List (List (Dense α))} (g : GridOK mats) {br : List (Dense α)}
    (hbr : br ∈ mats) {k : Nat} (hk : k < (mats.headD []).length) :
    ∃ b, br[k]? = some b ∧ b ∈ br ∧ b.n = ((mats.headD [])[k]).n ∧ b.m = headM br := by
  have hlen := g.rect br hbr
  have hk' : k < br.length := by omega
  refine ⟨br[k], List.getElem?_eq_getElem hk', List.getElem_mem _, ?_, g.heights br hbr _ (List.getElem_mem _)⟩
  have := g.widths br hbr k
  rw [List.getElem?_eq_getElem hk', List.getElem?_eq_getElem hk] at this
  simpa using this

theorem hvPieces_ok (mats : List (List (Dense α))) (g : GridOK mats)
    (hwf : ∀ br ∈ mats, ∀ b ∈ br, WF b) :
    (hvPieces mats).mapM hvRead = .ok ((hvPieces mats).map pieceG) := by
  apply mapM_ok
  intro q hq
  obtain ⟨bk, hbk, hq⟩ := List.mem_flatMap.mp hq
  obtain ⟨col, hcol, hq⟩ := List.mem_flatMap.mp hq
  obtain ⟨br, hbr, rfl⟩ := List.mem_map.mp hq
  have hbk' := List.mem_zipIdx_iff_getElem?.mp hbk
  have hk : bk.2 < (mats.headD []).length := by
    by_contra hc
    rw [List.getElem?_eq_none (by omega)] at hbk'
    cases hbk'
  obtain ⟨b, hb1, hb2, hb3, _⟩ := g.block hbr hk
  have hbn : b.n = bk.1.n := by
    rw [hb3]
    rw [List.getElem?_eq_getElem hk] at hbk'
    rw [Option.some.inj hbk']
  simp only [hvRead, hb1, pieceG]
  exact colSlice_eq b (hwf br hbr b hb2) (by rw [hbn]; exact List.mem_range.mp hcol)

theorem hvPieces_data (mats : List (List (Dense α))) :
    (((hvPieces mats).map pieceG).map Array.toList).flatten = (hvColBlocks mats).flatten.flatten := by
  unfold hvPieces hvColBlocks
  rw [List.map_map, flatten_map_flatMap, List.flatten_flatten, List.map_map, ← List.flatMap_def]
  apply List.flatMap_congr
  intro bk _
  rw [flatten_map_flatMap]
  simp only [Function.comp]
  rw [← List.flatMap_def]
  apply List.flatMap_congr
  intro col _
  unfold hvColData
  rw [List.map_map]
  congr 1
  apply List.map_congr_left
  intro br _
  simp only [Function.comp, blockColList, pieceG, colList]
  cases br[bk.2]? <;> rfl

theorem hvColData_lengths (mats : List (List (Dense α))) (g : GridOK mats)
    (hwf : ∀ br ∈ mats, ∀ b ∈ br, WF b) {k c : Nat} (hk : k < (mats.headD []).length)
    (hc : c < ((mats.headD [])[k]).n) :
    (mats.map (blockColList k c)).map List.length = mats.map headM := by
  rw [List.map_map]
  apply List.map_congr_left
  intro br hbr
  obtain ⟨b, hb1, hb2, hb3, hb4⟩ := g.block hbr hk
  simp only [Function.comp, blockColList, hb1]
  rw [colList_length b (hwf br hbr b hb2) (by rw [hb3]; exact hc), hb4]

theorem hvColData_length (mats : List (List (Dense α))) (g : GridOK mats)
    (hwf : ∀ br ∈ mats, ∀ b ∈ br, WF b) {k c : Nat} (hk : k < (mats.headD []).length)
    (hc : c < ((mats.headD [])[k]).n) :
    (hvColData mats k c).length = (mats.map headM).sum := by
  unfold hvColData
  rw [List.length_flatten, hvColData_lengths mats g hwf hk hc]

theorem hvColBlocks_length (mats : List (List (Dense α))) :
    (hvColBlocks mats).length = (mats.headD []).length := by
  simp [hvColBlocks]

theorem hvColBlocks_getElem (mats : List (List (Dense α))) (k : Nat) (hk : k < (mats.headD []).length) :
    (hvColBlocks mats)[k]'(by rw [hvColBlocks_length]; exact hk) =
      (List.range ((mats.headD [])[k]).n).map (fun c => hvColData mats k c) := by
  simp [hvColBlocks]

theorem hvColBlocks_lengths (mats : List (List (Dense α))) :
    (hvColBlocks mats).map List.length = (mats.headD []).map (·.n) := by
  apply List.ext_getElem
  · simp [hvColBlocks]
  · intro k h1 h2
    have hk : k < (mats.headD []).length := by simpa using h2
    rw [List.getElem_map, hvColBlocks_getElem mats k hk]
    simp

/-- every column of the result has `Σ heights` entries -/
theorem hvCols_uniform (mats : List (List (Dense α))) (g : GridOK mats)
    (hwf : ∀ br ∈ mats, ∀ b ∈ br, WF b) :
    ∀ col ∈ (hvColBlocks mats).flatten, col.length = (mats.map headM).sum := by
  intro col hcol
  obtain ⟨blk, hblk, hcol⟩ := List.mem_flatten.mp hcol
  obtain ⟨k, hk, rfl⟩ := List.mem_iff_getElem.mp hblk
  have hk' : k < (mats.headD []).length := by rw [hvColBlocks_length] at hk; exact hk
  rw [hvColBlocks_getElem mats k hk'] at hcol
  obtain ⟨c, hc, rfl⟩ := List.mem_map.mp hcol
  exact hvColData_length mats g hwf hk' (List.mem_range.mp hc)

theorem hvcat_unfold (mats : List (List (Dense α))) (g : GridOK mats) :
    hvcat mats = ((hvPieces mats).mapM hvRead) >>= fun pieces =>
      new (mats.map headM).sum ((mats.headD []).map (·.n)).sum
        (pieces.map Array.toList).flatten.toArray := by
  have hd := (hvcatDimCheck_iff mats).mpr g
  unfold hvcat
  cases mats with
  | nil => exact absurd rfl g.ne
  | cons r0 rest =>
    simp only [hd, Bool.not_true, Bool.false_eq_true, ↓reduceIte, Csc.foldl_add_eq_sum,
      List.headD_cons]
    rfl

/-- [S] `hvcat` on a consistent grid of well-formed blocks: `Σ heights` rows, `Σ widths`
columns, and entry `(Σ_{r'<r} h_r' + i, Σ_{k'<k} w_k' + j)` is entry `(i, j)` of block
`(r, k)` -/
theorem hvcat_spec (mats : List (List (Dense α))) (g : GridOK mats)
    (hwf : ∀ br ∈ mats, ∀ b ∈ br, WF b) :
    ∃ R, hvcat mats = .ok R ∧ R.m = (mats.map headM).sum ∧
      R.n = ((mats.headD []).map (fun b : Dense α => b.n)).sum ∧ WF R ∧
      ∀ r k (hr : r < mats.length) (hk : k < mats[r].length) i j,
        i < mats[r][k].m → j < mats[r][k].n →
        at? R (((mats.take r).map headM).sum + i)
          ((((mats.headD []).map (fun b : Dense α => b.n)).take k).sum + j) = at? mats[r][k] i j := by
  let nr := (mats.map headM).sum
  let cols := (hvColBlocks mats).flatten
  have hun := hvCols_uniform mats g hwf
  obtain ⟨hlen, hget⟩ := flatten_uniform nr cols hun
  have hcols : cols.length = ((mats.headD []).map (fun b : Dense α => b.n)).sum := by
    simp only [cols]
    rw [List.length_flatten, hvColBlocks_lengths]
  refine ⟨⟨nr, ((mats.headD []).map (fun b : Dense α => b.n)).sum, cols.flatten.toArray⟩, ?_, rfl, rfl, ?_, ?_⟩
  · rw [hvcat_unfold mats g, hvPieces_ok mats g hwf]
    show new _ _ _ = _
    rw [hvPieces_data]
    apply new_ok
    simp only [List.size_toArray]
    rw [hlen, hcols]; ring
  · simp only [WF, List.size_toArray]
    rw [hlen, hcols]; ring
  · intro r k hr hk i j hi hj
    have hbr : mats[r] ∈ mats := List.getElem_mem _
    have hk0 : k < (mats.headD []).length := by rw [← g.rect _ hbr]; exact hk
    obtain ⟨b, hb1, hb2, hb3, hb4⟩ := g.block hbr hk0
    have hbe : b = mats[r][k] := by
      rw [List.getElem?_eq_getElem hk] at hb1; cases hb1; rfl
    subst hbe
    have hj0 : j < ((mats.headD [])[k]).n := by rw [← hb3]; exact hj
    -- the column
    have hk2 : k < (hvColBlocks mats).length := by rw [hvColBlocks_length]; exact hk0
    have hc2 : j < ((hvColBlocks mats)[k]).length := by
      rw [hvColBlocks_getElem mats k hk0]; simpa using hj0
    have hcol := Csc.getElem?_flatten_offset (hvColBlocks mats) k j hk2 hc2
    rw [List.map_take, hvColBlocks_lengths] at hcol
    have hcolv : (hvColBlocks mats)[k][j] = hvColData mats k j := by
      simp [hvColBlocks_getElem mats k hk0]
    rw [hcolv] at hcol
    obtain ⟨hJ, hJv⟩ := List.getElem?_eq_some_iff.mp hcol
    -- the row
    have hlens := hvColData_lengths mats g hwf hk0 hj0
    have hr2 : r < (mats.map (blockColList k j)).length := by simpa using hr
    have hrow_len : ((mats.map (blockColList k j))[r]).length = mats[r][k].m := by
      simp only [List.getElem_map, blockColList, List.getElem?_eq_getElem hk]
      exact colList_length _ (hwf _ hbr _ hb2) hj
    have hrow := Csc.getElem?_flatten_offset (mats.map (blockColList k j)) r i hr2 (by rw [hrow_len]; exact hi)
    rw [List.map_take, hlens, ← List.map_take] at hrow
    have hI : ((mats.take r).map headM).sum + i < nr := by
      have h1 := Csc.take_sum_add_le (mats.map headM) r (by simpa using hr)
      simp only [List.getElem_map, ← List.map_take] at h1
      rw [← hb4] at h1
      simp only [nr]; omega
    simp only [at?, List.getElem?_toArray]
    rw [hget _ _ hI hJ, hcol]
    simp only [Option.bind_some]
    show (hvColData mats k j)[_]? = _
    unfold hvColData
    rw [hrow]
    have : (mats.map (blockColList k j))[r][i]? = (colList mats[r][k] j)[i]? := by
      simp only [List.getElem_map, blockColList, List.getElem?_eq_getElem hk]
    rw [← List.getElem?_eq_getElem, this, colList_getElem? _ (hwf _ hbr _ hb2) hj hi]
    rfl

/-- [S] `hvcat` answers `IncompatibleDimension` exactly when the grid is inconsistent (a
consistent grid with a block whose buffer does not fit its dimensions panics instead) -/
theorem hvcat_error_iff (mats : List (List (Dense α))) :
    hvcat mats = .error (.err "IncompatibleDimension") ↔ ¬ GridOK mats := by
  constructor
  · intro h g
    rw [hvcat_unfold mats g] at h
    cases hp : (hvPieces mats).mapM hvRead with
    | error e =>
      rw [hp] at h
      have he : e = .err "IncompatibleDimension" := by cases h; rfl
      obtain ⟨q, _, hq⟩ := mapM_error_mem _ _ _ hp
      cases hq1 : q.1 with
      | none => simp only [hvRead, hq1] at hq; rw [he] at hq; cases hq
      | some b =>
        simp only [hvRead, hq1] at hq
        obtain ⟨s, hs⟩ := colSlice_error b q.2 e hq
        rw [he] at hs; cases hs
    | ok pieces =>
      rw [hp] at h
      change new _ _ _ = _ at h
      unfold new at h
      split at h <;> cases h
  · intro h
    apply hvcat_error
    cases hc : hvcatDimCheck mats with
    | false => rfl
    | true => exact absurd ((hvcatDimCheck_iff mats).mp hc) h

end Clarabel.Dense
