/-
  Panic-freedom of the whole-solver model (C04) — non-vacuity: the hypotheses of the stage and
  composition theorems are satisfiable (scalar type `Int`, the kernel-evaluable run of
  `SolverModelExample.lean`).
-/
import ClarabelProofs.Lemmas.SolverModelNoPanicC04
import ClarabelProofs.Lemmas.SolverModelExample
import ClarabelProofs.Lemmas.CscFormat

namespace Clarabel.Solver.Example
open Clarabel Clarabel.Solver

attribute [local instance] intFloatLike

/-- the scalar law of the cone stage holds for the example scalar type -/
theorem exFmaxOK : FmaxOK Int := fun r h => by
  change max (0 : Int) r < 0 at h
  omega

/-- the example input of `SolverModelExample.lean` is well formed -/
theorem exInputOK : InputOK P #[1] A #[1] ([.nonneg 1] : List (ConeT Int)) where
  P_canon := (Csc.checkFormat_iff0 P).mp (by decide)
  P_sq := rfl
  A_canon := (Csc.checkFormat_iff0 A).mp (by decide)
  A_n := rfl
  q := rfl
  b := rfl
  cones := by decide

/-- `DefaultSolver::new` returns a solver object on it (so `solverNew_inv` / `solve_ok_of_new`
are not vacuous) -/
theorem exNew_ok : ∃ S, newSolver 3 = .ok S := by
  have h : (newSolver 3).toOption.isSome = true := by decide +kernel
  cases hn : newSolver 3 with
  | error e => rw [hn] at h; cases h
  | ok S => exact ⟨S, rfl⟩

/-- the cone and top stages at the example scalar type -/
example : ConeStage Int := coneStage exFmaxOK
example : TopStage Int := topStage

end Clarabel.Solver.Example

/-! ### non-vacuity of the end-to-end theorem `solver_noPanic` -/

namespace Clarabel.Solver.Example
open Clarabel Clarabel.Solver

attribute [local instance] intFloatLike

/-- the dynamic regularisation of the example settings never leaves a zero pivot -/
theorem exPivotOK (k : Nat) : PivotOK (st k).lin := by
  intro sg d h
  show ((Qdldl.regularizePivot true (1 : Int) 1 sg d).1 == 0) = false
  have hs : (Qdldl.signT sg : Int) = 1 ∨ (Qdldl.signT sg : Int) = -1 := by
    rcases h with rfl | rfl
    · left; decide
    · right; decide
  unfold Qdldl.regularizePivot
  simp only [↓reduceIte]
  generalize (Qdldl.signT sg : Int) = s at hs
  split
  · rcases hs with rfl | rfl <;> decide
  · rename_i hlt
    show (d == 0) = false
    rw [beq_eq_false_iff_ne]
    rcases hs with rfl | rfl <;> omega

/-- the dimensions and the cone layout `DefaultSolver::new` arrives at on the example -/
theorem exInternal : (do
    let d ← internalData P #[1] A #[1] ([.nonneg 1] : List (ConeT Int)) (st 3)
    let K ← makeCones d.cones
    pure (d.n, d.m, K.map ConeSt.kktSpec) : MErr (Nat × Nat × List Kkt.ConeSpec)).toOption
      = some (1, 1, [.nonneg 1]) := by decide +kernel

theorem exPermFor : PermFor P #[1] A #[1] ([.nonneg 1] : List (ConeT Int)) (st 3) #[0, 1] := by
  intro d K hd hK
  have h := exInternal
  rw [bind_ok_of hd, bind_ok_of hK] at h
  have h' : (d.n, d.m, K.map ConeSt.kktSpec) = (1, 1, [Kkt.ConeSpec.nonneg 1]) := Option.some.inj h
  simp only [Prod.mk.injEq] at h'
  obtain ⟨h1, h2, h3⟩ := h'
  refine ⟨⟨by decide, by decide⟩, ?_⟩
  rw [h1, h2, h3]
  rfl

/-- every hypothesis of `solver_noPanic` holds on the example, `new` returns a solver object, and
so its `solve()` returns `.ok` -/
example : ∃ S r, newSolver 3 = .ok S ∧ S.solve (st 3) = .ok r ∧ SolverInvQ r.S := by
  obtain ⟨S, hS⟩ := exNew_ok
  obtain ⟨r, hr, hI⟩ := (solver_noPanic exInputOK (by decide) exPermFor (exPivotOK 3) exFmaxOK).2 S hS
  exact ⟨S, r, hS, hr, hI⟩

end Clarabel.Solver.Example
