/-
  Panic-freedom of the whole-solver model WITH NONSYMMETRIC CONES (C04) — stage "linear solver
  object": `KktSolver` (`DirectLDLKKTSolver` with the QDLDL engine) for a composite cone that may
  contain exponential / power / generalised power cones.

  The invariant `Solver.KktInvW` of the symmetric development cannot hold for an object with
  generalised-power expansion maps (`Solver.SparseMapOK` is `False` on `.genpow`), so the invariant
  is re-stated with `SparseMapOKN`:

  * `KktInvWN specs n m K` : invariant of the object before an `update`
  * `KktInvSN specs n m K` : after an `update` (numeric factorisation present)
  * `updateSparseGenpow_okN` : `csc_update_sparsecone` of a generalised power cone is total
  * `sparseFold_okN`       : the loop over the cones of `update` is total
  * `update_okN`, `setrhs_solve_okN`
  * `kktTotalN`            : `KktTotal (KktInvWN specs n m) (KktInvSN specs n m) specs n m st`

  Everything that does not mention the invariant (`QInv`, `QInvS`, `VFrame`, `NzOnly`, `qdldl_*_ok`,
  `refineError_ok`, `irLoop_ok`, `regularizeAndRestore_ok`, …) is re-used from
  `SolverModelNoPanicKkt.lean` / `SolverModelNoPanicKktQdldl.lean`.  All structural ([S]).
-/
import ClarabelProofs.Lemmas.SolverNSNoPanicDefs
import ClarabelProofs.Lemmas.SolverModelNoPanicKkt
import ClarabelProofs.Lemmas.SolverModelNoPanicTop

namespace Clarabel.SolverNS
open Clarabel Info Residuals Qdldl
open Clarabel.Lemmas.KktUpdateTotal (updateValuesKKT_exists scaleValuesKKT_exists)
open Clarabel.Solver (OkAnd KktSolver LinSettings bind_ok_of QInv QInvS VFrame NzOnly SymvOK
  canonical_set_nzval refineError_ok irLoop_ok qdldl_solve_ok qdldl_updateValues_ok
  qdldl_scaleValues_ok qdldl_refactor_ok regularizeAndRestore_ok drop_cons_inv unwrapQdldl symv_ok
  IRState irLoop refineError)

set_option linter.unusedSectionVars false
set_option linter.unusedVariables false

variable {α : Type}

section
variable [Add α] [Sub α] [Mul α] [Div α] [Neg α] [LT α] [LE α] [DecidableLT α] [DecidableLE α]
  [BEq α] [OfNat α 0] [OfNat α 1] [OfNat α 2] [OfNat α 3] [OfNat α 4] [OfNat α 100] [OfNat α 1000]
  [OfScientific α] [FloatLike α]

/-- an expansion map of the solver against the template `expansion_map` allocates for the cone:
same kind (sparse second-order or generalised power), same vector lengths, every index a slot of
the KKT value array -/
def SparseMapOKN (nnz : Nat) : Kkt.SparseMap → Kkt.SparseMap → Prop
  | .soc u v D, .soc u' v' _ => u.size = u'.size ∧ v.size = v'.size ∧ D.size = 2 ∧
      (∀ i ∈ u.toList, i < nnz) ∧ (∀ i ∈ v.toList, i < nnz) ∧ ∀ i ∈ D.toList, i < nnz
  | .genpow p q r D, .genpow p' q' r' _ => p.size = p'.size ∧ q.size = q'.size ∧ r.size = r'.size ∧
      D.size = 3 ∧ (∀ i ∈ p.toList, i < nnz) ∧ (∀ i ∈ q.toList, i < nnz) ∧ (∀ i ∈ r.toList, i < nnz) ∧
      ∀ i ∈ D.toList, i < nnz
  | _, _ => False

/-- the symmetric relation is the `soc`/`soc` case of the new one -/
theorem SparseMapOKN.of_sym {nnz : Nat} {a b : Kkt.SparseMap} (h : Solver.SparseMapOK nnz a b) :
    SparseMapOKN nnz a b := by
  cases a <;> cases b <;> first | exact h | exact absurd h id

/-- **invariant of the linear solver object** (factorisation possibly still symbolic), for cone
lists with generalised power cones -/
structure KktInvWN (specs : List Kkt.ConeSpec) (n m : Nat) (K : KktSolver α) : Prop where
  n_eq : K.n = n
  m_eq : K.m = m
  p_eq : K.p = Kkt.pdimAll K.map.sparse_maps
  x : K.x.size = n + m + K.p
  b : K.b.size = n + m + K.p
  work1 : K.work1.size = n + m + K.p
  work2 : K.work2.size = n + m + K.p
  dsigns : K.dsigns.size = n + m + K.p
  hs : K.Hsblocks.size = Kkt.hsblocksLen specs
  hsmap : K.map.Hsblocks.size = Kkt.hsblocksLen specs
  hsmap_lt : ∀ i ∈ K.map.Hsblocks.toList, i < K.KKT.nzval.size
  diag_size : K.map.diag_full.size = n + m + K.p
  diag_lt : ∀ i ∈ K.map.diag_full.toList, i < K.KKT.nzval.size
  maps : List.Forall₂ (SparseMapOKN K.KKT.nzval.size) K.map.sparse_maps.toList
    (specs.filterMap Kkt.expansionMap)
  kkt_m : K.KKT.m = n + m + K.p
  kkt_n : K.KKT.n = n + m + K.p
  canon : C16.Canonical K.KKT
  ldl : QInv (n + m + K.p) K.KKT.nzval.size K.ldl

/-- the linear solver object after `update`: a numeric factorisation is present -/
structure KktInvSN (specs : List Kkt.ConeSpec) (n m : Nat) (K : KktSolver α) : Prop where
  w : KktInvWN specs n m K
  s : QInvS (n + m + K.p) K.KKT.nzval.size K.ldl

/-- [S] the invariant of the symmetric development is an instance -/
theorem KktInvWN.of_sym {specs : List Kkt.ConeSpec} {n m : Nat} {K : KktSolver α}
    (hK : Solver.KktInvW specs n m K) : KktInvWN specs n m K :=
  { n_eq := hK.n_eq, m_eq := hK.m_eq, p_eq := hK.p_eq, x := hK.x, b := hK.b, work1 := hK.work1,
    work2 := hK.work2, dsigns := hK.dsigns, hs := hK.hs, hsmap := hK.hsmap, hsmap_lt := hK.hsmap_lt,
    diag_size := hK.diag_size, diag_lt := hK.diag_lt
    maps := by
      have h := hK.maps
      generalize K.map.sparse_maps.toList = l1 at h
      generalize specs.filterMap Kkt.expansionMap = l2 at h
      induction h with
      | nil => exact .nil
      | cons hab _ ih => exact .cons (SparseMapOKN.of_sym hab) ih
    kkt_m := hK.kkt_m, kkt_n := hK.kkt_n, canon := hK.canon, ldl := hK.ldl }

theorem VFrame.invN {specs : List Kkt.ConeSpec} {n m : Nat} {K K' : KktSolver α} (h : VFrame K K')
    (hK : KktInvWN specs n m K) : KktInvWN specs n m K' := by
  obtain ⟨nz, F', hnz, hF, rfl⟩ := h
  exact
    { n_eq := hK.n_eq, m_eq := hK.m_eq, p_eq := hK.p_eq, x := hK.x, b := hK.b, work1 := hK.work1,
      work2 := hK.work2, dsigns := hK.dsigns, hs := hK.hs, hsmap := hK.hsmap
      hsmap_lt := by intro i hi; show i < nz.size; rw [hnz]; exact hK.hsmap_lt i hi
      diag_size := hK.diag_size
      diag_lt := by intro i hi; show i < nz.size; rw [hnz]; exact hK.diag_lt i hi
      maps := by show List.Forall₂ (SparseMapOKN nz.size) _ _; rw [hnz]; exact hK.maps
      kkt_m := hK.kkt_m, kkt_n := hK.kkt_n
      canon := canonical_set_nzval hK.canon nz hnz
      ldl := by show QInv _ nz.size F'; rw [hnz]; exact hF.inv hK.ldl }

/-- [S] the invariant only sees the lengths of the four work vectors -/
theorem KktInvWN.set_vecs {specs : List Kkt.ConeSpec} {n m : Nat} {K : KktSolver α}
    (hK : KktInvWN specs n m K) (x b w1 w2 : Array α) (hx : x.size = n + m + K.p)
    (hb : b.size = n + m + K.p) (h1 : w1.size = n + m + K.p) (h2 : w2.size = n + m + K.p) (dr : α) :
    KktInvWN specs n m { K with x := x, b := b, work1 := w1, work2 := w2, diagonalRegularizer := dr } :=
  { n_eq := hK.n_eq, m_eq := hK.m_eq, p_eq := hK.p_eq, x := hx, b := hb, work1 := h1,
    work2 := h2, dsigns := hK.dsigns, hs := hK.hs, hsmap := hK.hsmap, hsmap_lt := hK.hsmap_lt,
    diag_size := hK.diag_size, diag_lt := hK.diag_lt, maps := hK.maps, kkt_m := hK.kkt_m,
    kkt_n := hK.kkt_n, canon := hK.canon, ldl := hK.ldl }

theorem KktInvSN.set_vecs {specs : List Kkt.ConeSpec} {n m : Nat} {K : KktSolver α}
    (hK : KktInvSN specs n m K) (x b w1 w2 : Array α) (hx : x.size = n + m + K.p)
    (hb : b.size = n + m + K.p) (h1 : w1.size = n + m + K.p) (h2 : w2.size = n + m + K.p) (dr : α) :
    KktInvSN specs n m { K with x := x, b := b, work1 := w1, work2 := w2, diagonalRegularizer := dr } :=
  ⟨hK.w.set_vecs x b w1 w2 hx hb h1 h2 dr, hK.s⟩

/-- totality of `_csc_symv` (`Solver.symv_ok`) in the form the shared lemmas take it -/
theorem symvOK : SymvOK α := fun _ _ _ a b h1 h2 h3 h4 => symv_ok a b h1 h2 h3 h4

/-! ### `solve` side -/

/-- [S] `iterative_refinement` is total on `KktInvSN` and keeps it -/
theorem iterativeRefinement_okN {specs : List Kkt.ConeSpec} {n m : Nat}
    {K : KktSolver α} (hK : KktInvSN specs n m K) (st : LinSettings α) :
    ∃ r, K.iterativeRefinement st = .ok r ∧ KktInvSN specs n m r.2 := by
  have hsymv : SymvOK α := symvOK
  have hw := hK.w
  obtain ⟨r0, hr0, hr0s⟩ := refineError_ok hsymv hw.canon hw.kkt_m hw.kkt_n K.b K.x hw.b hw.x
  obtain ⟨norme, e⟩ := r0
  unfold KktSolver.iterativeRefinement
  simp only [hr0, bind, Except.bind]
  split
  · exact ⟨_, rfl, hK.set_vecs K.x K.b e K.work2 hw.x hw.b hr0s hw.work2 K.diagonalRegularizer⟩
  · obtain ⟨r, hr, hx, hdx, he⟩ := irLoop_ok hsymv hK.s hw.canon hw.kkt_m hw.kkt_n K.b hw.b
      (Vec.normInf K.b) st st.irMaxIter { x := K.x, dx := K.work2, e := e, norme := norme } hw.x hw.work2 hr0s
    obtain ⟨ok, s⟩ := r
    simp only [hr]
    exact ⟨_, rfl, hK.set_vecs s.x K.b s.e s.dx hx hw.b he hdx K.diagonalRegularizer⟩

/-- [S] `setrhs; solve` is total on `KktInvSN`, returns parts of lengths `n`, `m`, keeps `KktInvSN` -/
theorem setrhs_solve_okN {specs : List Kkt.ConeSpec} {n m : Nat}
    {K : KktSolver α} (hK : KktInvSN specs n m K) (st : LinSettings α) (rx rz : Array α)
    (hrx : rx.size = n) (hrz : rz.size = m) :
    ∃ r, (K.setrhs rx rz >>= fun K1 => K1.solve st) = .ok r ∧ r.2.1.size = n ∧ r.2.2.1.size = m
      ∧ KktInvSN specs n m r.2.2.2 := by
  have hw := hK.w
  have hbs : (rx ++ rz ++ Array.replicate K.p (0 : α)).size = n + m + K.p := by
    simp only [Array.size_append, Array.size_replicate, hrx, hrz]
  have hK1 := hK.set_vecs K.x (rx ++ rz ++ Array.replicate K.p 0) K.work1 K.work2 hw.x hbs hw.work1 hw.work2
    K.diagonalRegularizer
  have hset : K.setrhs rx rz = .ok { K with b := rx ++ rz ++ Array.replicate K.p 0 } := by
    unfold KktSolver.setrhs
    have c1 : (rx.size != K.n) = false := by simp [hrx, hw.n_eq]
    have c2 : (rz.size != K.m) = false := by simp [hrz, hw.m_eq]
    have c3 : (K.b.size != K.n + K.m + K.p) = false := by simp [hw.b, hw.n_eq, hw.m_eq]
    simp only [c1, c2, c3, Bool.false_eq_true, ↓reduceIte, pure, Except.pure]
  rw [bind_ok_of hset]
  generalize hK1def : ({ K with b := rx ++ rz ++ Array.replicate K.p 0 } : KktSolver α) = K1 at hK1
  have hw1 := hK1.w
  -- the triangular solves
  obtain ⟨x, hx, hxs⟩ := qdldl_solve_ok hK1.s K1.b hw1.b
  have hK2 := hK1.set_vecs x K1.b K1.work1 K1.work2 hxs hw1.b hw1.work1 hw1.work2 K1.diagonalRegularizer
  have tail : ∀ (r : Bool × KktSolver α), KktInvSN specs n m r.2 →
      ∃ r', (if r.2.x.size < r.2.n + r.2.m then (throw (ModelErr.panic "getlhs: range") : MErr _)
          else pure (r.1, r.2.getlhs.1, r.2.getlhs.2, r.2)) = .ok r' ∧ r'.2.1.size = n ∧
        r'.2.2.1.size = m ∧ KktInvSN specs n m r'.2.2.2 := by
    rintro ⟨ok, K3⟩ h3
    have h3w := h3.w
    have hxs3 := h3w.x
    dsimp only at hxs3 ⊢
    rw [if_neg (by rw [hxs3, h3w.n_eq, h3w.m_eq]; omega)]
    refine ⟨_, rfl, ?_, ?_, h3⟩
    · show (K3.x.extract 0 K3.n).size = n
      rw [Array.size_extract, h3w.n_eq, hxs3]; omega
    · show (K3.x.extract K3.n (K3.n + K3.m)).size = m
      rw [Array.size_extract, h3w.n_eq, h3w.m_eq, hxs3]; omega
  unfold KktSolver.solve
  have c0 : (K1.x.size != K1.b.size) = false := by simp [hw1.x, hw1.b]
  simp only [c0, hx, Bool.false_eq_true, ↓reduceIte, bind, Except.bind]
  split
  · obtain ⟨r, hr, hrI⟩ := iterativeRefinement_okN hK2 st
    simp only [hr]
    obtain ⟨r', hr', h⟩ := tail r hrI
    refine ⟨r', ?_, h⟩
    split at hr'
    · cases hr'
    · rename_i hlt
      simp only [hlt, ↓reduceIte]
      exact hr'
  · obtain ⟨r', hr', h⟩ := tail (x.all (fun v => FloatLike.isFinite v), _) hK2
    refine ⟨r', ?_, h⟩
    split at hr'
    · cases hr'
    · rename_i hlt
      simp only [pure, Except.pure]
      dsimp only at hlt
      simp only [hlt, ↓reduceIte]
      exact hr'


/-! ### `update` side -/

variable {specs : List Kkt.ConeSpec} {n m : Nat}

/-- [S] `_update_values` (both copies of the matrix) is total for in-range indices -/
theorem updateValues_okN {K : KktSolver α} (hK : KktInvWN specs n m K) (index : Array Nat) (values : Array α)
    (hidx : ∀ i ∈ index.toList, i < K.KKT.nzval.size) (hlen : index.size ≤ values.size) :
    ∃ K', K.updateValues index values = .ok K' ∧ VFrame K K' := by
  obtain ⟨nz, hnz, hs⟩ := updateValuesKKT_exists K.KKT.nzval index values hidx
  obtain ⟨F', hF, hFn⟩ := qdldl_updateValues_ok K.ldl index values
    (by rw [hK.ldl.map_size]; exact hidx) hK.ldl.map_lt hlen
  refine ⟨_, ?_, ⟨nz, F', hs, hFn, rfl⟩⟩
  unfold KktSolver.updateValues
  simp only [hnz, hF, bind, Except.bind, pure, Except.pure]

/-- [S] `_scale_values` is total for in-range indices -/
theorem scaleValues_okN {K : KktSolver α} (hK : KktInvWN specs n m K) (index : Array Nat) (scale : α)
    (hidx : ∀ i ∈ index.toList, i < K.KKT.nzval.size) :
    ∃ K', K.scaleValues index scale = .ok K' ∧ VFrame K K' := by
  obtain ⟨nz, hnz, hs⟩ := scaleValuesKKT_exists K.KKT.nzval index scale hidx
  obtain ⟨F', hF, hFn⟩ := qdldl_scaleValues_ok K.ldl index scale
    (by rw [hK.ldl.map_size]; exact hidx) hK.ldl.map_lt
  refine ⟨_, ?_, ⟨nz, F', hs, hFn, rfl⟩⟩
  unfold KktSolver.scaleValues
  simp only [hnz, hF, bind, Except.bind, pure, Except.pure]

/-- [S] `csc_update_sparsecone` of a sparse second-order cone is total -/
theorem updateSparseSoc_okN {K : KktSolver α} (hK : KktInvWN specs n m K) (mp : Kkt.SparseMap) (d : Nat)
    (hmp : SparseMapOKN K.KKT.nzval.size mp
      (.soc (Array.replicate d 0) (Array.replicate d 0) (Array.replicate 2 0)))
    (c : Soc.Cone α) (sp : Soc.Sparse α) (hsp : c.sparse = some sp) (hu : sp.u.size = d) (hv : sp.v.size = d) :
    ∃ K', K.updateSparseSoc mp c = .ok K' ∧ VFrame K K' := by
  cases mp with
  | genpow p q r D => exact absurd hmp id
  | soc mu mv mD =>
    obtain ⟨h1, h2, h3, h4, h5, h6⟩ := hmp
    simp only [Array.size_replicate] at h1 h2
    obtain ⟨K1, e1, f1⟩ := updateValues_okN hK mu sp.u h4 (by omega)
    have hK1 := VFrame.invN f1 hK
    obtain ⟨K2, e2, f2⟩ := updateValues_okN hK1 mv sp.v (by rw [f1.nnz]; exact h5) (by omega)
    have hK2 := VFrame.invN f2 hK1
    have n2 : K2.KKT.nzval.size = K.KKT.nzval.size := by rw [f2.nnz, f1.nnz]
    obtain ⟨K3, e3, f3⟩ := scaleValues_okN hK2 mu (-(c.eta * c.eta)) (by rw [n2]; exact h4)
    have hK3 := VFrame.invN f3 hK2
    have n3 : K3.KKT.nzval.size = K.KKT.nzval.size := by rw [f3.nnz, n2]
    obtain ⟨K4, e4, f4⟩ := scaleValues_okN hK3 mv (-(c.eta * c.eta)) (by rw [n3]; exact h5)
    have hK4 := VFrame.invN f4 hK3
    have n4 : K4.KKT.nzval.size = K.KKT.nzval.size := by rw [f4.nnz, n3]
    obtain ⟨K5, e5, f5⟩ := updateValues_okN hK4 mD #[-(c.eta * c.eta), c.eta * c.eta] (by rw [n4]; exact h6)
      (by rw [h3]; rfl)
    refine ⟨K5, ?_, f1.trans (f2.trans (f3.trans (f4.trans f5)))⟩
    simp only [KktSolver.updateSparseSoc, hsp, e1, e2, e3, e4, bind, Except.bind]
    exact e5

/-- [S] `csc_update_sparsecone` of a generalised power cone is total: the map is the one
`expansion_map` allocated for a cone of dimensions `(a, b)`, the cone's `p, q, r` have the lengths
`a + b`, `a`, `b` -/
theorem updateSparseGenpow_okN {K : KktSolver α} (hK : KktInvWN specs n m K) (mp : Kkt.SparseMap) (a b : Nat)
    (hmp : SparseMapOKN K.KKT.nzval.size mp
      (.genpow (Array.replicate (a + b) 0) (Array.replicate a 0) (Array.replicate b 0) (Array.replicate 3 0)))
    (c : GenPow.State α) (hp : c.D.p.size = a + b) (hq : c.D.q.size = a) (hr : c.D.r.size = b) :
    ∃ K', updateSparseGenpow K mp c = .ok K' ∧ VFrame K K' := by
  cases mp with
  | soc u v D => exact absurd hmp id
  | genpow mpp mq mr mD =>
    obtain ⟨h1, h2, h3, h4, h5, h6, h7, h8⟩ := hmp
    simp only [Array.size_replicate] at h1 h2 h3
    obtain ⟨K1, e1, f1⟩ := updateValues_okN hK mq c.D.q h6 (by omega)
    have hK1 := VFrame.invN f1 hK
    have n1 : K1.KKT.nzval.size = K.KKT.nzval.size := f1.nnz
    obtain ⟨K2, e2, f2⟩ := updateValues_okN hK1 mr c.D.r (by rw [n1]; exact h7) (by omega)
    have hK2 := VFrame.invN f2 hK1
    have n2 : K2.KKT.nzval.size = K.KKT.nzval.size := by rw [f2.nnz, n1]
    obtain ⟨K3, e3, f3⟩ := updateValues_okN hK2 mpp c.D.p (by rw [n2]; exact h5) (by omega)
    have hK3 := VFrame.invN f3 hK2
    have n3 : K3.KKT.nzval.size = K.KKT.nzval.size := by rw [f3.nnz, n2]
    obtain ⟨K4, e4, f4⟩ := scaleValues_okN hK3 mq (-(sqrt c.mu)) (by rw [n3]; exact h6)
    have hK4 := VFrame.invN f4 hK3
    have n4 : K4.KKT.nzval.size = K.KKT.nzval.size := by rw [f4.nnz, n3]
    obtain ⟨K5, e5, f5⟩ := scaleValues_okN hK4 mr (-(sqrt c.mu)) (by rw [n4]; exact h7)
    have hK5 := VFrame.invN f5 hK4
    have n5 : K5.KKT.nzval.size = K.KKT.nzval.size := by rw [f5.nnz, n4]
    obtain ⟨K6, e6, f6⟩ := scaleValues_okN hK5 mpp (-(sqrt c.mu)) (by rw [n5]; exact h5)
    have hK6 := VFrame.invN f6 hK5
    have n6 : K6.KKT.nzval.size = K.KKT.nzval.size := by rw [f6.nnz, n5]
    obtain ⟨K7, e7, f7⟩ := updateValues_okN hK6 mD #[-1, -1, 1] (by rw [n6]; exact h8)
      (by rw [h4]; rfl)
    refine ⟨K7, ?_, f1.trans (f2.trans (f3.trans (f4.trans (f5.trans (f6.trans f7)))))⟩
    simp only [updateSparseGenpow, e1, e2, e3, e4, e5, e6, bind, Except.bind]
    exact e7

/-- the body of the loop over the cones in `update` (`kktSolverUpdate`) -/
def sparseStepN (st : KktSolver α × Nat) (c : ConeSt α) : MErr (KktSolver α × Nat) :=
  match c with
  | .sym (.soc sc) =>
    if sc.sparse.isSome then do
      let thismap ← getE st.1.map.sparse_maps st.2 "sparse_map_iter.next().unwrap()"
      let K ← st.1.updateSparseSoc thismap sc
      pure (K, st.2 + 1)
    else pure st
  | .genpow _ _ _ gc => do
    let thismap ← getE st.1.map.sparse_maps st.2 "sparse_map_iter.next().unwrap()"
    let K ← updateSparseGenpow st.1 thismap gc
    pure (K, st.2 + 1)
  | _ => pure st

/-- [S] the loop over the cones (with the sparse-map counter) is total: sparse second-order and
generalised power cones consume one expansion map each, all other cones none -/
theorem sparseFold_okN (K0 : KktSolver α) (hK0 : KktInvWN specs n m K0) :
    ∀ (cones : List (ConeSt α)) (K : KktSolver α) (c : Nat), VFrame K0 K → ConesFull cones →
      List.Forall₂ (SparseMapOKN K0.KKT.nzval.size) (K0.map.sparse_maps.toList.drop c)
        ((cones.map ConeSt.kktSpec).filterMap Kkt.expansionMap) →
      ∃ r, cones.foldlM sparseStepN (K, c) = .ok r ∧ VFrame K0 r.1 := by
  intro cones
  induction cones with
  | nil => intro K c hf _ _; exact ⟨(K, c), rfl, hf⟩
  | cons cn rest ih =>
    intro K c hf hfull hmaps
    have hrest := hfull.tail
    have hcn := hfull.head
    rw [List.foldlM_cons]
    cases cn with
    | exp Ke =>
      have : sparseStepN (K, c) (ConeSt.exp Ke) = .ok (K, c) := rfl
      rw [this]
      simp only [List.map_cons, List.filterMap_cons, ConeSt.kktSpec, Kkt.expansionMap] at hmaps
      exact ih K c hf hrest hmaps
    | pow al Kp =>
      have : sparseStepN (K, c) (ConeSt.pow al Kp) = .ok (K, c) := rfl
      rw [this]
      simp only [List.map_cons, List.filterMap_cons, ConeSt.kktSpec, Kkt.expansionMap] at hmaps
      exact ih K c hf hrest hmaps
    | genpow al d2 ψ gc =>
      obtain ⟨_, hp, hq, hr, _, _⟩ := hcn
      have hm' : List.Forall₂ (SparseMapOKN K0.KKT.nzval.size) (K0.map.sparse_maps.toList.drop c)
          (Kkt.SparseMap.genpow (Array.replicate (al.size + d2) 0) (Array.replicate al.size 0)
              (Array.replicate d2 0) (Array.replicate 3 0) ::
            ((rest.map ConeSt.kktSpec).filterMap Kkt.expansionMap)) := by
        simp only [List.map_cons, List.filterMap_cons, ConeSt.kktSpec, Kkt.expansionMap] at hmaps
        exact hmaps
      cases hd : K0.map.sparse_maps.toList.drop c with
      | nil => rw [hd] at hm'; cases hm'
      | cons mp tl =>
        rw [hd] at hm'
        cases hm' with
        | cons hmp htl =>
          obtain ⟨hget, hdrop⟩ := drop_cons_inv hd
          have hK := VFrame.invN hf hK0
          obtain ⟨K', hK', fK'⟩ := updateSparseGenpow_okN hK mp al.size d2 (by rw [hf.nnz]; exact hmp) gc
            hp hq hr
          have hg : getE K.map.sparse_maps c "sparse_map_iter.next().unwrap()" = .ok mp := by
            rw [hf.map]
            unfold getE
            rw [← Array.getElem?_toList, hget]; rfl
          have : sparseStepN (K, c) (ConeSt.genpow al d2 ψ gc) = .ok (K', c + 1) := by
            simp only [sparseStepN, hg, hK', bind, Except.bind, pure, Except.pure]
          rw [this]
          exact ih K' (c + 1) (hf.trans fK') hrest (by rw [hdrop]; exact htl)
    | sym cs =>
      cases cs with
      | zero dd =>
        have : sparseStepN (K, c) (ConeSt.sym (.zero dd)) = .ok (K, c) := rfl
        rw [this]
        simp only [List.map_cons, List.filterMap_cons, ConeSt.kktSpec, Solver.ConeSt.kktSpec,
          Kkt.expansionMap] at hmaps
        exact ih K c hf hrest hmaps
      | nonneg Kn =>
        have : sparseStepN (K, c) (ConeSt.sym (.nonneg Kn)) = .ok (K, c) := rfl
        rw [this]
        simp only [List.map_cons, List.filterMap_cons, ConeSt.kktSpec, Solver.ConeSt.kktSpec,
          Kkt.expansionMap] at hmaps
        exact ih K c hf hrest hmaps
      | soc sc =>
        have hcn' : Solver.ConeFull (Solver.ConeSt.soc sc) := hcn
        obtain ⟨_, _, _, hsome, hsz⟩ := hcn'
        cases hsp : sc.sparse with
        | none =>
          have hnot : ¬ sc.dim > Kkt.socNoExpansionMaxSize := by
            rw [hsp] at hsome
            have : decide (sc.dim > Soc.noExpansionMaxSize) = false := by simpa using hsome.symm
            simpa [Soc.noExpansionMaxSize, Kkt.socNoExpansionMaxSize] using this
          have : sparseStepN (K, c) (ConeSt.sym (.soc sc)) = .ok (K, c) := by
            simp only [sparseStepN, hsp, Option.isSome_none, Bool.false_eq_true, ↓reduceIte, pure, Except.pure]
          rw [this]
          simp only [List.map_cons, List.filterMap_cons, ConeSt.kktSpec, Solver.ConeSt.kktSpec,
            Kkt.expansionMap, hnot, ↓reduceIte] at hmaps
          exact ih K c hf hrest hmaps
        | some sp =>
          have hyes : sc.dim > Kkt.socNoExpansionMaxSize := by
            rw [hsp] at hsome
            have : decide (sc.dim > Soc.noExpansionMaxSize) = true := by simpa using hsome.symm
            simpa [Soc.noExpansionMaxSize, Kkt.socNoExpansionMaxSize] using this
          obtain ⟨hu, hv⟩ := hsz sp hsp
          have hm' : List.Forall₂ (SparseMapOKN K0.KKT.nzval.size) (K0.map.sparse_maps.toList.drop c)
              (Kkt.SparseMap.soc (Array.replicate sc.dim 0) (Array.replicate sc.dim 0) (Array.replicate 2 0) ::
                ((rest.map ConeSt.kktSpec).filterMap Kkt.expansionMap)) := by
            simp only [List.map_cons, List.filterMap_cons, ConeSt.kktSpec, Solver.ConeSt.kktSpec,
              Kkt.expansionMap, hyes, ↓reduceIte] at hmaps
            exact hmaps
          cases hd : K0.map.sparse_maps.toList.drop c with
          | nil => rw [hd] at hm'; cases hm'
          | cons mp tl =>
            rw [hd] at hm'
            cases hm' with
            | cons hmp htl =>
              obtain ⟨hget, hdrop⟩ := drop_cons_inv hd
              have hK := VFrame.invN hf hK0
              obtain ⟨K', hK', fK'⟩ := updateSparseSoc_okN hK mp sc.dim (by rw [hf.nnz]; exact hmp) sc sp hsp hu hv
              have hg : getE K.map.sparse_maps c "sparse_map_iter.next().unwrap()" = .ok mp := by
                rw [hf.map]
                unfold getE
                rw [← Array.getElem?_toList, hget]; rfl
              have : sparseStepN (K, c) (ConeSt.sym (.soc sc)) = .ok (K', c + 1) := by
                simp only [sparseStepN, hsp, Option.isSome_some, ↓reduceIte, hg, hK', bind, Except.bind, pure,
                  Except.pure]
              rw [this]
              exact ih K' (c + 1) (hf.trans fK') hrest (by rw [hdrop]; exact htl)

/-- [S] `regularize_and_refactor` is total on `KktInvWN` and establishes `KktInvSN` -/
theorem regularizeAndRefactor_okN {K : KktSolver α} (hK : KktInvWN specs n m K) (st : LinSettings α) :
    ∃ r, K.regularizeAndRefactor st = .ok r ∧ KktInvSN specs n m r.2 := by
  unfold KktSolver.regularizeAndRefactor
  split
  · -- static regularisation
    obtain ⟨r, nzF, hreg, hdks', hshs', hnn⟩ := regularizeAndRestore_ok K.KKT.nzval K.map.diag_full K.dsigns
      st.staticRegConstant st.staticRegProportional hK.diag_lt
    have hdks : r.diagKkt.size = n + m + K.p := by rw [hdks', hK.diag_size]
    have hshs : r.diagShifted.size = n + m + K.p := by rw [hshs', hK.diag_size]
    obtain ⟨F1, hF1, hF1n⟩ := qdldl_updateValues_ok K.ldl K.map.diag_full r.diagShifted
      (by rw [hK.ldl.map_size]; exact hK.diag_lt) hK.ldl.map_lt (by rw [hshs, hK.diag_size])
    obtain ⟨F2, hF2, hF2s⟩ := qdldl_refactor_ok (hF1n.inv hK.ldl)
    have c1 : (K.work1.size != r.diagKkt.size || K.work2.size != r.diagShifted.size) = false := by
      rw [hshs, hdks, hK.work1, hK.work2]; simp
    simp only [hreg, c1, hF1, hF2, unwrapQdldl, bind, Except.bind, Bool.false_eq_true, ↓reduceIte]
    refine ⟨_, rfl, ?_⟩
    have fr : VFrame K { K with KKT := { K.KKT with nzval := r.nzval }, ldl := K.ldl } :=
      ⟨r.nzval, K.ldl, hnn, NzOnly.rfl' _, rfl⟩
    have hW := (VFrame.invN fr hK).set_vecs K.x K.b r.diagKkt r.diagShifted hK.x hK.b hdks hshs r.eps
    exact
      { w :=
          { n_eq := hW.n_eq, m_eq := hW.m_eq, p_eq := hW.p_eq, x := hW.x, b := hW.b, work1 := hW.work1,
            work2 := hW.work2, dsigns := hW.dsigns, hs := hW.hs, hsmap := hW.hsmap,
            hsmap_lt := hW.hsmap_lt, diag_size := hW.diag_size, diag_lt := hW.diag_lt, maps := hW.maps,
            kkt_m := hW.kkt_m, kkt_n := hW.kkt_n, canon := hW.canon
            ldl := by show QInv _ r.nzval.size F2; rw [hnn]; exact hF2s.inv }
        s := by show QInvS _ r.nzval.size F2; rw [hnn]; exact hF2s }
  · obtain ⟨F2, hF2, hF2s⟩ := qdldl_refactor_ok hK.ldl
    simp only [hF2, unwrapQdldl, bind, Except.bind]
    refine ⟨_, rfl, ?_⟩
    exact
      { w :=
          { n_eq := hK.n_eq, m_eq := hK.m_eq, p_eq := hK.p_eq, x := hK.x, b := hK.b, work1 := hK.work1,
            work2 := hK.work2, dsigns := hK.dsigns, hs := hK.hs, hsmap := hK.hsmap,
            hsmap_lt := hK.hsmap_lt, diag_size := hK.diag_size, diag_lt := hK.diag_lt, maps := hK.maps,
            kkt_m := hK.kkt_m, kkt_n := hK.kkt_n, canon := hK.canon, ldl := hF2s.inv }
        s := hF2s }

/-- [S] **`KKTSolver::update` (`kktSolverUpdate`) is total on `KktInvWN` and establishes `KktInvSN`** -/
theorem update_okN
    (hHs : ∀ cones : List (ConeSt α), ConesFull cones →
      OkAnd (getHs cones) (fun hs => hs.size = Kkt.hsblocksLen (cones.map ConeSt.kktSpec)))
    {K : KktSolver α} (hK : KktInvWN specs n m K) (cones : List (ConeSt α)) (hfull : ConesFull cones)
    (hspecs : cones.map ConeSt.kktSpec = specs) (st : LinSettings α) :
    ∃ r, kktSolverUpdate K cones st = .ok r ∧ KktInvSN specs n m r.2 := by
  obtain ⟨hs, hhs, hhss⟩ := hHs cones hfull
  rw [hspecs] at hhss
  have hneg : (Vec.negate hs).size = Kkt.hsblocksLen specs := by
    unfold Vec.negate; simpa using hhss
  have hK0 : KktInvWN specs n m { K with Hsblocks := Vec.negate hs } :=
    { n_eq := hK.n_eq, m_eq := hK.m_eq, p_eq := hK.p_eq, x := hK.x, b := hK.b, work1 := hK.work1,
      work2 := hK.work2, dsigns := hK.dsigns, hs := hneg, hsmap := hK.hsmap,
      hsmap_lt := hK.hsmap_lt, diag_size := hK.diag_size, diag_lt := hK.diag_lt, maps := hK.maps,
      kkt_m := hK.kkt_m, kkt_n := hK.kkt_n, canon := hK.canon, ldl := hK.ldl }
  obtain ⟨K1, hK1e, f1⟩ := updateValues_okN hK0 K.map.Hsblocks (Vec.negate hs) hK.hsmap_lt
    (by rw [hneg, hK.hsmap])
  have hK1 := VFrame.invN f1 hK0
  obtain ⟨r, hr, fr⟩ := sparseFold_okN K1 hK1 cones K1 0 (VFrame.rfl' K1) hfull
    (by rw [hspecs]; exact hK1.maps)
  obtain ⟨r2, hr2, hS⟩ := regularizeAndRefactor_okN (VFrame.invN fr hK1) st
  refine ⟨r2, ?_, hS⟩
  unfold kktSolverUpdate
  have c1 : (hs.size != K.Hsblocks.size) = false := by simp [hhss, hK.hs]
  simp only [hhs, c1, bind, Except.bind, Bool.false_eq_true, ↓reduceIte]
  have hK1e' : KktSolver.updateValues { K with Hsblocks := Vec.negate hs } K.map.Hsblocks (Vec.negate hs)
      = .ok K1 := hK1e
  rw [hK1e']
  dsimp only
  erw [hr]
  exact hr2

/-- [S] **the linear solver object meets the interface the loop of `solve()` needs** (model with
nonsymmetric cones) -/
theorem kktTotalN
    (hHs : ∀ cones : List (ConeSt α), ConesFull cones →
      OkAnd (getHs cones) (fun hs => hs.size = Kkt.hsblocksLen (cones.map ConeSt.kktSpec)))
    (specs : List Kkt.ConeSpec) (n m : Nat) (st : LinSettings α) :
    KktTotal (KktInvWN specs n m) (KktInvSN specs n m) specs n m st where
  update := fun K cones hK hfull hspecs => update_okN hHs hK cones hfull hspecs st
  weaken := fun K hK => hK.w
  solve := fun K rx rz hK hrx hrz => setrhs_solve_okN hK st rx rz hrx hrz

/-
  `kktSolverNew` establishes `KktInvWN`: `kktSolverNew_okN` in `SolverNSNoPanicKktNew.lean`.
-/

end

end Clarabel.SolverNS
