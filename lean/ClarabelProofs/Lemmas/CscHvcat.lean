/-
  Helper lemmas for C16 (round 3): `hvcat` on a general block grid.

  `stackCols` is one column of the result: the same column of every block row, shifted down
  by the heights of the block rows above it.
-/
import ClarabelProofs.Lemmas.CscCat
import ClarabelProofs.Lemmas.CscReduce

namespace Clarabel.Csc
open Clarabel.C16

variable {α : Type}
set_option linter.unusedSectionVars false

/-! ### stacking shifted columns -/

/-- `(height, column)` pairs stacked on top of each other starting at row `off` -/
def stackCols (off : Nat) : List (Nat × List (Nat × α)) → List (Nat × α)
  | [] => []
  | p :: t => shiftRows off p.2 ++ stackCols (off + p.1) t

theorem stackCols_ge (off : Nat) (L : List (Nat × List (Nat × α))) :
    ∀ e ∈ stackCols off L, off ≤ e.1 := by
  induction L generalizing off with
  | nil => intro e he; simp [stackCols] at he
  | cons p t ih =>
    intro e he
    simp only [stackCols, List.mem_append] at he
    rcases he with he | he
    · unfold shiftRows at he
      simp only [List.mem_map] at he
      obtain ⟨e', _, rfl⟩ := he
      simp
    · have := ih (off + p.1) e he
      omega

theorem colOK_stackCols (off : Nat) (L : List (Nat × List (Nat × α)))
    (h : ∀ p ∈ L, ColOK p.1 p.2) :
    ((stackCols off L).map (·.1)).Pairwise (· < ·) ∧
      ∀ e ∈ stackCols off L, e.1 < off + (L.map (·.1)).sum := by
  induction L generalizing off with
  | nil => simp [stackCols]
  | cons p t ih =>
    obtain ⟨ih1, ih2⟩ := ih (off + p.1) (fun q hq => h q (List.mem_cons_of_mem _ hq))
    have hp := colOK_shiftRows p.1 off p.2 (h p (by simp))
    refine ⟨?_, ?_⟩
    · simp only [stackCols, List.map_append, List.pairwise_append]
      refine ⟨hp.1, ih1, ?_⟩
      intro a ha b hb
      simp only [List.mem_map] at ha hb
      obtain ⟨e, he, rfl⟩ := ha
      obtain ⟨f, hf, rfl⟩ := hb
      have h1 := hp.2 e he
      have h2 := stackCols_ge (off + p.1) t f hf
      omega
    · intro e he
      simp only [stackCols, List.mem_append] at he
      simp only [List.map_cons, List.sum_cons]
      rcases he with he | he
      · have := hp.2 e he; omega
      · have := ih2 e he; omega

theorem colVals_stackCols (off : Nat) (L : List (Nat × List (Nat × α)))
    (hb : ∀ p ∈ L, ∀ e ∈ p.2, e.1 < p.1) (r : Nat) (hr : r < L.length) (i : Nat)
    (hi : i < L[r].1) :
    colVals (stackCols off L) (off + ((L.take r).map (·.1)).sum + i) = colVals L[r].2 i := by
  induction L generalizing off r with
  | nil => simp at hr
  | cons p t ih =>
    cases r with
    | zero =>
      simp only [List.getElem_cons_zero] at hi
      simp only [stackCols, List.take_zero, List.map_nil, List.sum_nil, Nat.add_zero,
        colVals_append, colVals_shiftRows, List.getElem_cons_zero]
      rw [if_pos (by omega), Nat.add_sub_cancel_left]
      have : colVals (stackCols (off + p.1) t) (off + i) = [] := by
        apply colVals_eq_nil_of_not_mem
        intro e he
        have := stackCols_ge _ _ e he
        omega
      rw [this, List.append_nil]
    | succ r =>
      simp only [List.getElem_cons_succ] at hi
      simp only [stackCols, List.take_succ_cons, List.map_cons, List.sum_cons, colVals_append,
        List.getElem_cons_succ]
      have h1 : colVals (shiftRows off p.2) (off + (p.1 + ((t.take r).map (·.1)).sum) + i) = [] := by
        apply colVals_eq_nil_of_not_mem
        intro e he
        unfold shiftRows at he
        simp only [List.mem_map] at he
        obtain ⟨e', he', rfl⟩ := he
        have := hb p (by simp) e' he'
        simp only; omega
      rw [h1, List.nil_append]
      have := ih (off + p.1) (fun q hq => hb q (List.mem_cons_of_mem _ hq)) r
        (by simpa using hr) hi
      rw [← this]
      congr 1
      omega

/-! ### row offsets -/

/-- running offsets `off, off + h₀, off + h₀ + h₁, …` -/
def offsFrom (off : Nat) : List Nat → List Nat
  | [] => []
  | h :: t => off :: offsFrom (off + h) t

theorem range_map_offs (hs : List Nat) (off : Nat) :
    (List.range hs.length).map (fun k => off + (hs.take k).sum) = offsFrom off hs := by
  induction hs generalizing off with
  | nil => rfl
  | cons h t ih =>
    rw [List.length_cons, List.range_succ_eq_map, List.map_cons, List.map_map]
    simp only [List.take_zero, List.sum_nil, Nat.add_zero, offsFrom]
    congr 1
    rw [← ih (off + h)]
    apply List.map_congr_left
    intro k _
    simp [Nat.add_assoc]

/-- the head block's row count, `0` for an empty block row (as in `rowOffsets` / `hvcat`) -/
def headM (br : List (Csc α)) : Nat :=
  match br with
  | [] => 0
  | b0 :: _ => b0.m

theorem rowOffsets_eq (mats : List (List (Csc α))) :
    rowOffsets mats = offsFrom 0 (mats.map headM) := by
  rw [← range_map_offs]
  unfold rowOffsets
  simp only [List.length_map, Nat.zero_add, foldl_add_eq_sum]
  rfl

/-- column `c` of block column `k` of the `hvcat` result -/
def hvCol (mats : List (List (Csc α))) (k c : Nat) : List (Nat × α) :=
  ((mats.zip (rowOffsets mats)).map (fun (p : List (Csc α) × Nat) =>
    match p.1[k]? with
    | some b => shiftRows p.2 (b.col c)
    | none => [])).flatten

/-- column `c` of block `k` of a block row (`[]` when the block row is too short) -/
def blockCol (k c : Nat) (br : List (Csc α)) : List (Nat × α) :=
  match br[k]? with
  | some b => b.col c
  | none => []

theorem zip_offs_stack (L : List (List (Csc α))) (off k c : Nat) :
    ((L.zip (offsFrom off (L.map headM))).map (fun (p : List (Csc α) × Nat) =>
      match p.1[k]? with
      | some b => shiftRows p.2 (b.col c)
      | none => [])).flatten =
    stackCols off (L.map (fun br => (headM br, blockCol k c br))) := by
  induction L generalizing off with
  | nil => rfl
  | cons br t ih =>
    simp only [List.map_cons, offsFrom, List.zip_cons_cons, List.flatten_cons, stackCols]
    rw [ih (off + headM br)]
    congr 1
    unfold blockCol
    cases br[k]? with
    | none => simp [shiftRows]
    | some b => rfl

theorem hvCol_eq_stack (mats : List (List (Csc α))) (k c : Nat) :
    hvCol mats k c = stackCols 0 (mats.map (fun br => (headM br, blockCol k c br))) := by
  unfold hvCol
  rw [rowOffsets_eq]
  exact zip_offs_stack mats 0 k c

/-! ### the dimension check -/

/-- a consistent block grid: at least one block row and one block column, all block rows
equally long, equal heights inside every block row, equal widths inside every block
column -/
structure GridOK (mats : List (List (Csc α))) : Prop where
  ne : mats ≠ []
  first_ne : mats.headD [] ≠ []
  rect : ∀ br ∈ mats, br.length = (mats.headD []).length
  heights : ∀ br ∈ mats, ∀ b ∈ br, b.m = headM br
  widths : ∀ br ∈ mats, ∀ k : Nat, (br[k]?).map (fun b : Csc α => b.n) = ((mats.headD [])[k]?).map (fun b : Csc α => b.n)

/-- the per-block-row test of `hvcat_dim_check` -/
def rowHeightBad (br : List (Csc α)) : Bool :=
  match br with
  | [] => false
  | b0 :: bs => bs.any (fun b => b.m != b0.m)

theorem hvcatDimCheck_cons (r0 : List (Csc α)) (rest : List (List (Csc α))) :
    hvcatDimCheck (r0 :: rest) =
      (if r0.isEmpty then false
       else if rest.any (fun br => br.length != r0.length) then false
       else if (r0 :: rest).any rowHeightBad then false
       else if (List.range r0.length).any (fun k =>
          rest.any (fun br => (br[k]?.map (fun b : Csc α => b.n)) != (r0[k]?.map (fun b : Csc α => b.n)))) then false
       else true) := rfl

theorem rowHeightBad_iff (br : List (Csc α)) :
    rowHeightBad br = false ↔ ∀ b ∈ br, b.m = headM br := by
  cases br with
  | nil => simp [rowHeightBad]
  | cons b0 bs =>
    simp only [rowHeightBad, headM, List.any_eq_false, bne_iff_ne, ne_eq, Decidable.not_not,
      List.mem_cons, forall_eq_or_imp, true_and]

theorem hvcatDimCheck_iff (mats : List (List (Csc α))) : hvcatDimCheck mats = true ↔ GridOK mats := by
  cases mats with
  | nil =>
    simp only [hvcatDimCheck, Bool.false_eq_true, false_iff]
    intro h; exact h.ne rfl
  | cons r0 rest =>
    rw [hvcatDimCheck_cons]
    constructor
    · intro h
      split at h
      · cases h
      · rename_i h1
        split at h
        · cases h
        · rename_i h2
          split at h
          · cases h
          · rename_i h3
            split at h
            · cases h
            · rename_i h4
              have h1' : r0 ≠ [] := by simpa using h1
              have h2' : ∀ br ∈ rest, br.length = r0.length := by simpa using h2
              have h3' : ∀ br ∈ r0 :: rest, ∀ b ∈ br, b.m = headM br := by
                intro br hbr
                have h3a := List.any_eq_false.mp ((Bool.not_eq_true _).mp h3) br hbr
                exact (rowHeightBad_iff br).mp ((Bool.not_eq_true _).mp h3a)
              have h4' : ∀ k, k < r0.length → ∀ br ∈ rest,
                  (br[k]?).map (·.n) = (r0[k]?).map (·.n) := by
                have : ((List.range r0.length).any fun k =>
                    rest.any fun br => (br[k]?.map (·.n)) != (r0[k]?.map (·.n))) = false := by
                  simpa using h4
                rw [List.any_eq_false] at this
                intro k hk br hbr
                have h5 := this k (List.mem_range.mpr hk)
                simp only [Bool.not_eq_true, List.any_eq_false, bne_iff_ne, ne_eq,
                  Decidable.not_not] at h5
                exact h5 br hbr
              refine ⟨by simp, by simpa using h1', ?_, h3', ?_⟩
              · intro br hbr
                rcases List.mem_cons.mp hbr with rfl | hbr
                · rfl
                · simpa using h2' br hbr
              · intro br hbr k
                rcases List.mem_cons.mp hbr with rfl | hbr
                · rfl
                · by_cases hk : k < r0.length
                  · simpa using h4' k hk br hbr
                  · have e1 : r0[k]? = none := by simp; omega
                    have e2 : br[k]? = none := by
                      have := h2' br hbr
                      simp; omega
                    simp [e1, e2]
    · intro g
      have h1 : r0.isEmpty = false := by
        have := g.first_ne
        simp only [List.headD_cons] at this
        cases r0 with
        | nil => exact absurd rfl this
        | cons _ _ => rfl
      have h2 : (rest.any fun br => br.length != r0.length) = false := by
        rw [List.any_eq_false]
        intro br hbr
        have := g.rect br (List.mem_cons_of_mem _ hbr)
        simpa using this
      have h4 : ((List.range r0.length).any fun k =>
          rest.any fun br => (br[k]?.map (·.n)) != (r0[k]?.map (·.n))) = false := by
        rw [List.any_eq_false]
        intro k _
        simp only [Bool.not_eq_true, List.any_eq_false, bne_iff_ne, ne_eq, Decidable.not_not]
        intro br hbr
        have := g.widths br (List.mem_cons_of_mem _ hbr) k
        simpa using this
      simp only [h1, h2, h4, Bool.false_eq_true, ↓reduceIte]
      rw [if_neg]
      intro hc
      obtain ⟨br, hbr, hF⟩ := List.any_eq_true.mp hc
      have := (rowHeightBad_iff br).mpr (g.heights br hbr)
      rw [this] at hF
      cases hF

/-! ### the result of `hvcat` -/

/-- width of block column `k` (read off the first block row) -/
def hvWidth (mats : List (List (Csc α))) (k : Nat) : Nat :=
  match (mats.headD [])[k]? with
  | some b => b.n
  | none => 0

/-- the columns of the result, grouped by block column -/
def hvBlocks (mats : List (List (Csc α))) : List (List (List (Nat × α))) :=
  (List.range (mats.headD []).length).map (fun k =>
    (List.range (hvWidth mats k)).map (fun c => hvCol mats k c))

theorem hvcat_cons_eq (r0 : List (Csc α)) (rest : List (List (Csc α))) :
    hvcat (r0 :: rest) =
      if !hvcatDimCheck (r0 :: rest) then .error .incompatibleDimension
      else .ok (ofCols (((r0 :: rest).map headM).foldl (· + ·) 0)
        ((r0.map (fun b : Csc α => b.n)).foldl (· + ·) 0) (hvBlocks (r0 :: rest)).flatten) := rfl

theorem hvcat_error_iff' (mats : List (List (Csc α))) :
    hvcat mats = .error .incompatibleDimension ↔ ¬ GridOK mats := by
  rw [← hvcatDimCheck_iff]
  cases mats with
  | nil => simp [hvcat, hvcatDimCheck]
  | cons r0 rest =>
    rw [hvcat_cons_eq]
    cases hvcatDimCheck (r0 :: rest) <;> simp

theorem hvcat_ok (mats : List (List (Csc α))) (g : GridOK mats) :
    hvcat mats = .ok (ofCols ((mats.map headM).sum)
      (((mats.headD []).map (fun b : Csc α => b.n)).sum) (hvBlocks mats).flatten) := by
  have hd := (hvcatDimCheck_iff mats).mpr g
  cases mats with
  | nil => exact absurd rfl g.ne
  | cons r0 rest =>
    rw [hvcat_cons_eq, hd]
    simp only [Bool.not_true, Bool.false_eq_true, ↓reduceIte, foldl_add_eq_sum, List.headD_cons]

theorem hvWidth_eq (mats : List (List (Csc α))) (k : Nat) (hk : k < (mats.headD []).length) :
    hvWidth mats k = ((mats.headD [])[k]).n := by
  unfold hvWidth
  rw [List.getElem?_eq_getElem hk]

theorem hvBlocks_length (mats : List (List (Csc α))) :
    (hvBlocks mats).length = (mats.headD []).length := by simp [hvBlocks]

theorem hvBlocks_getElem (mats : List (List (Csc α))) (k : Nat) (hk : k < (mats.headD []).length) :
    (hvBlocks mats)[k]'(by rw [hvBlocks_length]; exact hk) =
      (List.range (hvWidth mats k)).map (fun c => hvCol mats k c) := by
  simp [hvBlocks]

theorem hvBlocks_map_length (mats : List (List (Csc α))) :
    (hvBlocks mats).map List.length = (mats.headD []).map (fun b : Csc α => b.n) := by
  apply List.ext_getElem
  · simp [hvBlocks]
  · intro k h1 h2
    have hk : k < (mats.headD []).length := by simpa using h2
    rw [List.getElem_map, hvBlocks_getElem mats k hk, List.getElem_map, ← hvWidth_eq mats k hk]
    simp

/-- in a consistent grid the block `(r, k)` exists, has the row's height and the column's
width -/
theorem GridOK.block (mats : List (List (Csc α))) (g : GridOK mats) (br : List (Csc α))
    (hbr : br ∈ mats) (k : Nat) (hk : k < (mats.headD []).length) :
    ∃ b, br[k]? = some b ∧ b.m = headM br ∧ b.n = hvWidth mats k := by
  have hlen := g.rect br hbr
  have hk' : k < br.length := by omega
  refine ⟨br[k], List.getElem?_eq_getElem hk', g.heights br hbr _ (List.getElem_mem _), ?_⟩
  have := g.widths br hbr k
  rw [List.getElem?_eq_getElem hk', List.getElem?_eq_getElem hk] at this
  simp only [Option.map_some, Option.some.injEq] at this
  rw [hvWidth_eq mats k hk, this]

/-- every column of the result is a canonical column of the total height -/
theorem colOK_hvCol (mats : List (List (Csc α))) (g : GridOK mats)
    (hcan : ∀ br ∈ mats, ∀ b ∈ br, Canonical b) (k c : Nat) (hk : k < (mats.headD []).length)
    (hc : c < hvWidth mats k) :
    ColOK ((mats.map headM).sum) (hvCol mats k c) := by
  rw [hvCol_eq_stack]
  have hall : ∀ p ∈ mats.map (fun br => (headM br, blockCol k c br)), ColOK p.1 p.2 := by
    intro p hp
    simp only [List.mem_map] at hp
    obtain ⟨br, hbr, rfl⟩ := hp
    obtain ⟨b, hb, hm, hn⟩ := g.block mats br hbr k hk
    simp only [blockCol, hb]
    rw [← hm]
    exact colOK_of_canonical (hcan br hbr b (List.mem_of_getElem? hb)) c (by omega)
  obtain ⟨h1, h2⟩ := colOK_stackCols 0 _ hall
  refine ⟨h1, fun e he => ?_⟩
  have := h2 e he
  simpa [List.map_map, Function.comp_def] using this

/-- the values stored at a position of the result are those stored at the corresponding
position of the block that covers it -/
theorem colVals_hvcat (mats : List (List (Csc α))) (g : GridOK mats)
    (hcan : ∀ br ∈ mats, ∀ b ∈ br, Canonical b)
    (r k : Nat) (hr : r < mats.length) (hk : k < mats[r].length) (c i : Nat)
    (hc : c < mats[r][k].n) (hi : i < mats[r][k].m) :
    ∃ (hidx : ((((mats.headD []).map (fun b : Csc α => b.n)).take k).sum + c) <
        (hvBlocks mats).flatten.length),
      colVals ((hvBlocks mats).flatten[(((mats.headD []).map (fun b : Csc α => b.n)).take k).sum + c])
        (((mats.take r).map headM).sum + i) = colVals (mats[r][k].col c) i := by
  have hbr : mats[r] ∈ mats := List.getElem_mem _
  have hk0 : k < (mats.headD []).length := by rw [← g.rect _ hbr]; exact hk
  obtain ⟨b, hb, hm, hn⟩ := g.block mats mats[r] hbr k hk0
  have hbe : b = mats[r][k] := by
    rw [List.getElem?_eq_getElem hk] at hb
    exact (Option.some.inj hb).symm
  subst hbe
  have hk2 : k < (hvBlocks mats).length := by rw [hvBlocks_length]; exact hk0
  have hc2 : c < (hvBlocks mats)[k].length := by
    rw [hvBlocks_getElem mats k hk0]; simp; omega
  have hget := getElem?_flatten_offset (hvBlocks mats) k c hk2 hc2
  rw [List.map_take, hvBlocks_map_length] at hget
  obtain ⟨hidx, hval⟩ := List.getElem?_eq_some_iff.mp hget
  refine ⟨hidx, ?_⟩
  rw [hval]
  simp only [hvBlocks_getElem mats k hk0, List.getElem_map, List.getElem_range]
  rw [hvCol_eq_stack]
  have hbnd : ∀ p ∈ mats.map (fun br => (headM br, blockCol k c br)), ∀ e ∈ p.2, e.1 < p.1 := by
    intro p hp e he
    simp only [List.mem_map] at hp
    obtain ⟨br, hbr', rfl⟩ := hp
    obtain ⟨b', hb', hm', hn'⟩ := g.block mats br hbr' k hk0
    simp only [blockCol, hb'] at he ⊢
    rw [← hm']
    exact (colOK_of_canonical (hcan br hbr' b' (List.mem_of_getElem? hb')) c (by omega)).2 e he
  have hrL : r < (mats.map (fun br => (headM br, blockCol k c br))).length := by simpa using hr
  have hLr : (mats.map (fun br => (headM br, blockCol k c br)))[r] =
      (mats[r][k].m, mats[r][k].col c) := by
    simp only [List.getElem_map, blockCol, List.getElem?_eq_getElem hk, hm]
  have key := colVals_stackCols 0 _ hbnd r hrL i (by rw [hLr]; exact hi)
  rw [hLr, Nat.zero_add, ← List.map_take, List.map_map] at key
  exact key

end Clarabel.Csc
