/-
  THE EXCHANGE LEMMA FOR JUNCTION TREES (abstract graph theory on lists; nothing here depends on the
  model).  Vocabulary of `ChordalJunctionTree.lean`: cliques are indices from a duplicate-free list
  `L`, the family is the membership function `cl c v`, a forest is `ForestFrom [] J`, the
  running-intersection property is `JT.RIP cl L J`.

  * `JT.HLink cl L a b p q` : `p ≠ q` are cliques of `L` that both contain `S = C_a ∩ C_b` and meet
                              in strictly more than `S`;
  * `JT.SepPair cl L a b`   : no chain of such links joins `a` to `b` (the adjacency of the reduced
                              clique graph of Habib–Stacho);
  * `JT.greedy`             : the abstract greedy forest of an edge list (no union-find), with
                              `greedy_forest`, `greedy_sub`, `greedy_heavy`, `greedy_accept`;
  * `JT.conn_filter_inter`  : in a forest, two vertices connected inside `J.filter p` and inside
                              `J.filter q` are connected inside `J.filter (p && q)` (paths in a forest
                              are unique);
  * `JT.sep_not_conn`       : the ends of a separating pair are not connected by the edges of a
                              junction tree that are heavier than `|C_a ∩ C_b|`;
  * `JT.swap_spec`          : **EXCHANGE** — a separating pair is an edge of a junction tree that
                              otherwise only uses edges of a given junction tree.
  All theorems here are class [S].
-/
import ClarabelProofs.Lemmas.ChordalKruskalMax
import ClarabelProofs.Lemmas.ChordalJTContract

namespace Clarabel.Chordal
open Clarabel

namespace JT

/-- `p` and `q` are different cliques of `L` that both contain `S = C_a ∩ C_b` and meet in strictly
more than `S` -/
def HLink (cl : Nat → Nat → Bool) (L : List Nat) (a b p q : Nat) : Prop :=
  p ∈ L ∧ q ∈ L ∧ p ≠ q ∧
  (∀ v, cl a v = true → cl b v = true → cl p v = true ∧ cl q v = true) ∧
  ∃ v, cl p v = true ∧ cl q v = true ∧ ¬ (cl a v = true ∧ cl b v = true)

/-- `(a, b)` is a SEPARATING PAIR: no chain of such links joins `a` to `b` (this is the adjacency of
the reduced clique graph of Habib–Stacho) -/
def SepPair (cl : Nat → Nat → Bool) (L : List Nat) (a b : Nat) : Prop :=
  ¬ Relation.ReflTransGen (HLink cl L a b) a b

/-! ## (X1) the abstract greedy forest -/

open Classical in
/-- the greedy forest of the edge list `es` on top of the edges `pre`: an edge is taken iff its ends
are not yet connected -/
noncomputable def greedy : List (Nat × Nat) → List (Nat × Nat) → List (Nat × Nat)
  | _, [] => []
  | pre, e :: es => if Conn pre e.1 e.2 then greedy pre es else e :: greedy (pre ++ [e]) es

/-- [S] unfolding `greedy`: no edges -/
theorem greedy_nil (pre : List (Nat × Nat)) : greedy pre [] = [] := rfl

/-- [S] unfolding `greedy`: an edge whose ends are already connected is skipped -/
theorem greedy_cons_pos {pre : List (Nat × Nat)} {e : Nat × Nat} (es : List (Nat × Nat))
    (h : Conn pre e.1 e.2) : greedy pre (e :: es) = greedy pre es := by
  simp only [greedy, if_pos h]

/-- [S] unfolding `greedy`: an edge whose ends are not yet connected is taken -/
theorem greedy_cons_neg {pre : List (Nat × Nat)} {e : Nat × Nat} (es : List (Nat × Nat))
    (h : ¬ Conn pre e.1 e.2) : greedy pre (e :: es) = e :: greedy (pre ++ [e]) es := by
  simp only [greedy, if_neg h]

/-- [S] the greedy list is a forest on top of `pre` -/
theorem greedy_forest : ∀ (es pre : List (Nat × Nat)), ForestFrom pre (greedy pre es) := by
  intro es
  induction es with
  | nil => intro pre; trivial
  | cons e es ih =>
    intro pre
    by_cases h : Conn pre e.1 e.2
    · rw [greedy_cons_pos es h]; exact ih pre
    · rw [greedy_cons_neg es h]; exact ⟨h, ih _⟩

/-- [S] the greedy list only uses edges of the given list -/
theorem greedy_sub : ∀ (es pre : List (Nat × Nat)), ∀ e ∈ greedy pre es, e ∈ es := by
  intro es
  induction es with
  | nil => intro pre e he; simp [greedy_nil] at he
  | cons x es ih =>
    intro pre e he
    by_cases h : Conn pre x.1 x.2
    · rw [greedy_cons_pos es h] at he; exact List.mem_cons_of_mem _ (ih pre e he)
    · rw [greedy_cons_neg es h] at he
      rcases List.mem_cons.1 he with rfl | he
      · exact List.mem_cons_self
      · exact List.mem_cons_of_mem _ (ih _ e he)

/-- [S] THE GREEDY INVARIANT: over a list sorted by decreasing weight, every edge is spanned by
`pre` and the accepted edges at least as heavy -/
theorem greedy_heavy (w : Nat × Nat → Nat) : ∀ (es pre : List (Nat × Nat)),
    es.Pairwise (fun x y => w y ≤ w x) → ∀ e ∈ es,
      Conn (pre ++ (greedy pre es).filter (fun m => decide (w e ≤ w m))) e.1 e.2 := by
  intro es
  induction es with
  | nil => intro pre _ e he; simp at he
  | cons x es ih =>
    intro pre hs e he
    obtain ⟨hhead, hs'⟩ := List.pairwise_cons.1 hs
    by_cases h : Conn pre x.1 x.2
    · rw [greedy_cons_pos es h]
      rcases List.mem_cons.1 he with rfl | he
      · exact h.mono (fun m hm => List.mem_append_left _ hm)
      · exact ih pre hs' e he
    · rw [greedy_cons_neg es h]
      rcases List.mem_cons.1 he with rfl | he
      · refine Conn.edge (List.mem_append_right _ ?_)
        exact List.mem_filter.2 ⟨List.mem_cons_self, by simp⟩
      · have hge : w e ≤ w x := hhead e he
        rw [List.filter_cons_of_pos (by simpa using hge)]
        have := ih (pre ++ [x]) hs' e he
        simpa [List.append_assoc] using this

/-- [S] ACCEPTANCE: an edge whose ends are not connected by `pre` and the edges listed before it is
taken by the greedy construction -/
theorem greedy_accept (e : Nat × Nat) (l2 : List (Nat × Nat)) : ∀ (l1 pre : List (Nat × Nat)),
    ¬ Conn (pre ++ l1) e.1 e.2 → e ∈ greedy pre (l1 ++ e :: l2) := by
  intro l1
  induction l1 with
  | nil =>
    intro pre h
    rw [List.append_nil] at h
    rw [List.nil_append, greedy_cons_neg l2 h]
    exact List.mem_cons_self
  | cons x l1 ih =>
    intro pre h
    rw [List.cons_append]
    by_cases hx : Conn pre x.1 x.2
    · rw [greedy_cons_pos _ hx]
      refine ih pre (fun hc => h (hc.mono (fun m hm => ?_)))
      rcases List.mem_append.1 hm with hm | hm
      · exact List.mem_append_left _ hm
      · exact List.mem_append_right _ (List.mem_cons_of_mem _ hm)
    · rw [greedy_cons_neg _ hx]
      refine List.mem_cons_of_mem _ (ih (pre ++ [x]) (fun hc => h ?_))
      simpa [List.append_assoc] using hc

/-! ## paths in a forest are unique: the filter-intersection lemma -/

/-- [S] connectivity in a filtered list after the last edge is split off -/
theorem conn_filter_snoc (p : Nat × Nat → Bool) (K : List (Nat × Nat)) (e : Nat × Nat) {x y : Nat}
    (h : Conn ((K ++ [e]).filter p) x y) :
    Conn (K.filter p) x y ∨ (p e = true ∧
      ((Conn (K.filter p) x e.1 ∧ Conn (K.filter p) e.2 y) ∨
        (Conn (K.filter p) x e.2 ∧ Conn (K.filter p) e.1 y))) := by
  rw [List.filter_append] at h
  by_cases hp : p e = true
  · rw [List.filter_cons_of_pos hp, List.filter_nil] at h
    rcases (conn_snoc _ e.1 e.2 x y).1 h with h | h | h
    · exact .inl h
    · exact .inr ⟨hp, .inl h⟩
    · exact .inr ⟨hp, .inr h⟩
  · rw [List.filter_cons_of_neg hp, List.filter_nil, List.append_nil] at h
    exact .inl h

/-- [S] **PATHS IN A FOREST ARE UNIQUE** (filter form): two vertices connected by the edges of a
forest that pass `p`, and also by those that pass `q`, are connected by those that pass both -/
theorem conn_filter_inter (p q : Nat × Nat → Bool) : ∀ (J : List (Nat × Nat)), ForestFrom [] J →
    ∀ x y, Conn (J.filter p) x y → Conn (J.filter q) x y →
      Conn (J.filter (fun e => p e && q e)) x y := by
  intro J
  induction J using List.reverseRecOn with
  | nil => intro _ x y h _; simpa using h
  | append_singleton K e ih =>
    intro hF x y hp hq
    obtain ⟨hFK, hne⟩ := (forestFrom_snoc K e []).1 hF
    rw [List.nil_append] at hne
    have ih' := ih hFK
    have toK : ∀ (r : Nat × Nat → Bool) {u v : Nat}, Conn (K.filter r) u v → Conn K u v :=
      fun r _ _ h => h.mono (fun m hm => (List.mem_filter.1 hm).1)
    have up : ∀ {u v : Nat}, Conn (K.filter (fun e => p e && q e)) u v →
        Conn ((K ++ [e]).filter (fun e => p e && q e)) u v := by
      intro u v h
      refine h.mono (fun m hm => ?_)
      rw [List.filter_append]
      exact List.mem_append_left _ hm
    have through : p e = true → q e = true →
        Conn ((K ++ [e]).filter (fun e => p e && q e)) e.1 e.2 := by
      intro h1 h2
      refine Conn.edge ?_
      rw [List.filter_append]
      exact List.mem_append_right _ (List.mem_filter.2 ⟨by simp, by simp [h1, h2]⟩)
    rcases conn_filter_snoc p K e hp with hp | ⟨hpe, ⟨hp1, hp2⟩ | ⟨hp1, hp2⟩⟩ <;>
      rcases conn_filter_snoc q K e hq with hq | ⟨hqe, ⟨hq1, hq2⟩ | ⟨hq1, hq2⟩⟩
    · exact up (ih' x y hp hq)
    · exact absurd (((toK q hq1).symm.trans (toK p hp)).trans (toK q hq2).symm) hne
    · exact absurd (((toK q hq2).trans (toK p hp).symm).trans (toK q hq1)) hne
    · exact absurd (((toK p hp1).symm.trans (toK q hq)).trans (toK p hp2).symm) hne
    · exact ((up (ih' _ _ hp1 hq1)).trans (through hpe hqe)).trans (up (ih' _ _ hp2 hq2))
    · exact absurd ((toK p hp1).symm.trans (toK q hq1)) hne
    · exact absurd (((toK p hp2).trans (toK q hq).symm).trans (toK p hp1)) hne
    · exact absurd ((toK q hq1).symm.trans (toK p hp1)) hne
    · exact ((up (ih' _ _ hp1 hq1)).trans (through hpe hqe).symm).trans (up (ih' _ _ hp2 hq2))

/-- [S] the filter-intersection lemma iterated over a list `S` of vertices: if `x`, `y` are connected
inside `J.filter p` and, for every `v ∈ S`, inside `J_v`, they are connected by the edges passing
`p` both of whose ends contain all of `S` -/
theorem conn_filter_all {cl : Nat → Nat → Bool} (p : Nat × Nat → Bool) {J : List (Nat × Nat)}
    (hJ : ForestFrom [] J) {x y : Nat} (hp : Conn (J.filter p) x y) : ∀ (S : List Nat),
    (∀ v ∈ S, Conn (JT.atV cl v J) x y) →
    Conn (J.filter (fun e => p e && S.all (fun v => both cl v e))) x y := by
  intro S
  induction S with
  | nil =>
    intro _
    refine hp.mono (fun m hm => ?_)
    obtain ⟨h1, h2⟩ := List.mem_filter.1 hm
    exact List.mem_filter.2 ⟨h1, by simp [h2]⟩
  | cons v S ih =>
    intro h
    have h1 := ih (fun u hu => h u (List.mem_cons_of_mem _ hu))
    have h2 : Conn (J.filter (both cl v)) x y := h v List.mem_cons_self
    refine (conn_filter_inter _ _ J hJ x y h1 h2).mono (fun m hm => ?_)
    obtain ⟨hm1, hm2⟩ := List.mem_filter.1 hm
    refine List.mem_filter.2 ⟨hm1, ?_⟩
    simp only [Bool.and_eq_true, List.all_cons] at hm2 ⊢
    exact ⟨hm2.1.1, hm2.2, hm2.1.2⟩

/-! ## a separating pair is not joined by the heavier edges of a junction tree -/

/-- [S] the link relation is symmetric -/
theorem HLink.symm {cl : Nat → Nat → Bool} {L : List Nat} {a b p q : Nat}
    (h : HLink cl L a b p q) : HLink cl L a b q p := by
  obtain ⟨h1, h2, h3, h4, v, h5, h6, h7⟩ := h
  exact ⟨h2, h1, fun hc => h3 hc.symm, fun v hav hbv => ⟨(h4 v hav hbv).2, (h4 v hav hbv).1⟩,
    v, h6, h5, h7⟩

/-- [S] a chain of a symmetric relation can be reversed -/
theorem rtg_symm {r : Nat → Nat → Prop} (hs : ∀ u v, r u v → r v u) {x y : Nat}
    (h : Relation.ReflTransGen r x y) : Relation.ReflTransGen r y x := by
  induction h with
  | refl => exact .refl
  | tail _ hbc ih => exact Relation.ReflTransGen.head (hs _ _ hbc) ih

/-- [S] connectivity by edges that all satisfy a symmetric relation is a chain of that relation -/
theorem conn_to_rtg {r : Nat → Nat → Prop} (hs : ∀ u v, r u v → r v u) {l : List (Nat × Nat)}
    (hr : ∀ e ∈ l, r e.1 e.2) {x y : Nat} (h : Conn l x y) : Relation.ReflTransGen r x y := by
  induction h with
  | rel a b hab => exact .single (hr (a, b) hab)
  | refl _ => exact .refl
  | symm _ _ _ ih => exact rtg_symm hs ih
  | trans _ _ _ _ _ ih1 ih2 => exact ih1.trans ih2

/-- [S] a forest has no loops -/
theorem forest_no_loop : ∀ (J pre : List (Nat × Nat)), ForestFrom pre J → ∀ e ∈ J, e.1 ≠ e.2 := by
  intro J
  induction J with
  | nil => intro _ _ e he; simp at he
  | cons x J ih =>
    intro pre hF e he
    obtain ⟨h0, hF'⟩ := hF
    rcases List.mem_cons.1 he with rfl | he
    · intro hc; apply h0; rw [hc]; exact Conn.refl _ _
    · exact ih _ hF' e he

/-- [S] monotonicity of the length of a filtered list -/
theorem length_filter_mono {β : Type} (p q : β → Bool) (l : List β)
    (h : ∀ x ∈ l, p x = true → q x = true) : (l.filter p).length ≤ (l.filter q).length := by
  rw [length_filter_eq_sum, length_filter_eq_sum]
  refine sum_map_le _ _ _ (fun x hx => ?_)
  by_cases hp : p x = true
  · simp [hp, h x hx hp]
  · simp only [hp, Bool.false_eq_true, if_false]; omega

/-- [S] THE ENDS OF A SEPARATING PAIR ARE NOT CONNECTED BY THE EDGES OF A JUNCTION TREE THAT WEIGH
MORE THAN `|C_a ∩ C_b|` -/
theorem sep_not_conn {cl : Nat → Nat → Bool} {L : List Nat} (nv : Nat)
    (hnv : ∀ c ∈ L, ∀ v, cl c v = true → v < nv) {J : List (Nat × Nat)}
    (hJ : ForestFrom [] J) (hJL : ∀ e ∈ J, e.1 ∈ L ∧ e.2 ∈ L) (hrip : RIP cl L J)
    {a b : Nat} (ha : a ∈ L) (hb : b ∈ L) (hsep : SepPair cl L a b) :
    ¬ Conn (J.filter (fun e => decide (w cl nv (a, b) < w cl nv e))) a b := by
  intro hc
  apply hsep
  have hS : ∀ v ∈ (List.range nv).filter (fun v => both cl v (a, b)),
      Conn (JT.atV cl v J) a b := by
    intro v hv
    have hv2 := (List.mem_filter.1 hv).2
    simp only [both, Bool.and_eq_true] at hv2
    exact hrip v a ha b hb hv2.1 hv2.2
  have hall := conn_filter_all (cl := cl) _ hJ hc _ hS
  refine conn_to_rtg (fun u v h => HLink.symm h) (fun e he => ?_) hall
  obtain ⟨heJ, he2⟩ := List.mem_filter.1 he
  simp only [Bool.and_eq_true, decide_eq_true_eq, List.all_eq_true] at he2
  obtain ⟨hw, hin⟩ := he2
  have hcont : ∀ v, cl a v = true → cl b v = true → cl e.1 v = true ∧ cl e.2 v = true := by
    intro v hav hbv
    have hvS : v ∈ (List.range nv).filter (fun v => both cl v (a, b)) :=
      List.mem_filter.2 ⟨List.mem_range.2 (hnv a ha v hav), by simp [both, hav, hbv]⟩
    have := hin v hvS
    simpa [both] using this
  refine ⟨(hJL e heJ).1, (hJL e heJ).2, forest_no_loop J [] hJ e heJ, hcont, ?_⟩
  by_contra hno
  have hle : w cl nv e ≤ w cl nv (a, b) := by
    refine length_filter_mono _ _ _ (fun v _ hv => ?_)
    simp only [both, Bool.and_eq_true] at hv ⊢
    by_contra hn
    exact hno ⟨v, hv.1, hv.2, hn⟩
  omega

/-! ## (X2) sorting by decreasing weight -/

/-- an edge list sorted by decreasing weight -/
def sortW (w : Nat × Nat → Nat) (l : List (Nat × Nat)) : List (Nat × Nat) :=
  l.mergeSort (fun x y => decide (w y ≤ w x))

/-- [S] sorting keeps the members -/
theorem mem_sortW (w : Nat × Nat → Nat) (l : List (Nat × Nat)) (e : Nat × Nat) :
    e ∈ sortW w l ↔ e ∈ l := List.mem_mergeSort

/-- [S] `sortW` sorts by decreasing weight -/
theorem sortW_sorted (w : Nat × Nat → Nat) (l : List (Nat × Nat)) :
    (sortW w l).Pairwise (fun x y => w y ≤ w x) := by
  have := List.pairwise_mergeSort (le := fun x y : Nat × Nat => decide (w y ≤ w x))
    (fun a b c hab hbc => by simp only [decide_eq_true_eq] at *; omega)
    (fun a b => by simp only [Bool.or_eq_true, decide_eq_true_eq]; omega) l
  unfold sortW
  simpa using this

/-! ## (X3), (X4) the exchange -/

/-- [S] **EXCHANGE**: a separating pair is an edge of some junction tree; more precisely of one that
uses only `(a, b)` and edges of a given junction tree `J` -/
theorem swap_spec {cl : Nat → Nat → Bool} {L : List Nat} (hL : L.Nodup) (nv : Nat)
    (hnv : ∀ c ∈ L, ∀ v, cl c v = true → v < nv) {J : List (Nat × Nat)}
    (hJ : ForestFrom [] J) (hJL : ∀ e ∈ J, e.1 ∈ L ∧ e.2 ∈ L) (hrip : RIP cl L J)
    {a b : Nat} (ha : a ∈ L) (hb : b ∈ L) (hab : a ≠ b) (hsep : SepPair cl L a b) :
    ∃ J', ForestFrom [] J' ∧ (∀ e ∈ J', e ∈ J ∨ e = (a, b)) ∧ RIP cl L J' ∧ (a, b) ∈ J' := by
  have _ := hab  -- (implied by `hsep`; kept in the signature)
  -- the listing: heavier edges of `J`, then `(a, b)`, then the other edges of `J`
  have hes : ∃ l1 l2 : List (Nat × Nat),
      (l1 ++ (a, b) :: l2).Pairwise (fun x y => w cl nv y ≤ w cl nv x) ∧
      (∀ e, e ∈ l1 ++ (a, b) :: l2 ↔ (e ∈ J ∨ e = (a, b))) ∧
      (∀ e ∈ l1, e ∈ J.filter (fun e => decide (w cl nv (a, b) < w cl nv e))) := by
    refine ⟨sortW (w cl nv) (J.filter (fun e => decide (w cl nv (a, b) < w cl nv e))),
      sortW (w cl nv) (J.filter (fun e => decide (w cl nv e ≤ w cl nv (a, b)))), ?_, ?_, ?_⟩
    · rw [List.pairwise_append]
      refine ⟨sortW_sorted _ _, List.pairwise_cons.2 ⟨fun y hy => ?_, sortW_sorted _ _⟩,
        fun x hx y hy => ?_⟩
      · have := (List.mem_filter.1 ((mem_sortW _ _ _).1 hy)).2
        simpa using this
      · have hx' := (List.mem_filter.1 ((mem_sortW _ _ _).1 hx)).2
        simp only [decide_eq_true_eq] at hx'
        rcases List.mem_cons.1 hy with rfl | hy
        · omega
        · have hy' := (List.mem_filter.1 ((mem_sortW _ _ _).1 hy)).2
          simp only [decide_eq_true_eq] at hy'
          omega
    · intro e
      simp only [List.mem_append, List.mem_cons, mem_sortW, List.mem_filter, decide_eq_true_eq]
      constructor
      · rintro (⟨h, _⟩ | rfl | ⟨h, _⟩)
        · exact .inl h
        · exact .inr rfl
        · exact .inl h
      · rintro (h | rfl)
        · by_cases hk : w cl nv (a, b) < w cl nv e
          · exact .inl ⟨h, hk⟩
          · exact .inr (.inr ⟨h, by omega⟩)
        · exact .inr (.inl rfl)
    · intro e he
      exact (mem_sortW _ _ _).1 he
  obtain ⟨l1, l2, hsorted, hmem, hl1⟩ := hes
  -- the greedy forest of the listing
  have hTf : ForestFrom [] (greedy [] (l1 ++ (a, b) :: l2)) := greedy_forest _ _
  have hTsub : ∀ e ∈ greedy [] (l1 ++ (a, b) :: l2), e ∈ J ∨ e = (a, b) :=
    fun e he => (hmem e).1 (greedy_sub _ _ e he)
  have hTL : ∀ e ∈ greedy [] (l1 ++ (a, b) :: l2), e.1 ∈ L ∧ e.2 ∈ L := by
    intro e he
    rcases hTsub e he with h | rfl
    · exact hJL e h
    · exact ⟨ha, hb⟩
  have hheavy : Heavy (w cl nv) J (greedy [] (l1 ++ (a, b) :: l2)) := by
    intro e he
    have := greedy_heavy (w cl nv) _ [] hsorted e ((hmem e).2 (.inl he))
    simpa using this
  have hge : weight cl nv J ≤ weight cl nv (greedy [] (l1 ++ (a, b) :: l2)) :=
    greedy_max hL (w cl nv) hTf hTL hJ hJL hheavy
  refine ⟨_, hTf, hTsub, rip_of_weight_ge hL nv hnv hJ hJL hrip hTf hTL hge, ?_⟩
  -- `(a, b)` is accepted
  refine greedy_accept (a, b) l2 l1 [] (fun hc => ?_)
  rw [List.nil_append] at hc
  exact sep_not_conn nv hnv hJ hJL hrip ha hb hsep (hc.mono hl1)

/-! ## non-vacuity: three cliques `{0,1}`, `{0,2}`, `{0,3}` through a common vertex -/

namespace Ex

/-- the cliques `C_c = {0, c + 1}` -/
def star : Nat → Nat → Bool := fun c v => (v == 0) || (v == c + 1)

/-- the junction tree `1 — 0`, `2 — 0` -/
def Jstar : List (Nat × Nat) := [(1, 0), (2, 0)]

/-- [S] the star tree is a forest -/
theorem Jstar_forest : ForestFrom [] Jstar := by
  refine ⟨?_, ?_, trivial⟩
  · intro h; have := (conn_nil_iff _ _).1 h; omega
  · intro h
    have := conn_label (fun x => if x = 2 then 1 else 0) (l := [] ++ [(1, 0)])
      (by intro e he; simp at he; subst he; rfl) h
    simp at this

/-- [S] two different cliques of the star only share the vertex `0` -/
theorem star_common {p q v : Nat} (hpq : p ≠ q) (hp : star p v = true) (hq : star q v = true) :
    v = 0 := by
  simp only [star, Bool.or_eq_true, beq_iff_eq] at hp hq
  omega

/-- [S] the star tree has the running-intersection property -/
theorem Jstar_rip : RIP star [0, 1, 2] Jstar := by
  intro v a ha b hb hav hbv
  by_cases hab : a = b
  · subst hab; exact Conn.refl _ _
  · have hv := star_common hab hav hbv
    subst hv
    have e : JT.atV star 0 Jstar = Jstar := by decide
    rw [e]
    have h0 : ∀ u ∈ [0, 1, 2], Conn Jstar u 0 := by
      intro u hu
      simp only [List.mem_cons, List.not_mem_nil, or_false] at hu
      rcases hu with rfl | rfl | rfl
      · exact Conn.refl _ _
      · exact Conn.edge (by decide)
      · exact Conn.edge (by decide)
    exact (h0 a ha).trans (h0 b hb).symm

/-- [S] no two different cliques of the star meet in more than `{0} = C_2 ∩ C_1`: there is no link -/
theorem star_no_link (p q : Nat) : ¬ HLink star [0, 1, 2] 2 1 p q := by
  rintro ⟨_, _, hpq, _, v, hp, hq, hno⟩
  have hv := star_common hpq hp hq
  subst hv
  exact hno (by decide)

/-- [S] `(2, 1)` is a separating pair of the star -/
theorem star_sep : SepPair star [0, 1, 2] 2 1 := by
  intro h
  rcases Relation.ReflTransGen.cases_head h with h | ⟨c, h, _⟩
  · omega
  · exact star_no_link _ _ h

/-- non-vacuity of `swap_spec`: the pair `(2, 1)` is NOT an edge of the junction tree
`[(1, 0), (2, 0)]`; there is a junction tree through it that otherwise uses edges of that tree -/
example : (2, 1) ∉ Jstar ∧ ∃ J', ForestFrom [] J' ∧ (∀ e ∈ J', e ∈ Jstar ∨ e = (2, 1)) ∧
    RIP star [0, 1, 2] J' ∧ (2, 1) ∈ J' := by
  refine ⟨by decide, swap_spec (by decide) 4 ?_ Jstar_forest (by decide) Jstar_rip (by decide)
    (by decide) (by decide) star_sep⟩
  intro c hc v hv
  simp only [List.mem_cons, List.not_mem_nil, or_false] at hc
  simp only [star, Bool.or_eq_true, beq_iff_eq] at hv
  omega

end Ex

end JT

end Clarabel.Chordal
