/-
  Link between the KKT assembly `Kkt.kktAssembleFill` (≈10 different `fill_*` calls, each with
  its own index map) and the fill engine `Csc.placeAll`: as far as the MATRIX is concerned
  (colptr counters, rowval, nzval) the whole assembly is ONE run of the engine over
  `Kkt.kktSchedule`.
-/
import ClarabelModel.Kkt
import ClarabelProofs.Lemmas.KktSchedule
import ClarabelProofs.Lemmas.KktPlace

namespace Clarabel.Lemmas.KktFillLink
open Clarabel Clarabel.Csc Clarabel.Kkt Clarabel.Lemmas.KktPlace

variable {α : Type}

-- ------------------------------------------------------------------ 0. small tools

theorem bind_ok {ε β γ : Type} {x : Except ε β} {f : β → Except ε γ} {c : γ}
    (h : (x >>= f) = .ok c) : ∃ b, x = .ok b ∧ f b = .ok c := by
  cases x with
  | error e => cases h
  | ok b => exact ⟨b, rfl, h⟩

theorem pure_ok {ε β : Type} {a b : β} (h : (pure a : Except ε β) = .ok b) : a = b := by
  cases h; rfl

theorem cnt_append (c : Nat) (l1 l2 : List (Entry α)) : cnt c (l1 ++ l2) = cnt c l1 + cnt c l2 := by
  unfold cnt
  rw [List.countP_append]

theorem cnt_nil (c : Nat) : cnt c ([] : List (Entry α)) = 0 := rfl

theorem regular_append {l1 l2 : List (Entry α)} (h1 : Regular l1) (h2 : Regular l2) :
    Regular (l1 ++ l2) := by
  intro e he
  rcases List.mem_append.mp he with h | h
  · exact h1 e h
  · exact h2 e h

theorem regular_nil : Regular ([] : List (Entry α)) := by
  intro e he; cases he

-- ------------------------------------------------------------------ 1. matrix-only spec

/-- What a run of the fill engine over the schedule `l` does to the matrix (the index-map
component of `PlaceSpec` is forgotten). -/
structure KSpec (K K' : Csc α) (l : List (Entry α)) : Prop where
  m_eq : K'.m = K.m
  n_eq : K'.n = K.n
  colptr_size : K'.colptr.size = K.colptr.size
  rowval_size : K'.rowval.size = K.rowval.size
  nzval_size : K'.nzval.size = K.nzval.size
  colptr_get : ∀ c, K'.colptr[c]? = (K.colptr[c]?).map (· + cnt c l)
  written : ∀ i e, l[i]? = some e → ∃ d, destOf K.colptr l i = some d ∧
      K'.rowval[d]? = some e.row ∧ K'.nzval[d]? = some e.val
  untouched : ∀ pos, (∀ i, destOf K.colptr l i ≠ some pos) →
      K'.rowval[pos]? = K.rowval[pos]? ∧ K'.nzval[pos]? = K.nzval[pos]?

theorem KSpec.of_placeSpec {K K' : Csc α} {m m' : Array Nat} {l : List (Entry α)}
    (S : PlaceSpec (K, m) (K', m') l) : KSpec K K' l :=
  ⟨S.m_eq, S.n_eq, S.colptr_size, S.rowval_size, S.nzval_size, S.colptr_get, S.written, S.untouched⟩

theorem KSpec.nil (K : Csc α) : KSpec K K [] :=
  KSpec.of_placeSpec (placeSpec_nil (K, #[]))

/-- one `placeAll` call -/
theorem placeAll_kspec {K K' : Csc α} {m m' : Array Nat} {l : List (Entry α)}
    (hreg : Regular l) (hdis : RangesDisjoint K.colptr l)
    (h : placeAll K m l = .ok (K', m')) : KSpec K K' l ∧ m'.size = m.size := by
  have S := placeAll_spec l (K, m) (K', m') hreg hdis h
  exact ⟨KSpec.of_placeSpec S, S.map_size⟩

-- ------------------------------------------------------------------ 2. disjointness of sub-schedules

theorem rangesDisjoint_left {ptr : Array Nat} {l1 l2 : List (Entry α)}
    (h : RangesDisjoint ptr (l1 ++ l2)) : RangesDisjoint ptr l1 := by
  intro c c' p p' a b hne hp hp' ha hb
  exact h c c' p p' a b hne hp hp' (by rw [cnt_append]; omega) (by rw [cnt_append]; omega)

theorem rangesDisjoint_right {ptr ptr1 : Array Nat} {l1 l2 : List (Entry α)}
    (hptr : ∀ c, ptr1[c]? = (ptr[c]?).map (· + cnt c l1))
    (h : RangesDisjoint ptr (l1 ++ l2)) : RangesDisjoint ptr1 l2 := by
  intro c c' p p' a b hne hp hp' ha hb
  rw [hptr] at hp hp'
  cases hq : ptr[c]? with
  | none => simp [hq] at hp
  | some q =>
    cases hq' : ptr[c']? with
    | none => simp [hq'] at hp'
    | some q' =>
      simp only [hq, hq', Option.map_some, Option.some.injEq] at hp hp'
      have := h c c' q q' (cnt c l1 + a) (cnt c' l1 + b) hne hq hq'
        (by rw [cnt_append]; omega) (by rw [cnt_append]; omega)
      omega

theorem rangesDisjoint_nil (ptr : Array Nat) : RangesDisjoint ptr ([] : List (Entry α)) := by
  intro c c' p p' a b _ _ _ ha _
  simp [cnt] at ha

-- ------------------------------------------------------------------ 3. sequential composition

theorem destOf_append_left (ptr : Array Nat) (l1 l2 : List (Entry α)) (i : Nat)
    (hi : i < l1.length) : destOf ptr (l1 ++ l2) i = destOf ptr l1 i := by
  unfold destOf
  rw [List.getElem?_append_left hi, List.take_append_of_le_length (Nat.le_of_lt hi)]

theorem destOf_none_of_le (ptr : Array Nat) (l : List (Entry α)) (i : Nat)
    (hi : l.length ≤ i) : destOf ptr l i = none := by
  unfold destOf
  rw [List.getElem?_eq_none hi]
  rfl

theorem destOf_append_right {ptr ptr1 : Array Nat} (l1 l2 : List (Entry α)) (i : Nat)
    (hptr : ∀ c, ptr1[c]? = (ptr[c]?).map (· + cnt c l1)) :
    destOf ptr (l1 ++ l2) (l1.length + i) = destOf ptr1 l2 i := by
  unfold destOf
  rw [List.getElem?_append_right (Nat.le_add_right _ _), Nat.add_sub_cancel_left,
    List.take_length_add_append]
  cases l2[i]? with
  | none => rfl
  | some e =>
    simp only [Option.bind_some, hptr, cnt_append]
    cases ptr[e.readCol]? with
    | none => rfl
    | some p => simp [Nat.add_assoc]

theorem KSpec.append {K K1 K2 : Csc α} {l1 l2 : List (Entry α)}
    (S1 : KSpec K K1 l1) (S2 : KSpec K1 K2 l2) (hdis : RangesDisjoint K.colptr (l1 ++ l2)) :
    KSpec K K2 (l1 ++ l2) := by
  have hR := fun i => destOf_append_right (ptr := K.colptr) (ptr1 := K1.colptr) l1 l2 i S1.colptr_get
  refine ⟨?_, ?_, ?_, ?_, ?_, ?_, ?_, ?_⟩
  · rw [S2.m_eq, S1.m_eq]
  · rw [S2.n_eq, S1.n_eq]
  · rw [S2.colptr_size, S1.colptr_size]
  · rw [S2.rowval_size, S1.rowval_size]
  · rw [S2.nzval_size, S1.nzval_size]
  · intro c
    rw [S2.colptr_get, S1.colptr_get, cnt_append]
    cases K.colptr[c]? with
    | none => rfl
    | some p => simp [Nat.add_assoc]
  · intro i e he
    by_cases hi : i < l1.length
    · rw [List.getElem?_append_left hi] at he
      obtain ⟨d, hd, hr, hn⟩ := S1.written i e he
      have hd' : destOf K.colptr (l1 ++ l2) i = some d := by
        rw [destOf_append_left _ _ _ _ hi]; exact hd
      have hne : ∀ j, destOf K1.colptr l2 j ≠ some d := by
        intro j
        rw [← hR j]
        exact destOf_lt_ne K.colptr (l1 ++ l2) hdis i (l1.length + j) d (by omega) hd'
      obtain ⟨h1, h2⟩ := S2.untouched d hne
      exact ⟨d, hd', by rw [h1]; exact hr, by rw [h2]; exact hn⟩
    · have hle : l1.length ≤ i := Nat.le_of_not_lt hi
      obtain ⟨j, rfl⟩ : ∃ j, i = l1.length + j := ⟨i - l1.length, by omega⟩
      rw [List.getElem?_append_right (Nat.le_add_right _ _), Nat.add_sub_cancel_left] at he
      obtain ⟨d, hd, hr, hn⟩ := S2.written j e he
      exact ⟨d, by rw [hR j]; exact hd, hr, hn⟩
  · intro pos hpos
    have h1 : ∀ i, destOf K.colptr l1 i ≠ some pos := by
      intro i
      by_cases hi : i < l1.length
      · rw [← destOf_append_left _ _ l2 _ hi]; exact hpos i
      · rw [destOf_none_of_le _ _ _ (Nat.le_of_not_lt hi)]; simp
    have h2 : ∀ j, destOf K1.colptr l2 j ≠ some pos := by
      intro j; rw [← hR j]; exact hpos _
    obtain ⟨a1, a2⟩ := S1.untouched pos h1
    obtain ⟨b1, b2⟩ := S2.untouched pos h2
    exact ⟨by rw [b1, a1], by rw [b2, a2]⟩

/-- sequential composition of two local specifications: the disjointness hypothesis of the
second one (on the counters *after* the first run) is discharged from the hypothesis on the
concatenation. -/
theorem KSpec.seq {K K1 K2 : Csc α} {l1 l2 : List (Entry α)}
    (hdis : RangesDisjoint K.colptr (l1 ++ l2))
    (h1 : RangesDisjoint K.colptr l1 → KSpec K K1 l1)
    (h2 : RangesDisjoint K1.colptr l2 → KSpec K1 K2 l2) : KSpec K K2 (l1 ++ l2) := by
  have S1 := h1 (rangesDisjoint_left hdis)
  have S2 := h2 (rangesDisjoint_right S1.colptr_get hdis)
  exact S1.append S2 hdis

end Clarabel.Lemmas.KktFillLink
