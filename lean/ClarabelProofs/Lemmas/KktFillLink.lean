/-
  Link between the KKT assembly `Kkt.kktAssembleFill` (about ten different `fill_*` calls, each
  with its own index map) and the fill engine `Csc.placeAll`: as far as the MATRIX is concerned
  (colptr counters, rowval, nzval) the whole assembly is ONE run of the engine over
  `Kkt.kktSchedule`.

  * `KSpec K K' l` : matrix-only projection of `KktPlace.PlaceSpec`; `KSpec.append`/`KSpec.seq`
    compose two runs (`rangesDisjoint_left/right` split the disjointness hypothesis);
  * `blockSchedule_regular`, `missingDiagSchedule_regular`, `fill*_kspec` : every fill call;
  * `fillSparsecone_kspec` : `csc_fill_sparsecone` runs `sparseSchedule`, provided the expansion
    map fits the cone (`MapFits`: kind and index-vector lengths; `mapFits_expansionMap`);
  * `coneStep_spec`, `conesFold_kspec` : the loop over the cones runs `conesSchedule`
    (`triples_rng`: the zipped range starts are consecutive);
  * `kktAssembleFill_spec` : the main theorem, under `MapsFit cones map.sparse_maps.toList`;
    `kktAssembleFill_spec_new` : the same for `map = LDLDataMap.new P A cones` (no hypothesis).

  Scalar type: only `[OfNat α 0]`; no arithmetic law is used (the statements hold for `Float`).
-/
import ClarabelModel.Kkt
import ClarabelProofs.Lemmas.KktSchedule
import ClarabelProofs.Lemmas.KktPlace

namespace Clarabel.Lemmas.KktFillLink
open Clarabel Clarabel.Csc Clarabel.Kkt Clarabel.Lemmas.KktPlace

variable {α : Type}

-- ------------------------------------------------------------------ 0. small tools

theorem bind_ok {ε β γ : Type} {x : Except ε β} {f : β → Except ε γ} {c : γ}
    (h : (x >>= f) = .ok c) : ∃ b, x = .ok b ∧ f b = .ok c := by
  cases x with
  | error e => cases h
  | ok b => exact ⟨b, rfl, h⟩

theorem pure_ok {ε β : Type} {a b : β} (h : (pure a : Except ε β) = .ok b) : a = b := by
  cases h; rfl

theorem cnt_append (c : Nat) (l1 l2 : List (Entry α)) : cnt c (l1 ++ l2) = cnt c l1 + cnt c l2 := by
  unfold cnt
  rw [List.countP_append]

theorem cnt_nil (c : Nat) : cnt c ([] : List (Entry α)) = 0 := rfl

theorem regular_append {l1 l2 : List (Entry α)} (h1 : Regular l1) (h2 : Regular l2) :
    Regular (l1 ++ l2) := by
  intro e he
  rcases List.mem_append.mp he with h | h
  · exact h1 e h
  · exact h2 e h

theorem regular_nil : Regular ([] : List (Entry α)) := by
  intro e he; cases he

-- ------------------------------------------------------------------ 1. matrix-only spec

/-- What a run of the fill engine over the schedule `l` does to the matrix (the index-map
component of `PlaceSpec` is forgotten). -/
structure KSpec (K K' : Csc α) (l : List (Entry α)) : Prop where
  m_eq : K'.m = K.m
  n_eq : K'.n = K.n
  colptr_size : K'.colptr.size = K.colptr.size
  rowval_size : K'.rowval.size = K.rowval.size
  nzval_size : K'.nzval.size = K.nzval.size
  colptr_get : ∀ c, K'.colptr[c]? = (K.colptr[c]?).map (· + cnt c l)
  written : ∀ i e, l[i]? = some e → ∃ d, destOf K.colptr l i = some d ∧
      K'.rowval[d]? = some e.row ∧ K'.nzval[d]? = some e.val
  untouched : ∀ pos, (∀ i, destOf K.colptr l i ≠ some pos) →
      K'.rowval[pos]? = K.rowval[pos]? ∧ K'.nzval[pos]? = K.nzval[pos]?

theorem KSpec.of_placeSpec {K K' : Csc α} {m m' : Array Nat} {l : List (Entry α)}
    (S : PlaceSpec (K, m) (K', m') l) : KSpec K K' l :=
  ⟨S.m_eq, S.n_eq, S.colptr_size, S.rowval_size, S.nzval_size, S.colptr_get, S.written, S.untouched⟩

theorem KSpec.nil (K : Csc α) : KSpec K K [] :=
  KSpec.of_placeSpec (placeSpec_nil (K, #[]))

/-- one `placeAll` call -/
theorem placeAll_kspec {K K' : Csc α} {m m' : Array Nat} {l : List (Entry α)}
    (hreg : Regular l) (hdis : RangesDisjoint K.colptr l)
    (h : placeAll K m l = .ok (K', m')) : KSpec K K' l ∧ m'.size = m.size := by
  have S := placeAll_spec l (K, m) (K', m') hreg hdis h
  exact ⟨KSpec.of_placeSpec S, S.map_size⟩

-- ------------------------------------------------------------------ 2. disjointness of sub-schedules

theorem rangesDisjoint_left {ptr : Array Nat} {l1 l2 : List (Entry α)}
    (h : RangesDisjoint ptr (l1 ++ l2)) : RangesDisjoint ptr l1 := by
  intro c c' p p' a b hne hp hp' ha hb
  exact h c c' p p' a b hne hp hp' (by rw [cnt_append]; omega) (by rw [cnt_append]; omega)

theorem rangesDisjoint_right {ptr ptr1 : Array Nat} {l1 l2 : List (Entry α)}
    (hptr : ∀ c, ptr1[c]? = (ptr[c]?).map (· + cnt c l1))
    (h : RangesDisjoint ptr (l1 ++ l2)) : RangesDisjoint ptr1 l2 := by
  intro c c' p p' a b hne hp hp' ha hb
  rw [hptr] at hp hp'
  cases hq : ptr[c]? with
  | none => simp [hq] at hp
  | some q =>
    cases hq' : ptr[c']? with
    | none => simp [hq'] at hp'
    | some q' =>
      simp only [hq, hq', Option.map_some, Option.some.injEq] at hp hp'
      have := h c c' q q' (cnt c l1 + a) (cnt c' l1 + b) hne hq hq'
        (by rw [cnt_append]; omega) (by rw [cnt_append]; omega)
      omega

theorem rangesDisjoint_nil (ptr : Array Nat) : RangesDisjoint ptr ([] : List (Entry α)) := by
  intro c c' p p' a b _ _ _ ha _
  simp [cnt] at ha

-- ------------------------------------------------------------------ 3. sequential composition

theorem destOf_append_left (ptr : Array Nat) (l1 l2 : List (Entry α)) (i : Nat)
    (hi : i < l1.length) : destOf ptr (l1 ++ l2) i = destOf ptr l1 i := by
  unfold destOf
  rw [List.getElem?_append_left hi, List.take_append_of_le_length (Nat.le_of_lt hi)]

theorem destOf_none_of_le (ptr : Array Nat) (l : List (Entry α)) (i : Nat)
    (hi : l.length ≤ i) : destOf ptr l i = none := by
  unfold destOf
  rw [List.getElem?_eq_none hi]
  rfl

theorem destOf_append_right {ptr ptr1 : Array Nat} (l1 l2 : List (Entry α)) (i : Nat)
    (hptr : ∀ c, ptr1[c]? = (ptr[c]?).map (· + cnt c l1)) :
    destOf ptr (l1 ++ l2) (l1.length + i) = destOf ptr1 l2 i := by
  unfold destOf
  rw [List.getElem?_append_right (Nat.le_add_right _ _), Nat.add_sub_cancel_left,
    List.take_length_add_append]
  cases l2[i]? with
  | none => rfl
  | some e =>
    simp only [Option.bind_some, hptr, cnt_append]
    cases ptr[e.readCol]? with
    | none => rfl
    | some p => simp [Nat.add_assoc]

theorem KSpec.append {K K1 K2 : Csc α} {l1 l2 : List (Entry α)}
    (S1 : KSpec K K1 l1) (S2 : KSpec K1 K2 l2) (hdis : RangesDisjoint K.colptr (l1 ++ l2)) :
    KSpec K K2 (l1 ++ l2) := by
  have hR := fun i => destOf_append_right (ptr := K.colptr) (ptr1 := K1.colptr) l1 l2 i S1.colptr_get
  refine ⟨?_, ?_, ?_, ?_, ?_, ?_, ?_, ?_⟩
  · rw [S2.m_eq, S1.m_eq]
  · rw [S2.n_eq, S1.n_eq]
  · rw [S2.colptr_size, S1.colptr_size]
  · rw [S2.rowval_size, S1.rowval_size]
  · rw [S2.nzval_size, S1.nzval_size]
  · intro c
    rw [S2.colptr_get, S1.colptr_get, cnt_append]
    cases K.colptr[c]? with
    | none => rfl
    | some p => simp [Nat.add_assoc]
  · intro i e he
    by_cases hi : i < l1.length
    · rw [List.getElem?_append_left hi] at he
      obtain ⟨d, hd, hr, hn⟩ := S1.written i e he
      have hd' : destOf K.colptr (l1 ++ l2) i = some d := by
        rw [destOf_append_left _ _ _ _ hi]; exact hd
      have hne : ∀ j, destOf K1.colptr l2 j ≠ some d := by
        intro j
        rw [← hR j]
        exact destOf_lt_ne K.colptr (l1 ++ l2) hdis i (l1.length + j) d (by omega) hd'
      obtain ⟨h1, h2⟩ := S2.untouched d hne
      exact ⟨d, hd', by rw [h1]; exact hr, by rw [h2]; exact hn⟩
    · have hle : l1.length ≤ i := Nat.le_of_not_lt hi
      obtain ⟨j, rfl⟩ : ∃ j, i = l1.length + j := ⟨i - l1.length, by omega⟩
      rw [List.getElem?_append_right (Nat.le_add_right _ _), Nat.add_sub_cancel_left] at he
      obtain ⟨d, hd, hr, hn⟩ := S2.written j e he
      exact ⟨d, by rw [hR j]; exact hd, hr, hn⟩
  · intro pos hpos
    have h1 : ∀ i, destOf K.colptr l1 i ≠ some pos := by
      intro i
      by_cases hi : i < l1.length
      · rw [← destOf_append_left _ _ l2 _ hi]; exact hpos i
      · rw [destOf_none_of_le _ _ _ (Nat.le_of_not_lt hi)]; simp
    have h2 : ∀ j, destOf K1.colptr l2 j ≠ some pos := by
      intro j; rw [← hR j]; exact hpos _
    obtain ⟨a1, a2⟩ := S1.untouched pos h1
    obtain ⟨b1, b2⟩ := S2.untouched pos h2
    exact ⟨by rw [b1, a1], by rw [b2, a2]⟩

/-- sequential composition of two local specifications: the disjointness hypothesis of the
second one (on the counters *after* the first run) is discharged from the hypothesis on the
concatenation. -/
theorem KSpec.seq {K K1 K2 : Csc α} {l1 l2 : List (Entry α)}
    (hdis : RangesDisjoint K.colptr (l1 ++ l2))
    (h1 : RangesDisjoint K.colptr l1 → KSpec K K1 l1)
    (h2 : RangesDisjoint K1.colptr l2 → KSpec K1 K2 l2) : KSpec K K2 (l1 ++ l2) := by
  have S1 := h1 (rangesDisjoint_left hdis)
  have S2 := h2 (rangesDisjoint_right S1.colptr_get hdis)
  exact S1.append S2 hdis


-- ------------------------------------------------------------------ 4. the individual fill calls

theorem mapM_ok_mem {ι β ε : Type} (f : ι → Except ε β) :
    ∀ (l : List ι) (ys : List β), l.mapM f = .ok ys → ∀ y ∈ ys, ∃ x ∈ l, f x = .ok y := by
  intro l
  induction l with
  | nil =>
    intro ys h y hy
    rw [List.mapM_nil] at h
    cases pure_ok h
    cases hy
  | cons a t ih =>
    intro ys h y hy
    rw [List.mapM_cons] at h
    obtain ⟨b, hb, h⟩ := bind_ok h
    obtain ⟨bs, hbs, h⟩ := bind_ok h
    cases pure_ok h
    rcases List.mem_cons.mp hy with rfl | hy
    · exact ⟨a, by simp, hb⟩
    · obtain ⟨x, hx, hfx⟩ := ih bs hbs y hy
      exact ⟨x, by simp [hx], hfx⟩

variable [OfNat α 0]

omit [OfNat α 0] in
theorem blockSchedule_regular {M : Csc α} {r c : Nat} {sh : MatrixShape} {s : List (Entry α)}
    (h : blockSchedule M r c sh = .ok s) : Regular s := by
  unfold blockSchedule at h
  obtain ⟨cols, hcols, h⟩ := bind_ok h
  cases pure_ok h
  intro e he
  obtain ⟨col, hcol, hecol⟩ := List.mem_flatten.mp he
  obtain ⟨i, _, hi⟩ := mapM_ok_mem _ _ _ hcols col hcol
  obtain ⟨start, _, hi⟩ := bind_ok hi
  obtain ⟨stop, _, hi⟩ := bind_ok hi
  obtain ⟨j, _, hj⟩ := mapM_ok_mem _ _ _ hi e hecol
  obtain ⟨rv, _, hj⟩ := bind_ok hj
  obtain ⟨v, _, hj⟩ := bind_ok hj
  cases pure_ok hj
  cases sh <;> rfl

theorem missingDiagSchedule_regular {M : Csc α} {s : List (Entry α)}
    (h : missingDiagSchedule M 0 = .ok s) : Regular s := by
  unfold missingDiagSchedule at h
  obtain ⟨es, hes, h⟩ := bind_ok h
  cases pure_ok h
  intro e he
  obtain ⟨col, hcol, hecol⟩ := List.mem_flatten.mp he
  obtain ⟨i, _, hi⟩ := mapM_ok_mem _ _ _ hes col hcol
  obtain ⟨b, _, hi⟩ := bind_ok hi
  cases b with
  | false =>
    simp only [Bool.false_eq_true, if_false] at hi
    cases pure_ok hi
    cases hecol
  | true =>
    simp only [if_true] at hi
    cases pure_ok hi
    simp only [List.mem_singleton] at hecol
    subst hecol
    simp

omit [OfNat α 0] in
theorem fillBlock_of_sched {K M : Csc α} {mp : Array Nat} {r c : Nat} {sh : MatrixShape}
    {s : List (Entry α)} (hs : blockSchedule M r c sh = .ok s) :
    fillBlock K M mp r c sh = placeAll K mp s := by
  unfold fillBlock
  rw [hs]
  rfl

theorem fillMissingDiag_of_sched {K M : Csc α} {c : Nat}
    {s : List (Entry α)} (hs : missingDiagSchedule M c = .ok s) :
    fillMissingDiag K M c = (do let r ← placeAll K #[] s; pure r.1) := by
  unfold fillMissingDiag
  rw [hs]
  rfl

omit [OfNat α 0] in
theorem fillBlock_kspec {K K' M : Csc α} {mp mp' : Array Nat} {r c : Nat} {sh : MatrixShape}
    {s : List (Entry α)} (hs : blockSchedule M r c sh = .ok s)
    (h : fillBlock K M mp r c sh = .ok (K', mp')) (hdis : RangesDisjoint K.colptr s) :
    KSpec K K' s := by
  rw [fillBlock_of_sched hs] at h
  exact (placeAll_kspec (blockSchedule_regular hs) hdis h).1

theorem fillMissingDiag_kspec {K K' M : Csc α} {s : List (Entry α)}
    (hs : missingDiagSchedule M 0 = .ok s)
    (h : fillMissingDiag K M 0 = .ok K') (hdis : RangesDisjoint K.colptr s) :
    KSpec K K' s := by
  rw [fillMissingDiag_of_sched hs] at h
  obtain ⟨⟨K1, m1⟩, hp, h⟩ := bind_ok h
  cases pure_ok h
  exact (placeAll_kspec (missingDiagSchedule_regular hs) hdis hp).1

theorem fillColvec_kspec {K K' : Csc α} {v v' : Array Nat} {r c n : Nat} (hn : v.size = n)
    (h : fillColvec K v r c = .ok (K', v'))
    (hdis : RangesDisjoint K.colptr (colvecSchedule (α := α) n r c)) :
    KSpec K K' (colvecSchedule n r c) ∧ v'.size = n := by
  subst hn
  exact placeAll_kspec (colvecSchedule_regular _ _ _) hdis h

theorem fillRowvec_kspec {K K' : Csc α} {v v' : Array Nat} {r c n : Nat} (hn : v.size = n)
    (h : fillRowvec K v r c = .ok (K', v'))
    (hdis : RangesDisjoint K.colptr (rowvecSchedule (α := α) n r c)) :
    KSpec K K' (rowvecSchedule n r c) ∧ v'.size = n := by
  subst hn
  exact placeAll_kspec (rowvecSchedule_regular _ _ _) hdis h

theorem fillDiag_kspec {K K' : Csc α} {v v' : Array Nat} {off d : Nat}
    (h : fillDiag K v off d = .ok (K', v'))
    (hdis : RangesDisjoint K.colptr (diagSchedule (α := α) off d)) :
    KSpec K K' (diagSchedule off d) ∧ v'.size = v.size :=
  placeAll_kspec (diagSchedule_regular _ _) hdis h

/-- the schedule of `fill_dense_triangle` -/
def denseSchedule (off d : Nat) (shape : MatrixTriangle) : List (Entry α) :=
  match shape with
  | .triu => denseTriuSchedule off d
  | .tril => denseTrilSchedule off d

theorem fillDenseTriangle_kspec {K K' : Csc α} {v v' : Array Nat} {off d : Nat}
    {shape : MatrixTriangle}
    (h : fillDenseTriangle K v off d shape = .ok (K', v'))
    (hdis : RangesDisjoint K.colptr (denseSchedule (α := α) off d shape)) :
    KSpec K K' (denseSchedule off d shape) ∧ v'.size = v.size := by
  cases shape
  · exact placeAll_kspec (denseTriuSchedule_regular _ _) hdis h
  · exact placeAll_kspec (denseTrilSchedule_regular _ _) hdis h


-- ------------------------------------------------------------------ 5. `csc_fill_sparsecone`

/-- the index vectors of the expansion map `mp` have the lengths that the sparse-expandable
cone `c` prescribes (and `mp` is of the kind of `c`).  This is what `expansion_map` allocates,
see `mapFits_expansionMap`. -/
def MapFits (c : ConeSpec) (mp : SparseMap) : Prop :=
  match c, mp with
  | .soc n, .soc u v _ => u.size = n ∧ v.size = n
  | .genpow a b, .genpow p q r _ => p.size = a + b ∧ q.size = a ∧ r.size = b
  | _, _ => False

theorem mapFits_expansionMap {c : ConeSpec} {mp : SparseMap} (h : expansionMap c = some mp) :
    MapFits c mp := by
  cases c <;> simp only [expansionMap] at h
  case soc d =>
    split at h
    · cases h; simp [MapFits]
    · cases h
  case genpow a b =>
    cases h; simp [MapFits]
  all_goals cases h

/-- `dim1` as `_kkt_assemble_fill` computes it -/
def coneDim1 (c : ConeSpec) : Nat :=
  match c with
  | .genpow a _ => a
  | _ => 0

theorem fillSparsecone_kspec {c : ConeSpec} {mp mp' : SparseMap} {K K' : Csc α}
    {row col : Nat} {shape : MatrixTriangle} (hfit : MapFits c mp)
    (h : fillSparsecone mp (coneDim1 c) K row col shape = .ok (K', mp'))
    (hdis : RangesDisjoint K.colptr (sparseSchedule (α := α) c row col shape)) :
    KSpec K K' (sparseSchedule c row col shape) ∧ MapFits c mp' ∧ mp'.pdim = mp.pdim := by
  cases c <;> cases mp <;> simp only [MapFits] at hfit
  case soc.soc n u v D =>
    obtain ⟨hu, hv⟩ := hfit
    unfold fillSparsecone at h
    cases shape
    · simp only [sparseSchedule] at hdis ⊢
      simp only [] at h
      obtain ⟨⟨Ka, va⟩, ha, h⟩ := bind_ok h
      obtain ⟨⟨Kb, ub⟩, hb, h⟩ := bind_ok h
      obtain ⟨x, hx, h⟩ := bind_ok h
      cases pure_ok hx
      obtain ⟨⟨Kc, Dc⟩, hc, h⟩ := bind_ok h
      cases pure_ok h
      have hd1 := rangesDisjoint_left hdis
      have A := fillColvec_kspec hv ha (rangesDisjoint_left hd1)
      have B := fillColvec_kspec hu hb (rangesDisjoint_right A.1.colptr_get hd1)
      have AB := A.1.append B.1 hd1
      have C := fillDiag_kspec hc (rangesDisjoint_right AB.colptr_get hdis)
      exact ⟨AB.append C.1 hdis, ⟨B.2, A.2⟩, rfl⟩
    · simp only [sparseSchedule] at hdis ⊢
      simp only [] at h
      obtain ⟨⟨Ka, va⟩, ha, h⟩ := bind_ok h
      obtain ⟨⟨Kb, ub⟩, hb, h⟩ := bind_ok h
      obtain ⟨x, hx, h⟩ := bind_ok h
      cases pure_ok hx
      obtain ⟨⟨Kc, Dc⟩, hc, h⟩ := bind_ok h
      cases pure_ok h
      have hd1 := rangesDisjoint_left hdis
      have A := fillRowvec_kspec hv ha (rangesDisjoint_left hd1)
      have B := fillRowvec_kspec hu hb (rangesDisjoint_right A.1.colptr_get hd1)
      have AB := A.1.append B.1 hd1
      have C := fillDiag_kspec hc (rangesDisjoint_right AB.colptr_get hdis)
      exact ⟨AB.append C.1 hdis, ⟨B.2, A.2⟩, rfl⟩
  case genpow.genpow a b p q r D =>
    obtain ⟨hp, hq, hr⟩ := hfit
    unfold fillSparsecone at h
    simp only [coneDim1] at h
    cases shape
    · simp only [sparseSchedule] at hdis ⊢
      simp only [] at h
      obtain ⟨⟨Ka, qa⟩, ha, h⟩ := bind_ok h
      obtain ⟨⟨Kb, rb⟩, hb, h⟩ := bind_ok h
      obtain ⟨⟨Kc, pc⟩, hc, h⟩ := bind_ok h
      obtain ⟨x, hx, h⟩ := bind_ok h
      cases pure_ok hx
      obtain ⟨⟨Kd, Dd⟩, hd, h⟩ := bind_ok h
      cases pure_ok h
      have hd1 := rangesDisjoint_left hdis
      have hd2 := rangesDisjoint_left hd1
      have A := fillColvec_kspec hq ha (rangesDisjoint_left hd2)
      have B := fillColvec_kspec hr hb (rangesDisjoint_right A.1.colptr_get hd2)
      have AB := A.1.append B.1 hd2
      have C := fillColvec_kspec hp hc (rangesDisjoint_right AB.colptr_get hd1)
      have ABC := AB.append C.1 hd1
      have E := fillDiag_kspec hd (rangesDisjoint_right ABC.colptr_get hdis)
      exact ⟨ABC.append E.1 hdis, ⟨C.2, A.2, B.2⟩, rfl⟩
    · simp only [sparseSchedule] at hdis ⊢
      simp only [] at h
      obtain ⟨⟨Ka, qa⟩, ha, h⟩ := bind_ok h
      obtain ⟨⟨Kb, rb⟩, hb, h⟩ := bind_ok h
      obtain ⟨⟨Kc, pc⟩, hc, h⟩ := bind_ok h
      obtain ⟨x, hx, h⟩ := bind_ok h
      cases pure_ok hx
      obtain ⟨⟨Kd, Dd⟩, hd, h⟩ := bind_ok h
      cases pure_ok h
      have hd1 := rangesDisjoint_left hdis
      have hd2 := rangesDisjoint_left hd1
      have A := fillRowvec_kspec hq ha (rangesDisjoint_left hd2)
      have B := fillRowvec_kspec hr hb (rangesDisjoint_right A.1.colptr_get hd2)
      have AB := A.1.append B.1 hd2
      have C := fillRowvec_kspec hp hc (rangesDisjoint_right AB.colptr_get hd1)
      have ABC := AB.append C.1 hd1
      have E := fillDiag_kspec hd (rangesDisjoint_right ABC.colptr_get hdis)
      exact ⟨ABC.append E.1 hdis, ⟨C.2, A.2, B.2⟩, rfl⟩


-- ------------------------------------------------------------------ 6. the loop over the cones

theorem pdim_of_mapFits {c : ConeSpec} {mp : SparseMap} (hfit : MapFits c mp)
    (hsp : c.isSparseExpandable = true) : mp.pdim = conePdim c := by
  cases c <;> cases mp <;> simp only [MapFits] at hfit <;>
    simp [conePdim, SparseMap.pdim, hsp]

/-- the sparse maps `ms` still to be consumed fit the sparse-expandable cones among `cones`,
in order -/
def MapsFit : List ConeSpec → List SparseMap → Prop
  | [], _ => True
  | c :: cs, ms =>
    if c.isSparseExpandable = true then ∃ m ms', ms = m :: ms' ∧ MapFits c m ∧ MapsFit cs ms'
    else MapsFit cs ms

/-- `LDLDataMap::new` allocates fitting maps -/
theorem mapsFit_filterMap (cones : List ConeSpec) : MapsFit cones (cones.filterMap expansionMap) := by
  induction cones with
  | nil => trivial
  | cons c cs ih =>
    unfold MapsFit
    cases hm : expansionMap c with
    | none =>
      have hsp : ¬ c.isSparseExpandable = true := by
        cases c <;> simp [expansionMap, ConeSpec.isSparseExpandable] at hm ⊢
        exact hm
      rw [if_neg hsp, List.filterMap_cons_none hm]
      exact ih
    | some m =>
      have hsp : c.isSparseExpandable = true := by
        cases c <;> simp [expansionMap, ConeSpec.isSparseExpandable] at hm ⊢
        exact hm.1
      rw [if_pos hsp, List.filterMap_cons_some hm]
      exact ⟨m, _, rfl, mapFits_expansionMap hm, ih⟩

theorem coneSchedule_eq (c : ConeSpec) (row pcol : Nat) (shape : MatrixTriangle) :
    coneSchedule (α := α) c row pcol shape =
      (if c.hsIsDiagonal = true then diagSchedule row c.numel else denseSchedule row c.numel shape)
      ++ (if c.isSparseExpandable = true then sparseSchedule c row pcol shape else []) := by
  cases shape <;> rfl

/-- body of the loop over the cones in `_kkt_assemble_fill` (`n = A.n`) -/
def coneStep (n : Nat) (shape : MatrixTriangle) (st : FillState α) (cone : ConeSpec)
    (start bstart : Nat) : MErr (FillState α) :=
  (if cone.hsIsDiagonal = true then
      fillDiag st.K (st.Hsblocks.extract bstart (bstart + cone.blockLen)) (start + n) cone.numel
    else
      fillDenseTriangle st.K (st.Hsblocks.extract bstart (bstart + cone.blockLen)) (start + n)
        cone.numel shape) >>= fun Kb =>
  if cone.isSparseExpandable = true then
    getE st.maps st.nextSparse "sparse_map_iter.next().unwrap()" >>= fun thismap =>
    fillSparsecone thismap (coneDim1 cone) Kb.1 (start + n) st.pcol shape >>= fun Kn =>
    setE st.maps st.nextSparse Kn.2 >>= fun maps =>
    pure { K := Kn.1, Hsblocks := spliceAt st.Hsblocks bstart Kb.2, maps := maps,
           pcol := st.pcol + thismap.pdim, nextSparse := st.nextSparse + 1 }
  else
    pure { K := Kb.1, Hsblocks := spliceAt st.Hsblocks bstart Kb.2, maps := st.maps,
           pcol := st.pcol, nextSparse := st.nextSparse }

theorem coneStep_spec {n : Nat} {shape : MatrixTriangle} {st st' : FillState α} {c : ConeSpec}
    {s b : Nat} {rest : List ConeSpec}
    (hfit : MapsFit (c :: rest) (st.maps.toList.drop st.nextSparse))
    (hdis : RangesDisjoint st.K.colptr (coneSchedule (α := α) c (s + n) st.pcol shape))
    (h : coneStep n shape st c s b = .ok st') :
    KSpec st.K st'.K (coneSchedule c (s + n) st.pcol shape) ∧ st'.pcol = st.pcol + conePdim c ∧
      MapsFit rest (st'.maps.toList.drop st'.nextSparse) := by
  rw [coneSchedule_eq] at hdis ⊢
  unfold coneStep at h
  obtain ⟨⟨Kb, blk⟩, hb, h⟩ := bind_ok h
  have hd1 := rangesDisjoint_left hdis
  have HS : KSpec st.K Kb (if c.hsIsDiagonal = true then diagSchedule (α := α) (s + n) c.numel
      else denseSchedule (s + n) c.numel shape) := by
    by_cases hd : c.hsIsDiagonal = true
    · rw [if_pos hd] at hb hd1 ⊢
      exact (fillDiag_kspec hb hd1).1
    · rw [if_neg hd] at hb hd1 ⊢
      exact (fillDenseTriangle_kspec hb hd1).1
  have hd2 := rangesDisjoint_right HS.colptr_get hdis
  unfold MapsFit at hfit
  by_cases hsp : c.isSparseExpandable = true
  · rw [if_pos hsp] at h hdis hd2 hfit ⊢
    obtain ⟨m, ms', hms, hmf, hrest⟩ := hfit
    obtain ⟨thismap, hget, h⟩ := bind_ok h
    obtain ⟨⟨Kn, newmap⟩, hsc, h⟩ := bind_ok h
    obtain ⟨maps, hset, h⟩ := bind_ok h
    cases pure_ok h
    rw [getE_ok] at hget
    rw [setE_ok] at hset
    obtain ⟨hlt, hmaps⟩ := hset
    have hm : m = thismap := by
      have h0 : (st.maps.toList.drop st.nextSparse)[0]? = some m := by rw [hms]; rfl
      rw [List.getElem?_drop, Nat.add_zero, Array.getElem?_toList, hget] at h0
      cases h0; rfl
    subst hm
    have hms' : ms' = st.maps.toList.drop (st.nextSparse + 1) := by
      have : (st.maps.toList.drop st.nextSparse).drop 1 = ms' := by rw [hms]; rfl
      rw [← this, List.drop_drop]
    have SP := fillSparsecone_kspec hmf hsc hd2
    refine ⟨HS.append SP.1 hdis, ?_, ?_⟩
    · show st.pcol + m.pdim = _
      rw [pdim_of_mapFits hmf hsp]
    · show MapsFit rest (maps.toList.drop (st.nextSparse + 1))
      rw [hmaps, Array.toList_setIfInBounds, List.drop_set_of_lt (by omega), ← hms']
      exact hrest
  · rw [if_neg hsp] at h hfit ⊢
    cases pure_ok h
    refine ⟨?_, ?_, hfit⟩
    · rw [List.append_nil]; exact HS
    · simp [conePdim, hsp]

/-- `ts` is `cones` zipped with consecutive start offsets beginning at `s` (and arbitrary
block offsets, which do not influence the matrix) -/
inductive Triples : Nat → List ConeSpec → List (ConeSpec × Nat × Nat) → Prop
  | nil (s : Nat) : Triples s [] []
  | cons (s : Nat) (c : ConeSpec) (b : Nat) {rest : List ConeSpec} {ts : List (ConeSpec × Nat × Nat)} :
      Triples (s + c.numel) rest ts → Triples s (c :: rest) ((c, s, b) :: ts)

def startsFrom (s : Nat) (xs : List Nat) : List Nat :=
  (List.range xs.length).map (fun i => s + (xs.take i).sum)

theorem startsFrom_cons (s x : Nat) (xs : List Nat) :
    startsFrom s (x :: xs) = s :: startsFrom (s + x) xs := by
  unfold startsFrom
  simp only [List.length_cons]
  rw [List.range_succ_eq_map]
  simp only [List.map_cons, List.take_zero, List.sum_nil, Nat.add_zero, List.map_map]
  congr 1
  apply List.map_congr_left
  intro i _
  simp [List.take_succ_cons, Nat.add_assoc]

theorem rangeStarts_eq (xs : List Nat) : rangeStarts xs = startsFrom 0 xs := by
  unfold rangeStarts startsFrom
  rw [exclusiveCumsum_eq]
  simp

theorem triples_zip (cones : List ConeSpec) : ∀ (s t : Nat),
    Triples s cones (cones.zip ((startsFrom s (cones.map ConeSpec.numel)).zip
      (startsFrom t (cones.map ConeSpec.blockLen)))) := by
  induction cones with
  | nil => intro s t; exact Triples.nil s
  | cons c cs ih =>
    intro s t
    simp only [List.map_cons, startsFrom_cons, List.zip_cons_cons]
    exact Triples.cons s c t (ih _ _)

theorem triples_rng (cones : List ConeSpec) :
    Triples 0 cones (cones.zip ((rngConesStart cones).zip (rngBlocksStart cones))) := by
  unfold rngConesStart rngBlocksStart
  rw [rangeStarts_eq, rangeStarts_eq]
  exact triples_zip cones 0 0

theorem conesFold_kspec {n : Nat} {shape : MatrixTriangle}
    (f : FillState α → ConeSpec × Nat × Nat → MErr (FillState α))
    (hf : ∀ st c s b, f st (c, s, b) = coneStep n shape st c s b)
    {s0 : Nat} {cones : List ConeSpec} {ts : List (ConeSpec × Nat × Nat)} (T : Triples s0 cones ts) :
    ∀ (st st' : FillState α), MapsFit cones (st.maps.toList.drop st.nextSparse) →
      RangesDisjoint st.K.colptr (conesSchedule (α := α) cones (s0 + n) st.pcol shape) →
      ts.foldlM f st = .ok st' →
      KSpec st.K st'.K (conesSchedule cones (s0 + n) st.pcol shape) := by
  induction T with
  | nil s =>
    intro st st' _ _ h
    rw [List.foldlM_nil] at h
    cases pure_ok h
    exact KSpec.nil _
  | cons s c b T ih =>
    intro st st' hfit hdis h
    rw [List.foldlM_cons] at h
    obtain ⟨st1, h1, h⟩ := bind_ok h
    rw [hf] at h1
    simp only [conesSchedule] at hdis ⊢
    obtain ⟨S1, hp, hfit1⟩ := coneStep_spec hfit (rangesDisjoint_left hdis) h1
    have hd2 := rangesDisjoint_right S1.colptr_get hdis
    rw [← hp, Nat.add_right_comm] at hd2
    have S2 := ih st1 st' hfit1 hd2 h
    rw [hp, Nat.add_right_comm] at S2
    exact S1.append S2 hdis


-- ------------------------------------------------------------------ 7. the whole assembly

theorem kktAssembleFill_kspec (K K' P A : Csc α) (cones : List ConeSpec) (map map' : LDLDataMap)
    (shape : MatrixTriangle) (sched : List (Entry α))
    (hmaps : MapsFit cones map.sparse_maps.toList)
    (hs : kktSchedule P A cones shape = .ok sched)
    (hdis : RangesDisjoint (colcountToColptr K).colptr sched)
    (h : kktAssembleFill K P A cones map shape = .ok (K', map')) :
    ∃ Kf, KSpec (colcountToColptr K) Kf sched ∧ backshiftColptrs Kf = .ok K' := by
  unfold kktSchedule at hs
  unfold kktAssembleFill at h
  cases shape
  · simp only [] at hs h
    obtain ⟨sP, hsP, hs⟩ := bind_ok hs
    obtain ⟨sD, hsD, hs⟩ := bind_ok hs
    obtain ⟨sA, hsA, hs⟩ := bind_ok hs
    obtain ⟨head, hhead, hs⟩ := bind_ok hs
    cases pure_ok hhead
    cases pure_ok hs
    obtain ⟨⟨K1, mapP⟩, h1, h⟩ := bind_ok h
    obtain ⟨K2, h2, h⟩ := bind_ok h
    obtain ⟨⟨K3, mapA⟩, h3, h⟩ := bind_ok h
    obtain ⟨x, hx, h⟩ := bind_ok h
    cases pure_ok hx
    obtain ⟨st, hfold, h⟩ := bind_ok h
    obtain ⟨Kb, hback, h⟩ := bind_ok h
    have hK : Kb = K' := by
      repeat' split at h
      all_goals
        first
        | (obtain ⟨_, hb, _⟩ := bind_ok h; cases hb; done)
        | (obtain ⟨_, hb, h⟩ := bind_ok h; cases pure_ok hb; cases pure_ok h; rfl)
    subst hK
    refine ⟨st.K, ?_, hback⟩
    simp only [] at h2 hfold
    have hd1 := rangesDisjoint_left hdis
    have hd2 := rangesDisjoint_left hd1
    have S1 := fillBlock_kspec hsP h1 (rangesDisjoint_left hd2)
    have S2 := fillMissingDiag_kspec hsD h2 (rangesDisjoint_right S1.colptr_get hd2)
    have S12 := S1.append S2 hd2
    have S3 := fillBlock_kspec hsA h3 (rangesDisjoint_right S12.colptr_get hd1)
    have S123 := S12.append S3 hd1
    have hd3 := rangesDisjoint_right S123.colptr_get hdis
    have SC := conesFold_kspec (n := A.n) (shape := .triu) _
      (by intro st c s b; simp only [coneStep]; split <;> rfl) (triples_rng cones)
      { K := K3, Hsblocks := map.Hsblocks, maps := map.sparse_maps, pcol := A.m + A.n, nextSparse := 0 } st
      hmaps (by rw [Nat.zero_add]; exact hd3) hfold
    rw [Nat.zero_add] at SC
    exact S123.append SC hdis
  · simp only [] at hs h
    obtain ⟨sD, hsD, hs⟩ := bind_ok hs
    obtain ⟨sP, hsP, hs⟩ := bind_ok hs
    obtain ⟨sA, hsA, hs⟩ := bind_ok hs
    obtain ⟨head, hhead, hs⟩ := bind_ok hs
    cases pure_ok hhead
    cases pure_ok hs
    obtain ⟨K1, h1, h⟩ := bind_ok h
    obtain ⟨⟨K2, mapP⟩, h2, h⟩ := bind_ok h
    obtain ⟨⟨K3, mapA⟩, h3, h⟩ := bind_ok h
    obtain ⟨x, hx, h⟩ := bind_ok h
    cases pure_ok hx
    obtain ⟨st, hfold, h⟩ := bind_ok h
    obtain ⟨Kb, hback, h⟩ := bind_ok h
    have hK : Kb = K' := by
      repeat' split at h
      all_goals
        first
        | (obtain ⟨_, hb, _⟩ := bind_ok h; cases hb; done)
        | (obtain ⟨_, hb, h⟩ := bind_ok h; cases pure_ok hb; cases pure_ok h; rfl)
    subst hK
    refine ⟨st.K, ?_, hback⟩
    simp only [] at h3 hfold
    have hd1 := rangesDisjoint_left hdis
    have hd2 := rangesDisjoint_left hd1
    have S1 := fillMissingDiag_kspec hsD h1 (rangesDisjoint_left hd2)
    have S2 := fillBlock_kspec hsP h2 (rangesDisjoint_right S1.colptr_get hd2)
    have S12 := S1.append S2 hd2
    have S3 := fillBlock_kspec hsA h3 (rangesDisjoint_right S12.colptr_get hd1)
    have S123 := S12.append S3 hd1
    have hd3 := rangesDisjoint_right S123.colptr_get hdis
    have SC := conesFold_kspec (n := A.n) (shape := .tril) _
      (by intro st c s b; simp only [coneStep]; split <;> rfl) (triples_rng cones)
      { K := K3, Hsblocks := map.Hsblocks, maps := map.sparse_maps, pcol := A.m + A.n, nextSparse := 0 } st
      hmaps (by rw [Nat.zero_add]; exact hd3) hfold
    rw [Nat.zero_add] at SC
    exact S123.append SC hdis

theorem exclusiveCumsum_length (xs : List Nat) : (exclusiveCumsum xs).length = xs.length := by
  rw [exclusiveCumsum_eq]; simp

/-- **Main theorem.**  As far as the matrix is concerned, `_kkt_assemble_fill` is one run of the
fill engine over `kktSchedule`.  Hypothesis `hmaps`: the sparse expansion maps have the index
vector lengths prescribed by the sparse-expandable cones (true for `LDLDataMap.new`, see
`kktAssembleFill_spec_new`). -/
theorem kktAssembleFill_spec (K K' P A : Csc α) (cones : List ConeSpec) (map map' : LDLDataMap)
    (shape : MatrixTriangle) (sched : List (Entry α))
    (hmaps : MapsFit cones map.sparse_maps.toList)
    (hs : kktSchedule P A cones shape = .ok sched)
    (hdis : RangesDisjoint (colcountToColptr K).colptr sched)
    (h : kktAssembleFill K P A cones map shape = .ok (K', map')) :
    let ptr0 := (colcountToColptr K).colptr
    K'.m = K.m ∧ K'.n = K.n ∧
    K'.rowval.size = K.rowval.size ∧ K'.nzval.size = K.nzval.size ∧ K'.colptr.size = K.colptr.size ∧
    (0 < K.colptr.size → K'.colptr[0]? = some 0) ∧
    (∀ c, c + 1 < K.colptr.size → K'.colptr[c + 1]? = (ptr0[c]?).map (· + cnt c sched)) ∧
    (∀ i e, sched[i]? = some e → ∃ d, destOf ptr0 sched i = some d ∧
        K'.rowval[d]? = some e.row ∧ K'.nzval[d]? = some e.val) ∧
    (∀ pos, (∀ i, destOf ptr0 sched i ≠ some pos) →
        K'.rowval[pos]? = K.rowval[pos]? ∧ K'.nzval[pos]? = K.nzval[pos]?) := by
  intro ptr0
  obtain ⟨Kf, S, hback⟩ := kktAssembleFill_kspec K K' P A cones map map' shape sched hmaps hs hdis h
  have hsz0 : ptr0.size = K.colptr.size := by
    show (exclusiveCumsum K.colptr.toList).toArray.size = _
    simp [exclusiveCumsum_length]
  have hszf : Kf.colptr.size = K.colptr.size := by rw [S.colptr_size]; exact hsz0
  unfold backshiftColptrs at hback
  split at hback
  · cases hback
  · rename_i hne
    cases pure_ok hback
    refine ⟨S.m_eq, S.n_eq, S.rowval_size, S.nzval_size, ?_, ?_, ?_, S.written, S.untouched⟩
    · show (0 :: Kf.colptr.toList.dropLast).toArray.size = _
      have : Kf.colptr.toList.length ≠ 0 := by
        intro h0; exact hne (List.eq_nil_of_length_eq_zero h0)
      simp only [List.size_toArray, List.length_cons, List.length_dropLast]
      simp only [Array.length_toList] at this ⊢
      omega
    · intro _
      show (0 :: Kf.colptr.toList.dropLast).toArray[0]? = some 0
      simp
    · intro c hc
      show (0 :: Kf.colptr.toList.dropLast).toArray[c + 1]? = _
      rw [List.getElem?_toArray, List.getElem?_cons_succ, List.getElem?_dropLast]
      rw [if_pos (by simp only [Array.length_toList]; omega), Array.getElem?_toList]
      exact S.colptr_get c

/-- the same for the maps allocated by `LDLDataMap::new` -/
theorem kktAssembleFill_spec_new (K K' P A : Csc α) (cones : List ConeSpec) (map' : LDLDataMap)
    (shape : MatrixTriangle) (sched : List (Entry α))
    (hs : kktSchedule P A cones shape = .ok sched)
    (hdis : RangesDisjoint (colcountToColptr K).colptr sched)
    (h : kktAssembleFill K P A cones (LDLDataMap.new P A cones) shape = .ok (K', map')) :
    let ptr0 := (colcountToColptr K).colptr
    K'.m = K.m ∧ K'.n = K.n ∧
    K'.rowval.size = K.rowval.size ∧ K'.nzval.size = K.nzval.size ∧ K'.colptr.size = K.colptr.size ∧
    (0 < K.colptr.size → K'.colptr[0]? = some 0) ∧
    (∀ c, c + 1 < K.colptr.size → K'.colptr[c + 1]? = (ptr0[c]?).map (· + cnt c sched)) ∧
    (∀ i e, sched[i]? = some e → ∃ d, destOf ptr0 sched i = some d ∧
        K'.rowval[d]? = some e.row ∧ K'.nzval[d]? = some e.val) ∧
    (∀ pos, (∀ i, destOf ptr0 sched i ≠ some pos) →
        K'.rowval[pos]? = K.rowval[pos]? ∧ K'.nzval[pos]? = K.nzval[pos]?) :=
  kktAssembleFill_spec K K' P A cones _ map' shape sched
    (by show MapsFit cones (cones.filterMap expansionMap).toArray.toList
        exact mapsFit_filterMap cones) hs hdis h

end Clarabel.Lemmas.KktFillLink
