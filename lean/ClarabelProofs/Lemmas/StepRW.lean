/-
  Reachability analysis of the read/write skeleton of `solve()` (`ClarabelModel/Step.lean`):
  the set of abstract states reachable after the prologue and any number of passes is
  finite; it is computed here and its closure is checked by evaluation.
-/
import ClarabelModel.Step

namespace Clarabel.Lemmas
open Clarabel Clarabel.Step

/-- abstract states reachable at the top of the loop (computed by iterating `runMove` from
the two prologues until nothing new appears; that it is indeed closed is `reach_closed`) -/
def reach : List St :=
  [⟨1519368, 0, false⟩, ⟨1507336, 0, false⟩, ⟨2097144, 1, false⟩, ⟨2060056, 0, true⟩,
   ⟨2060120, 1, true⟩, ⟨2064248, 1, true⟩, ⟨2048024, 0, true⟩, ⟨2097144, 2, false⟩,
   ⟨2097144, 1, true⟩, ⟨2097144, 2, true⟩]

theorem start_sym_mem : ∃ s ∈ reach, runRW prologueSym St.init = some s := by decide +kernel
theorem start_nonsym_mem : ∃ s ∈ reach, runRW prologueNonsym St.init = some s := by decide +kernel

/-- `reach` is closed under every admissible pass of the loop, and no such pass reads an
unwritten component -/
theorem reach_closed : ∀ s ∈ reach, ∀ mv ∈ Move.all, (mv.isCont && s.contUsed) = false →
    ∃ s' ∈ reach, runMove mv s = some s' := by decide +kernel

/-- from every reachable state every breaking pass and the epilogue run without reading an
unwritten component -/
theorem reach_exit : ∀ s ∈ reach, ∀ ex ∈ Exit.all,
    ((runRW ex.steps s).bind (runRW solveEpilogue)).isSome = true := by decide +kernel

theorem contUsed_of_cont : ∀ s ∈ reach, ∀ mv ∈ Move.all, mv.isCont = true →
    ∀ s', runMove mv s = some s' → s'.contUsed = true := by
  intro s _ mv _ hc s' h
  unfold runMove at h
  split at h
  · cases h
  · simp only [Option.map_eq_some_iff] at h
    obtain ⟨a, _, rfl⟩ := h
    rfl

theorem contUsed_mono : ∀ s ∈ reach, ∀ mv ∈ Move.all,
    ∀ s', runMove mv s = some s' → s.contUsed = true → s'.contUsed = true := by decide +kernel

theorem stepRW_contUsed (st : RW) (t u : St) (h : stepRW st t = some u) :
    u.contUsed = t.contUsed := by
  unfold stepRW at h
  by_cases hc : ((st.reads ++ if t.iter ≥ 2 then st.readsIfIterGt1 else []).all
      fun c => c.isConstruction || t.has c) = true
  · simp only [hc, if_true] at h
    cases h; rfl
  · simp only [hc] at h
    cases h

/-- the step lists never touch the strategy-switch flag -/
theorem runRW_contUsed : ∀ (l : List RW) (t t' : St), runRW l t = some t' → t'.contUsed = t.contUsed := by
  intro l
  induction l with
  | nil => intro t t' h; cases h; rfl
  | cons st l ihl =>
    intro t t' h
    simp only [runRW, Option.bind_eq_some_iff] at h
    obtain ⟨u, hu, hu'⟩ := h
    rw [ihl u t' hu', stepRW_contUsed st t u hu]

theorem move_mem_all (mv : Move) : mv ∈ Move.all := by cases mv <;> decide
theorem exit_mem_all (ex : Exit) : ex ∈ Exit.all := by cases ex <;> decide

end Clarabel.Lemmas
