/-
  A concrete run of the whole-solver model with nonsymmetric cones that the kernel can evaluate
  (scalar type `Int`): used by the non-vacuity examples of `Props/C04NS.lean`, `Props/C07NS.lean`.
  The `FloatLike Int` / `OfScientific Int` instances are local to this file and to the example
  sections that open it (no global instance is added).
-/
import ClarabelProofs.Lemmas.SolverNSPrefix

namespace Clarabel.SolverNS.Example
open Clarabel Clarabel.SolverNS

/-- integer arithmetic as a scalar type (structural theorems hold for every scalar type) -/
@[reducible] def intFloatLike : FloatLike Int where
  sqrt := id
  exp := id
  log := id
  powf := fun a _ => a
  fmax := max
  fmin := min
  fabs := fun a => a.natAbs
  isNaN := fun _ => false
  isFinite := fun _ => true
  eps := 0
  ofNat := Int.ofNat

/-- decimal literals at `Int`: the mantissa -/
@[reducible] def intSci : OfScientific Int := ⟨fun m _ _ => Int.ofNat m⟩

attribute [local instance] intFloatLike intSci

def tols : Clarabel.Info.Tols Int := ⟨1, 1, 1, 1, 1, 1⟩

/-- settings with iteration budget `k` (no equilibration / presolve / refinement); the switch
threshold `min_switch_step_length = 5` makes the first combined step switch the strategy -/
def st (k : Nat) : Settings Int :=
  { info := { full := tols, reduced := tols, max_iter := k }, maxStepFraction := 1,
    minTerminateStepLength := 0,
    equil := { enable := false, maxIter := 0, minScaling := 1, maxScaling := 1 },
    lin := { staticRegEnable := false, staticRegConstant := 0, staticRegProportional := 0,
             dynRegEps := 1, dynRegDelta := 1, irEnable := false, irReltol := 0, irAbstol := 0,
             irMaxIter := 0, irStopRatio := 1 },
    presolveEnable := false, infbound := 1000000, maxValue := 1000000,
    minSwitchStepLength := 5, linesearchBacktrackStep := 0, btFuel := 10 }

/-- one variable, a nonnegative cone of dimension 1 and an exponential cone -/
def P : Csc Int := { m := 1, n := 1, colptr := #[0, 0], rowval := #[], nzval := #[] }
def A : Csc Int := { m := 4, n := 1, colptr := #[0, 1], rowval := #[0], nzval := #[1] }

/-- `DefaultSolver::new` on the example -/
def newSolver (k : Nat) : MErr (Solver Int) :=
  Solver.new P #[1] A #[1, 1, 1, 1] [.nonneg 1, .exp] (st k) #[0, 1, 2, 3, 4]

/-- `new` followed by `solve()` -/
def run (k : Nat) : MErr (SolveResult Int) := do (← newSolver k).solve (st k)

/-- passes, status, iterations, the strategy of every pass (`true` = `Dual`) -/
def summary (r : SolveResult Int) : Nat × Info.SolverStatus × Nat × List Bool :=
  (r.passes, r.S.solution.status, r.S.solution.iterations, r.traj.map (·.dual))

/-- with `max_iter = 3` the model makes two passes: the first one switches the strategy
`PrimalDual → Dual` at the small-step checkpoint and `continue`s, the second one (under `Dual`,
after 50 barrier contractions) leaves the loop with `InsufficientProgress` -/
theorem run3 : (run 3).toOption.map summary = some (2, .insufficientProgress, 2, [false, true]) := by
  decide +kernel
/-- with `max_iter = 1` the second pass stops on the budget: `max_iter + 1` passes -/
theorem run1 : (run 1).toOption.map summary = some (2, .maxIterations, 1, [false, true]) := by
  decide +kernel
/-- with `max_iter = 0` one pass, `MaxIterations` -/
theorem run0 : (run 0).toOption.map summary = some (1, .maxIterations, 0, [false]) := by
  decide +kernel

end Clarabel.SolverNS.Example
