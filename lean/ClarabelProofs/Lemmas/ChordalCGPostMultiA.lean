/-
  Clique-graph merge strategy, `post_process_merge` WHEN AT LEAST TWO CLIQUES ARE LEFT, part 2:
  the executable checks (`snDisjointB`, `snLiveNonemptyB`) as propositions, and the set-level
  reading of `CGPostDesc` (`ChordalCGPostMultiRun.lean`): live after = live before, the cliques
  are kept (`supernode ∪ separator` = the clique at loop exit), every vertex of a live clique is
  in some new supernode.
-/
import ClarabelProofs.Lemmas.ChordalCGPostMultiRun

namespace Clarabel.Chordal
open Clarabel

/-! ## the executable checks -/

/-- [S] `cgNodupB` decides duplicate-freeness -/
theorem cgNodupB_iff (l : List Nat) : cgNodupB l = true ↔ l.Nodup := by
  induction l with
  | nil => simp [cgNodupB]
  | cons a l ih => simp [cgNodupB, ih]

/-- [S] what `snLiveNonemptyB` decides -/
theorem snLiveNonemptyB_iff (t : SuperNodeTree) : snLiveNonemptyB t = true ↔
    ∀ c, c < t.snode.size → t.snodeParent.getD c 0 ≠ inactiveNode →
      (t.snode.getD c #[]).toList ≠ [] := by
  unfold snLiveNonemptyB
  simp only [List.all_eq_true, List.mem_range, Bool.or_eq_true, beq_iff_eq, Bool.not_eq_true',
    Array.isEmpty_eq_false_iff, ne_eq, Array.toList_eq_nil_iff]
  constructor
  · intro h c hc hp
    rcases h c hc with h | h
    · exact absurd h hp
    · exact h
  · intro h c hc
    by_cases hp : t.snodeParent.getD c 0 = inactiveNode
    · exact .inl hp
    · exact .inr (h c hc hp)

/-- [S] what `snDisjointB` decides: all supernodes duplicate-free and pairwise disjoint -/
theorem snDisjointB_iff (t : SuperNodeTree) : snDisjointB t = true ↔
    (∀ c, (t.snode.getD c #[]).toList.Nodup) ∧
    ∀ a b, a < t.snode.size → b < t.snode.size → a ≠ b →
      ∀ v ∈ (t.snode.getD a #[]).toList, v ∉ (t.snode.getD b #[]).toList := by
  unfold snDisjointB
  rw [cgNodupB_iff, List.nodup_flatMap]
  have hget : ∀ c (hc : c < t.snode.size), t.snode.getD c #[] = t.snode.toList[c]'(by simpa using hc) := by
    intro c hc; simp [Array.getD, hc]
  constructor
  · rintro ⟨h1, h2⟩
    refine ⟨?_, ?_⟩
    · intro c
      by_cases hc : c < t.snode.size
      · rw [hget c hc]; exact h1 _ (List.getElem_mem _)
      · simp [Array.getD, hc]
    · intro a b ha hb hab v hva hvb
      rw [hget a ha] at hva
      rw [hget b hb] at hvb
      rw [List.pairwise_iff_getElem] at h2
      rcases Nat.lt_or_gt_of_ne hab with h | h
      · exact (h2 a b _ _ h) hva hvb
      · exact (h2 b a _ _ h) hvb hva
  · rintro ⟨h1, h2⟩
    refine ⟨?_, ?_⟩
    · intro x hx
      obtain ⟨c, hc, rfl⟩ := List.getElem_of_mem hx
      have hc' : c < t.snode.size := by simpa using hc
      rw [← hget c hc']; exact h1 c
    · rw [List.pairwise_iff_getElem]
      intro a b ha hb hab
      have ha' : a < t.snode.size := by simpa using ha
      have hb' : b < t.snode.size := by simpa using hb
      intro v hva hvb
      rw [← hget a ha'] at hva
      rw [← hget b hb'] at hvb
      exact h2 a b ha' hb' (by omega) v hva hvb

/-! ## reading the description of the result -/

namespace CGPostDesc
variable {N : Nat} {t t' : SuperNodeTree} {r : Nat}

/-- [S] LIVE AFTER = LIVE BEFORE: `Live t' c` (parent entry not `INACTIVE_NODE`) iff the clique
was non-empty at loop exit -/
theorem live_iff (h : CGPostDesc N t t' r) (c : Nat) : Live t' c ↔ CGLive t c := by
  unfold Live
  rw [h.tree.live_iff c, mem_cgLiveList]

/-- [S] live cliques are stored cliques -/
theorem live_lt (h : CGPostDesc N t t' r) {c : Nat} (hc : CGLive t c) : c < N :=
  h.tree.lt c ((mem_cgLiveList t c).2 hc)

/-- [S] the root is the only live clique without parent -/
theorem root_iff (h : CGPostDesc N t t' r) {c : Nat} (hc : CGLive t c) :
    t'.snodeParent.getD c 0 = noParent ↔ c = r :=
  h.tree.root_iff ((mem_cgLiveList t c).2 hc)

/-- [S] the parent of a live non-root clique is live -/
theorem par_live (h : CGPostDesc N t t' r) {c : Nat} (hc : CGLive t c) (hcr : c ≠ r) :
    CGLive t (t'.snodeParent.getD c 0) :=
  (mem_cgLiveList t _).1 (h.tree.par_mem c ((mem_cgLiveList t c).2 hc) hcr)

/-- [S] the root keeps its whole clique -/
theorem mem_sn_root (h : CGPostDesc N t t' r) (v : Nat) :
    v ∈ (t'.snode.getD r #[]).toList ↔ v ∈ (t.snode.getD r #[]).toList := by
  rw [h.sn_root, VSet.mem_sort]

/-- [S] new supernode = clique \ parent clique -/
theorem mem_sn (h : CGPostDesc N t t' r) {c : Nat} (hc : CGLive t c) (hcr : c ≠ r) (v : Nat) :
    v ∈ (t'.snode.getD c #[]).toList ↔ (v ∈ (t.snode.getD c #[]).toList ∧
      v ∉ (t.snode.getD (t'.snodeParent.getD c 0) #[]).toList) := by
  rw [h.sn_eq c ((mem_cgLiveList t c).2 hc) hcr, VSet.mem_sort, VSet.mem_diff_inter]

/-- [S] new separator = clique ∩ parent clique -/
theorem mem_sep (h : CGPostDesc N t t' r) {c : Nat} (hc : CGLive t c) (hcr : c ≠ r) (v : Nat) :
    v ∈ (t'.separators.getD c #[]).toList ↔ (v ∈ (t.snode.getD c #[]).toList ∧
      v ∈ (t.snode.getD (t'.snodeParent.getD c 0) #[]).toList) := by
  rw [h.sep_eq c ((mem_cgLiveList t c).2 hc) hcr, VSet.mem_sort, VSet.mem_inter]

/-- [S] THE CLIQUES ARE KEPT: supernode ∪ separator of the result = the clique at loop exit -/
theorem mem_clique (h : CGPostDesc N t t' r) {c : Nat} (hc : CGLive t c) (v : Nat) :
    v ∈ cliqueList t' c ↔ v ∈ (t.snode.getD c #[]).toList := by
  unfold cliqueList
  rw [List.mem_append]
  by_cases hcr : c = r
  · subst hcr
    rw [h.mem_sn_root, h.sep_root]
    simp
  · rw [h.mem_sn hc hcr, h.mem_sep hc hcr]
    constructor
    · rintro (h1 | h1) <;> exact h1.1
    · intro h1
      by_cases h2 : v ∈ (t.snode.getD (t'.snodeParent.getD c 0) #[]).toList
      · exact .inr ⟨h1, h2⟩
      · exact .inl ⟨h1, h2⟩

/-- [S] the new supernodes lie inside the old cliques -/
theorem sn_sub (h : CGPostDesc N t t' r) (c v : Nat) (hv : v ∈ (t'.snode.getD c #[]).toList) :
    v ∈ (t.snode.getD c #[]).toList := by
  by_cases hc : CGLive t c
  · exact (h.mem_clique hc v).1 (List.mem_append_left _ hv)
  · rw [h.dead_sn c (fun hm => hc ((mem_cgLiveList t c).1 hm))] at hv
    simp at hv

/-- [S] the new separators lie inside the old cliques -/
theorem sep_sub' (h : CGPostDesc N t t' r) (c v : Nat) (hv : v ∈ (t'.separators.getD c #[]).toList) :
    v ∈ (t.snode.getD c #[]).toList := by
  by_cases hc : CGLive t c
  · exact (h.mem_clique hc v).1 (List.mem_append_right _ hv)
  · rw [h.dead_sep c (fun hm => hc ((mem_cgLiveList t c).1 hm))] at hv
    simp at hv

/-- [S] the new supernodes are duplicate-free when the cliques are -/
theorem sn_nodup (h : CGPostDesc N t t' r) (hnd : ∀ c, (t.snode.getD c #[]).toList.Nodup) (c : Nat) :
    (t'.snode.getD c #[]).toList.Nodup := by
  by_cases hc : c ∈ cgLiveList t
  · by_cases hcr : c = r
    · subst hcr; rw [h.sn_root, VSet.nodup_sort]; exact hnd c
    · rw [h.sn_eq c hc hcr, VSet.nodup_sort]
      unfold VSet.diff
      exact (hnd c).filter _
  · rw [h.dead_sn c hc]; simp

/-- [S] the new separators are duplicate-free when the cliques are -/
theorem sep_nodup (h : CGPostDesc N t t' r) (hnd : ∀ c, (t.snode.getD c #[]).toList.Nodup) (c : Nat) :
    (t'.separators.getD c #[]).toList.Nodup := by
  by_cases hc : c ∈ cgLiveList t
  · by_cases hcr : c = r
    · subst hcr; rw [h.sep_root]; simp
    · rw [h.sep_eq c hc hcr, VSet.nodup_sort]
      unfold VSet.inter
      exact (hnd c).filter _
  · rw [h.dead_sep c hc]; simp

/-- [S] EVERY VERTEX OF A LIVE CLIQUE ENTERS THE TREE SOMEWHERE: climbing from a clique containing
`v` towards the root while the parent clique still contains `v` ends in a clique whose new
supernode contains `v` -/
theorem exists_sn (h : CGPostDesc N t t' r) {c v : Nat} (hv : v ∈ (t.snode.getD c #[]).toList) :
    ∃ c', CGLive t c' ∧ v ∈ (t'.snode.getD c' #[]).toList := by
  have hc := cgpm_live_of_mem hv
  have hreach := h.tree.reaches c ((mem_cgLiveList t c).2 hc)
  induction hreach with
  | root => exact ⟨r, hc, (h.mem_sn_root v).2 hv⟩
  | @step c _ _ ih =>
    by_cases hcr : c = r
    · subst hcr; exact ⟨c, hc, (h.mem_sn_root v).2 hv⟩
    · by_cases hp : v ∈ (t.snode.getD (t'.snodeParent.getD c 0) #[]).toList
      · exact ih hp (cgpm_live_of_mem hp)
      · exact ⟨c, hc, (h.mem_sn hc hcr v).2 ⟨hv, hp⟩⟩

end CGPostDesc

end Clarabel.Chordal
