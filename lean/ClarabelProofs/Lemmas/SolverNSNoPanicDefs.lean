/-
  Panic-freedom of the whole-solver model WITH NONSYMMETRIC CONES (`ClarabelModel/SolverNS/*`, C04) —
  INTERFACE of the stage files `SolverNSNoPanic*.lean`.

  The model has two kinds of `.panic` sites:
  * structural ones — index / slice out of range, `assert!` on lengths, `unwrap()`, `unreachable!()`
    arms, the model's pass budget — which the invariant below excludes for ALL well-formed inputs
    at class [S] (no law of the scalar type);
  * two numerical-domain ones (`NumSite`), which no structural invariant can exclude at `Float`:
      - `"argument not in supported range"`: the `panic!` of `ExponentialCone::_wright_omega(z)` for
        `z < 0` (reached from `gradient_primal` / `barrier_primal` of an exponential cone),
      - `"backtrack_search: fuel"`: the model's fuel for the UNBOUNDED Rust `loop` of
        `backtrack_search` (non-termination in the code, not a panic).

  * `OkOr E x Q`    : `x` returns `.ok b` with `Q b`, or `.error (.panic s)` with `E s` (never `.err`).
  * `ConeFull` / `ConesFull` : every constituent cone object is sized as `make_cone` builds it and as
                      `update_scaling` leaves it (dense 3×3 states need nothing; the generalised power
                      cone's `grad, p, q, r, d1, z` have the lengths of its dimensions).
  * `Shapes KI S`   : the loop invariant of `solve()`.
  * `ConeStage E`, `KktTotal`, `MidStage E`, `Stages` : the stage bundles (same style as
                      `SolverModelNoPanic*.lean`).

  All structural ([S]).
-/
import ClarabelModel.SolverNS.Solve
import ClarabelProofs.Lemmas.SolverModelNoPanicKktSys
import ClarabelProofs.Lemmas.SolverNSLoop

namespace Clarabel.SolverNS
open Clarabel Info Residuals
open Clarabel.Solver (NoPanic OkAnd FmaxOK VarsSized ResidSized DataOK KSized KktSolver LinSettings
  StepDirection KktSys SolutionSized bind_ok_of)

set_option linter.unusedSectionVars false
set_option linter.unusedVariables false

variable {α : Type}

/-! ### the two numerical-domain panic sites -/

/-- the panic sites of the model that are conditions on the NUMBERS, not on the shapes -/
def NumSite (s : String) : Prop :=
  s = "argument not in supported range" ∨ s = "backtrack_search: fuel"

/-- the composite (seen through its KKT view) has an exponential cone -/
def hasExp (specs : List Kkt.ConeSpec) : Prop := Kkt.ConeSpec.exp ∈ specs

/-- the composite (seen through its KKT view) has an exponential, power or generalised power cone -/
def hasNonsym (specs : List Kkt.ConeSpec) : Prop :=
  ∃ c ∈ specs, c = Kkt.ConeSpec.exp ∨ c = Kkt.ConeSpec.pow ∨ ∃ a b, c = Kkt.ConeSpec.genpow a b

/-- the numerical-domain sites a composite with the KKT view `specs` can reach: `_wright_omega` only
with an exponential cone, `backtrack_search` only with a nonsymmetric cone -/
def SiteFor (specs : List Kkt.ConeSpec) (s : String) : Prop :=
  (s = "argument not in supported range" ∧ hasExp specs) ∨ (s = "backtrack_search: fuel" ∧ hasNonsym specs)

theorem SiteFor.numSite {specs : List Kkt.ConeSpec} {s : String} (h : SiteFor specs s) : NumSite s :=
  h.elim (fun h => Or.inl h.1) (fun h => Or.inr h.1)

/-- `x` succeeds with a value satisfying `Q`, or panics at a site allowed by `E`; it never
returns `.err` -/
def OkOr {β : Type} (E : String → Prop) (x : MErr β) (Q : β → Prop) : Prop :=
  match x with
  | .ok b => Q b
  | .error (.panic s) => E s
  | .error (.err _) => False

theorem OkOr.pure {β : Type} {E : String → Prop} {Q : β → Prop} {a : β} (h : Q a) :
    OkOr E (Pure.pure a : MErr β) Q := h

theorem OkOr.ok {β : Type} {E : String → Prop} {Q : β → Prop} {a : β} (h : Q a) :
    OkOr E (Except.ok a : MErr β) Q := h

theorem OkOr.panic {β : Type} {E : String → Prop} {Q : β → Prop} {s : String} (h : E s) :
    OkOr E (Except.error (.panic s) : MErr β) Q := h

theorem OkOr.throw {β : Type} {E : String → Prop} {Q : β → Prop} {s : String} (h : E s) :
    OkOr E (throw (.panic s) : MErr β) Q := h

theorem OkOr.of_okAnd {β : Type} {E : String → Prop} {x : MErr β} {Q : β → Prop} (h : OkAnd x Q) :
    OkOr E x Q := by
  obtain ⟨b, hb, hQ⟩ := h
  subst hb
  exact hQ

theorem OkOr.of_exists {β : Type} {E : String → Prop} {x : MErr β} (h : ∃ b, x = .ok b) :
    OkOr E x (fun _ => True) := by
  obtain ⟨b, hb⟩ := h
  subst hb
  exact trivial

theorem OkOr.bind {β γ : Type} {E : String → Prop} {x : MErr β} {f : β → MErr γ} {P : β → Prop}
    {Q : γ → Prop} (hx : OkOr E x P) (hf : ∀ a, P a → OkOr E (f a) Q) : OkOr E (x >>= f) Q := by
  cases x with
  | error e =>
    cases e with
    | panic s => exact hx
    | err k => exact hx.elim
  | ok a => exact hf a hx

/-- `bind` keeping the equation -/
theorem OkOr.bind' {β γ : Type} {E : String → Prop} {x : MErr β} {f : β → MErr γ} {P : β → Prop}
    {Q : γ → Prop} (hx : OkOr E x P) (hf : ∀ a, x = .ok a → P a → OkOr E (f a) Q) :
    OkOr E (x >>= f) Q := by
  cases x with
  | error e =>
    cases e with
    | panic s => exact hx
    | err k => exact hx.elim
  | ok a => exact hf a rfl hx

theorem OkOr.mono {β : Type} {E : String → Prop} {x : MErr β} {P Q : β → Prop} (hx : OkOr E x P)
    (h : ∀ a, P a → Q a) : OkOr E x Q := by
  cases x with
  | error e =>
    cases e with
    | panic s => exact hx
    | err k => exact hx.elim
  | ok a => exact h a hx

theorem OkOr.mono_site {β : Type} {E E' : String → Prop} {x : MErr β} {Q : β → Prop} (hx : OkOr E x Q)
    (h : ∀ s, E s → E' s) : OkOr E' x Q := by
  cases x with
  | error e =>
    cases e with
    | panic s => exact h s hx
    | err k => exact hx.elim
  | ok a => exact hx

theorem OkOr.of_ok {β : Type} {E : String → Prop} {x : MErr β} {Q : β → Prop} {b : β} (hx : OkOr E x Q)
    (h : x = .ok b) : Q b := by
  subst h; exact hx

/-- the literal reading: every panic of `x` is at a site allowed by `E` -/
theorem OkOr.panic_site {β : Type} {E : String → Prop} {x : MErr β} {Q : β → Prop} (hx : OkOr E x Q)
    {s : String} (h : x = .error (.panic s)) : E s := by
  subst h; exact hx

theorem OkOr.not_err {β : Type} {E : String → Prop} {x : MErr β} {Q : β → Prop} (hx : OkOr E x Q)
    (k : String) : x ≠ .error (.err k) := by
  intro h; subst h; exact hx

/-- no allowed site ⇒ total -/
theorem OkOr.okAnd {β : Type} {x : MErr β} {Q : β → Prop} (hx : OkOr (fun _ => False) x Q) :
    OkAnd x Q := by
  cases x with
  | error e =>
    cases e with
    | panic s => exact hx.elim
    | err k => exact hx.elim
  | ok a => exact ⟨a, rfl, hx⟩

/-! ### consistently sized cone objects -/

/-- a constituent cone object sized as `make_cone` builds it (and as `update_scaling` /
`set_identity_scaling` leave it).  The exponential and power cones keep fixed-size (3, 3×3) data.
The generalised power cone's vectors: `grad`, `p`, `z` of length `dim1 + dim2`, `q`, `d1` of length
`dim1`, `r` of length `dim2`. -/
def ConeFull : ConeSt α → Prop
  | .sym c => Solver.ConeFull c
  | .exp _ => True
  | .pow _ _ => True
  | .genpow al d2 _ K => K.D.grad.size = al.size + d2 ∧ K.D.p.size = al.size + d2 ∧
      K.D.q.size = al.size ∧ K.D.r.size = d2 ∧ K.D.d1.size = al.size ∧ K.z.size = al.size + d2

def ConesFull (cs : List (ConeSt α)) : Prop := ∀ c ∈ cs, ConeFull c

theorem ConesFull.tail {c : ConeSt α} {cs : List (ConeSt α)} (h : ConesFull (c :: cs)) : ConesFull cs :=
  fun c' hc' => h c' (List.mem_cons_of_mem _ hc')

theorem ConesFull.head {c : ConeSt α} {cs : List (ConeSt α)} (h : ConesFull (c :: cs)) : ConeFull c :=
  h c (List.mem_cons_self ..)

theorem ConesFull.cons {c : ConeSt α} {cs : List (ConeSt α)} (hc : ConeFull c) (h : ConesFull cs) :
    ConesFull (c :: cs) := by
  intro c' hc'
  rcases List.mem_cons.mp hc' with rfl | hm
  · exact hc
  · exact h c' hm

theorem ConesFull.nil : ConesFull ([] : List (ConeSt α)) := fun _ h => by cases h

theorem numelAll_nil : numelAll ([] : List (ConeSt α)) = 0 := rfl

theorem numelAll_cons (c : ConeSt α) (cs : List (ConeSt α)) :
    numelAll (c :: cs) = c.numel + numelAll cs := by
  unfold numelAll
  simp only [List.map_cons, List.foldl_cons, Nat.zero_add]
  generalize cs.map ConeSt.numel = l
  have : ∀ (l : List Nat) (a : Nat), l.foldl (· + ·) a = a + l.foldl (· + ·) 0 := by
    intro l
    induction l with
    | nil => intro a; rfl
    | cons b t ih => intro a; simp only [List.foldl_cons, Nat.zero_add]; rw [ih (a + b), ih b]; omega
  exact this l _

/-- `&v[rng_cones[i]]` is in range for every cone when the vector is at least as long as the
composite cone; the slices have the cones' lengths -/
theorem cutE_go_ok (v : Array α) (site : String) :
    ∀ (cones : List (ConeSt α)) (start : Nat), start + numelAll cones ≤ v.size →
      ∃ ps, cutE.go v site cones start = .ok ps ∧
        List.Forall₂ (fun c (p : Array α) => p.size = c.numel) cones ps := by
  intro cones
  induction cones with
  | nil => intro start _; exact ⟨[], rfl, .nil⟩
  | cons c rest ih =>
    intro start h
    rw [numelAll_cons] at h
    obtain ⟨tl, htl, hF⟩ := ih (start + c.numel) (by omega)
    refine ⟨v.extract start (start + c.numel) :: tl, ?_, .cons ?_ hF⟩
    · unfold cutE.go
      rw [if_neg (by omega), htl]
      rfl
    · rw [Array.size_extract]; omega

theorem cutE_ok {cones : List (ConeSt α)} {v : Array α} (site : String) (h : numelAll cones ≤ v.size) :
    ∃ ps, cutE cones v site = .ok ps ∧
      List.Forall₂ (fun c (p : Array α) => p.size = c.numel) cones ps :=
  cutE_go_ok v site cones 0 (by omega)

/-! ### the invariant of `solve()` -/

/-- **The loop invariant of `solve()`** (model with nonsymmetric cones): every vector of the solver
object has the problem's dimension, the cone objects are sized consistently and cover `m` entries,
the data is well formed, and the linear solver object satisfies its own invariant `KI`. -/
structure Shapes (KI : KktSolver α → Prop) (S : SolverSt α) : Prop where
  data : DataOK S.data
  vars : VarsSized S.data.n S.data.m S.variables
  resid : ResidSized S.data.n S.data.m S.residuals
  stepLhs : VarsSized S.data.n S.data.m S.stepLhs
  stepRhs : VarsSized S.data.n S.data.m S.stepRhs
  prevVars : VarsSized S.data.n S.data.m S.prevVars
  cones : ConesFull S.cones
  numel : numelAll S.cones = S.data.m
  ksized : KSized S.data.n S.data.m S.kktsystem
  kkt : KI S.kktsystem.kktsolver

/-- rebuild the invariant for a state with the same data from its components -/
theorem Shapes.of_fields {KI KI' : KktSolver α → Prop} {S S' : SolverSt α} (h : Shapes KI S)
    (hd : S'.data = S.data)
    (hv : VarsSized S.data.n S.data.m S'.variables) (hr : ResidSized S.data.n S.data.m S'.residuals)
    (hl : VarsSized S.data.n S.data.m S'.stepLhs) (hrhs : VarsSized S.data.n S.data.m S'.stepRhs)
    (hp : VarsSized S.data.n S.data.m S'.prevVars) (hc : ConesFull S'.cones)
    (hn : numelAll S'.cones = S.data.m) (hK : KSized S.data.n S.data.m S'.kktsystem)
    (hKI : KI' S'.kktsystem.kktsolver) : Shapes KI' S' := by
  refine ⟨hd ▸ h.data, ?_, ?_, ?_, ?_, ?_, hc, ?_, ?_, hKI⟩ <;> rw [hd]
  · exact hv
  · exact hr
  · exact hl
  · exact hrhs
  · exact hp
  · exact hn
  · exact hK

/-- the loop invariant, anchored at the problem `(d, specs)` -/
structure PInv (KI : KktSolver α → Prop) (d : ProblemData α) (specs : List Kkt.ConeSpec)
    (S : SolverSt α) : Prop where
  shapes : Shapes KI S
  data : S.data = d
  specs : S.cones.map ConeSt.kktSpec = specs

/-- the solver object `DefaultSolver::new` builds, and every `solve()` leaves -/
structure SolverInv (KI : KktSolver α → Prop) (d : ProblemData α) (specs : List Kkt.ConeSpec)
    (S : Solver α) : Prop where
  st : PInv KI d specs S.st
  solution : SolutionSized d S.solution

section
variable [Add α] [Sub α] [Mul α] [Div α] [Neg α] [LT α] [LE α] [DecidableLT α] [DecidableLE α]
  [BEq α] [OfNat α 0] [OfNat α 1] [OfNat α 2] [OfNat α 3] [OfNat α 4] [OfNat α 100] [OfNat α 1000]
  [OfScientific α] [FloatLike α]

/-! ### stage 1: the composite cone -/

/-- totality of the composite-cone operations on consistently sized cone objects and vectors of
the composite cone's dimension, with the sizes of what they return
(`SolverNSNoPanicCones*.lean`).  `E` = the allowed numerical-domain panic sites. -/
structure ConeStage (E : String → Prop) (specs : List Kkt.ConeSpec) : Prop where
  updateScaling : ∀ (cones : List (ConeSt α)) (s z : Array α) (mu : α) (dual : Bool), ConesFull cones →
    s.size = numelAll cones → z.size = numelAll cones →
    cones.map ConeSt.kktSpec = specs → OkOr E (updateScaling cones s z mu dual) (fun r => ConesFull r.2
      ∧ r.2.map ConeSt.kktSpec = cones.map ConeSt.kktSpec ∧ numelAll r.2 = numelAll cones)
  affineDs : ∀ (cones : List (ConeSt α)) (ds s : Array α), ConesFull cones → ds.size = numelAll cones →
    s.size = numelAll cones →
    cones.map ConeSt.kktSpec = specs → OkAnd (affineDs cones ds s) (fun o => o.size = ds.size)
  mulHs : ∀ (cones : List (ConeSt α)) (y x : Array α), ConesFull cones → y.size = numelAll cones →
    x.size = numelAll cones →
    cones.map ConeSt.kktSpec = specs → OkAnd (mulHs cones y x) (fun o => o.size = y.size)
  combinedDsShift : ∀ (cones : List (ConeSt α)) (shift stepZ stepS : Array α) (σμ : α), ConesFull cones →
    shift.size = numelAll cones → stepZ.size = numelAll cones → stepS.size = numelAll cones →
    cones.map ConeSt.kktSpec = specs → OkAnd (combinedDsShift cones shift stepZ stepS σμ)
      (fun o => o.1.size = shift.size ∧ o.2.1.size = stepZ.size ∧ o.2.2.size = stepS.size)
  dsFromDzOffset : ∀ (cones : List (ConeSt α)) (out ds z : Array α), ConesFull cones →
    out.size = numelAll cones → ds.size = numelAll cones → z.size = numelAll cones →
    cones.map ConeSt.kktSpec = specs → OkAnd (dsFromDzOffset cones out ds z) (fun o => o.size = out.size)
  stepLength : ∀ (ls : LineSearch α) (cones : List (ConeSt α)) (dz ds z s : Array α) (msf amax : α),
    ConesFull cones → dz.size = numelAll cones → ds.size = numelAll cones → z.size = numelAll cones →
    s.size = numelAll cones →
    cones.map ConeSt.kktSpec = specs → OkOr E (stepLength ls cones dz ds z s msf amax) (fun _ => True)
  unitInitialization : ∀ (cones : List (ConeSt α)) (z s : Array α), ConesFull cones →
    z.size = numelAll cones → s.size = numelAll cones →
    cones.map ConeSt.kktSpec = specs → OkAnd (unitInitialization cones z s) (fun o => o.1.size = z.size ∧ o.2.size = s.size)
  computeBarrier : ∀ (cones : List (ConeSt α)) (z s dz ds : Array α) (a : α), ConesFull cones →
    z.size = numelAll cones → s.size = numelAll cones → dz.size = numelAll cones →
    ds.size = numelAll cones →
    cones.map ConeSt.kktSpec = specs → OkOr E (computeBarrier cones z s dz ds a) (fun _ => True)
  getHs : ∀ (cones : List (ConeSt α)), ConesFull cones →
    cones.map ConeSt.kktSpec = specs → OkAnd (getHs cones) (fun hs => hs.size = Kkt.hsblocksLen (cones.map ConeSt.kktSpec))
  setIdentity : ∀ (cones : List (ConeSt α)), isSymmetric cones = true → ConesFull cones →
    cones.map ConeSt.kktSpec = specs → OkAnd (setIdentityScaling cones) (fun cs => ConesFull cs
      ∧ cs.map ConeSt.kktSpec = cones.map ConeSt.kktSpec ∧ numelAll cs = numelAll cones
      ∧ isSymmetric cs = true)
  symInit : ∀ (cones : List (ConeSt α)) (v : Vars α) (n m : Nat), isSymmetric cones = true →
    ConesFull cones → numelAll cones = m → VarsSized n m v →
    cones.map ConeSt.kktSpec = specs → OkAnd (symmetricInitialization v cones) (VarsSized n m)

/-! ### stage 2: the linear solver object -/

/-- what `solve()` needs from the linear solver object: `update` (this model's `kktSolverUpdate`:
`get_Hs` of every cone, `csc_update_sparsecone` of the sparse second-order and the generalised power
cones) is total on `KIw` and establishes `KIs` (whatever flag it returns); `setrhs; solve` is total
on `KIs`, returns parts of the right lengths and keeps `KIs`; `KIs` implies `KIw`. -/
structure KktTotal (KIw KIs : KktSolver α → Prop) (specs : List Kkt.ConeSpec) (n m : Nat)
    (st : LinSettings α) : Prop where
  update : ∀ (K : KktSolver α) (cones : List (ConeSt α)), KIw K → ConesFull cones →
    cones.map ConeSt.kktSpec = specs → ∃ r, kktSolverUpdate K cones st = .ok r ∧ KIs r.2
  weaken : ∀ (K : KktSolver α), KIs K → KIw K
  solve : ∀ (K : KktSolver α) (rx rz : Array α), KIs K → rx.size = n → rz.size = m →
    ∃ r, (K.setrhs rx rz >>= fun K1 => K1.solve st) = .ok r ∧ r.2.1.size = n ∧ r.2.2.1.size = m
      ∧ KIs r.2.2.2

/-- the `setrhs; solve` half as an instance of the interface of the symmetric model, so that its
cone-independent stage lemmas (`Solver.solveConstantRhs_ok`, `Solver.solveInitialPoint_ok`) apply
unchanged.  (The `update` field of that interface quantifies over cone lists of the symmetric model
whose KKT view is the given spec list: none has the view `[exp]`.) -/
theorem KktTotal.toSolve {KIw KIs : KktSolver α → Prop} {specs : List Kkt.ConeSpec} {n m : Nat}
    {st : LinSettings α} (T : KktTotal KIw KIs specs n m st) :
    Solver.KktTotal2 KIw KIs [Kkt.ConeSpec.exp] n m st where
  update := fun K cones _ _ hs => by
    cases cones with
    | nil => cases hs
    | cons c cs =>
      simp only [List.map_cons, List.cons.injEq] at hs
      cases c <;> cases hs.1
  weaken := T.weaken
  solve := T.solve

/-! ### stage 3: `DefaultVariables`, `DefaultKKTSystem`, the top of a pass -/

/-- the stage lemmas of `SolverNS/Vars.lean`, `SolverNS/KktSys.lean` and of the numerics at the top
of a pass, in the form the composition (`SolverNSNoPanicPass.lean`) consumes them
(`SolverNSNoPanicVars.lean`) -/
structure MidStage (E : String → Prop) (specs : List Kkt.ConeSpec) : Prop where
  topNumerics : ∀ (S : SolverSt α) (iter : Nat), DataOK S.data →
    VarsSized S.data.n S.data.m S.variables → ResidSized S.data.n S.data.m S.residuals →
    OkAnd (topNumerics S iter) (fun r => ResidSized S.data.n S.data.m r.1)
  scaleCones : ∀ (n m : Nat) (v : Vars α) (cones : List (ConeSt α)) (mu : α) (dual : Bool),
    ConesFull cones → numelAll cones = m → VarsSized n m v → cones.map ConeSt.kktSpec = specs →
    OkOr E (scaleCones v cones mu dual) (fun r => ConesFull r.2
      ∧ r.2.map ConeSt.kktSpec = cones.map ConeSt.kktSpec ∧ numelAll r.2 = m)
  affineStepRhs : ∀ (n m : Nat) (self vars : Vars α) (r : Resid α) (cones : List (ConeSt α)),
    ConesFull cones → numelAll cones = m → VarsSized n m self → ResidSized n m r → VarsSized n m vars →
    cones.map ConeSt.kktSpec = specs → OkAnd (affineStepRhs self r vars cones) (VarsSized n m)
  combinedStepRhs : ∀ (n m : Nat) (self vars step : Vars α) (r : Resid α) (cones : List (ConeSt α))
    (σ μ mm : α), ConesFull cones → numelAll cones = m → VarsSized n m self → ResidSized n m r →
    VarsSized n m vars → VarsSized n m step → cones.map ConeSt.kktSpec = specs →
    OkAnd (combinedStepRhs self r vars cones step σ μ mm)
      (fun o => VarsSized n m o.1 ∧ VarsSized n m o.2)
  calcStepLength : ∀ (n m : Nat) (ls : LineSearch α) (vars step : Vars α) (cones : List (ConeSt α))
    (maxValue msf : α) (dir : StepDirection), ConesFull cones → numelAll cones = m →
    VarsSized n m vars → VarsSized n m step → cones.map ConeSt.kktSpec = specs →
    OkOr E (calcStepLength ls vars step cones maxValue msf dir) (fun _ => True)
  barrier : ∀ (n m : Nat) (v step : Vars α) (a : α) (cones : List (ConeSt α)), ConesFull cones →
    numelAll cones = m → VarsSized n m v → VarsSized n m step → cones.map ConeSt.kktSpec = specs →
    OkOr E (barrier v step a cones) (fun _ => True)
  unitInit : ∀ (n m : Nat) (v : Vars α) (cones : List (ConeSt α)), ConesFull cones →
    numelAll cones = m → VarsSized n m v → cones.map ConeSt.kktSpec = specs →
    OkAnd (varsUnitInitialization v cones) (VarsSized n m)
  kktSysUpdate : ∀ (KIw KIs : KktSolver α → Prop) (n m : Nat) (st : LinSettings α) (S : KktSys α)
    (data : ProblemData α) (cones : List (ConeSt α)),
    KktTotal KIw KIs (cones.map ConeSt.kktSpec) n m st → KSized n m S → KIw S.kktsolver →
    ConesFull cones → data.q.size = n → data.b.size = m →
    OkAnd (kktSysUpdate S data cones st) (fun r => KSized n m r.2 ∧ KIs r.2.kktsolver)
  kktSysSolve : ∀ (KIw KIs : KktSolver α → Prop) (specs' : List Kkt.ConeSpec) (n m : Nat)
    (st : LinSettings α) (S : KktSys α) (data : ProblemData α) (lhs rhs vars : Vars α)
    (cones : List (ConeSt α)) (dir : StepDirection),
    KktTotal KIw KIs specs' n m st → DataOK data → data.n = n → data.m = m → KSized n m S →
    KIs S.kktsolver → ConesFull cones → numelAll cones = m → VarsSized n m lhs → VarsSized n m rhs →
    VarsSized n m vars → cones.map ConeSt.kktSpec = specs →
    OkAnd (kktSysSolve S lhs rhs data vars cones dir st)
      (fun r => VarsSized n m r.2.1 ∧ KSized n m r.2.2 ∧ KIs r.2.2.kktsolver)

/-- the stages a `solve()` on the problem `(d, specs)` runs through -/
structure Stages (E : String → Prop) (KIw KIs : KktSolver α → Prop) (d : ProblemData α)
    (specs : List Kkt.ConeSpec) (st : Settings α) : Prop where
  cone : ConeStage (α := α) E specs
  mid : MidStage (α := α) E specs
  kkt : KktTotal KIw KIs specs d.n d.m st.lin

end

end Clarabel.SolverNS
