/-
  C06, round 7 — the Nesterov–Todd identities of C13 on ONE cone of the whole-solver model's
  composite (`ClarabelModel/Solver/Cones.lean`), in the LIST form of `StepPassHs.lean`
  (`hs1L`, `hsDotL`), for the state `update_scaling` leaves at an interior `(s, z)`:

    (b) `Hs z = s`                                  (`hs1L_nt`)
    (c) `z · Δs_from_Δz_offset(d, z) = ⟨e, d⟩`      (`off1L_dot`)
    (d) `⟨e, affine_ds⟩ = s · z`                     (`ads1L_dot`)
    (e) `⟨e, combined_ds_shift(Δz, Δs, σμ)⟩ = Δs · Δz − degree · σμ`   (`shift1L_dot`)

  `e` is the cone's identity element (`coneId1L`: all ones on a nonnegative cone, `(1, 0, …, 0)`
  on a second-order cone, `0` on the rows of a zero cone).  `NTBlock c' s z` describes the cone
  state `c'` after a successful `update_scaling` on the slices `(s, z)`; `ntBlock_of_update`
  extracts it from the model's `updateScaling1`.  Scalar type ℝ.

  The blockwise lift over the cone list is `StepPassMuLift.lean`, the composition with one pass of
  the whole-solver model `StepPassMu.lean`.
-/
import ClarabelProofs.Lemmas.StepPassHs
import ClarabelProofs.Lemmas.StepSoc
import ClarabelProofs.Lemmas.ConesNN

namespace Clarabel.Solver
open Clarabel Clarabel.Lemmas

set_option linter.unusedVariables false

/-! ## list helpers -/

theorem hsDotL_eq_dotL : ∀ (u v : List ℝ), hsDotL u v = Soc.dotL u v
  | [], v => by rw [hsDotL_nil_left, Soc.dotL_nil_left]
  | u0 :: u, [] => by rw [hsDotL_nil_right, Soc.dotL_nil_right]
  | u0 :: u, v0 :: v => by rw [hsDotL_cons, Soc.dotL_cons, hsDotL_eq_dotL u v]

theorem hsDotL_replicate_zero (n : Nat) (x : List ℝ) : hsDotL (List.replicate n 0) x = 0 := by
  induction n generalizing x with
  | zero => exact hsDotL_nil_left _
  | succ k ih =>
    cases x with
    | nil => exact hsDotL_nil_right _
    | cons b x => rw [List.replicate_succ, hsDotL_cons, ih]; ring

theorem hsDotL_replicate_one : ∀ (x : List ℝ), hsDotL (List.replicate x.length 1) x = x.sum
  | [] => by simp [hsDotL]
  | a :: x => by
    rw [List.length_cons, List.replicate_succ, hsDotL_cons, hsDotL_replicate_one x, List.sum_cons]
    ring

theorem hsDotL_all_zero_left (u v : List ℝ) (h : ∀ x ∈ u, x = 0) : hsDotL u v = 0 := by
  induction u generalizing v with
  | nil => exact hsDotL_nil_left _
  | cons a t ih =>
    cases v with
    | nil => exact hsDotL_nil_right _
    | cons b v =>
      rw [hsDotL_cons, ih v (fun x hx => h x (List.mem_cons_of_mem _ hx)), h a (List.mem_cons_self ..)]
      ring

/-! ## the identity element of one cone -/

/-- the identity element `e` of one cone: `0` on a zero cone (no complementarity rows), all ones on
a nonnegative cone, `(1, 0, …, 0)` on a second-order cone -/
def coneId1L : ConeSt ℝ → List ℝ
  | .zero d => List.replicate d 0
  | .nonneg K => List.replicate K.w.size 1
  | .soc K => 1 :: List.replicate (K.dim - 1) 0

theorem coneId1L_length (c : ConeSt ℝ) (hc : ConeFull c) : (coneId1L c).length = c.numel := by
  cases c with
  | zero d => simp [coneId1L, ConeSt.numel]
  | nonneg K => simp [coneId1L, ConeSt.numel]
  | soc K =>
    obtain ⟨h2, -⟩ := hc
    simp only [coneId1L, ConeSt.numel, List.length_cons, List.length_replicate]
    omega

/-! ## the per-cone functions of the step in list form -/

/-- `Δs_from_Δz_offset` of one cone on its rows `(ds, z)` -/
noncomputable def off1L : ConeSt ℝ → List ℝ → List ℝ → List ℝ
  | .zero _, d, _ => d.map (fun _ => 0)
  | .nonneg _, d, z => List.zipWith (fun di zi => di / zi) d z
  | .soc K, d, z =>
    match d, z, K.lam.toList, K.w.toList with
    | d0 :: d1, z0 :: z1, l0 :: l1, w0 :: w1 =>
      (Soc.dsFromDzOffsetCore d0 d1 z0 z1 l0 l1 w0 w1 K.eta).1
        :: (Soc.dsFromDzOffsetCore d0 d1 z0 z1 l0 l1 w0 w1 K.eta).2
    | _, _, _, _ => []

/-- `affine_ds` of one cone (`λ ∘ λ`; zero on a zero cone of `n` rows) -/
noncomputable def ads1L : ConeSt ℝ → List ℝ
  | .zero d => List.replicate d 0
  | .nonneg K => K.lam.toList.map (fun li => li * li)
  | .soc K =>
    match K.lam.toList with
    | l0 :: l1 => (Soc.circOpCore l0 l1 l0 l1).1 :: (Soc.circOpCore l0 l1 l0 l1).2
    | _ => []

/-- `combined_ds_shift` of one cone on its rows `(step_z, step_s)`: `(shift, W step_z, W⁻¹ step_s)` -/
noncomputable def shift1L : ConeSt ℝ → List ℝ → List ℝ → ℝ → List ℝ × List ℝ × List ℝ
  | .zero _, dz, ds, _ => (dz.map (fun _ => 0), dz, ds)
  | .nonneg K, dz, ds, σμ =>
    (List.zipWith (fun a b => a * b + -σμ) (List.zipWith (fun x w => x / w) ds K.w.toList)
        (List.zipWith (fun x w => x * w) dz K.w.toList),
      List.zipWith (fun x w => x * w) dz K.w.toList, List.zipWith (fun x w => x / w) ds K.w.toList)
  | .soc K, dz, ds, σμ =>
    match dz, ds, K.w.toList with
    | z0 :: z1, s0 :: s1, w0 :: w1 =>
      let wz := Soc.mulWCore z0 z1 z0 z1 1 0 w0 w1 K.eta
      let ws := Soc.mulWinvCore s0 s1 s0 s1 1 0 w0 w1 K.eta
      let c := Soc.circOpCore ws.1 ws.2 wz.1 wz.2
      ((c.1 + -σμ) :: c.2, wz.1 :: wz.2, ws.1 :: ws.2)
    | _, _, _ => ([], [], [])

/-! ## the state after a successful `update_scaling` at an interior point -/

/-- what a successful `update_scaling` at the interior pair `s = (s₀, s₁)`, `z = (z₀, z₁)` leaves
in a second-order cone: normalised `w = (w₀, w₁)`, `η ≠ 0`, `λ = (l₀, l₁)` with `W z = λ = W⁻¹ s`
and `(WᵀW) z = s` (C13: `soc_w_normalised`, `soc_NT_identities`, `soc_WtW_z_eq_s`) -/
structure SocNT (K : Soc.Cone ℝ) (s0 : ℝ) (s1 : List ℝ) (z0 : ℝ) (z1 : List ℝ)
    (w0 : ℝ) (w1 : List ℝ) (l0 : ℝ) (l1 : List ℝ) : Prop where
  w : K.w = Soc.join w0 w1
  lam : K.lam = Soc.join l0 l1
  norm : w0 ^ 2 - Soc.dotL w1 w1 = 1
  w0pos : 0 < w0
  eta : K.eta ≠ 0
  wlen : w1.length = z1.length
  llen : l1.length = z1.length
  slen : s1.length = z1.length
  dim : K.dim = z1.length + 1
  sint : Soc.Interior s0 s1
  zint : Soc.Interior z0 z1
  Wz : Soc.mulWCore z0 z1 z0 z1 1 0 w0 w1 K.eta = (l0, l1)
  Winvs : Soc.mulWinvCore z0 z1 s0 s1 1 0 w0 w1 K.eta = (l0, l1)
  WtWz : Soc.mulHsCore z0 z1 w0 w1 K.eta = (s0, s1)

/-- the cone state `c'` is the Nesterov–Todd scaling at the rows `(s, z)`: a zero cone with `s = 0`;
a nonnegative cone with `w = √(s/z)`, `λ = √(s·z)`, `s, z > 0`; a second-order cone as in `SocNT` -/
def NTBlock : ConeSt ℝ → List ℝ → List ℝ → Prop
  | .zero d, s, z => s.length = d ∧ z.length = d ∧ ∀ x ∈ s, x = 0
  | .nonneg K, s, z => s.length = K.w.size ∧ z.length = K.w.size
      ∧ K.w.toList = List.zipWith (fun si zi => Real.sqrt (si / zi)) s z
      ∧ K.lam.toList = List.zipWith (fun si zi => Real.sqrt (si * zi)) s z
      ∧ (∀ x ∈ s, 0 < x) ∧ (∀ x ∈ z, 0 < x)
  | .soc K, s, z => ∃ s0 s1 z0 z1 w0 w1 l0 l1, s = s0 :: s1 ∧ z = z0 :: z1
      ∧ SocNT K s0 s1 z0 z1 w0 w1 l0 l1

/-- the rows `(s, z)` of one cone are interior: `s = 0` on a zero cone (the primal cone is `{0}`;
`z` is free), `s, z > 0` on a nonnegative cone, `s, z` strictly inside a second-order cone -/
def BlockInterior : ConeSt ℝ → List ℝ → List ℝ → Prop
  | .zero _, s, _ => ∀ x ∈ s, x = 0
  | .nonneg _, s, z => (∀ x ∈ s, 0 < x) ∧ (∀ x ∈ z, 0 < x)
  | .soc _, s, z => ∃ s0 s1 z0 z1, s = s0 :: s1 ∧ z = z0 :: z1 ∧ Soc.Interior s0 s1
      ∧ Soc.Interior z0 z1

theorem NTBlock.slen {c : ConeSt ℝ} {s z : List ℝ} (h : NTBlock c s z) : s.length = c.numel := by
  cases c with
  | zero d => exact h.1
  | nonneg K => exact h.1
  | soc K =>
    obtain ⟨s0, s1, z0, z1, w0, w1, l0, l1, rfl, rfl, hn⟩ := h
    show (s0 :: s1).length = K.dim
    rw [hn.dim, List.length_cons, hn.slen]

theorem NTBlock.zlen {c : ConeSt ℝ} {s z : List ℝ} (h : NTBlock c s z) : z.length = c.numel := by
  cases c with
  | zero d => exact h.2.1
  | nonneg K => exact h.2.1
  | soc K =>
    obtain ⟨s0, s1, z0, z1, w0, w1, l0, l1, rfl, rfl, hn⟩ := h
    show (z0 :: z1).length = K.dim
    rw [hn.dim, List.length_cons]

/-! ## nonnegative cone: the scalar identities on lists -/

theorem nn_hs_list : ∀ (s z : List ℝ), s.length = z.length → (∀ x ∈ s, 0 < x) → (∀ x ∈ z, 0 < x) →
    List.zipWith (fun wi xi => wi * (wi * xi)) (List.zipWith (fun si zi => Real.sqrt (si / zi)) s z) z = s
  | [], [], _, _, _ => rfl
  | s0 :: s, z0 :: z, h, hs, hz => by
    have hs0 := hs s0 (List.mem_cons_self ..)
    have hz0 := hz z0 (List.mem_cons_self ..)
    rw [List.zipWith_cons_cons, List.zipWith_cons_cons,
      nn_hs_list s z (by simpa using h) (fun x hx => hs x (List.mem_cons_of_mem _ hx))
        (fun x hx => hz x (List.mem_cons_of_mem _ hx))]
    congr 1
    rw [← mul_assoc, Real.mul_self_sqrt (div_pos hs0 hz0).le]
    field_simp
  | [], _ :: _, h, _, _ => by simp at h
  | _ :: _, [], h, _, _ => by simp at h

theorem nn_off_dot : ∀ (d z : List ℝ), d.length = z.length → (∀ x ∈ z, 0 < x) →
    hsDotL z (List.zipWith (fun di zi => di / zi) d z) = d.sum
  | [], [], _, _ => by simp [hsDotL]
  | d0 :: d, z0 :: z, h, hz => by
    have hz0 := hz z0 (List.mem_cons_self ..)
    rw [List.zipWith_cons_cons, hsDotL_cons,
      nn_off_dot d z (by simpa using h) (fun x hx => hz x (List.mem_cons_of_mem _ hx)), List.sum_cons]
    congr 1
    field_simp
  | [], _ :: _, h, _ => by simp at h
  | _ :: _, [], h, _ => by simp at h

theorem nn_ads_sum : ∀ (s z : List ℝ), s.length = z.length → (∀ x ∈ s, 0 < x) → (∀ x ∈ z, 0 < x) →
    ((List.zipWith (fun si zi => Real.sqrt (si * zi)) s z).map (fun li => li * li)).sum = hsDotL s z
  | [], [], _, _, _ => by simp [hsDotL]
  | s0 :: s, z0 :: z, h, hs, hz => by
    have hs0 := hs s0 (List.mem_cons_self ..)
    have hz0 := hz z0 (List.mem_cons_self ..)
    rw [List.zipWith_cons_cons, List.map_cons, List.sum_cons, hsDotL_cons,
      nn_ads_sum s z (by simpa using h) (fun x hx => hs x (List.mem_cons_of_mem _ hx))
        (fun x hx => hz x (List.mem_cons_of_mem _ hx)), Real.mul_self_sqrt (mul_pos hs0 hz0).le]
  | [], _ :: _, h, _, _ => by simp at h
  | _ :: _, [], h, _, _ => by simp at h

theorem nn_shift_sum (σμ : ℝ) : ∀ (w dz ds : List ℝ), dz.length = w.length → ds.length = w.length →
    (∀ x ∈ w, x ≠ 0) →
    (List.zipWith (fun a b => a * b + -σμ) (List.zipWith (fun x w => x / w) ds w)
        (List.zipWith (fun x w => x * w) dz w)).sum = hsDotL ds dz - (w.length : ℝ) * σμ
  | [], [], [], _, _, _ => by simp [hsDotL]
  | w0 :: w, z0 :: dz, s0 :: ds, h1, h2, hw => by
    have hw0 := hw w0 (List.mem_cons_self ..)
    rw [List.zipWith_cons_cons, List.zipWith_cons_cons, List.zipWith_cons_cons, List.sum_cons,
      hsDotL_cons, nn_shift_sum σμ w dz ds (by simpa using h1) (by simpa using h2)
        (fun x hx => hw x (List.mem_cons_of_mem _ hx)), List.length_cons]
    push_cast
    field_simp
    ring
  | [], _ :: _, _, h, _, _ => by simp at h
  | [], [], _ :: _, _, h, _ => by simp at h
  | _ :: _, [], _, h, _, _ => by simp at h
  | _ :: _, _ :: _, [], _, h, _ => by simp at h

theorem nn_w_ne_zero (s z : List ℝ) (h : s.length = z.length) (hs : ∀ x ∈ s, 0 < x)
    (hz : ∀ x ∈ z, 0 < x) : ∀ x ∈ List.zipWith (fun si zi => Real.sqrt (si / zi)) s z, x ≠ 0 := by
  intro x hx
  rw [List.mem_iff_getElem] at hx
  obtain ⟨i, hi, rfl⟩ := hx
  rw [List.getElem_zipWith]
  have hi' : i < s.length ∧ i < z.length := by simpa using hi
  exact (Real.sqrt_pos.mpr (div_pos (hs _ (List.getElem_mem hi'.1)) (hz _ (List.getElem_mem hi'.2)))).ne'

/-! ## second-order cone: the identities on the core functions -/

/-- `⟨W⁻¹a, Wb⟩ = ⟨a, b⟩` (normalised `w`, `η ≠ 0`), whatever the output buffers were -/
theorem soc_Winv_W_dot (w0 : ℝ) (w1 : List ℝ) (eta : ℝ) (hw : w0 ^ 2 - Soc.dotL w1 w1 = 1) (hw0 : 0 < w0)
    (he : eta ≠ 0) (a0 : ℝ) (a1 : List ℝ) (b0 : ℝ) (b1 : List ℝ) (ya0 : ℝ) (ya1 : List ℝ) (yb0 : ℝ)
    (yb1 : List ℝ) (ha : a1.length = w1.length) (hb : b1.length = w1.length)
    (hya : ya1.length = w1.length) (hyb : yb1.length = w1.length) :
    (Soc.mulWinvCore ya0 ya1 a0 a1 1 0 w0 w1 eta).1 * (Soc.mulWCore yb0 yb1 b0 b1 1 0 w0 w1 eta).1
      + Soc.dotL (Soc.mulWinvCore ya0 ya1 a0 a1 1 0 w0 w1 eta).2 (Soc.mulWCore yb0 yb1 b0 b1 1 0 w0 w1 eta).2
      = a0 * b0 + Soc.dotL a1 b1 := by
  have e : Soc.mulWinvCore ya0 ya1 a0 a1 1 0 w0 w1 eta = Soc.mulWinvCore yb0 yb1 a0 a1 1 0 w0 w1 eta := by
    rw [Soc.mulWinvCore_one_zero _ _ _ _ _ _ _ hya ha, Soc.mulWinvCore_one_zero _ _ _ _ _ _ _ hyb ha]
  rw [e]
  have hul : (Soc.mulWCore yb0 yb1 b0 b1 1 0 w0 w1 eta).2.length = w1.length := by
    rw [Soc.mulWCore_one_zero _ _ _ _ _ _ _ hyb hb]; simp [hb]
  rw [Soc.mulWinv_adjoint a0 a1 _ _ w0 w1 eta yb0 yb1 ha hul hyb]
  have := Soc.mulWinv_mulW b0 b1 w0 w1 eta yb0 yb0 yb1 yb1 hw hw0 he hb hyb hyb
  simp only at this
  rw [this]

theorem dotL_off_tail (k eta c2 rl : ℝ) : ∀ (z1 d1 w1 : List ℝ), d1.length = z1.length →
    w1.length = z1.length →
    Soc.dotL z1 ((List.zipWith (fun zi (p : ℝ × ℝ) => (-zi) * k + eta * (p.1 + c2 * p.2)) z1
        (d1.zip w1)).map (fun oi => oi * rl))
      = (-(k * Soc.dotL z1 z1) + eta * (Soc.dotL z1 d1 + c2 * Soc.dotL z1 w1)) * rl
  | [], _, _, _, _ => by simp
  | z0 :: z1, d0 :: d1, w0 :: w1, h1, h2 => by
    simp only [List.zip_cons_cons, List.zipWith_cons_cons, List.map_cons, Soc.dotL_cons]
    rw [dotL_off_tail k eta c2 rl z1 d1 w1 (by simpa using h1) (by simpa using h2)]
    ring
  | _ :: _, [], _, h, _ => by simp at h
  | _ :: _, _ :: _, [], _, h => by simp at h

/-- SOC: `⟨z, Δs_from_Δz_offset(d, z)⟩ = d₀` when `λ₁` is the tail of `W z`, `λ₀ ≠ 0` and
`z₀² ≠ ‖z₁‖²` (the "more stable" formula of `socone.rs`, directly) -/
theorem soc_off_dot (z0 : ℝ) (z1 : List ℝ) (d0 : ℝ) (d1 : List ℝ) (l0 : ℝ) (l1 : List ℝ) (w0 : ℝ)
    (w1 : List ℝ) (eta : ℝ) (hres : z0 ^ 2 - Soc.dotL z1 z1 ≠ 0) (hl0 : l0 ≠ 0) (h1w : 1 + w0 ≠ 0)
    (hd : d1.length = z1.length) (hwl : w1.length = z1.length)
    (hl1 : l1 = List.zipWith (fun wi xi => eta * (z0 + Soc.dotL w1 z1 / (1 + w0)) * wi + eta * xi) w1 z1) :
    z0 * (Soc.dsFromDzOffsetCore d0 d1 z0 z1 l0 l1 w0 w1 eta).1
      + Soc.dotL z1 (Soc.dsFromDzOffsetCore d0 d1 z0 z1 l0 l1 w0 w1 eta).2 = d0 := by
  have hld : Soc.dotL l1 d1 = eta * (z0 + Soc.dotL w1 z1 / (1 + w0)) * Soc.dotL d1 w1
      + eta * Soc.dotL d1 z1 := by
    rw [Soc.dotL_comm, hl1]
    exact Soc.dotL_lin w1 z1 d1 _ _ hwl
  simp only [Soc.dsFromDzOffsetCore, Soc.socResidual_eq]
  rw [dotL_off_tail _ _ _ _ z1 d1 w1 hd hwl, hld, Soc.dotL_comm w1 d1, Soc.dotL_comm z1 d1,
    Soc.dotL_comm z1 w1]
  field_simp
  ring

/-! ## the four identities on one cone -/

theorem soc_toList_w {K : Soc.Cone ℝ} {w0 : ℝ} {w1 : List ℝ} (h : K.w = Soc.join w0 w1) :
    K.w.toList = w0 :: w1 := by rw [h]; rfl

theorem soc_toList_lam {K : Soc.Cone ℝ} {l0 : ℝ} {l1 : List ℝ} (h : K.lam = Soc.join l0 l1) :
    K.lam.toList = l0 :: l1 := by rw [h]; rfl

/-- **(b) `Hs z = s` on one cone** at its Nesterov–Todd scaling -/
theorem hs1L_nt {c : ConeSt ℝ} {s z : List ℝ} (h : NTBlock c s z) : hs1L c z = s := by
  cases c with
  | zero d =>
    obtain ⟨hs, hz, h0⟩ := h
    show z.map (fun _ => (0 : ℝ)) = s
    apply List.ext_getElem
    · simp [hs, hz]
    · intro i h1 h2
      rw [List.getElem_map, h0 _ (List.getElem_mem h2)]
  | nonneg K =>
    obtain ⟨hs, hz, hw, hl, hsp, hzp⟩ := h
    show List.zipWith _ K.w.toList z = s
    rw [hw]
    exact nn_hs_list s z (hs.trans hz.symm) hsp hzp
  | soc K =>
    obtain ⟨s0, s1, z0, z1, w0, w1, l0, l1, rfl, rfl, hn⟩ := h
    unfold hs1L
    simp only [soc_toList_w hn.w]
    rw [← soc_core_eq, hn.WtWz]

theorem SocNT.l0_ne {K : Soc.Cone ℝ} {s0 z0 w0 l0 : ℝ} {s1 z1 w1 l1 : List ℝ}
    (hn : SocNT K s0 s1 z0 z1 w0 w1 l0 l1) :
    l0 ≠ 0 ∧ l1 = List.zipWith (fun wi xi => K.eta * (z0 + Soc.dotL w1 z1 / (1 + w0)) * wi + K.eta * xi) w1 z1 := by
  have h := hn.Wz
  rw [Soc.mulWCore_one_zero _ _ _ _ _ _ _ hn.wlen.symm hn.wlen.symm] at h
  simp only [Prod.mk.injEq] at h
  obtain ⟨h0, h1⟩ := h
  refine ⟨?_, h1.symm⟩
  have hwint : Soc.Interior w0 w1 := ⟨hn.w0pos, by linarith [hn.norm]⟩
  have hp := Soc.interior_pair_pos w0 w1 z0 z1 hwint hn.zint hn.wlen
  rw [← h0]
  exact mul_ne_zero hn.eta hp.ne'

/-- **(c) `⟨z, Δs_from_Δz_offset(d, z)⟩ = ⟨e, d⟩` on one cone** at its Nesterov–Todd scaling -/
theorem off1L_dot {c : ConeSt ℝ} {s z : List ℝ} (h : NTBlock c s z) (d : List ℝ)
    (hd : d.length = c.numel) : hsDotL z (off1L c d z) = hsDotL (coneId1L c) d := by
  cases c with
  | zero n =>
    show hsDotL z (d.map fun _ => (0 : ℝ)) = hsDotL (List.replicate n 0) d
    rw [hsDotL_comm, hsDotL_zeros, hsDotL_replicate_zero]
  | nonneg K =>
    obtain ⟨hs, hz, hw, hl, hsp, hzp⟩ := h
    have hd' : d.length = K.w.size := hd
    show hsDotL z (List.zipWith (fun di zi => di / zi) d z) = hsDotL (List.replicate K.w.size 1) d
    rw [nn_off_dot d z (hd'.trans hz.symm) hzp, ← hd', hsDotL_replicate_one]
  | soc K =>
    obtain ⟨s0, s1, z0, z1, w0, w1, l0, l1, rfl, rfl, hn⟩ := h
    have hd' : d.length = K.dim := hd
    obtain ⟨d0, d1, rfl⟩ : ∃ d0 d1, d = d0 :: d1 := by
      cases d with
      | nil => rw [hn.dim] at hd'; simp at hd'
      | cons a t => exact ⟨a, t, rfl⟩
    have hd1 : d1.length = z1.length := by
      rw [hn.dim, List.length_cons] at hd'; omega
    obtain ⟨hl0, hl1⟩ := hn.l0_ne
    unfold off1L coneId1L
    simp only [soc_toList_w hn.w, soc_toList_lam hn.lam]
    rw [hsDotL_cons, hsDotL_cons, hsDotL_replicate_zero, hsDotL_eq_dotL]
    have hres : z0 ^ 2 - Soc.dotL z1 z1 ≠ 0 := by linarith [hn.zint.2]
    have h1w : 1 + w0 ≠ 0 := by linarith [hn.w0pos]
    rw [soc_off_dot z0 z1 d0 d1 l0 l1 w0 w1 K.eta hres hl0 h1w hd1 hn.wlen hl1]
    ring

/-- **(d) `⟨e, affine_ds⟩ = s·z` on one cone** at its Nesterov–Todd scaling (`λ·λ = s·z`) -/
theorem ads1L_dot {c : ConeSt ℝ} {s z : List ℝ} (h : NTBlock c s z) :
    hsDotL (coneId1L c) (ads1L c) = hsDotL s z := by
  cases c with
  | zero n =>
    obtain ⟨hs, hz, h0⟩ := h
    show hsDotL (List.replicate n 0) _ = _
    rw [hsDotL_replicate_zero, hsDotL_all_zero_left s z h0]
  | nonneg K =>
    obtain ⟨hs, hz, hw, hl, hsp, hzp⟩ := h
    show hsDotL (List.replicate K.w.size 1) (K.lam.toList.map fun li => li * li) = hsDotL s z
    have hlen : (K.lam.toList.map fun li => li * li).length = K.w.size := by
      rw [List.length_map, hl, List.length_zipWith, hs, hz, Nat.min_self]
    rw [← hlen, hsDotL_replicate_one, hl]
    exact nn_ads_sum s z (hs.trans hz.symm) hsp hzp
  | soc K =>
    obtain ⟨s0, s1, z0, z1, w0, w1, l0, l1, rfl, rfl, hn⟩ := h
    unfold ads1L coneId1L
    simp only [soc_toList_lam hn.lam]
    rw [hsDotL_cons, hsDotL_cons, hsDotL_replicate_zero, hsDotL_eq_dotL]
    have key := soc_Winv_W_dot w0 w1 K.eta hn.norm hn.w0pos hn.eta s0 s1 z0 z1 z0 z1 z0 z1
      (hn.slen.trans hn.wlen.symm) hn.wlen.symm hn.wlen.symm hn.wlen.symm
    rw [hn.Winvs, hn.Wz] at key
    simp only [Soc.circOpCore, Soc.vecdot_join]
    linarith

/-- **(e) `⟨e, combined_ds_shift(Δz, Δs, σμ)⟩ = Δs·Δz − degree·σμ` on one cone** at its
Nesterov–Todd scaling (`(W⁻¹a)·(Wb) = a·b`); on a zero cone the shift is zero, so `Δs` must vanish
there for the formula to hold -/
theorem shift1L_dot {c : ConeSt ℝ} {s z : List ℝ} (h : NTBlock c s z) (dz ds : List ℝ) (σμ : ℝ)
    (hdz : dz.length = c.numel) (hds : ds.length = c.numel)
    (hzero : ∀ n, c = .zero n → ∀ x ∈ ds, x = 0) :
    hsDotL (coneId1L c) (shift1L c dz ds σμ).1 = hsDotL ds dz - (c.degree : ℝ) * σμ := by
  cases c with
  | zero n =>
    show hsDotL (List.replicate n 0) _ = _ - ((0 : ℕ) : ℝ) * σμ
    rw [hsDotL_replicate_zero, hsDotL_all_zero_left ds dz (hzero n rfl)]
    simp
  | nonneg K =>
    obtain ⟨hs, hz, hw, hl, hsp, hzp⟩ := h
    have hdz' : dz.length = K.w.size := hdz
    have hds' : ds.length = K.w.size := hds
    have hwl : K.w.toList.length = K.w.size := Array.length_toList
    show hsDotL (List.replicate K.w.size 1) (List.zipWith (fun a b => a * b + -σμ)
        (List.zipWith (fun x w => x / w) ds K.w.toList) (List.zipWith (fun x w => x * w) dz K.w.toList))
      = hsDotL ds dz - ((K.w.size : ℕ) : ℝ) * σμ
    have hlen : (List.zipWith (fun a b => a * b + -σμ)
        (List.zipWith (fun x w => x / w) ds K.w.toList)
        (List.zipWith (fun x w => x * w) dz K.w.toList)).length = K.w.size := by
      simp only [List.length_zipWith, hwl, hdz', hds', Nat.min_self]
    have hne : ∀ x ∈ K.w.toList, x ≠ 0 := by
      rw [hw]; exact nn_w_ne_zero s z (hs.trans hz.symm) hsp hzp
    conv_lhs => rw [← hlen]
    rw [hsDotL_replicate_one, nn_shift_sum σμ K.w.toList dz ds (by rw [hwl]; exact hdz')
      (by rw [hwl]; exact hds') hne, hwl]
  | soc K =>
    obtain ⟨s0, s1, z0, z1, w0, w1, l0, l1, rfl, rfl, hn⟩ := h
    have hdz' : dz.length = K.dim := hdz
    have hds' : ds.length = K.dim := hds
    obtain ⟨a0, a1, rfl⟩ : ∃ a0 a1, dz = a0 :: a1 := by
      cases dz with
      | nil => rw [hn.dim] at hdz'; simp at hdz'
      | cons a t => exact ⟨a, t, rfl⟩
    obtain ⟨b0, b1, rfl⟩ : ∃ b0 b1, ds = b0 :: b1 := by
      cases ds with
      | nil => rw [hn.dim] at hds'; simp at hds'
      | cons a t => exact ⟨a, t, rfl⟩
    have ha1 : a1.length = w1.length := by
      rw [hn.dim, List.length_cons] at hdz'; rw [hn.wlen]; omega
    have hb1 : b1.length = w1.length := by
      rw [hn.dim, List.length_cons] at hds'; rw [hn.wlen]; omega
    unfold shift1L coneId1L
    simp only [soc_toList_w hn.w]
    rw [hsDotL_cons, hsDotL_cons, hsDotL_replicate_zero, hsDotL_eq_dotL]
    have key := soc_Winv_W_dot w0 w1 K.eta hn.norm hn.w0pos hn.eta b0 b1 a0 a1 b0 b1 a0 a1 hb1 ha1 hb1 ha1
    simp only [Soc.circOpCore, Soc.vecdot_join]
    show 1 * (_ + -σμ) + 0 = b0 * a0 + Soc.dotL b1 a1 - ((1 : ℕ) : ℝ) * σμ
    rw [key]
    push_cast
    ring

/-! ## extraction: the state `update_scaling` leaves is the Nesterov–Todd scaling -/

theorem soc_update_eta_ne (K K' : Soc.Cone ℝ) (s0 : ℝ) (s1 : List ℝ) (z0 : ℝ) (z1 : List ℝ)
    (hs : Soc.Interior s0 s1) (hz : Soc.Interior z0 z1)
    (h : Soc.updateScalingCore K s0 s1 z0 z1 = (true, K')) : K'.eta ≠ 0 := by
  obtain ⟨hss, -⟩ := Soc.sqrtSocResidual_interior s0 s1 hs
  obtain ⟨hzs, -⟩ := Soc.sqrtSocResidual_interior z0 z1 hz
  unfold Soc.updateScalingCore at h
  simp only at h
  split at h
  · simp at h
  · split at h
    · simp at h
    · simp only [Prod.mk.injEq, true_and] at h
      rw [← h]
      exact (Real.sqrt_pos.mpr (div_pos hss hzs)).ne'

theorem soc_join_inj {a0 b0 : ℝ} {a1 b1 : List ℝ} (h : Soc.join a0 a1 = Soc.join b0 b1) :
    a0 = b0 ∧ a1 = b1 := by
  unfold Soc.join at h
  have := congrArg Array.toList h
  simpa using this

/-- **the cone state after a successful `update_scaling` of one cone on interior rows is the
Nesterov–Todd scaling** (`NTBlock`): C13's `nn_update_scaling`, `soc_w_normalised`,
`soc_NT_identities`, `soc_WtW_z_eq_s` read on the whole-solver model's `updateScaling1` -/
theorem ntBlock_of_update {c c' : ConeSt ℝ} {s z : List ℝ} (hc : ConeFull c)
    (hs : s.length = c.numel) (hz : z.length = c.numel) (hint : BlockInterior c s z)
    (h : updateScaling1 c s.toArray z.toArray = .ok (true, c')) :
    NTBlock c' s z ∧ ConeFull c' ∧ c'.numel = c.numel ∧ c'.degree = c.degree := by
  obtain ⟨r, hr, hfull, -, hnum⟩ := updateScaling1_full (s := s.toArray) (z := z.toArray) hc
    (by simpa using hs) (by simpa using hz)
  rw [h] at hr
  cases hr
  refine ⟨?_, hfull, hnum, ?_⟩
  · cases c with
    | zero d =>
      cases h
      exact ⟨hs, hz, hint⟩
    | nonneg K =>
      unfold updateScaling1 at h
      dsimp only at h
      obtain ⟨K', hK, h⟩ := bind_ok_inv h
      cases h
      unfold Nonneg.updateScaling at hK
      obtain ⟨u, hg, hK⟩ := bind_ok_inv hK
      cases hK
      have hs' : s.length = K.w.size := hs
      have hz' : z.length = K.w.size := hz
      refine ⟨?_, ?_, ?_, ?_, hint.1, hint.2⟩
      · show s.length = (Array.zipWith _ s.toArray z.toArray).size
        simp [hs', hz']
      · show z.length = (Array.zipWith _ s.toArray z.toArray).size
        simp [hs', hz']
      · show (Array.zipWith _ s.toArray z.toArray).toList = _
        simp
      · show (Array.zipWith _ s.toArray z.toArray).toList = _
        simp
    | soc K =>
      obtain ⟨s0, s1, z0, z1, rfl, rfl, hsi, hzi⟩ := hint
      have hs' : (s0 :: s1).length = K.dim := hs
      have hz' : (z0 :: z1).length = K.dim := hz
      have hlen : s1.length = z1.length := by
        simp only [List.length_cons] at hs' hz'; omega
      unfold updateScaling1 at h
      dsimp only at h
      obtain ⟨⟨ok, K'⟩, hK, h⟩ := bind_ok_inv h
      cases h
      have hfull' : ConeFull (ConeSt.soc K') := hfull
      have hnum' : K'.dim = K.dim := hnum
      have hzs : Soc.split (z0 :: z1).toArray = .ok (z0, z1) := rfl
      have hss : Soc.split (s0 :: s1).toArray = .ok (s0, s1) := rfl
      unfold Soc.updateScaling at hK
      rw [bind_ok_of hzs] at hK
      dsimp only at hK
      rw [bind_ok_of hss] at hK
      dsimp only at hK
      rw [if_neg (by simpa using hs'), if_neg (by simpa using hz')] at hK
      have hcore : Soc.updateScalingCore K s0 s1 z0 z1 = (true, K') := by
        have : (Except.ok (Soc.updateScalingCore K s0 s1 z0 z1) : MErr _) = .ok (true, K') := hK
        exact Except.ok.inj this
      obtain ⟨w0, w1, l0, l1, hw, hl, hWz, hWs⟩ :=
        Soc.updateScalingCore_nt K K' s0 s1 z0 z1 z0 z1 hsi hzi hlen rfl hcore
      obtain ⟨w0', w1', hw', hnorm, hw0⟩ := Soc.updateScalingCore_normalised K K' s0 s1 z0 z1 hcore
      obtain ⟨w0'', w1'', hw'', hWtW⟩ := Soc.updateScalingCore_WtW K K' s0 s1 z0 z1 hsi hzi hlen hcore
      obtain ⟨e1, e2⟩ := soc_join_inj (hw'.symm.trans hw)
      obtain ⟨e3, e4⟩ := soc_join_inj (hw''.symm.trans hw)
      rw [e1, e2] at hnorm
      rw [e1] at hw0
      rw [e3, e4] at hWtW
      obtain ⟨-, fw, fl, -⟩ := hfull'
      have hwl : w1.length + 1 = K'.dim := by
        rw [← fw, hw]; simp [Soc.join]
      have hll : l1.length + 1 = K'.dim := by
        rw [← fl, hl]; simp [Soc.join]
      have hzd : z1.length + 1 = K.dim := by simpa using hz'
      exact ⟨s0, s1, z0, z1, w0, w1, l0, l1, rfl, rfl,
        { w := hw, lam := hl, norm := hnorm, w0pos := hw0
          eta := soc_update_eta_ne K K' s0 s1 z0 z1 hsi hzi hcore
          wlen := by omega
          llen := by omega
          slen := hlen
          dim := by show K'.dim = _; omega
          sint := hsi, zint := hzi, Wz := hWz, Winvs := hWs, WtWz := hWtW }⟩
  · obtain ⟨r, hr, -, hk, -⟩ := updateScaling1_full (s := s.toArray) (z := z.toArray) hc
      (by simpa using hs) (by simpa using hz)
    rw [h] at hr
    cases hr
    have hk' : c'.kktSpec = c.kktSpec := hk
    cases c <;> cases c' <;> simp only [ConeSt.kktSpec, Kkt.ConeSpec.zero.injEq,
      Kkt.ConeSpec.nonneg.injEq, Kkt.ConeSpec.soc.injEq, reduceCtorEq] at hk' <;>
      first | rfl | exact hk'

end Clarabel.Solver
