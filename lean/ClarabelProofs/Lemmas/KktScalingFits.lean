/-
  `LayoutFits` discharged from the cone models.

  C11's `update` theorems take the scaling data of the cones as a list of `Kkt.ConeScaling` that
  `LayoutFits` the cone list the KKT matrix was assembled for (same kinds, dimensions, sparse vector
  lengths).  Here the data are READ OFF the states of the cone models of C13/C14 (`scalingOf…`:
  the fields the Rust cone holds after `update_scaling`), and the fit is proved for the states that
  the models' `update_scaling` / `assembleScaling` return:

  * nonnegative cone (`Nonneg.updateScaling`), second-order cone dense and sparse
    (`Soc.updateScaling`, shape invariant `SocShape`), generalised power cone
    (`GenPow.updateScaling`, including `|p| = dim1 + dim2`, `|q| = dim1`: the remaining hypotheses of
    `C11.assemble_update_genpow_schur`), exponential / power cone (`Sym3.toArray`: 6 entries),
    PSD cone (`PsdTri.assembleScaling`: `skronPacked`, `tri(tri n)` entries; over `ℝ`);
  * `get_Hs` of C11's model on the data read off = the cone model's own `get_Hs` (nonnegative,
    sparse second-order, generalised power cone): `get_Hs` success is not a hypothesis there.

  Class [S] (structure only; no arithmetic law is used).
-/
import ClarabelModel.Kkt
import ClarabelModel.Cones.Nonneg
import ClarabelModel.Cones.Soc
import ClarabelModel.Cones.GenPow
import ClarabelModel.Cones.Dense3
import ClarabelModel.Cones.PsdTriangle
import ClarabelProofs.Lemmas.KktUpdateAsm
import ClarabelProofs.Lemmas.ConesPsdSkron

set_option linter.unusedSectionVars false
set_option linter.unusedVariables false

namespace Clarabel.Lemmas.KktScalingFits
open Clarabel Clarabel.Kkt Clarabel.Lemmas.KktUpdateAsm

section defs
variable {α : Type}

/-- the scaling data a nonnegative cone holds -/
def scalingOfNonneg (K : Nonneg.Cone α) : ConeScaling α := .nonneg K.w

/-- the scaling data a second-order cone holds (sparse form iff it carries `sparse_data`) -/
def scalingOfSoc (K : Soc.Cone α) : ConeScaling α :=
  match K.sparse with
  | some sp => .socSparse K.dim K.eta sp.u sp.v sp.d
  | none => .socDense K.w K.eta

/-- the scaling data a generalised power cone holds -/
def scalingOfGenPow (st : GenPow.State α) : ConeScaling α :=
  .genpow st.mu st.D.p st.D.q st.D.r st.D.d1 st.D.d2

/-- exponential / power cone: the packed `Hs` of the 3×3 scaling matrix -/
def scalingOfSym3 (Hs : Sym3 α) : ConeScaling α := .dense Hs.toArray

/-- PSD cone: the packed `Hs` the cone stores -/
def scalingOfPsd (K : PsdTri.Cone α) : ConeScaling α := .dense K.Hs

/-- shape invariant of a second-order cone object of dimension `d` (what
`SecondOrderCone::new(d)` establishes) -/
structure SocShape (K : Soc.Cone α) (d : Nat) : Prop where
  dim : K.dim = d
  sparse_iff : K.sparse.isSome = true ↔ d > socNoExpansionMaxSize

end defs

section fits
variable {α : Type} [Add α] [Sub α] [Mul α] [Div α] [Neg α] [OfNat α 0] [OfNat α 1]
  [LT α] [DecidableLT α] [FloatLike α]

/-! ### nonnegative cone -/

/-- [S] after `update_scaling` the data of a nonnegative cone of dimension `d` fit `nonneg d` -/
theorem nonneg_update_fits {K K' : Nonneg.Cone α} {s z : Array α} {d : Nat} (hd : K.w.size = d)
    (h : Nonneg.updateScaling K s z = .ok K') :
    ScalingFits (scalingOfNonneg K') (.nonneg d) := by
  unfold Nonneg.updateScaling Nonneg.sizeGuard at h
  split at h
  · rename_i hg
    simp only [bind, Except.bind, pure, Except.pure, Except.ok.injEq] at h
    subst h
    simp only [Bool.and_eq_true, beq_iff_eq] at hg
    show (Array.zipWith _ s z).size = d
    rw [Array.size_zipWith]
    omega
  · simp [bind, Except.bind, throw, throwThe, MonadExceptOf.throw] at h

/-- [S] C11's `get_Hs` on the data of a nonnegative cone is the cone model's `get_Hs` -/
theorem nonneg_getHs_eq (K : Nonneg.Cone α) :
    Kkt.getHs (scalingOfNonneg K) = Nonneg.getHs K K.w.size := by
  simp [scalingOfNonneg, Kkt.getHs, Nonneg.getHs]

/-! ### second-order cone -/

theorem soc_new_shape {d : Nat} {K : Soc.Cone α} (h : Soc.new d = .ok K) : SocShape K d := by
  unfold Soc.new at h
  split at h
  · cases h
  · simp only [pure, Except.pure, Except.ok.injEq] at h
    subst h
    refine ⟨rfl, ?_⟩
    show (if d > Soc.noExpansionMaxSize then _ else none : Option (Soc.Sparse α)).isSome = true ↔ _
    by_cases hd : d > Soc.noExpansionMaxSize
    · simp only [if_pos hd, Option.isSome_some, true_iff]; exact hd
    · simp only [if_neg hd, Option.isSome_none, Bool.false_eq_true, false_iff]; exact hd

theorem split_length {x : Array α} {x0 : α} {x1 : List α} (h : Soc.split x = .ok (x0, x1)) :
    x1.length + 1 = x.size := by
  unfold Soc.split at h
  split at h
  · cases h
  · rename_i y0 y1 hy
    simp only [pure, Except.pure, Except.ok.injEq, Prod.mk.injEq] at h
    obtain ⟨rfl, rfl⟩ := h
    have := congrArg List.length hy
    simpa using this.symm

theorem scalingW_length {s0 z0 ss zs w0 ws : α} {s1 z1 w1 : List α}
    (h : Soc.scalingW s0 s1 z0 z1 ss zs = some (w0, w1, ws)) :
    w1.length = min s1.length z1.length := by
  unfold Soc.scalingW at h
  simp only at h
  split at h
  · cases h
  · simp only [Option.some.injEq, Prod.mk.injEq] at h
    obtain ⟨_, rfl, _⟩ := h
    simp

/-- [S] **after a successful `update_scaling` the data of a second-order cone of dimension `d`
fit `soc d`** (dense form for `d ≤ 4`, sparse form above), the shape invariant is kept, `|w| = d`,
and the sparse vectors have length `d` (`husz`, `hvsz` of `C11.assemble_update_soc_schur`). -/
theorem soc_update_fits {K K' : Soc.Cone α} {s z : Array α} {d : Nat} (hK : SocShape K d)
    (h : Soc.updateScaling K s z = .ok (true, K')) :
    ScalingFits (scalingOfSoc K') (.soc d) ∧ SocShape K' d ∧ K'.w.size = d ∧
      ∀ sp, K'.sparse = some sp → sp.u.size = d ∧ sp.v.size = d := by
  unfold Soc.updateScaling at h
  simp only [bind, Except.bind] at h
  split at h
  · cases h
  · rename_i zz hz
    obtain ⟨z0, z1⟩ := zz
    split at h
    · cases h
    · rename_i sss hs
      obtain ⟨s0, s1⟩ := sss
      simp only [pure, Except.pure] at h
      split at h
      · cases h
      · rename_i hsd
        split at h
        · cases h
        · rename_i hzd
          have hsl := split_length hs
          have hzl := split_length hz
          have hsd' : s.size = K.dim := by simpa using hsd
          have hzd' : z.size = K.dim := by simpa using hzd
          have hcore : Soc.updateScalingCore K s0 s1 z0 z1 = (true, K') := Except.ok.inj h
          unfold Soc.updateScalingCore at hcore
          simp only at hcore
          split at hcore
          · cases hcore
          · split at hcore
            · cases hcore
            · rename_i w0 w1 ws hw
              simp only [Prod.mk.injEq, true_and] at hcore
              have hwl := scalingW_length hw
              have hwsz : (Soc.join w0 w1).size = d := by
                show (w0 :: w1).toArray.size = d
                simp only [List.size_toArray, List.length_cons]
                rw [hwl, ← hK.dim]; omega
              subst hcore
              refine ⟨?_, ⟨hK.dim, ?_⟩, hwsz, ?_⟩
              · unfold scalingOfSoc
                cases hsp : K.sparse with
                | none =>
                  simp only [hsp]
                  have : ¬ d > socNoExpansionMaxSize := by
                    intro hgt
                    have := hK.sparse_iff.mpr hgt
                    rw [hsp] at this; simp at this
                  exact ⟨hwsz, this⟩
                | some sp0 =>
                  simp only [hsp]
                  exact ⟨hK.dim, hK.sparse_iff.mp (by rw [hsp]; rfl)⟩
              · cases hsp : K.sparse with
                | none => simp only [hsp]; rw [← hK.sparse_iff, hsp]
                | some sp0 =>
                  simp only [hsp, Option.isSome_some, true_iff]
                  exact hK.sparse_iff.mp (by rw [hsp]; rfl)
              · intro sp hsp'
                cases hsp : K.sparse with
                | none => simp only [hsp] at hsp'; cases hsp'
                | some sp0 =>
                  simp only [hsp, Option.some.injEq] at hsp'
                  subst hsp'
                  unfold Soc.scalingSparse
                  simp only [Soc.join, List.size_toArray, List.length_cons, List.length_map]
                  rw [hwl, ← hK.dim]; omega

/-- [S] C11's `get_Hs` on the data of a SPARSE second-order cone is the cone model's `get_Hs` -/
theorem soc_sparse_getHs_eq (K : Soc.Cone α) (sp : Soc.Sparse α) (hsp : K.sparse = some sp)
    (n : Nat) (hd : K.dim = n + 1) :
    Kkt.getHs (scalingOfSoc K) = Soc.getHs K := by
  unfold scalingOfSoc Soc.getHs
  simp only [hsp, Kkt.getHs, hd, pure, Except.pure, bind, Except.bind]
  simp only [Nat.succ_ne_zero, beq_iff_eq, if_false]
  congr 1 <;> (apply Array.ext'; simp [Soc.join, List.replicate_succ])

/-! ### generalised power cone -/

section genpow
variable [LE α] [DecidableLE α] [BEq α] [OfNat α 2] [OfNat α 3] [OfScientific α]

theorem genpow_split_sizes {x x1 x2 : Array α} {d1 : Nat} (h : GenPow.split x d1 = .ok (x1, x2)) :
    d1 ≤ x.size ∧ x1.size = d1 ∧ x2.size = x.size - d1 := by
  unfold GenPow.split at h
  split at h
  · rename_i hle
    simp only [pure, Except.pure, Except.ok.injEq, Prod.mk.injEq] at h
    obtain ⟨rfl, rfl⟩ := h
    refine ⟨hle, ?_, ?_⟩ <;> simp <;> omega
  · cases h

theorem genpow_data_sizes {al z : Array α} {D : GenPow.Data α}
    (h : GenPow.updateDualGradH al z = .ok D) :
    al.size ≤ z.size ∧ D.d1.size = al.size ∧ D.q.size = al.size ∧
      D.r.size = z.size - al.size ∧ D.p.size = z.size := by
  unfold GenPow.updateDualGradH at h
  simp only [bind, Except.bind] at h
  split at h
  · cases h
  · rename_i uw hsp
    obtain ⟨u, w⟩ := uw
    obtain ⟨hle, hu, hw⟩ := genpow_split_sizes hsp
    simp only at h
    split at h
    · cases h
    · simp only [pure, Except.pure, Except.ok.injEq] at h
      subst h
      refine ⟨hle, ?_, ?_, ?_, ?_⟩
      all_goals
        simp only [List.size_toArray, List.length_map, List.length_zip, List.length_append,
          Array.length_toList]
        omega

/-- [S] **after an accepted `update_scaling` the data of a generalised power cone with exponents
`al` and `dim2 = |z| − |al|` fit `genpow |al| dim2`**, `|p| = dim1 + dim2` and `|q| = dim1`. -/
theorem genpow_update_fits {al z : Array α} {st st' : GenPow.State α} {mu : α} {dim2 : Nat}
    (hz : z.size = al.size + dim2)
    (h : GenPow.updateScaling al st z mu = .ok (true, st')) :
    ScalingFits (scalingOfGenPow st') (.genpow al.size dim2) ∧
      st'.D.p.size = st'.D.d1.size + st'.D.r.size ∧ st'.D.q.size = st'.D.d1.size := by
  unfold GenPow.updateScaling at h
  simp only [bind, Except.bind] at h
  split at h
  · cases h
  · split at h
    · cases h
    · split at h
      · cases h
      · rename_i D hD
        simp only [pure, Except.pure, Except.ok.injEq, Prod.mk.injEq, true_and] at h
        subst h
        obtain ⟨hle, h1, h2, h3, h4⟩ := genpow_data_sizes hD
        refine ⟨⟨h1, by rw [h3]; omega⟩, ?_, ?_⟩
        · show D.p.size = D.d1.size + D.r.size
          rw [h4, h1, h3]; omega
        · show D.q.size = D.d1.size
          rw [h2, h1]

/-- [S] C11's `get_Hs` on the data of a generalised power cone is the cone model's `get_Hs` -/
theorem genpow_getHs_eq (st : GenPow.State α) :
    Kkt.getHs (scalingOfGenPow st) = .ok (GenPow.getHs st.D st.mu st.D.r.size) := by
  unfold scalingOfGenPow GenPow.getHs
  simp only [Kkt.getHs, pure, Except.pure]
  congr 1
  apply Array.ext'
  simp

end genpow

/-! ### exponential, power and PSD cones (dense packed blocks) -/

/-- [S] the packed `Hs` of a 3×3 scaling matrix fits `exp` and `pow` -/
theorem sym3_fits (Hs : Sym3 α) :
    ScalingFits (scalingOfSym3 Hs) .exp ∧ ScalingFits (scalingOfSym3 Hs) .pow :=
  ⟨rfl, rfl⟩

/-- [S] a cone list fits as soon as every cone does (how the per-cone theorems combine) -/
theorem layoutFits_of_forall {scal : List (ConeScaling α)} {cones : List ConeSpec}
    (h : List.Forall₂ ScalingFits scal cones) : LayoutFits scal cones := h

end fits

/-- [S] the `Hs` that `PsdTri.assembleScaling` stores fits `psd n` (over `ℝ`) -/
theorem psd_assemble_fits {n : Nat} {L1 L2 U Vt sig : Array ℝ} {K : PsdTri.Cone ℝ} {RRt : Array ℝ}
    (h : PsdTri.assembleScaling n L1 L2 U Vt sig = .ok (K, RRt)) :
    ScalingFits (scalingOfPsd K) (.psd n) := by
  unfold PsdTri.assembleScaling at h
  simp only [bind, Except.bind] at h
  split at h
  · cases h
  · simp only [pure, Except.pure, Except.ok.injEq, Prod.mk.injEq] at h
    obtain ⟨rfl, _⟩ := h
    show (PsdTri.skronPacked n _).size = _
    rw [PsdTri.size_skronPacked]
    rfl

end Clarabel.Lemmas.KktScalingFits
