/-
  `compact_equiv`, converse direction (original ⇒ compact): for every point `(x, S_K)` satisfying the
  original equalities with `S = Σ_K E_Kᵀ S_K E_K` there are values of the overlap variables that
  make the equalities of the compact problem hold.

  The overlap columns form the edge–node incidence matrix of a forest on the rows of the compact
  problem: the column of an overlap entry has `+1` in the entry's row in the child clique and `-1`
  in the row of the same matrix entry in the parent clique (`compact_overlap_pairs`).  The trees of
  this forest are the sets `{ρ : OrigOf ρ r}` of rows holding one original row `r` (running
  intersection: the cliques containing a matrix entry form a subtree whose top is the owner of the
  entry).  The abstract flow lemma `forest_flow` (`ChordalForestFlow.lean`) gives the overlap
  variables (the partial sums of the residual over subtrees, leaf to root).
-/
import ClarabelProofs.Lemmas.ChordalCompactBridge
import ClarabelProofs.Lemmas.ChordalForestFlow
import Mathlib.Tactic.Abel

namespace Clarabel.Chordal
open Finset

/-! ## geometry of the rows of the compact problem -/

/-- rows of different (cone, clique, position) are different -/
theorem blockRow_cone_inj {ci : ChordalInfo} (hv : ValidInfo ci) {c c' : Nat} {p p' : SPattern}
    {i x y i' x' y' : Nat} (hc : c < ci.initCones.size) (hc' : c' < ci.initCones.size)
    (hp : ci.patAt c = some p) (hp' : ci.patAt c' = some p')
    (hi : i < p.sntree.nCliques) (hxy : x ≤ y) (hy : y < (p.cliqueO i).length)
    (hi' : i' < p'.sntree.nCliques) (hxy' : x' ≤ y') (hy' : y' < (p'.cliqueO i').length)
    (h : p.blockRow (ci.newStart c) i x y = p'.blockRow (ci.newStart c') i' x' y') :
    c = c' ∧ i = i' ∧ x = x' ∧ y = y' := by
  have hr := OrigOf.range hv hc (ρ := p.blockRow (ci.newStart c) i x y)
    (r := ci.rs c + coordToUpperTriangularIndex ((p.cliqueO i).getD x 0, (p.cliqueO i).getD y 0))
    (Or.inr ⟨p, hp, i, x, y, hi, hxy, hy, rfl, rfl⟩)
  have hr' := OrigOf.range hv hc' (ρ := p'.blockRow (ci.newStart c') i' x' y')
    (r := ci.rs c' + coordToUpperTriangularIndex ((p'.cliqueO i').getD x' 0, (p'.cliqueO i').getD y' 0))
    (Or.inr ⟨p', hp', i', x', y', hi', hxy', hy', rfl, rfl⟩)
  have hcc : c = c' := by
    rcases Nat.lt_trichotomy c c' with h' | h' | h'
    · have := ci.newStart_mono (c + 1) (c' - (c + 1))
      rw [show c + 1 + (c' - (c + 1)) = c' by omega] at this
      omega
    · exact h'
    · have := ci.newStart_mono (c' + 1) (c - (c' + 1))
      rw [show c' + 1 + (c - (c' + 1)) = c by omega] at this
      omega
  subst hcc
  rw [hp] at hp'
  cases hp'
  obtain ⟨h1, h2, h3⟩ := blockRow_inj p (hv.pat c hc p hp).1 (ci.newStart c) hi hxy hy hi' hxy' hy' h
  exact ⟨rfl, h1, h2, h3⟩

/-- the parent's row of an overlap entry lies before the child's row (blocks are emitted in
descending post-order, parents have the larger post-order index) -/
theorem OvEntry.parent_lt {ci : ChordalInfo} (hv : ValidInfo ci) {c : Nat} {p : SPattern}
    {i j x y x' y' : Nat} (e : OvEntry ci c p i j x y x' y') :
    p.blockRow (ci.newStart c) j x' y' < p.blockRow (ci.newStart c) i x y := by
  have hvp := (hv.pat c e.hc p e.hp).1
  obtain ⟨j', hij, hpar, _⟩ := hvp.tree.parent i e.hi
  have hjj : j = j' := hvp.tree.parent_unique e.hpar hpar
  subst hjj
  have hanti := rowStart_anti p (ci.newStart c) i (j - i - 1) (by have := e.hpar.1; omega)
  rw [show i + (j - i - 1) + 1 = j by omega] at hanti
  have hf := cliqueFacts p hvp j e.hpar.1
  have h1 := coord_index_lt e.hxy' e.hy'
  rw [hf.clique_len] at h1
  have h1' : coordToUpperTriangularIndex (x', y') < p.blk j := h1
  unfold SPattern.blockRow
  omega

/-- the two slots of the overlap column of an overlap entry hold the entry's rows -/
theorem OvEntry.slots {ci : ChordalInfo} (hv : ValidInfo ci) (nnz N : Nat) (AaI : Array Nat)
    (hN : N = ci.ovBefore ci.initCones.size)
    (hO : ∀ y, nnz ≤ y → y < nnz + 2 * N → OvTarget ci nnz y (AaI.getD y 0))
    {c : Nat} {p : SPattern} {i j x y x' y' : Nat} (e : OvEntry ci c p i j x y x' y') :
    ovIndex ci c p i x y < N ∧
    AaI.getD (nnz + 2 * ovIndex ci c p i x y) 0 = p.blockRow (ci.newStart c) i x y ∧
    AaI.getD (nnz + 2 * ovIndex ci c p i x y + 1) 0 = p.blockRow (ci.newStart c) j x' y' := by
  have hlt : ovIndex ci c p i x y < N := by
    have h1 := (e.index_range hv).2.2
    have h2 := ci.ovBefore_mono (c + 1) (ci.initCones.size - (c + 1))
    rw [show c + 1 + (ci.initCones.size - (c + 1)) = ci.initCones.size by have := e.hc; omega] at h2
    omega
  obtain ⟨c2, p2, i2, j2, x2, y2, x2', y2', e2, ho, hv0, hv1⟩ :=
    ov_pair hv nnz (ovIndex ci c p i x y) _ _ (hO _ (by omega) (by omega)) (hO _ (by omega) (by omega))
  obtain ⟨rfl, rfl, rfl, rfl, rfl, rfl, rfl, rfl⟩ := ovIndex_inj hv e e2 ho
  exact ⟨hlt, hv0, hv1⟩

/-- a row of the compact problem that holds the original row `r` is either THE new row of `r` (the
row of the owner clique / the shifted row) or the child row of an overlap entry -/
theorem OrigOf.newRow_or_ov {ci : ChordalInfo} (hv : ValidInfo ci) {ρ r : Nat} (h : OrigOf ci ρ r) :
    NewRow ci r ρ ∨
    ∃ c p i j x y x' y', OvEntry ci c p i j x y x' y' ∧ ρ = p.blockRow (ci.newStart c) i x y := by
  obtain ⟨c, hc, h3⟩ := h
  rcases h3 with ⟨hp, h1, h2, hr⟩ | ⟨p, hp, i, x, y, hi, hxy, hy, hρ, hr⟩
  · exact Or.inl ⟨c, hc, by omega, by omega, Or.inl ⟨hp, by omega⟩⟩
  · have hvp := (hv.pat c hc p hp).1
    have hf := cliqueFacts p hvp i hi
    have hab := (getD_le_iff_of_sorted hf.clique_sorted (by omega) hy).2 hxy
    have hblt := hf.clique_lt _ (getD_mem_of_lt hy)
    have hidx := coord_index_lt hab hblt
    have hnv : ci.nv c = triangularNumber p.ordering.size := by
      unfold ChordalInfo.nv; rw [(hv.pat c hc p hp).2]; rfl
    by_cases hov : (p.cliqueO i).getD x 0 ∈ p.sepO i ∧ (p.cliqueO i).getD y 0 ∈ p.sepO i
    · right
      have hlt : i + 1 < p.sntree.nCliques := by
        rcases Nat.lt_or_ge (i + 1) p.sntree.nCliques with h | h
        · exact h
        · exfalso
          have hroot : i = p.sntree.nCliques - 1 := by omega
          have h0 := hov.1
          unfold SPattern.sepO at h0
          rw [hroot, hvp.tree.root_sep] at h0
          simp [SPattern.sortO] at h0
      obtain ⟨j, hij, hpar, _⟩ := hvp.tree.parent i hlt
      have hfj := cliqueFacts p hvp j hpar.1
      obtain ⟨x', hx', hxe⟩ := exists_pos_of_mem (sepO_sub_parent p hvp i j hlt hpar _ hov.1)
      obtain ⟨y', hy', hye⟩ := exists_pos_of_mem (sepO_sub_parent p hvp i j hlt hpar _ hov.2)
      have hxy' : x' ≤ y' := by
        rw [← getD_le_iff_of_sorted hfj.clique_sorted hx' hy', hxe, hye]
        exact hab
      exact ⟨c, p, i, j, x, y, x', y', ⟨hc, hp, hlt, hpar, hxy, hy, hov.1, hov.2, hxy', hy', hxe, hye⟩, hρ⟩
    · exact Or.inl ⟨c, hc, by omega, by omega, Or.inr ⟨p, hp, i, x, y, hi, hxy, hy, hov, hr, hρ⟩⟩

/-! ## every row of the compact problem holds an original row -/

theorem descSum_locate (f : Nat → Nat) (n : Nat) (q : Nat) :
    ∀ m, q < descSum f n m → ∃ d, d < m ∧ descSum f n d ≤ q ∧ q < descSum f n (d + 1) := by
  intro m
  induction m with
  | zero => intro h; rw [descSum_zero] at h; omega
  | succ m ih =>
    intro h
    by_cases h1 : q < descSum f n m
    · obtain ⟨d, hd, h2⟩ := ih h1
      exact ⟨d, by omega, h2⟩
    · exact ⟨m, by omega, by omega, h⟩

theorem newStart_locate (ci : ChordalInfo) (ρ : Nat) :
    ∀ m, ρ < ci.newStart m → ∃ c, c < m ∧ ci.newStart c ≤ ρ ∧ ρ < ci.newStart (c + 1) := by
  intro m
  induction m with
  | zero =>
    intro h
    have : ci.newStart 0 = 0 := rfl
    omega
  | succ m ih =>
    intro h
    by_cases h1 : ρ < ci.newStart m
    · obtain ⟨c, hc, h2⟩ := ih h1
      exact ⟨c, by omega, h2⟩
    · exact ⟨m, by omega, by omega, h⟩

/-- the index of a packed entry below `triangularNumber n` has its column below `n` -/
theorem coord_col_lt {q n : Nat} (h : q < triangularNumber n) :
    (upperTriangularIndexToCoord q).1 ≤ (upperTriangularIndexToCoord q).2 ∧
    (upperTriangularIndexToCoord q).2 < n ∧
    coordToUpperTriangularIndex (upperTriangularIndexToCoord q) = q := by
  have hco := index_coord_inv q
  simp only at hco
  obtain ⟨hle, hidx⟩ := hco
  refine ⟨hle, ?_, hidx⟩
  rcases Nat.lt_or_ge (upperTriangularIndexToCoord q).2 n with h' | h'
  · exact h'
  · exfalso
    have e : coordToUpperTriangularIndex
        ((upperTriangularIndexToCoord q).1, (upperTriangularIndexToCoord q).2) = q := hidx
    rw [coord_to_index_of_le hle] at e
    have := triangularNumber_mono h'
    omega

/-- [S] the blocks tile the rows of the compact problem: every row `ρ < dim` holds an original row -/
theorem origOf_exists {ci : ChordalInfo} (hv : ValidInfo ci) (ρ : Nat)
    (hρ : ρ < ci.newStart ci.initCones.size) : ∃ r, OrigOf ci ρ r := by
  obtain ⟨c, hc, h1, h2⟩ := newStart_locate ci ρ _ hρ
  cases hp : ci.patAt c with
  | none =>
    rw [ci.newStart_succ_none c hp] at h2
    exact ⟨_, c, hc, Or.inl ⟨hp, h1, h2, rfl⟩⟩
  | some p =>
    rw [ci.newStart_succ_some c p hp] at h2
    have hvp := (hv.pat c hc p hp).1
    obtain ⟨d, hd, h3, h4⟩ := descSum_locate p.blk p.sntree.nCliques (ρ - ci.newStart c)
      p.sntree.nCliques (by unfold SPattern.totalRows at h2; omega)
    rw [descSum_succ] at h4
    have hi : p.sntree.nCliques - 1 - d < p.sntree.nCliques := by omega
    have hf := cliqueFacts p hvp _ hi
    have hq : ρ - ci.newStart c - descSum p.blk p.sntree.nCliques d <
        triangularNumber (p.cliqueO (p.sntree.nCliques - 1 - d)).length := by
      rw [hf.clique_len]
      have : p.blk (p.sntree.nCliques - 1 - d) =
          triangularNumber (p.sntree.cliqueAt (p.sntree.nCliques - 1 - d)).length := rfl
      omega
    obtain ⟨hle, hlt, hidx⟩ := coord_col_lt hq
    refine ⟨_, c, hc, Or.inr ⟨p, hp, p.sntree.nCliques - 1 - d, _, _, hi, hle, hlt, ?_, rfl⟩⟩
    unfold SPattern.blockRow SPattern.rowStart
    rw [show p.sntree.nCliques - 1 - (p.sntree.nCliques - 1 - d) = d by omega]
    have e : coordToUpperTriangularIndex
        ((upperTriangularIndexToCoord (ρ - ci.newStart c - descSum p.blk p.sntree.nCliques d)).1,
         (upperTriangularIndexToCoord (ρ - ci.newStart c - descSum p.blk p.sntree.nCliques d)).2) =
        ρ - ci.newStart c - descSum p.blk p.sntree.nCliques d := hidx
    rw [e]
    omega

/-! ## the explicit column / value vectors -/

section Vectors
variable {α : Type}

/-- the column indices of the original entries are columns of `A` -/
theorem findnzJ_getD_lt (A : Csc α) (hwf : CscWF A) (L : List Nat) (k : Nat) (hk : k < A.colptr.getD A.n 0) :
    (((List.range A.n).flatMap (fun c =>
      List.replicate (A.colptr.getD (c + 1) 0 - A.colptr.getD c 0) c)).toArray ++ L.toArray).getD k 0 < A.n := by
  have hJlen := findnzJ_length A hwf
  rw [getD_append_left' _ _ _ _ (by rw [List.size_toArray, hJlen]; exact hk)]
  have hmem : ((List.range A.n).flatMap (fun c =>
      List.replicate (A.colptr.getD (c + 1) 0 - A.colptr.getD c 0) c)).toArray.getD k 0 ∈
      (List.range A.n).flatMap (fun c =>
        List.replicate (A.colptr.getD (c + 1) 0 - A.colptr.getD c 0) c) := by
    rw [Array.getD_eq_getD_getElem?, List.getElem?_toArray,
      List.getElem?_eq_getElem (by rw [hJlen]; exact hk), Option.getD_some]
    exact List.getElem_mem _
  obtain ⟨c, hc, hcm⟩ := List.mem_flatMap.1 hmem
  rw [(List.mem_replicate.1 hcm).2]
  exact List.mem_range.1 hc

/-- both slots of the `o`-th overlap column carry the column index `n + o` -/
theorem ovJ_getD (A : Csc α) (hwf : CscWF A) (N o : Nat) (ho : o < N) :
    (((List.range A.n).flatMap (fun c =>
        List.replicate (A.colptr.getD (c + 1) 0 - A.colptr.getD c 0) c)).toArray ++
      ((List.range N).flatMap (fun o => [A.n + o, A.n + o])).toArray).getD (A.colptr.getD A.n 0 + 2 * o) 0 = A.n + o ∧
    (((List.range A.n).flatMap (fun c =>
        List.replicate (A.colptr.getD (c + 1) 0 - A.colptr.getD c 0) c)).toArray ++
      ((List.range N).flatMap (fun o => [A.n + o, A.n + o])).toArray).getD (A.colptr.getD A.n 0 + (2 * o + 1)) 0 =
        A.n + o := by
  have hJlen := findnzJ_length A hwf
  have hszJ : ((List.range A.n).flatMap (fun c =>
      List.replicate (A.colptr.getD (c + 1) 0 - A.colptr.getD c 0) c)).toArray.size = A.colptr.getD A.n 0 := by
    rw [List.size_toArray, hJlen]
  constructor
  · have := getD_append_toArray_right ((List.range A.n).flatMap (fun c =>
      List.replicate (A.colptr.getD (c + 1) 0 - A.colptr.getD c 0) c)).toArray
      ((List.range N).flatMap (fun o => [A.n + o, A.n + o])) (2 * o) 0
    rw [hszJ] at this
    rw [this]
    exact (pairs_getD 0 N (fun o => A.n + o) (fun o => A.n + o) o ho).1
  · have := getD_append_toArray_right ((List.range A.n).flatMap (fun c =>
      List.replicate (A.colptr.getD (c + 1) 0 - A.colptr.getD c 0) c)).toArray
      ((List.range N).flatMap (fun o => [A.n + o, A.n + o])) (2 * o + 1) 0
    rw [hszJ] at this
    rw [this]
    exact (pairs_getD 0 N (fun o => A.n + o) (fun o => A.n + o) o ho).2

/-- the values: the original entries keep theirs, the overlap column is `(+1, -1)` -/
theorem ovV_getD [Ring α] (A : Csc α) (hnz : A.colptr.getD A.n 0 ≤ A.nzval.size) (N : Nat) :
    (∀ k, k < A.colptr.getD A.n 0 →
      ((A.nzval.extract 0 (A.colptr.getD A.n 0)) ++
        ((List.range N).flatMap (fun _ => [(1 : α), -1])).toArray).getD k 0 = A.nzval.getD k 0) ∧
    (∀ o, o < N →
      ((A.nzval.extract 0 (A.colptr.getD A.n 0)) ++
        ((List.range N).flatMap (fun _ => [(1 : α), -1])).toArray).getD (A.colptr.getD A.n 0 + 2 * o) 0 = 1 ∧
      ((A.nzval.extract 0 (A.colptr.getD A.n 0)) ++
        ((List.range N).flatMap (fun _ => [(1 : α), -1])).toArray).getD (A.colptr.getD A.n 0 + (2 * o + 1)) 0 = -1) := by
  have hszV : (A.nzval.extract 0 (A.colptr.getD A.n 0)).size = A.colptr.getD A.n 0 := by
    rw [Array.size_extract]; omega
  refine ⟨fun k hk => ?_, fun o ho => ⟨?_, ?_⟩⟩
  · rw [getD_append_left' _ _ _ _ (by rw [hszV]; exact hk)]
    exact getD_extract_zero _ _ _ _ hk hnz
  · have := getD_append_toArray_right (A.nzval.extract 0 (A.colptr.getD A.n 0))
      ((List.range N).flatMap (fun _ => [(1 : α), -1])) (2 * o) 0
    rw [hszV] at this
    rw [this]
    exact (pairs_getD 0 N (fun _ => (1 : α)) (fun _ => -1) o ho).1
  · have := getD_append_toArray_right (A.nzval.extract 0 (A.colptr.getD A.n 0))
      ((List.range N).flatMap (fun _ => [(1 : α), -1])) (2 * o + 1) 0
    rw [hszV] at this
    rw [this]
    exact (pairs_getD 0 N (fun _ => (1 : α)) (fun _ => -1) o ho).2

end Vectors

/-! ## the theorem -/

section Main
variable {α : Type} [Ring α] [BEq α]

open Classical in
/-- **`compact_equiv`, converse (original ⇒ compact)**.  Let `(A_I, A_J, A_V)`, `(b_I, b_V)` be the
triplets of the compact problem.  If `x` (values of the `n` original variables) and `st` (a slack
for every row of the compact problem, i.e. a block `S_K` for every clique) satisfy the ORIGINAL
equalities `(A x)[r] + Σ_{ρ : OrigOf ρ r} st[ρ] = b[r]` in every row `r` — `S = Σ_K E_Kᵀ S_K E_K` —
then there are values of the overlap variables, i.e. an extension `xx` of `x` to the
`n + n_overlaps` variables of the compact problem, such that `(xx, st)` satisfies every equality of
the compact problem. -/
theorem compact_equiv_converse (ci : ChordalInfo) (A : Csc α) (b : Array α)
    (H : CompactHyp ci A (bIndOf b)) (hnz : A.colptr.getD A.n 0 ≤ A.nzval.size)
    (hpos : A.colptr.getD A.n 0 + 2 * ci.ovBefore ci.initCones.size ≠ 0) :
    ∃ tr, findCompactTriplets ci A b = .ok tr ∧
      ∀ (x st : Nat → α),
        (∀ r,
          (∑ k ∈ range (A.colptr.getD A.n 0),
              if A.rowval.getD k 0 = r then A.nzval.getD k 0 * x (tr.AaJ.getD k 0) else 0) +
            (∑ ρ ∈ range tr.dim, if OrigOf ci ρ r then st ρ else 0) =
          ∑ k ∈ range tr.bInd.size, if tr.bInd.getD k 0 = r then tr.bVal.getD k 0 else 0) →
        ∃ xx : Nat → α, (∀ j, j < A.n → xx j = x j) ∧
          ∀ ρ, ρ < tr.dim →
            (∑ k ∈ range tr.AaI.size,
                if tr.AaI.getD k 0 = ρ then tr.AaV.getD k 0 * xx (tr.AaJ.getD k 0) else 0) + st ρ =
            ∑ k ∈ range tr.bInd.size, if tr.baI.getD k 0 = ρ then tr.bVal.getD k 0 else 0 := by
  obtain ⟨tr, htr, hdim, hnov, hsz, hJ, hV, hbI, hbV, hbsz, hA, hO, hB, _, _⟩ :=
    findCompactTriplets_spec ci A b H hnz hpos
  refine ⟨tr, htr, fun x st horig => ?_⟩
  have hv := H.valid
  -- the forest: edge `o` from the child row `cc o` to the parent row `pp o`
  obtain ⟨cc, hcc⟩ : ∃ cc : Nat → Nat, cc = fun o => tr.AaI.getD (A.colptr.getD A.n 0 + 2 * o) 0 := ⟨_, rfl⟩
  obtain ⟨pp, hpp⟩ : ∃ pp : Nat → Nat, pp = fun o => tr.AaI.getD (A.colptr.getD A.n 0 + (2 * o + 1)) 0 :=
    ⟨_, rfl⟩
  obtain ⟨lhsA, hlhsA⟩ : ∃ f : Nat → α, f = fun ρ => ∑ k ∈ range (A.colptr.getD A.n 0),
      if tr.AaI.getD k 0 = ρ then A.nzval.getD k 0 * x (tr.AaJ.getD k 0) else 0 := ⟨_, rfl⟩
  obtain ⟨rhs, hrhs⟩ : ∃ f : Nat → α, f = fun ρ => ∑ k ∈ range tr.bInd.size,
      if tr.baI.getD k 0 = ρ then tr.bVal.getD k 0 else 0 := ⟨_, rfl⟩
  have hent : ∀ o, o < tr.nOverlaps → ∃ c p i j x y x' y', OvEntry ci c p i j x y x' y' ∧
      o = ovIndex ci c p i x y ∧ cc o = p.blockRow (ci.newStart c) i x y ∧
      pp o = p.blockRow (ci.newStart c) j x' y' := by
    intro o ho
    rw [hcc, hpp]
    have := ov_pair hv (A.colptr.getD A.n 0) o _ _
      (hO (A.colptr.getD A.n 0 + 2 * o) (by omega) (by omega))
      (hO (A.colptr.getD A.n 0 + 2 * o + 1) (by omega) (by omega))
    exact this
  have hpc : ∀ o, o < tr.nOverlaps → pp o < cc o := by
    intro o ho
    obtain ⟨c, p, i, j, x, y, x', y', e, _, h0, h1⟩ := hent o ho
    rw [h0, h1]
    exact e.parent_lt hv
  have hcD : ∀ o, o < tr.nOverlaps → cc o < tr.dim := by
    intro o ho
    rw [hcc, hdim]
    exact (hO (A.colptr.getD A.n 0 + 2 * o) (by omega) (by omega)).lt_dim hv
  have hcinj : ∀ o o', o < tr.nOverlaps → o' < tr.nOverlaps → cc o = cc o' → o = o' := by
    intro o o' ho ho' he
    obtain ⟨c, p, i, j, x, y, x', y', e, hoi, h0, _⟩ := hent o ho
    obtain ⟨c2, p2, i2, j2, x2, y2, x2', y2', e2, hoi2, h02, _⟩ := hent o' ho'
    rw [h0, h02] at he
    obtain ⟨rfl, rfl, rfl, rfl⟩ := blockRow_cone_inj hv e.hc e2.hc e.hp e2.hp
      (by have := e.hi; omega) e.hxy e.hy (by have := e2.hi; omega) e2.hxy e2.hy he
    have : p = p2 := Option.some.inj (e.hp.symm.trans e2.hp)
    subst this
    rw [hoi, hoi2]
  have hcl : ∀ o, o < tr.nOverlaps → ∀ r, (OrigOf ci (cc o) r ↔ OrigOf ci (pp o) r) := by
    intro o ho r
    obtain ⟨c, p, i, j, x, y, x', y', e, _, h0, h1⟩ := hent o ho
    obtain ⟨ho0, ho1⟩ := e.origOf
    rw [← h0] at ho0
    rw [← h1] at ho1
    constructor
    · intro h; rw [← ho0.unique hv h]; exact ho1
    · intro h; rw [← ho1.unique hv h]; exact ho0
  have hcov : ∀ ρ, ρ < tr.dim → ∃ r, OrigOf ci ρ r := by
    intro ρ hρ
    exact origOf_exists hv ρ (by rw [← hdim]; exact hρ)
  have hroot : ∀ r ρ1 ρ2, ρ1 < tr.dim → ρ2 < tr.dim → OrigOf ci ρ1 r → OrigOf ci ρ2 r →
      (∀ o, o < tr.nOverlaps → cc o ≠ ρ1) → (∀ o, o < tr.nOverlaps → cc o ≠ ρ2) → ρ1 = ρ2 := by
    have key : ∀ r ρ, OrigOf ci ρ r → (∀ o, o < tr.nOverlaps → cc o ≠ ρ) → NewRow ci r ρ := by
      intro r ρ h hno
      rcases h.newRow_or_ov hv with h1 | ⟨c, p, i, j, x, y, x', y', e, hρ⟩
      · exact h1
      · exfalso
        obtain ⟨hlt, hs0, _⟩ := e.slots hv (A.colptr.getD A.n 0) tr.nOverlaps tr.AaI hnov hO
        apply hno _ hlt
        rw [hcc, hρ]
        exact hs0
    intro r ρ1 ρ2 _ _ h1 h2 hn1 hn2
    exact (key r ρ1 h1 hn1).unique hv (key r ρ2 h2 hn2)
  -- in-range facts
  have hAlt : ∀ k, k < A.colptr.getD A.n 0 → tr.AaI.getD k 0 < tr.dim := by
    intro k hk
    rw [hdim]
    exact (hA k hk).lt_dim hv
  have hBlt : ∀ k, k < tr.bInd.size → tr.baI.getD k 0 < tr.dim := by
    intro k hk
    rw [hbI] at hk
    rw [hdim]
    exact (hB k hk).lt_dim hv
  -- the residual sums to zero over the rows holding one original row
  have hsum : ∀ r, (∑ ρ ∈ range tr.dim, if OrigOf ci ρ r then (rhs ρ - lhsA ρ - st ρ) else 0) = 0 := by
    intro r
    have hsplit : ∀ ρ, (if OrigOf ci ρ r then (rhs ρ - lhsA ρ - st ρ) else 0) =
        (if OrigOf ci ρ r then rhs ρ else 0) - (if OrigOf ci ρ r then lhsA ρ else 0) -
          (if OrigOf ci ρ r then st ρ else 0) := by
      intro ρ
      by_cases h : OrigOf ci ρ r
      · simp [h]
      · simp [h]
    simp only [hsplit]
    rw [Finset.sum_sub_distrib, Finset.sum_sub_distrib, hrhs, hlhsA]
    simp only
    rw [sum_scatter_select tr.dim tr.bInd.size (fun k => tr.baI.getD k 0) (fun ρ => OrigOf ci ρ r)
        (fun k => tr.bVal.getD k 0) hBlt,
      sum_scatter_select tr.dim (A.colptr.getD A.n 0) (fun k => tr.AaI.getD k 0) (fun ρ => OrigOf ci ρ r)
        (fun k => A.nzval.getD k 0 * x (tr.AaJ.getD k 0)) hAlt]
    have hb' : (∑ k ∈ range tr.bInd.size, if OrigOf ci (tr.baI.getD k 0) r then tr.bVal.getD k 0 else 0) =
        ∑ k ∈ range tr.bInd.size, if tr.bInd.getD k 0 = r then tr.bVal.getD k 0 else 0 := by
      apply Finset.sum_congr rfl
      intro k hk
      have hk' : k < (bIndOf b).size := by rw [← hbI]; exact Finset.mem_range.1 hk
      have ho := (hB k hk').origOf
      rw [← hbI] at ho
      have : OrigOf ci (tr.baI.getD k 0) r ↔ tr.bInd.getD k 0 = r :=
        ⟨fun h => ho.unique hv h, fun h => h ▸ ho⟩
      by_cases h : tr.bInd.getD k 0 = r
      · rw [if_pos h, if_pos (this.2 h)]
      · rw [if_neg h, if_neg (fun hh => h (this.1 hh))]
    have ha' : (∑ k ∈ range (A.colptr.getD A.n 0),
          if OrigOf ci (tr.AaI.getD k 0) r then A.nzval.getD k 0 * x (tr.AaJ.getD k 0) else 0) =
        ∑ k ∈ range (A.colptr.getD A.n 0),
          if A.rowval.getD k 0 = r then A.nzval.getD k 0 * x (tr.AaJ.getD k 0) else 0 := by
      apply Finset.sum_congr rfl
      intro k hk
      have ho := (hA k (Finset.mem_range.1 hk)).origOf
      have : OrigOf ci (tr.AaI.getD k 0) r ↔ A.rowval.getD k 0 = r :=
        ⟨fun h => ho.unique hv h, fun h => h ▸ ho⟩
      by_cases h : A.rowval.getD k 0 = r
      · rw [if_pos h, if_pos (this.2 h)]
      · rw [if_neg h, if_neg (fun hh => h (this.1 hh))]
    rw [hb', ha', ← horig r]
    abel
  -- the overlap variables
  obtain ⟨w, hw⟩ := forest_flow tr.dim tr.nOverlaps cc pp (fun ρ => rhs ρ - lhsA ρ - st ρ) (OrigOf ci)
    hpc hcD hcinj hcl hcov hroot hsum
  refine ⟨fun j => if j < A.n then x j else w (j - A.n), fun j hj => if_pos hj, fun ρ hρ => ?_⟩
  have hVs := ovV_getD A hnz tr.nOverlaps
  rw [hsz, Finset.sum_range_add]
  have hfirst : (∑ k ∈ range (A.colptr.getD A.n 0),
        if tr.AaI.getD k 0 = ρ then
          tr.AaV.getD k 0 * (fun j => if j < A.n then x j else w (j - A.n)) (tr.AaJ.getD k 0) else 0) = lhsA ρ := by
    rw [hlhsA]
    apply Finset.sum_congr rfl
    intro k hk
    have hk' := Finset.mem_range.1 hk
    have hlt : tr.AaJ.getD k 0 < A.n := by rw [hJ]; exact findnzJ_getD_lt A H.wf _ k hk'
    have hval : tr.AaV.getD k 0 = A.nzval.getD k 0 := by rw [hV]; exact hVs.1 k hk'
    simp only [hlt, if_true, hval]
  have hsecond : (∑ t ∈ range (2 * tr.nOverlaps),
        if tr.AaI.getD (A.colptr.getD A.n 0 + t) 0 = ρ then
          tr.AaV.getD (A.colptr.getD A.n 0 + t) 0 *
            (fun j => if j < A.n then x j else w (j - A.n)) (tr.AaJ.getD (A.colptr.getD A.n 0 + t) 0) else 0) =
      rhs ρ - lhsA ρ - st ρ := by
    rw [sum_range_pairs, ← hw ρ hρ]
    apply Finset.sum_congr rfl
    intro o ho
    have ho' := Finset.mem_range.1 ho
    have hJ0 : tr.AaJ.getD (A.colptr.getD A.n 0 + 2 * o) 0 = A.n + o := by
      rw [hJ]; exact (ovJ_getD A H.wf tr.nOverlaps o ho').1
    have hJ1 : tr.AaJ.getD (A.colptr.getD A.n 0 + (2 * o + 1)) 0 = A.n + o := by
      rw [hJ]; exact (ovJ_getD A H.wf tr.nOverlaps o ho').2
    have hV0 : tr.AaV.getD (A.colptr.getD A.n 0 + 2 * o) 0 = 1 := by
      rw [hV]; exact (hVs.2 o ho').1
    have hV1 : tr.AaV.getD (A.colptr.getD A.n 0 + (2 * o + 1)) 0 = -1 := by
      rw [hV]; exact (hVs.2 o ho').2
    have hxx : (fun j => if j < A.n then x j else w (j - A.n)) (A.n + o) = w o := by
      simp only [show ¬ (A.n + o < A.n) by omega, if_false, Nat.add_sub_cancel_left]
    rw [hJ0, hJ1, hV0, hV1, hxx, hcc, hpp]
    simp only
    by_cases h0 : tr.AaI.getD (A.colptr.getD A.n 0 + 2 * o) 0 = ρ
    · by_cases h1 : tr.AaI.getD (A.colptr.getD A.n 0 + (2 * o + 1)) 0 = ρ
      · rw [if_pos h0, if_pos h1, if_pos h0, if_pos h1]; simp
      · rw [if_pos h0, if_neg h1, if_pos h0, if_neg h1]; simp
    · by_cases h1 : tr.AaI.getD (A.colptr.getD A.n 0 + (2 * o + 1)) 0 = ρ
      · rw [if_neg h0, if_pos h1, if_neg h0, if_pos h1]; simp
      · rw [if_neg h0, if_neg h1, if_neg h0, if_neg h1]; simp
  rw [hfirst, hsecond, hrhs]
  simp only
  abel

end Main

end Clarabel.Chordal
