/-
  Lemmas about the packed-triangle index maps (`ClarabelModel/Chordal/TriIndex.lean`):
  the two maps are mutually inverse on the upper triangle, the packed index of an entry of
  an `n × n` block is in range, and the `usize` subtractions never wrap.
-/
import ClarabelModel.Chordal.TriIndex
import Mathlib.Data.Nat.Sqrt
import Mathlib.Tactic.Ring
import Mathlib.Tactic.Linarith

namespace Clarabel.Chordal

/-- [S] recurrence of the triangular numbers -/
theorem triangularNumber_succ (k : Nat) :
    triangularNumber (k + 1) = triangularNumber k + k + 1 := by
  unfold triangularNumber
  have h : (k + 1) * (k + 1 + 1) = k * (k + 1) + 2 * (k + 1) := by ring
  rw [h, Nat.add_mul_div_left _ _ (by decide : 0 < 2)]
  omega

/-- [S] `k (k+1)` is even -/
theorem two_mul_triangularNumber (k : Nat) : 2 * triangularNumber k = k * (k + 1) := by
  induction k with
  | zero => rfl
  | succ k ih =>
    rw [triangularNumber_succ]
    have h : (k + 1) * (k + 1 + 1) = k * (k + 1) + 2 * (k + 1) := by ring
    omega

/-- [S] `triangular_index(k) = triangular_number(k+1) - 1`, without truncation -/
theorem triangularIndex_eq (k : Nat) : triangularIndex k + 1 = triangularNumber (k + 1) := by
  unfold triangularIndex triangularNumber
  have h : (k + 1) * (k + 1 + 1) = k * (k + 3) + 2 * 1 := by ring
  rw [h, Nat.add_mul_div_left _ _ (by decide : 0 < 2)]

/-- [S] `triangular_number(0) = 0` -/
theorem triangularNumber_zero : triangularNumber 0 = 0 := rfl

/-- [S] the triangular numbers are monotone -/
theorem triangularNumber_mono {a b : Nat} (h : a ≤ b) : triangularNumber a ≤ triangularNumber b := by
  induction h with
  | refl => exact Nat.le_refl _
  | step _ ih => rw [triangularNumber_succ]; omega

/-- [S] the triangular numbers are positive from `1` on -/
theorem triangularNumber_pos {c : Nat} (h : 0 < c) : 0 < triangularNumber c := by
  obtain ⟨d, rfl⟩ : ∃ d, c = d + 1 := ⟨c - 1, by omega⟩
  rw [triangularNumber_succ]; omega

/-- [S] every index lies in exactly one column segment -/
theorem exists_column (k : Nat) :
    ∃ c, triangularNumber c ≤ k ∧ k < triangularNumber (c + 1) := by
  induction k with
  | zero => exact ⟨0, by simp [triangularNumber]⟩
  | succ k ih =>
    obtain ⟨c, h1, h2⟩ := ih
    by_cases h : k + 1 < triangularNumber (c + 1)
    · exact ⟨c, by omega, h⟩
    · refine ⟨c + 1, by omega, ?_⟩
      rw [triangularNumber_succ (c + 1)]; omega

/-- [S] the column computed through the integer square root -/
theorem column_of_isqrt {k c : Nat} (h1 : triangularNumber c ≤ k)
    (h2 : k < triangularNumber (c + 1)) : (isqrt (8 * k + 1) + 1) / 2 = c + 1 := by
  have e1 := two_mul_triangularNumber c
  have e2 := two_mul_triangularNumber (c + 1)
  have lo : 2 * c + 1 ≤ Nat.sqrt (8 * k + 1) := by
    rw [Nat.le_sqrt]
    have : (2 * c + 1) * (2 * c + 1) = 4 * (c * (c + 1)) + 1 := by ring
    omega
  have hi : Nat.sqrt (8 * k + 1) < 2 * c + 3 := by
    rw [Nat.sqrt_lt]
    have : (2 * c + 3) * (2 * c + 3) = 4 * ((c + 1) * (c + 1 + 1)) + 1 := by ring
    omega
  unfold isqrt
  omega

/-- [S] closed form of the index -> coordinate map on a column segment -/
theorem index_to_coord_of_column {k c : Nat} (h1 : triangularNumber c ≤ k)
    (h2 : k < triangularNumber (c + 1)) :
    upperTriangularIndexToCoord k = (k - triangularNumber c, c) := by
  unfold upperTriangularIndexToCoord
  by_cases hk : k = 0
  · subst hk
    have hc : c = 0 := by
      by_contra hc
      have := triangularNumber_pos (Nat.pos_of_ne_zero hc)
      omega
    subst hc
    simp
  · rw [if_neg hk]
    have hcol := column_of_isqrt h1 h2
    simp only [hcol, Nat.add_sub_cancel]
    have hc : 0 < c := by
      rcases Nat.eq_zero_or_pos c with rfl | h
      · rw [triangularNumber_succ, triangularNumber_zero] at h2; omega
      · exact h
    have e := triangularIndex_eq (c - 1)
    rw [Nat.sub_add_cancel hc] at e
    congr 1
    omega

/-- [S] closed form of the coordinate -> index map on the upper triangle -/
theorem coord_to_index_of_le {i j : Nat} (h : i ≤ j) :
    coordToUpperTriangularIndex (i, j) = triangularNumber j + i := by
  unfold coordToUpperTriangularIndex
  by_cases hj : j = 0
  · subst hj
    have : i = 0 := by omega
    subst this
    simp [triangularNumber]
  · have : ¬ (i = 0 ∧ j = 0) := fun h => hj h.2
    simp only [this, if_false, h, if_true]
    have e := triangularIndex_eq (j - 1)
    rw [Nat.sub_add_cancel (Nat.pos_of_ne_zero hj)] at e
    omega

/-- [S] `coord -> index -> coord` is the identity on the upper triangle -/
theorem coord_index_inv {i j : Nat} (h : i ≤ j) :
    upperTriangularIndexToCoord (coordToUpperTriangularIndex (i, j)) = (i, j) := by
  rw [coord_to_index_of_le h]
  have h2 : triangularNumber j + i < triangularNumber (j + 1) := by
    rw [triangularNumber_succ]; omega
  rw [index_to_coord_of_column (Nat.le_add_right _ _) h2]
  simp

example : upperTriangularIndexToCoord (coordToUpperTriangularIndex (2, 5)) = (2, 5) :=
  coord_index_inv (by decide)

/-- [S] `index -> coord` lands in the upper triangle and `coord -> index` undoes it -/
theorem index_coord_inv (k : Nat) :
    let rc := upperTriangularIndexToCoord k
    rc.1 ≤ rc.2 ∧ coordToUpperTriangularIndex rc = k := by
  obtain ⟨c, h1, h2⟩ := exists_column k
  intro rc
  have hrc : rc = (k - triangularNumber c, c) := index_to_coord_of_column h1 h2
  rw [triangularNumber_succ] at h2
  have hle : k - triangularNumber c ≤ c := by omega
  rw [hrc]
  refine ⟨hle, ?_⟩
  rw [coord_to_index_of_le hle]
  omega

/-- [S] the packed index does not depend on the order of the coordinates -/
theorem coord_index_symm (i j : Nat) :
    coordToUpperTriangularIndex (i, j) = coordToUpperTriangularIndex (j, i) := by
  unfold coordToUpperTriangularIndex
  by_cases hij : i ≤ j
  · by_cases hji : j ≤ i
    · have : i = j := by omega
      subst this; rfl
    · simp only [hij, hji, if_true, if_false]
      have : (i = 0 ∧ j = 0) ↔ (j = 0 ∧ i = 0) := by omega
      simp only [this]
  · have hji : j ≤ i := by omega
    simp only [hij, hji, if_true, if_false]
    have : (i = 0 ∧ j = 0) ↔ (j = 0 ∧ i = 0) := by omega
    simp only [this]

/-- [S] the packed index of an upper-triangle entry of an `n × n` block is in range -/
theorem coord_index_lt {i j n : Nat} (hij : i ≤ j) (hjn : j < n) :
    coordToUpperTriangularIndex (i, j) < triangularNumber n := by
  rw [coord_to_index_of_le hij]
  have := triangularNumber_mono (show j + 1 ≤ n from hjn)
  rw [triangularNumber_succ] at this
  omega

example : coordToUpperTriangularIndex (3, 3) < triangularNumber 4 :=
  coord_index_lt (by decide) (by decide)

/-- [S] the `usize` subtractions in `upper_triangular_index_to_coord` never wrap -/
theorem index_to_coord_no_underflow {k : Nat} (hk : 0 < k) :
    let col := ((isqrt (8 * k + 1) + 1) / 2) - 1
    1 ≤ (isqrt (8 * k + 1) + 1) / 2 ∧ 1 ≤ col ∧ triangularIndex (col - 1) + 1 ≤ k := by
  obtain ⟨c, h1, h2⟩ := exists_column k
  have hcol := column_of_isqrt h1 h2
  have hc : 0 < c := by
    rcases Nat.eq_zero_or_pos c with rfl | h
    · rw [triangularNumber_succ, triangularNumber_zero] at h2; omega
    · exact h
  intro col
  have hcol' : col = c := by simp only [col, hcol, Nat.add_sub_cancel]
  rw [hcol', hcol]
  refine ⟨by omega, hc, ?_⟩
  have e := triangularIndex_eq (c - 1)
  rw [Nat.sub_add_cancel hc] at e
  omega

example : let col := ((isqrt (8 * 7 + 1) + 1) / 2) - 1
    1 ≤ (isqrt (8 * 7 + 1) + 1) / 2 ∧ 1 ≤ col ∧ triangularIndex (col - 1) + 1 ≤ 7 :=
  index_to_coord_no_underflow (by decide)

end Clarabel.Chordal
