/-
  C03 round 3 — the REPORT, end to end on the USER's data.

  `Solution.post_process` copies `info.cost_primal / cost_dual / res_primal / res_dual` into
  `obj_val / obj_val_dual / r_prim / r_dual`.  Those four `info` fields (and `gap_abs`,
  `gap_rel`) are written by `Info.update` only; everything that runs between `Info.update` and
  `Solution.post_process` (`check_termination`, `set_status`, `Info::post_process`) changes
  `status` alone.  `SameFigures` is that relation; with it the chain

      user's data ─equilibrate→ internal data ─Residuals.update→ residuals ─Info.update→ info
        ─(status changes)→ final info ─Solution.post_process→ report + returned point

  is closed: the four reported numbers are the documented expressions of the RETURNED vectors
  and the user's `P, q, A, b` (`report_chain`), and a verdict reached by `is_solved` on the
  figures of the final info is the documented test of the returned point (`test_chain`) —
  for the full tolerances (`Solved`, C01) as well as for the reduced ones (`AlmostSolved`):
  on the path without rollback (`almost_solved_chain`) and on the insufficient-progress
  rollback path (`almost_solved_rollback_chain`), where the six figures restored by
  `reset_to_prev_iterate` are those `save_prev_iterate` saved next to the iterate that is
  restored and returned.
-/
import ClarabelProofs.Lemmas.InfoFigures
import ClarabelProofs.Lemmas.InfoEndToEnd
import ClarabelProofs.Lemmas.InfoRollback
import ClarabelProofs.Lemmas.InfoPresolveUser
import ClarabelProofs.Lemmas.InfoLengths
import ClarabelProofs.Props.C09

set_option linter.unusedSectionVars false
set_option linter.unusedVariables false

namespace Clarabel.InfoReport
open Clarabel Clarabel.Dense Clarabel.InfoUser Finset Residuals Info

/-! ### the chain on the user's data (over `ℝ`) -/

section chain
variable (dt dt' : ProblemData ℝ) (cones : List (ConeT ℝ)) (es : Equil.Settings ℝ)

/-- everything the report theorems need about one pass, in one bundle -/
theorem chain_figures (hu : UserData dt cones es) (heq : Equil.equilibrate dt cones es = .ok dt')
    (v : Vars ℝ) (r0 r : Resid ℝ) (hsh : StateShapes dt.n dt.m v r0) (hτ : 0 < v.τ)
    (hr : Residuals.update r0 v (toResidData dt') = .ok r)
    (i i' : InfoS ℝ) (normq normb : ℝ)
    (hi : Info.update i (toInfoEquil dt'.equilibration) normq normb v r = .ok i') :
    ∀ (X : Fin dt.n → ℝ) (S Z : Fin dt.m → ℝ),
      X = vecFn (Unscale.unscale v (toInfoEquil dt'.equilibration) false).x dt.n →
      S = vecFn (Unscale.unscale v (toInfoEquil dt'.equilibration) false).s dt.m →
      Z = vecFn (Unscale.unscale v (toInfoEquil dt'.equilibration) false).z dt.m →
      let p := problemOf dt.P dt.q dt.A dt.b dt.n dt.m
      i'.cost_primal = dot X (mulV p.P X) / 2 + dot p.q X
      ∧ i'.cost_dual = -dot p.b Z - dot X (mulV p.P X) / 2
      ∧ i'.res_primal = nrm (fun k => mulV p.A X k + S k - p.b k) / max 1 (normb + nrm X + nrm S)
      ∧ i'.res_dual = nrm (fun j => mulV p.P X j + mulVT p.A Z j + p.q j) / max 1 (normq + nrm X + nrm Z)
      ∧ i'.gap_abs = |i'.cost_primal - i'.cost_dual|
      ∧ i'.gap_rel = i'.gap_abs / max 1 (min |i'.cost_primal| |i'.cost_dual|)
      ∧ (Unscale.unscale v (toInfoEquil dt'.equilibration) false).x.size = dt.n
      ∧ (Unscale.unscale v (toInfoEquil dt'.equilibration) false).s.size = dt.m
      ∧ (Unscale.unscale v (toInfoEquil dt'.equilibration) false).z.size = dt.m := by
  intro X S Z hX hS hZ p
  have hrep := represents_of_equilibrate dt dt' cones es hu heq
  obtain ⟨hd, he, hc⟩ := scaling_pos dt dt' cones es hu heq
  obtain ⟨r', hr', hres⟩ := residuals_of_equilibrate dt dt' cones es hu heq v r0 hsh
  have hrr : r' = r := by rw [hr'] at hr; exact Except.ok.inj hr
  subst hrr
  obtain ⟨hrp, hrd, hcp, hcd, -, -, hga, hgr, -, -⟩ :=
    info_update_dense p (scalingOf dt'.equilibration dt.n dt.m) _ hrep v r' hsh.x hsh.s hsh.z hres
      i i' normq normb hi
  obtain ⟨ox, os, oz, ex, es', ez⟩ :=
    unscale_dense (scalingOf dt'.equilibration dt.n dt.m) _ hrep v hsh.x hsh.s hsh.z false
  simp only [Bool.false_eq_true, ↓reduceIte] at ex es' ez
  obtain ⟨e1, e2⟩ := res_identities p (scalingOf dt'.equilibration dt.n dt.m) (vecFn v.x dt.n)
    (vecFn v.s dt.m) (vecFn v.z dt.m) v.τ normb normq hd he hc hτ
  obtain ⟨c1, c2⟩ := cost_identities p (scalingOf dt'.equilibration dt.n dt.m) (vecFn v.x dt.n)
    (vecFn v.z dt.m) v.τ hc.ne' hτ.ne'
  rw [hX, hS, hZ, ex, es', ez]
  exact ⟨hcp.trans c1, hcd.trans c2, hrp.trans e1, hrd.trans e2, hga, hgr, ox, os, oz⟩

/-- **`report_on_user_data`** (lemma form).  The four reported numbers are the documented
expressions of the RETURNED `x, s, z` on the user's `P, q, A, b`; `gap_abs`, `gap_rel` of the
final info are formed from them as documented; lengths `n, m, m`. -/
theorem report_chain (hu : UserData dt cones es) (heq : Equil.equilibrate dt cones es = .ok dt')
    (v : Vars ℝ) (r0 r : Resid ℝ) (hsh : StateShapes dt.n dt.m v r0) (hτ : 0 < v.τ)
    (hr : Residuals.update r0 v (toResidData dt') = .ok r)
    (i i' : InfoS ℝ) (normq normb : ℝ)
    (hi : Info.update i (toInfoEquil dt'.equilibration) normq normb v r = .ok i')
    (ifin : InfoS ℝ) (hfig : SameFigures ifin i') (hst : ifin.status.isInfeasible = false)
    (sol : Unscale.Solution ℝ) (out : Unscale.Solution ℝ × Vars ℝ)
    (hpost : Unscale.postProcess sol (toInfoEquil dt'.equilibration) none v ifin = .ok out) :
    let p := problemOf dt.P dt.q dt.A dt.b dt.n dt.m
    let x := vecFn out.1.x dt.n
    let sv := vecFn out.1.s dt.m
    let z := vecFn out.1.z dt.m
    let pobj := dot x (mulV p.P x) / 2 + dot p.q x
    let dobj := -dot p.b z - dot x (mulV p.P x) / 2
    out.1.obj_val = some pobj
    ∧ out.1.obj_val_dual = some dobj
    ∧ out.1.r_prim = some (nrm (fun k => mulV p.A x k + sv k - p.b k) / max 1 (normb + nrm x + nrm sv))
    ∧ out.1.r_dual = some (nrm (fun j => mulV p.P x j + mulVT p.A z j + p.q j) / max 1 (normq + nrm x + nrm z))
    ∧ ifin.gap_abs = |pobj - dobj|
    ∧ ifin.gap_rel = |pobj - dobj| / max 1 (min |pobj| |dobj|)
    ∧ out.1.status = ifin.status ∧ out.1.iterations = ifin.iterations
    ∧ out.1.x.size = dt.n ∧ out.1.s.size = dt.m ∧ out.1.z.size = dt.m := by
  intro p x sv z pobj dobj
  obtain ⟨vx, vs, vz, ov, od, rp, rd, est, eit⟩ := postProcess_none sol _ v ifin out hpost
  rw [hst] at vx vs vz ov od
  simp only [Bool.false_eq_true, ↓reduceIte] at ov od
  obtain ⟨k1, k2, k3, k4, k5, k6, s1, s2, s3⟩ :=
    chain_figures dt dt' cones es hu heq v r0 r hsh hτ hr i i' normq normb hi x sv z
      (by show vecFn out.1.x dt.n = _; rw [vx]) (by show vecFn out.1.s dt.m = _; rw [vs])
      (by show vecFn out.1.z dt.m = _; rw [vz])
  refine ⟨?_, ?_, ?_, ?_, ?_, ?_, est, eit, by rw [vx]; exact s1, by rw [vs]; exact s2,
    by rw [vz]; exact s3⟩
  · rw [ov, hfig.cp]; exact congrArg some k1
  · rw [od, hfig.cd]; exact congrArg some k2
  · rw [rp, hfig.rp]; exact congrArg some k3
  · rw [rd, hfig.rd]; exact congrArg some k4
  · rw [hfig.ga, k5, k1, k2]
  · rw [hfig.gr, k6, k5, k1, k2]

/-- **a test on the figures is the documented test of the returned point.**  If `is_solved`
with tolerances `(ga, gr, feas)` holds on an info whose figures are those `Info.update`
assigned for the iterate `v`, the point `unscale v` (τ-normalised) passes the documented
termination test with these tolerances on the USER's data. -/
theorem test_chain (hu : UserData dt cones es) (heq : Equil.equilibrate dt cones es = .ok dt')
    (v : Vars ℝ) (r0 r : Resid ℝ) (hsh : StateShapes dt.n dt.m v r0) (hτ : 0 < v.τ)
    (hr : Residuals.update r0 v (toResidData dt') = .ok r)
    (i i' : InfoS ℝ) (normq normb : ℝ)
    (hi : Info.update i (toInfoEquil dt'.equilibration) normq normb v r = .ok i')
    (ifin : InfoS ℝ) (hfig : SameFigures ifin i') (ga gr feas : ℝ)
    (htest : (ifin.gap_abs < ga ∨ ifin.gap_rel < gr) ∧ ifin.res_primal < feas ∧ ifin.res_dual < feas) :
    let out := Unscale.unscale v (toInfoEquil dt'.equilibration) false
    let p := problemOf dt.P dt.q dt.A dt.b dt.n dt.m
    let x := vecFn out.x dt.n
    let sv := vecFn out.s dt.m
    let z := vecFn out.z dt.m
    let pobj := dot x (mulV p.P x) / 2 + dot p.q x
    let dobj := -dot p.b z - dot x (mulV p.P x) / 2
    nrm (fun k => mulV p.A x k + sv k - p.b k) / max 1 (normb + nrm x + nrm sv) < feas
    ∧ nrm (fun j => mulV p.P x j + mulVT p.A z j + p.q j) / max 1 (normq + nrm x + nrm z) < feas
    ∧ (|pobj - dobj| < ga ∨ |pobj - dobj| / max 1 (min |pobj| |dobj|) < gr) := by
  intro out p x sv z pobj dobj
  obtain ⟨k1, k2, k3, k4, k5, k6, -, -, -⟩ :=
    chain_figures dt dt' cones es hu heq v r0 r hsh hτ hr i i' normq normb hi x sv z rfl rfl rfl
  obtain ⟨hgap, hp, hdl⟩ := htest
  rw [hfig.rp, k3] at hp
  rw [hfig.rd, k4] at hdl
  rw [hfig.ga, hfig.gr, k6, k5, k1, k2] at hgap
  exact ⟨hp, hdl, hgap⟩

/-- **`AlmostSolved` without rollback** — the verdict `Info::post_process` assigns to the info
`j` left by the loop for the LAST iterate `v` (`j` = the `Info.update` result up to status
changes: `check_termination`, `set_status`) is the reduced documented test of the point that is
returned. -/
theorem almost_solved_chain (hu : UserData dt cones es) (heq : Equil.equilibrate dt cones es = .ok dt')
    (v : Vars ℝ) (r0 r : Resid ℝ) (hsh : StateShapes dt.n dt.m v r0) (hτ : 0 < v.τ)
    (hr : Residuals.update r0 v (toResidData dt') = .ok r)
    (i i' : InfoS ℝ) (normq normb : ℝ)
    (hi : Info.update i (toInfoEquil dt'.equilibration) normq normb v r = .ok i')
    (j : InfoS ℝ) (hfig : SameFigures j i') (bz qx : ℝ) (s : Settings ℝ)
    (h0 : j.status ≠ .almostSolved)
    (h : (Info.postProcess j bz qx s).status = .almostSolved) :
    let out := Unscale.unscale v (toInfoEquil dt'.equilibration) false
    let p := problemOf dt.P dt.q dt.A dt.b dt.n dt.m
    let x := vecFn out.x dt.n
    let sv := vecFn out.s dt.m
    let z := vecFn out.z dt.m
    let pobj := dot x (mulV p.P x) / 2 + dot p.q x
    let dobj := -dot p.b z - dot x (mulV p.P x) / 2
    nrm (fun k => mulV p.A x k + sv k - p.b k) / max 1 (normb + nrm x + nrm sv) < s.reduced.feas
    ∧ nrm (fun j => mulV p.P x j + mulVT p.A z j + p.q j) / max 1 (normq + nrm x + nrm z) < s.reduced.feas
    ∧ (|pobj - dobj| < s.reduced.gap_abs
        ∨ |pobj - dobj| / max 1 (min |pobj| |dobj|) < s.reduced.gap_rel) :=
  test_chain dt dt' cones es hu heq v r0 r hsh hτ hr i i' normq normb hi j hfig _ _ _
    (postProcess_almostSolved j bz qx s h0 h).2

/-- **`AlmostSolved` after the insufficient-progress rollback is judged on the RESTORED
iterate.**  Pass `k`: `Info.update` assigns `ip'` for the iterate `vp`; the loop goes on
(`save_prev_iterate` on an info `a` with the figures of `ip'`, `add_step`).  Pass `k+1`:
`Info.update` on the saved info assigns `idisc` for the new iterate, `check_termination` says
`InsufficientProgress` (`j`), `reset_to_prev_iterate` restores the six figures and the
variables `vp`, `Info::post_process` runs on the restored info.  If it says `AlmostSolved`,
then the point that is returned — `unscale vp` — passes the REDUCED documented test on the
user's data, and the figures of the final info (hence the report) are those of `vp`. -/
theorem almost_solved_rollback_chain (hu : UserData dt cones es)
    (heq : Equil.equilibrate dt cones es = .ok dt')
    (vp : Vars ℝ) (r0 rp : Resid ℝ) (hsh : StateShapes dt.n dt.m vp r0) (hτ : 0 < vp.τ)
    (hr : Residuals.update r0 vp (toResidData dt') = .ok rp)
    (i ip' : InfoS ℝ) (normq normb : ℝ)
    (hi : Info.update i (toInfoEquil dt'.equilibration) normq normb vp rp = .ok ip')
    (a : InfoS ℝ) (ha : SameFigures a ip')
    (idisc : InfoS ℝ) (hprev : PrevIs idisc (savePrev a))
    (bz qx : ℝ) (s : Settings ℝ) (iter : Nat) (tov : Bool)
    (hip : (checkTermination idisc bz qx s iter tov).1.status = .insufficientProgress)
    (h : (Info.postProcess (resetToPrev (checkTermination idisc bz qx s iter tov).1) bz qx s).status
          = .almostSolved) :
    let ifin := Info.postProcess (resetToPrev (checkTermination idisc bz qx s iter tov).1) bz qx s
    let out := Unscale.unscale vp (toInfoEquil dt'.equilibration) false
    let p := problemOf dt.P dt.q dt.A dt.b dt.n dt.m
    let x := vecFn out.x dt.n
    let sv := vecFn out.s dt.m
    let z := vecFn out.z dt.m
    let pobj := dot x (mulV p.P x) / 2 + dot p.q x
    let dobj := -dot p.b z - dot x (mulV p.P x) / 2
    SameFigures ifin ip'
    ∧ nrm (fun k => mulV p.A x k + sv k - p.b k) / max 1 (normb + nrm x + nrm sv) < s.reduced.feas
    ∧ nrm (fun j => mulV p.P x j + mulVT p.A z j + p.q j) / max 1 (normq + nrm x + nrm z) < s.reduced.feas
    ∧ (|pobj - dobj| < s.reduced.gap_abs
        ∨ |pobj - dobj| / max 1 (min |pobj| |dobj|) < s.reduced.gap_rel) := by
  intro ifin out p x sv z pobj dobj
  obtain ⟨st, hj⟩ := checkTermination_eq_status idisc bz qx s iter tov
  -- the restored figures are those of `ip'`
  have hpj : PrevIs (checkTermination idisc bz qx s iter tov).1 ip' := by
    rw [hj]
    exact ⟨hprev.cp.trans ha.cp, hprev.cd.trans ha.cd, hprev.rp.trans ha.rp, hprev.rd.trans ha.rd,
      hprev.ga.trans ha.ga, hprev.gr.trans ha.gr⟩
  have hres : SameFigures (resetToPrev (checkTermination idisc bz qx s iter tov).1) ip' :=
    sameFigures_resetToPrev hpj
  have hfin : SameFigures ifin ip' := (sameFigures_postProcess _ bz qx s).trans hres
  have h0 : (resetToPrev (checkTermination idisc bz qx s iter tov).1).status ≠ .almostSolved := by
    show (checkTermination idisc bz qx s iter tov).1.status ≠ .almostSolved
    rw [hip]; decide
  have htest := (postProcess_almostSolved _ bz qx s h0 h).2
  exact ⟨hfin, test_chain dt dt' cones es hu heq vp r0 rp hsh hτ hr i ip' normq normb hi _ hres _ _ _ htest⟩

end chain

/-! ### presolve: the report on the user's FULL data -/

section presolved
open Clarabel.InfoPresolve
variable {n m mr : ℕ}

/-- what `reverse_presolve` returns (`C01.presolve_transparent`, restated here so that this file
does not import another property's theorem file) -/
theorem reversePresolve_facts {β : Type} [OfNat β 0] (p : Unscale.PresolveMap β)
    (sol : Unscale.Solution β) (v : Residuals.Vars β) (r : Unscale.Solution β)
    (h : Unscale.reversePresolve p sol v = .ok r) :
    r.x = v.x
    ∧ ∀ k, (hk : k < p.keep.toList.length) →
        (p.keep.toList[k] = true →
            r.s[k]? = v.s[Unscale.rank p.keep.toList k]? ∧ r.z[k]? = v.z[Unscale.rank p.keep.toList k]?
            ∧ (v.s[Unscale.rank p.keep.toList k]?).isSome ∧ (v.z[Unscale.rank p.keep.toList k]?).isSome)
        ∧ (p.keep.toList[k] = false → r.s[k]? = some p.infbound ∧ r.z[k]? = some 0) := by
  unfold Unscale.reversePresolve at h
  simp only [bind, Except.bind, pure, Except.pure] at h
  split at h
  · cases h
  · rename_i x' hx
    split at h
    · cases h
    · rename_i sz hsz
      obtain ⟨s', z'⟩ := sz
      have hxe : x' = v.x := by
        unfold Unscale.copyFrom at hx
        split at hx
        · cases hx
        · cases hx; rfl
      obtain ⟨_, hB⟩ := Unscale.reverseLoop_spec _ _ _ _ _ _ _ _ _ _ hsz
      cases h
      refine ⟨hxe, fun k hk => ?_⟩
      have := hB k hk
      simpa using this

/-- **the reported numbers on the user's full data when rows were dropped by presolve.**  If
`ov, od, rp, rd` are the documented expressions of the un-scaled REDUCED point `vout` on the
reduced data `(P, q, A', b')`, then for the full-length vectors `reverse_presolve` returns they
are the documented expressions on the user's FULL `(P, q, A, b)`: objective, dual objective
(`z = 0` on dropped rows: nothing is added to `bᵀz`) and dual residual verbatim; the primal
residual with the residual norm and `‖s‖` taken over the kept rows (on dropped rows
`s = infbound`). -/
theorem report_presolved (keepL : List Bool)
    (hm : keepL.length = m) (hmr : keepL.count true = mr)
    (P : Fin n → Fin n → ℝ) (q : Fin n → ℝ)
    (A A' : Csc ℝ) (b : Array ℝ) (hAc : C16.Canonical A) (hAm : A.m = m) (hAn : A.n = n)
    (hb : b.size = m) (hsel : A.selectRows keepL.toArray = .ok A')
    (infbound : ℝ) (sol r : Unscale.Solution ℝ) (vout : Vars ℝ)
    (hrev : Unscale.reversePresolve { keep := keepL.toArray, infbound := infbound } sol vout = .ok r)
    (normb normq ov od rp rd : ℝ)
    (hov : ov = dot (vecFn vout.x n) (mulV P (vecFn vout.x n)) / 2 + dot q (vecFn vout.x n))
    (hod : od = -dot (vecFn (Vec.select b keepL.toArray) mr) (vecFn vout.z mr)
                  - dot (vecFn vout.x n) (mulV P (vecFn vout.x n)) / 2)
    (hrp : rp = nrm (fun k => mulV (matFn A' mr n) (vecFn vout.x n) k + vecFn vout.s mr k
                  - vecFn (Vec.select b keepL.toArray) mr k)
              / max 1 (normb + nrm (vecFn vout.x n) + nrm (vecFn vout.s mr)))
    (hrd : rd = nrm (fun j => mulV P (vecFn vout.x n) j + mulVT (matFn A' mr n) (vecFn vout.z mr) j + q j)
              / max 1 (normq + nrm (vecFn vout.x n) + nrm (vecFn vout.z mr))) :
    let x := vecFn r.x n
    let s := vecFn r.s m
    let z := vecFn r.z m
    let keep := keepFn keepL m
    ov = dot x (mulV P x) / 2 + dot q x
    ∧ od = -dot (vecFn b m) z - dot x (mulV P x) / 2
    ∧ rp = nrmKept keep (fun i => mulV (matFn A m n) x i + s i - vecFn b m i)
            / max 1 (normb + nrm x + nrmKept keep s)
    ∧ rd = nrm (fun j => mulV P x j + mulVT (matFn A m n) z j + q j) / max 1 (normq + nrm x + nrm z)
    ∧ ∀ i, keep i = false → s i = infbound ∧ z i = 0 := by
  obtain ⟨hx, hfacts⟩ := reversePresolve_facts _ sol vout r hrev
  have hfacts' : ∀ k, (hk : k < keepL.length) →
      (keepL[k] = true →
          r.s[k]? = vout.s[Unscale.rank keepL k]? ∧ r.z[k]? = vout.z[Unscale.rank keepL k]?
          ∧ (vout.s[Unscale.rank keepL k]?).isSome ∧ (vout.z[Unscale.rank keepL k]?).isSome)
      ∧ (keepL[k] = false → r.s[k]? = some infbound ∧ r.z[k]? = some 0) := by
    intro k hk
    have := hfacts k (by simpa using hk)
    simpa using this
  obtain ⟨hdrop, hkept⟩ := reversal_fn_facts_of_transparent keepL hm hmr infbound r.s r.z vout.s vout.z hfacts'
  obtain ⟨A'', hsel', -, -, -, hdense, -⟩ := C09.reduced_problem_dense A keepL hAc (by rw [hm, hAm])
  have hA'' : A'' = A' := by rw [hsel'] at hsel; exact Except.ok.inj hsel
  subst hA''
  have hA' := matFn_reduced (n := n) keepL hm hmr A A'' hAm hAn hdense
  have hb' := vecFn_select keepL hm hmr b hb
  obtain ⟨e1, e2, e3, e4, e5, -⟩ := full_eq_reduced_numbers (embFin keepL hm hmr) (keepFn keepL m)
    (embFin_injective keepL hm hmr) (embFin_keep_iff keepL hm hmr) (matFn A m n) (vecFn b m)
    (vecFn r.s m) (vecFn r.z m) (matFn A'' mr n) (vecFn (Vec.select b keepL.toArray) mr)
    (vecFn vout.s mr) (vecFn vout.z mr) hA' hb' (fun k => (hkept k).1) (fun k => (hkept k).2)
    (fun i hi => (hdrop i hi).2) (vecFn vout.x n)
  intro x s z keep
  have hxx : x = vecFn vout.x n := by show vecFn r.x n = _; rw [hx]
  have e1' : (fun j => mulV P x j + mulVT (matFn A m n) z j + q j)
      = fun j => mulV P x j + mulVT (matFn A'' mr n) (vecFn vout.z mr) j + q j :=
    funext (fun j => by rw [e1 j])
  refine ⟨by rw [hxx]; exact hov, ?_, ?_, ?_, hdrop⟩
  · rw [hxx, e2]; exact hod
  · rw [hxx, e5, e4]; exact hrp
  · rw [e1', e3, hxx]; exact hrd

end presolved

end Clarabel.InfoReport
