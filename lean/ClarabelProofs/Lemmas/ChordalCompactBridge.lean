/-
  Bridge between `compact_equiv` and `reverse_compact`: the sum `S[r] = Σ_{ρ : OrigOf ρ r} st[ρ]`
  of the slack over all rows of the compact problem that hold the original row `r` is exactly what
  `decomp_reverse_compact` returns in row `r` (over an additive commutative monoid).
-/
import ClarabelProofs.Lemmas.ChordalCompactEquiv
import ClarabelProofs.Lemmas.ChordalReverseCompactAll

namespace Clarabel.Chordal
open Finset
variable {α : Type}

theorem list_filter_sum_eq_finset [AddCommMonoid α] (P : Nat → Prop) [DecidablePred P] (f : Nat → α) (n : Nat) :
    (((List.range n).filter (fun d => decide (P d))).map f).sum = ∑ d ∈ range n, if P d then f d else 0 := by
  induction n with
  | zero => simp
  | succ n ih =>
    rw [List.range_succ, List.filter_append, List.map_append, List.sum_append, ih, Finset.sum_range_succ]
    by_cases h : P n
    · simp [h]
    · simp [h]

/-- the row of the block of the clique visited in pass `d'` that holds the entry `(a, b)` -/
def hasRow (p : SPattern) (row0 a b d' : Nat) : Nat :=
  p.blockRow row0 (p.sntree.nCliques - 1 - d')
    ((p.cliqueO (p.sntree.nCliques - 1 - d')).idxOf a) ((p.cliqueO (p.sntree.nCliques - 1 - d')).idxOf b)

open Classical in
/-- rows of the compact problem holding the entry `(a, b)` of a decomposed cone ↔ cliques that
contain the entry -/
theorem origOf_psd_iff (ci : ChordalInfo) (hv : ValidInfo ci) (c : Nat) (hc : c < ci.initCones.size)
    (p : SPattern) (hp : ci.patAt c = some p) (k' : Nat) (hk' : k' < ci.nv c) (ρ : Nat) :
    OrigOf ci ρ (ci.rs c + k') ↔
      ∃ d', d' < p.sntree.nCliques ∧
        CliqueHas p (upperTriangularIndexToCoord k').1 (upperTriangularIndexToCoord k').2 d' ∧
        ρ = hasRow p (ci.newStart c) (upperTriangularIndexToCoord k').1 (upperTriangularIndexToCoord k').2 d' := by
  have hvp := (hv.pat c hc p hp).1
  have hco := index_coord_inv k'
  simp only at hco
  obtain ⟨hle, htri⟩ := hco
  constructor
  · rintro ⟨c', hc', h3⟩
    have hcc : c' = c := by
      rcases h3 with ⟨hp', h1, h2, hr⟩ | ⟨p', hp', i, x, y, hi, hxy, hy, _, hr⟩
      · exact cone_unique ci c' c (ci.rs c + k') hc' hc (by omega) (by omega) (by omega) (by omega)
      · have hvp' := (hv.pat c' hc' p' hp').1
        have hf := cliqueFacts p' hvp' i hi
        have h1 := (getD_le_iff_of_sorted hf.clique_sorted (by omega) hy).2 hxy
        have h2 := hf.clique_lt _ (getD_mem_of_lt hy)
        have h3 := coord_index_lt h1 h2
        have hnv : ci.nv c' = triangularNumber p'.ordering.size := by
          unfold ChordalInfo.nv; rw [(hv.pat c' hc' p' hp').2]; rfl
        exact cone_unique ci c' c (ci.rs c + k') hc' hc (by omega) (by omega) (by omega) (by omega)
    subst hcc
    rcases h3 with ⟨hp', _⟩ | ⟨p', hp', i, x, y, hi, hxy, hy, hρ, hr⟩
    · rw [hp] at hp'; cases hp'
    · rw [hp] at hp'
      cases hp'
      have hf := cliqueFacts p hvp i hi
      have h1 := (getD_le_iff_of_sorted hf.clique_sorted (by omega) hy).2 hxy
      obtain ⟨ea, eb⟩ := tri_pair_inj hle h1 (by rw [htri]; omega)
      refine ⟨p.sntree.nCliques - 1 - i, by omega, ?_, ?_⟩
      · unfold CliqueHas
        rw [show p.sntree.nCliques - 1 - (p.sntree.nCliques - 1 - i) = i by omega, ea, eb]
        exact ⟨getD_mem_of_lt (by omega), getD_mem_of_lt hy⟩
      · unfold hasRow
        rw [show p.sntree.nCliques - 1 - (p.sntree.nCliques - 1 - i) = i by omega, hρ, ea, eb]
        have hx : (p.cliqueO i).idxOf ((p.cliqueO i).getD x 0) = x := by
          have hm : (p.cliqueO i).getD x 0 ∈ p.cliqueO i := getD_mem_of_lt (by omega)
          obtain ⟨h1', h2'⟩ := getD_idxOf hm
          exact getD_inj_of_sorted hf.clique_sorted h1' (by omega) h2'
        have hy' : (p.cliqueO i).idxOf ((p.cliqueO i).getD y 0) = y := by
          have hm : (p.cliqueO i).getD y 0 ∈ p.cliqueO i := getD_mem_of_lt hy
          obtain ⟨h1', h2'⟩ := getD_idxOf hm
          exact getD_inj_of_sorted hf.clique_sorted h1' hy h2'
        rw [hx, hy']
  · rintro ⟨d', hd', hhas, rfl⟩
    have hi : p.sntree.nCliques - 1 - d' < p.sntree.nCliques := by omega
    have hf := cliqueFacts p hvp _ hi
    obtain ⟨hx, hxe⟩ := getD_idxOf hhas.1
    obtain ⟨hy, hye⟩ := getD_idxOf hhas.2
    refine ⟨c, hc, Or.inr ⟨p, hp, _, _, _, hi, ?_, hy, rfl, ?_⟩⟩
    · rw [← getD_le_iff_of_sorted hf.clique_sorted hx hy, hxe, hye]; exact hle
    · rw [hxe, hye, htri]

open Classical in
/-- **bridge**: for the entry `(a, b)` of a decomposed cone, the sum of the slack over the rows of
the compact problem that hold it is the sum over the cliques containing it of the slack of its row
in that clique's block — what `decomp_reverse_compact` returns for `s` (`reverse_compact_sum`) -/
theorem origSum_psd_eq [AddCommMonoid α] (ci : ChordalInfo) (hv : ValidInfo ci) (c : Nat)
    (hc : c < ci.initCones.size) (p : SPattern) (hp : ci.patAt c = some p) (k' : Nat) (hk' : k' < ci.nv c)
    (st : Nat → α) :
    (∑ ρ ∈ range (ci.newStart ci.initCones.size), if OrigOf ci ρ (ci.rs c + k') then st ρ else 0) =
      ∑ d' ∈ range p.sntree.nCliques,
        if CliqueHas p (upperTriangularIndexToCoord k').1 (upperTriangularIndexToCoord k').2 d' then
          st (hasRow p (ci.newStart c) (upperTriangularIndexToCoord k').1 (upperTriangularIndexToCoord k').2 d')
        else 0 := by
  have hvp := (hv.pat c hc p hp).1
  have hiff := origOf_psd_iff ci hv c hc p hp k' hk'
  -- in range
  have hlt : ∀ d', d' < p.sntree.nCliques →
      CliqueHas p (upperTriangularIndexToCoord k').1 (upperTriangularIndexToCoord k').2 d' →
      hasRow p (ci.newStart c) (upperTriangularIndexToCoord k').1 (upperTriangularIndexToCoord k').2 d' <
        ci.newStart ci.initCones.size := by
    intro d' hd' hhas
    have hi : p.sntree.nCliques - 1 - d' < p.sntree.nCliques := by omega
    have hf := cliqueFacts p hvp _ hi
    obtain ⟨hx, hxe⟩ := getD_idxOf hhas.1
    obtain ⟨hy, hye⟩ := getD_idxOf hhas.2
    have hco := index_coord_inv k'
    simp only at hco
    have hxy : (p.cliqueO (p.sntree.nCliques - 1 - d')).idxOf (upperTriangularIndexToCoord k').1 ≤
        (p.cliqueO (p.sntree.nCliques - 1 - d')).idxOf (upperTriangularIndexToCoord k').2 := by
      rw [← getD_le_iff_of_sorted hf.clique_sorted hx hy, hxe, hye]; exact hco.1
    have h1 := blockRow_lt p hvp (ci.newStart c) _ _ _ hi hxy hy
    have h2 := ci.newStart_le_dim (c + 1) (by omega)
    rw [ci.newStart_succ_some c p hp] at h2
    unfold hasRow
    omega
  -- injectivity of the row on the cliques containing the entry
  have hinj : ∀ d1 d2, d1 < p.sntree.nCliques → d2 < p.sntree.nCliques →
      CliqueHas p (upperTriangularIndexToCoord k').1 (upperTriangularIndexToCoord k').2 d1 →
      CliqueHas p (upperTriangularIndexToCoord k').1 (upperTriangularIndexToCoord k').2 d2 →
      hasRow p (ci.newStart c) (upperTriangularIndexToCoord k').1 (upperTriangularIndexToCoord k').2 d1 =
        hasRow p (ci.newStart c) (upperTriangularIndexToCoord k').1 (upperTriangularIndexToCoord k').2 d2 →
      d1 = d2 := by
    intro d1 d2 h1 h2 c1 c2 he
    have hi1 : p.sntree.nCliques - 1 - d1 < p.sntree.nCliques := by omega
    have hi2 : p.sntree.nCliques - 1 - d2 < p.sntree.nCliques := by omega
    have hf1 := cliqueFacts p hvp _ hi1
    have hf2 := cliqueFacts p hvp _ hi2
    have hco := index_coord_inv k'
    simp only at hco
    obtain ⟨hx1, hxe1⟩ := getD_idxOf c1.1
    obtain ⟨hy1, hye1⟩ := getD_idxOf c1.2
    obtain ⟨hx2, hxe2⟩ := getD_idxOf c2.1
    obtain ⟨hy2, hye2⟩ := getD_idxOf c2.2
    have hxy1 : (p.cliqueO (p.sntree.nCliques - 1 - d1)).idxOf (upperTriangularIndexToCoord k').1 ≤
        (p.cliqueO (p.sntree.nCliques - 1 - d1)).idxOf (upperTriangularIndexToCoord k').2 := by
      rw [← getD_le_iff_of_sorted hf1.clique_sorted hx1 hy1, hxe1, hye1]; exact hco.1
    have hxy2 : (p.cliqueO (p.sntree.nCliques - 1 - d2)).idxOf (upperTriangularIndexToCoord k').1 ≤
        (p.cliqueO (p.sntree.nCliques - 1 - d2)).idxOf (upperTriangularIndexToCoord k').2 := by
      rw [← getD_le_iff_of_sorted hf2.clique_sorted hx2 hy2, hxe2, hye2]; exact hco.1
    have := (blockRow_inj p hvp (ci.newStart c) hi1 hxy1 hy1 hi2 hxy2 hy2 he).1
    omega
  -- rewrite the indicator of `OrigOf` as a sum over the cliques
  have hind : ∀ ρ, (if OrigOf ci ρ (ci.rs c + k') then st ρ else 0) =
      ∑ d' ∈ range p.sntree.nCliques,
        if CliqueHas p (upperTriangularIndexToCoord k').1 (upperTriangularIndexToCoord k').2 d' ∧
            hasRow p (ci.newStart c) (upperTriangularIndexToCoord k').1 (upperTriangularIndexToCoord k').2 d' = ρ
          then st ρ else 0 := by
    intro ρ
    by_cases h : OrigOf ci ρ (ci.rs c + k')
    · rw [if_pos h]
      obtain ⟨d0, hd0, hhas0, hρ⟩ := (hiff ρ).1 h
      rw [Finset.sum_eq_single d0]
      · rw [if_pos ⟨hhas0, hρ.symm⟩]
      · intro d hd hne
        rw [if_neg]
        rintro ⟨hh, he⟩
        exact hne (hinj d d0 (Finset.mem_range.1 hd) hd0 hh hhas0 (he.trans hρ))
      · intro hn; exact absurd (Finset.mem_range.2 hd0) hn
    · rw [if_neg h]
      symm
      apply Finset.sum_eq_zero
      intro d hd
      rw [if_neg]
      rintro ⟨hh, he⟩
      exact h ((hiff ρ).2 ⟨d, Finset.mem_range.1 hd, hh, he.symm⟩)
  simp only [hind]
  rw [Finset.sum_comm]
  apply Finset.sum_congr rfl
  intro d hd
  by_cases hh : CliqueHas p (upperTriangularIndexToCoord k').1 (upperTriangularIndexToCoord k').2 d
  · rw [if_pos hh]
    have : ∀ ρ, (if CliqueHas p (upperTriangularIndexToCoord k').1 (upperTriangularIndexToCoord k').2 d ∧
        hasRow p (ci.newStart c) (upperTriangularIndexToCoord k').1 (upperTriangularIndexToCoord k').2 d = ρ
        then st ρ else 0) =
        if hasRow p (ci.newStart c) (upperTriangularIndexToCoord k').1 (upperTriangularIndexToCoord k').2 d = ρ
        then st ρ else 0 := by
      intro ρ
      by_cases he : hasRow p (ci.newStart c) (upperTriangularIndexToCoord k').1
          (upperTriangularIndexToCoord k').2 d = ρ
      · rw [if_pos ⟨hh, he⟩, if_pos he]
      · rw [if_neg (fun h => he h.2), if_neg he]
    simp only [this]
    rw [Finset.sum_ite_eq, if_pos (Finset.mem_range.2 (hlt d (Finset.mem_range.1 hd) hh))]
  · rw [if_neg hh]
    apply Finset.sum_eq_zero
    intro ρ _
    rw [if_neg (fun h => hh h.1)]

open Classical in
/-- the `s` returned by `decomp_reverse_compact` for the entry `(a, b)` of a decomposed cone is the
sum `S[r]` of `compact_equiv` when `old_s` stores the slack `st` of the compact problem -/
theorem revFoldS_eq_origSum [AddCommMonoid α] (ci : ChordalInfo) (hv : ValidInfo ci) (c : Nat)
    (hc : c < ci.initCones.size) (p : SPattern) (hp : ci.patAt c = some p) (k' : Nat) (hk' : k' < ci.nv c)
    (st : Nat → α) (oldS : Array α)
    (hold : ∀ ρ, ρ < ci.newStart ci.initCones.size → oldS.getD ρ 0 = st ρ) :
    revFoldS p (ci.newStart c) oldS (upperTriangularIndexToCoord k').1 (upperTriangularIndexToCoord k').2
        p.sntree.nCliques =
      ∑ ρ ∈ range (ci.newStart ci.initCones.size), if OrigOf ci ρ (ci.rs c + k') then st ρ else 0 := by
  rw [origSum_psd_eq ci hv c hc p hp k' hk' st, revFoldS_eq_sum,
    list_filter_sum_eq_finset (CliqueHas p (upperTriangularIndexToCoord k').1 (upperTriangularIndexToCoord k').2)]
  apply Finset.sum_congr rfl
  intro d hd
  by_cases hh : CliqueHas p (upperTriangularIndexToCoord k').1 (upperTriangularIndexToCoord k').2 d
  · rw [if_pos hh, if_pos hh]
    unfold blockEntry
    have hvp := (hv.pat c hc p hp).1
    have hi : p.sntree.nCliques - 1 - d < p.sntree.nCliques := by
      have := Finset.mem_range.1 hd; omega
    have hf := cliqueFacts p hvp _ hi
    obtain ⟨hx, hxe⟩ := getD_idxOf hh.1
    obtain ⟨hy, hye⟩ := getD_idxOf hh.2
    have hco := index_coord_inv k'
    simp only at hco
    have hxy : (p.cliqueO (p.sntree.nCliques - 1 - d)).idxOf (upperTriangularIndexToCoord k').1 ≤
        (p.cliqueO (p.sntree.nCliques - 1 - d)).idxOf (upperTriangularIndexToCoord k').2 := by
      rw [← getD_le_iff_of_sorted hf.clique_sorted hx hy, hxe, hye]; exact hco.1
    have h1 := blockRow_lt p hvp (ci.newStart c) _ _ _ hi hxy hy
    have h2 := ci.newStart_le_dim (c + 1) (by omega)
    rw [ci.newStart_succ_some c p hp] at h2
    exact hold _ (by omega)
  · rw [if_neg hh, if_neg hh]

end Clarabel.Chordal
